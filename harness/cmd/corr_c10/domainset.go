package main

import (
	"bytes"
	"fmt"
	"regexp"
	"sort"
	"strings"

	"ssvharness/internal/common"

	"github.com/database64128/shadowsocks-go/domainset"
)

// Rule is one rule as the generator meant it: Kind d(omain) s(uffix) k(eyword) r(egexp).
type Rule struct {
	Kind string `json:"k"`
	Rule string `json:"r"`
}

const f18Key = "F18:text-rule-trailing-cr-changes-after-rewrite"

var labels = []string{"a", "b", "c", "com", "x1", ""}
var regexps = []string{`^a\.`, `c$`, `\.b\.`, `(^|\.)a\.b$`, `^$`, `x1`, `^[abc]+\.com$`, `\.\.`}

func genName(r *common.Rng, maxLabels int) string {
	n := r.Range(1, maxLabels)
	ls := make([]string, n)
	for i := range ls {
		ls[i] = common.Pick(r, labels)
		if ls[i] == "" && !r.Chance(1, 3) { // the empty label is kept rare
			ls[i] = common.Pick(r, labels[:5])
		}
	}
	return strings.Join(ls, ".")
}

var sizes = []int{0, 1, 4, 5, 16, 17, 100}

func genRules(r *common.Rng, allowEmpty bool) []Rule {
	var rules []Rule
	nd := common.Pick(r, sizes)
	ns := common.Pick(r, sizes)
	if r.Chance(1, 2) { // smaller sets dominate: extension pairs and thresholds
		nd = common.Pick(r, sizes[:6])
		ns = common.Pick(r, sizes[:4])
	}
	if r.Chance(1, 6) {
		ns = r.Range(2, 6)
	}
	nk := r.Intn(4)
	nr := 0
	if r.Chance(1, 3) {
		nr = r.Range(1, 3)
	}
	var suffixes []string
	distinct := func(seen map[string]bool, mk func() string) string {
		for try := 0; try < 30; try++ {
			s := mk()
			if !seen[s] {
				seen[s] = true
				return s
			}
		}
		s := mk()
		seen[s] = true
		return s
	}
	seenD := map[string]bool{}
	for i := 0; i < nd; i++ {
		rules = append(rules, Rule{"d", distinct(seenD, func() string { return genName(r, 4) })})
	}
	seenS := map[string]bool{}
	for i := 0; i < ns; i++ {
		s := distinct(seenS, func() string {
			if len(suffixes) > 0 && r.Chance(1, 2) {
				base := common.Pick(r, suffixes)
				switch r.Intn(3) {
				case 0: // an extension of an earlier rule
					return common.Pick(r, labels) + "." + base
				case 1: // a suffix of an earlier rule
					if i := strings.IndexByte(base, '.'); i >= 0 {
						return base[i+1:]
					}
					return base
				default: // same labels, not on a label boundary
					return common.Pick(r, labels[:5]) + base
				}
			}
			return genName(r, 3)
		})
		suffixes = append(suffixes, s)
		rules = append(rules, Rule{"s", s})
	}
	for i := 0; i < nk; i++ {
		n := genName(r, 3)
		a := r.Intn(len(n) + 1)
		b := a + r.Range(1, 4)
		if b > len(n) {
			b = len(n)
		}
		k := n[a:b]
		if k == "" {
			k = common.Pick(r, []string{"a", ".", "om", "a.b", "."})
		}
		rules = append(rules, Rule{"k", k})
	}
	for i := 0; i < nr; i++ {
		re := common.Pick(r, regexps)
		if r.Chance(1, 25) {
			re = "a("
		}
		rules = append(rules, Rule{"r", re})
	}
	// interleave the kinds
	for i := len(rules) - 1; i > 0; i-- {
		j := r.Intn(i + 1)
		rules[i], rules[j] = rules[j], rules[i]
	}
	if !allowEmpty {
		out := rules[:0]
		for _, ru := range rules {
			if ru.Rule != "" {
				out = append(out, ru)
			}
		}
		rules = out
	}
	return rules
}

var prefixOf = map[string]string{"d": "domain:", "s": "suffix:", "k": "keyword:", "r": "regexp:"}

var noiseLines = []string{"", "\r", "# comment", "#", "#suffix:zzz.zzz", "# shadowsocks-go domain set capacity hint 1 2 3 4 DSKR", "#domain:a", "# shadowsocks-go domain set capacity hint ", "##"}

var badLines = []string{"suffix:", "domain:", "regexp:", "keyword:", "keyword", "keywordx:abc", "keywor:abc", "domain", "foo", " suffix:a", "Suffix:a.b", "suffix a.b", "a.b", ":", "suffi:a.b"}

var badHints = []string{"1 2 3 DSKR", "a 0 0 0 DSKR", "-1 0 0 0 DSKR", "0 0 0 0 DSKX", "0 0 0 0", "0 0 0 0 DSKR ", "0  0 0 0 DSKR", "1.5 0 0 0 DSKR", "9223372036854775808 0 0 0 DSKR", "0 0 0 0 0 DSKR", " 0 0 0 0 DSKR", "0x1 0 0 0 DSKR", "1_0 0 0 0 DSKR"}

func countKinds(rules []Rule) (d, s, k, r int) {
	for _, ru := range rules {
		switch ru.Kind {
		case "d":
			d++
		case "s":
			s++
		case "k":
			k++
		case "r":
			r++
		}
	}
	return
}

const hintPrefix = "# shadowsocks-go domain set capacity hint "

// render writes the rules as a text file with line-ending / blank / comment / hint noise.
func render(r *common.Rng, rules []Rule, c *Case) {
	var sb strings.Builder
	eol := func() string {
		if r.Chance(1, 3) {
			return "\r\n"
		}
		return "\n"
	}
	crlfAll := r.Chance(1, 4)
	if crlfAll {
		eol = func() string { return "\r\n" }
	}
	noise := func() {
		for r.Chance(1, 5) {
			n, e := common.Pick(r, noiseLines), eol()
			if n == "\r" && e == "\r\n" {
				c.CRTail = true // a blank line made of CR CR LF
			}
			sb.WriteString(n)
			sb.WriteString(e)
		}
	}
	c.TextOK = true
	nd, ns, nk, nr := countKinds(rules)
	switch r.Intn(8) {
	case 0, 1, 2: // the hint WriteText would write
		fmt.Fprintf(&sb, "%s%d %d %d %d DSKR%s", hintPrefix, nd, ns, nk, nr, eol())
	case 3: // some other acceptable hint
		fmt.Fprintf(&sb, "%s%s %d %s %d DSKR%s", hintPrefix, common.Pick(r, []string{"0", "+5", "-0", "007", "100"}), r.Intn(50), common.Pick(r, []string{"0", "1", "+0", "00"}), r.Intn(3), eol())
	case 4: // leading blank lines before the hint
		sb.WriteString(common.Pick(r, []string{"\n", "\r\n", "\n\n", "\r\n\r\n"}))
		fmt.Fprintf(&sb, "%s%d %d %d %d DSKR%s", hintPrefix, nd, ns, nk, nr, eol())
	default: // no hint
	}
	if r.Chance(1, 25) { // a well-formed hint with absurd numbers (HintPanic: beyond the precondition of make([]string, 0, n)):
		// since e3a55d9 every hint is clamped by the size of the text, so these load like any other file; before, the
		// keyword/regexp ones panicked ("makeslice: cap out of range")
		sb.Reset()
		huge := []string{"17592186044417", "9223372036854775807", "4611686018427387904"}
		d, k, rx := "0", "0", "0"
		switch r.Intn(4) {
		case 0:
			d = common.Pick(r, huge[1:])
		case 1:
			k = common.Pick(r, huge)
			c.HintPanic = true
		case 2:
			rx = common.Pick(r, huge)
			c.HintPanic = true
		default:
			k = "1048576" // 2^20 strings = 16 MiB: really allocated
		}
		fmt.Fprintf(&sb, "%s%s %d %s %s DSKR%s", hintPrefix, d, r.Intn(5), k, rx, eol())
	}
	if r.Chance(1, 30) { // a malformed hint as the first line
		c.HintPanic = false
		sb.Reset()
		sb.WriteString(hintPrefix + common.Pick(r, badHints) + eol())
		c.TextOK = false
	}
	badAt := -1
	if r.Chance(1, 20) && len(rules) > 0 {
		badAt = r.Intn(len(rules))
	}
	crAt := -1
	if r.Chance(1, 12) && len(rules) > 0 {
		crAt = r.Intn(len(rules))
	}
	for i, ru := range rules {
		noise()
		if i == badAt {
			sb.WriteString(common.Pick(r, badLines))
			sb.WriteString(eol())
			c.TextOK = false
		}
		sb.WriteString(prefixOf[ru.Kind])
		sb.WriteString(ru.Rule)
		last := i == len(rules)-1
		switch {
		case i == crAt: // CR CR LF
			sb.WriteString("\r\r\n")
			c.CRTail = true
		case last && r.Chance(1, 4): // no line terminator at the end of the file
			if r.Chance(1, 3) {
				sb.WriteString("\r") // … but a CR
				c.CRTail = true
			}
		default:
			sb.WriteString(eol())
		}
	}
	if sb.Len() > 0 && (strings.HasSuffix(sb.String(), "\n")) {
		noise()
	}
	c.Text = sb.String()
}

func genDomainCase(r *common.Rng, o *common.Options, idx int) Case {
	c := Case{Engine: "domainset"}
	c.Rules = genRules(r, false)
	if r.Chance(1, 12) { // rules only a gob / a direct builder can hold: empty, CR at the end, LF inside
		k := common.Pick(r, []string{"d", "s", "k"})
		c.Rules = append(c.Rules, Rule{k, common.Pick(r, []string{"", "a.b\r", "a\nsuffix:c", "\r", "a.b\n"})})
	}
	render(r, textRules(c.Rules), &c)
	_, ns, _, _ := countKinds(c.Rules)
	maxPerm := 4
	if o.Thorough() {
		maxPerm = 6
	}
	c.Perms = ns >= 2 && ns <= maxPerm
	c.Probes = genProbes(r, c.Rules, o)
	return c
}

// textRules: the rules a text file can hold (the others are exercised through direct builders and gob only).
func textRules(rules []Rule) []Rule {
	var out []Rule
	for _, ru := range rules {
		if lineSafe(ru.Rule) {
			out = append(out, ru)
		}
	}
	return out
}

func lineSafe(s string) bool {
	return s != "" && !strings.ContainsAny(s, "\n") && !strings.HasSuffix(s, "\r")
}

var allNames = func() []string {
	var res []string
	var rec func(prefix string, depth int)
	rec = func(prefix string, depth int) {
		for _, l := range labels {
			n := l
			if depth > 0 {
				n = prefix + "." + l
			}
			res = append(res, n)
			if depth < 3 {
				rec(n, depth+1)
			}
		}
	}
	rec("", 0)
	return res
}()

func genProbes(r *common.Rng, rules []Rule, o *common.Options) []string {
	seen := map[string]bool{}
	var probes []string
	add := func(s string) {
		if !seen[s] && !strings.ContainsAny(s, "\r\n") {
			seen[s] = true
			probes = append(probes, s)
		}
	}
	if (o.Thorough() || o.Search) && r.Chance(1, 8) { // every name of up to 4 labels
		for _, n := range allNames {
			add(n)
		}
	} else {
		n := 30
		if o.Thorough() {
			n = 60
		}
		for i := 0; i < n; i++ {
			add(common.Pick(r, allNames))
		}
	}
	k := 0
	for _, i := range permIdx(r, len(rules)) {
		ru := rules[i].Rule
		if rules[i].Kind == "r" {
			continue
		}
		if k++; k > 12 && !o.Thorough() {
			break
		}
		l := common.Pick(r, labels)
		add(ru)
		add(l + "." + ru)
		add(common.Pick(r, labels[:5]) + ru)
		add(ru + "." + l)
		add("." + ru)
		add(ru + ".")
		if len(ru) > 1 {
			add(ru[1:])
			add(ru[:len(ru)-1])
		}
		if i := strings.IndexByte(ru, '.'); i >= 0 {
			add(ru[i+1:])
		}
	}
	add("")
	return probes
}

func permIdx(r *common.Rng, n int) []int {
	p := make([]int, n)
	for i := range p {
		p[i] = i
	}
	for i := n - 1; i > 0; i-- {
		j := r.Intn(i + 1)
		p[i], p[j] = p[j], p[i]
	}
	return p
}

// ---------- brute-force oracle (from the statement) ----------

type brute struct {
	rules []Rule
	res   map[string]*regexp.Regexp
	badRe bool
}

func newBrute(rules []Rule) *brute {
	b := &brute{rules: rules, res: map[string]*regexp.Regexp{}}
	for _, ru := range rules {
		if ru.Kind == "r" {
			re, err := regexp.Compile(ru.Rule)
			if err != nil {
				b.badRe = true
				continue
			}
			b.res[ru.Rule] = re
		}
	}
	return b
}

func (b *brute) match(d string) bool {
	for _, ru := range b.rules {
		switch ru.Kind {
		case "d":
			if d == ru.Rule {
				return true
			}
		case "s": // suffix on a label boundary
			if d == ru.Rule || strings.HasSuffix(d, "."+ru.Rule) {
				return true
			}
		case "k":
			if strings.Contains(d, ru.Rule) {
				return true
			}
		case "r":
			if re := b.res[ru.Rule]; re != nil && re.MatchString(d) {
				return true
			}
		}
	}
	return false
}

func (b *brute) bits(probes []string) string {
	bs := make([]byte, len(probes))
	for i, p := range probes {
		bs[i] = '0'
		if b.match(p) {
			bs[i] = '1'
		}
	}
	return string(bs)
}

// ---------- implementation side ----------

type rep struct {
	name    string
	err     string // "" or an error class: "text:…", "set:…"
	builder domainset.Builder
	show    string
	kinds   string
	bits    string
	text    string // WriteText of this representation's builder (when taken)
}

func domainKind(mb domainset.MatcherBuilder) string {
	switch mb.(type) {
	case *domainset.DomainLinearMatcher:
		return "linear"
	case *domainset.DomainBinarySearchMatcher:
		return "bsearch"
	case *domainset.DomainMapMatcher:
		return "map"
	case *domainset.SuffixLinearMatcher:
		return "linear"
	case *domainset.SuffixMapMatcher:
		return "map"
	case *domainset.DomainSuffixTrie:
		return "trie"
	}
	return fmt.Sprintf("%T", mb)
}

func rulesOf(mb domainset.MatcherBuilder) []string {
	n, seq := mb.Rules()
	var res []string
	for s := range seq {
		res = append(res, s)
	}
	if n != len(res) {
		panic(fmt.Sprintf("%T.Rules(): count %d but %d rules", mb, n, len(res)))
	}
	return res
}

func showImpl(b domainset.Builder) string {
	return fmt.Sprintf("D=%s:%s S=%s:%s K=%s R=%s", domainKind(b[0]), hxList(rulesOf(b[0])), domainKind(b[1]), hxList(rulesOf(b[1])), hxList(rulesOf(b[2])), hxList(rulesOf(b[3])))
}

// canonShow sorts the rule lists whose order is a map iteration order.
func canonShow(s string) string {
	fs := strings.Fields(s)
	for i, f := range fs {
		for _, p := range []string{"D=map:", "S=map:", "S=trie:"} {
			if strings.HasPrefix(f, p) {
				l := strings.Split(f[len(p):], ",")
				sort.Strings(l)
				fs[i] = p + strings.Join(l, ",")
			}
		}
	}
	return strings.Join(fs, " ")
}

func errClass(err error) string {
	s := err.Error()
	switch {
	case strings.Contains(s, "empty domain set"):
		return "empty"
	case strings.Contains(s, "bad capacity hint"):
		return "badhint"
	case strings.Contains(s, "invalid line"):
		return "invalid"
	}
	return "other:" + s
}

func finish(r *rep, probes []string) {
	r.show = showImpl(r.builder)
	ds, err := r.builder.DomainSet()
	if err != nil {
		r.kinds = "err"
		return
	}
	ks := make([]string, len(ds))
	for i, m := range ds {
		ks[i] = strings.TrimPrefix(fmt.Sprintf("%T", m), "*domainset.")
	}
	r.kinds = "ok " + strings.Join(ks, ",")
	bs := make([]byte, len(probes))
	for i, p := range probes {
		bs[i] = '0'
		if ds.Match(p) {
			bs[i] = '1'
		}
	}
	r.bits = string(bs)
}

func fromText(name, text string, probes []string) *rep {
	r := &rep{name: name}
	var b domainset.Builder
	var err error
	// a capacity hint beyond Go's make([]string, 0, n) precondition panics inside BuilderFromText
	// ("makeslice: cap out of range"): the model predicts exactly that; any other panic propagates.
	if pan := common.Safely(func() { b, err = domainset.BuilderFromText(text) }); pan != nil {
		if strings.Contains(fmt.Sprint(pan), "makeslice: cap out of range") {
			r.err = "panic"
			return r
		}
		panic(pan)
	}
	if err != nil {
		r.err = errClass(err)
		return r
	}
	r.builder = b
	finish(r, probes)
	return r
}

func viaGob(name string, src domainset.Builder, probes []string) *rep {
	r := &rep{name: name}
	var buf bytes.Buffer
	if err := src.WriteGob(&buf); err != nil {
		r.err = "gob-write:" + err.Error()
		return r
	}
	b, err := domainset.BuilderFromGobString(buf.String())
	if err != nil {
		r.err = "gob-read:" + err.Error()
		return r
	}
	r.builder = b
	finish(r, probes)
	return r
}

func writeText(b domainset.Builder) string {
	var buf bytes.Buffer
	if err := b.WriteText(&buf); err != nil {
		panic(err)
	}
	return buf.String()
}

type combo struct {
	dk, sk string
	mk     func() domainset.Builder
}

var combos = []combo{
	{"linear", "linear", func() domainset.Builder {
		return domainset.Builder{domainset.NewDomainLinearMatcher(0), domainset.NewSuffixLinearMatcher(0), domainset.NewKeywordLinearMatcher(0), domainset.NewRegexpMatcherBuilder(0)}
	}},
	{"bsearch", "map", func() domainset.Builder {
		return domainset.Builder{domainset.NewDomainBinarySearchMatcher(0), domainset.NewSuffixMapMatcher(0), domainset.NewKeywordLinearMatcher(0), domainset.NewRegexpMatcherBuilder(0)}
	}},
	{"map", "trie", func() domainset.Builder {
		return domainset.Builder{domainset.NewDomainMapMatcher(0), domainset.NewDomainSuffixTrieMatcherBuilder(0), domainset.NewKeywordLinearMatcher(0), domainset.NewRegexpMatcherBuilder(0)}
	}},
}

func insertAll(b domainset.Builder, rules []Rule) {
	for _, ru := range rules {
		switch ru.Kind {
		case "d":
			b.DomainMatcherBuilder().Insert(ru.Rule)
		case "s":
			b.SuffixMatcherBuilder().Insert(ru.Rule)
		case "k":
			b.KeywordMatcherBuilder().Insert(ru.Rule)
		case "r":
			b.RegexpMatcherBuilder().Insert(ru.Rule)
		}
	}
}

type step struct {
	line string
	want string // expected driver answer ("" = not compared); compared after canonicalisation `canon`
	canon func(string) string
	what string
}

func ident(s string) string { return s }

func sortedLines(hexText string) string {
	t, err := unhx(hexText)
	if err != nil {
		return "undecodable"
	}
	ls := strings.Split(t, "\n")
	if len(ls) > 1 {
		sort.Strings(ls[1:])
	}
	return strings.Join(ls, "\n")
}

func domainEvalOne(c Case, rp *common.Report) (steps []step, nontrivial bool) {
	fail := func(key, format string, a ...any) {
		rp.Fail(common.OracleFailure{Engine: "domainset", Key: key, Case: c, Detail: fmt.Sprintf(format, a...)})
	}
	probes := c.Probes
	trules := textRules(c.Rules)
	bt := newBrute(trules)  // what the text form says
	ba := newBrute(c.Rules) // all rules (direct builders, gob)
	wantT := bt.bits(probes)
	wantA := ba.bits(probes)
	nontrivial = strings.Contains(wantA, "1") && strings.Contains(wantA, "0")

	// regexp facts for the model (the opaque parameter, read off the real library)
	var reBad []string
	var reTrue []string
	seenRe := map[string]bool{}
	for _, ru := range c.Rules {
		if ru.Kind != "r" || seenRe[ru.Rule] {
			continue
		}
		seenRe[ru.Rule] = true
		re := ba.res[ru.Rule]
		if re == nil {
			reBad = append(reBad, ru.Rule)
			continue
		}
		for _, p := range probes {
			if re.MatchString(p) {
				reTrue = append(reTrue, hx(ru.Rule)+":"+hx(p))
			}
		}
	}
	rt := "."
	if len(reTrue) > 0 {
		rt = strings.Join(reTrue, ",")
	}
	steps = append(steps, step{line: "rebad " + hxList(reBad)}, step{line: "retrue " + rt})

	check := func(r *rep, want string, b *brute, crSensitive bool) {
		if r.err != "" {
			// the output of a conversion must load again (an empty rule set is written as a hint-only file,
			// which the loader refuses as "empty": no claim there)
			if r.name != "text" && len(b.rules) > 0 {
				key := "domainset:" + r.name + ":conversion-output-rejected"
				if crSensitive {
					key = f18Key
				}
				fail(key, "%s: the converted form does not load: %s", r.name, r.err)
			}
			return
		}
		if b.badRe {
			if r.kinds != "err" {
				fail("domainset:bad-regexp-accepted", "%s: DomainSet() succeeded with an uncompilable regexp rule", r.name)
			}
			return
		}
		if r.kinds == "err" {
			fail("domainset:set-construction-failed", "%s: DomainSet() failed", r.name)
			return
		}
		if r.bits != want {
			for i := range probes {
				if r.bits[i] != want[i] {
					key := "domainset:" + r.name + ":" + map[byte]string{'0': "misses", '1': "overmatches"}[r.bits[i]]
					if crSensitive {
						key = f18Key
					}
					fail(key, "%s: Match(%q)=%c, brute force over the rules says %c", r.name, probes[i], r.bits[i], want[i])
					break
				}
			}
		}
	}
	addModel := func(r *rep, lineCmd string) {
		// lineCmd puts the model into the same representation and answers with its `show` line
		if r.err != "" {
			steps = append(steps, step{line: lineCmd, want: "err " + r.err, canon: ident, what: r.name + ": error class"})
			return
		}
		pre := ""
		if strings.HasPrefix(lineCmd, "text ") || lineCmd == "textrt" {
			pre = "ok "
		}
		steps = append(steps, step{line: lineCmd, want: pre + r.show, canon: canonShow, what: r.name + ": builder contents"})
		steps = append(steps, step{line: "build", want: r.kinds, canon: ident, what: r.name + ": matchers chosen"})
		if r.kinds != "err" {
			steps = append(steps, step{line: "probes " + hxList(probes), want: r.bits, canon: ident, what: r.name + ": Match over the probes"})
		}
	}

	// --- the text form and everything derived from it
	pan := common.Safely(func() {
		r0 := fromText("text", c.Text, probes)
		addModel(r0, "text "+hx(c.Text))
		if r0.err != "" {
			if c.TextOK && !(c.CRTail) && len(trules) > 0 {
				fail("domainset:rejects-wellformed-text", "BuilderFromText: %s", r0.err)
			}
			if c.TextOK && c.CRTail && len(trules) > 0 {
				fail(f18Key, "BuilderFromText: %s on a text whose only irregularity is a CR at the end of a line", r0.err)
			}
			return
		}
		if !c.TextOK {
			// an injected malformed line / hint was accepted: the model decides (divergence); the statement makes no claim
			return
		}
		check(r0, wantT, bt, c.CRTail)
		t0 := writeText(r0.builder)
		steps = append(steps, step{line: "wtext", want: hx(t0), canon: sortedLines, what: "text: WriteText (lines sorted)"})
		r1 := viaGob("text>gob", r0.builder, probes)
		check(r1, wantT, bt, c.CRTail)
		addModel(r1, "gobrt")
		if r1.err == "" {
			t1 := writeText(r1.builder)
			r3 := fromText("text>gob>text", t1, probes)
			check(r3, wantT, bt, c.CRTail)
			addModel(r3, "textrt") // the model rewrites its own builder: same contents up to map order
		}
		r2 := fromText("text>text", t0, probes)
		check(r2, wantT, bt, c.CRTail)
		addModel(r2, "text "+hx(t0))
		if r2.err == "" {
			r4 := viaGob("text>text>gob", r2.builder, probes)
			check(r4, wantT, bt, c.CRTail)
			addModel(r4, "gobrt")
		}
		// all representations of the text must agree with one another (the statement itself)
		for _, r := range []*rep{r1, r2} {
			if r.err == "" && r.kinds != "err" && r0.kinds != "err" && r.bits != r0.bits {
				key := "domainset:" + r.name + ":differs-from-text"
				if c.CRTail {
					key = f18Key
				}
				for i := range probes {
					if r.bits[i] != r0.bits[i] {
						fail(key, "Match(%q): text form %c, %s %c", probes[i], r0.bits[i], r.name, r.bits[i])
						break
					}
				}
			}
		}
	})
	if pan != nil {
		fail("domainset:panic", "text pipeline: %v", pan)
		rp.Diverge(common.Divergence{Engine: "domainset", Case: c, Impl: fmt.Sprint(pan), Model: "total", Note: "implementation panicked"})
	}

	// --- direct builders of every kind, and their conversion to gob
	for _, cb := range combos {
		pan := common.Safely(func() {
			b := cb.mk()
			insertAll(b, c.Rules)
			r := &rep{name: "direct:" + cb.dk + "/" + cb.sk, builder: b}
			finish(r, probes)
			check(r, wantA, ba, false)
			steps = append(steps, step{line: "new " + cb.dk + " " + cb.sk})
			for _, ru := range c.Rules {
				steps = append(steps, step{line: "ins " + ru.Kind + " " + hx(ru.Rule)})
			}
			addModel(r, "show")
			g := viaGob(r.name+">gob", b, probes)
			check(g, wantA, ba, false)
			addModel(g, "gobrt")
			// rewrite as text: only claimed when every rule can be written on a line
			safe := len(trules) == len(c.Rules)
			t := writeText(b)
			rr := fromText(r.name+">text", t, probes)
			if safe {
				if rr.err != "" && len(c.Rules) > 0 {
					fail("domainset:"+r.name+">text:rejected", "BuilderFromText(WriteText(b)): %s", rr.err)
				}
				check(rr, wantA, ba, false)
			} else {
				switch {
				case rr.err != "":
					rp.Count("domainset:excluded-rule-rewrite=rejected")
				case rr.bits != r.bits:
					rp.Count("domainset:excluded-rule-rewrite=language-changed")
				default:
					rp.Count("domainset:excluded-rule-rewrite=same")
				}
			}
		})
		if pan != nil {
			fail("domainset:panic", "direct %s/%s: %v", cb.dk, cb.sk, pan)
		}
	}

	// --- every insertion order of the suffix rules
	if c.Perms {
		var sfx []string
		for _, ru := range c.Rules {
			if ru.Kind == "s" {
				sfx = append(sfx, ru.Rule)
			}
		}
		bs := newBrute(nil)
		for _, s := range sfx {
			bs.rules = append(bs.rules, Rule{"s", s})
		}
		want := bs.bits(probes)
		var firstKeys string
		nperm := 0
		permute(sfx, func(p []string) {
			nperm++
			trie := domainset.DomainSuffixTrieFromSlice(p)
			keys := trie.KeySlice()
			sort.Strings(keys)
			ks := hxList(keys)
			if firstKeys == "" {
				firstKeys = ks
			} else if ks != firstKeys {
				fail("domainset:trie-order-dependent-keys", "insertion order %q gives keys %q, another order gave %s", p, keys, firstKeys)
			}
			if trie.KeyCount() != len(keys) {
				fail("domainset:trie-keycount", "KeyCount()=%d, %d keys", trie.KeyCount(), len(keys))
			}
			for i, d := range probes {
				got := trie.Match(d)
				if got != (want[i] == '1') {
					fail("domainset:trie-order:"+map[bool]string{false: "misses", true: "overmatches"}[got], "insertion order %q: Match(%q)=%v", p, d, got)
					return
				}
			}
			// the other suffix matchers on the same order
			lin := domainset.SuffixLinearMatcher(p)
			mp := domainset.SuffixMapMatcherFromSlice(p)
			for i, d := range probes {
				if lin.Match(d) != (want[i] == '1') || mp.Match(d) != (want[i] == '1') {
					fail("domainset:suffix-linear-map", "order %q: Match(%q): linear %v map %v, brute force %c", p, d, lin.Match(d), mp.Match(d), want[i])
					return
				}
			}
			if nperm == 1 || nperm == 2 { // the model on two of the orders
				steps = append(steps, step{line: "new linear trie"})
				for _, s := range p {
					steps = append(steps, step{line: "ins s " + hx(s)})
				}
				steps = append(steps, step{line: "show", want: "D=linear:. S=trie:" + ks + " K=. R=.", canon: canonShow, what: "trie keys after insertion order"})
				steps = append(steps, step{line: "build"}, step{line: "probes " + hxList(probes), want: want, canon: ident, what: "trie Match after insertion order"})
			}
		})
		rp.Count("domainset:perm-sets")
	}
	return
}

func permute(xs []string, f func([]string)) {
	p := append([]string(nil), xs...)
	var rec func(k int)
	rec = func(k int) {
		if k == len(p) {
			f(p)
			return
		}
		for i := k; i < len(p); i++ {
			p[k], p[i] = p[i], p[k]
			rec(k + 1)
			p[k], p[i] = p[i], p[k]
		}
	}
	rec(0)
}

func domainEval(cases []Case, d *common.Driver, o *common.Options, rp *common.Report) error {
	type pending struct {
		c     Case
		steps []step
	}
	var pend []pending
	var lines []string
	for i, c := range cases {
		steps, nontrivial := domainEvalOne(c, rp)
		rs, _ := countKindsSig(c.Rules)
		rp.Case("ds|"+rs+"|"+c.Text, nontrivial)
		nd, ns, _, _ := countKinds(c.Rules)
		rp.Count(fmt.Sprintf("domainset:domains=%s", sizeBucket(nd)))
		rp.Count(fmt.Sprintf("domainset:suffixes=%s", sizeBucket(ns)))
		if c.CRTail {
			rp.Count("domainset:cr-tail-text")
		}
		if !c.TextOK {
			rp.Count("domainset:malformed-text")
		}
		if c.HintPanic {
			rp.Count("domainset:hint-beyond-makeslice")
		}
		if i < 2 {
			rp.Sample(map[string]any{"engine": "domainset", "rules": len(c.Rules), "text": short(c.Text), "probes": len(c.Probes)})
		}
		pend = append(pend, pending{c, steps})
		for _, s := range steps {
			lines = append(lines, s.line)
		}
	}
	if d == nil {
		return nil
	}
	out, err := d.Batch(lines)
	if err != nil {
		return err
	}
	pos := 0
	for _, p := range pend {
		diverged := false
		for _, s := range p.steps {
			got := out[pos]
			pos++
			if got == "bad-op" {
				return fmt.Errorf("driver answered bad-op to %q", short(s.line))
			}
			if s.canon == nil || diverged {
				continue
			}
			if s.canon(got) != s.canon(s.want) {
				rp.Diverge(common.Divergence{Engine: "domainset", Case: p.c, Impl: short(s.canon(s.want)), Model: short(s.canon(got)), Note: s.what})
				diverged = true
			}
		}
		rp.TracesValidated++
	}
	return nil
}

func sizeBucket(n int) string {
	switch {
	case n <= 1:
		return fmt.Sprint(n)
	case n <= 4:
		return "2-4"
	case n == 5:
		return "5"
	case n <= 16:
		return "6-16"
	case n == 17:
		return "17"
	}
	return ">17"
}

func countKindsSig(rules []Rule) (string, int) {
	var sb strings.Builder
	for _, r := range rules {
		sb.WriteString(r.Kind)
		sb.WriteString(r.Rule)
		sb.WriteByte(';')
	}
	return sb.String(), len(rules)
}

func domainDirected(o *common.Options) []Case {
	mk := func(text string, ok, cr bool, rules ...Rule) Case {
		c := Case{Engine: "domainset", Rules: rules, Text: text, TextOK: ok, CRTail: cr}
		c.Probes = []string{"a.com", "b.c", "a.b.c", "x.a.b.c", "ab.c", "c", "b.c.", ".b.c", "a.com\r", "x.a.com", "xa.com", "", "a..c", ".c", "a.b", "com"}
		_, ns, _, _ := countKinds(rules)
		c.Perms = ns >= 2 && ns <= 4
		return c
	}
	cs := []Case{
		mk("suffix:b.c\nsuffix:a.b.c\n", true, false, Rule{"s", "b.c"}, Rule{"s", "a.b.c"}),
		mk("suffix:a.b.c\nsuffix:b.c\n", true, false, Rule{"s", "a.b.c"}, Rule{"s", "b.c"}),
		mk("suffix:a.b.c\r\nsuffix:c\r\nsuffix:x.a.b.c\r\n", true, false, Rule{"s", "a.b.c"}, Rule{"s", "c"}, Rule{"s", "x.a.b.c"}),
		mk("suffix:a..c\nsuffix:.c\nsuffix:c.\n", true, false, Rule{"s", "a..c"}, Rule{"s", ".c"}, Rule{"s", "c."}),
		mk("domain:a.com\r\n\r\n# c\r\nkeyword:b.\r\nregexp:^a\\.\r\n", true, false, Rule{"d", "a.com"}, Rule{"k", "b."}, Rule{"r", `^a\.`}),
		// F18 witnesses: a CR at the end of the file without LF; CR CR LF
		mk("suffix:a.com\r", true, true, Rule{"s", "a.com"}),
		mk("domain:a.com\r\r\nsuffix:b.c\n", true, true, Rule{"d", "a.com"}, Rule{"s", "b.c"}),
		mk("", false, false),
		mk("\n\r\n", false, false),
		mk("# only a comment\n", true, false),
		mk(hintPrefix+"0 0 0 0 DSKR\n", false, false),
	}
	// thresholds: exactly MaxLinear and MaxLinear+1 rules of each kind
	for _, n := range []int{4, 5, 16, 17} {
		var rules []Rule
		var sb strings.Builder
		for i := 0; i < n; i++ {
			d := allNames[(i*37+5)%len(allNames)]
			if d == "" {
				d = "a"
			}
			rules = append(rules, Rule{"d", d + ".d"}, Rule{"s", d + ".s"})
			sb.WriteString("domain:" + d + ".d\nsuffix:" + d + ".s\n")
		}
		c := mk(sb.String(), true, false, rules...)
		c.Probes = append(c.Probes, rules[0].Rule, "x."+rules[1].Rule, rules[len(rules)-1].Rule, "q"+rules[1].Rule)
		cs = append(cs, c)
	}
	return cs
}

// probeF18 reproduces the finding on the implementation, independently of the generator.
func probeF18(rp *common.Report) {
	reproduced := false
	pan := common.Safely(func() {
		text := "suffix:a.com\r"
		b, err := domainset.BuilderFromText(text)
		if err != nil {
			return
		}
		ds, err := b.DomainSet()
		if err != nil {
			return
		}
		b2, err := domainset.BuilderFromText(writeText(b))
		if err != nil {
			return
		}
		ds2, err := b2.DomainSet()
		if err != nil {
			return
		}
		if ds.Match("a.com") != ds2.Match("a.com") {
			reproduced = true
			rp.Fail(common.OracleFailure{Engine: "domainset", Key: f18Key,
				Case:   Case{Engine: "domainset", Rules: []Rule{{"s", "a.com"}}, Text: text, TextOK: true, CRTail: true, Probes: []string{"a.com", "x.a.com", "a.com\r"}},
				Detail: fmt.Sprintf("text %q: Match(\"a.com\")=%v; after WriteText and reload: %v", text, ds.Match("a.com"), ds2.Match("a.com"))})
		}
	})
	if pan != nil {
		reproduced = true
	}
	rp.FindingsProbed[f18Key] = reproduced
}

func domainsetEngine() engine {
	first := true
	return engine{
		name: "domainset",
		gen:  genDomainCase,
		eval: func(cases []Case, d *common.Driver, o *common.Options, rp *common.Report) error {
			if first && o.Replay == "" {
				first = false
				probeF18(rp)
			}
			return domainEval(cases, d, o, rp)
		},
		budget:   func(o *common.Options) int { return o.Budget(1200, 6000) },
		batch:    100,
		directed: domainDirected,
	}
}
