package main

import (
	"bytes"
	"fmt"
	"net/netip"
	"sort"
	"strings"

	"ssvharness/internal/common"

	"github.com/database64128/shadowsocks-go/prefixset"
	"github.com/gaissmai/bart"
)

func genPrefix(r *common.Rng) string {
	if r.Chance(2, 3) {
		var a [4]byte
		copy(a[:], r.Bytes(4))
		if r.Chance(1, 3) {
			a = common.Pick(r, [][4]byte{{10, 0, 0, 0}, {10, 1, 2, 3}, {192, 168, 0, 0}, {0, 0, 0, 0}, {255, 255, 255, 255}, {127, 0, 0, 1}, {128, 0, 0, 0}})
		}
		bits := common.Pick(r, []int{0, 1, 7, 8, 9, 15, 16, 17, 24, 25, 31, 32})
		p := netip.PrefixFrom(netip.AddrFrom4(a), bits)
		if r.Chance(2, 3) {
			p = p.Masked()
		}
		return p.String()
	}
	var a [16]byte
	copy(a[:], r.Bytes(16))
	switch r.Intn(4) {
	case 0:
		a = [16]byte{0xfc}
	case 1:
		a = [16]byte{0x20, 0x01, 0x0d, 0xb8}
		a[15] = byte(r.Intn(256))
	case 2: // 4-in-6
		a = [16]byte{10: 0xff, 11: 0xff, 12: 10, 13: 1, 14: 2, 15: 3}
	}
	bits := common.Pick(r, []int{0, 1, 7, 8, 16, 32, 48, 63, 64, 65, 96, 104, 120, 127, 128})
	p := netip.PrefixFrom(netip.AddrFrom16(a), bits)
	if r.Chance(2, 3) {
		p = p.Masked()
	}
	return p.String()
}

// boundary addresses of a prefix: first, last, the one before, the one after
func edges(p netip.Prefix) []netip.Addr {
	p = p.Masked()
	first := p.Addr()
	b := first.AsSlice()
	for i := p.Bits(); i < len(b)*8; i++ {
		b[i/8] |= 1 << (7 - i%8)
	}
	last, _ := netip.AddrFromSlice(b)
	res := []netip.Addr{first, last}
	if x := first.Prev(); x.IsValid() {
		res = append(res, x)
	}
	if x := last.Next(); x.IsValid() {
		res = append(res, x)
	}
	return res
}

func genPrefixCase(r *common.Rng, o *common.Options, idx int) Case {
	c := Case{Engine: "prefixset"}
	n := common.Pick(r, []int{0, 1, 2, 5, 20, 100})
	var sb strings.Builder
	eol := func() string {
		if r.Chance(1, 3) {
			return "\r\n"
		}
		return "\n"
	}
	c.TextOK = true
	for i := 0; i < n; i++ {
		for r.Chance(1, 6) {
			sb.WriteString(common.Pick(r, []string{"", "# comment", "#10.0.0.0/8", "#"}))
			sb.WriteString(eol())
		}
		p := genPrefix(r)
		if r.Chance(1, 60) {
			p = common.Pick(r, []string{"10.0.0.0", "10.0.0.0/33", "10.0.0.0/8 ", " 10.0.0.0/8", "fe80::1%eth0/64", "::/129", "1.2.3/8", "10.0.0.0/08", "x"})
			c.TextOK = false
		}
		c.Prefixes = append(c.Prefixes, p)
		sb.WriteString(p)
		if i == n-1 && r.Chance(1, 4) {
			if r.Chance(1, 3) {
				sb.WriteString("\r")
				c.CRTail = true
			}
		} else if r.Chance(1, 40) {
			sb.WriteString("\r\r\n")
			c.CRTail = true
		} else {
			sb.WriteString(eol())
		}
	}
	c.Text = sb.String()
	seen := map[string]bool{}
	for _, ps := range c.Prefixes {
		p, err := netip.ParsePrefix(ps)
		if err != nil {
			continue
		}
		for _, a := range edges(p) {
			if !seen[a.String()] {
				seen[a.String()] = true
				c.Addrs = append(c.Addrs, a.String())
			}
		}
	}
	for i := 0; i < 10; i++ {
		var a netip.Addr
		if r.Bool() {
			a = netip.AddrFrom4([4]byte(r.Bytes(4)))
		} else {
			a = netip.AddrFrom16([16]byte(r.Bytes(16)))
		}
		c.Addrs = append(c.Addrs, a.String())
	}
	return c
}

func prefixList(s *bart.Lite) []string {
	var res []string
	for p := range s.All() {
		res = append(res, p.String())
	}
	sort.Strings(res)
	return res
}

func prefixEval(cases []Case, d *common.Driver, o *common.Options, rep *common.Report) error {
	var model []string
	if d != nil {
		lines := make([]string, len(cases))
		for i, c := range cases {
			lines[i] = "plines " + hx(c.Text)
		}
		var err error
		model, err = d.Batch(lines)
		if err != nil {
			return err
		}
	}
	for i, c := range cases {
		fail := func(key, format string, a ...any) {
			rep.Fail(common.OracleFailure{Engine: "prefixset", Key: "prefixset:" + key, Case: c, Detail: fmt.Sprintf(format, a...)})
		}
		var addrs []netip.Addr
		for _, a := range c.Addrs {
			addrs = append(addrs, netip.MustParseAddr(a))
		}
		// brute force: the prefixes as written
		var want []netip.Prefix
		allValid := true
		for _, ps := range c.Prefixes {
			p, err := netip.ParsePrefix(ps)
			if err != nil {
				allValid = false
				continue
			}
			want = append(want, p.Masked())
		}
		brute := func(a netip.Addr) bool {
			for _, p := range want {
				if p.Contains(a) {
					return true
				}
			}
			return false
		}
		var implErr error
		var implSet []string
		nontrivial := false
		pan := common.Safely(func() {
			s, err := prefixset.PrefixSetFromText(c.Text)
			implErr = err
			if err != nil {
				if allValid && !c.CRTail {
					fail("rejects-wellformed", "PrefixSetFromText: %v", err)
				}
				return
			}
			if !allValid {
				fail("accepts-malformed", "PrefixSetFromText accepted a text with an unparsable prefix line")
				return
			}
			implSet = prefixList(s)
			nontrivial = len(implSet) > 0
			for _, a := range addrs {
				if s.Contains(a) != brute(a) {
					fail("contains-mismatch", "loaded set: Contains(%s)=%v, prefixes as written say %v", a, s.Contains(a), brute(a))
					return
				}
			}
			// longest-prefix semantics of the real table, and the union the router builds from several sets
			var other bart.Lite
			for j, p := range want {
				if j%2 == 1 {
					other.Insert(p)
				}
			}
			var union bart.Lite
			for j, p := range want {
				if j%2 == 0 {
					union.Insert(p)
				}
			}
			union.Union(&other)
			for _, a := range addrs {
				best, found := netip.Prefix{}, false
				for _, p := range want {
					if p.Contains(a) && (!found || p.Bits() > best.Bits()) {
						best, found = p, true
					}
				}
				lpm, ok := s.LookupPrefixLPM(netip.PrefixFrom(a, a.BitLen()))
				if ok != found || (ok && lpm != best) {
					fail("longest-prefix-mismatch", "LookupPrefixLPM(%s)=(%v,%v), brute force longest prefix (%v,%v)", a, lpm, ok, best, found)
					return
				}
				if s.Lookup(a) != found {
					fail("lookup-mismatch", "Lookup(%s)=%v, brute force %v", a, s.Lookup(a), found)
					return
				}
				if union.Contains(a) != found {
					fail("union-mismatch", "union of the two halves: Contains(%s)=%v, brute force %v", a, union.Contains(a), found)
					return
				}
			}
			// write out (both writers) and reload
			t1 := string(prefixset.PrefixSetToText(s))
			var buf bytes.Buffer
			if err := prefixset.PrefixSetWriteText(s, &buf); err != nil {
				fail("write-error", "%v", err)
				return
			}
			for wi, t := range []string{t1, buf.String()} {
				name := []string{"PrefixSetToText", "PrefixSetWriteText"}[wi]
				s2, err := prefixset.PrefixSetFromText(t)
				if err != nil {
					fail("reload-rejected", "%s output does not load: %v", name, err)
					return
				}
				if got := prefixList(s2); strings.Join(got, ",") != strings.Join(implSet, ",") {
					fail("reload-prefixes-differ", "%s: reloaded %v, had %v", name, short(fmt.Sprint(got)), short(fmt.Sprint(implSet)))
					return
				}
				for _, a := range addrs {
					if s2.Contains(a) != s.Contains(a) {
						fail("reload-contains-differs", "%s: Contains(%s) before %v after %v", name, a, s.Contains(a), s2.Contains(a))
						return
					}
				}
			}
		})
		if pan != nil {
			fail("panic", "%v", pan)
		}
		rep.Case("px|"+c.Text, nontrivial)
		switch {
		case implErr != nil:
			rep.Count("prefixset:rejected")
		case len(implSet) == 0:
			rep.Count("prefixset:empty")
		default:
			rep.Count("prefixset:loaded")
		}
		if i < 1 {
			rep.Sample(map[string]any{"engine": "prefixset", "text": short(c.Text), "loaded": len(implSet)})
		}
		if model == nil {
			continue
		}
		// model: the lines the loader hands to netip.ParsePrefix
		ls, err := unhxList(model[i])
		if err != nil {
			return fmt.Errorf("driver answered %q", short(model[i]))
		}
		modelErr := false
		mset := map[string]bool{}
		for _, l := range ls {
			p, err := netip.ParsePrefix(l)
			if err != nil {
				modelErr = true
				break
			}
			mset[p.Masked().String()] = true
		}
		var ml []string
		for k := range mset {
			ml = append(ml, k)
		}
		sort.Strings(ml)
		switch {
		case pan != nil:
			rep.Diverge(common.Divergence{Engine: "prefixset", Case: c, Impl: fmt.Sprint(pan), Model: "total", Note: "implementation panicked"})
		case modelErr != (implErr != nil):
			rep.Diverge(common.Divergence{Engine: "prefixset", Case: c, Impl: fmt.Sprint(implErr), Model: fmt.Sprintf("error=%v lines=%q", modelErr, ls), Note: "load verdict"})
		case implErr == nil && strings.Join(ml, ",") != strings.Join(implSet, ","):
			rep.Diverge(common.Divergence{Engine: "prefixset", Case: c, Impl: short(fmt.Sprint(implSet)), Model: short(fmt.Sprint(ml)), Note: "prefixes loaded"})
		}
		rep.TracesValidated++
	}
	return nil
}

func prefixsetEngine() engine {
	return engine{
		name:   "prefixset",
		gen:    genPrefixCase,
		eval:   prefixEval,
		budget: func(o *common.Options) int { return o.Budget(400, 10000) },
		batch:  200,
		directed: func(o *common.Options) []Case {
			return []Case{
				{Engine: "prefixset", TextOK: true, Prefixes: []string{"10.0.0.0/8", "fc00::/7"}, Text: "# x\r\n10.0.0.0/8\r\n\r\nfc00::/7", Addrs: []string{"10.0.0.1", "11.0.0.0", "9.255.255.255", "fc00::1", "fe00::"}},
				{Engine: "prefixset", TextOK: true, Text: "", Addrs: []string{"10.0.0.1"}},
				{Engine: "prefixset", TextOK: true, Prefixes: []string{"0.0.0.0/0", "::/0"}, Text: "0.0.0.0/0\n::/0\n", Addrs: []string{"10.0.0.1", "::1"}},
			}
		},
	}
}
