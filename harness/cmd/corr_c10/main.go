// corr_c10: correspondence + property oracle for C10 (domain, prefix and port sets mean the same in
// every representation).
//
// Engines:
//
//	portset   — portset.PortSet.Parse/Add/Count/First/RangeCount/RangeSet/Contains, PortRangeSet.Contains and the
//	            criterion the router picks (router.RouteConfig.Route), on all 65535 ports of every generated set,
//	            against the Lean model (SSV.Model.PortSet) and against the brute-force oracle (membership per port).
//	domainset — text parser, WriteText, gob round trip, converter paths and every matcher builder of package
//	            domainset against SSV.Model.DomainSet and the brute-force oracle (exact / label-boundary suffix /
//	            substring / regexp) before and after every conversion, over rule sets sized across the thresholds.
//	prefixset — prefixset.PrefixSetFromText / PrefixSetToText / PrefixSetWriteText: write, reload, same addresses.
package main

import (
	"encoding/hex"
	"fmt"
	"os"
	"strings"
	"time"

	"ssvharness/internal/common"
)

// Case is the replayable input of one case of any engine.
type Case struct {
	Engine string `json:"engine"`

	// portset
	Ports []uint16 `json:"ports,omitempty"`
	Str   string   `json:"str,omitempty"`
	// what the generator meant (nil = unstructured string: the reference parser decides)
	Items []GenItem `json:"items,omitempty"`

	// domainset
	Rules  []Rule   `json:"rules,omitempty"`
	Text   string   `json:"text,omitempty"`    // the rendered text form (with noise)
	TextOK bool     `json:"text_ok,omitempty"` // the text is meant to be well-formed
	CRTail bool     `json:"cr_tail,omitempty"` // a rule line ends in CR without LF, or in CR CR LF
	Probes []string `json:"probes,omitempty"`
	Perms  bool     `json:"perms,omitempty"` // also insert the suffix rules in every order
	HintPanic bool  `json:"hint_panic,omitempty"` // the capacity hint exceeds the precondition of make([]string, 0, n)

	// dlc (converter input)
	Tag     string     `json:"tag,omitempty"`
	Entries []DlcEntry `json:"entries,omitempty"`

	// prefixset
	Prefixes []string `json:"prefixes,omitempty"`
	Addrs    []string `json:"addrs,omitempty"`
}

func hx(s string) string {
	if s == "" {
		return "-"
	}
	return hex.EncodeToString([]byte(s))
}

func unhx(s string) (string, error) {
	if s == "-" {
		return "", nil
	}
	b, err := hex.DecodeString(s)
	return string(b), err
}

func hxList(xs []string) string {
	if len(xs) == 0 {
		return "."
	}
	ys := make([]string, len(xs))
	for i, x := range xs {
		ys[i] = hx(x)
	}
	return strings.Join(ys, ",")
}

func unhxList(s string) ([]string, error) {
	if s == "." {
		return nil, nil
	}
	var res []string
	for _, e := range strings.Split(s, ",") {
		x, err := unhx(e)
		if err != nil {
			return nil, err
		}
		res = append(res, x)
	}
	return res, nil
}

type engine struct {
	name string
	gen  func(r *common.Rng, o *common.Options, idx int) Case
	// eval evaluates a batch of cases (implementation, model through the driver when given, oracle)
	eval func(cases []Case, d *common.Driver, o *common.Options, rep *common.Report) error
	// budget: number of generated cases
	budget func(o *common.Options) int
	batch  int
	// directed cases that run first on every run
	directed func(o *common.Options) []Case
}

func main() {
	o := common.ParseFlags()
	rep := common.NewReport("C10", o)
	engines := []engine{portsetEngine(), domainsetEngine(), prefixsetEngine(), dlcEngine()}
	for _, e := range engines {
		rep.Engines = append(rep.Engines, e.name)
	}
	rep.Rule = "portset: a case = (ports list, range string); structured strings from boundary items (block edges, 1, 65535, adjacent/overlapping ranges, >16 ranges) and malformed pieces, plus random garbage; " +
		"every case compares all 65535 ports across bit set / range set / router criterion / model / brute force; non-trivial = accepted, 1 <= count < 65535; distinct by (ports, string). " +
		"domainset: a case = rule list (domain/suffix/keyword/regexp over a 6-label vocabulary incl. the empty label, sizes {0,1,4,5,16,17,100} per kind) rendered as text with CRLF/blank/comment/hint noise; " +
		"representations text, gob, text>text, gob>text, text>text>gob, 3 direct builder combinations and their gob conversion (and every insertion order of <= 4 (quick) / 6 (thorough) suffix rules) are probed on 30 (quick) / 60 (thorough; every 8th case all 1554) names of <= 4 labels from the vocabulary + neighbours of the rules (rule, label.rule, labelrule, rule.label, .rule, rule., rule minus a byte at either end, rule minus its first label); " +
		"non-trivial = at least one probe matches and one does not; distinct by (rules, text). " +
		"dlc: a case = v2fly/dlc entries (full:/domain:/keyword:/regexp:, optional single attribute after one separator byte) + comment/blank/CRLF noise + a -tag value, converted by the real converter binary (child process) to text and gob; both outputs are loaded and probed against the language of the selected entries and against the model; malformed lines (no separator, several attributes, '@' first, unknown prefix, `full:@x`) are compared with the model only; non-trivial = some probe matches and some does not; distinct by (tag, text). " +
		"prefixset: a case = prefix list + boundary addresses; load, write (both writers), reload, compare membership and prefix sets; non-trivial = at least one prefix; distinct by text."

	var err error
	var d *common.Driver
	if o.Driver != "" {
		d, err = common.StartDriver(o.Driver)
		if err != nil {
			fmt.Fprintln(os.Stderr, "corr_c10:", err)
			os.Exit(3)
		}
		defer d.Close()
	} else {
		rep.Note("no driver given: oracle-only run")
	}

	if o.Replay != "" {
		var c Case
		if err = common.LoadReplay(o.Replay, &c); err == nil {
			found := false
			for _, e := range engines {
				if e.name == c.Engine {
					found = true
					err = e.eval([]Case{c}, d, o, rep)
				}
			}
			if !found {
				err = fmt.Errorf("replay: unknown engine %q", c.Engine)
			}
		}
	} else {
		for ei, e := range engines {
			if err != nil {
				break
			}
			t0 := time.Now()
			ev0 := rep.Evaluations
			if e.directed != nil {
				if err = e.eval(e.directed(o), d, o, rep); err != nil {
					break
				}
			}
			r := common.NewRng(o.Seed ^ uint64(ei+1)*0x9e3779b97f4a7c15)
			n := e.budget(o)
			var cases []Case
			for i := 0; i < n; i++ {
				cases = append(cases, e.gen(r.Fork(uint64(i)), o, i))
				if len(cases) == e.batch {
					if err = e.eval(cases, d, o, rep); err != nil {
						break
					}
					cases = cases[:0]
				}
			}
			if err == nil && len(cases) > 0 {
				err = e.eval(cases, d, o, rep)
			}
			rep.Note("engine %s: %d cases in %.1fs", e.name, rep.Evaluations-ev0, time.Since(t0).Seconds())
		}
	}
	cleanupConverter()
	if err != nil {
		fmt.Fprintln(os.Stderr, "corr_c10:", err)
		rep.Note("engine error: %v", err)
		rep.Write(o.Out)
		os.Exit(3)
	}
	if err := rep.Write(o.Out); err != nil {
		fmt.Fprintln(os.Stderr, err)
		os.Exit(3)
	}
}
