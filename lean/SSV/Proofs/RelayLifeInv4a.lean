import SSV.Proofs.RelayLifeInv4a_p0
import SSV.Proofs.RelayLifeInv4a_p1
import SSV.Proofs.RelayLifeInv4a_p2
import SSV.Proofs.RelayLifeInv4a_p3
import SSV.Proofs.RelayLifeInv4a_p4
import SSV.Proofs.RelayLifeInv4a_p5
import SSV.Proofs.RelayLifeInv4a_p6
import SSV.Proofs.RelayLifeInv4a_p7
import SSV.Proofs.RelayLifeInv4a_p8
namespace SSV.RelayLife
variable (cfg : Cfg)

end SSV.RelayLife
