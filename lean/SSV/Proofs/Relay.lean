import SSV.Model.Relay
/-
Invariants of the relay transition system (SSV/Model/Relay.lean) and their preservation by every step.
-/
namespace SSV.Relay

/-! ### small facts -/

theorem enqueue_queue (cfg : Config) (s : Sess) (q : Pkt) :
    (enqueue cfg s q).queue = s.queue ∨ (enqueue cfg s q).queue = s.queue ++ [q] := by
  unfold enqueue; split <;> simp

@[simp] theorem enqueue_pc (cfg : Config) (s : Sess) (q : Pkt) : (enqueue cfg s q).pc = s.pc := by
  unfold enqueue; split <;> rfl
@[simp] theorem enqueue_started (cfg : Config) (s : Sess) (q : Pkt) : (enqueue cfg s q).started = s.started := by
  unfold enqueue; split <;> rfl
@[simp] theorem enqueue_key (cfg : Config) (s : Sess) (q : Pkt) : (enqueue cfg s q).key = s.key := by
  unfold enqueue; split <;> rfl
@[simp] theorem enqueue_clientAddr (cfg : Config) (s : Sess) (q : Pkt) : (enqueue cfg s q).clientAddr = s.clientAddr := by
  unfold enqueue; split <;> rfl

theorem destOK_mono {up : Option (IP × Nat)} {a a' : List (Dom × IP)} (h : ∀ x ∈ a, x ∈ a') {w : Sent}
    (hw : destOK up a w) : destOK up a' w := by
  unfold destOK at *
  cases up with
  | some ap => exact hw
  | none =>
    simp only at hw ⊢
    split <;> simp_all

/-! ### the invariant behind `no_cross_session_send` -/

def cacheOK (answers : List (Dom × IP)) (c : Cache) : Prop := ∀ d, c.dom = some d → (d, c.ip) ∈ answers

def PcOK (cfg : Config) (st : State) (sid : Nat) : UpPc → Prop
  | .idle => True
  | .resolving q d => cfg.upstream = none ∧ (∃ a, (sid, a, q) ∈ st.recvd) ∧ ∃ port, q.target = .dom d port
  | .storedDomain q ip => cfg.upstream = none ∧ (∃ a, (sid, a, q) ∈ st.recvd) ∧ ∃ d port, q.target = .dom d port ∧
      (st.cache (cfg.packerOf sid)).dom = some d ∧ (d, ip) ∈ st.answers
  | .storedIP q => cfg.upstream = none ∧ (∃ a, (sid, a, q) ∈ st.recvd) ∧ ∃ d port, q.target = .dom d port ∧
      (st.cache (cfg.packerOf sid)).dom = some d ∧ (d, (st.cache (cfg.packerOf sid)).ip) ∈ st.answers

structure Inv (cfg : Config) (st : State) : Prop where
  fresh : ∀ sid s, st.sess sid = some s → sid < st.next
  queue : ∀ sid s, st.sess sid = some s → ∀ q ∈ s.queue, ∃ a, (sid, a, q) ∈ st.recvd
  pc : ∀ sid s, st.sess sid = some s → PcOK cfg st sid s.pc
  cache : ∀ p, cacheOK st.answers (st.cache p) ∨
      ∃ sid s q ip, st.sess sid = some s ∧ cfg.packerOf sid = p ∧ s.pc = .storedDomain q ip
  sent : ∀ w ∈ st.sent, (∃ a, (w.sid, a, w.pkt) ∈ st.recvd) ∧ destOK cfg.upstream st.answers w

theorem inv_init (cfg : Config) : Inv cfg State.init := by
  refine ⟨?_, ?_, ?_, ?_, ?_⟩ <;> simp [State.init, cacheOK, Cache.empty]

theorem PcOK_mono (cfg : Config) {st st' : State} {sid : Nat} {pc : UpPc}
    (hr : ∀ x ∈ st.recvd, x ∈ st'.recvd) (ha : ∀ x ∈ st.answers, x ∈ st'.answers)
    (hc : st'.cache (cfg.packerOf sid) = st.cache (cfg.packerOf sid))
    (h : PcOK cfg st sid pc) : PcOK cfg st' sid pc := by
  cases pc with
  | idle => trivial
  | resolving q d =>
    obtain ⟨hu, ⟨a, h1⟩, h2⟩ := h
    exact ⟨hu, ⟨a, hr _ h1⟩, h2⟩
  | storedDomain q ip =>
    obtain ⟨hu, ⟨a, h1⟩, d, port, h2, h3, h4⟩ := h
    exact ⟨hu, ⟨a, hr _ h1⟩, d, port, h2, by rw [hc]; exact h3, ha _ h4⟩
  | storedIP q =>
    obtain ⟨hu, ⟨a, h1⟩, d, port, h2, h3, h4⟩ := h
    exact ⟨hu, ⟨a, hr _ h1⟩, d, port, h2, by rw [hc]; exact h3, by rw [hc]; exact ha _ h4⟩

theorem cacheOK_mono {a a' : List (Dom × IP)} (h : ∀ x ∈ a, x ∈ a') {c : Cache} (hc : cacheOK a c) : cacheOK a' c :=
  fun d hd => h _ (hc d hd)

/-- the cache of a packer is consistent whenever its (only) owner is not between the two cache stores -/
theorem cache_at_owner {cfg : Config} (hinj : ∀ a b, cfg.packerOf a = cfg.packerOf b → a = b) {st : State}
    (hI : Inv cfg st) (sid : Nat) (h : ∀ s q ip, st.sess sid = some s → s.pc ≠ .storedDomain q ip) :
    cacheOK st.answers (st.cache (cfg.packerOf sid)) := by
  rcases hI.cache (cfg.packerOf sid) with hc | ⟨sid', s, q, ip, hs, hp, hpc⟩
  · exact hc
  · have := hinj _ _ hp; subst this
    exact absurd hpc (h s q ip hs)

/-- Frame lemma: a step that rewrites one session, touches at most that session's packer cache and only
appends to the logs preserves the invariant, given the local obligations. -/
theorem frame {cfg : Config} (hinj : ∀ a b, cfg.packerOf a = cfg.packerOf b → a = b) {st st' : State}
    (sid : Nat) (s' : Sess) (hI : Inv cfg st)
    (hnext : st.next ≤ st'.next) (hsid : sid < st'.next)
    (hsess : st'.sess = updF st.sess sid (some s'))
    (hcache : ∀ p, p ≠ cfg.packerOf sid → st'.cache p = st.cache p)
    (hrecvd : ∀ x ∈ st.recvd, x ∈ st'.recvd)
    (hans : ∀ x ∈ st.answers, x ∈ st'.answers)
    (hq : ∀ q ∈ s'.queue, ∃ a, (sid, a, q) ∈ st'.recvd)
    (hpc : PcOK cfg st' sid s'.pc)
    (hc : cacheOK st'.answers (st'.cache (cfg.packerOf sid)) ∨ ∃ q ip, s'.pc = .storedDomain q ip)
    (hsent : ∀ w ∈ st'.sent, w ∈ st.sent ∨ ((∃ a, (w.sid, a, w.pkt) ∈ st'.recvd) ∧ destOK cfg.upstream st'.answers w)) :
    Inv cfg st' := by
  have hother : ∀ sid'', sid'' ≠ sid → st'.sess sid'' = st.sess sid'' := by
    intro sid'' hne; rw [hsess]; exact updF_other _ _ _ _ hne
  have hsame : st'.sess sid = some s' := by rw [hsess]; simp
  refine ⟨?_, ?_, ?_, ?_, ?_⟩
  · intro sid'' s hs
    by_cases he : sid'' = sid
    · subst he; exact hsid
    · rw [hother _ he] at hs; exact Nat.lt_of_lt_of_le (hI.fresh _ _ hs) hnext
  · intro sid'' s hs q hq'
    by_cases he : sid'' = sid
    · subst he; rw [hsame] at hs; cases hs; exact hq q hq'
    · rw [hother _ he] at hs
      obtain ⟨a, ha⟩ := hI.queue _ _ hs q hq'
      exact ⟨a, hrecvd _ ha⟩
  · intro sid'' s hs
    by_cases he : sid'' = sid
    · subst he; rw [hsame] at hs; cases hs; exact hpc
    · rw [hother _ he] at hs
      have hp : cfg.packerOf sid'' ≠ cfg.packerOf sid := fun h => he (hinj _ _ h)
      exact PcOK_mono cfg hrecvd hans (hcache _ hp) (hI.pc _ _ hs)
  · intro p
    by_cases hp : p = cfg.packerOf sid
    · subst hp
      rcases hc with hc | ⟨q, ip, hc⟩
      · exact Or.inl hc
      · exact Or.inr ⟨sid, s', q, ip, hsame, rfl, hc⟩
    · rw [hcache _ hp]
      rcases hI.cache p with h | ⟨sid'', s, q, ip, hs, hpp, hpc'⟩
      · exact Or.inl (cacheOK_mono hans h)
      · have he : sid'' ≠ sid := by intro h; subst h; exact hp hpp.symm
        exact Or.inr ⟨sid'', s, q, ip, by rw [hother _ he]; exact hs, hpp, hpc'⟩
  · intro w hw
    rcases hsent w hw with h | h
    · obtain ⟨⟨a, ha⟩, hd⟩ := hI.sent w h
      exact ⟨⟨a, hrecvd _ ha⟩, destOK_mono hans hd⟩
    · exact h

/-- `hc` of `frame` for steps that leave the session's pc and every cache alone -/
theorem hc_unchanged {cfg : Config} (hinj : ∀ a b, cfg.packerOf a = cfg.packerOf b → a = b) {st : State}
    (hI : Inv cfg st) (sid : Nat) (pc : UpPc)
    (h : ∀ s, st.sess sid = some s → s.pc = pc) :
    cacheOK st.answers (st.cache (cfg.packerOf sid)) ∨ ∃ q ip, pc = .storedDomain q ip := by
  cases pc with
  | storedDomain q ip => exact Or.inr ⟨q, ip, rfl⟩
  | idle => exact Or.inl (cache_at_owner hinj hI sid (fun s q ip hs hp => by rw [h s hs] at hp; cases hp))
  | resolving q d => exact Or.inl (cache_at_owner hinj hI sid (fun s q ip hs hp => by rw [h s hs] at hp; cases hp))
  | storedIP q => exact Or.inl (cache_at_owner hinj hI sid (fun s q ip hs hp => by rw [h s hs] at hp; cases hp))

end SSV.Relay
