import SSV.Proofs.RelayLifeInv1
/-
C12 helper lemmas, part 3 (definitions): Stop.  After Stop's pass over the table every session that is still in its downlink loop
has been visited, its state is `serverConn`, and (when the uplink re-checks the state after re-arming) a FUTURE read
deadline only exists while the uplink is between its re-arm and its re-force.
-/
namespace SSV.RelayLife

/-- position of I_i in its program -/
def IPc.idx : IPc → Nat
  | .getClient => 0 | .newSession => 1 | .listen => 2 | .setDl => 3 | .newPacker => 4 | .swap => 5 | .spawn => 6
  | .dRead => 7 | .dProc => 8 | .cLock => 9 | .cClose => 10 | .cDelete => 11 | .cUnlock => 12 | .cDrain => 13 | .done => 14

theorem IPc.deleted_f (p : IPc) : p.deleted = false ↔ p.idx < 12 := by cases p <;> simp [IPc.deleted, IPc.idx]
theorem IPc.deleted_t (p : IPc) : p.deleted = true ↔ 12 ≤ p.idx := by cases p <;> simp [IPc.deleted, IPc.idx]
theorem IPc.closed_t (p : IPc) : p.closed = true ↔ 11 ≤ p.idx := by cases p <;> simp [IPc.closed, IPc.idx]
theorem IPc.inCrit_t (p : IPc) : p.inCrit = true ↔ (10 ≤ p.idx ∧ p.idx ≤ 12) := by cases p <;> simp [IPc.inCrit, IPc.idx]
theorem IPc.idx_done (p : IPc) : p = .done ↔ p.idx = 14 := by cases p <;> simp [IPc.idx]
theorem IPc.idx_dRead (p : IPc) : p = .dRead ↔ p.idx = 7 := by cases p <;> simp [IPc.idx]

/-- Stop is past `mwg.Wait()` -/
def SPc.afterMwg : SPc → Bool
  | .idle | .dlServer | .waitMwg => false
  | _ => true
/-- Stop has finished its pass over the table -/
def SPc.afterIter : SPc → Bool
  | .unlock | .waitWg | .closeSrv | .done => true
  | _ => false
/-- Stop is past `wg.Wait()` -/
def SPc.afterWg : SPc → Bool
  | .closeSrv | .done => true
  | _ => false

theorem SPc.afterIter_afterMwg (p : SPc) : p.afterIter = true → p.afterMwg = true := by
  cases p <;> simp [SPc.afterIter, SPc.afterMwg]
theorem SPc.afterWg_afterMwg (p : SPc) : p.afterWg = true → p.afterMwg = true := by
  cases p <;> simp [SPc.afterWg, SPc.afterMwg]
theorem SPc.afterWg_afterIter (p : SPc) : p.afterWg = true → p.afterIter = true := by
  cases p <;> simp [SPc.afterWg, SPc.afterIter]
theorem SPc.pend_not_afterIter (p : SPc) (i : Nat) : p = .pend i → p.afterIter = false := by
  intro h; subst h; rfl

theorem allB_iff (n : Nat) (p : Nat → Bool) : allB n p = true ↔ ∀ i, i < n → p i = true := by
  simp [allB, List.all_eq_true, List.mem_range]

/-- entry-local facts: socket/deadline, `sendChClean` against the position of I_i; Stop past `mwg.Wait` => receive loop finished -/
structure Inv3a (s : State) : Prop where
  k1 : ∀ i, i < s.n → (s.ent i).sock = false → (s.ent i).dl = .unset
  u2 : ∀ i, i < s.n → (s.ent i).clean = true → 5 < (s.ent i).ipc.idx
  u3 : ∀ i, i < s.n → (s.ent i).clean = false → ((s.ent i).ipc.idx ≤ 5 ∨ 9 ≤ (s.ent i).ipc.idx)
  g5 : s.spc.afterMwg = true → s.rpc = .done
  gp : ∀ i, s.spc = .pend i → i < s.n

/-- the state pointer against Stop's visit, and the deadline of a visited session -/
structure Inv3b (cfg : Cfg) (s : State) : Prop where
  e0 : ∀ i, i < s.n → (s.ent i).visited = false → s.spc ≠ .pend i →
        (((s.ent i).st = .nil ∧ (s.ent i).clean = false) ∨ ((s.ent i).st = .nat ∧ (s.ent i).clean = true))
  e1 : ∀ i, i < s.n → ((s.ent i).visited = true ∨ s.spc = .pend i) →
        ((s.ent i).st = .srv ∨ ((s.ent i).st = .nat ∧ (s.ent i).clean = false ∧ 9 ≤ (s.ent i).ipc.idx))
  e2 : cfg.recheck = true → ∀ i, i < s.n → (s.ent i).visited = true → (s.ent i).clean = true → (s.ent i).dl = .future →
        ((s.ent i).upc = .check ∨ (s.ent i).upc = .force)
  g9 : s.spc.afterIter = true → ∀ i, i < s.n → s.table (s.ent i).key = some i → (s.ent i).visited = true

/-- once `wg.Wait` has returned every session goroutine has returned -/
structure Inv3c (s : State) : Prop where
  g10 : s.spc.afterWg = true → ∀ i, i < s.n → ((s.ent i).ipc = .done ∧ ((s.ent i).upc = .none ∨ (s.ent i).upc = .done))

theorem inv3a_initial : Inv3a State.init := by
  constructor <;> simp [State.init, SPc.afterMwg]
theorem inv3b_initial (cfg : Cfg) : Inv3b cfg State.init := by
  constructor <;> simp [State.init, SPc.afterIter]
theorem inv3c_initial : Inv3c State.init := by
  constructor <;> simp [State.init, SPc.afterWg]

set_option hygiene false in
macro "close_case3" : tactic => `(tactic| (
  first
  | (simp at h; done)
  | (injection h with h; subst h
     constructor <;>
       simp_all [State.setE, State.inTab, Entry.closeIf, Entry.closeSock, Entry.finished, allB_iff, IPc.idx, IPc.deleted_f, IPc.deleted_t] <;>
       grind [IPc.idx, SPc.afterMwg, SPc.afterIter, SPc.afterWg, Entry.fresh, SPc.afterIter_afterMwg, SPc.afterWg_afterMwg, SPc.afterWg_afterIter, SPc.pend_not_afterIter])))

end SSV.RelayLife
