import SSV.Model.TcpRelay
/-
Helper lemmas for C13: the invariant of the two copy loops, the frame property, and `handleConn` in closed form
(proved equal to the interpretation of the regenerated step program).
-/
set_option linter.unusedSimpArgs false
namespace SSV.TcpRelay
open SSV.Gen.C13


theorem loopOf_left : loopOf .left = { counter := .nl2r, dst := .right, src := .left, closeOn := .right } := by decide
theorem loopOf_right : loopOf .right = { counter := .nr2l, dst := .left, src := .right, closeOn := .left } := by decide

/-- invariant of the two copy loops, relative to the two source streams -/
structure CopyInv (srcL srcR : Bytes) (c : CopySt) : Prop where
  strL : c.rxR ++ c.todoL = srcL
  strR : c.rxL ++ c.todoR = srcR
  cntL : c.nL = c.rxR.length
  cntR : c.nR = c.rxL.length
  cwR : c.cwR = c.doneL
  cwL : c.cwL = c.doneR
  eofL : c.doneL = true → c.failL = false → c.todoL = []
  eofR : c.doneR = true → c.failR = false → c.todoR = []
  failL : c.failL = true → c.doneL = true
  failR : c.failR = true → c.doneR = true

theorem copyInv_init (a b : Bytes) : CopyInv a b (CopySt.init a b) := by
  constructor <;> simp [CopySt.init]

theorem copyInv_step {a b : Bytes} {c : CopySt} (h : CopyInv a b c) (l : Label) : CopyInv a b (stepCopy c l) := by
  unfold stepCopy
  split
  · rename_i hen
    cases l with
    | chunk s k =>
      cases s
      · simp only [enabled, CopySt.done, CopySt.todo, Bool.and_eq_true, Bool.not_eq_true', Nat.blt_eq, Nat.ble_eq] at hen
        obtain ⟨⟨hd, hk0⟩, hk⟩ := hen
        constructor <;> simp only [loopOf_left, CopySt.deliver, CopySt.consume, CopySt.todo]
        · rw [List.append_assoc, List.take_append_drop]; exact h.strL
        · exact h.strR
        · simp [h.cntL, List.length_take]; omega
        · exact h.cntR
        · exact h.cwR
        · exact h.cwL
        · intro hd'; rw [hd] at hd'; cases hd'
        · exact h.eofR
        · intro hf; have := h.failL hf; rw [hd] at this; cases this
        · exact h.failR
      · simp only [enabled, CopySt.done, CopySt.todo, Bool.and_eq_true, Bool.not_eq_true', Nat.blt_eq, Nat.ble_eq] at hen
        obtain ⟨⟨hd, hk0⟩, hk⟩ := hen
        constructor <;> simp only [loopOf_right, CopySt.deliver, CopySt.consume, CopySt.todo]
        · exact h.strL
        · rw [List.append_assoc, List.take_append_drop]; exact h.strR
        · exact h.cntL
        · simp [h.cntR, List.length_take]; omega
        · exact h.cwR
        · exact h.cwL
        · exact h.eofL
        · intro hd'; rw [hd] at hd'; cases hd'
        · exact h.failL
        · intro hf; have := h.failR hf; rw [hd] at this; cases this
    | eof s =>
      cases s
      · simp only [enabled, CopySt.done, CopySt.todo, Bool.and_eq_true, Bool.not_eq_true', List.isEmpty_iff] at hen
        obtain ⟨hd, ht⟩ := hen
        constructor <;> simp only [loopOf_left, CopySt.finish, CopySt.closeWrite]
        · exact h.strL
        · exact h.strR
        · exact h.cntL
        · exact h.cntR
        · exact h.cwL
        · intro _ _; exact ht
        · exact h.eofR
        · intro hf; cases hf
        · exact h.failR
      · simp only [enabled, CopySt.done, CopySt.todo, Bool.and_eq_true, Bool.not_eq_true', List.isEmpty_iff] at hen
        obtain ⟨hd, ht⟩ := hen
        constructor <;> simp only [loopOf_right, CopySt.finish, CopySt.closeWrite]
        · exact h.strL
        · exact h.strR
        · exact h.cntL
        · exact h.cntR
        · exact h.cwR
        · exact h.eofL
        · intro _ _; exact ht
        · exact h.failL
        · intro hf; cases hf
    | fail s =>
      cases s
      · constructor <;> simp only [loopOf_left, CopySt.finish, CopySt.closeWrite]
        · exact h.strL
        · exact h.strR
        · exact h.cntL
        · exact h.cntR
        · exact h.cwL
        · intro _ hf; cases hf
        · exact h.eofR
        · intro _; trivial
        · exact h.failR
      · constructor <;> simp only [loopOf_right, CopySt.finish, CopySt.closeWrite]
        · exact h.strL
        · exact h.strR
        · exact h.cntL
        · exact h.cntR
        · exact h.cwR
        · exact h.eofL
        · intro _ hf; cases hf
        · exact h.failL
        · intro _; trivial
  · exact h

theorem copyInv_run {a b : Bytes} (sched : List Label) {c : CopySt} (h : CopyInv a b c) : CopyInv a b (runSched c sched) := by
  induction sched generalizing c with
  | nil => exact h
  | cons l ls ih => exact ih (copyInv_step h l)

/-- frame: a step of one loop leaves everything the opposite loop owns untouched -/
theorem step_frame (c : CopySt) (l : Label) : loopView (stepCopy c l) (otherSide l.side) = loopView c (otherSide l.side) := by
  unfold stepCopy
  split
  · cases l with
    | chunk s k => cases s <;> simp [Label.side, otherSide, loopView, loopOf_left, loopOf_right, CopySt.deliver, CopySt.consume]
    | eof s => cases s <;> simp [Label.side, otherSide, loopView, loopOf_left, loopOf_right, CopySt.finish, CopySt.closeWrite]
    | fail s => cases s <;> simp [Label.side, otherSide, loopView, loopOf_left, loopOf_right, CopySt.finish, CopySt.closeWrite]
  · rfl

/-- enabledness of a label depends only on the view of its own loop -/
theorem enabled_of_view (c c' : CopySt) (l : Label) (h : loopView c' l.side = loopView c l.side) : enabled c' l = enabled c l := by
  cases l with
  | chunk s k =>
    cases s <;> simp only [Label.side, loopView, Prod.mk.injEq] at h <;> obtain ⟨h1, h2, _⟩ := h <;>
      simp only [enabled, CopySt.done, CopySt.todo, h1, h2]
  | eof s => cases s <;> simp_all [Label.side, loopView, enabled, CopySt.done, CopySt.todo]
  | fail s => cases s <;> simp_all [Label.side, loopView, enabled, CopySt.done]

/-- the opposite loop keeps running: whatever it could do before a step of the other loop it can still do afterwards -/
theorem opposite_keeps_running (c : CopySt) (l l' : Label) (hs : l'.side = (otherSide l.side)) :
    enabled (stepCopy c l) l' = enabled c l' := by
  apply enabled_of_view
  rw [hs]
  exact step_frame c l

/-- EOF (or a failure) on one side becomes CloseWrite on the other side, and only the reading loop ends -/
theorem eof_becomes_closeWrite (c : CopySt) (s : Side) (h : enabled c (.eof s) = true) :
    (stepCopy c (.eof s)).cw (otherSide s) = true ∧ (stepCopy c (.eof s)).done s = true ∧ (stepCopy c (.eof s)).failed s = false := by
  unfold stepCopy
  rw [if_pos h]
  cases s <;> simp [otherSide, loopOf_left, loopOf_right, CopySt.finish, CopySt.closeWrite, CopySt.cw, CopySt.done, CopySt.failed]


/-- everything from DialStream on, given whether the pending connection was already proceeded -/
def fromDial (e : Env) (r : Req) (proceeded : Bool) (payload : Bytes) (consumed : Nat) : List Action :=
  .dial r.addr payload ::
  match e.dialErr with
  | some c => if proceeded then [.closeClient] else [.abort c, .closeClient]
  | none =>
    (if proceeded then [] else [.proceed]) ++
    if !proceeded && !e.proceedOk then [.closeRemote, .closeClient]
    else
      let c := copyRun e consumed
      [.copied c.rxR c.rxL] ++ (if c.cwR then [.closeWrite .right] else []) ++ (if c.cwL then [.closeWrite .left] else []) ++
      if c.doneL && c.doneR then [.collect r.user c.nR (c.nL + payload.length), .closeRemote, .closeClient]
      else [.blocked]

theorem counter_nl2r (c : CopySt) : c.counter .nl2r = c.nL := by
  simp [CopySt.counter, show loopOf .left = { counter := .nl2r, dst := .right, src := .left, closeOn := .right } by decide,
    show loopOf .right = { counter := .nr2l, dst := .left, src := .right, closeOn := .left } by decide]
theorem counter_nr2l (c : CopySt) : c.counter .nr2l = c.nR := by
  simp [CopySt.counter, show loopOf .left = { counter := .nl2r, dst := .right, src := .left, closeOn := .right } by decide,
    show loopOf .right = { counter := .nr2l, dst := .left, src := .right, closeOn := .left } by decide]

theorem runSteps_run (e : Env) (p : Step) (ps : List Step) (s : St) (h : s.returned = false) :
    runSteps e (p :: ps) s = runSteps e ps (execStep e s p) := by simp [runSteps, h]
theorem runSteps_ret (e : Env) (ps : List Step) (s : St) (h : s.returned = true) : runSteps e ps s = s := by
  cases ps <;> simp [runSteps, h]

theorem waits_eq (e : Env) (r : Req) :
    (r.payload.isEmpty && (e.clientNative && listenerWait e)) = waits e r := by
  simp [waits, listenerWait, listenerWaitCond, evalAtom, Bool.and_assoc]

/-- from the dial step on, for a state that has not returned -/
theorem fromDial_run (e : Env) (r : Req) (pre : List Action) (proceeded : Bool) (payload : Bytes) (consumed readN : Nat) :
    finish (runSteps e [Step.dial, Step.deferCloseRemote, Step.proceedIfPending, Step.copy, Step.addPayloadLen, Step.collect, Step.returnIfCopyErr]
      { req := { r with payload := payload }, proceeded := proceeded, consumed := consumed, readN := readN, trace := pre }) =
    pre ++ fromDial e r proceeded payload consumed := by
  rw [runSteps_run _ _ _ _ rfl]; simp only [execStep, St.emit]
  cases hd : e.dialErr with
  | some c =>
    cases proceeded <;> simp [fromDial, hd, finish, runSteps, abortIf, dialAbort, St.emit, St.ret]
  | none =>
    simp only []
    rw [runSteps_run _ _ _ _ rfl]; simp only [execStep]
    rw [runSteps_run _ _ _ _ rfl]; simp only [execStep, St.emit]
    cases proceeded with
    | true =>
      simp only [if_true]
      rw [runSteps_run _ _ _ _ rfl]; simp only [execStep, St.emit]
      simp only [fromDial, hd, Bool.not_true, Bool.false_and, if_true, if_false, Bool.false_eq_true, List.nil_append]
      cases hdl : (copyRun e consumed).doneL <;> cases hdr : (copyRun e consumed).doneR <;>
        cases hfl : (copyRun e consumed).failL <;> cases hfr : (copyRun e consumed).failR <;>
        simp [hdl, hdr, hfl, hfr, St.ret, runSteps, execStep, finish, setCounter, getCounter, payloadAddedTo, collectDown, collectUp, St.emit, counter_nl2r, counter_nr2l]
    | false =>
      cases hp : e.proceedOk with
      | false => simp [fromDial, hd, hp, finish, runSteps, St.ret]
      | true =>
        simp only [Bool.false_eq_true, if_false, if_true]
        rw [runSteps_run _ _ _ _ rfl]; simp only [execStep, St.emit]
        simp only [fromDial, hd, hp, Bool.not_true, Bool.not_false, Bool.and_false, if_true, if_false, Bool.false_eq_true]
        cases hdl : (copyRun e consumed).doneL <;> cases hdr : (copyRun e consumed).doneR <;>
        cases hfl : (copyRun e consumed).failL <;> cases hfr : (copyRun e consumed).failR <;>
          simp [hdl, hdr, hfl, hfr, St.ret, runSteps, execStep, finish, setCounter, getCounter, payloadAddedTo, collectDown, collectUp, St.emit, counter_nl2r, counter_nr2l]


theorem handleConn_nowait (e : Env) (r : Req) (hr : e.req = some r) (hroute : e.routeErr = none) (hw : waits e r = false) :
    handleConn e = .handshake :: .routed :: fromDial e r false r.payload 0 := by
  simp only [handleConn, hr, handleConnProgram]
  rw [runSteps_run _ _ _ _ rfl]; simp only [execStep]
  rw [runSteps_run _ _ _ _ rfl]; simp only [execStep, St.emit, List.nil_append]
  rw [runSteps_run _ _ _ _ rfl]; simp only [execStep, St.emit, hroute, List.cons_append, List.nil_append]
  rw [runSteps_run _ _ _ _ rfl]; simp only [execStep]
  rw [runSteps_run _ _ _ _ rfl]; simp only [execStep, waitCond, List.all_cons, List.all_nil, evalAtom, Bool.and_true, waits_eq, hw]
  simp only [Bool.false_eq_true, if_false]
  exact fromDial_run e r [.handshake, .routed] false r.payload 0 0

theorem runW_run (e : Env) (w : WStep) (ws : List WStep) (s : St) (h : s.returned = false) :
    runW e (w :: ws) s = runW e ws (execW e s w) := by simp [runW, h]
theorem runW_ret (e : Env) (ws : List WStep) (s : St) (h : s.returned = true) : runW e ws s = s := by
  cases ws <;> simp [runW, h]

theorem waitBytes_le_stream (e : Env) : waitBytes e ≤ e.clientStream.length := by
  simp only [waitBytes]; omega
theorem waitBytes_le_buf (e : Env) : waitBytes e ≤ e.bufSize := by
  simp only [waitBytes]; omega

/-- the wait path in closed form -/
def afterWait (e : Env) (r : Req) : List Action :=
  .proceed ::
    if !e.proceedOk then [.closeClient] else
    .setDeadline :: if !e.setDeadlineOk then [.closeClient] else
    .waitRead e.bufSize :: if e.waitKind = .error then [.closeClient] else
    .clearDeadline :: if !e.clearDeadlineOk then [.closeClient] else
    fromDial e r true (e.clientStream.take (waitBytes e)) (waitBytes e)

theorem handleConn_wait (e : Env) (r : Req) (hr : e.req = some r) (hroute : e.routeErr = none) (hw : waits e r = true) :
    handleConn e = .handshake :: .routed :: afterWait e r := by
  simp only [handleConn, hr, handleConnProgram]
  rw [runSteps_run _ _ _ _ rfl]; simp only [execStep]
  rw [runSteps_run _ _ _ _ rfl]; simp only [execStep, St.emit, List.nil_append]
  rw [runSteps_run _ _ _ _ rfl]; simp only [execStep, St.emit, hroute, List.cons_append, List.nil_append]
  rw [runSteps_run _ _ _ _ rfl]; simp only [execStep]
  rw [runSteps_run _ _ _ _ rfl]; simp only [execStep, waitCond, List.all_cons, List.all_nil, evalAtom, Bool.and_true, waits_eq, hw]
  simp only [if_true, waitProgram, afterWait]
  rw [runW_run _ _ _ _ rfl]; simp only [execW, St.emit, List.cons_append, List.nil_append]
  cases hp : e.proceedOk with
  | false =>
    simp only [Bool.false_eq_true, if_false, St.ret]
    rw [runW_ret _ _ _ rfl, runSteps_ret _ _ _ rfl]
    simp [finish]
  | true =>
    simp only [if_true]
    rw [runW_run _ _ _ _ rfl]; simp only [execW]
    rw [runW_run _ _ _ _ rfl]; simp only [execW, St.emit, List.cons_append, List.nil_append]
    cases hs : e.setDeadlineOk with
    | false =>
      simp only [Bool.false_eq_true, if_false, St.ret]
      rw [runW_ret _ _ _ rfl, runSteps_ret _ _ _ rfl]
      simp [finish]
    | true =>
      simp only [if_true]
      rw [runW_run _ _ _ _ rfl]; simp only [execW, St.emit, List.cons_append, List.nil_append, List.length_replicate, List.drop_zero, Nat.zero_add]
      rw [runW_run _ _ _ _ rfl]; simp only [execW, readContinues]
      have hpay : ∀ (n : Nat), n ≤ e.clientStream.length →
          List.take n (List.take n e.clientStream ++ List.drop n (List.replicate e.bufSize (0 : UInt8))) = List.take n e.clientStream := by
        intro n hn
        rw [List.take_append_of_le_length (by simp [List.length_take]; omega)]
        simp [List.take_take]
      have hcont : e.waitKind ≠ .error → List.contains [ReadKind.data, ReadKind.eof, ReadKind.timeout] e.waitKind = true := by
        intro hne
        cases hk : e.waitKind <;> simp_all
      by_cases hk : e.waitKind = .error
      · simp only [hk, List.contains_cons, List.contains_nil, if_true]
        simp only [show (ReadKind.error == ReadKind.data) = false from rfl, show (ReadKind.error == ReadKind.eof) = false from rfl,
          show (ReadKind.error == ReadKind.timeout) = false from rfl, Bool.or_false, Bool.false_eq_true, if_false, St.ret]
        rw [runW_ret _ _ _ rfl, runSteps_ret _ _ _ rfl]
        simp [finish]
      · simp only [hcont hk, hk, if_true, if_false, Bool.not_true, Bool.false_eq_true]
        rw [runW_run _ _ _ _ rfl]; simp only [execW]
        rw [runW_run _ _ _ _ rfl]; simp only [execW, St.emit, List.cons_append, List.nil_append]
        cases hc : e.clearDeadlineOk with
        | false =>
          simp only [Bool.false_eq_true, if_false, St.ret]
          rw [runW_ret _ _ _ rfl, runSteps_ret _ _ _ rfl]
          simp [finish]
        | true =>
          simp only [if_true, runW, Bool.not_true, Bool.false_eq_true, if_false, hpay _ (waitBytes_le_stream e)]
          exact fromDial_run e r _ true _ (waitBytes e) (waitBytes e)



theorem copyRun_inv (e : Env) (k : Nat) : CopyInv (e.clientStream.drop k) e.targetStream (copyRun e k) :=
  copyInv_run e.sched (copyInv_init _ _)

theorem failL_step (c : CopySt) (l : Label) (hl : l ≠ .fail .left) (h : c.failL = false) : (stepCopy c l).failL = false := by
  unfold stepCopy
  split
  · cases l with
    | chunk s k => cases s <;> simpa [loopOf_left, loopOf_right, CopySt.deliver, CopySt.consume] using h
    | eof s => cases s <;> simp [loopOf_left, loopOf_right, CopySt.finish, CopySt.closeWrite, h]
    | fail s =>
      cases s
      · exact absurd rfl hl
      · simpa [loopOf_right, CopySt.finish, CopySt.closeWrite] using h
  · exact h

theorem failL_run (sched : List Label) (c : CopySt) (hl : ∀ l ∈ sched, l ≠ .fail .left) (h : c.failL = false) :
    (runSched c sched).failL = false := by
  induction sched generalizing c with
  | nil => exact h
  | cons l ls ih =>
    exact ih (stepCopy c l) (fun x hx => hl x (List.mem_cons_of_mem _ hx)) (failL_step c l (hl l (List.mem_cons_self ..)) h)

/-- what the remote side has received, from the closed form -/
theorem targetReceived_fromDial (e : Env) (r : Req) (pr : Bool) (p : Bytes) (k : Nat) (hd : e.dialErr = none) :
    targetReceived (fromDial e r pr p k) = p ++ (if !pr && !e.proceedOk then [] else (copyRun e k).rxR) := by
  simp only [fromDial, hd]
  cases pr <;> cases e.proceedOk <;> simp [targetReceived]
  all_goals (repeat' split) <;> simp [targetReceived]


theorem clientReceived_fromDial (e : Env) (r : Req) (pr : Bool) (p : Bytes) (k : Nat) (hd : e.dialErr = none) :
    clientReceived (fromDial e r pr p k) = (if !pr && !e.proceedOk then [] else (copyRun e k).rxL) := by
  simp only [fromDial, hd]
  cases pr <;> cases e.proceedOk <;> simp [clientReceived]
  all_goals (repeat' split) <;> simp [clientReceived]

theorem dialCount_fromDial (e : Env) (r : Req) (pr : Bool) (p : Bytes) (k : Nat) : dialCount (fromDial e r pr p k) = 1 := by
  simp only [fromDial]
  (repeat' split) <;> simp [dialCount]
  all_goals (repeat' split) <;> simp [dialCount]

/-- `handleConn` on a routed request, in closed form -/
theorem handleConn_cases (e : Env) (r : Req) (hr : e.req = some r) (hroute : e.routeErr = none) :
    handleConn e = .handshake :: .routed ::
      (if waits e r then afterWait e r else fromDial e r false r.payload 0) := by
  cases hw : waits e r
  · simpa using handleConn_nowait e r hr hroute hw
  · simpa using handleConn_wait e r hr hroute hw

theorem waits_iff (e : Env) (r : Req) :
    waits e r = true ↔ (r.payload = [] ∧ e.clientNative = true ∧ e.serverNative = false ∧ e.waitDisabled = false) := by
  simp [waits, List.isEmpty_iff, and_assoc]

theorem handleConn_routeErr (e : Env) (r : Req) (c : Code) (hr : e.req = some r) (h : e.routeErr = some c) :
    handleConn e = [.handshake, .abort c, .closeClient] := by
  simp [handleConn, hr, finish, runSteps, handleConnProgram, execStep, h, abortIf, routeAbort, St.emit, St.ret]


theorem collect_mem_fromDial (e : Env) (r : Req) (pr : Bool) (p : Bytes) (k : Nat) (u : String) (d up : Nat)
    (h : Action.collect u d up ∈ fromDial e r pr p k) :
    e.dialErr = none ∧ (!pr && !e.proceedOk) = false ∧ u = r.user ∧ d = (copyRun e k).nR ∧ up = (copyRun e k).nL + p.length := by
  simp only [fromDial] at h
  revert h; (repeat' split) <;> simp_all

theorem afterWait_ok (e : Env) (r : Req) (h1 : e.proceedOk = true) (h2 : e.setDeadlineOk = true) (h3 : e.waitKind ≠ .error)
    (h4 : e.clearDeadlineOk = true) :
    afterWait e r = .proceed :: .setDeadline :: .waitRead e.bufSize :: .clearDeadline ::
      fromDial e r true (e.clientStream.take (waitBytes e)) (waitBytes e) := by
  simp [afterWait, h1, h2, h3, h4]

theorem collect_mem_afterWait (e : Env) (r : Req) (u : String) (d up : Nat) (h : Action.collect u d up ∈ afterWait e r) :
    e.proceedOk = true ∧ e.setDeadlineOk = true ∧ e.waitKind ≠ .error ∧ e.clearDeadlineOk = true ∧
      Action.collect u d up ∈ fromDial e r true (e.clientStream.take (waitBytes e)) (waitBytes e) := by
  simp only [afterWait] at h
  revert h; (repeat' split) <;> simp_all

theorem closeWrite_mem_afterWait (e : Env) (r : Req) (s : Side) (h : Action.closeWrite s ∈ afterWait e r) :
    e.proceedOk = true ∧ e.setDeadlineOk = true ∧ e.waitKind ≠ .error ∧ e.clearDeadlineOk = true ∧
      Action.closeWrite s ∈ fromDial e r true (e.clientStream.take (waitBytes e)) (waitBytes e) := by
  simp only [afterWait] at h
  revert h; (repeat' split) <;> simp_all


/-- once BidirectionalCopy has returned (the handler is not blocked in it) the session is collected — whichever way the
loops ended (EOF or error) -/
theorem collect_of_copied_fromDial (e : Env) (r : Req) (pr : Bool) (p : Bytes) (k : Nat) (a b : Bytes)
    (hc : Action.copied a b ∈ fromDial e r pr p k) (hnb : Action.blocked ∉ fromDial e r pr p k) :
    Action.collect r.user (copyRun e k).nR ((copyRun e k).nL + p.length) ∈ fromDial e r pr p k := by
  simp only [fromDial] at hc hnb ⊢
  revert hc hnb; (repeat' split) <;> simp_all

theorem copied_mem_afterWait (e : Env) (r : Req) (a b : Bytes) (h : Action.copied a b ∈ afterWait e r) :
    e.proceedOk = true ∧ e.setDeadlineOk = true ∧ e.waitKind ≠ .error ∧ e.clearDeadlineOk = true ∧
      Action.copied a b ∈ fromDial e r true (e.clientStream.take (waitBytes e)) (waitBytes e) := by
  simp only [afterWait] at h
  revert h; (repeat' split) <;> simp_all

end SSV.TcpRelay
