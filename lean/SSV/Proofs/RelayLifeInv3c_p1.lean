import SSV.Proofs.RelayLifeDefs3
namespace SSV.RelayLife
variable (cfg : Cfg)

set_option maxHeartbeats 1600000 in
theorem inv3c_init (s s' : State) (i : Nat) (ok : Bool) (ha : Inv3a s) (hI : Inv3c s) (h : step cfg s (.init i ok) = some s') : Inv3c s' := by
  have g5 := ha.g5
  clear ha
  obtain ⟨g10⟩ := hI
  simp only [step] at h
  (repeat' split at h) <;> close_case3


end SSV.RelayLife
