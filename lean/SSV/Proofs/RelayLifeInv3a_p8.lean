import SSV.Proofs.RelayLifeDefs3
namespace SSV.RelayLife
variable (cfg : Cfg)

theorem inv3a_uFail (s s' : State) (i : Nat) (hI : Inv3a s) (h : step cfg s (.uFail i) = some s') : Inv3a s' := by
  obtain ⟨k1,u2,u3,g5,gp⟩ := hI
  simp only [step] at h
  (repeat' split at h) <;> close_case3

theorem inv3a_uRecv (s s' : State) (i : Nat) (k : Nat) (hI : Inv3a s) (h : step cfg s (.uRecv i k) = some s') : Inv3a s' := by
  obtain ⟨k1,u2,u3,g5,gp⟩ := hI
  simp only [step] at h
  (repeat' split at h) <;> close_case3

theorem inv3a_timer (s s' : State) (i : Nat) (hI : Inv3a s) (h : step cfg s (.timer i) = some s') : Inv3a s' := by
  obtain ⟨k1,u2,u3,g5,gp⟩ := hI
  simp only [step] at h
  (repeat' split at h) <;> close_case3

theorem inv3a_stopCall (s s' : State)  (hI : Inv3a s) (h : step cfg s (.stopCall ) = some s') : Inv3a s' := by
  obtain ⟨k1,u2,u3,g5,gp⟩ := hI
  simp only [step] at h
  (repeat' split at h) <;> close_case3


end SSV.RelayLife
