import SSV.Proofs.RelayFair
/-
Fairness ⇒ every packet pending in a started session's queue gets a fate (FIFO, documented fates only).
-/
namespace SSV.Relay

variable {cfg : Config}

theorem step_logs (st : State) (a : Act) :
    ∃ X Y, (step cfg st a).enq = st.enq ++ X ∧ (step cfg st a).fate = st.fate ++ Y := by
  cases a with
  | recv k src r =>
    simp only [step, recv]
    split
    · exact ⟨[], [], by simp, by simp⟩
    · split
      · split
        · split
          · exact ⟨_, [], rfl, by simp [setSess]⟩
          · exact ⟨[], [], by simp [setSess, *], by simp [setSess]⟩
        · exact ⟨[], [], by simp, by simp⟩
      · split
        · split
          · exact ⟨_, [], rfl, by simp⟩
          · exact ⟨[], [], by simp [*], by simp⟩
        · split
          · exact ⟨[], [], by simp, by simp⟩
          · exact ⟨[], [], by simp, by simp⟩
  | initOk i => simp only [step, initOk]; repeat' split
                all_goals exact ⟨[], [], by simp [setSess], by simp [setSess]⟩
  | initFail i => simp only [step, initFail]; repeat' split
                  all_goals first | exact ⟨[], _, by simp [closeSess, setSess], rfl⟩ | exact ⟨[], [], by simp, by simp⟩
  | evict i => simp only [step, evict]; repeat' split
               all_goals exact ⟨[], [], by simp [closeSess, setSess], by simp [closeSess, setSess]⟩
  | down i r => simp only [step, down]; repeat' split
                all_goals exact ⟨[], [], by simp, by simp⟩
  | take i => simp only [step, take]; repeat' split
              all_goals first | exact ⟨[], _, by simp [setSess], rfl⟩ | exact ⟨[], [], by simp [setSess], by simp [setSess]⟩
  | packErr i => simp only [step, packErr]; repeat' split
                 all_goals first | exact ⟨[], _, by simp [setSess], rfl⟩ | exact ⟨[], [], by simp [setSess], by simp [setSess]⟩
  | resolved i ans => simp only [step, resolved]; repeat' split
                      all_goals first | exact ⟨[], _, by simp [setSess], rfl⟩ | exact ⟨[], [], by simp [setSess], by simp [setSess]⟩
  | storeIP i => simp only [step, storeIP]; repeat' split
                 all_goals exact ⟨[], [], by simp [setSess], by simp [setSess]⟩
  | readSend i => simp only [step, readSend]; repeat' split
                  all_goals first | exact ⟨[], _, by simp [setSess], rfl⟩ | exact ⟨[], [], by simp [setSess], by simp [setSess]⟩

theorem run_logs (acts : List Act) (st : State) :
    ∃ X Y, (run cfg st acts).enq = st.enq ++ X ∧ (run cfg st acts).fate = st.fate ++ Y := by
  induction acts generalizing st with
  | nil => exact ⟨[], [], by simp [run], by simp [run]⟩
  | cons a rest ih =>
    obtain ⟨X1, Y1, h1, h2⟩ := step_logs (cfg := cfg) st a
    obtain ⟨X2, Y2, h3, h4⟩ := ih (step cfg st a)
    refine ⟨X1 ++ X2, Y1 ++ Y2, ?_, ?_⟩
    · simp only [run, List.foldl] at h3 ⊢; rw [h3, h1, List.append_assoc]
    · simp only [run, List.foldl] at h4 ⊢; rw [h4, h2, List.append_assoc]

theorem progOf_le (o : Option Sess) : progOf o ≤ 3 := by
  cases o with
  | none => simp [progOf]
  | some s => simp only [progOf]; cases s.pc <;> simp [prog]

theorem pend_len (s : Sess) : 4 * (pend s).length = work s + prog s.pc := by
  simp only [pend, work, List.length_append]
  cases s.pc <;> simp [inflight, prog] <;> omega

/-- the uplink of a started session is never stuck while something is pending -/
theorem never_stuck (st : State) (sid : Nat) (s : Sess) (hs : st.sess sid = some s) (hst : s.started = true)
    (hw : 0 < work s) : ∃ a, enabledUpB st sid a = true := by
  cases hpc : s.pc with
  | idle =>
    refine ⟨.take sid, ?_⟩
    have : s.queue ≠ [] := by
      intro h; simp [work, hpc, h] at hw
    simp [enabledUpB, hs, hst, hpc, this]
  | resolving q d => exact ⟨.resolved sid none, by simp [enabledUpB, hs, hpc]⟩
  | storedDomain q ip => exact ⟨.storeIP sid, by simp [enabledUpB, hs, hpc]⟩
  | storedIP q => exact ⟨.readSend sid, by simp [enabledUpB, hs, hpc]⟩

theorem fair_count {st : State} (hI : FInv st) (sid : Nat) (s : Sess) (hs : st.sess sid = some s) (acts : List Act)
    (hfair : work s ≤ upTurns cfg sid st acts) :
    (fateOf st sid).length + (pend s).length ≤ (fateOf (run cfg st acts) sid).length := by
  have h := psi_run (cfg := cfg) acts hI sid
  have h3 := progOf_le ((run cfg st acts).sess sid)
  have h4 := pend_len s
  simp only [psi, hs, progOf] at h
  simp only [progOf] at h3
  omega

theorem prefix_of_append {α : Type} (l1 X Y R : List α) (h : l1 ++ X = Y ++ R) (hl : l1.length ≤ Y.length) :
    ∃ Z, Y = l1 ++ Z := by
  refine ⟨Y.drop l1.length, ?_⟩
  have h1 : (l1 ++ X).take l1.length = l1 := by simp
  have h2 : (Y ++ R).take l1.length = Y.take l1.length := by
    rw [List.take_append_of_le_length hl]
  rw [h, h2] at h1
  conv => lhs; rw [← List.take_append_drop l1.length Y]
  rw [h1]

/-- **Fairness ⇒ fate.** From any reachable state: if the uplink of session `sid` gets at least `work s` enabled turns in
the rest of the run (whatever else is interleaved), then everything pending at that state — the packet in flight and
the whole queue, in FIFO order — has left the uplink: the fate log of `sid` continues exactly with those packets. -/
theorem pending_get_fates (pre acts : List Act) (sid : Nat) (s : Sess)
    (hs : (run cfg State.init pre).sess sid = some s)
    (hfair : work s ≤ upTurns cfg sid (run cfg State.init pre) acts) :
    ∃ Z, fateOf (run cfg (run cfg State.init pre) acts) sid = fateOf (run cfg State.init pre) sid ++ pend s ++ Z := by
  have hI : FInv (run cfg State.init pre) := finv_run pre finv_init
  have hI' : FInv (run cfg (run cfg State.init pre) acts) := finv_run acts hI
  have hcnt := fair_count hI sid s hs acts hfair
  obtain ⟨X, Y, hX, hY⟩ := run_logs (cfg := cfg) acts (run cfg State.init pre)
  have hE : enqOf (run cfg (run cfg State.init pre) acts) sid = enqOf (run cfg State.init pre) sid ++
      X.filterMap (fun e => if e.1 = sid then some e.2 else none) := by simp [enqOf, hX]
  have hF : fateOf (run cfg (run cfg State.init pre) acts) sid = fateOf (run cfg State.init pre) sid ++
      Y.filterMap (fun e => if e.1 = sid then some e.2.1 else none) := by simp [fateOf, hY]
  have hfifo := hI.fifo _ _ hs
  rw [hF, List.length_append] at hcnt
  cases hs' : (run cfg (run cfg State.init pre) acts).sess sid with
  | none =>
    have := (hI'.empty _ hs').1
    rw [hE, hfifo] at this
    simp only [List.append_eq_nil_iff] at this
    exact ⟨Y.filterMap (fun e => if e.1 = sid then some e.2.1 else none), by rw [hF, this.1.2, List.append_nil]⟩
  | some s' =>
    have h2 := hI'.fifo _ _ hs'
    rw [hE, hF, hfifo, List.append_assoc, List.append_assoc] at h2
    have h3 := List.append_cancel_left h2
    obtain ⟨Z, hZ⟩ := prefix_of_append _ _ _ _ h3 (by omega)
    exact ⟨Z, by rw [hF, hZ, List.append_assoc]⟩

end SSV.Relay
