import SSV.Proofs.PipeFair
import SSV.Proofs.PipeExamples
/-
C15 — a concrete fair run (witness that the hypotheses of `write_returns` / `read_returns` are satisfiable):
thread 1 blocks in Read(cap 4); thread 0 writes [1,2,3]; data; count; both return; then the run stutters.
-/
namespace SSV.Pipe.FairEx
open SSV.Pipe.Ex

def s0 := init
def s1 := startD s0 1 (.read 4)
def s2 := step1 s1 1
def s3 := step1 s2 1
def s4 := step1 s3 1          -- reader in its select
def s5 := startD s4 0 (.write [1, 2, 3])
def s6 := step1 s5 0
def s7 := step1 s6 0
def s8 := step1 s7 0          -- writer holds the lock, loop head
def s9 := step1 s8 0          -- writer in its select
def s10 := dataD s9 1 0       -- committed hand-shake
def s11 := countD s10 1 0     -- both returned

def run : Nat → State
  | 0 => s0 | 1 => s1 | 2 => s2 | 3 => s3 | 4 => s4 | 5 => s5 | 6 => s6 | 7 => s7 | 8 => s8 | 9 => s9 | 10 => s10
  | _ => s11

theorem step_step1 {s : State} (i : Nat) (h : localSteps s i ≠ []) : Step s (step1 s i) := by
  unfold step1
  cases hl : localSteps s i with
  | nil => exact absurd hl h
  | cons x xs => exact .loc i (by simp [hl])

theorem step_startD {s : State} (i : Nat) (op : Op) (h : (start s i op).isSome) : Step s (startD s i op) := by
  unfold startD; cases hs : start s i op with
  | none => simp [hs] at h
  | some s' => exact .start i op hs

theorem step_dataD {s : State} (i j : Nat) (h : (data s i j).isSome) : Step s (dataD s i j) := by
  unfold dataD; cases hs : data s i j with
  | none => simp [hs] at h
  | some s' => exact .data i j hs

theorem step_countD {s : State} (i j : Nat) (h : (count s i j).isSome) : Step s (countD s i j) := by
  unfold countD; cases hs : count s i j with
  | none => simp [hs] at h
  | some s' => exact .count i j hs

theorem run_isRun : IsRun run := by
  refine ⟨.init, ?_⟩
  intro n
  match n with
  | 0 => exact Or.inl (step_startD 1 _ (by decide))
  | 1 => exact Or.inl (step_step1 1 (by decide))
  | 2 => exact Or.inl (step_step1 1 (by decide))
  | 3 => exact Or.inl (step_step1 1 (by decide))
  | 4 => exact Or.inl (step_startD 0 _ (by decide))
  | 5 => exact Or.inl (step_step1 0 (by decide))
  | 6 => exact Or.inl (step_step1 0 (by decide))
  | 7 => exact Or.inl (step_step1 0 (by decide))
  | 8 => exact Or.inl (step_step1 0 (by decide))
  | 9 => exact Or.inl (step_dataD 1 0 (by decide))
  | 10 => exact Or.inl (step_countD 1 0 (by decide))
  | _ + 11 => exact Or.inr rfl

/-- a returned thread cannot move -/
theorem not_canMove_ret {s : State} {j : Nat} (h : (∃ n e c, s.thr j = .wRet n e c) ∨ (∃ n e, s.thr j = .rRet n e)) :
    ¬ CanMove s j := by
  intro hc
  rcases hc with ⟨s', hl⟩ | ⟨i, s', hd | hd⟩ | ⟨i, s', hd | hd⟩
  · unfold localSteps at hl
    rcases h with ⟨n, e, c, hp⟩ | ⟨n, e, hp⟩ <;> simp [hp] at hl
  · obtain ⟨⟨_, _, _, h1⟩, _⟩ := data_some_pcs hd
    rcases h with ⟨n, e, c, hp⟩ | ⟨n, e, hp⟩ <;> (rw [hp] at h1; cases h1)
  · obtain ⟨_, _, _, _, _, h1⟩ := data_some_pcs hd
    rcases h with ⟨n, e, c, hp⟩ | ⟨n, e, hp⟩ <;> (rw [hp] at h1; cases h1)
  · obtain ⟨⟨_, _, _, _, _, h1⟩, _⟩ := count_some_pcs hd
    rcases h with ⟨n, e, c, hp⟩ | ⟨n, e, hp⟩ <;> (rw [hp] at h1; cases h1)
  · obtain ⟨_, _, _, _, h1⟩ := count_some_pcs hd
    rcases h with ⟨n, e, c, hp⟩ | ⟨n, e, hp⟩ <;> (rw [hp] at h1; cases h1)

theorem run_tail (m : Nat) (h : 11 ≤ m) : run m = s11 := by
  match m with
  | k + 11 => rfl

/-- the run is (vacuously from position 11 on, really before) weakly fair towards both threads: each of them
ends returned, where it cannot move any more -/
theorem run_fair0 : WeakFair run 0 := by
  intro n hall
  exfalso
  have := hall (n + 11) (by omega)
  rw [run_tail _ (by omega)] at this
  exact not_canMove_ret (Or.inl ⟨3, .nil, some 0, by decide⟩) this

theorem run_fair1 : WeakFair run 1 := by
  intro n hall
  exfalso
  have := hall (n + 11) (by omega)
  rw [run_tail _ (by omega)] at this
  exact not_canMove_ret (Or.inr ⟨3, .nil, by decide⟩) this

/-- pcs of the two threads along the run -/
theorem thr0 (m : Nat) : (run m).thr 0 = .idle ∨ (run m).thr 0 = .wChk1 [1, 2, 3] ∨ (run m).thr 0 = .wChk2 [1, 2, 3] ∨
    (run m).thr 0 = .wLock [1, 2, 3] ∨ (m = 8 ∧ (run m).thr 0 = .wEnter [1, 2, 3] 0 0) ∨
    (m = 9 ∧ (run m).thr 0 = .wSel [1, 2, 3] 0 0 0) ∨ (m = 10 ∧ (run m).thr 0 = .wAwait [1, 2, 3] 0 0) ∨
    (run m).thr 0 = .wRet 3 .nil (some 0) := by
  match m with
  | 0 | 1 | 2 | 3 | 4 => exact Or.inl (by decide)
  | 5 => exact Or.inr (Or.inl (by decide))
  | 6 => exact Or.inr (Or.inr (Or.inl (by decide)))
  | 7 => exact Or.inr (Or.inr (Or.inr (Or.inl (by decide))))
  | 8 => exact Or.inr (Or.inr (Or.inr (Or.inr (Or.inl ⟨rfl, by decide⟩))))
  | 9 => exact Or.inr (Or.inr (Or.inr (Or.inr (Or.inr (Or.inl ⟨rfl, by decide⟩)))))
  | 10 => exact Or.inr (Or.inr (Or.inr (Or.inr (Or.inr (Or.inr (Or.inl ⟨rfl, by decide⟩))))))
  | k + 11 => exact Or.inr (Or.inr (Or.inr (Or.inr (Or.inr (Or.inr (Or.inr (by rw [run_tail _ (by omega)]; decide)))))))

theorem run_partner : ∀ m b c g, (run m).thr 0 = .wSel b c 0 g → ∃ i k acc gr, (run m).thr i = .rSel k acc gr := by
  intro m b c g h
  rcases thr0 m with e | e | e | e | ⟨_, e⟩ | ⟨hm, _⟩ | ⟨_, e⟩ | e <;> (try (rw [e] at h; cases h))
  subst hm
  exact ⟨1, .read 4, 0, 0, by decide⟩

theorem run_pos : ∀ m i k acc nr fail chunk b c, (run m).thr i = .rAck k acc nr fail chunk →
    (run m).thr 0 = .wAwait b c 0 → b ≠ [] → 1 ≤ nr := by
  intro m i k acc nr fail chunk b c hi h _
  rcases thr0 m with e | e | e | e | ⟨_, e⟩ | ⟨_, e⟩ | ⟨hm, _⟩ | e <;> (try (rw [e] at h; cases h))
  subst hm
  -- position 10: the only thread owing a count is thread 1, with nr = 3
  have inv := inv_reachable (run_reachable run_isRun 10)
  obtain ⟨j, hj⟩ := inv.ackHs i (by simp [hi, PC.isAck])
  have h1 : (run 10).hs = some (1, 0) := by decide
  rw [h1] at hj; simp only [Option.some.injEq, Prod.mk.injEq] at hj
  obtain ⟨hi1, _⟩ := hj; subst hi1
  have e1 : (run 10).thr 1 = .rAck (.read 4) 0 3 false [1, 2, 3] := by decide
  rw [e1] at hi; cases hi; omega

/-! second run: the writer blocks first, then the reader arrives -/
def t1 := startD init 0 (.write [1, 2, 3])
def t2 := step1 t1 0
def t3 := step1 t2 0
def t4 := step1 t3 0
def t5 := step1 t4 0          -- writer in its select
def t6 := startD t5 1 (.read 4)
def t7 := step1 t6 1
def t8 := step1 t7 1
def t9 := step1 t8 1          -- reader in its select
def t10 := dataD t9 1 0
def t11 := countD t10 1 0

def run2 : Nat → State
  | 0 => init | 1 => t1 | 2 => t2 | 3 => t3 | 4 => t4 | 5 => t5 | 6 => t6 | 7 => t7 | 8 => t8 | 9 => t9 | 10 => t10
  | _ => t11

theorem run2_isRun : IsRun run2 := by
  refine ⟨.init, ?_⟩
  intro n
  match n with
  | 0 => exact Or.inl (step_startD 0 _ (by decide))
  | 1 => exact Or.inl (step_step1 0 (by decide))
  | 2 => exact Or.inl (step_step1 0 (by decide))
  | 3 => exact Or.inl (step_step1 0 (by decide))
  | 4 => exact Or.inl (step_step1 0 (by decide))
  | 5 => exact Or.inl (step_startD 1 _ (by decide))
  | 6 => exact Or.inl (step_step1 1 (by decide))
  | 7 => exact Or.inl (step_step1 1 (by decide))
  | 8 => exact Or.inl (step_step1 1 (by decide))
  | 9 => exact Or.inl (step_dataD 1 0 (by decide))
  | 10 => exact Or.inl (step_countD 1 0 (by decide))
  | _ + 11 => exact Or.inr rfl

theorem run2_tail (m : Nat) (h : 11 ≤ m) : run2 m = t11 := by
  match m with
  | k + 11 => rfl

theorem run2_fair1 : WeakFair run2 1 := by
  intro n hall
  exfalso
  have := hall (n + 11) (by omega)
  rw [run2_tail _ (by omega)] at this
  exact not_canMove_ret (Or.inr ⟨3, .nil, by decide⟩) this

theorem run2_partner : ∀ m k acc g, (run2 m).thr 1 = .rSel k acc g → ∃ j b c ci gw, (run2 m).thr j = .wSel b c ci gw := by
  intro m k acc g h
  match m with
  | 0 => exact absurd h (by rw [show (run2 0).thr 1 = .idle by decide]; simp)
  | 1 => exact absurd h (by rw [show (run2 1).thr 1 = .idle by decide]; simp)
  | 2 => exact absurd h (by rw [show (run2 2).thr 1 = .idle by decide]; simp)
  | 3 => exact absurd h (by rw [show (run2 3).thr 1 = .idle by decide]; simp)
  | 4 => exact absurd h (by rw [show (run2 4).thr 1 = .idle by decide]; simp)
  | 5 => exact absurd h (by rw [show (run2 5).thr 1 = .idle by decide]; simp)
  | 6 => exact absurd h (by rw [show (run2 6).thr 1 = .rChk1 (.read 4) 0 by decide]; simp)
  | 7 => exact absurd h (by rw [show (run2 7).thr 1 = .rChk2 (.read 4) 0 by decide]; simp)
  | 8 => exact absurd h (by rw [show (run2 8).thr 1 = .rEnter (.read 4) 0 by decide]; simp)
  | 9 => exact ⟨0, [1, 2, 3], 0, 0, 0, by decide⟩
  | 10 => exact absurd h (by rw [show (run2 10).thr 1 = .rAck (.read 4) 0 3 false [1, 2, 3] by decide]; simp)
  | k + 11 => exact absurd h (by rw [run2_tail _ (by omega), show t11.thr 1 = .rRet 3 .nil by decide]; simp)

theorem run2_at9 : (run2 9).thr 1 = .rSel (.read 4) 0 0 := by decide
theorem run_at8 : (run 8).thr 0 = .wEnter [1, 2, 3] 0 0 := by decide

end SSV.Pipe.FairEx
