import SSV.Proofs.HttpProxy
/-
Invariants of the forwarding transition system (all interleavings of the two goroutines and the origin).
-/
namespace SSV.HttpProxy
open SSV.Gen.C16

theorem filterReq_host (r : Req) : (filterReq r).host = r.host := by simp [filterReq]
theorem filterReq_method (r : Req) : (filterReq r).method = r.method := by simp [filterReq]
theorem filterReq_close (r : Req) : (filterReq r).close = r.close := by simp [filterReq]

theorem accepts_some {fh : Str} {m : ClientMsg} {r : Req} (h : accepts fh m = some r) :
    r.host = fh ∧ r.method ≠ connectLit := by
  cases m with
  | garbage => simp [accepts] at h
  | req q ok =>
    simp only [accepts] at h
    by_cases hc : (q.method == connectLit) = true
    · simp [hc] at h
    · simp only [hc, Bool.false_eq_true, if_false] at h
      by_cases hh : (q.host != fh) = true
      · simp [hh] at h
      · simp only [hh, Bool.false_eq_true, if_false, Option.some.injEq] at h
        subst h
        refine ⟨?_, ?_⟩
        · rw [filterReq_host]; simpa using hh
        · rw [filterReq_method]; intro e; simp [e] at hc

structure Inv (first : Req) (s : St) : Prop where
  host : s.fixedHost = first.host
  sentOk : ∀ r ∈ s.sent, r.host = first.host ∧ r.method ≠ connectLit
  originSub : ∀ r ∈ s.originIn, r ∈ s.sent
  annSub : ∀ r ∈ s.announced, r ∈ s.sent
  qcap : s.queue.length ≤ queueCap
  doneAbs : s.respDone = true → s.rphase = .done

theorem inv_init (first : Req) (rest : List ClientMsg) (hm : first.method ≠ connectLit) :
    Inv first (St.init first rest) := by
  refine ⟨rfl, ?_, ?_, ?_, ?_, ?_⟩ <;> simp [St.init, filterReq_host, filterReq_method, hm]

theorem inv_step {first : Req} {s t : St} (hi : Inv first s) (hs : Step s t) : Inv first t := by
  obtain ⟨h1, h2, h3, h4, h5, h6⟩ := hi
  cases hs with
  | fAnnounce pre r hp hsent hq =>
    refine ⟨h1, h2, h3, ?_, ?_, h6⟩
    · intro x hx
      rcases List.mem_append.mp hx with hx | hx
      · exact h4 x hx
      · simp at hx; subst hx; simp [hsent]
    · simp; omega
  | fSkip hp hd => exact ⟨h1, h2, h3, h4, h5, h6⟩
  | fWrite pre r hp hsent =>
    refine ⟨h1, h2, ?_, h4, h5, h6⟩
    intro x hx
    rcases List.mem_append.mp hx with hx | hx
    · exact h3 x hx
    · simp at hx; subst hx; simp [hsent]
  | fWriteErr hp => exact ⟨h1, h2, h3, h4, h5, h6⟩
  | fReadOk m rest r hp hc ha =>
    have := accepts_some ha
    refine ⟨h1, ?_, ?_, ?_, h5, h6⟩
    · intro x hx
      rcases List.mem_append.mp hx with hx | hx
      · exact h2 x hx
      · simp at hx; subst hx; exact ⟨this.1.trans h1, this.2⟩
    · intro x hx; exact List.mem_append_left _ (h3 x hx)
    · intro x hx; exact List.mem_append_left _ (h4 x hx)
  | fReadEnd hp hc => exact ⟨h1, h2, h3, h4, h5, h6⟩
  | origin p => exact ⟨h1, h2, h3, h4, h5, h6⟩
  | rPeek hp hne => exact ⟨h1, h2, h3, h4, h5, fun hd => by have := h6 hd; simp_all⟩
  | rPeekEnd hp => exact ⟨h1, h2, h3, h4, h5, fun _ => rfl⟩
  | rTake r rest hp hq =>
    refine ⟨h1, h2, h3, h4, ?_, fun hd => by have := h6 hd; simp_all⟩
    simp [hq] at h5 ⊢; omega
  | rTakeClosed hp hq hc => exact ⟨h1, h2, h3, h4, h5, fun _ => rfl⟩
  | rRead p rest q hp hc ho =>
    refine ⟨h1, h2, h3, h4, h5, ?_⟩
    intro hd
    simp only at hd ⊢
    simp [hd]
  | rErr hp => exact ⟨h1, h2, h3, h4, h5, fun _ => rfl⟩

theorem inv_reachable {first : Req} {rest : List ClientMsg} (hm : first.method ≠ connectLit) {s : St}
    (hr : Reachable first rest s) : Inv first s := by
  induction hr with
  | init => exact inv_init first rest hm
  | step _ hs ih => exact inv_step ih hs

/-- once the response forwarder is done, no step writes to the client any more and it stays done -/
theorem done_absorbing {s t : St} (hs : Step s t) (hd : s.rphase = .done) :
    t.rphase = .done ∧ t.clientOut = s.clientOut := by
  cases hs <;> simp_all


/-! ### pairing in the deterministic reading -/

theorem filterResp_status (p : Resp) (q : Req) : (filterResp p q).1.status = p.status := by
  simp only [filterResp, ingestResp]
  split <;> rfl

/-- the requests the final responses of a delivery list were paired with, in order -/
def finalsOf (l : List (Resp × Req)) : List Req := (l.filter (fun e => isFinal e.1.status)).map (·.2)

theorem respond_fifo (qs : List Req) (ps : List Resp) : finalsOf (respond qs ps) <+: qs := by
  induction ps generalizing qs with
  | nil => cases qs <;> simp [respond, finalsOf]
  | cons p ps ih =>
    cases qs with
    | nil => simp [respond, finalsOf]
    | cons q qs =>
      simp only [respond]
      by_cases hc : (filterResp p q).2 = true
      · simp only [hc, if_true, finalsOf, List.filter_cons, filterResp_status]
        split
        · simp
        · simp
      · simp only [hc, Bool.false_eq_true, if_false]
        by_cases hf : isFinal p.status = true
        · simp only [hf, if_true, finalsOf, List.filter_cons, filterResp_status, List.map_cons]
          exact (List.prefix_cons_inj q).mpr (ih qs)
        · simp only [hf, Bool.false_eq_true, if_false, finalsOf, List.filter_cons, filterResp_status]
          exact ih (q :: qs)

end SSV.HttpProxy
