import SSV.Proofs.StreamAuth
/-
C02, layer 2: what `HandleStream` / `initRead` accept.
-/
namespace SSV.Stream
open SSV.Gen.C01

/-- the bytes the transport holds (empty segments carry nothing) -/
def received (segs : List Bytes) : Bytes := (segs.filter (fun s => s.length ≠ 0)).flatten

theorem firstRead_ok {a : Bool} {n : Nat} {segs : List Bytes} {b rest : Bytes}
    (h : firstRead a n segs = .ok b rest) : received segs = b ++ rest := by
  unfold firstRead at h
  simp only at h
  split at h
  · split at h
    · rename_i bs r hr
      cases h
      exact readFull_split hr
    · cases h
  · split at h
    · cases h
    · rename_i s rs hs
      split at h
      · cases h
        unfold received
        rw [hs]
        simp [← List.append_assoc, List.take_append_drop]
      · cases h

theorem firstRead_fail {a : Bool} {n : Nat} {segs : List Bytes} {e : Err} {got : Bytes} {rs : List Bytes}
    (h : firstRead a n segs = .fail e got rs) : ∃ rest, received segs = got ++ rest := by
  unfold firstRead at h
  simp only at h
  split at h
  · split at h
    · cases h
    · cases h; exact ⟨[], by simp [received]⟩
  · split at h
    · cases h; exact ⟨received segs, rfl⟩
    · rename_i s rs hs
      split at h
      · cases h
      · cases h
        exact ⟨rs.flatten, by unfold received; rw [hs]; simp⟩

/-- **fallback_untouched**: whatever arrives, a connection handed to the fallback address carries a
prefix of the received bytes, unmodified. -/
theorem handle_fallback_prefix (C : Crypto) (cfg : ServerCfg) (now : Int) (segs : List Bytes) (p : Bytes)
    (h : handle C cfg now segs = .fallback p) : ∃ rest, received segs = p ++ rest := by
  unfold handle at h
  simp only at h
  split at h
  · rename_i e got hfr
    split at h
    · cases h; exact firstRead_fail hfr
    · cases h
  · rename_i b rest hfr
    have hb := firstRead_ok hfr
    have key : ∀ e, (if cfg.fallback = true then HandleRes.fallback b else HandleRes.error e) = .fallback p →
        ∃ rest, received segs = p ++ rest := by
      intro e he
      split at he
      · cases he; exact ⟨rest, hb⟩
      · cases he
    repeat' (first | exact ⟨rest, hb⟩ | (split at h) | exact key _ h | cases h)

end SSV.Stream

namespace SSV.Stream
open SSV.Gen.C01

/-- the server holds the key: its own PSK, or the uPSK of one of its users -/
def KeyHeld (cfg : ServerCfg) (upsk : Bytes) (name : String) : Prop :=
  (cfg.psk.length ≠ 0 ∧ upsk = cfg.psk) ∨ (cfg.psk.length = 0 ∧ ∃ u ∈ cfg.users, u.psk = upsk ∧ u.name = name)

theorem handle_request_authentic (C : Crypto) (cfg : ServerCfg) (now : Int) (segs : List Bytes)
    (req : Request) (r : Reader) (salt upsk : Bytes)
    (h : handle C cfg now segs = .request req r salt upsk) :
    ∃ ct c2 fh vh, C.dec (C.kdf upsk salt) 0 ct = some fh ∧ C.dec (C.kdf upsk salt) 1 c2 = some vh ∧
      parseVarHeader vh = .ok (req.addr, req.payload) ∧ KeyHeld cfg upsk req.user ∧
      r.key = C.kdf upsk salt ∧ r.nonce = 2 ∧ r.left = [] := by
  unfold handle at h
  simp only at h
  split at h
  · split at h <;> cases h
  · rename_i b rest hfr
    split at h
    · split at h <;> cases h
    · split at h
      · split at h <;> cases h
      · rename_i u hu
        split at h
        · split at h <;> cases h
        · rename_i fh hfh
          split at h
          · split at h <;> cases h
          · split at h
            · split at h <;> cases h
            · split at h
              · cases h
              · rename_i c2 rest2 hrf
                split at h
                · cases h
                · rename_i vh hvh
                  split at h
                  · cases h
                  · rename_i a payload hpv
                    cases h
                    refine ⟨_, c2, fh, vh, hfh, hvh, hpv, ?_, rfl, rfl, rfl⟩
                    by_cases hp : cfg.psk.length = 0
                    · right
                      refine ⟨hp, ?_⟩
                      rw [if_pos hp] at hu
                      have hm := List.mem_of_find?_eq_some hu
                      exact ⟨u, hm, rfl, rfl⟩
                    · left
                      refine ⟨hp, ?_⟩
                      rw [if_neg hp] at hu
                      cases hu; rfl

end SSV.Stream

namespace SSV.Stream
open SSV.Gen.C01

theorem parseRespHeader_ok {h : Bytes} {now : Int} {reqSalt : Bytes} {n : Nat}
    (hp : parseRespHeader h now reqSalt = .ok n) :
    (h.headD 0).toNat = HeaderTypeServerStream ∧ (h.drop 9).take reqSalt.length = reqSalt ∧ n ≠ 0 := by
  unfold parseRespHeader at hp
  split at hp
  · cases hp
  · rename_i ht
    split at hp
    · cases hp
    · split at hp
      · cases hp
      · rename_i hs
        simp only at hp
        split at hp
        · cases hp
        · rename_i hn
          cases hp
          exact ⟨by simpa using ht, by simpa using hs, hn⟩

/-- the client's `initRead` succeeds only on a response header that opens under the client's own
key (for the salt the response carries) and contains the client's request salt -/
theorem initRead_bound (C : Crypto) (c : CReader) (now : Int) (len : Nat) (c' : CReader)
    (h : initRead C c now = (.ok len, c')) :
    ∃ ct salt' hd, C.dec (C.kdf c.psk salt') 0 ct = some hd ∧
      (hd.headD 0).toNat = HeaderTypeServerStream ∧ (hd.drop 9).take c.reqSalt.length = c.reqSalt := by
  unfold initRead at h
  simp only at h
  split at h
  · cases h
  · rename_i b rest hfr
    split at h
    · cases h
    · split at h
      · cases h
      · rename_i hd hdec
        split at h
        · cases h
        · rename_i n hp
          obtain ⟨h1, h2, _⟩ := parseRespHeader_ok hp
          exact ⟨_, _, hd, hdec, h1, h2⟩

/-- … so a client that has not read yet returns data from its first `Read` only for such a header -/
theorem first_read_bound (C : Crypto) (c : CReader) (now : Int) (n : Nat) (bs : Bytes)
    (hc : c.r = none) (h : (c.read C now n).1 = .data bs) :
    ∃ ct salt' hd, C.dec (C.kdf c.psk salt') 0 ct = some hd ∧
      (hd.headD 0).toNat = HeaderTypeServerStream ∧ (hd.drop 9).take c.reqSalt.length = c.reqSalt := by
  unfold CReader.read at h
  rw [hc] at h
  simp only at h
  split at h
  · cases h
  · rename_i len c' hi
    exact initRead_bound C c now len c' hi

end SSV.Stream
