import SSV.Model.StatsLock
/-
C14 — `serverCollector.userCollector` creates at most one collector per username and every caller gets
that one: invariant over all interleavings of any number of concurrent callers (lock-level model).
-/
namespace SSV.StatsLock
open SSV.Gen.C14

/-- the thread holds the write lock (has executed `Lock`, not yet `Unlock`) -/
def inW (th : LThread) : Bool := decide (5 ≤ th.pc) && decide (th.pc ≤ 9)

/-- what a thread knows at each program point of
`[rlock, lookup, runlock, skipIfSet 6, lock, lookup, skipIfSet 2, create, store, unlock, ret]` -/
def T (sh : LShared) (th : LThread) : Prop :=
  th.pc ≤ 10 ∧
  (th.pc = 6 → th.uc = sh.entry) ∧
  (th.pc = 7 → th.uc = none ∧ sh.entry = none) ∧
  (th.pc = 8 → sh.entry = none ∧ th.uc.isSome) ∧
  (th.pc = 9 → th.uc = sh.entry ∧ sh.entry.isSome) ∧
  (th.pc = 10 → th.uc = sh.entry ∧ sh.entry.isSome) ∧
  (th.pc ≠ 8 → ∀ r, th.uc = some r → sh.entry = some r)

structure Inv (c : LConfig) : Prop where
  w : c.threads.countP inW = if c.sh.writer then 1 else 0
  t : ∀ th ∈ c.threads, T c.sh th

theorem T_congr {sh sh' : LShared} {x : LThread} (he : sh'.entry = sh.entry) (h : T sh x) : T sh' x := by
  simpa [T, he] using h

theorem countP_split (pre post : List LThread) (th : LThread) :
    (pre ++ th :: post).countP inW = pre.countP inW + (if inW th then 1 else 0) + post.countP inW := by
  simp only [List.countP_append, List.countP_cons]; omega

theorem not_inW_of_countP_zero {l : List LThread} (h : l.countP inW = 0) : ∀ x ∈ l, inW x = false := by
  intro x hx
  have := List.countP_eq_zero.mp h x hx
  simpa using this

/-- threads other than the stepping one keep their knowledge -/
theorem others_ok {sh sh' : LShared} {pre post : List LThread} {th : LThread}
    (ht : ∀ x ∈ pre ++ th :: post, T sh x) (he : sh'.entry = sh.entry) :
    ∀ x, x ∈ pre ∨ x ∈ post → T sh' x := by
  intro x hx
  refine T_congr he (ht x ?_)
  simp only [List.mem_append, List.mem_cons]
  rcases hx with hx | hx
  · exact Or.inl hx
  · exact Or.inr (Or.inr hx)

theorem step_inv {a b : LConfig} (hs : LStepRel userCollector a b) (hi : Inv a) : Inv b := by
  cases hs with
  | mk pre post th th' sh sh' h =>
    obtain ⟨hw, ht⟩ := hi
    simp only at hw ht
    have hth : T sh th := ht th (by simp)
    rw [countP_split] at hw
    have hmem : ∀ x, x ∈ pre ++ th' :: post → x ∈ pre ∨ x = th' ∨ x ∈ post := by
      intro x hx; simpa [List.mem_append, List.mem_cons] using hx
    have hpc : th.pc = 0 ∨ th.pc = 1 ∨ th.pc = 2 ∨ th.pc = 3 ∨ th.pc = 4 ∨ th.pc = 5 ∨ th.pc = 6 ∨ th.pc = 7 ∨
        th.pc = 8 ∨ th.pc = 9 ∨ th.pc = 10 := by have := hth.1; omega
    -- generic finisher: shared `entry` unchanged, `writer` unchanged, inW unchanged
    have fin : sh'.entry = sh.entry → sh'.writer = sh.writer → inW th' = inW th → T sh' th' → Inv ⟨sh', pre ++ th' :: post⟩ := by
      intro he hwr hin htt
      refine ⟨?_, ?_⟩
      · simp only; rw [countP_split, hin, hwr]; exact hw
      · intro x hx
        rcases hmem x hx with hx | rfl | hx
        · exact others_ok ht he x (Or.inl hx)
        · exact htt
        · exact others_ok ht he x (Or.inr hx)
    rcases hpc with hpc | hpc | hpc | hpc | hpc | hpc | hpc | hpc | hpc | hpc | hpc
    · -- rlock
      simp only [lstep, userCollector, hpc, List.getElem?_cons_zero] at h
      split at h
      · simp at h
      · simp only [Option.some.injEq, Prod.mk.injEq] at h
        obtain ⟨rfl, rfl⟩ := h
        exact fin rfl rfl (by simp [inW, hpc]) (by simp_all [T])
    · -- lookup (read section)
      simp [lstep, userCollector, hpc] at h
      obtain ⟨rfl, rfl⟩ := h
      exact fin rfl rfl (by simp [inW, hpc]) (by simp [T, hpc])
    · -- runlock
      simp [lstep, userCollector, hpc] at h
      obtain ⟨rfl, rfl⟩ := h
      exact fin rfl rfl (by simp [inW, hpc]) (by simp_all [T])
    · -- skipIfSet 6
      simp [lstep, userCollector, hpc] at h
      obtain ⟨rfl, rfl⟩ := h
      have hg := hth.2.2.2.2.2.2 (by omega)
      refine fin rfl rfl ?_ ?_
      · cases huc : th.uc <;> simp [inW, hpc]
      · cases huc : th.uc with
        | none => simp [T]
        | some r => have := hg r huc; simp [T, this]
    · -- lock
      simp only [lstep, userCollector, hpc] at h
      simp only [List.getElem?_cons_succ, List.getElem?_cons_zero] at h
      split at h
      · simp at h
      · rename_i hcond
        simp only [Option.some.injEq, Prod.mk.injEq] at h
        obtain ⟨rfl, rfl⟩ := h
        have hwf : sh.writer = false := by
          cases hwv : sh.writer
          · rfl
          · exact absurd (Or.inl hwv) hcond
        have hin : inW th = false := by simp [inW, hpc]
        rw [hwf, hin] at hw
        simp only [Bool.false_eq_true, if_false, Nat.add_zero] at hw
        refine ⟨?_, ?_⟩
        · simp only; rw [countP_split]; simp [inW]; omega
        · intro x hx
          rcases hmem x hx with hx | rfl | hx
          · exact others_ok ht rfl x (Or.inl hx)
          · have hg := hth.2.2.2.2.2.2 (by omega)
            refine ⟨by simp [hpc], ?_, ?_, ?_, ?_, ?_, ?_⟩ <;> simp [hpc]
            exact hg
          · exact others_ok ht rfl x (Or.inr hx)
    · -- lookup (write section)
      simp [lstep, userCollector, hpc] at h
      obtain ⟨rfl, rfl⟩ := h
      exact fin rfl rfl (by simp [inW, hpc]) (by simp [T, hpc])
    · -- skipIfSet 2
      simp [lstep, userCollector, hpc] at h
      obtain ⟨rfl, rfl⟩ := h
      have h6 := hth.2.1 hpc
      refine fin rfl rfl ?_ ?_
      · cases huc : th.uc <;> simp [inW, hpc]
      · cases huc : th.uc with
        | none =>
          have he : sh.entry = none := by rw [← h6, huc]
          simp [T, he]
        | some r =>
          have he : sh.entry = some r := by rw [← h6, huc]
          simp [T, he]
    · -- create
      simp [lstep, userCollector, hpc] at h
      obtain ⟨rfl, rfl⟩ := h
      have h7 := hth.2.2.1 hpc
      exact fin rfl rfl (by simp [inW, hpc]) (by simp [T, hpc, h7.2])
    · -- store
      simp [lstep, userCollector, hpc] at h
      obtain ⟨rfl, rfl⟩ := h
      have h8 := hth.2.2.2.1 hpc
      have hin : inW th = true := by simp [inW, hpc]
      rw [hin] at hw
      have hcnt : pre.countP inW = 0 ∧ post.countP inW = 0 := by
        cases hwv : sh.writer <;> simp [hwv] at hw <;> omega
      have hno : ∀ x, x ∈ pre ∨ x ∈ post → inW x = false := by
        intro x hx
        rcases hx with hx | hx
        · exact not_inW_of_countP_zero hcnt.1 x hx
        · exact not_inW_of_countP_zero hcnt.2 x hx
      refine ⟨?_, ?_⟩
      · simp only; rw [countP_split]
        cases hwv : sh.writer <;> simp [hwv, inW] at hw ⊢ <;> omega
      · intro x hx
        have other : ∀ x, x ∈ pre ∨ x ∈ post → T { sh with entry := th.uc } x := by
          intro x hx
          have hx' : x ∈ pre ++ th :: post := by
            simp only [List.mem_append, List.mem_cons]
            rcases hx with hx | hx
            · exact Or.inl hx
            · exact Or.inr (Or.inr hx)
          have hT := ht x hx'
          have hnw := hno x hx
          simp only [inW, Bool.and_eq_false_imp, decide_eq_true_eq, decide_eq_false_iff_not] at hnw
          obtain ⟨hle, h6, h7, h8', h9, h10, hg⟩ := hT
          have hne8 : x.pc ≠ 8 := by intro e; have := hnw (by omega); omega
          have hnone : x.uc = none := by
            cases hu : x.uc with
            | none => rfl
            | some r => have := hg hne8 r hu; rw [h8.1] at this; simp at this
          have hne10 : x.pc ≠ 10 := by
            intro e
            have := (h10 e).2
            rw [h8.1] at this; simp at this
          refine ⟨hle, ?_, ?_, ?_, ?_, ?_, ?_⟩
          · intro e; have := hnw (by omega); omega
          · intro e; have := hnw (by omega); omega
          · intro e; exact absurd e hne8
          · intro e; have := hnw (by omega); omega
          · intro e; exact absurd e hne10
          · intro _ r hr; rw [hnone] at hr; simp at hr
        rcases hmem x hx with hx | rfl | hx
        · exact other x (Or.inl hx)
        · simp [T, hpc, h8.2]
        · exact other x (Or.inr hx)
    · -- unlock
      simp [lstep, userCollector, hpc] at h
      obtain ⟨rfl, rfl⟩ := h
      have h9 := hth.2.2.2.2.1 hpc
      have hin : inW th = true := by simp [inW, hpc]
      rw [hin] at hw
      have hcnt : pre.countP inW = 0 ∧ post.countP inW = 0 := by
        cases hwv : sh.writer <;> simp [hwv] at hw <;> omega
      refine ⟨?_, ?_⟩
      · simp only; rw [countP_split]; simp [inW, hcnt.1, hcnt.2]
      · intro x hx
        rcases hmem x hx with hx | rfl | hx
        · exact others_ok ht rfl x (Or.inl hx)
        · have hs : sh.entry.isSome := h9.2
          simp [T, hpc, h9.1, hs]
        · exact others_ok ht rfl x (Or.inr hx)
    · -- ret: no step
      simp [lstep, userCollector, hpc] at h
  | envRLock sh ths hw =>
    exact ⟨hi.w, fun x hx => T_congr rfl (hi.t x hx)⟩
  | envRUnlock sh ths he =>
    exact ⟨hi.w, fun x hx => T_congr rfl (hi.t x hx)⟩

theorem reach_inv {a b : LConfig} (hr : LReach userCollector a b) (hi : Inv a) : Inv b := by
  induction hr with
  | refl => exact hi
  | tail _ hs ih => exact step_inv hs ih

theorem linit_inv (entry : Option Nat) (n : Nat) : Inv (linit entry n) := by
  refine ⟨?_, ?_⟩
  · simp [linit, List.countP_replicate, inW]
  · intro th hth
    simp only [linit, List.mem_replicate] at hth
    obtain ⟨_, rfl⟩ := hth
    simp [T]

/-- once the map holds a collector for the user, no step of any caller replaces it -/
theorem entry_stable {a b : LConfig} (hs : LStepRel userCollector a b) (hi : Inv a) (r : Nat)
    (he : a.sh.entry = some r) : b.sh.entry = some r := by
  cases hs with
  | mk pre post th th' sh sh' h =>
    have hth : T sh th := hi.t th (by simp)
    simp only at he
    have hpc : th.pc = 0 ∨ th.pc = 1 ∨ th.pc = 2 ∨ th.pc = 3 ∨ th.pc = 4 ∨ th.pc = 5 ∨ th.pc = 6 ∨ th.pc = 7 ∨
        th.pc = 8 ∨ th.pc = 9 ∨ th.pc = 10 := by have := hth.1; omega
    rcases hpc with hpc | hpc | hpc | hpc | hpc | hpc | hpc | hpc | hpc | hpc | hpc
    · simp only [lstep, userCollector, hpc, List.getElem?_cons_zero] at h
      split at h
      · simp at h
      · simp only [Option.some.injEq, Prod.mk.injEq] at h; obtain ⟨rfl, rfl⟩ := h; exact he
    · simp [lstep, userCollector, hpc] at h; obtain ⟨rfl, rfl⟩ := h; exact he
    · simp [lstep, userCollector, hpc] at h; obtain ⟨rfl, rfl⟩ := h; exact he
    · simp [lstep, userCollector, hpc] at h; obtain ⟨rfl, rfl⟩ := h; exact he
    · simp only [lstep, userCollector, hpc, List.getElem?_cons_succ, List.getElem?_cons_zero] at h
      split at h
      · simp at h
      · simp only [Option.some.injEq, Prod.mk.injEq] at h; obtain ⟨rfl, rfl⟩ := h; exact he
    · simp [lstep, userCollector, hpc] at h; obtain ⟨rfl, rfl⟩ := h; exact he
    · simp [lstep, userCollector, hpc] at h; obtain ⟨rfl, rfl⟩ := h; exact he
    · simp [lstep, userCollector, hpc] at h; obtain ⟨rfl, rfl⟩ := h; exact he
    · have h8 := hth.2.2.2.1 hpc
      rw [h8.1] at he; simp at he
    · simp [lstep, userCollector, hpc] at h; obtain ⟨rfl, rfl⟩ := h; exact he
    · simp [lstep, userCollector, hpc] at h
  | envRLock sh ths hw => exact he
  | envRUnlock sh ths hx => exact he

theorem reach_entry {a b : LConfig} (hr : LReach userCollector a b) (hi : Inv a) (r : Nat)
    (he : a.sh.entry = some r) : b.sh.entry = some r := by
  induction hr with
  | refl => exact he
  | tail hab hs ih => exact entry_stable hs (reach_inv hab hi) r ih

theorem returned_pc {sh : LShared} {th : LThread} (ht : T sh th) (hret : returned userCollector th) : th.pc = 10 := by
  have hle := ht.1
  unfold returned at hret
  have hpc : th.pc = 0 ∨ th.pc = 1 ∨ th.pc = 2 ∨ th.pc = 3 ∨ th.pc = 4 ∨ th.pc = 5 ∨ th.pc = 6 ∨ th.pc = 7 ∨
      th.pc = 8 ∨ th.pc = 9 ∨ th.pc = 10 := by omega
  rcases hpc with hpc | hpc | hpc | hpc | hpc | hpc | hpc | hpc | hpc | hpc | hpc <;>
    first | exact hpc | (simp [userCollector, hpc] at hret)

end SSV.StatsLock
