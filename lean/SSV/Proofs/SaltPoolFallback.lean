import SSV.Proofs.SaltPool
import SSV.Proofs.SaltPoolConc
/-
Helper lemmas for C03, part 6: the fallback decision of `HandleStream` (`UnsafeFallbackAddr`).
-/
namespace SSV.SaltPool

theorem outcome_accepted_iff (fb g : Bool) (v : Verdict) : outcome fb g v = .accepted ↔ v = .accepted := by
  cases v <;> simp [outcome] <;> split <;> simp

theorem outcome_fallback {fb g : Bool} {v w : Verdict} (h : outcome fb g v = .fallback w) :
    v = w ∧ fb = true ∧ g = true ∧ v ≠ .accepted ∧ v ≠ .lateError := by
  cases fb <;> cases g <;> cases v <;> simp [outcome] at h ⊢ <;> exact h

theorem outcome_of_refused {fb g : Bool} {v : Verdict} (h1 : v ≠ .accepted) (h2 : v ≠ .lateError) :
    outcome fb g v = if fb && g then .fallback v else .error v := by
  cases v <;> simp [outcome] at h1 h2 ⊢

theorem handleStream_fst (P : Params) (fb g c : Bool) (now : Nat) (r : Request) (pool : Pool) :
    (handleStream P fb g c now r pool).1 = (handle P c now r pool).1 := rfl

theorem handleStream_snd (P : Params) (fb g c : Bool) (now : Nat) (r : Request) (pool : Pool) :
    (handleStream P fb g c now r pool).2 = outcome fb g (handle P c now r pool).2 := rfl

/-- a genuine request whose salt is live in the pool is refused as a repeated salt (by the pre-check or by `Add`),
and nothing is added to the pool -/
theorem handle_repeated_of_live {P : Params} {c : Bool} {now : Nat} {r : Request} {pool : Pool} {n : Node}
    (hg : Good r) (hv : tsValid P r.ts now = true) (h : n ∈ pool) (hs : n.salt = r.salt) (hl : now < n.expiresAt) :
    (handle P c now r pool).2 = .repeatedSalt ∧
    ((handle P c now r pool).1 = pool ∨ (handle P c now r pool).1 = pruneExpired now pool) := by
  obtain ⟨g1, g2, g3, g4, g5, g6⟩ := hg
  have hfalse : (add P now r.salt pool).2 = false := by rw [← hs]; exact add_false_of_live h hl
  rw [handle_eq]
  cases htc : tryContains c pool r.salt with
  | true => simp [g1]
  | false =>
    simp [g1, g2, g3, g4, g5, hv, hfalse]
    rcases add_fst_cases P now r.salt pool with ⟨_, h1, _⟩ | ⟨h0, _, _⟩
    · exact Or.inr h1
    · rw [hfalse] at h0; cases h0

/-- whatever is refused leaves no new node behind: the pool is unchanged, or (refusal by `Add`) only pruned -/
theorem handle_refused_pool {P : Params} {c : Bool} {now : Nat} {r : Request} {pool : Pool}
    (h1 : (handle P c now r pool).2 ≠ .accepted) (h2 : (handle P c now r pool).2 ≠ .lateError) :
    (handle P c now r pool).1 = pool ∨
    ((handle P c now r pool).1 = pruneExpired now pool ∧ (handle P c now r pool).2 = .repeatedSalt) := by
  rcases handle_cases P c now r pool with ⟨hp, _⟩ | ⟨_, _, _, _, _, _, _, hp, hv⟩
  · exact Or.inl hp
  · right
    rcases add_fst_cases P now r.salt pool with ⟨h0, hp1, _⟩ | ⟨h0, _, _⟩
    · exact ⟨by rw [hp, hp1], by rw [hv, h0]; rfl⟩
    · exfalso
      rw [hv, h0] at h1 h2
      cases hb : r.bodyOk <;> simp [hb] at h1 h2

end SSV.SaltPool
