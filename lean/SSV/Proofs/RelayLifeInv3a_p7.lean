import SSV.Proofs.RelayLifeDefs3
namespace SSV.RelayLife
variable (cfg : Cfg)

theorem inv3a_rExit (s s' : State)  (hI : Inv3a s) (h : step cfg s (.rExit ) = some s') : Inv3a s' := by
  obtain ⟨k1,u2,u3,g5,gp⟩ := hI
  simp only [step] at h
  (repeat' split at h) <;> close_case3

theorem inv3a_dTimeout (s s' : State) (i : Nat) (hI : Inv3a s) (h : step cfg s (.dTimeout i) = some s') : Inv3a s' := by
  obtain ⟨k1,u2,u3,g5,gp⟩ := hI
  simp only [step] at h
  (repeat' split at h) <;> close_case3

theorem inv3a_dPacket (s s' : State) (i : Nat) (hI : Inv3a s) (h : step cfg s (.dPacket i) = some s') : Inv3a s' := by
  obtain ⟨k1,u2,u3,g5,gp⟩ := hI
  simp only [step] at h
  (repeat' split at h) <;> close_case3

theorem inv3a_dSend (s s' : State) (i : Nat) (hI : Inv3a s) (h : step cfg s (.dSend i) = some s') : Inv3a s' := by
  obtain ⟨k1,u2,u3,g5,gp⟩ := hI
  simp only [step] at h
  (repeat' split at h) <;> close_case3


end SSV.RelayLife
