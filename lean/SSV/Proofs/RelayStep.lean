import SSV.Proofs.Relay
/-
Every step of the relay transition system preserves `Inv` (when sessions do not share a packer).
-/
namespace SSV.Relay

variable {cfg : Config}

theorem mem_append_left' {α : Type} {l : List α} (y : α) : ∀ x ∈ l, x ∈ l ++ [y] :=
  fun _ h => List.mem_append_left _ h

theorem inv_recv (hinj : ∀ a b, cfg.packerOf a = cfg.packerOf b → a = b) {st : State} (hI : Inv cfg st)
    (k : Key) (src : Addr) (res : Option Pkt) : Inv cfg (recv cfg st k src res) := by
  unfold recv
  split
  · exact hI
  · cases ht : st.table k with
    | some sid =>
      simp only
      cases hs : st.sess sid with
      | none => simp only; exact hI
      | some s =>
        cases res with
        | none => simp only; exact hI
        | some q =>
          simp only
          refine frame hinj sid (enqueue cfg { s with clientAddr := src } q) hI (Nat.le_refl _) (hI.fresh _ _ hs) rfl
            (fun _ _ => rfl) (mem_append_left' _) (fun _ h => h) ?_ ?_ ?_ (fun w hw => Or.inl hw)
          · intro q' hq'
            rcases enqueue_queue cfg { s with clientAddr := src } q with h | h
            · rw [h] at hq'
              obtain ⟨a, ha⟩ := hI.queue _ _ hs q' hq'
              exact ⟨a, List.mem_append_left _ ha⟩
            · rw [h] at hq'
              rcases List.mem_append.mp hq' with h1 | h1
              · obtain ⟨a, ha⟩ := hI.queue _ _ hs q' h1
                exact ⟨a, List.mem_append_left _ ha⟩
              · simp at h1; subst h1
                exact ⟨src, by simp⟩
          · simp only [enqueue_pc]
            exact PcOK_mono cfg (mem_append_left' _) (fun _ h => h) rfl (hI.pc _ _ hs)
          · simp only [enqueue_pc]
            exact hc_unchanged hinj hI sid s.pc (fun s' hs' => by rw [hs] at hs'; cases hs'; rfl)
    | none =>
      simp only
      have hnone : st.sess st.next = none := by
        cases h : st.sess st.next with
        | none => rfl
        | some s => exact absurd (hI.fresh _ _ h) (Nat.lt_irrefl _)
      cases res with
      | some q =>
        simp only
        refine frame hinj st.next (enqueue cfg (newSess k src) q) hI (Nat.le_succ _) (Nat.lt_succ_self _) rfl
          (fun _ _ => rfl) (mem_append_left' _) (fun _ h => h) ?_ ?_ ?_ (fun w hw => Or.inl hw)
        · intro q' hq'
          rcases enqueue_queue cfg (newSess k src) q with h | h
          · rw [h] at hq'; simp [newSess] at hq'
          · rw [h] at hq'; simp [newSess] at hq'; subst hq'
            exact ⟨src, by simp⟩
        · simp [newSess, PcOK]
        · exact Or.inl (cache_at_owner hinj hI st.next (fun s q ip hs => by rw [hnone] at hs; cases hs))
      | none =>
        simp only
        split
        · refine frame hinj st.next (newSess k src) hI (Nat.le_succ _) (Nat.lt_succ_self _) rfl
            (fun _ _ => rfl) (fun _ h => h) (fun _ h => h) ?_ ?_ ?_ (fun w hw => Or.inl hw)
          · intro q' hq'; simp [newSess] at hq'
          · simp [newSess, PcOK]
          · exact Or.inl (cache_at_owner hinj hI st.next (fun s q ip hs => by rw [hnone] at hs; cases hs))
        · exact hI

/-- steps that only rewrite flags / the queue (to a sub-queue) of one existing session -/
theorem inv_setSess_same_pc (hinj : ∀ a b, cfg.packerOf a = cfg.packerOf b → a = b) {st st' : State}
    (hI : Inv cfg st) (sid : Nat) (s s' : Sess) (hs : st.sess sid = some s)
    (hsess : st'.sess = updF st.sess sid (some s'))
    (hnext : st'.next = st.next) (hcache : st'.cache = st.cache) (hrecvd : st'.recvd = st.recvd)
    (hans : st'.answers = st.answers) (hsent : st'.sent = st.sent)
    (hpc : s'.pc = s.pc) (hq : ∀ q ∈ s'.queue, q ∈ s.queue) : Inv cfg st' := by
  refine frame hinj sid s' hI (by rw [hnext]; exact Nat.le_refl _) (by rw [hnext]; exact hI.fresh _ _ hs) hsess
    (fun _ _ => by rw [hcache]) (fun _ h => by rw [hrecvd]; exact h) (fun _ h => by rw [hans]; exact h) ?_ ?_ ?_
    (fun w hw => Or.inl (by rw [hsent] at hw; exact hw))
  · intro q hq'
    obtain ⟨a, ha⟩ := hI.queue _ _ hs q (hq q hq')
    exact ⟨a, by rw [hrecvd]; exact ha⟩
  · rw [hpc]
    exact PcOK_mono cfg (fun _ h => by rw [hrecvd]; exact h) (fun _ h => by rw [hans]; exact h) (by rw [hcache]) (hI.pc _ _ hs)
  · rw [hpc, hcache, hans]
    exact hc_unchanged hinj hI sid s.pc (fun s'' hs'' => by rw [hs] at hs''; cases hs''; rfl)

theorem inv_initOk (hinj : ∀ a b, cfg.packerOf a = cfg.packerOf b → a = b) {st : State} (hI : Inv cfg st)
    (sid : Nat) : Inv cfg (initOk st sid) := by
  unfold initOk
  cases hs : st.sess sid with
  | none => exact hI
  | some s =>
    simp only
    split
    · exact inv_setSess_same_pc hinj hI sid s _ hs rfl rfl rfl rfl rfl rfl rfl (fun _ h => h)
    · exact hI

theorem inv_closeSess (hinj : ∀ a b, cfg.packerOf a = cfg.packerOf b → a = b) {st : State} (hI : Inv cfg st)
    (sid : Nat) (s s0 : Sess) (hs : st.sess sid = some s0) (hpc : s.pc = s0.pc) (hq : ∀ q ∈ s.queue, q ∈ s0.queue) :
    Inv cfg (closeSess st sid s) :=
  inv_setSess_same_pc hinj hI sid s0 { s with closed := true } hs rfl rfl rfl rfl rfl rfl hpc hq

theorem inv_initFail (hinj : ∀ a b, cfg.packerOf a = cfg.packerOf b → a = b) {st : State} (hI : Inv cfg st)
    (sid : Nat) : Inv cfg (initFail st sid) := by
  unfold initFail
  cases hs : st.sess sid with
  | none => exact hI
  | some s =>
    simp only
    split
    · exact inv_setSess_same_pc hinj hI sid s { s with queue := [], closed := true } hs rfl rfl rfl rfl rfl rfl rfl
        (fun _ h => by simp at h)
    · exact hI

theorem inv_evict (hinj : ∀ a b, cfg.packerOf a = cfg.packerOf b → a = b) {st : State} (hI : Inv cfg st)
    (sid : Nat) : Inv cfg (evict st sid) := by
  unfold evict
  cases hs : st.sess sid with
  | none => exact hI
  | some s =>
    simp only
    split
    · exact inv_closeSess hinj hI sid s s hs rfl (fun _ h => h)
    · exact hI

theorem inv_take (hinj : ∀ a b, cfg.packerOf a = cfg.packerOf b → a = b) {st : State} (hI : Inv cfg st)
    (sid : Nat) : Inv cfg (take cfg st sid) := by
  unfold take
  cases hs : st.sess sid with
  | none => exact hI
  | some s =>
    simp only
    split
    next hg =>
      have hidle : s.pc = .idle := by
        simp only [Bool.and_eq_true, beq_iff_eq] at hg; exact hg.2
      cases hqe : s.queue with
      | nil => exact hI
      | cons q rest =>
        simp only
        have hqin : ∃ a, (sid, a, q) ∈ st.recvd := hI.queue _ _ hs q (by rw [hqe]; simp)
        have hrest : ∀ q' ∈ rest, ∃ a, (sid, a, q') ∈ st.recvd :=
          fun q' h => hI.queue _ _ hs q' (by rw [hqe]; exact List.mem_cons_of_mem _ h)
        have hcok : cacheOK st.answers (st.cache (cfg.packerOf sid)) :=
          cache_at_owner hinj hI sid (fun s' q' ip hs' hp => by rw [hs] at hs'; cases hs'; rw [hidle] at hp; cases hp)
        cases hup : cfg.upstream with
        | some ap =>
          obtain ⟨a, p⟩ := ap
          simp only
          refine frame hinj sid { s with queue := rest } hI (Nat.le_refl _) (hI.fresh _ _ hs) rfl
            (fun _ _ => rfl) (fun _ h => h) (fun _ h => h) hrest ?_ (Or.inl hcok) ?_
          · simp only [hidle, PcOK]
          · intro w hw
            simp only at hw
            rcases List.mem_append.mp hw with h | h
            · exact Or.inl h
            · simp at h; subst h
              exact Or.inr ⟨hqin, by simp [destOK, hup]⟩
        | none =>
        simp only
        cases htg : q.target with
        | ip a p =>
          simp only
          refine frame hinj sid { s with queue := rest } hI (Nat.le_refl _) (hI.fresh _ _ hs) rfl
            (fun _ _ => rfl) (fun _ h => h) (fun _ h => h) hrest ?_ (Or.inl hcok) ?_
          · simp only [hidle, PcOK]
          · intro w hw
            simp only at hw
            rcases List.mem_append.mp hw with h | h
            · exact Or.inl h
            · simp at h; subst h
              exact Or.inr ⟨hqin, by simp [destOK, hup, htg]⟩
        | dom d port =>
          simp only
          split
          next hhit =>
            have hdom : (st.cache (cfg.packerOf sid)).dom = some d := by
              simpa using hhit
            refine frame hinj sid { s with queue := rest, pc := .storedIP q } hI (Nat.le_refl _) (hI.fresh _ _ hs) rfl
              (fun _ _ => rfl) (fun _ h => h) (fun _ h => h) hrest ?_ (Or.inl hcok) (fun w hw => Or.inl hw)
            exact ⟨hup, hqin, d, port, htg, hdom, hcok d hdom⟩
          next =>
            refine frame hinj sid { s with queue := rest, pc := .resolving q d } hI (Nat.le_refl _) (hI.fresh _ _ hs) rfl
              (fun _ _ => rfl) (fun _ h => h) (fun _ h => h) hrest ?_ (Or.inl hcok) (fun w hw => Or.inl hw)
            exact ⟨hup, hqin, port, htg⟩
    next => exact hI

theorem inv_packErr (hinj : ∀ a b, cfg.packerOf a = cfg.packerOf b → a = b) {st : State} (hI : Inv cfg st)
    (sid : Nat) : Inv cfg (packErr st sid) := by
  unfold packErr
  cases hs : st.sess sid with
  | none => exact hI
  | some s =>
    simp only
    split
    · cases hqe : s.queue with
      | nil => exact hI
      | cons q rest =>
        exact inv_setSess_same_pc hinj hI sid s { s with queue := rest } hs rfl rfl rfl rfl rfl rfl rfl
          (fun q' h => by rw [hqe]; exact List.mem_cons_of_mem _ h)
    · exact hI

theorem inv_resolved (hinj : ∀ a b, cfg.packerOf a = cfg.packerOf b → a = b) {st : State} (hI : Inv cfg st)
    (sid : Nat) (ans : Option IP) : Inv cfg (resolved cfg st sid ans) := by
  unfold resolved
  cases hs : st.sess sid with
  | none => exact hI
  | some s =>
    simp only
    have hq : ∀ q ∈ s.queue, ∃ a, (sid, a, q) ∈ st.recvd := hI.queue _ _ hs
    have hpc0 := hI.pc _ _ hs
    cases hpc : s.pc with
    | resolving q d =>
      rw [hpc] at hpc0
      obtain ⟨hup, hqin, port, htg⟩ := hpc0
      cases ans with
      | some ip =>
        simp only
        refine frame hinj sid { s with pc := .storedDomain q ip } hI (Nat.le_refl _) (hI.fresh _ _ hs) rfl
          (fun p hp => updF_other _ _ _ _ hp) (fun _ h => h) (mem_append_left' _) hq ?_ (Or.inr ⟨q, ip, rfl⟩)
          (fun w hw => Or.inl hw)
        exact ⟨hup, hqin, d, port, htg, by simp, by simp⟩
      | none =>
        simp only
        refine frame hinj sid { s with pc := .idle } hI (Nat.le_refl _) (hI.fresh _ _ hs) rfl
          (fun _ _ => rfl) (fun _ h => h) (fun _ h => h) hq trivial ?_ (fun w hw => Or.inl hw)
        exact Or.inl (cache_at_owner hinj hI sid (fun s' q' ip hs' hp => by rw [hs] at hs'; cases hs'; rw [hpc] at hp; cases hp))
    | idle => cases ans <;> exact hI
    | storedDomain _ _ => cases ans <;> exact hI
    | storedIP _ => cases ans <;> exact hI

theorem inv_storeIP (hinj : ∀ a b, cfg.packerOf a = cfg.packerOf b → a = b) {st : State} (hI : Inv cfg st)
    (sid : Nat) : Inv cfg (storeIP cfg st sid) := by
  unfold storeIP
  cases hs : st.sess sid with
  | none => exact hI
  | some s =>
    simp only
    have hq : ∀ q ∈ s.queue, ∃ a, (sid, a, q) ∈ st.recvd := hI.queue _ _ hs
    have hpc0 := hI.pc _ _ hs
    cases hpc : s.pc with
    | storedDomain q ip =>
      rw [hpc] at hpc0
      obtain ⟨hup, hqin, d, port, htg, hdom, hans⟩ := hpc0
      simp only
      refine frame hinj sid { s with pc := .storedIP q } hI (Nat.le_refl _) (hI.fresh _ _ hs) rfl
        (fun p hp => updF_other _ _ _ _ hp) (fun _ h => h) (fun _ h => h) hq ?_ ?_ (fun w hw => Or.inl hw)
      · exact ⟨hup, hqin, d, port, htg, by simp [hdom], by simp [setSess, hans]⟩
      · refine Or.inl ?_
        intro d' hd'
        simp [hdom] at hd'
        subst hd'
        simpa [setSess] using hans
    | idle => exact hI
    | resolving _ _ => exact hI
    | storedIP _ => exact hI

theorem inv_readSend (hinj : ∀ a b, cfg.packerOf a = cfg.packerOf b → a = b) {st : State} (hI : Inv cfg st)
    (sid : Nat) : Inv cfg (readSend cfg st sid) := by
  unfold readSend
  cases hs : st.sess sid with
  | none => exact hI
  | some s =>
    simp only
    have hq : ∀ q ∈ s.queue, ∃ a, (sid, a, q) ∈ st.recvd := hI.queue _ _ hs
    have hpc0 := hI.pc _ _ hs
    cases hpc : s.pc with
    | storedIP q =>
      rw [hpc] at hpc0
      obtain ⟨hup, hqin, d, port, htg, hdom, hans⟩ := hpc0
      simp only
      refine frame hinj sid { s with pc := .idle } hI (Nat.le_refl _) (hI.fresh _ _ hs) rfl
        (fun _ _ => rfl) (fun _ h => h) (fun _ h => h) hq trivial ?_ ?_
      · exact Or.inl (cache_at_owner hinj hI sid (fun s' q' ip hs' hp => by rw [hs] at hs'; cases hs'; rw [hpc] at hp; cases hp))
      · intro w hw
        simp only at hw
        rcases List.mem_append.mp hw with h | h
        · exact Or.inl h
        · simp at h; subst h
          exact Or.inr ⟨hqin, by simp only [destOK, hup, htg, Target.port]; exact ⟨hans, trivial⟩⟩
    | idle => exact hI
    | resolving _ _ => exact hI
    | storedDomain _ _ => exact hI

theorem inv_down {st : State} (hI : Inv cfg st) (sid : Nat) (res : Option ((IP × Nat) × Payload)) :
    Inv cfg (down cfg st sid res) := by
  unfold down
  split
  · split
    · exact ⟨hI.fresh, hI.queue, hI.pc, hI.cache, hI.sent⟩
    · exact hI
  · exact hI

theorem inv_step (hinj : ∀ a b, cfg.packerOf a = cfg.packerOf b → a = b) {st : State} (hI : Inv cfg st)
    (a : Act) : Inv cfg (step cfg st a) := by
  cases a with
  | recv k src r => exact inv_recv hinj hI k src r
  | initOk sid => exact inv_initOk hinj hI sid
  | initFail sid => exact inv_initFail hinj hI sid
  | take sid => exact inv_take hinj hI sid
  | packErr sid => exact inv_packErr hinj hI sid
  | resolved sid ans => exact inv_resolved hinj hI sid ans
  | storeIP sid => exact inv_storeIP hinj hI sid
  | readSend sid => exact inv_readSend hinj hI sid
  | down sid r => exact inv_down hI sid r
  | evict sid => exact inv_evict hinj hI sid

theorem inv_run (hinj : ∀ a b, cfg.packerOf a = cfg.packerOf b → a = b) (acts : List Act) {st : State}
    (hI : Inv cfg st) : Inv cfg (run cfg st acts) := by
  induction acts generalizing st with
  | nil => exact hI
  | cons a rest ih => exact ih (inv_step hinj hI a)

theorem sent_ok (cfg : Config) (hinj : ∀ a b, cfg.packerOf a = cfg.packerOf b → a = b) (acts : List Act) :
    ∀ w ∈ (run cfg State.init acts).sent,
      (∃ src, (w.sid, src, w.pkt) ∈ (run cfg State.init acts).recvd) ∧
      destOK cfg.upstream (run cfg State.init acts).answers w :=
  (inv_run hinj acts (inv_init cfg)).sent

end SSV.Relay
