import SSV.Proofs.DomainSuffix
/-
Builders and `AppendTo`: whatever matcher the rule count selects, the set decides the builder's language.
-/
namespace SSV.DomainSet

/-- what an exact-domain builder decides (independent of any threshold) -/
def DomainB.lang : DomainB → Str → Bool
  | .linear rs, d => rs.contains d
  | .bsearch rs, d => (binarySearch rs d).2
  | .map m, d => m.contains d

/-- what a suffix builder decides (independent of any threshold) -/
def SuffixB.lang : SuffixB → Str → Bool
  | .linear rs, d => suffixLinearMatch rs d
  | .map m, d => suffixMapMatch m d
  | .trie root, d => trieMatch root d

/-- the language of a builder: the union of its four rule kinds -/
def Builder.lang (re : Str → Str → Bool) (b : Builder) (d : Str) : Bool :=
  b.domains.lang d || b.suffixes.lang d || keywordMatch b.keywords d || b.regexps.any (fun p => re p d)

theorem matchSet_append (re : Str → Str → Bool) (a b : List Matcher) (d : Str) :
    matchSet re (a ++ b) d = (matchSet re a d || matchSet re b d) := by
  simp [matchSet, List.any_append]

theorem contains_foldl_mapInsert (rs : List Str) (d : Str) :
    (rs.foldl mapInsert []).contains d = rs.contains d := by
  rw [Bool.eq_iff_iff, List.contains_iff_mem, List.contains_iff_mem, mem_foldl_mapInsert]
  simp

theorem domainMapAppend_lang (re : Str → Str → Bool) (maxLin : Nat) (m : List Str) (d : Str) :
    matchSet re (domainMapAppend maxLin m) d = m.contains d := by
  unfold domainMapAppend
  by_cases h0 : m.isEmpty = true
  · have : m = [] := List.isEmpty_iff.mp h0
    subst this; simp [matchSet]
  · by_cases h1 : m.length ≤ maxLin <;> simp [h0, h1, matchSet, Matcher.run]

theorem DomainB.appendTo_lang (re : Str → Str → Bool) (maxLin : Nat) (b : DomainB) (d : Str) :
    matchSet re (b.appendTo maxLin) d = b.lang d := by
  cases b with
  | linear rs =>
    unfold DomainB.appendTo DomainB.lang
    by_cases h0 : rs.isEmpty = true
    · have : rs = [] := List.isEmpty_iff.mp h0
      subst this; simp [matchSet]
    · by_cases h1 : rs.length > maxLin
      · simp only [h0, Bool.false_eq_true, ↓reduceIte, h1, domainMapAppend_lang, contains_foldl_mapInsert]
      · simp [h0, h1, matchSet, Matcher.run]
  | bsearch rs =>
    unfold DomainB.appendTo DomainB.lang
    by_cases h0 : rs.isEmpty = true
    · have : rs = [] := List.isEmpty_iff.mp h0
      subst this; simp [matchSet, binarySearch, lowerBound]
    · simp [h0, matchSet, Matcher.run]
  | map m =>
    unfold DomainB.appendTo DomainB.lang
    exact domainMapAppend_lang re maxLin m d

theorem trieAppend_lang (re : Str → Str → Bool) (root : Children) (d : Str) :
    matchSet re (trieAppend root) d = trieMatch root d := by
  unfold trieAppend
  cases root with
  | nil => simp [Children.isEmpty, matchSet, trieMatch, matchLabels_nil_children]
  | cons k t rest => simp [Children.isEmpty, matchSet, Matcher.run]

theorem suffix_linear_eq_trie (rs : List Str) (d : Str) :
    trieMatch (trieFromList rs) d = suffixLinearMatch rs d := by
  rw [Bool.eq_iff_iff, trieFromList_iff, suffixLinearMatch_iff]

theorem suffix_linear_eq_map (m : List Str) (d : Str) : suffixLinearMatch m d = suffixMapMatch m d := by
  rw [Bool.eq_iff_iff, suffixMapMatch_iff, suffixLinearMatch_iff]

theorem SuffixB.appendTo_lang (re : Str → Str → Bool) (maxLin : Nat) (b : SuffixB) (d : Str) :
    matchSet re (b.appendTo maxLin) d = b.lang d := by
  cases b with
  | linear rs =>
    unfold SuffixB.appendTo SuffixB.lang
    by_cases h0 : rs.isEmpty = true
    · have : rs = [] := List.isEmpty_iff.mp h0
      subst this; simp [matchSet, suffixLinearMatch]
    · by_cases h1 : rs.length > maxLin
      · simp only [h0, Bool.false_eq_true, ↓reduceIte, h1, trieAppend_lang, suffix_linear_eq_trie]
      · simp [h0, h1, matchSet, Matcher.run]
  | map m =>
    unfold SuffixB.appendTo SuffixB.lang
    by_cases h0 : m.isEmpty = true
    · have : m = [] := List.isEmpty_iff.mp h0
      subst this; simp [matchSet, suffixMapMatch, afterDots]
    · by_cases h1 : m.length ≤ maxLin
      · simp [h0, h1, matchSet, Matcher.run, suffix_linear_eq_map]
      · simp [h0, h1, matchSet, Matcher.run]
  | trie root =>
    unfold SuffixB.appendTo SuffixB.lang
    exact trieAppend_lang re root d

theorem matchSet_regexps (re : Str → Str → Bool) (ps : List Str) (d : Str) :
    matchSet re (ps.map Matcher.regexp) d = ps.any (fun p => re p d) := by
  simp [matchSet, List.any_map, Function.comp_def, Matcher.run]

/-- whatever the thresholds, the built set decides the builder's language -/
theorem domainSetWith_lang (re : Str → Str → Bool) (reOk : Str → Bool) (mD mS : Nat) (b : Builder)
    (ms : List Matcher) (h : b.domainSetWith mD mS reOk = some ms) (d : Str) :
    matchSet re ms d = b.lang re d := by
  unfold Builder.domainSetWith at h
  split at h
  · injection h with h
    subst h
    rw [matchSet_append, matchSet_append, matchSet_append, DomainB.appendTo_lang, SuffixB.appendTo_lang,
      matchSet_regexps]
    unfold Builder.lang
    by_cases hk : b.keywords.isEmpty = true
    · have : b.keywords = [] := List.isEmpty_iff.mp hk
      simp [this, matchSet, keywordMatch]
    · simp [hk, matchSet, Matcher.run]
  · cases h

/-- whether construction fails does not depend on the thresholds either -/
theorem domainSetWith_isSome (reOk : Str → Bool) (mD mS mD' mS' : Nat) (b : Builder) :
    (b.domainSetWith mD mS reOk).isSome = (b.domainSetWith mD' mS' reOk).isSome := by
  unfold Builder.domainSetWith
  split <;> simp

/-! ### insertion -/

theorem SuffixB.lang_insert (b : SuffixB) (r d : Str) :
    (b.insert r).lang d = true ↔ (b.lang d = true ∨ SuffixOf r d) := by
  cases b with
  | linear rs =>
    simp only [SuffixB.insert, SuffixB.lang, suffixLinearMatch_iff, SuffixSpec, List.mem_append, List.mem_singleton]
    constructor
    · rintro ⟨x, hx | rfl, h⟩
      · exact Or.inl ⟨x, hx, h⟩
      · exact Or.inr h
    · rintro (⟨x, hx, h⟩ | h)
      · exact ⟨x, Or.inl hx, h⟩
      · exact ⟨r, Or.inr rfl, h⟩
  | map m =>
    simp only [SuffixB.insert, SuffixB.lang, suffixMapMatch_iff, SuffixSpec, mem_mapInsert]
    constructor
    · rintro ⟨x, hx | rfl, h⟩
      · exact Or.inl ⟨x, hx, h⟩
      · exact Or.inr h
    · rintro (⟨x, hx, h⟩ | h)
      · exact ⟨x, Or.inl hx, h⟩
      · exact ⟨r, Or.inr rfl, h⟩
  | trie root =>
    simp only [SuffixB.insert, SuffixB.lang, trieMatch_insert, Bool.or_eq_true, labelsRev_prefix_iff]

/-- the empty suffix builders of the three kinds -/
def SuffixB.IsEmpty : SuffixB → Prop
  | .linear rs => rs = []
  | .map m => m = []
  | .trie root => root = .nil

theorem SuffixB.lang_empty (b : SuffixB) (h : b.IsEmpty) (d : Str) : b.lang d = false := by
  cases b with
  | linear rs => cases h; simp [SuffixB.lang, suffixLinearMatch]
  | map m => cases h; simp [SuffixB.lang, suffixMapMatch, afterDots]
  | trie root => cases h; simp [SuffixB.lang, trieMatch, matchLabels_nil_children]

/-- any suffix builder filled by `Insert` in any order decides the declarative language of the inserted rules -/
theorem SuffixB.lang_foldl_insert (rs : List Str) : ∀ (b : SuffixB) (d : Str),
    (rs.foldl SuffixB.insert b).lang d = true ↔ (b.lang d = true ∨ SuffixSpec rs d) := by
  induction rs with
  | nil => intro b d; simp [SuffixSpec]
  | cons r rs ih =>
    intro b d
    rw [List.foldl_cons, ih, SuffixB.lang_insert]
    simp only [SuffixSpec, List.mem_cons]
    constructor
    · rintro ((h | h) | ⟨x, hx, h⟩)
      · exact Or.inl h
      · exact Or.inr ⟨r, Or.inl rfl, h⟩
      · exact Or.inr ⟨x, Or.inr hx, h⟩
    · rintro (h | ⟨x, rfl | hx, h⟩)
      · exact Or.inl (Or.inl h)
      · exact Or.inl (Or.inr h)
      · exact Or.inr ⟨x, hx, h⟩

theorem DomainB.lang_insert_linear (rs : List Str) (r d : Str) :
    ((DomainB.linear rs).insert r).lang d = ((DomainB.linear rs).lang d || d == r) := by
  simp only [DomainB.insert, DomainB.lang]
  rw [Bool.eq_iff_iff]
  simp [List.contains_iff_mem]

theorem DomainB.lang_insert_map (m : List Str) (r d : Str) :
    ((DomainB.map m).insert r).lang d = ((DomainB.map m).lang d || d == r) := by
  simp only [DomainB.insert, DomainB.lang]
  rw [Bool.eq_iff_iff]
  simp [List.contains_iff_mem, mem_mapInsert]

end SSV.DomainSet
