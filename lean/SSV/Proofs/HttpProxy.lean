import SSV.Model.HttpProxy
/-
Helper lemmas for C16.
-/
namespace SSV.HttpProxy
open SSV.Gen.C16

/-! ### the filter as a `List.filter` -/

theorem del_filter (h : Header) (p : Field → Bool) (k : Str) :
    del (h.filter p) k = h.filter (fun f => p f && (f.1 != k)) := by
  simp [del, List.filter_filter, Bool.and_comm]

theorem filter_const_true {α : Type} (h : List α) : h.filter (fun _ => true) = h := by
  induction h <;> simp_all

theorem foldl_del (ks : List Str) (h : Header) :
    ks.foldl del h = h.filter (fun f => !ks.contains f.1) := by
  induction ks generalizing h with
  | nil => simp [filter_const_true]
  | cons k ks ih =>
    rw [List.foldl_cons, ih, del, List.filter_filter]
    apply List.filter_congr
    intro f _
    by_cases hk : f.1 = k
    · simp [hk]
    · simp [hk, List.contains_cons]

/-- is `k` removed by the loop over the connection options? -/
def nominatedBy (opts : List Str) (k : Str) : Bool := opts.any (fun o => !keptOptions.contains o && o == k)

theorem delOptions_filter (opts : List Str) (h : Header) :
    delOptions h opts = h.filter (fun f => !nominatedBy opts f.1) := by
  unfold delOptions
  induction opts generalizing h with
  | nil => simp [nominatedBy, filter_const_true]
  | cons o opts ih =>
    rw [List.foldl_cons]
    by_cases hk : keptOptions.contains o = true
    · rw [if_pos hk, ih]
      apply List.filter_congr
      intro f _
      have hk2 : o ∈ keptOptions := by simpa using hk
      simp [nominatedBy, hk2]
    · rw [if_neg hk, ih, del, List.filter_filter]
      apply List.filter_congr
      intro f _
      have hk2 : o ∉ keptOptions := by simpa using hk
      by_cases hf : f.1 = o
      · simp [nominatedBy, hf, hk2]
      · have e1 : (f.1 != o) = true := by simpa [bne_iff_ne] using hf
        have e2 : (o == f.1) = false := by
          have : ¬ o = f.1 := fun e => hf e.symm
          simpa using this
        simp [nominatedBy, hk2, e1, e2]

/-- the names the filter removes from a map, given the values of `Connection` -/
def forbidden (conn : List Str) (k : Str) : Bool := nominatedBy (options conn) k || deletedFields.contains k

theorem removeHopByHop_filter (h : Header) (conn : List Str) :
    removeHopByHop h conn = h.filter (fun f => !forbidden conn f.1) := by
  unfold removeHopByHop
  rw [foldl_del, delOptions_filter, List.filter_filter]
  apply List.filter_congr
  intro f _
  simp [forbidden, Bool.and_comm]

/-! ### ServerHandle -/


/-- with an empty token map no credentials are valid -/
theorem basicAuth_nil (h : Header) : basicAuth [] h = false := by
  unfold basicAuth
  split <;> simp

theorem serverHandle_forward_authed (toks : List Str) (msgs : List ClientMsg) (n k : Nat) (first : Req) (rest : List ClientMsg)
    (h : serverHandle (some toks) msgs n = .forward k first rest) :
    basicAuth toks first.header = true ∧ first.method ≠ connectLit ∧
    ∃ pre ok, msgs = pre ++ ClientMsg.req first ok :: rest ∧ k = n + pre.length ∧
      ∀ m ∈ pre, ∃ r ok', m = ClientMsg.req r ok' ∧ basicAuth toks r.header = false ∧ r.close = false := by
  induction msgs generalizing n with
  | nil => simp [serverHandle] at h
  | cons m ms ih =>
    cases m with
    | garbage => simp [serverHandle] at h
    | req r ok =>
      simp only [serverHandle, authOk] at h
      by_cases ha : basicAuth toks r.header = true
      · simp only [ha, Bool.not_true, Bool.false_eq_true, if_false] at h
        by_cases hc : (r.method == connectLit) = true
        · simp only [hc, if_true] at h
          split at h <;> simp at h
        · simp only [hc, Bool.false_eq_true, if_false] at h
          by_cases hok : ok = true
          · simp only [hok, if_true, Handled.forward.injEq] at h
            obtain ⟨hk, hf, hr⟩ := h
            subst hf; subst hr; subst hk
            refine ⟨ha, ?_, [], ok, by simp, by simp, by simp⟩
            intro e; simp [e] at hc
          · simp [hok] at h
      · have ha' : basicAuth toks r.header = false := by simpa using ha
        simp only [ha', Bool.not_false, if_true] at h
        by_cases hcl : r.close = true
        · simp [hcl] at h
        · simp only [hcl, Bool.false_eq_true, if_false] at h
          obtain ⟨h1, h2, pre, ok', hm, hk, hp⟩ := ih (n + 1) h
          refine ⟨h1, h2, ClientMsg.req r ok :: pre, ok', by simp [hm], by simp [hk]; omega, ?_⟩
          intro m hm'
          rcases List.mem_cons.mp hm' with e | e
          · exact ⟨r, ok, e, ha', by simpa using hcl⟩
          · exact hp m e

theorem serverHandle_forward_not_connect (auth : Option (List Str)) (msgs : List ClientMsg) (n k : Nat) (first : Req) (rest : List ClientMsg)
    (h : serverHandle auth msgs n = .forward k first rest) : first.method ≠ connectLit := by
  induction msgs generalizing n with
  | nil => simp [serverHandle] at h
  | cons m ms ih =>
    cases m with
    | garbage => simp [serverHandle] at h
    | req r ok =>
      simp only [serverHandle] at h
      generalize authOk auth r.header = authed at h
      cases authed with
      | false =>
        first | simp only [Bool.not_false, if_true, ↓reduceIte] at h | skip
        by_cases hcl : r.close = true
        · simp [hcl] at h
        · simp only [hcl, Bool.false_eq_true, if_false] at h
          exact ih _ h
      | true =>
        first | simp only [Bool.not_true, Bool.false_eq_true, if_false, ↓reduceIte] at h | skip
        by_cases hc : (r.method == connectLit) = true
        · simp only [hc, if_true] at h
          split at h <;> simp at h
        · simp only [hc, Bool.false_eq_true, if_false] at h
          by_cases hok : ok = true
          · simp only [hok, if_true, Handled.forward.injEq] at h
            obtain ⟨_, hf, _⟩ := h
            subst hf
            intro e; simp [e] at hc
          · simp [hok] at h

end SSV.HttpProxy
