import SSV.Model.Pipe
/-
C15 — the inductive invariant of the pipe-direction transition system and its preservation by every step.
-/
namespace SSV.Pipe

def PC.isAck : PC → Bool
  | .rAck .. => true
  | _ => false

def PC.isAwait : PC → Bool
  | .wAwait .. => true
  | _ => false

/-- a select waits on a cancel channel that existed -/
def PC.gensOk (rg wg : Nat) : PC → Prop
  | .rSel _ _ g => g ≤ rg
  | .wSel _ _ _ g => g ≤ wg
  | _ => True

/-- the writer's locals agree with its ghost log entry -/
def PC.wOk (wlog : List (Bytes × Nat)) (held : Bool) : PC → Prop
  | .wEnter b n ci | .wSel b n ci _ | .wAwait b n ci =>
      ci + 1 = wlog.length ∧ ∃ o, wlog[ci]? = some (o, n) ∧ b = o.drop n ∧ n ≤ o.length
  | .wRet n _ (some ci) => (∃ o, wlog[ci]? = some (o, n) ∧ n ≤ o.length) ∧ (held = true → ci + 1 < wlog.length)
  | .wRet n _ none => n = 0
  | _ => True

structure Inv (s : State) : Prop where
  noPanic : s.panicked = false
  errSet : s.done = true → s.err ≠ none
  closeOk : ∀ i, s.thr i = .cClose → s.err ≠ none
  rdlOk : s.rdl.armed = true → s.rdl.closed = false
  wdlOk : s.wdl.armed = true → s.wdl.closed = false
  muHold : ∀ i, (s.thr i).holds = true → s.mu = some i
  muLive : ∀ i, s.mu = some i → (s.thr i).holds = true
  ackHs : ∀ i, (s.thr i).isAck = true → ∃ j, s.hs = some (i, j)
  awaitHs : ∀ j, (s.thr j).isAwait = true → ∃ i, s.hs = some (i, j)
  hsOk : ∀ i j, s.hs = some (i, j) → ∃ k acc nr fail b n ci,
    s.thr i = .rAck k acc nr fail (b.take nr) ∧ s.thr j = .wAwait b n ci ∧ nr ≤ b.length
  gens : ∀ i, (s.thr i).gensOk s.rdl.gen s.wdl.gen
  wOk : ∀ i, (s.thr i).wOk s.wlog s.mu.isSome
  fid : s.rret = consumed s.wlog

theorem inv_init : Inv init := by
  constructor <;> simp [init, DL.init, PC.holds, PC.isAck, PC.isAwait, PC.gensOk, PC.wOk, consumed]

/-- replacing the pc of a thread that is outside the lock / hand-shake regions by another such pc -/
theorem inv_setT {s : State} (h : Inv s) (i : Nat) (p : PC)
    (o2 : (s.thr i).isAck = false) (o3 : (s.thr i).isAwait = false)
    (n1 : p.holds = (s.thr i).holds) (n2 : p.isAck = false) (n3 : p.isAwait = false)
    (n4 : p.gensOk s.rdl.gen s.wdl.gen) (n5 : p.wOk s.wlog s.mu.isSome)
    (n6 : p = .cClose → s.err ≠ none) : Inv (s.setT i p) := by
  constructor
  · exact h.noPanic
  · exact h.errSet
  · intro k; simp only [State.setT]; split
    · exact n6
    · exact h.closeOk k
  · exact h.rdlOk
  · exact h.wdlOk
  · intro k; simp only [State.setT]; split
    · subst_vars; rw [n1]; exact h.muHold k
    · exact h.muHold k
  · intro k hk; simp only [State.setT] at hk ⊢; split
    · subst_vars; rw [n1]; exact h.muLive _ hk
    · exact h.muLive k hk
  · intro k; simp only [State.setT]; split
    · simp [n2]
    · exact h.ackHs k
  · intro k; simp only [State.setT]; split
    · simp [n3]
    · exact h.awaitHs k
  · intro a b hab; simp only [State.setT] at hab ⊢
    obtain ⟨k, acc, nr, fail, bb, n, ci, h1, h2, h3⟩ := h.hsOk a b hab
    refine ⟨k, acc, nr, fail, bb, n, ci, ?_, ?_, h3⟩
    · split
      · subst_vars; simp [h1, PC.isAck] at o2
      · exact h1
    · split
      · subst_vars; simp [h2, PC.isAwait] at o3
      · exact h2
  · intro k; simp only [State.setT]; split
    · exact n4
    · exact h.gens k
  · intro k; simp only [State.setT]; split
    · exact n5
    · exact h.wOk k
  · exact h.fid


theorem gensOk_mono {p : PC} {rg wg rg' wg' : Nat} (h : p.gensOk rg wg) (h1 : rg ≤ rg') (h2 : wg ≤ wg') :
    p.gensOk rg' wg' := by
  cases p <;> simp_all [PC.gensOk] <;> omega

/-- changes of global fields that keep the thread map, the lock, the log and the hand-shake ghost -/
theorem inv_globals {s : State} (h : Inv s) (done' : Bool) (err' : Option Err) (rdl' wdl' : DL)
    (e1 : s.err ≠ none → err' ≠ none) (e2 : done' = true → err' ≠ none)
    (r1 : rdl'.armed = true → rdl'.closed = false) (r2 : s.rdl.gen ≤ rdl'.gen)
    (w1 : wdl'.armed = true → wdl'.closed = false) (w2 : s.wdl.gen ≤ wdl'.gen) :
    Inv { s with done := done', err := err', rdl := rdl', wdl := wdl' } := by
  constructor
  · exact h.noPanic
  · exact e2
  · intro k hk; exact e1 (h.closeOk k hk)
  · exact r1
  · exact w1
  · exact h.muHold
  · exact h.muLive
  · exact h.ackHs
  · exact h.awaitHs
  · exact h.hsOk
  · intro k; exact gensOk_mono (h.gens k) r2 w2
  · exact h.wOk
  · exact h.fid

theorem DL.set_ok (d : DL) (k : DKind) (h : d.armed = true → d.closed = false) :
    ((d.set k).armed = true → (d.set k).closed = false) ∧ d.gen ≤ (d.set k).gen := by
  cases k <;> simp [DL.set] <;> split <;> simp_all


theorem withErr_some {s : State} {e : Err} (f : Err → State) (h : s.err = some e) : withErr s f = f e := by
  simp [withErr, h]

theorem err_of_done {s : State} (h : Inv s) (hd : s.done = true) : ∃ e, s.err = some e := by
  have := h.errSet hd
  cases he : s.err with
  | none => exact absurd he this
  | some e => exact ⟨e, rfl⟩


macro "pcsimp" : tactic => `(tactic| simp_all [PC.holds, PC.isAck, PC.isAwait, PC.gensOk, PC.wOk])

theorem wOk_unheld {p : PC} {wlog : List (Bytes × Nat)} {b : Bool} (h : p.wOk wlog b) : p.wOk wlog false := by
  cases p <;> simp_all [PC.wOk]
  rename_i ci; cases ci <;> simp_all [PC.wOk]

/-- the lock holder leaves the loop: deferred `Unlock` + return -/
theorem inv_unlock {s : State} (h : Inv s) (i : Nat) (n : Nat) (e : RErr) (ci : Nat)
    (hp : (∃ b g, s.thr i = .wSel b n ci g)) :
    Inv ({ s with mu := none }.setT i (.wRet n e (some ci))) := by
  obtain ⟨b, g, hp⟩ := hp
  have hmu : s.mu = some i := h.muHold i (by simp [hp, PC.holds])
  have hw := h.wOk i
  constructor
  · exact h.noPanic
  · exact h.errSet
  · intro k; simp only [State.setT]; split
    · simp
    · exact h.closeOk k
  · exact h.rdlOk
  · exact h.wdlOk
  · intro k; simp only [State.setT]; split
    · simp [PC.holds]
    · intro hk; have := h.muHold k hk; simp_all
  · intro k hk; simp [State.setT] at hk
  · intro k; simp only [State.setT]; split
    · simp [PC.isAck]
    · exact h.ackHs k
  · intro k; simp only [State.setT]; split
    · simp [PC.isAwait]
    · exact h.awaitHs k
  · intro a b' hab; simp only [State.setT] at hab ⊢
    obtain ⟨k, acc, nr, fail, bb, n', ci', h1, h2, h3⟩ := h.hsOk a b' hab
    refine ⟨k, acc, nr, fail, bb, n', ci', ?_, ?_, h3⟩
    · split
      · subst_vars; simp [hp] at h1
      · exact h1
    · split
      · subst_vars; simp [hp] at h2
      · exact h2
  · intro k; simp only [State.setT]; split
    · simp [PC.gensOk]
    · exact h.gens k
  · intro k; simp only [State.setT]; split
    · simp only [hp, PC.wOk] at hw
      obtain ⟨_, o, h1, _, h3⟩ := hw
      simp [PC.wOk]; exact ⟨o, h1, h3⟩
    · exact wOk_unheld (h.wOk k)
  · exact h.fid

theorem getElem?_append_new {α : Type} (l : List α) (x : α) : (l ++ [x])[l.length]? = some x := by
  simp

theorem consumed_append (l : List (Bytes × Nat)) (b : Bytes) : consumed (l ++ [(b, 0)]) = consumed l := by
  simp [consumed]

theorem mem_selSteps {alts : List Alt} {d t : Option State} {s' : State} (h : s' ∈ selSteps alts d t) :
    d = some s' ∨ t = some s' := by
  unfold selSteps at h
  simp only [List.mem_filterMap] at h
  obtain ⟨a, _, ha⟩ := h
  cases a <;> simp_all

theorem wOk_append {p : PC} {wlog : List (Bytes × Nat)} {b : Bool} (x : Bytes × Nat) (h : p.wOk wlog b)
    (hh : p.holds = false) : p.wOk (wlog ++ [x]) true := by
  cases p <;> simp_all [PC.wOk, PC.holds]
  rename_i n e ci; cases ci <;> simp_all [PC.wOk]
  rename_i ci
  obtain ⟨⟨o, h1, h2⟩, _⟩ := h
  have hlt : ci < wlog.length := (List.getElem?_eq_some_iff.mp h1).1
  refine ⟨⟨o, ?_, h2⟩, hlt⟩
  rw [List.getElem?_append_left hlt]; exact h1

/-- `p.wrMu.Lock()` succeeds: a new entry of the ghost log -/
theorem inv_lock {s : State} (h : Inv s) (i : Nat) (b : Bytes) (hp : s.thr i = .wLock b) (hm : s.mu = none) :
    Inv ({ s with mu := some i, wlog := s.wlog ++ [(b, 0)] }.setT i (.wEnter b 0 s.wlog.length)) := by
  have nohold : ∀ k, (s.thr k).holds = false := by
    intro k; cases hk : (s.thr k).holds with
    | false => rfl
    | true => have := h.muHold k hk; simp [hm] at this
  constructor
  · exact h.noPanic
  · exact h.errSet
  · intro k; simp only [State.setT]; split
    · simp
    · exact h.closeOk k
  · exact h.rdlOk
  · exact h.wdlOk
  · intro k; simp only [State.setT]; split
    · subst_vars; simp
    · intro hk; simp [nohold k] at hk
  · intro k hk; simp only [State.setT] at hk ⊢
    simp at hk; subst hk; simp [PC.holds]
  · intro k; simp only [State.setT]; split
    · simp [PC.isAck]
    · exact h.ackHs k
  · intro k; simp only [State.setT]; split
    · simp [PC.isAwait]
    · exact h.awaitHs k
  · intro a b' hab; simp only [State.setT] at hab ⊢
    obtain ⟨k, acc, nr, fail, bb, n', ci', h1, h2, h3⟩ := h.hsOk a b' hab
    refine ⟨k, acc, nr, fail, bb, n', ci', ?_, ?_, h3⟩
    · split
      · subst_vars; simp [hp] at h1
      · exact h1
    · split
      · subst_vars; simp [hp] at h2
      · exact h2
  · intro k; simp only [State.setT]; split
    · simp [PC.gensOk]
    · exact h.gens k
  · intro k; simp only [State.setT]; split
    · simp [PC.wOk]
    · exact wOk_append _ (h.wOk k) (nohold k)
  · show s.rret = consumed (s.wlog ++ [(b, 0)])
    rw [consumed_append]; exact h.fid

theorem inv_local {s s' : State} (h : Inv s) (i : Nat) (hs : s' ∈ localSteps s i) : Inv s' := by
  unfold localSteps at hs
  split at hs
  next k acc hp =>  -- rChk1
    split at hs
    next hd =>
      obtain ⟨e, he⟩ := err_of_done h hd
      simp only [List.mem_singleton, withErr_some _ he] at hs; subst hs
      apply inv_setT h <;> pcsimp
    next hd =>
      simp only [List.mem_singleton] at hs; subst hs
      apply inv_setT h <;> pcsimp
  next k acc hp =>  -- rChk2
    split at hs <;> (simp only [List.mem_singleton] at hs; subst hs; apply inv_setT h <;> pcsimp)
  next k acc hp =>  -- rEnter
    simp only [List.mem_singleton] at hs; subst hs; apply inv_setT h <;> pcsimp
  next k acc g hp =>  -- rSel
    rcases mem_selSteps hs with hs | hs
    · split at hs
      next hd =>
        obtain ⟨e, he⟩ := err_of_done h hd
        simp only [withErr_some _ he, Option.some.injEq] at hs; subst hs
        apply inv_setT h <;> pcsimp
      next => simp at hs
    · split at hs
      next hc => simp only [Option.some.injEq] at hs; subst hs; apply inv_setT h <;> pcsimp
      next => simp at hs
  next b hp =>  -- wChk1
    split at hs
    next hd =>
      obtain ⟨e, he⟩ := err_of_done h hd
      simp only [List.mem_singleton, withErr_some _ he] at hs; subst hs
      apply inv_setT h <;> pcsimp
    next hd =>
      simp only [List.mem_singleton] at hs; subst hs
      apply inv_setT h <;> pcsimp
  next b hp =>  -- wChk2
    split at hs <;> (simp only [List.mem_singleton] at hs; subst hs; apply inv_setT h <;> pcsimp)
  next b hp =>  -- wLock
    split at hs
    next hm => simp only [List.mem_singleton] at hs; subst hs; exact inv_lock h i b hp hm
    next => simp at hs
  next b n ci hp =>  -- wEnter
    simp only [List.mem_singleton] at hs; subst hs
    have := h.wOk i
    apply inv_setT h <;> pcsimp
  next b n ci g hp =>  -- wSel
    rcases mem_selSteps hs with hs | hs
    · split at hs
      next hd =>
        obtain ⟨e, he⟩ := err_of_done h hd
        simp only [withErr_some _ he, Option.some.injEq] at hs; subst hs
        exact inv_unlock h i n _ ci ⟨b, g, hp⟩
      next => simp at hs
    · split at hs
      next hc => simp only [Option.some.injEq] at hs; subst hs; exact inv_unlock h i n _ ci ⟨b, g, hp⟩
      next => simp at hs
  next e hp =>  -- cStore
    simp only [List.mem_singleton] at hs; subst hs
    have hg : Inv { s with err := s.err.orElse fun _ => some e } :=
      inv_globals h s.done _ s.rdl s.wdl
        (by intro h1; cases he : s.err <;> simp_all)
        (by intro h1; have := h.errSet h1; cases he : s.err <;> simp_all)
        h.rdlOk (Nat.le_refl _) h.wdlOk (Nat.le_refl _)
    apply inv_setT hg <;> simp_all [PC.holds, PC.isAck, PC.isAwait, PC.gensOk, PC.wOk]
  next hp =>  -- cClose
    simp only [List.mem_singleton] at hs; subst hs
    have hg : Inv { s with done := true } :=
      inv_globals h true s.err s.rdl s.wdl id (fun _ => h.closeOk i hp)
        h.rdlOk (Nat.le_refl _) h.wdlOk (Nat.le_refl _)
    apply inv_setT hg <;> simp_all [PC.holds, PC.isAck, PC.isAwait, PC.gensOk, PC.wOk]
  next w k hp =>  -- dChk
    split at hs
    next hd =>
      obtain ⟨e, he⟩ := err_of_done h hd
      simp only [List.mem_singleton, withErr_some _ he] at hs; subst hs
      cases w <;> (simp only [Bool.false_eq_true, if_false, if_true]; split <;> (apply inv_setT h <;> pcsimp))
    next hd =>
      simp only [List.mem_singleton] at hs; subst hs
      apply inv_setT h <;> pcsimp
  next w k hp =>  -- dSet
    simp only [List.mem_singleton] at hs; subst hs
    cases w
    · have hg : Inv { s with rdl := s.rdl.set k } :=
        inv_globals h s.done s.err _ s.wdl id h.errSet
          (DL.set_ok s.rdl k h.rdlOk).1 (DL.set_ok s.rdl k h.rdlOk).2 h.wdlOk (Nat.le_refl _)
      simp only [Bool.false_eq_true, if_false]
      apply inv_setT hg <;> simp_all [PC.holds, PC.isAck, PC.isAwait, PC.gensOk, PC.wOk]
    · have hg : Inv { s with wdl := s.wdl.set k } :=
        inv_globals h s.done s.err s.rdl _ id h.errSet
          h.rdlOk (Nat.le_refl _) (DL.set_ok s.wdl k h.wdlOk).1 (DL.set_ok s.wdl k h.wdlOk).2
      simp only [if_true]
      apply inv_setT hg <;> simp_all [PC.holds, PC.isAck, PC.isAwait, PC.gensOk, PC.wOk]
  next => simp at hs


theorem inv_start {s s' : State} (h : Inv s) (i : Nat) (op : Op) (hs : start s i op = some s') : Inv s' := by
  unfold start at hs
  split at hs
  next hp =>
    simp only [Option.some.injEq] at hs; subst hs
    apply inv_setT h <;> cases op <;> (try rename_i x; cases x) <;> simp_all [Op.entry, PC.holds, PC.isAck, PC.isAwait, PC.gensOk, PC.wOk]
  next => simp at hs

theorem inv_finish {s s' : State} (h : Inv s) (i : Nat) (hs : finish s i = some s') : Inv s' := by
  unfold finish at hs
  split at hs <;> first
    | (simp only [Option.some.injEq] at hs; subst hs; apply inv_setT h <;> simp_all [PC.holds, PC.isAck, PC.isAwait, PC.gensOk, PC.wOk])
    | simp at hs

theorem inv_fire {s s' : State} (h : Inv s) (w : Bool) (hs : fire s w = some s') : Inv s' := by
  unfold fire at hs
  cases w
  · simp only [Bool.false_eq_true, if_false] at hs
    split at hs
    next ha =>
      have hc := h.rdlOk ha
      simp only [hc, Bool.false_eq_true, if_false, Option.some.injEq] at hs; subst hs
      exact inv_globals h s.done s.err _ s.wdl id h.errSet (by simp) (Nat.le_refl _) h.wdlOk (Nat.le_refl _)
    next => simp at hs
  · simp only [if_true] at hs
    split at hs
    next ha =>
      have hc := h.wdlOk ha
      simp only [hc, Bool.false_eq_true, if_false, Option.some.injEq] at hs; subst hs
      exact inv_globals h s.done s.err s.rdl _ id h.errSet h.rdlOk (Nat.le_refl _) (by simp) (Nat.le_refl _)
    next => simp at hs

/-- while a writer sits in its select nobody is in the hand-shake -/
theorem hs_none_of_wSel {s : State} (h : Inv s) {j : Nat} {b : Bytes} {n ci g : Nat}
    (hj : s.thr j = .wSel b n ci g) : s.hs = none := by
  cases hh : s.hs with
  | none => rfl
  | some p =>
    obtain ⟨a, b'⟩ := p
    obtain ⟨_, _, _, _, _, _, _, _, h2, _⟩ := h.hsOk a b' hh
    have m1 := h.muHold b' (by simp [h2, PC.holds])
    have m2 := h.muHold j (by simp [hj, PC.holds])
    rw [m1] at m2; simp only [Option.some.injEq] at m2; subst m2
    rw [hj] at h2; cases h2

theorem RKind.consume_le (k : RKind) (len : Nat) : (k.consume len).1 ≤ len := by
  unfold RKind.consume; split <;> simp <;> omega

theorem inv_data {s s' : State} (h : Inv s) (i j : Nat) (hs : data s i j = some s') : Inv s' := by
  unfold data at hs
  split at hs
  next k acc g b n ci gw hi hj =>
    split at hs
    next =>
      simp only [Option.some.injEq] at hs; subst hs
      have hn := hs_none_of_wSel h hj
      have hij : i ≠ j := by intro e; subst e; rw [hi] at hj; cases hj
      have noAck : ∀ k, (s.thr k).isAck = false := by
        intro k; cases hk : (s.thr k).isAck with
        | false => rfl
        | true => obtain ⟨_, hx⟩ := h.ackHs k hk; rw [hn] at hx; cases hx
      have noAw : ∀ k, (s.thr k).isAwait = false := by
        intro k; cases hk : (s.thr k).isAwait with
        | false => rfl
        | true => obtain ⟨_, hx⟩ := h.awaitHs k hk; rw [hn] at hx; cases hx
      have hwj := h.wOk j
      constructor
      · exact h.noPanic
      · exact h.errSet
      · intro x; simp only [State.setT]; split
        · simp
        · split
          · simp
          · exact h.closeOk x
      · exact h.rdlOk
      · exact h.wdlOk
      · intro x; simp only [State.setT]; split
        · subst_vars; intro _; exact h.muHold _ (by simp [hj, PC.holds])
        · split
          · simp [PC.holds]
          · exact h.muHold x
      · intro x hx; simp only [State.setT] at hx ⊢; split
        · simp [PC.holds]
        · split
          · subst_vars; have := h.muLive _ hx; simp [hi, PC.holds] at this
          · exact h.muLive x hx
      · intro x; simp only [State.setT]; split
        · simp [PC.isAck]
        · split
          · subst_vars; intro _; exact ⟨j, rfl⟩
          · intro hx; simp [noAck x] at hx
      · intro x; simp only [State.setT]; split
        · subst_vars; intro _; exact ⟨i, rfl⟩
        · split
          · simp [PC.isAwait]
          · intro hx; simp [noAw x] at hx
      · intro a b' hab; simp only [State.setT] at hab ⊢
        simp only [Option.some.injEq, Prod.mk.injEq] at hab
        obtain ⟨ha, hb⟩ := hab; subst ha; subst hb
        refine ⟨(k.consume b.length).2.2, acc, (k.consume b.length).1, (k.consume b.length).2.1, b, n, ci, ?_, ?_, RKind.consume_le k _⟩
        · simp [hij]
        · simp
      · intro x; simp only [State.setT]; split
        · simp [PC.gensOk]
        · split
          · simp [PC.gensOk]
          · exact h.gens x
      · intro x; simp only [State.setT]; split
        · subst_vars; simp only [hj, PC.wOk] at hwj; simpa [PC.wOk] using hwj
        · split
          · simp [PC.wOk]
          · exact h.wOk x
      · exact h.fid
    next => simp at hs
  next => simp at hs


theorem setCount_length (l : List (Bytes × Nat)) (ci m : Nat) : (setCount l ci m).length = l.length := by
  induction l generalizing ci with
  | nil => simp [setCount]
  | cons x rest ih =>
    obtain ⟨o, n⟩ := x
    cases ci with
    | zero => simp [setCount]
    | succ c => simp [setCount, ih]

theorem setCount_get_same (l : List (Bytes × Nat)) (ci m : Nat) (o : Bytes) (n : Nat)
    (h : l[ci]? = some (o, n)) : (setCount l ci m)[ci]? = some (o, m) := by
  induction l generalizing ci with
  | nil => simp at h
  | cons x rest ih =>
    obtain ⟨o', n'⟩ := x
    cases ci with
    | zero => simp at h; simp [setCount, h.1]
    | succ c => simp at h; simp [setCount, ih c h]

theorem setCount_get_other (l : List (Bytes × Nat)) (ci m c : Nat) (hne : c ≠ ci) :
    (setCount l ci m)[c]? = l[c]? := by
  induction l generalizing ci c with
  | nil => simp [setCount]
  | cons x rest ih =>
    obtain ⟨o', n'⟩ := x
    cases ci with
    | zero => cases c with
      | zero => exact absurd rfl hne
      | succ c' => simp [setCount]
    | succ ci' => cases c with
      | zero => simp [setCount]
      | succ c' => simp [setCount]; exact ih ci' c' (by omega)

theorem consumed_cons (x : Bytes × Nat) (l : List (Bytes × Nat)) : consumed (x :: l) = x.1.take x.2 ++ consumed l := by
  simp [consumed]

/-- advancing the count of the LAST log entry appends the newly consumed bytes to the consumed stream -/
theorem consumed_setCount_last (l : List (Bytes × Nat)) (ci nr : Nat) (o : Bytes) (n : Nat)
    (h : l[ci]? = some (o, n)) (hl : ci + 1 = l.length) :
    consumed (setCount l ci (n + nr)) = consumed l ++ (o.drop n).take nr := by
  induction l generalizing ci with
  | nil => simp at h
  | cons x rest ih =>
    obtain ⟨o', n'⟩ := x
    cases ci with
    | zero =>
      have hr : rest = [] := by
        cases rest with
        | nil => rfl
        | cons _ _ => simp at hl
      subst hr
      simp at h
      obtain ⟨h1, h2⟩ := h; subst h1; subst h2
      simp [setCount, consumed, List.take_add]
    | succ c =>
      simp at h hl
      simp only [setCount, consumed_cons, ih c h (by omega), List.append_assoc]

theorem after_props (k : RKind) (acc nr : Nat) (fail : Bool) :
    (k.after acc nr fail).holds = false ∧ (k.after acc nr fail).isAck = false ∧
    (k.after acc nr fail).isAwait = false ∧ (∀ a c, (k.after acc nr fail).gensOk a c) ∧
    (∀ l hb, (k.after acc nr fail).wOk l hb) ∧ k.after acc nr fail ≠ .cClose := by
  cases k with
  | read cap => simp [RKind.after, PC.holds, PC.isAck, PC.isAwait, PC.gensOk, PC.wOk]
  | wt plan ff => cases fail <;> simp [RKind.after, PC.holds, PC.isAck, PC.isAwait, PC.gensOk, PC.wOk]

theorem wOk_setCount {p : PC} {l : List (Bytes × Nat)} {ci m : Nat} (hw : p.wOk l true)
    (hh : p.holds = false) (hci : ci + 1 = l.length) : p.wOk (setCount l ci m) true := by
  cases p <;> simp_all [PC.wOk, PC.holds]
  rename_i n0 e0 c0; cases c0 <;> simp_all [PC.wOk]
  rename_i c0
  rw [setCount_length, setCount_get_other _ _ _ _ (by omega)]
  simp_all

theorem inv_count {s s' : State} (h : Inv s) (i j : Nat) (hs : count s i j = some s') : Inv s' := by
  unfold count at hs
  split at hs
  next k acc nr fail chunk b n ci hi hj =>
    obtain ⟨j', hj'⟩ := h.ackHs i (by simp [hi, PC.isAck])
    obtain ⟨i', hi'⟩ := h.awaitHs j (by simp [hj, PC.isAwait])
    have hhs : s.hs = some (i, j) := by
      rw [hj'] at hi'; simp only [Option.some.injEq, Prod.mk.injEq] at hi'
      rw [hj', hi'.2]
    obtain ⟨_, _, _, _, b0, _, _, e1, e2, hle⟩ := h.hsOk i j hhs
    rw [hi] at e1; rw [hj] at e2
    simp only [PC.rAck.injEq] at e1; simp only [PC.wAwait.injEq] at e2
    obtain ⟨_, _, enr, _, ech⟩ := e1
    obtain ⟨eb, _, _⟩ := e2
    subst enr; subst eb
    have hij : i ≠ j := by intro e; subst e; rw [hi] at hj; cases hj
    have hmu : s.mu = some j := h.muHold j (by simp [hj, PC.holds])
    have hwj := h.wOk j
    simp only [hj, PC.wOk] at hwj
    obtain ⟨hci, o, hget, hb, hno⟩ := hwj
    have uniqAck : ∀ x, (s.thr x).isAck = true → x = i := by
      intro x hx; obtain ⟨y, hy⟩ := h.ackHs x hx; rw [hhs] at hy
      simp only [Option.some.injEq, Prod.mk.injEq] at hy; exact hy.1.symm
    have uniqAw : ∀ x, (s.thr x).isAwait = true → x = j := by
      intro x hx; obtain ⟨y, hy⟩ := h.awaitHs x hx; rw [hhs] at hy
      simp only [Option.some.injEq, Prod.mk.injEq] at hy; exact hy.2.symm
    have uniqHold : ∀ x, (s.thr x).holds = true → x = j := by
      intro x hx; have := h.muHold x hx; rw [hmu] at this
      simp only [Option.some.injEq] at this; exact this.symm
    have hnle : ¬ nr > b.length := by omega
    simp only [hnle, if_false, Option.some.injEq] at hs
    obtain ⟨rp1, rp2, rp3, rp4, rp5, rp6⟩ := after_props k acc nr fail
    generalize k.after acc nr fail = rpc at hs rp1 rp2 rp3 rp4 rp5 rp6
    have hfid : s.rret ++ chunk = consumed (setCount s.wlog ci (n + nr)) := by
      rw [consumed_setCount_last _ _ _ _ _ hget hci, ← h.fid, ech, hb]
    have hget' : (setCount s.wlog ci (n + nr))[ci]? = some (o, n + nr) := setCount_get_same _ _ _ _ _ hget
    have hb' : b.drop nr = o.drop (n + nr) := by rw [hb, List.drop_drop]
    have hno' : n + nr ≤ o.length := by
      have : b.length = o.length - n := by rw [hb]; simp
      omega
    have hother : ∀ x, x ≠ j → (s.thr x).wOk (setCount s.wlog ci (n + nr)) true := by
      intro x hx
      have nh : (s.thr x).holds = false := by
        cases hh : (s.thr x).holds with
        | false => rfl
        | true => exact absurd (uniqHold x hh) hx
      have := h.wOk x; rw [hmu] at this
      exact wOk_setCount this nh hci
    clear hle hno hget hb ech
    split at hs
    next hpos =>
      -- the writer goes round its loop
      subst hs
      constructor
      · exact h.noPanic
      · exact h.errSet
      · intro x; simp only [State.setT]; split
        · intro e; exact absurd e rp6
        · split
          · simp
          · exact h.closeOk x
      · exact h.rdlOk
      · exact h.wdlOk
      · intro x; simp only [State.setT]; split
        · simp [rp1]
        · split
          · subst_vars; intro _; exact hmu
          · exact h.muHold x
      · intro x hx; simp only [State.setT] at hx ⊢
        have : x = j := by rw [hmu] at hx; simp only [Option.some.injEq] at hx; exact hx.symm
        subst this; simp [Ne.symm hij, PC.holds]
      · intro x; simp only [State.setT]; split
        · simp [rp2]
        · split
          · simp [PC.isAck]
          · intro hx; exact absurd (uniqAck x hx) (by assumption)
      · intro x; simp only [State.setT]; split
        · simp [rp3]
        · split
          · simp [PC.isAwait]
          · intro hx; exact absurd (uniqAw x hx) (by assumption)
      · intro a c hac; simp [State.setT] at hac
      · intro x; simp only [State.setT]; split
        · exact rp4 _ _
        · split
          · simp [PC.gensOk]
          · exact h.gens x
      · intro x; simp only [State.setT]; split
        · exact rp5 _ _
        · split
          · simp only [PC.wOk, setCount_length]
            exact ⟨hci, o, hget', hb', hno'⟩
          · have := hother x (by assumption)
            simpa [hmu] using this
      · exact hfid
    next hzero =>
      -- the writer is done: deferred Unlock, return n
      subst hs
      constructor
      · exact h.noPanic
      · exact h.errSet
      · intro x; simp only [State.setT]; split
        · intro e; exact absurd e rp6
        · split
          · simp
          · exact h.closeOk x
      · exact h.rdlOk
      · exact h.wdlOk
      · intro x; simp only [State.setT]; split
        · simp [rp1]
        · split
          · simp [PC.holds]
          · intro hx; exact absurd (uniqHold x hx) (by assumption)
      · intro x hx; simp [State.setT] at hx
      · intro x; simp only [State.setT]; split
        · simp [rp2]
        · split
          · simp [PC.isAck]
          · intro hx; exact absurd (uniqAck x hx) (by assumption)
      · intro x; simp only [State.setT]; split
        · simp [rp3]
        · split
          · simp [PC.isAwait]
          · intro hx; exact absurd (uniqAw x hx) (by assumption)
      · intro a c hac; simp [State.setT] at hac
      · intro x; simp only [State.setT]; split
        · exact rp4 _ _
        · split
          · simp [PC.gensOk]
          · exact h.gens x
      · intro x; simp only [State.setT]; split
        · exact rp5 _ _
        · split
          · simp only [PC.wOk, setCount_length]
            exact ⟨⟨o, hget', hno'⟩, by simp⟩
          · exact wOk_unheld (hother x (by assumption))
      · exact hfid
  next => simp at hs

theorem inv_step {s s' : State} (h : Inv s) (st : Step s s') : Inv s' := by
  cases st with
  | start i op hs => exact inv_start h i op hs
  | finish i hs => exact inv_finish h i hs
  | fire w hs => exact inv_fire h w hs
  | loc i hs => exact inv_local h i hs
  | data i j hs => exact inv_data h i j hs
  | count i j hs => exact inv_count h i j hs

theorem inv_reachable {s : State} (r : Reachable s) : Inv s := by
  induction r with
  | init => exact inv_init
  | step _ st ih => exact inv_step ih st

end SSV.Pipe
