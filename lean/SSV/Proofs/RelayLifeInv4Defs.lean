import SSV.Proofs.RelayLifeInv3d
/-
C12 helper lemmas, part 4: life cycle of the NAT socket.  It is open from the successful ListenUDP until it is closed by
the early return that owns it or by the uplink goroutine after the send channel was closed; nobody uses it afterwards.
-/
namespace SSV.RelayLife
variable (cfg : Cfg)

/-- every early return that owns the socket closes it -/
def Cfg.closesAll (cfg : Cfg) : Bool := cfg.closeSetDl && cfg.closeNewPacker && cfg.closeSwap

structure Inv4 (cfg : Cfg) (s : State) : Prop where
  s1 : ∀ i, i < s.n → (s.ent i).ipc.idx ≤ 2 → (s.ent i).sock = false
  s2 : ∀ i, i < s.n → 3 ≤ (s.ent i).ipc.idx → (s.ent i).ipc.idx ≤ 8 → (s.ent i).sock = true
  s3 : ∀ i, i < s.n → (s.ent i).clean = true → (s.ent i).upc ≠ .done → (s.ent i).sock = true
  s4 : cfg.uplinkCloses = true → ∀ i, i < s.n → (s.ent i).upc = .done → (s.ent i).sock = false
  s5 : cfg.closesAll = true → ∀ i, i < s.n → (s.ent i).clean = false → 9 ≤ (s.ent i).ipc.idx → (s.ent i).sock = false
  u4 : ∀ i, i < s.n → ((s.ent i).upc = .closeSock ∨ (s.ent i).upc = .done) → 11 ≤ (s.ent i).ipc.idx
  u6 : ∀ i, i < s.n → (s.ent i).clean = true → 7 ≤ (s.ent i).ipc.idx → (s.ent i).upc ≠ .none

theorem inv4_initial : Inv4 cfg State.init := by
  constructor <;> simp [State.init]

set_option hygiene false in
macro "close_case4" : tactic => `(tactic| (
  first
  | (simp at h; done)
  | (injection h with h; subst h
     constructor <;>
       simp_all [State.setE, State.inTab, Entry.closeIf, Entry.closeSock, Cfg.closesAll, IPc.idx, IPc.closed_t] <;>
       grind [IPc.idx, Entry.fresh])))

end SSV.RelayLife
