import SSV.Proofs.PacketSSUp
/- C05 helper lemmas: Shadowsocks 2022 server → client round trip; frame of the ss2022 packers. -/
namespace SSV.Packet
open SSV SSV.Gen.C05

/-- the message header `PutUDPServerMessageHeader` writes -/
def ssServerHdr (b : Bytes) (a : AddrPort) (ps pad : Nat) (ts csid : Bytes) : Bytes :=
  UInt8.ofNat HeaderTypeServerPacket ::
    (ts ++ csid ++ be16 pad ++ sub b (ps - (addrPortLen a).toNat - pad) pad ++ encodeAddrPort a)

def ssServerPacket (c : Crypto) (block aeadKey : Bytes) (b : Bytes) (a : AddrPort)
    (ps pl pad : Nat) (ts ssid spid csid : Bytes) : Bytes :=
  c.enc block (ssid ++ spid) ++ c.aseal aeadKey ((ssid ++ spid).drop 4) (ssServerHdr b a ps pad ts csid ++ sub b ps pl)

def ssSFront (a : AddrPort) (pad : Nat) : Nat := 16 + 19 + (addrPortLen a).toNat + pad

theorem ssServerPackWith_ok {c : Crypto} {block aeadKey : Bytes} {b : Bytes} {a : AddrPort} {ps pl : Nat} {padI : Int}
    {ts ssid spid csid : Bytes} {r : Packed} (hp0 : 0 ≤ padI)
    (h : ssServerPackWith c block aeadKey b a ps pl padI ts ssid spid csid = .ok r) :
    ssSFront a padI.toNat ≤ ps ∧ ps + pl + 16 ≤ b.length ∧
      r.packetStart = (ps : Int) - ssSFront a padI.toNat ∧
      r.packetLen = ((ssSFront a padI.toNat + pl + 16 : Nat) : Int) ∧
      r.buf = splice b (ps - ssSFront a padI.toNat) (ssServerPacket c block aeadKey b a ps pl padI.toNat ts ssid spid csid) := by
  obtain ⟨hal1, hal2⟩ := addrPortLen_bounds a
  unfold ssServerPackWith at h
  simp only [ite_panic_eq_ok, ite_noRoom_eq_ok] at h
  obtain ⟨hs1, hs2, hs3, hroom, h⟩ := h
  simp only [Outcome.ok.injEq] at h
  subst h
  simp only [Decidable.not_not, sliceOk, sMessageHeaderStart, sPacketStart, sPacketLen,
    UDPServerMessageHeaderFixedLength] at hs1 hs2 hs3 hroom ⊢
  refine ⟨?_, by omega, ?_, ?_, ?_⟩
  · simp only [ssSFront]; omega
  · simp only [ssSFront]; omega
  · simp only [ssSFront]; omega
  · simp only [ssSFront, ssServerPacket, ssServerHdr]
    have e : ((ps : Int) - 19 - padI - addrPortLen a).toNat + 19 = ps - (addrPortLen a).toNat - padI.toNat := by omega
    rw [e]
    congr 1
    omega

theorem ssServerPack_ok {c : Crypto} {block aeadKey : Bytes} {pol : Policy} {b : Bytes} {a : AddrPort} {ps pl : Nat} {lim : Int}
    {rand : Nat} {ts ssid spid csid : Bytes} {r : Packed}
    (h : ssServerPack c block aeadKey pol b a ps pl lim rand ts ssid spid csid = .ok r) :
    ∃ pad : Nat, pad ≤ 65535 ∧ ssSFront a pad ≤ ps ∧ ps + pl + 16 ≤ b.length ∧
      ((ssSFront a pad + pl + 16 : Nat) : Int) ≤ lim ∧
      r.packetStart = (ps : Int) - ssSFront a pad ∧
      r.packetLen = ((ssSFront a pad + pl + 16 : Nat) : Int) ∧
      r.buf = splice b (ps - ssSFront a pad) (ssServerPacket c block aeadKey b a ps pl pad ts ssid spid csid) := by
  obtain ⟨hal1, hal2⟩ := addrPortLen_bounds a
  unfold ssServerPack at h
  simp only [ite_err_eq_ok] at h
  obtain ⟨hmax, h⟩ := h
  have hb := choosePadding_bounds _ (shouldPad pol a.port) rand (Int.not_lt.mp hmax)
  generalize choosePadding _ (shouldPad pol a.port) rand = padI at h hb
  obtain ⟨h1, h2, h3, h4, h5⟩ := ssServerPackWith_ok hb.1 h
  refine ⟨padI.toNat, ?_, h1, h2, ?_, h3, h4, h5⟩
  · have := hb.2
    simp only [sMaxPaddingLen, sHeaderNoPaddingLen] at this
    omega
  · have := hb.2
    simp only [sMaxPaddingLen, sHeaderNoPaddingLen] at this
    simp only [ssSFront]
    omega

/-- the client unpacker on any buffer whose packet window holds `enc(block, sep) ++ ciphertext` -/
theorem ssClientUnpack_window (c : Crypto) (L : c.Laws) (block key csid : Bytes) (now : Int) (bb : Bytes) (q n : Nat)
    (sep ct pt : Bytes) (a : AddrPort) (ps' pl' : Nat)
    (hwin : sub bb q n = c.enc block sep ++ ct)
    (hsep : sep.length = 16) (hn : n = 16 + ct.length) (hct : 16 ≤ ct.length) (hlen : q + n ≤ bb.length)
    (hopen : c.aopen key (sep.drop 4) ct = some pt) (hparse : parseServerHeader pt now csid = .ok (a, ps', pl')) :
    ssClientUnpack c block key csid now bb q n
      = .ok ⟨splice bb q (sep ++ pt), a, ((q + 16 + ps' : Nat) : Int), pl'⟩ := by
  have henc : (c.enc block sep).length = 16 := by rw [L.enc_len, hsep]
  have e1 : sub bb q 16 = c.enc block sep := by
    have := sub_of_sub bb q n 0 16 (by omega)
    rw [Nat.add_zero] at this
    rw [this, hwin, sub_left _ _ _ henc]
  have e3 : sub bb (q + 16) (n - 16) = ct := by
    rw [sub_of_sub bb q n 16 (n - 16) (by omega), hwin,
      sub_right (c.enc block sep) ct 16 _ 0 (by omega), sub_whole ct _ (by omega)]
  have e5 : cUnpackTooSmall (n : Int) = false := by
    simp only [cUnpackTooSmall, decide_eq_false_iff_not]; omega
  have e4 : (cUnpackMessageHeaderStart (q : Int)).toNat = q + 16 := by
    simp only [cUnpackMessageHeaderStart]; omega
  unfold ssClientUnpack
  simp only [e5, Bool.false_eq_true, if_false]
  rw [if_neg (by simp only [Decidable.not_not, sliceOk, cUnpackMessageHeaderStart]; omega),
    if_neg (by simp only [Decidable.not_not, sliceOk, cUnpackMessageHeaderStart]; omega)]
  simp only [e1, L.dec_enc, e4, e3, hopen, hparse]
  have e6 : cUnpackMessageHeaderStart (q : Int) + (ps' : Int) = ((q + 16 + ps' : Nat) : Int) := by
    simp only [cUnpackMessageHeaderStart]; omega
  rw [e6]

theorem ssServerHdr_length (b : Bytes) (a : AddrPort) (ps pad : Nat) (ts csid : Bytes) (ha : a.wf) (hts : ts.length = 8)
    (hcs : csid.length = 8) (hb : ps - (addrPortLen a).toNat - pad + pad ≤ b.length) :
    (ssServerHdr b a ps pad ts csid).length = 19 + pad + (addrPortLen a).toNat := by
  have := encodeAddrPort_length a ha
  simp only [ssServerHdr, List.length_cons, List.length_append, hts, hcs, be16_length, sub_length _ _ _ hb]
  omega

/-- server → client round trip of Shadowsocks 2022 -/
theorem ss_roundtrip_down (c : Crypto) (L : c.Laws) (block aeadKey : Bytes) (pol : Policy) (b : Bytes) (a : AddrPort)
    (ps pl : Nat) (lim : Int) (rand : Nat) (ts ssid spid csid : Bytes) (now : Int) (r : Packed)
    (ha : a.wf) (hts : ts.length = 8) (hssid : ssid.length = 8) (hspid : spid.length = 8) (hcs : csid.length = 8)
    (hnow : tsOk ts now = true)
    (h : ssServerPack c block aeadKey pol b a ps pl lim rand ts ssid spid csid = .ok r) :
    ∃ u, ssClientUnpack c block aeadKey csid now r.buf r.packetStart.toNat r.packetLen.toNat = .ok u ∧
      u.addr = a.norm ∧ u.payloadStart = ps ∧ u.payloadLen = pl ∧ sub u.buf ps pl = sub b ps pl ∧
      u.buf.length = b.length ∧ u.buf.take r.packetStart.toNat = r.buf.take r.packetStart.toNat ∧
      u.buf.drop (r.packetStart + r.packetLen).toNat = r.buf.drop (r.packetStart + r.packetLen).toNat := by
  obtain ⟨hal1, hal2⟩ := addrPortLen_bounds a
  obtain ⟨pad, hpad, hF, hroom, _, hps, hpl, hbuf⟩ := ssServerPack_ok h
  have hsep : (ssid ++ spid).length = 16 := by simp [hssid, hspid]
  have hFdef : ssSFront a pad = 16 + 19 + (addrPortLen a).toNat + pad := rfl
  have hhdr := ssServerHdr_length b a ps pad ts csid ha hts hcs (by omega)
  have hsubpl : (sub b ps pl).length = pl := sub_length _ _ _ (by omega)
  have hPlen : (ssServerPacket c block aeadKey b a ps pl pad ts ssid spid csid).length = ssSFront a pad + pl + 16 := by
    simp only [ssServerPacket, List.length_append, L.enc_len, L.seal_len, hsep, hhdr, hsubpl]
    omega
  have e1 : r.packetStart.toNat = ps - ssSFront a pad := by omega
  have e2 : r.packetLen.toNat = ssSFront a pad + pl + 16 := by omega
  have e3 : (r.packetStart + r.packetLen).toNat = ps + pl + 16 := by omega
  rw [e1, e2, e3, hbuf]
  have hL := splice_length b (ps - ssSFront a pad) _ (by rw [hPlen]; omega)
  have hwin := sub_splice b (ps - ssSFront a pad) (ssServerPacket c block aeadKey b a ps pl pad ts ssid spid csid) (by rw [hPlen]; omega)
  rw [hPlen] at hwin
  have hpt : ssServerHdr b a ps pad ts csid ++ sub b ps pl =
      UInt8.ofNat HeaderTypeServerPacket :: (ts ++ (csid ++ (be16 pad ++ (sub b (ps - (addrPortLen a).toNat - pad) pad ++ (encodeAddrPort a ++ sub b ps pl))))) := by
    simp [ssServerHdr]
  have hparse := parseServerHeader_put ts csid (sub b (ps - (addrPortLen a).toNat - pad) pad) pad a (sub b ps pl) now hts hcs
    (sub_length _ _ _ (by omega)) (by omega) ha hnow
  rw [← hpt, hsubpl] at hparse
  have hu := ssClientUnpack_window c L block aeadKey csid now _ (ps - ssSFront a pad)
    (ssSFront a pad + pl + 16) (ssid ++ spid) _ _ _ _ _ hwin hsep
    (by simp only [L.seal_len, List.length_append, hhdr, hsubpl]; omega)
    (by simp only [L.seal_len]; omega) (by omega) (L.open_seal _ _ _) hparse
  have hDlen : (ssid ++ spid ++ (ssServerHdr b a ps pad ts csid ++ sub b ps pl)).length = ssSFront a pad + pl := by
    simp only [List.length_append, hssid, hspid, hhdr, hsubpl]; omega
  have hq : ps - ssSFront a pad + ssSFront a pad = ps := by omega
  refine ⟨_, hu, rfl, ?_, rfl, ?_, ?_, ?_, ?_⟩
  · simp only; omega
  · simp only
    have := sub_splice_inner (splice b (ps - ssSFront a pad) (ssServerPacket c block aeadKey b a ps pl pad ts ssid spid csid))
      (ps - ssSFront a pad) _ (ssSFront a pad) pl (by rw [hDlen, hL]; omega) (by rw [hDlen]; omega)
    rw [hq] at this
    rw [this, ← List.append_assoc,
      sub_right _ (sub b ps pl) (ssSFront a pad) pl 0
        (by simp only [List.length_append, hssid, hspid, hhdr]; omega),
      sub_whole _ _ hsubpl]
  · simp only
    rw [splice_length _ _ _ (by rw [hDlen, hL]; omega), hL]
  · simp only
    rw [splice_take _ _ _ (by rw [hDlen, hL]; omega)]
  · simp only
    rw [splice_drop_ge _ _ _ _ (by rw [hDlen, hL]; omega) (by rw [hDlen]; omega)]


/-- frame of the ss2022 client packer -/
theorem ssClientPack_frame (c : Crypto) (L : c.Laws) (userBlock aeadKey : Bytes) (eih : List (Bytes × Bytes)) (mps : Int)
    (pol : Policy) (b : Bytes) (a : Addr) (ps pl rand : Nat) (ts sid pid : Bytes) (r : Packed)
    (ha : a.wf) (hts : ts.length = 8) (hsid : sid.length = 8) (hpid : pid.length = 8)
    (hh : ∀ kh ∈ eih, kh.2.length = 16)
    (h : ssClientPack c userBlock aeadKey eih mps pol b a ps pl rand ts sid pid = .ok r) :
    r.buf.length = b.length ∧ r.buf.take r.packetStart.toNat = b.take r.packetStart.toNat ∧
    r.buf.drop (r.packetStart + r.packetLen).toNat = b.drop (r.packetStart + r.packetLen).toNat := by
  obtain ⟨hal1, hal2⟩ := addrLen_bounds a ha
  obtain ⟨pad, hpad, hF, hroom, _, hps, hpl, hbuf⟩ := ssClientPack_ok ha h
  have hsep : (sid ++ pid).length = 16 := by simp [hsid, hpid]
  have hids := ids_length c L eih (sid ++ pid) hsep hh
  have hFdef : ssFront eih.length a pad = 16 + 16 * eih.length + 11 + (addrLen a).toNat + pad := rfl
  have hhdr := ssClientHdr_length b a ps pad ts ha hts (by omega)
  have hsubpl : (sub b ps pl).length = pl := sub_length _ _ _ (by omega)
  have hPlen : (ssClientPacket c userBlock aeadKey eih b a ps pl pad ts sid pid).length = ssFront eih.length a pad + pl + 16 := by
    simp only [ssClientPacket, List.length_append, L.enc_len, L.seal_len, hsep, hids, hhdr, hsubpl]
    omega
  have e1 : r.packetStart.toNat = ps - ssFront eih.length a pad := by omega
  have e3 : (r.packetStart + r.packetLen).toNat = ps + pl + 16 := by omega
  rw [e1, e3, hbuf]
  exact ⟨splice_length _ _ _ (by rw [hPlen]; omega), splice_take _ _ _ (by rw [hPlen]; omega),
    splice_drop_ge _ _ _ _ (by rw [hPlen]; omega) (by rw [hPlen]; omega)⟩

/-- frame of the ss2022 server packer -/
theorem ssServerPack_frame (c : Crypto) (L : c.Laws) (block aeadKey : Bytes) (pol : Policy) (b : Bytes) (a : AddrPort)
    (ps pl : Nat) (lim : Int) (rand : Nat) (ts ssid spid csid : Bytes) (r : Packed)
    (ha : a.wf) (hts : ts.length = 8) (hssid : ssid.length = 8) (hspid : spid.length = 8) (hcs : csid.length = 8)
    (h : ssServerPack c block aeadKey pol b a ps pl lim rand ts ssid spid csid = .ok r) :
    r.buf.length = b.length ∧ r.buf.take r.packetStart.toNat = b.take r.packetStart.toNat ∧
    r.buf.drop (r.packetStart + r.packetLen).toNat = b.drop (r.packetStart + r.packetLen).toNat := by
  obtain ⟨hal1, hal2⟩ := addrPortLen_bounds a
  obtain ⟨pad, hpad, hF, hroom, _, hps, hpl, hbuf⟩ := ssServerPack_ok h
  have hsep : (ssid ++ spid).length = 16 := by simp [hssid, hspid]
  have hFdef : ssSFront a pad = 16 + 19 + (addrPortLen a).toNat + pad := rfl
  have hhdr := ssServerHdr_length b a ps pad ts csid ha hts hcs (by omega)
  have hsubpl : (sub b ps pl).length = pl := sub_length _ _ _ (by omega)
  have hPlen : (ssServerPacket c block aeadKey b a ps pl pad ts ssid spid csid).length = ssSFront a pad + pl + 16 := by
    simp only [ssServerPacket, List.length_append, L.enc_len, L.seal_len, hsep, hhdr, hsubpl]
    omega
  have e1 : r.packetStart.toNat = ps - ssSFront a pad := by omega
  have e3 : (r.packetStart + r.packetLen).toNat = ps + pl + 16 := by omega
  rw [e1, e3, hbuf]
  exact ⟨splice_length _ _ _ (by rw [hPlen]; omega), splice_take _ _ _ (by rw [hPlen]; omega),
    splice_drop_ge _ _ _ _ (by rw [hPlen]; omega) (by rw [hPlen]; omega)⟩

end SSV.Packet
