import SSV.Proofs.PipeFrame
import SSV.Proofs.PipeLive
/-
C15 — what the pc of a thread in the write loop / in a read can become in one step.
-/
namespace SSV.Pipe

theorem data_some_pcs {s s' : State} {i j : Nat} (h : data s i j = some s') :
    (∃ k acc g, s.thr i = .rSel k acc g) ∧ (∃ b n ci g, s.thr j = .wSel b n ci g) := by
  unfold data at h; split at h
  · rename_i k acc g b n ci gw hi hj; exact ⟨⟨k, acc, g, hi⟩, ⟨b, n, ci, gw, hj⟩⟩
  · simp at h

theorem count_some_pcs {s s' : State} {i j : Nat} (h : count s i j = some s') :
    (∃ k acc nr fail chunk, s.thr i = .rAck k acc nr fail chunk) ∧ (∃ b n ci, s.thr j = .wAwait b n ci) := by
  unfold count at h; split at h
  · rename_i k acc nr fail chunk b n ci hi hj; exact ⟨⟨k, acc, nr, fail, chunk, hi⟩, ⟨b, n, ci, hj⟩⟩
  · simp at h

theorem data_effect {s s' : State} {i j : Nat} {k : RKind} {acc g : Nat} {b : Bytes} {n ci gw : Nat}
    (h : data s i j = some s') (hi : s.thr i = .rSel k acc g) (hj : s.thr j = .wSel b n ci gw) :
    s'.thr j = .wAwait b n ci ∧
    s'.thr i = .rAck (k.consume b.length).2.2 acc (k.consume b.length).1 (k.consume b.length).2.1 (b.take (k.consume b.length).1) := by
  have hij : i ≠ j := by intro e; subst e; rw [hi] at hj; cases hj
  unfold data at h; simp only [hi, hj] at h
  split at h <;> simp at h; subst h
  simp [State.setT, hij]

theorem count_effect {s s' : State} {i j : Nat} {k : RKind} {acc nr : Nat} {fail : Bool} {chunk b : Bytes} {n ci : Nat}
    (h : count s i j = some s') (hi : s.thr i = .rAck k acc nr fail chunk) (hj : s.thr j = .wAwait b n ci)
    (hle : nr ≤ b.length) :
    s'.thr i = k.after acc nr fail ∧
    ((0 < (b.drop nr).length ∧ s'.thr j = .wEnter (b.drop nr) (n + nr) ci) ∨
     ((b.drop nr).length = 0 ∧ s'.thr j = .wRet (n + nr) .nil (some ci))) := by
  have hij : i ≠ j := by intro e; subst e; rw [hi] at hj; cases hj
  unfold count at h; simp only [hi, hj] at h
  have : ¬ nr > b.length := by omega
  simp only [this, if_false, Option.some.injEq] at h; subst h
  split
  · rename_i hpos; exact ⟨by simp [State.setT], Or.inl ⟨hpos, by simp [State.setT, Ne.symm hij]⟩⟩
  · rename_i hz; exact ⟨by simp [State.setT], Or.inr ⟨by omega, by simp [State.setT, Ne.symm hij]⟩⟩

theorem start_busy {s s' : State} {j : Nat} {op : Op} (h : start s j op = some s') : s.thr j = .idle := by
  unfold start at h; split at h
  · assumption
  · simp at h

/-- successors of the pc of a writer at the head of its loop -/
theorem next_wEnter {s s' : State} {j : Nat} {b : Bytes} {c ci : Nat} (st : Step s s')
    (hp : s.thr j = .wEnter b c ci) : s'.thr j = .wEnter b c ci ∨ ∃ g, s'.thr j = .wSel b c ci g := by
  rcases step_thr_cases st j with h | ⟨op, h⟩ | h | h | ⟨i, h | h | h | h⟩
  · left; rw [h, hp]
  · have := start_busy h; rw [hp] at this; cases this
  · unfold finish at h; simp [hp] at h
  · unfold localSteps at h; simp only [hp, List.mem_singleton] at h; subst h
    right; exact ⟨s.wdl.gen, by simp [State.setT]⟩
  · obtain ⟨_, _, _, _, _, hh⟩ := data_some_pcs h; rw [hp] at hh; cases hh
  · obtain ⟨⟨_, _, _, hh⟩, _⟩ := data_some_pcs h; rw [hp] at hh; cases hh
  · obtain ⟨_, _, _, _, hh⟩ := count_some_pcs h; rw [hp] at hh; cases hh
  · obtain ⟨⟨_, _, _, _, _, hh⟩, _⟩ := count_some_pcs h; rw [hp] at hh; cases hh

/-- successors of the pc of a writer in its select -/
theorem next_wSel {s s' : State} {j : Nat} {b : Bytes} {c ci g : Nat} (inv : Inv s) (st : Step s s')
    (hp : s.thr j = .wSel b c ci g) :
    s'.thr j = .wSel b c ci g ∨ s'.thr j = .wAwait b c ci ∨ ∃ e, s'.thr j = .wRet c e (some ci) := by
  rcases step_thr_cases st j with h | ⟨op, h⟩ | h | h | ⟨i, h | h | h | h⟩
  · left; rw [h, hp]
  · have := start_busy h; rw [hp] at this; cases this
  · unfold finish at h; simp [hp] at h
  · unfold localSteps at h; simp only [hp] at h
    right; right
    rcases mem_selSteps h with h' | h' <;> split at h' <;> simp at h' <;> subst h'
    · rename_i hd; obtain ⟨e, he⟩ := err_of_done inv hd
      rw [withErr_some _ he]; exact ⟨writeCloseErr e, by simp [State.setT]⟩
    · exact ⟨.timeout, by simp [State.setT]⟩
  · obtain ⟨⟨k, acc, gr, hi⟩, _⟩ := data_some_pcs h
    right; left; exact (data_effect h hi hp).1
  · obtain ⟨⟨_, _, _, hh⟩, _⟩ := data_some_pcs h; rw [hp] at hh; cases hh
  · obtain ⟨_, _, _, _, hh⟩ := count_some_pcs h; rw [hp] at hh; cases hh
  · obtain ⟨⟨_, _, _, _, _, hh⟩, _⟩ := count_some_pcs h; rw [hp] at hh; cases hh

/-- successors of the pc of a writer waiting for the count -/
theorem next_wAwait {s s' : State} {j : Nat} {b : Bytes} {c ci : Nat} (inv : Inv s) (st : Step s s')
    (hp : s.thr j = .wAwait b c ci) :
    s'.thr j = .wAwait b c ci ∨
    ∃ i k acc nr fail chunk, s.thr i = .rAck k acc nr fail chunk ∧
      ((0 < (b.drop nr).length ∧ s'.thr j = .wEnter (b.drop nr) (c + nr) ci) ∨
       s'.thr j = .wRet (c + nr) .nil (some ci)) := by
  rcases step_thr_cases st j with h | ⟨op, h⟩ | h | h | ⟨i, h | h | h | h⟩
  · left; rw [h, hp]
  · have := start_busy h; rw [hp] at this; cases this
  · unfold finish at h; simp [hp] at h
  · unfold localSteps at h; simp [hp] at h
  · obtain ⟨_, _, _, _, _, hh⟩ := data_some_pcs h; rw [hp] at hh; cases hh
  · obtain ⟨⟨_, _, _, hh⟩, _⟩ := data_some_pcs h; rw [hp] at hh; cases hh
  · obtain ⟨⟨k, acc, nr, fail, chunk, hi⟩, _⟩ := count_some_pcs h
    -- the sender is the hand-shake partner: nr ≤ len b
    obtain ⟨j', hj'⟩ := inv.ackHs i (by simp [hi, PC.isAck])
    obtain ⟨i', hi'⟩ := inv.awaitHs j (by simp [hp, PC.isAwait])
    have hhs : s.hs = some (i, j) := by
      rw [hj'] at hi'; simp only [Option.some.injEq, Prod.mk.injEq] at hi'
      rw [hj', hi'.2]
    obtain ⟨_, _, _, _, b0, _, _, e1, e2, hle⟩ := inv.hsOk i j hhs
    rw [hi] at e1; rw [hp] at e2
    simp only [PC.rAck.injEq] at e1; simp only [PC.wAwait.injEq] at e2
    obtain ⟨_, _, enr, _, _⟩ := e1
    obtain ⟨eb, _, _⟩ := e2
    subst enr; subst eb
    right; refine ⟨i, k, acc, nr, fail, chunk, hi, ?_⟩
    rcases (count_effect h hi hp hle).2 with ⟨h1, h2⟩ | ⟨_, h2⟩
    · exact Or.inl ⟨h1, h2⟩
    · exact Or.inr h2
  · obtain ⟨⟨_, _, _, _, _, hh⟩, _⟩ := count_some_pcs h; rw [hp] at hh; cases hh

/-- successors of the pc of a reader in its select -/
theorem next_rSel {s s' : State} {i : Nat} {k : RKind} {acc g : Nat} (inv : Inv s) (st : Step s s')
    (hp : s.thr i = .rSel k acc g) :
    s'.thr i = .rSel k acc g ∨ (∃ e, s'.thr i = .rRet acc e) ∨
    ∃ len chunk, s'.thr i = .rAck (k.consume len).2.2 acc (k.consume len).1 (k.consume len).2.1 chunk := by
  rcases step_thr_cases st i with h | ⟨op, h⟩ | h | h | ⟨j, h | h | h | h⟩
  · left; rw [h, hp]
  · have := start_busy h; rw [hp] at this; cases this
  · unfold finish at h; simp [hp] at h
  · unfold localSteps at h; simp only [hp] at h
    right; left
    rcases mem_selSteps h with h' | h' <;> split at h' <;> simp at h' <;> subst h'
    · rename_i hd; obtain ⟨e, he⟩ := err_of_done inv hd
      rw [withErr_some _ he]; exact ⟨k.closeErr e, by simp [State.setT]⟩
    · exact ⟨.timeout, by simp [State.setT]⟩
  · obtain ⟨_, _, _, _, _, hh⟩ := data_some_pcs h; rw [hp] at hh; cases hh
  · obtain ⟨_, ⟨b, n, ci, gw, hj⟩⟩ := data_some_pcs h
    right; right; exact ⟨b.length, _, (data_effect h hp hj).2⟩
  · obtain ⟨_, _, _, _, hh⟩ := count_some_pcs h; rw [hp] at hh; cases hh
  · obtain ⟨⟨_, _, _, _, _, hh⟩, _⟩ := count_some_pcs h; rw [hp] at hh; cases hh

/-- successors of the pc of a reader that owes its count -/
theorem next_rAck {s s' : State} {i : Nat} {k : RKind} {acc nr : Nat} {fail : Bool} {chunk : Bytes} (inv : Inv s)
    (st : Step s s') (hp : s.thr i = .rAck k acc nr fail chunk) :
    s'.thr i = .rAck k acc nr fail chunk ∨ s'.thr i = k.after acc nr fail := by
  rcases step_thr_cases st i with h | ⟨op, h⟩ | h | h | ⟨j, h | h | h | h⟩
  · left; rw [h, hp]
  · have := start_busy h; rw [hp] at this; cases this
  · unfold finish at h; simp [hp] at h
  · unfold localSteps at h; simp [hp] at h
  · obtain ⟨_, _, _, _, _, hh⟩ := data_some_pcs h; rw [hp] at hh; cases hh
  · obtain ⟨⟨_, _, _, hh⟩, _⟩ := data_some_pcs h; rw [hp] at hh; cases hh
  · obtain ⟨_, _, _, _, hh⟩ := count_some_pcs h; rw [hp] at hh; cases hh
  · obtain ⟨_, ⟨b, n, ci, hj⟩⟩ := count_some_pcs h
    obtain ⟨j', hj'⟩ := inv.ackHs i (by simp [hp, PC.isAck])
    obtain ⟨i', hi'⟩ := inv.awaitHs j (by simp [hj, PC.isAwait])
    have hhs : s.hs = some (i, j) := by
      rw [hj'] at hi'; simp only [Option.some.injEq, Prod.mk.injEq] at hi'
      rw [hj', hi'.2]
    obtain ⟨_, _, _, _, b0, _, _, e1, e2, hle⟩ := inv.hsOk i j hhs
    rw [hp] at e1; rw [hj] at e2
    simp only [PC.rAck.injEq] at e1; simp only [PC.wAwait.injEq] at e2
    obtain ⟨_, _, enr, _, _⟩ := e1
    obtain ⟨eb, _, _⟩ := e2
    subst enr; subst eb
    right; exact (count_effect h hp hj hle).1

end SSV.Pipe
