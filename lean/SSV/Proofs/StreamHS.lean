import SSV.Model.StreamHS
import SSV.Proofs.Parsers
/-
C06 helper lemmas, part 9: ss2022 HandleStream pre-authentication buffer arithmetic; the client's first read.
-/
namespace SSV.Parsers.Proofs
open SSV SSV.Go SSV.Outcome SSV.Parsers

theorem firstRead_le (seg : Bool) (c t w : Nat) : (firstRead seg c t w).1 ≤ w := by
  unfold firstRead
  cases seg
  · simp only [Bool.false_eq_true, if_false]
    split
    · simp
    · split <;> simp <;> omega
  · simp only [if_true]
    split
    · simp
    · split
      · simp
      · simp; omega

theorem np_hsFail (cfg : HSCfg) (len n : Nat) (e : Err) (h : n ≤ len) : NoPanic (hsFail cfg len n e) := by
  unfold hsFail hsFail.goSliceN
  split
  · simp
  · simp

theorem np_handleStream (cfg : HSCfg) (hid : cfg.idLen = 0 ∨ cfg.idLen = Gen.C06.IdentityHeaderLength) (now : Int)
    (chunk0 total : Nat) (replayed prefixOk userFound saltAdded : Bool) (openFixed : Option Bytes)
    (hopen : ∀ pt, openFixed = some pt → pt.length = Gen.C06.TCPRequestFixedLengthHeaderLength)
    (openVar : Bytes → Option Bytes) (rest : Bytes) :
    NoPanic (handleStream cfg now chunk0 total replayed prefixOk userFound saltAdded openFixed openVar rest) := by
  unfold handleStream
  simp only [Gen.C06.TCPRequestFixedLengthHeaderLength, Gen.C06.tagSize, Gen.C06.IdentityHeaderLength] at hid hopen ⊢
  have hl : (List.replicate (cfg.urspLen + cfg.saltLen + cfg.idLen + 11 + 16 + 16) (0 : UInt8)).length
      = cfg.urspLen + cfg.saltLen + cfg.idLen + 11 + 16 + 16 := List.length_replicate ..
  generalize List.replicate (cfg.urspLen + cfg.saltLen + cfg.idLen + 11 + 16 + 16) (0 : UInt8) = b at hl ⊢
  rw [sliceTo_of_le (by omega)]
  simp only [ok_bind]
  have hn := firstRead_le cfg.segmented chunk0 total (cfg.urspLen + cfg.saltLen + cfg.idLen + 11 + 16)
  have hrl : (List.take (cfg.urspLen + cfg.saltLen + cfg.idLen + 11 + 16) b).length = cfg.urspLen + cfg.saltLen + cfg.idLen + 11 + 16 := by
    simp only [List.length_take]; omega
  generalize firstRead cfg.segmented chunk0 total (cfg.urspLen + cfg.saltLen + cfg.idLen + 11 + 16) = fr at hn ⊢
  obtain ⟨n, rerr⟩ := fr
  simp only at hn ⊢
  have hf : ∀ e, NoPanic (hsFail cfg (List.take (cfg.urspLen + cfg.saltLen + cfg.idLen + 11 + 16) b).length n e) :=
    fun e => np_hsFail cfg _ n e (by omega)
  cases rerr with
  | some e => exact hf e
  | none =>
    simp only
    rw [sliceTo_of_le (by omega), slice_of_le (by omega), slice_of_le (by omega), sliceFrom_of_le (by omega)]
    simp only [ok_bind]
    split
    · exact hf _
    · split
      · exact hf _
      · refine noPanic_bind ?_ ?_
        · split
          · rename_i hne
            have h16 : cfg.idLen = 16 := by omega
            go_ok
          · simp
        · intro idOk _
          split
          · exact hf _
          · cases hof : openFixed with
            | none => exact hf _
            | some pt =>
              simp only
              have hpt := hopen pt hof
              have hp := np_parseTCPRequestFixedLengthHeader now pt (by simp only [Gen.C06.TCPRequestFixedLengthHeaderLength]; exact hpt)
              cases hr : parseTCPRequestFixedLengthHeader now pt with
              | panic => exact absurd hr hp
              | err e => exact hf e
              | ok vhlen =>
                simp only
                split
                · exact hf _
                · unfold readFull
                  split
                  · simp only [ok_bind]
                    split
                    · simp
                    · refine noPanic_bind (np_parseTCPRequestVariableLengthHeader _) ?_
                      rintro ⟨a, p⟩ _
                      simp
                  · split <;> simp

theorem np_clientFirstRead (urspLen saltLen : Nat) (hs : saltLen ≤ 32) (segmented : Bool) (now : Int) (reqSalt : Bytes)
    (hrs : reqSalt.length ≤ 32) (bLen chunk0 total : Nat) (prefixOk : Bool) (openHdr : Option Bytes)
    (hopen : ∀ pt, openHdr = some pt → pt.length = 1 + 8 + saltLen + 2) (openChunk : Bytes → Option Bytes) (rest : Bytes) :
    NoPanic (clientFirstRead urspLen saltLen segmented now reqSalt bLen chunk0 total prefixOk openHdr openChunk rest) := by
  unfold clientFirstRead
  simp only [Gen.C06.TCPRequestFixedLengthHeaderLength, Gen.C06.tagSize, Gen.C06.streamReadMinBufferSize]
  have hb : ∃ l, ((if urspLen + saltLen + 11 + saltLen + 16 ≤ bLen then pure (urspLen + saltLen + 11 + saltLen + 16)
      else if urspLen + saltLen + 11 + saltLen + 16 ≤ 65551 then
        (if urspLen + saltLen + 11 + saltLen + 16 ≤ 65551 then pure (urspLen + saltLen + 11 + saltLen + 16) else Outcome.panic)
      else pure (urspLen + saltLen + 11 + saltLen + 16) : R Nat)) = .ok l ∧ l = urspLen + saltLen + 11 + saltLen + 16 := by
    split
    · exact ⟨_, rfl, rfl⟩
    · split
      · exact ⟨_, rfl, rfl⟩
      · exact ⟨_, rfl, rfl⟩
  obtain ⟨l, hl, hle⟩ := hb
  rw [hl]
  simp only [ok_bind]
  have hlen : (List.replicate l (0 : UInt8)).length = l := List.length_replicate ..
  generalize List.replicate l (0 : UInt8) = hbuf at hlen ⊢
  generalize firstRead segmented chunk0 total l = fr
  obtain ⟨n, rerr⟩ := fr
  cases rerr with
  | some e => simp
  | none =>
    simp only
    rw [sliceTo_of_le (by omega)]
    simp only [ok_bind]
    split
    · simp
    · rw [slice_of_le (by omega), sliceFrom_of_le (by omega)]
      simp only [ok_bind]
      cases hoh : openHdr with
      | none => simp
      | some pt =>
        simp only
        have hpt := hopen pt hoh
        have hrl : saltLen ≤ (reqSalt ++ List.replicate (32 - reqSalt.length) (0 : UInt8)).length := by
          simp only [List.length_append, List.length_replicate]; omega
        rw [sliceTo_of_le hrl]
        simp only [ok_bind]
        have hsl : (List.take saltLen (reqSalt ++ List.replicate (32 - reqSalt.length) (0 : UInt8))).length = saltLen := by
          simp only [List.length_take]; omega
        refine noPanic_bind (np_parseTCPResponseHeader now _ pt (by rw [hsl]; exact hpt)) ?_
        intro payloadLen hpl
        have hlt : payloadLen < 65536 := by
          unfold parseTCPResponseHeader at hpl
          obtain ⟨t, _, hpl⟩ := bind_eq_ok hpl
          split at hpl
          · simp at hpl
          · obtain ⟨_, _, hpl⟩ := bind_eq_ok hpl
            obtain ⟨rs, _, hpl⟩ := bind_eq_ok hpl
            split at hpl
            · simp at hpl
            · obtain ⟨nn, hnn, hpl⟩ := bind_eq_ok hpl
              obtain ⟨x, hx, hnn⟩ := bind_eq_ok hnn
              unfold be16 at hnn
              split at hnn
              · simp only [Outcome.ok.injEq] at hnn
                have := be16val_lt x
                split at hpl
                · simp at hpl
                · simp only [pure_eq, Outcome.ok.injEq] at hpl
                  omega
              · simp at hnn
        unfold readFull
        split
        · split
          · simp only [ok_bind]
            split <;> simp
          · split <;> simp
        · split
          · omega
          · split
            · simp only [ok_bind]
              split
              · simp
              · split
                · omega
                · simp
            · split <;> simp

end SSV.Parsers.Proofs
