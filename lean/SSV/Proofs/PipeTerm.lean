import SSV.Proofs.PipeStable
import SSV.Proofs.PipeSuccs
/-
C15 — once a direction is closed, every run without new calls is finite: a measure that every internal step
(thread-local, data channel, count-back channel, timer, collecting a result) strictly decreases.
-/
namespace SSV.Pipe

/-- distance of a pc from the end of its call when `done` is closed (readers weigh 3× so that the count-back
step, which sends the writer round its loop, still decreases the sum) -/
def PC.rank : PC → Nat
  | .idle => 0
  | .rRet .. | .wRet .. | .uRet .. => 1
  | .rChk1 .. => 25
  | .rAck .. => 28
  | .rSel .. => 31
  | .rEnter .. => 32
  | .rChk2 .. => 33
  | .wAwait .. => 2
  | .wSel .. => 3
  | .wEnter .. => 4
  | .wLock .. => 5
  | .wChk2 .. => 6
  | .wChk1 .. => 7
  | .cClose => 2
  | .cStore _ => 3
  | .dSet .. => 3
  | .dChk .. => 4

def msum : Nat → (Nat → PC) → Nat
  | 0, _ => 0
  | n + 1, f => msum n f + (f n).rank

def DL.bit (d : DL) : Nat := if d.armed then 1 else 0

/-- the measure over the threads `< N` -/
def measure (N : Nat) (s : State) : Nat := msum N s.thr + s.rdl.bit + s.wdl.bit

theorem msum_upd_ge (n i : Nat) (f : Nat → PC) (p : PC) (h : n ≤ i) :
    msum n (fun k => if k = i then p else f k) = msum n f := by
  induction n with
  | zero => rfl
  | succ m ih =>
    have hne : m ≠ i := by omega
    simp only [msum, ih (by omega), hne, if_false]

theorem msum_upd_lt (n i : Nat) (f : Nat → PC) (p : PC) (h : i < n) :
    msum n (fun k => if k = i then p else f k) + (f i).rank = msum n f + p.rank := by
  induction n with
  | zero => omega
  | succ m ih =>
    by_cases hm : i = m
    · subst hm
      simp only [msum, msum_upd_ge i i f p (Nat.le_refl _), if_true]; omega
    · have hne : m ≠ i := fun e => hm e.symm
      have := ih (by omega)
      simp only [msum, hne, if_false]; omega

/-- all threads at or above the bound are idle -/
def Bounded (N : Nat) (s : State) : Prop := ∀ i, N ≤ i → s.thr i = .idle

/-- internal steps: everything but the start of a new call -/
inductive IStep (s : State) : State → Prop where
  | finish (i : Nat) {s'} : finish s i = some s' → IStep s s'
  | fire (w : Bool) {s'} : fire s w = some s' → IStep s s'
  | loc (i : Nat) {s'} : s' ∈ localSteps s i → IStep s s'
  | data (i j : Nat) {s'} : data s i j = some s' → IStep s s'
  | count (i j : Nat) {s'} : count s i j = some s' → IStep s s'

theorem IStep.toStep {s s' : State} (h : IStep s s') : Step s s' := by
  cases h with
  | finish i h => exact .finish i h
  | fire w h => exact .fire w h
  | loc i h => exact .loc i h
  | data i j h => exact .data i j h
  | count i j h => exact .count i j h

theorem lt_of_idle_ne {N i : Nat} {s : State} (hb : Bounded N s) (h : s.thr i ≠ .idle) : i < N := by
  apply Nat.lt_of_not_le; intro hle; exact h (hb i hle)

/-- measure after replacing the pc of thread `i < N` (deadlines untouched) -/
theorem measure_setT {N i : Nat} {s : State} (p : PC) (h : i < N) :
    measure N (s.setT i p) + (s.thr i).rank = measure N s + p.rank := by
  have := msum_upd_lt N i s.thr p h
  simp only [measure, State.setT]; omega

theorem bounded_setT {N i : Nat} {s : State} (p : PC) (hb : Bounded N s) (h : i < N) : Bounded N (s.setT i p) := by
  intro k hk; simp only [State.setT]
  have : k ≠ i := by omega
  simp [this, hb k hk]


/-- general form: `s'` differs from `s` in the pc of thread `i < N` and in fields the measure does not read -/
theorem measure_upd {N i : Nat} {s s' : State} (p : PC) (h : i < N)
    (ht : s'.thr = fun k => if k = i then p else s.thr k) (hr : s'.rdl = s.rdl) (hw : s'.wdl = s.wdl) :
    measure N s' + (s.thr i).rank = measure N s + p.rank := by
  have := msum_upd_lt N i s.thr p h
  simp only [measure, ht, hr, hw]; omega

theorem bounded_upd {N i : Nat} {s s' : State} (p : PC) (hb : Bounded N s) (h : i < N)
    (ht : s'.thr = fun k => if k = i then p else s.thr k) : Bounded N s' := by
  intro k hk; rw [ht]
  have : k ≠ i := by omega
  simp [this, hb k hk]

theorem DL.bit_le (d : DL) : d.bit ≤ 1 := by unfold DL.bit; split <;> omega

theorem after_rank (k : RKind) (acc nr : Nat) (fail : Bool) : (k.after acc nr fail).rank ≤ 25 := by
  cases k with
  | read cap => simp [RKind.after, PC.rank]
  | wt plan ff => cases fail <;> simp [RKind.after, PC.rank]

/-- one thread-local step, direction closed -/
theorem local_decreases {N : Nat} {s s' : State} (h : Inv s) (hd : s.done = true) (hb : Bounded N s) (i : Nat)
    (hs : s' ∈ localSteps s i) : measure N s' < measure N s ∧ Bounded N s' := by
  obtain ⟨e, he⟩ := err_of_done h hd
  have hi : i < N := by
    apply lt_of_idle_ne hb; intro hidle
    rw [localSteps_idle hidle] at hs; simp at hs
  have hw : ∀ f : Err → State, withErr s f = f e := fun f => withErr_some f he
  unfold localSteps at hs
  simp only [hw, if_pos hd] at hs
  split at hs <;> rename_i hp
  case h_1 k acc =>
    simp only [List.mem_singleton] at hs; subst hs
    have := measure_upd (N := N) (s := s) (s' := s.setT i (.rRet acc (k.closeErr e))) _ hi rfl rfl rfl
    simp only [hp, PC.rank] at this
    exact ⟨by omega, bounded_setT _ hb hi⟩
  case h_2 k acc =>
    split at hs <;> simp only [List.mem_singleton] at hs <;> subst hs
    · have := measure_upd (N := N) (s := s) (s' := s.setT i (.rRet acc .timeout)) _ hi rfl rfl rfl
      simp only [hp, PC.rank] at this
      exact ⟨by omega, bounded_setT _ hb hi⟩
    · have := measure_upd (N := N) (s := s) (s' := s.setT i (.rEnter k acc)) _ hi rfl rfl rfl
      simp only [hp, PC.rank] at this
      exact ⟨by omega, bounded_setT _ hb hi⟩
  case h_3 k acc =>
    simp only [List.mem_singleton] at hs; subst hs
    have := measure_upd (N := N) (s := s) (s' := s.setT i (.rSel k acc s.rdl.gen)) _ hi rfl rfl rfl
    simp only [hp, PC.rank] at this
    exact ⟨by omega, bounded_setT _ hb hi⟩
  case h_4 k acc g =>
    rcases mem_selSteps hs with h' | h'
    · simp only [Option.some.injEq] at h'; subst h'
      have := measure_upd (N := N) (s := s) (s' := s.setT i (.rRet acc (k.closeErr e))) _ hi rfl rfl rfl
      simp only [hp, PC.rank] at this
      exact ⟨by omega, bounded_setT _ hb hi⟩
    · split at h'
      case isFalse => simp at h'
      simp only [Option.some.injEq] at h'; subst h'
      have := measure_upd (N := N) (s := s) (s' := s.setT i (.rRet acc .timeout)) _ hi rfl rfl rfl
      simp only [hp, PC.rank] at this
      exact ⟨by omega, bounded_setT _ hb hi⟩
  case h_5 b =>
    simp only [List.mem_singleton] at hs; subst hs
    have := measure_upd (N := N) (s := s) (s' := s.setT i (.wRet 0 (writeCloseErr e) none)) _ hi rfl rfl rfl
    simp only [hp, PC.rank] at this
    exact ⟨by omega, bounded_setT _ hb hi⟩
  case h_6 b =>
    split at hs <;> simp only [List.mem_singleton] at hs <;> subst hs
    · have := measure_upd (N := N) (s := s) (s' := s.setT i (.wRet 0 .timeout none)) _ hi rfl rfl rfl
      simp only [hp, PC.rank] at this
      exact ⟨by omega, bounded_setT _ hb hi⟩
    · have := measure_upd (N := N) (s := s) (s' := s.setT i (.wLock b)) _ hi rfl rfl rfl
      simp only [hp, PC.rank] at this
      exact ⟨by omega, bounded_setT _ hb hi⟩
  case h_7 b =>
    split at hs
    case isFalse => simp at hs
    simp only [List.mem_singleton] at hs; subst hs
    have := measure_upd (N := N) (s := s)
      (s' := { s with mu := some i, wlog := s.wlog ++ [(b, 0)] }.setT i (.wEnter b 0 s.wlog.length)) _ hi rfl rfl rfl
    simp only [hp, PC.rank] at this
    exact ⟨by omega, bounded_upd _ hb hi rfl⟩
  case h_8 b n ci =>
    simp only [List.mem_singleton] at hs; subst hs
    have := measure_upd (N := N) (s := s) (s' := s.setT i (.wSel b n ci s.wdl.gen)) _ hi rfl rfl rfl
    simp only [hp, PC.rank] at this
    exact ⟨by omega, bounded_setT _ hb hi⟩
  case h_9 b n ci g =>
    rcases mem_selSteps hs with h' | h'
    · simp only [Option.some.injEq] at h'; subst h'
      have := measure_upd (N := N) (s := s)
        (s' := { s with mu := none }.setT i (.wRet n (writeCloseErr e) (some ci))) _ hi rfl rfl rfl
      simp only [hp, PC.rank] at this
      exact ⟨by omega, bounded_upd _ hb hi rfl⟩
    · split at h'
      case isFalse => simp at h'
      simp only [Option.some.injEq] at h'; subst h'
      have := measure_upd (N := N) (s := s)
        (s' := { s with mu := none }.setT i (.wRet n .timeout (some ci))) _ hi rfl rfl rfl
      simp only [hp, PC.rank] at this
      exact ⟨by omega, bounded_upd _ hb hi rfl⟩
  case h_10 e' =>
    simp only [List.mem_singleton] at hs; subst hs
    have := measure_upd (N := N) (s := s)
      (s' := { s with err := s.err.orElse fun _ => some e' }.setT i .cClose) _ hi rfl rfl rfl
    simp only [hp, PC.rank] at this
    exact ⟨by omega, bounded_upd _ hb hi rfl⟩
  case h_11 =>
    simp only [List.mem_singleton] at hs; subst hs
    have := measure_upd (N := N) (s := s) (s' := { s with done := true }.setT i (.uRet .nil)) _ hi rfl rfl rfl
    simp only [hp, PC.rank] at this
    exact ⟨by omega, bounded_upd _ hb hi rfl⟩
  case h_12 w k =>
    simp only [List.mem_singleton] at hs; subst hs
    generalize (if w = true then Err.eof else Err.closedPipe) = tgt
    split
    · have := measure_upd (N := N) (s := s) (s' := s.setT i (.uRet .closedPipe)) _ hi rfl rfl rfl
      simp only [hp, PC.rank] at this
      exact ⟨by omega, bounded_setT _ hb hi⟩
    · have := measure_upd (N := N) (s := s) (s' := s.setT i (.dSet w k)) _ hi rfl rfl rfl
      simp only [hp, PC.rank] at this
      exact ⟨by omega, bounded_setT _ hb hi⟩
  case h_13 w k =>
    simp only [List.mem_singleton] at hs; subst hs
    have hm := msum_upd_lt N i s.thr (.uRet .nil) hi
    simp only [hp, PC.rank] at hm
    cases w
    · refine ⟨?_, bounded_upd _ hb hi rfl⟩
      have b1 := DL.bit_le (s.rdl.set k)
      simp only [measure, State.setT, Bool.false_eq_true, if_false]; omega
    · refine ⟨?_, bounded_upd _ hb hi rfl⟩
      have b1 := DL.bit_le (s.wdl.set k)
      simp only [measure, State.setT, if_true]; omega
  case h_14 => simp at hs


theorem istep_decreases {N : Nat} {s s' : State} (h : Inv s) (hd : s.done = true) (hb : Bounded N s)
    (st : IStep s s') : measure N s' < measure N s ∧ Bounded N s' := by
  cases st with
  | loc i hs => exact local_decreases h hd hb i hs
  | finish i hs =>
    unfold finish at hs
    split at hs <;> rename_i hp <;> first
      | (simp at hs; done)
      | (simp only [Option.some.injEq] at hs; subst hs
         have hi : i < N := lt_of_idle_ne hb (by rw [hp]; simp)
         have := measure_upd (N := N) (s := s) (s' := s.setT i .idle) _ hi rfl rfl rfl
         simp only [hp, PC.rank] at this
         exact ⟨by omega, bounded_setT _ hb hi⟩)
  | fire w hs =>
    unfold fire at hs
    cases w
    · simp only [Bool.false_eq_true, if_false] at hs
      split at hs
      next ha =>
        have hc := h.rdlOk ha
        simp only [hc, Bool.false_eq_true, if_false, Option.some.injEq] at hs; subst hs
        refine ⟨?_, hb⟩
        simp only [measure, DL.bit, ha, if_true, Bool.false_eq_true, if_false]; omega
      next => simp at hs
    · simp only [if_true] at hs
      split at hs
      next ha =>
        have hc := h.wdlOk ha
        simp only [hc, Bool.false_eq_true, if_false, Option.some.injEq] at hs; subst hs
        refine ⟨?_, hb⟩
        simp only [measure, DL.bit, ha, if_true, Bool.false_eq_true, if_false]; omega
      next => simp at hs
  | data i j hs =>
    unfold data at hs
    split at hs
    next k acc g b n ci gw hi hj =>
      split at hs
      next =>
        simp only [Option.some.injEq] at hs; subst hs
        have hiN : i < N := lt_of_idle_ne hb (by rw [hi]; simp)
        have hjN : j < N := lt_of_idle_ne hb (by rw [hj]; simp)
        have hij : i ≠ j := by intro e; subst e; rw [hi] at hj; cases hj
        have m1 := msum_upd_lt N i s.thr (.rAck (k.consume b.length).2.2 acc (k.consume b.length).1 (k.consume b.length).2.1 (b.take (k.consume b.length).1)) hiN
        have m2 := msum_upd_lt N j (fun x => if x = i then (PC.rAck (k.consume b.length).2.2 acc (k.consume b.length).1 (k.consume b.length).2.1 (b.take (k.consume b.length).1)) else s.thr x) (.wAwait b n ci) hjN
        simp only [hi, PC.rank] at m1
        simp only [Ne.symm hij, if_false, hj, PC.rank] at m2
        refine ⟨?_, ?_⟩
        · simp only [measure, State.setT]; omega
        · intro x hx; simp only [State.setT]
          have h1 : x ≠ j := by omega
          have h2 : x ≠ i := by omega
          simp [h1, h2, hb x hx]
      next => simp at hs
    next => simp at hs
  | count i j hs =>
    unfold count at hs
    split at hs
    next k acc nr fail chunk b n ci hi hj =>
      have hiN : i < N := lt_of_idle_ne hb (by rw [hi]; simp)
      have hjN : j < N := lt_of_idle_ne hb (by rw [hj]; simp)
      have hij : i ≠ j := by intro e; subst e; rw [hi] at hj; cases hj
      obtain ⟨j', hj'⟩ := h.ackHs i (by simp [hi, PC.isAck])
      obtain ⟨i', hi'⟩ := h.awaitHs j (by simp [hj, PC.isAwait])
      have hhs : s.hs = some (i, j) := by
        rw [hj'] at hi'; simp only [Option.some.injEq, Prod.mk.injEq] at hi'
        rw [hj', hi'.2]
      obtain ⟨_, _, _, _, b0, _, _, e1, e2, hle⟩ := h.hsOk i j hhs
      rw [hi] at e1; rw [hj] at e2
      simp only [PC.rAck.injEq] at e1; simp only [PC.wAwait.injEq] at e2
      obtain ⟨_, _, enr, _, _⟩ := e1
      obtain ⟨eb, _, _⟩ := e2
      subst enr; subst eb
      have hnle : ¬ nr > b.length := by omega
      simp only [hnle, if_false, Option.some.injEq] at hs
      have hr := after_rank k acc nr fail
      generalize k.after acc nr fail = rpc at hs hr
      split at hs
      · subst hs
        have m1 := msum_upd_lt N j s.thr (.wEnter (b.drop nr) (n + nr) ci) hjN
        have m2 := msum_upd_lt N i (fun x => if x = j then (PC.wEnter (b.drop nr) (n + nr) ci) else s.thr x) rpc hiN
        simp only [hj] at m1
        simp only [hij, if_false, hi] at m2
        have r1 : (PC.wAwait b n ci).rank = 2 := rfl
        have r2 : (PC.rAck k acc nr fail chunk).rank = 28 := rfl
        have r3 : (PC.wEnter (b.drop nr) (n + nr) ci).rank = 4 := rfl
        have r4 : (PC.wRet (n + nr) .nil (some ci)).rank = 1 := rfl
        refine ⟨?_, ?_⟩
        · simp only [measure, State.setT]; omega
        · intro x hx; simp only [State.setT]
          have h1 : x ≠ j := by omega
          have h2 : x ≠ i := by omega
          simp [h1, h2, hb x hx]
      · subst hs
        have m1 := msum_upd_lt N j s.thr (.wRet (n + nr) .nil (some ci)) hjN
        have m2 := msum_upd_lt N i (fun x => if x = j then (PC.wRet (n + nr) .nil (some ci)) else s.thr x) rpc hiN
        simp only [hj] at m1
        simp only [hij, if_false, hi] at m2
        have r1 : (PC.wAwait b n ci).rank = 2 := rfl
        have r2 : (PC.rAck k acc nr fail chunk).rank = 28 := rfl
        have r3 : (PC.wEnter (b.drop nr) (n + nr) ci).rank = 4 := rfl
        have r4 : (PC.wRet (n + nr) .nil (some ci)).rank = 1 := rfl
        refine ⟨?_, ?_⟩
        · simp only [measure, State.setT]; omega
        · intro x hx; simp only [State.setT]
          have h1 : x ≠ j := by omega
          have h2 : x ≠ i := by omega
          simp [h1, h2, hb x hx]
    next => simp at hs

/-- a run of `k` internal steps -/
inductive IRun : State → Nat → State → Prop where
  | nil {s} : IRun s 0 s
  | cons {s s1 s2 k} : IStep s s1 → IRun s1 k s2 → IRun s (k + 1) s2

/-- every run of internal steps from a closed direction has at most `measure N s` steps -/
theorem run_bounded {N k : Nat} {s s' : State} (run : IRun s k s') (h : Inv s) (hd : s.done = true)
    (hb : Bounded N s) : k + measure N s' ≤ measure N s ∧ Inv s' ∧ s'.done = true ∧ Bounded N s' := by
  induction run with
  | nil => exact ⟨by omega, h, hd, hb⟩
  | cons st _ ih =>
    have d := istep_decreases h hd hb st
    have := ih (inv_step h st.toStep) ((step_keeps st.toStep).1 hd) d.2
    exact ⟨by omega, this.2⟩

end SSV.Pipe
