import SSV.Proofs.RelayLifeProgress
/-
C12: eviction for ALL runs.  Once a session's tear-down has begun (its downlink read failed with the deadline, or its
initialiser failed) the position of I_i in its program only moves forward, whatever else happens (including datagrams of
the same client, other sessions, Stop); I_i can always make its next step, except while it waits for the mutex, whose
holder can then move; once I_i has returned nothing but U_i touches the channel any more, U_i can always move and each of
its steps decreases `q*7 + rank`.  FAIRNESS ASSUMPTION for "the eviction completes": I_i, U_i and the current holder of
the mutex are each scheduled again and again (weak fairness of the Go scheduler, FIFO-ish mutex); then after at most 6
steps of I_i and `q*7+6` steps of U_i the entry is out of the table, the socket is closed and both goroutines have returned.
-/
namespace SSV.RelayLife
variable (cfg : Cfg)

/-- the tear-down of session `e` has begun: I_i is at or past `mu.Lock()` of the deferred clean-up -/
def Entry.tearingDown (e : Entry) : Prop := e.ipc.rank ≤ 6

/-- uplink work left: queued packets and the position in the loop -/
def Entry.uplinkWork (e : Entry) : Nat := e.q * 7 + e.upc.rank

/-- the timer has fired on a blocked downlink: its read fails and the tear-down begins -/
theorem evict_starts {s : State} {i : Nat} (hi : i < s.n) (hp : (s.ent i).ipc = .dRead) (hd : (s.ent i).dl = .past) :
    ∃ s', step cfg s (.dTimeout i) = some s' ∧ (s'.ent i).ipc = .cLock := by
  refine ⟨_, by simp [step, hi, hp, hd]; rfl, ?_⟩
  simp [State.setE]

/-- tear-down is irreversible and only moves forward, under EVERY event (relay, environment, timer) -/
theorem teardown_monotone {s s' : State} (e : Ev) (hs : step cfg s e = some s') {i : Nat} (hi : i < s.n)
    (ht : (s.ent i).tearingDown) : (s'.ent i).ipc.rank ≤ (s.ent i).ipc.rank := by
  unfold Entry.tearingDown at ht
  cases e <;> simp only [step] at hs <;> (repeat' split at hs) <;>
    first
    | (simp at hs; done)
    | (injection hs with hs; subst hs
       simp only [State.setE]
       (repeat' split) <;>
         simp_all [Entry.closeIf, Entry.closeSock, IPc.rank_getClient, IPc.rank_newSession, IPc.rank_listen, IPc.rank_setDl,
           IPc.rank_newPacker, IPc.rank_swap, IPc.rank_spawn, IPc.rank_dProc, IPc.rank_dRead, IPc.rank_cLock, IPc.rank_cClose,
           IPc.rank_cDelete, IPc.rank_cUnlock, IPc.rank_cDrain, IPc.rank_done] <;> omega)

/-- every step of the clean-up moves it strictly forward -/
theorem cleanup_strict {s s' : State} {i : Nat} (hs : step cfg s (.cleanup i) = some s') :
    (s'.ent i).ipc.rank < (s.ent i).ipc.rank := by
  simp only [step] at hs
  (repeat' split at hs) <;>
    first
    | (simp at hs; done)
    | (injection hs with hs; subst hs
       simp only [State.setE]
       (repeat' split) <;>
         simp_all [IPc.rank_cLock, IPc.rank_cClose, IPc.rank_cDelete, IPc.rank_cUnlock, IPc.rank_cDrain, IPc.rank_done])

theorem iter_can_move {s : State} (hs : s.spc = .iter) : ∃ e, e.internal = true ∧ (step cfg s e).isSome = true := by
  by_cases hall : allB s.n (fun i => !s.inTab i || (s.ent i).visited) = true
  · exact ⟨.stop, rfl, by simp [step, hs, hall]⟩
  · obtain ⟨i, hin, hp⟩ := exists_of_not_allB hall
    simp only [Bool.or_eq_false_iff, Bool.not_eq_false'] at hp
    refine ⟨.stopVisit i, rfl, ?_⟩
    simp only [step, hs, hin, hp.1, hp.2, and_self, if_true]
    split <;> simp

/-- whoever holds the mutex can make a step: critical sections never block -/
theorem mutex_holder_moves {s : State} (h : Reachable cfg s) (hm : s.mu ≠ .free) :
    ∃ e, e.internal = true ∧ (step cfg s e).isSome = true := by
  have I := inv1_reachable cfg h
  cases hmu : s.mu with
  | free => exact absurd hmu hm
  | recv =>
    have hh := I.muR.mp hmu
    cases hrp : s.rpc with
    | hold c => exact ⟨.rProc false, rfl, by simp [step, hrp]⟩
    | unlock => exact ⟨.rUnlock, rfl, by simp [step, hrp]⟩
    | read => simp [hrp, RPc.holds] at hh
    | wantLock c => simp [hrp, RPc.holds] at hh
    | done => simp [hrp, RPc.holds] at hh
  | stop =>
    have hh := I.muS.mp hmu
    cases hsp : s.spc with
    | iter => exact iter_can_move cfg hsp
    | pend i => exact ⟨.stop, rfl, by simp [step, hsp]⟩
    | unlock => exact ⟨.stop, rfl, by simp [step, hsp]⟩
    | idle => simp [hsp, SPc.holds] at hh
    | dlServer => simp [hsp, SPc.holds] at hh
    | waitMwg => simp [hsp, SPc.holds] at hh
    | lock => simp [hsp, SPc.holds] at hh
    | waitWg => simp [hsp, SPc.holds] at hh
    | closeSrv => simp [hsp, SPc.holds] at hh
    | done => simp [hsp, SPc.holds] at hh
  | cleanup j =>
    obtain ⟨hj, hc⟩ := (I.muC j).mp hmu
    exact ⟨.cleanup j, rfl, cleanup_enabled_in_crit cfg hj hc⟩

/-- during the tear-down I_i can make its next step, or it waits for the mutex and the holder can make a step -/
theorem teardown_can_move {s : State} (h : Reachable cfg s) {i : Nat} (hi : i < s.n) (ht : (s.ent i).tearingDown)
    (hnd : (s.ent i).ipc ≠ .done) :
    (step cfg s (.cleanup i)).isSome = true ∨
    ((s.ent i).ipc = .cLock ∧ s.mu ≠ .free ∧ ∃ e, e.internal = true ∧ (step cfg s e).isSome = true) := by
  unfold Entry.tearingDown at ht
  cases hp : (s.ent i).ipc <;> simp [hp, IPc.rank] at ht
  · -- cLock
    by_cases hf : s.mu = .free
    · left; simp [step, hi, hp, hf]
    · right; exact ⟨rfl, hf, mutex_holder_moves cfg h hf⟩
  · left; exact cleanup_enabled_in_crit cfg hi (by rw [hp]; rfl)
  · left; exact cleanup_enabled_in_crit cfg hi (by rw [hp]; rfl)
  · left; exact cleanup_enabled_in_crit cfg hi (by rw [hp]; rfl)
  · left; simp [step, hi, hp]
  · exact absurd hp hnd

/-- after I_i has returned: U_i (if it was ever started and has not returned) can always make a step -/
theorem uplink_can_move {s : State} (h : Reachable cfg s) {i : Nat} (hi : i < s.n) (hp : (s.ent i).ipc = .done)
    (hnf : (s.ent i).finished = false) :
    (step cfg s (.uRecv i 1)).isSome = true ∨ (step cfg s (.uStep i)).isSome = true := by
  have hcl : (s.ent i).chClosed = true := (closed_iff_past_close cfg h hi).mpr (by rw [hp]; rfl)
  cases hu : (s.ent i).upc with
  | none => simp [Entry.finished, hp, hu] at hnf
  | done => simp [Entry.finished, hp, hu] at hnf
  | recv =>
    by_cases hq : (s.ent i).q = 0
    · right; simp [step, hi, hu, hq, hcl]
    · left; simp [step, hi, hu]; omega
  | send => right; simp [step, hi, hu]
  | arm => right; simp [step, hi, hu]
  | check => right; simp [step, hi, hu]
  | force => right; simp [step, hi, hu]
  | closeSock => right; simp [step, hi, hu]

/-- after I_i has returned nobody but U_i touches the queue: under EVERY event the uplink's remaining work does not grow
(the receive loop cannot find the entry any more) -/
theorem uplink_work_monotone {s s' : State} (h : Reachable cfg s) (e : Ev) (hs : step cfg s e = some s') {i : Nat} (hi : i < s.n)
    (hp : (s.ent i).ipc = .done) : (s'.ent i).uplinkWork ≤ (s.ent i).uplinkWork := by
  have hnt := deleted_not_in_table cfg h hi (by rw [hp]; rfl)
  have htab := (inv1_reachable cfg h).tab
  unfold Entry.uplinkWork
  cases e <;> simp only [step] at hs <;> (repeat' split at hs) <;>
    first
    | (simp at hs; done)
    | (injection hs with hs; subst hs
       simp only [State.setE]
       (repeat' split) <;>
         simp_all [Entry.closeIf, Entry.closeSock, UPc.rank_none, UPc.rank_send, UPc.rank_arm, UPc.rank_check, UPc.rank_force,
           UPc.rank_recv, UPc.rank_closeSock, UPc.rank_done] <;>
         first | omega | (split <;> omega) | grind)

/-- the steps of U_i strictly decrease its remaining work -/
theorem uplink_step_strict {s s' : State} {i : Nat} (e : Ev) (he : e = .uStep i ∨ e = .uFail i ∨ ∃ k, e = .uRecv i k)
    (hs : step cfg s e = some s') : (s'.ent i).uplinkWork < (s.ent i).uplinkWork := by
  unfold Entry.uplinkWork
  rcases he with rfl | rfl | ⟨k, rfl⟩ <;> simp only [step] at hs <;> (repeat' split at hs) <;>
    first
    | (simp at hs; done)
    | (injection hs with hs; subst hs
       simp only [State.setE]
       (repeat' split) <;>
         simp_all [Entry.closeIf, Entry.closeSock, UPc.rank_none, UPc.rank_send, UPc.rank_arm, UPc.rank_check, UPc.rank_force,
           UPc.rank_recv, UPc.rank_closeSock, UPc.rank_done] <;>
         first | omega | (split <;> omega))

/-- every initialiser call returns (the model's assumption on in-flight work), with either outcome -/
theorem init_always_returns {s : State} {i : Nat} (hi : i < s.n) (hp : 9 ≤ (s.ent i).ipc.rank) (ok : Bool) :
    (step cfg s (.init i ok)).isSome = true := by
  cases hipc : (s.ent i).ipc <;> simp [hipc, IPc.rank] at hp <;> simp [step, hi, hipc]
  split <;> simp

/-- unless Stop has visited the entry, the initialiser's swap finds `nil` and the session starts -/
theorem swap_succeeds_unless_stopping {s s' : State} (h : Reachable cfg s) {i : Nat} (hi : i < s.n)
    (hp : (s.ent i).ipc = .swap) (hv : (s.ent i).visited = false) (hnp : s.spc ≠ .pend i) (ok : Bool)
    (hs : step cfg s (.init i ok) = some s') : (s'.ent i).ipc = .spawn ∧ (s'.ent i).clean = true ∧ (s'.ent i).st = .nat := by
  have A := inv3a_reachable cfg h
  have B := inv3b_reachable cfg h
  have hst : (s.ent i).st = .nil := by
    rcases B.e0 i hi hv hnp with ⟨h1, _⟩ | ⟨_, h2⟩
    · exact h1
    · have := A.u2 i hi h2; rw [hp] at this; simp [IPc.idx] at this
  simp [step, hi, hp, hst] at hs
  subst hs
  simp [State.setE]

end SSV.RelayLife
