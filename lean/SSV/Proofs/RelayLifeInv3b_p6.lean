import SSV.Proofs.RelayLifeInv3d
namespace SSV.RelayLife
variable (cfg : Cfg)

theorem inv3b_arrive (s s' : State) (c : Nat) (h1 : Inv1 s) (ha : Inv3a s) (hd : Inv3d s) (hI : Inv3b cfg s) (h : step cfg s (.arrive c) = some s') : Inv3b cfg s' := by
  have a5 := h1.tab
  have a6 := h1.inTab
  clear h1
  obtain ⟨k1,u2,u3,g5,gp⟩ := ha
  obtain ⟨u1⟩ := hd
  obtain ⟨e0,e1,e2,g9⟩ := hI
  simp only [step] at h
  (repeat' split at h) <;> close_case3

theorem inv3b_rLock (s s' : State)  (h1 : Inv1 s) (ha : Inv3a s) (hd : Inv3d s) (hI : Inv3b cfg s) (h : step cfg s (.rLock ) = some s') : Inv3b cfg s' := by
  have a5 := h1.tab
  have a6 := h1.inTab
  clear h1
  obtain ⟨k1,u2,u3,g5,gp⟩ := ha
  obtain ⟨u1⟩ := hd
  obtain ⟨e0,e1,e2,g9⟩ := hI
  simp only [step] at h
  (repeat' split at h) <;> close_case3

theorem inv3b_rMore (s s' : State) (c : Nat) (h1 : Inv1 s) (ha : Inv3a s) (hd : Inv3d s) (hI : Inv3b cfg s) (h : step cfg s (.rMore c) = some s') : Inv3b cfg s' := by
  have a5 := h1.tab
  have a6 := h1.inTab
  clear h1
  obtain ⟨k1,u2,u3,g5,gp⟩ := ha
  obtain ⟨u1⟩ := hd
  obtain ⟨e0,e1,e2,g9⟩ := hI
  simp only [step] at h
  (repeat' split at h) <;> close_case3

theorem inv3b_rUnlock (s s' : State)  (h1 : Inv1 s) (ha : Inv3a s) (hd : Inv3d s) (hI : Inv3b cfg s) (h : step cfg s (.rUnlock ) = some s') : Inv3b cfg s' := by
  have a5 := h1.tab
  have a6 := h1.inTab
  clear h1
  obtain ⟨k1,u2,u3,g5,gp⟩ := ha
  obtain ⟨u1⟩ := hd
  obtain ⟨e0,e1,e2,g9⟩ := hI
  simp only [step] at h
  (repeat' split at h) <;> close_case3


end SSV.RelayLife
