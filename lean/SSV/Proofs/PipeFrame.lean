import SSV.Proofs.PipeStable
/-
C15 — frame facts: which threads' pcs a step can change.
-/
namespace SSV.Pipe

theorem withErr_thr {s : State} {f : Err → State} {k : Nat} (hf : ∀ e, (f e).thr k = s.thr k) :
    (withErr s f).thr k = s.thr k := by
  unfold withErr; split
  · exact hf _
  · rfl

theorem local_frame {s s' : State} {i k : Nat} (hs : s' ∈ localSteps s i) (hk : k ≠ i) : s'.thr k = s.thr k := by
  unfold localSteps at hs
  split at hs
  case h_4 =>
    rcases mem_selSteps hs with h | h <;> split at h <;> simp at h <;> subst h <;>
      first
        | exact withErr_thr (by intro e; simp [State.setT, hk])
        | simp [State.setT, hk]
  case h_9 =>
    rcases mem_selSteps hs with h | h <;> split at h <;> simp at h <;> subst h <;>
      first
        | exact withErr_thr (by intro e; simp [State.setT, hk])
        | simp [State.setT, hk]
  all_goals
    first
      | (simp at hs; done)
      | (split at hs <;> simp at hs <;> subst hs <;>
          first
            | exact withErr_thr (by intro e; (repeat' split) <;> simp [State.setT, hk])
            | simp [State.setT, hk])
      | (simp at hs; subst hs; split <;> simp [State.setT, hk])
      | (simp at hs; subst hs; simp [State.setT, hk])

theorem data_frame {s s' : State} {i j k : Nat} (hs : data s i j = some s') (hi : k ≠ i) (hj : k ≠ j) :
    s'.thr k = s.thr k := by
  unfold data at hs; split at hs
  · split at hs <;> simp at hs; subst hs; simp [State.setT, hi, hj]
  · simp at hs

theorem count_frame {s s' : State} {i j k : Nat} (hs : count s i j = some s') (hi : k ≠ i) (hj : k ≠ j) :
    s'.thr k = s.thr k := by
  unfold count at hs; split at hs
  · split at hs
    · simp at hs; subst hs; rfl
    · simp only [Option.some.injEq] at hs; subst hs; split <;> simp [State.setT, hi, hj]
  · simp at hs

/-- a step either leaves thread `j` alone or is a step in which `j` takes part -/
theorem step_thr_cases {s s' : State} (st : Step s s') (j : Nat) :
    s'.thr j = s.thr j ∨ (∃ op, start s j op = some s') ∨ finish s j = some s' ∨ s' ∈ localSteps s j ∨
    (∃ i, data s i j = some s' ∨ data s j i = some s' ∨ count s i j = some s' ∨ count s j i = some s') := by
  cases st with
  | start i op hs =>
    by_cases h : j = i
    · subst h; exact Or.inr (Or.inl ⟨op, hs⟩)
    · left; unfold start at hs; split at hs <;> simp at hs; subst hs; simp [State.setT, h]
  | finish i hs =>
    by_cases h : j = i
    · subst h; exact Or.inr (Or.inr (Or.inl hs))
    · left; unfold finish at hs; split at hs <;> simp at hs <;> subst hs <;> simp [State.setT, h]
  | fire w hs =>
    left; unfold fire at hs
    cases w <;> simp at hs <;> obtain ⟨_, hs⟩ := hs <;> split at hs <;> simp at hs <;> subst hs <;> rfl
  | loc i hs =>
    by_cases h : j = i
    · subst h; exact Or.inr (Or.inr (Or.inr (Or.inl hs)))
    · exact Or.inl (local_frame hs h)
  | data a b hs =>
    by_cases ha : j = a
    · subst ha; exact Or.inr (Or.inr (Or.inr (Or.inr ⟨b, Or.inr (Or.inl hs)⟩)))
    · by_cases hb : j = b
      · subst hb; exact Or.inr (Or.inr (Or.inr (Or.inr ⟨a, Or.inl hs⟩)))
      · exact Or.inl (data_frame hs ha hb)
  | count a b hs =>
    by_cases ha : j = a
    · subst ha; exact Or.inr (Or.inr (Or.inr (Or.inr ⟨b, Or.inr (Or.inr (Or.inr hs))⟩)))
    · by_cases hb : j = b
      · subst hb; exact Or.inr (Or.inr (Or.inr (Or.inr ⟨a, Or.inr (Or.inr (Or.inl hs))⟩)))
      · exact Or.inl (count_frame hs ha hb)

end SSV.Pipe
