import SSV.Proofs.SaltPool
/-
Helper lemmas for C03, part 3: the ordering invariant of the pool, invisibility of forged presentations.
-/
namespace SSV.SaltPool

/-- expiry order = insertion order -/
def Sorted (p : Pool) : Prop := p.Pairwise (fun a b => a.expiresAt ≤ b.expiresAt)

/-- Well-formed state: the list is sorted by expiry, no expiry lies further than one window ahead of the clock,
and no salt occurs twice (so the code's map `nodeBySalt` and its linked list hold the same nodes). -/
structure WF (P : Params) (st : State) : Prop where
  sorted : Sorted st.pool
  bound : ∀ n ∈ st.pool, n.expiresAt ≤ st.now + P.window
  nodup : (st.pool.map (·.salt)).Nodup

theorem wf_empty (P : Params) (t : Nat) : WF P { now := t, pool := [] } :=
  ⟨List.Pairwise.nil, by simp, by simp⟩

/-- under the ordering invariant pruning is complete: nothing expired stays -/
theorem prune_complete {now : Nat} {p : Pool} (hs : Sorted p) : ∀ n ∈ pruneExpired now p, now < n.expiresAt := by
  induction p with
  | nil => simp [pruneExpired]
  | cons m rest ih =>
    unfold pruneExpired
    have hs' := List.pairwise_cons.mp hs
    split
    · rename_i hm
      intro n hn
      rcases List.mem_cons.mp hn with rfl | hn
      · exact hm
      · have := hs'.1 n hn; omega
    · exact ih hs'.2

theorem wf_add {P : Params} {now : Nat} {s : Salt} {p : Pool} (h : WF P { now := now, pool := p }) :
    WF P { now := now, pool := (add P now s p).1 } := by
  have hsuf := pruneExpired_suffix now p
  have hsub := hsuf.sublist
  have hS : Sorted (pruneExpired now p) := List.Pairwise.sublist hsub h.sorted
  have hB : ∀ n ∈ pruneExpired now p, n.expiresAt ≤ now + P.window := fun n hn => h.bound n (hsuf.subset hn)
  have hN : ((pruneExpired now p).map (·.salt)).Nodup := List.Nodup.sublist (List.Sublist.map _ hsub) h.nodup
  rcases add_fst_cases P now s p with ⟨_, h1, _⟩ | ⟨_, h1, hc⟩
  · exact ⟨by rw [h1]; exact hS, by rw [h1]; exact hB, by rw [h1]; exact hN⟩
  · refine ⟨?_, ?_, ?_⟩
    · show Sorted (add P now s p).1
      rw [h1]
      refine List.pairwise_append.mpr ⟨hS, List.pairwise_singleton _ _, ?_⟩
      intro a ha b hb
      rw [List.mem_singleton.mp hb]
      exact hB a ha
    · intro n hn
      change n ∈ (add P now s p).1 at hn
      rw [h1] at hn
      rcases List.mem_append.mp hn with hn | hn
      · exact hB n hn
      · rw [List.mem_singleton.mp hn]; exact Nat.le_refl _
    · show ((add P now s p).1.map (·.salt)).Nodup
      rw [h1, List.map_append, List.map_singleton]
      refine List.nodup_append.mpr ⟨hN, (by simp), ?_⟩
      intro a ha b hb
      rw [List.mem_singleton.mp hb]
      intro hab
      obtain ⟨n, hn, hns⟩ := List.mem_map.mp ha
      have : contains (pruneExpired now p) s = true := (contains_iff _ _).mpr ⟨n, hn, by rw [hns, hab]⟩
      rw [hc] at this; cases this

theorem wf_step {P : Params} {st : State} (o : Op) (h : WF P st) : WF P (step P st o).1 := by
  cases o with
  | advance d => exact ⟨h.sorted, fun n hn => by have := h.bound n hn; simp [step]; omega, h.nodup⟩
  | present r c =>
    rcases handle_pool P c st.now r st.pool with hp | ⟨_, _, _, hp⟩
    · have : (step P st (.present r c)).1 = st := by simp [step, hp]
      rw [this]; exact h
    · have : (step P st (.present r c)).1 = { now := st.now, pool := (add P st.now r.salt st.pool).1 } := by simp [step, hp]
      rw [this]; exact wf_add h

theorem wf_run {P : Params} {st : State} (ops : List Op) (h : WF P st) : WF P (run P st ops) := by
  induction ops generalizing st with
  | nil => exact h
  | cons o ops ih => exact ih (wf_step o h)

/-! ### forged presentations are invisible -/

theorem step_forged {P : Params} {st : State} {r : Request} {c : Bool} (h : r.forged = true) :
    (step P st (.present r c)).1 = st := by
  rcases handle_pool P c st.now r st.pool with hp | ⟨_, hf, _, _⟩
  · simp [step, hp]
  · rw [h] at hf; cases hf

theorem isForged_advance (d : Nat) : (Op.advance d).isForged = false := rfl
theorem isForged_present (r : Request) (c : Bool) : (Op.present r c).isForged = r.forged := rfl

theorem run_filter_forged (P : Params) (st : State) (ops : List Op) :
    run P st (ops.filter (fun o => !o.isForged)) = run P st ops := by
  induction ops generalizing st with
  | nil => rfl
  | cons o ops ih =>
    cases o with
    | advance d =>
      simp only [List.filter_cons, isForged_advance, Bool.not_false, if_true, run]
      exact ih _
    | present r c =>
      cases hf : r.forged
      · simp only [List.filter_cons, isForged_present, hf, Bool.not_false, if_true, run]
        exact ih _
      · simp only [List.filter_cons, isForged_present, hf, Bool.not_true, Bool.false_eq_true, if_false, run,
          step_forged hf]
        exact ih _

theorem runLog_filter_forged (P : Params) (st : State) (ops : List Op) :
    runLog P st (ops.filter (fun o => !o.isForged)) = (runLog P st ops).filter (fun e => !e.req.forged) := by
  induction ops generalizing st with
  | nil => rfl
  | cons o ops ih =>
    cases o with
    | advance d =>
      simp only [List.filter_cons, isForged_advance, Bool.not_false, if_true, runLog, step]
      exact ih _
    | present r c =>
      cases hf : r.forged
      · simp only [List.filter_cons, isForged_present, hf, Bool.not_false, if_true, runLog, step]
        rw [ih]
      · have hs := step_forged (P := P) (st := st) (c := c) hf
        simp only [step] at hs
        simp only [List.filter_cons, isForged_present, hf, Bool.not_true, Bool.false_eq_true, if_false, runLog, step, hs]
        exact ih _

end SSV.SaltPool
