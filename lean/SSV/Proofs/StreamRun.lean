import SSV.Proofs.StreamReader
/-
Schedules: any sequence of reader calls on an in-sync reader delivers the stream, in order, each
byte once, and reports end of stream only when everything has been delivered.
-/
namespace SSV.Stream
open SSV.Gen.C01

/-- `Delivers stream outs`: the outcomes hand over consecutive pieces of `stream`, none reports an
error other than end of stream, and one that reports the end of the stream has exhausted it. -/
def Delivers : Bytes → List ROut → Prop
  | _, [] => True
  | stream, o :: os =>
    (o.err = none ∨ o.err = some .eof) ∧
    ∃ rest, stream = o.bytes ++ rest ∧ (o.sawEnd = true → rest = []) ∧ Delivers rest os

theorem run_ok {C : Crypto} (hC : AeadOK C) (ops : List ROp) :
    ∀ (r : Reader) (cs : List Bytes), Sync C r cs →
      (r.run C ops).length = ops.length ∧ Delivers (pending r cs) (r.run C ops) := by
  induction ops with
  | nil => intro r cs _; simp [Reader.run, Delivers]
  | cons op ops ih =>
    intro r cs hs
    obtain ⟨cs', h⟩ := step_ok hC r cs hs op
    have ih' := ih (r.step C op).2 cs' h.sync
    have hrun : r.run C (op :: ops) = (r.step C op).1 :: (r.step C op).2.run C ops := by
      simp only [Reader.run]
      rcases h.noErr with he | he <;> simp [he]
    rw [hrun]
    refine ⟨by simp [ih'.1], h.noErr, pending (r.step C op).2 cs', h.split, h.atEnd, ih'.2⟩

/-- the bytes delivered by a schedule form a prefix of the stream -/
theorem Delivers.prefix {stream : Bytes} {outs : List ROut} (h : Delivers stream outs) :
    ∃ rest, stream = (outs.map ROut.bytes).flatten ++ rest := by
  induction outs generalizing stream with
  | nil => exact ⟨stream, by simp⟩
  | cons o os ih =>
    obtain ⟨_, rest, hs, _, hd⟩ := h
    obtain ⟨rest', hr⟩ := ih hd
    exact ⟨rest', by simp [hs, hr]⟩

/-- once an outcome reports the end of the stream, everything has been delivered by then and
nothing is delivered afterwards -/
theorem Delivers.complete {stream : Bytes} {outs : List ROut} (h : Delivers stream outs)
    (pre : List ROut) (o : ROut) (post : List ROut) (he : outs = pre ++ o :: post) (hend : o.sawEnd = true) :
    stream = (pre.map ROut.bytes).flatten ++ o.bytes ∧ (post.map ROut.bytes).flatten = [] := by
  induction pre generalizing stream outs with
  | nil =>
    subst he
    obtain ⟨_, rest, hs, hr, hd⟩ := h
    have := hr hend
    subst this
    obtain ⟨rest', hp⟩ := hd.prefix
    have hnil : (post.map ROut.bytes).flatten = [] := by
      have : ([] : Bytes) = (post.map ROut.bytes).flatten ++ rest' := hp
      exact (List.append_eq_nil_iff.mp this.symm).1
    exact ⟨by simpa using hs, hnil⟩
  | cons q qs ih =>
    subst he
    obtain ⟨_, rest, hs, _, hd⟩ := h
    obtain ⟨h1, h2⟩ := ih hd rfl
    exact ⟨by simp [hs, h1], h2⟩

end SSV.Stream

namespace SSV.Stream
open SSV.Gen.C01

/-- the bytes a `ReadFrom` takes from its source: everything the source hands over up to and
including the first result that carries an error (`io.EOF` or any other) -/
def Src.taken : Src → Bytes
  | [] => []
  | it :: rest =>
    match it.err with
    | none => it.data ++ Src.taken rest
    | some _ => it.data

/-- the error `ReadFrom` returns: the first error the source reports, `io.EOF` (also the implicit one
of an exhausted source) being the normal end -/
def Src.firstErr : Src → Option Err
  | [] => none
  | it :: rest =>
    match it.err with
    | none => Src.firstErr rest
    | some .eof => none
    | some e => some e

/-- the `ReadFrom` loop writes exactly the bytes the source handed over — also those returned together
with an error — in chunks within the limit. Depends on the regenerated fact `readFromHandlesDataFirst`. -/
theorem readFromLoop_spec (cap : Nat) (hc0 : 0 < cap) :
    ∀ (fuel : Nat) (s : Src) (acc : List Bytes), s.size < fuel →
      ∃ new, (readFromLoop cap fuel s acc).1 = acc.reverse ++ new ∧ new.flatten = s.taken ∧
        (∀ p ∈ new, p.length ≠ 0 ∧ p.length ≤ cap) ∧ (readFromLoop cap fuel s acc).2.1 = s.firstErr := by
  have hf : readFromHandlesDataFirst = true := by decide
  intro fuel
  induction fuel with
  | zero => intro s acc h; omega
  | succ f ih =>
    intro s acc hsz
    cases s with
    | nil => exact ⟨[], by simp [readFromLoop, Src.read], rfl, by simp, by simp [readFromLoop, Src.read, Src.firstErr]⟩
    | cons it rest =>
      by_cases hle : it.data.length ≤ cap
      · have hrd : Src.read cap (it :: rest) = ((it.data, it.err), rest) := by simp [Src.read, hle]
        cases herr : it.err with
        | some e =>
          by_cases h0 : it.data.length > 0
          · refine ⟨[it.data], ?_, by simp [Src.taken, herr], ?_, ?_⟩
            · cases e <;> simp [readFromLoop, hrd, herr, hf, h0]
            · intro p hp; simp at hp; subst hp; exact ⟨by omega, hle⟩
            · cases e <;> simp [readFromLoop, hrd, herr, hf, h0, Src.firstErr]
          · have hnil : it.data = [] := List.length_eq_zero_iff.mp (by omega)
            refine ⟨[], ?_, by simp [Src.taken, herr, hnil], by simp, ?_⟩
            · cases e <;> simp [readFromLoop, hrd, herr, hf, h0]
            · cases e <;> simp [readFromLoop, hrd, herr, hf, h0, Src.firstErr]
        | none =>
          have hsz' : Src.size rest < f := by simp [Src.size] at hsz; omega
          by_cases h0 : it.data.length > 0
          · obtain ⟨new, h1, h2, h3, h4⟩ := ih rest (it.data :: acc) hsz'
            refine ⟨it.data :: new, ?_, by simp [Src.taken, herr, h2], ?_, ?_⟩
            · simp [readFromLoop, hrd, herr, hf, h0, h1]
            · intro p hp
              rcases List.mem_cons.mp hp with rfl | hp
              · exact ⟨by omega, hle⟩
              · exact h3 p hp
            · simpa [readFromLoop, hrd, herr, hf, h0, Src.firstErr] using h4
          · have hnil : it.data = [] := List.length_eq_zero_iff.mp (by omega)
            obtain ⟨new, h1, h2, h3, h4⟩ := ih rest acc hsz'
            refine ⟨new, ?_, by simp [Src.taken, herr, h2, hnil], h3, ?_⟩
            · simp [readFromLoop, hrd, herr, hf, h0, h1]
            · simpa [readFromLoop, hrd, herr, hf, h0, Src.firstErr] using h4
      · have hgt : cap < it.data.length := by omega
        have hrd : Src.read cap (it :: rest) = ((it.data.take cap, none), { it with data := it.data.drop cap } :: rest) := by
          simp [Src.read, hle]
        have h0 : 0 < min cap it.data.length := by omega
        have hsz' : Src.size ({ it with data := it.data.drop cap } :: rest) < f := by
          simp only [Src.size, List.length_drop] at hsz ⊢; omega
        obtain ⟨new, h1, h2, h3, h4⟩ := ih _ (it.data.take cap :: acc) hsz'
        refine ⟨it.data.take cap :: new, ?_, ?_, ?_, ?_⟩
        · simp [readFromLoop, hrd, hf, h0, h1]
        · simp only [List.flatten_cons, h2, Src.taken]
          cases it.err with
          | none => simp only []; rw [← List.append_assoc, List.take_append_drop]
          | some e => simp only []; rw [List.take_append_drop]
        · intro p hp
          rcases List.mem_cons.mp hp with rfl | hp
          · exact ⟨by simp only [List.length_take]; omega, by simp only [List.length_take]; omega⟩
          · exact h3 p hp
        · have hfe : Src.firstErr ({ it with data := it.data.drop cap } :: rest) = Src.firstErr (it :: rest) := by
            simp [Src.firstErr]
          rw [← hfe]
          simpa [readFromLoop, hrd, hf, h0] using h4

/-- one call on the writing side of a `ShadowStreamConn` -/
inductive WCall
  /-- `Write(b)` -/
  | write (b : Bytes)
  /-- `ReadFrom(r)` with a scripted source: short reads of every size, `(0, nil)` reads, data
  returned together with `io.EOF` or with another error -/
  | readFrom (src : Src)

def WCall.chunks : WCall → List Bytes
  | .write b => writeChunks b
  | .readFrom src => (connReadFrom src).1

/-- the bytes the call takes from its caller / source -/
def WCall.data : WCall → Bytes
  | .write b => b
  | .readFrom src => src.taken

theorem connReadFrom_spec (src : Src) :
    ValidChunks (connReadFrom src).1 ∧ (connReadFrom src).1.flatten = src.taken ∧ (connReadFrom src).2.1 = src.firstErr := by
  obtain ⟨new, h1, h2, h3, h4⟩ := readFromLoop_spec streamMaxPayloadSize (by decide) (src.size + 1) src [] (by omega)
  simp only [List.reverse_nil, List.nil_append] at h1
  exact ⟨by rw [connReadFrom, h1]; exact h3, by rw [connReadFrom, h1]; exact h2, h4⟩

theorem calls_valid (calls : List WCall) : ValidChunks (calls.flatMap WCall.chunks) := by
  induction calls with
  | nil => exact ValidChunks.nil
  | cons c cs ih =>
    simp only [List.flatMap_cons]
    refine ValidChunks.append ?_ ih
    cases c with
    | write b => exact writeChunks_valid b
    | readFrom src => exact (connReadFrom_spec src).1

theorem calls_flatten (calls : List WCall) :
    (calls.flatMap WCall.chunks).flatten = (calls.map WCall.data).flatten := by
  induction calls with
  | nil => rfl
  | cons c cs ih =>
    simp only [List.flatMap_cons, List.flatten_append, List.map_cons, List.flatten_cons, ih]
    cases c with
    | write b => simp [WCall.chunks, WCall.data, writeChunks_flatten]
    | readFrom src => simp [WCall.chunks, WCall.data, (connReadFrom_spec src).2.1]

/-- the reader state after a schedule (for `nonce_lockstep`) -/
def Reader.after (C : Crypto) : Reader → List ROp → Reader
  | r, [] => r
  | r, op :: ops => Reader.after C (r.step C op).2 ops

theorem after_sync {C : Crypto} (hC : AeadOK C) (ops : List ROp) :
    ∀ (r : Reader) (cs : List Bytes), Sync C r cs →
      ∃ cs', Sync C (r.after C ops) cs' ∧ (r.after C ops).key = r.key ∧
        (r.after C ops).nonce + 2 * cs'.length = r.nonce + 2 * cs.length := by
  induction ops with
  | nil => intro r cs hs; exact ⟨cs, hs, rfl, rfl⟩
  | cons op ops ih =>
    intro r cs hs
    obtain ⟨cs1, h⟩ := step_ok hC r cs hs op
    obtain ⟨cs2, h2, hk, hn⟩ := ih _ cs1 h.sync
    exact ⟨cs2, h2, by rw [Reader.after, hk, h.key], by rw [Reader.after, hn, h.nonce]⟩

/-! ### `io.ReadFull` sees only the concatenation of the segments -/

theorem readFullSeg_flat (segs : List Bytes) : ∀ (n got : Nat),
    (n ≤ segs.flatten.length →
      ∃ segs', readFullSeg n got segs = .ok (segs.flatten.take n, segs') ∧ segs'.flatten = segs.flatten.drop n) ∧
    (segs.flatten.length < n →
      readFullSeg n got segs = .error (if got = 0 ∧ segs.flatten.length = 0 then .eof else .unexpectedEOF)) := by
  induction segs with
  | nil =>
    intro n got
    cases n with
    | zero => simp [readFullSeg]
    | succ n => simp [readFullSeg]; split <;> simp_all
  | cons s rest ih =>
    intro n got
    cases n with
    | zero => simp [readFullSeg]
    | succ n =>
      by_cases hs0 : s.length = 0
      · have hs : s = [] := List.length_eq_zero_iff.mp hs0
        subst hs
        have := ih (n + 1) got
        simpa [readFullSeg] using this
      · by_cases hle : n + 1 ≤ s.length
        · refine ⟨fun _ => ⟨s.drop (n + 1) :: rest, ?_, ?_⟩, fun h => ?_⟩
          · simp [readFullSeg, hs0, hle, List.take_append_of_le_length hle]
          · simp [List.drop_append_of_le_length hle]
          · simp at h; omega
        · have hlt : s.length < n + 1 := by omega
          have := ih (n + 1 - s.length) (got + s.length)
          refine ⟨fun h => ?_, fun h => ?_⟩
          · simp only [List.flatten_cons, List.length_append] at h
            obtain ⟨segs', e, hf⟩ := this.1 (by omega)
            refine ⟨segs', ?_, ?_⟩
            · rw [readFullSeg]
              simp only [hs0, ↓reduceIte, hle, e, List.flatten_cons]
              rw [List.take_append, List.take_of_length_le (l := s) (by omega)]
            · rw [hf, List.flatten_cons, List.drop_append, List.drop_of_length_le (l := s) (by omega)]
              simp
          · simp only [List.flatten_cons, List.length_append] at h
            have e := this.2 (by omega)
            rw [readFullSeg]
            simp only [hs0, ↓reduceIte, hle, e, List.flatten_cons, List.length_append]
            have : ¬ (got + s.length = 0 ∧ rest.flatten.length = 0) := by omega
            have : ¬ (got = 0 ∧ s.length + rest.flatten.length = 0) := by omega
            simp [*]

end SSV.Stream
