import SSV.Proofs.StreamReader
/-
Schedules: any sequence of reader calls on an in-sync reader delivers the stream, in order, each
byte once, and reports end of stream only when everything has been delivered.
-/
namespace SSV.Stream
open SSV.Gen.C01

/-- `Delivers stream outs`: the outcomes hand over consecutive pieces of `stream`, none reports an
error other than end of stream, and one that reports the end of the stream has exhausted it. -/
def Delivers : Bytes → List ROut → Prop
  | _, [] => True
  | stream, o :: os =>
    (o.err = none ∨ o.err = some .eof) ∧
    ∃ rest, stream = o.bytes ++ rest ∧ (o.sawEnd = true → rest = []) ∧ Delivers rest os

theorem run_ok {C : Crypto} (hC : AeadOK C) (ops : List ROp) :
    ∀ (r : Reader) (cs : List Bytes), Sync C r cs →
      (r.run C ops).length = ops.length ∧ Delivers (pending r cs) (r.run C ops) := by
  induction ops with
  | nil => intro r cs _; simp [Reader.run, Delivers]
  | cons op ops ih =>
    intro r cs hs
    obtain ⟨cs', h⟩ := step_ok hC r cs hs op
    have ih' := ih (r.step C op).2 cs' h.sync
    have hrun : r.run C (op :: ops) = (r.step C op).1 :: (r.step C op).2.run C ops := by
      simp only [Reader.run]
      rcases h.noErr with he | he <;> simp [he]
    rw [hrun]
    refine ⟨by simp [ih'.1], h.noErr, pending (r.step C op).2 cs', h.split, h.atEnd, ih'.2⟩

/-- the bytes delivered by a schedule form a prefix of the stream -/
theorem Delivers.prefix {stream : Bytes} {outs : List ROut} (h : Delivers stream outs) :
    ∃ rest, stream = (outs.map ROut.bytes).flatten ++ rest := by
  induction outs generalizing stream with
  | nil => exact ⟨stream, by simp⟩
  | cons o os ih =>
    obtain ⟨_, rest, hs, _, hd⟩ := h
    obtain ⟨rest', hr⟩ := ih hd
    exact ⟨rest', by simp [hs, hr]⟩

/-- once an outcome reports the end of the stream, everything has been delivered by then and
nothing is delivered afterwards -/
theorem Delivers.complete {stream : Bytes} {outs : List ROut} (h : Delivers stream outs)
    (pre : List ROut) (o : ROut) (post : List ROut) (he : outs = pre ++ o :: post) (hend : o.sawEnd = true) :
    stream = (pre.map ROut.bytes).flatten ++ o.bytes ∧ (post.map ROut.bytes).flatten = [] := by
  induction pre generalizing stream outs with
  | nil =>
    subst he
    obtain ⟨_, rest, hs, hr, hd⟩ := h
    have := hr hend
    subst this
    obtain ⟨rest', hp⟩ := hd.prefix
    have hnil : (post.map ROut.bytes).flatten = [] := by
      have : ([] : Bytes) = (post.map ROut.bytes).flatten ++ rest' := hp
      exact (List.append_eq_nil_iff.mp this.symm).1
    exact ⟨by simpa using hs, hnil⟩
  | cons q qs ih =>
    subst he
    obtain ⟨_, rest, hs, _, hd⟩ := h
    obtain ⟨h1, h2⟩ := ih hd rfl
    exact ⟨by simp [hs, h1], h2⟩

end SSV.Stream

namespace SSV.Stream
open SSV.Gen.C01

/-- one call on the writing side of a `ShadowStreamConn` -/
inductive WCall
  /-- `Write(b)` -/
  | write (b : Bytes)
  /-- `ReadFrom(r)` with a source that returns these pieces (a piece longer than the buffer is
  returned in several reads) -/
  | readFrom (pieces : List Bytes)

def WCall.chunks : WCall → List Bytes
  | .write b => writeChunks b
  | .readFrom ps => readFromChunks streamMaxPayloadSize ps

def WCall.data : WCall → Bytes
  | .write b => b
  | .readFrom ps => ps.flatten

theorem calls_valid (calls : List WCall) : ValidChunks (calls.flatMap WCall.chunks) := by
  induction calls with
  | nil => exact ValidChunks.nil
  | cons c cs ih =>
    simp only [List.flatMap_cons]
    refine ValidChunks.append ?_ ih
    cases c with
    | write b => exact writeChunks_valid b
    | readFrom ps => exact readFromChunks_valid _ (by decide) (Nat.le_refl _) ps

theorem calls_flatten (calls : List WCall) :
    (calls.flatMap WCall.chunks).flatten = (calls.map WCall.data).flatten := by
  induction calls with
  | nil => rfl
  | cons c cs ih =>
    simp only [List.flatMap_cons, List.flatten_append, List.map_cons, List.flatten_cons, ih]
    cases c with
    | write b => simp [WCall.chunks, WCall.data, writeChunks_flatten]
    | readFrom ps => simp [WCall.chunks, WCall.data, readFromChunks_flatten]

/-- the reader state after a schedule (for `nonce_lockstep`) -/
def Reader.after (C : Crypto) : Reader → List ROp → Reader
  | r, [] => r
  | r, op :: ops => Reader.after C (r.step C op).2 ops

theorem after_sync {C : Crypto} (hC : AeadOK C) (ops : List ROp) :
    ∀ (r : Reader) (cs : List Bytes), Sync C r cs →
      ∃ cs', Sync C (r.after C ops) cs' ∧ (r.after C ops).key = r.key ∧
        (r.after C ops).nonce + 2 * cs'.length = r.nonce + 2 * cs.length := by
  induction ops with
  | nil => intro r cs hs; exact ⟨cs, hs, rfl, rfl⟩
  | cons op ops ih =>
    intro r cs hs
    obtain ⟨cs1, h⟩ := step_ok hC r cs hs op
    obtain ⟨cs2, h2, hk, hn⟩ := ih _ cs1 h.sync
    exact ⟨cs2, h2, by rw [Reader.after, hk, h.key], by rw [Reader.after, hn, h.nonce]⟩

/-! ### `io.ReadFull` sees only the concatenation of the segments -/

theorem readFullSeg_flat (segs : List Bytes) : ∀ (n got : Nat),
    (n ≤ segs.flatten.length →
      ∃ segs', readFullSeg n got segs = .ok (segs.flatten.take n, segs') ∧ segs'.flatten = segs.flatten.drop n) ∧
    (segs.flatten.length < n →
      readFullSeg n got segs = .error (if got = 0 ∧ segs.flatten.length = 0 then .eof else .unexpectedEOF)) := by
  induction segs with
  | nil =>
    intro n got
    cases n with
    | zero => simp [readFullSeg]
    | succ n => simp [readFullSeg]; split <;> simp_all
  | cons s rest ih =>
    intro n got
    cases n with
    | zero => simp [readFullSeg]
    | succ n =>
      by_cases hs0 : s.length = 0
      · have hs : s = [] := List.length_eq_zero_iff.mp hs0
        subst hs
        have := ih (n + 1) got
        simpa [readFullSeg] using this
      · by_cases hle : n + 1 ≤ s.length
        · refine ⟨fun _ => ⟨s.drop (n + 1) :: rest, ?_, ?_⟩, fun h => ?_⟩
          · simp [readFullSeg, hs0, hle, List.take_append_of_le_length hle]
          · simp [List.drop_append_of_le_length hle]
          · simp at h; omega
        · have hlt : s.length < n + 1 := by omega
          have := ih (n + 1 - s.length) (got + s.length)
          refine ⟨fun h => ?_, fun h => ?_⟩
          · simp only [List.flatten_cons, List.length_append] at h
            obtain ⟨segs', e, hf⟩ := this.1 (by omega)
            refine ⟨segs', ?_, ?_⟩
            · rw [readFullSeg]
              simp only [hs0, ↓reduceIte, hle, e, List.flatten_cons]
              rw [List.take_append, List.take_of_length_le (l := s) (by omega)]
            · rw [hf, List.flatten_cons, List.drop_append, List.drop_of_length_le (l := s) (by omega)]
              simp
          · simp only [List.flatten_cons, List.length_append] at h
            have e := this.2 (by omega)
            rw [readFullSeg]
            simp only [hs0, ↓reduceIte, hle, e, List.flatten_cons, List.length_append]
            have : ¬ (got + s.length = 0 ∧ rest.flatten.length = 0) := by omega
            have : ¬ (got = 0 ∧ s.length + rest.flatten.length = 0) := by omega
            simp [*]

end SSV.Stream
