import SSV.Model.Config
/-
Helper lemmas for the C18 theorems: inversion of the validators of SSV.Model.Config.
-/
namespace SSV.Config
open SSV.Gen

-- ---------------------------------------------------------------- mapE

theorem mapE_ok_mem {α β : Type} {f : α → R β} :
    ∀ {l : List α} {r : List β}, mapE f l = .ok r → ∀ x ∈ l, ∃ y ∈ r, f x = .ok y
  | [], _, _, x, hx => by cases hx
  | a :: as, r, h, x, hx => by
    unfold mapE at h
    split at h
    · cases h
    · rename_i y hy
      split at h
      · cases h
      · rename_i ys hys
        cases h
        cases hx with
        | head => exact ⟨y, List.mem_cons_self, hy⟩
        | tail _ hx' =>
          obtain ⟨z, hz, hfz⟩ := mapE_ok_mem hys x hx'
          exact ⟨z, List.mem_cons_of_mem _ hz, hfz⟩

theorem mapE_ok_mem' {α β : Type} {f : α → R β} :
    ∀ {l : List α} {r : List β}, mapE f l = .ok r → ∀ y ∈ r, ∃ x ∈ l, f x = .ok y
  | [], r, h, y, hy => by
    unfold mapE at h
    cases h
    cases hy
  | a :: as, r, h, y, hy => by
    unfold mapE at h
    split at h
    · cases h
    · rename_i y0 hy0
      split at h
      · cases h
      · rename_i ys hys
        cases h
        cases hy with
        | head => exact ⟨a, List.mem_cons_self, hy0⟩
        | tail _ hy' =>
          obtain ⟨x, hx, hfx⟩ := mapE_ok_mem' hys y hy'
          exact ⟨x, List.mem_cons_of_mem _ hx, hfx⟩

theorem mapE_length {α β : Type} {f : α → R β} :
    ∀ {l : List α} {r : List β}, mapE f l = .ok r → r.length = l.length
  | [], r, h => by
    unfold mapE at h
    cases h
    rfl
  | a :: as, r, h => by
    unfold mapE at h
    split at h
    · cases h
    · split at h
      · cases h
      · rename_i ys hys
        cases h
        simp [mapE_length hys]

theorem mapE_congr {α β : Type} {f g : α → R β} :
    ∀ {l : List α}, (∀ x ∈ l, f x = g x) → mapE f l = mapE g l
  | [], _ => rfl
  | a :: as, h => by
    unfold mapE
    rw [h a List.mem_cons_self, mapE_congr (fun x hx => h x (List.mem_cons_of_mem _ hx))]

theorem mapE_map {α β γ : Type} {f : β → R γ} {g : α → β} :
    ∀ {l : List α}, mapE f (l.map g) = mapE (fun x => f (g x)) l
  | [] => rfl
  | a :: as => by
    simp only [List.map_cons]
    unfold mapE
    rw [mapE_map]

-- ---------------------------------------------------------------- UDP listeners

theorem rangeDefault_some {x max dflt v : Int} (h : rangeDefault x max dflt = some v) :
    (0 < x ∧ x ≤ max ∧ v = x) ∨ (x = 0 ∧ v = dflt) := by
  unfold rangeDefault at h
  split at h
  · rename_i hx
    cases h
    exact Or.inl ⟨hx.1, hx.2, rfl⟩
  · split at h
    · rename_i hx
      cases h
      exact Or.inr ⟨hx, rfl⟩
    · cases h

theorem capDefault_some {x v : Int} (h : capDefault x = some v) :
    ((C18.sendCapMin : Int) ≤ x ∧ v = x) ∨ (x = 0 ∧ v = (C18.sendCapDefault : Int)) := by
  unfold capDefault at h
  split at h
  · rename_i hx
    cases h
    exact Or.inl ⟨hx, rfl⟩
  · split at h
    · rename_i hx
      cases h
      exact Or.inr ⟨hx, rfl⟩
    · cases h

/-- everything `UDPListenerConfig.Configure` guarantees about an accepted listener -/
structure ULok (minNat : Int) (l : UL) (e : EffUL) : Prop where
  network : l.network = "udp" ∨ l.network = "udp4" ∨ l.network = "udp6"
  batchMode : C18.batchModes.contains l.batchMode = true ∧ e.batchMode = l.batchMode
  relay : rangeDefault l.relayBatch C18.relayBatchMax C18.relayBatchDefault = some e.relayBatch
  recv : rangeDefault l.recvBatch C18.recvBatchMax C18.recvBatchDefault = some e.recvBatch
  cap : capDefault l.sendCap = some e.sendCap
  nat : (l.natTimeout = 0 ∧ e.natTimeout = (C18.natTimeoutDefault : Int)) ∨
        (l.natTimeout ≠ 0 ∧ natTooSmall l.natTimeout minNat = false ∧ e.natTimeout = l.natTimeout)

theorem natEff_some {minNat nat v : Int} (h : natEff minNat nat = some v) :
    (nat = 0 ∧ v = (C18.natTimeoutDefault : Int)) ∨ (nat ≠ 0 ∧ natTooSmall nat minNat = false ∧ v = nat) := by
  unfold natEff at h
  split at h
  · rename_i hz
    cases h
    exact Or.inl ⟨hz, rfl⟩
  · rename_i hnz
    split at h
    · cases h
    · rename_i hs
      cases h
      exact Or.inr ⟨hnz, by simpa using hs, rfl⟩

theorem checkUL_ok {minNat : Int} {l : UL} {e : EffUL} (h : checkUL minNat l = .ok e) : ULok minNat l e := by
  unfold checkUL at h
  split at h
  · cases h
  · rename_i hnet
    split at h
    · cases h
    · rename_i hbm
      split at h
      · cases h
      · rename_i rb hrb
        split at h
        · cases h
        · rename_i sb hsb
          split at h
          · cases h
          · rename_i cc hcc
            split at h
            · cases h
            · rename_i nt hnt
              have hnet3 : ¬l.network = "udp" → ¬l.network = "udp4" → l.network = "udp6" := by
                simpa using hnet
              have hnet' : l.network = "udp" ∨ l.network = "udp4" ∨ l.network = "udp6" := by
                by_cases h1 : l.network = "udp"
                · exact Or.inl h1
                · by_cases h2 : l.network = "udp4"
                  · exact Or.inr (Or.inl h2)
                  · exact Or.inr (Or.inr (hnet3 h1 h2))
              have hbm' : C18.batchModes.contains l.batchMode = true := by simpa using hbm
              cases h
              exact ⟨hnet', ⟨hbm', rfl⟩, hrb, hsb, hcc, natEff_some hnt⟩

end SSV.Config

namespace SSV.Config
open SSV.Gen

-- ---------------------------------------------------------------- firstErr

theorem firstErr_none : ∀ {l : List (Bool × String)}, firstErr l = none → ∀ p ∈ l, p.1 = false
  | [], _, p, hp => by cases hp
  | (c, e) :: rest, h, p, hp => by
    unfold firstErr at h
    split at h
    · cases h
    · rename_i hc
      cases hp with
      | head => simpa using hc
      | tail _ hp' => exact firstErr_none h p hp'

-- ---------------------------------------------------------------- servers

/-- what an accepted server went through -/
structure ServerOK (s : Server) (e : EffServer) : Prop where
  init : ∀ p ∈ s.initChecks, p.1 = false
  tcp : ∀ l ∈ s.allTCP, checkTL l = .ok ()
  udpc : ∀ p ∈ s.udpChecks, p.1 = false
  udp : mapE (checkUL (minNatOf s.proto)) s.allUDP = .ok e.udp
  upsk : (s.proto.isSS && !upskOK s.proto s.upsk) = false
  eff : e = s.eff e.udp

theorem checkServer_ok {s : Server} {e : EffServer} (h : checkServer s = .ok e) : ServerOK s e := by
  unfold checkServer at h
  split at h
  · cases h
  · rename_i h1
    split at h
    · cases h
    · rename_i u h2
      split at h
      · cases h
      · rename_i h3
        split at h
        · cases h
        · rename_i uls h4
          split at h
          · cases h
          · rename_i h5
            cases h
            refine ⟨firstErr_none h1, ?_, firstErr_none h3, h4, by simpa using h5, rfl⟩
            intro l hl
            obtain ⟨y, _, hy⟩ := mapE_ok_mem h2 l hl
            cases y
            exact hy

/-- what an accepted client went through -/
theorem checkClient_ok {c : Client} {e : EffClient} (h : checkClient c = .ok e) :
    (∀ p ∈ c.checks, p.1 = false) ∧ e = c.eff := by
  unfold checkClient at h
  split at h
  · cases h
  · rename_i h1
    cases h
    exact ⟨firstErr_none h1, rfl⟩

theorem checkRoute_ok {rt : Route} {resolvers tcp udp servers ds ps : List String}
    (h : checkRoute rt resolvers tcp udp servers ds ps = .ok ()) :
    ∀ p ∈ rt.checks resolvers tcp udp servers ds ps, p.1 = false := by
  unfold checkRoute at h
  split at h
  · cases h
  · rename_i h1
    exact firstErr_none h1

theorem checkRoutes_ok {resolvers tcp udp servers ds ps : List String} :
    ∀ {rts : List Route}, checkRoutes resolvers tcp udp servers ds ps rts = .ok () →
      ∀ rt ∈ rts, checkRoute rt resolvers tcp udp servers ds ps = .ok ()
  | [], _, rt, hrt => by cases hrt
  | a :: as, h, rt, hrt => by
    unfold checkRoutes at h
    split at h
    · cases h
    · rename_i ha
      cases hrt with
      | head => exact ha
      | tail _ hrt' => exact checkRoutes_ok h rt hrt'

-- ---------------------------------------------------------------- unique names

theorem checkUnique_nodup {code : String} :
    ∀ {ns seen : List String}, checkUnique code seen ns = .ok () → ns.Nodup ∧ ∀ n ∈ ns, n ∉ seen
  | [], _, _ => ⟨List.nodup_nil, (fun _ h => by cases h)⟩
  | n :: ns, seen, h => by
    unfold checkUnique at h
    split at h
    · cases h
    · rename_i hn
      have ⟨hnd, hns⟩ := checkUnique_nodup h
      have hn' : n ∉ seen := by simpa using hn
      refine ⟨List.nodup_cons.mpr ⟨fun hmem => hns n hmem List.mem_cons_self, hnd⟩, ?_⟩
      intro m hm
      cases hm with
      | head => exact hn'
      | tail _ hm' => exact fun hs => hns m hm' (List.mem_cons_of_mem _ hs)

theorem checkClients_ok :
    ∀ {cs : List Client} {seen : List String} {es : List EffClient}, checkClients seen cs = .ok es →
      (cs.map (·.name)).Nodup ∧ (∀ c ∈ cs, c.name ∉ seen) ∧ (∀ c ∈ cs, ∃ e ∈ es, checkClient c = .ok e)
  | [], _, _, _ => ⟨List.nodup_nil, (fun _ h => by cases h), (fun _ h => by cases h)⟩
  | c :: cs, seen, es, h => by
    unfold checkClients at h
    split at h
    · cases h
    · rename_i hn
      split at h
      · cases h
      · rename_i ec hec
        split at h
        · cases h
        · rename_i ecs hecs
          cases h
          have ⟨hnd, hns, hall⟩ := checkClients_ok hecs
          have hn' : c.name ∉ seen := by simpa using hn
          refine ⟨?_, ?_, ?_⟩
          · simp only [List.map_cons]
            refine List.nodup_cons.mpr ⟨?_, hnd⟩
            intro hmem
            obtain ⟨d, hd, hdn⟩ := List.mem_map.mp hmem
            exact hns d hd (by rw [hdn]; exact List.mem_cons_self)
          · intro d hd
            cases hd with
            | head => exact hn'
            | tail _ hd' => exact fun hs => hns d hd' (List.mem_cons_of_mem _ hs)
          · intro d hd
            cases hd with
            | head => exact ⟨ec, List.mem_cons_self, hec⟩
            | tail _ hd' =>
              obtain ⟨e, he, hce⟩ := hall d hd'
              exact ⟨e, List.mem_cons_of_mem _ he, hce⟩

theorem checkResolvers_nodup {tcp udp : List String} :
    ∀ {rs : List Resolver} {seen : List String}, checkResolvers tcp udp seen rs = .ok () →
      (rs.map (·.name)).Nodup ∧ (∀ r ∈ rs, r.name ∉ seen) ∧ (∀ r ∈ rs, checkResolver r tcp udp = .ok ())
  | [], _, _ => ⟨List.nodup_nil, (fun _ h => by cases h), (fun _ h => by cases h)⟩
  | r :: rs, seen, h => by
    unfold checkResolvers at h
    split at h
    · cases h
    · rename_i hn
      split at h
      · cases h
      · rename_i hr
        have ⟨hnd, hns, hall⟩ := checkResolvers_nodup h
        have hn' : r.name ∉ seen := by simpa using hn
        refine ⟨?_, ?_, ?_⟩
        · simp only [List.map_cons]
          refine List.nodup_cons.mpr ⟨?_, hnd⟩
          intro hmem
          obtain ⟨d, hd, hdn⟩ := List.mem_map.mp hmem
          exact hns d hd (by rw [hdn]; exact List.mem_cons_self)
        · intro d hd
          cases hd with
          | head => exact hn'
          | tail _ hd' => exact fun hs => hns d hd' (List.mem_cons_of_mem _ hs)
        · intro d hd
          cases hd with
          | head => exact hr
          | tail _ hd' => exact hall d hd'

end SSV.Config

namespace SSV.Config
open SSV.Gen

-- ---------------------------------------------------------------- congruence of `validate` in the servers

theorem map_name_eq {f : Server → Server} (hname : ∀ s, (f s).name = s.name) :
    ∀ l : List Server, (l.map f).map (·.name) = l.map (·.name)
  | [] => rfl
  | a :: as => by
    simp only [List.map_cons, hname, map_name_eq hname as]

theorem isEmpty_map {α β : Type} (f : α → β) : ∀ l : List α, (l.map f).isEmpty = l.isEmpty
  | [] => rfl
  | _ :: _ => rfl

/-- `validate` sees the servers only through their names and `checkServer` -/
theorem validate_congr_servers (c : Config) (f : Server → Server)
    (hname : ∀ s, (f s).name = s.name) (hchk : ∀ s ∈ c.servers, checkServer (f s) = checkServer s) :
    validate { c with servers := c.servers.map f } = validate c := by
  have h1 := isEmpty_map f c.servers
  have h2 := map_name_eq hname c.servers
  have h3 : mapE checkServer (c.servers.map f) = mapE checkServer c.servers := by
    rw [mapE_map]
    exact mapE_congr hchk
  unfold validate effectiveClients
  simp only [h1, h2, h3]

-- ---------------------------------------------------------------- legacy fields ≡ listener arrays

theorem allTCP_migrate (s : Server) : s.migrate.allTCP = s.allTCP := by
  simp [Server.migrate, Server.allTCP]

theorem allUDP_migrate (s : Server) : s.migrate.allUDP = s.allUDP := by
  simp [Server.migrate, Server.allUDP]

theorem checkServer_migrate (s : Server) : checkServer s.migrate = checkServer s := by
  unfold checkServer Server.initChecks Server.udpChecks Server.eff
  rw [allTCP_migrate, allUDP_migrate]
  rfl

end SSV.Config

namespace SSV.Config
open SSV.Gen

theorem checkClients_map (f : Client → Client) (hname : ∀ k, (f k).name = k.name)
    (hchk : ∀ k, checkClient (f k) = checkClient k) :
    ∀ (l : List Client) (seen : List String), checkClients seen (l.map f) = checkClients seen l
  | [], _ => rfl
  | k :: ks, seen => by
    simp only [List.map_cons]
    unfold checkClients
    rw [hname, hchk, checkClients_map f hname hchk ks (k.name :: seen)]

theorem map_cname_eq {f : Client → Client} (hname : ∀ k, (f k).name = k.name) :
    ∀ l : List Client, (l.map f).map (·.name) = l.map (·.name)
  | [] => rfl
  | a :: as => by
    simp only [List.map_cons, hname, map_cname_eq hname as]

theorem tcpNamesOf_map (f : Client → Client) (hname : ∀ k, (f k).name = k.name)
    (htcp : ∀ k, (f k).enableTCP = k.enableTCP) : ∀ l : List Client, tcpNamesOf (l.map f) = tcpNamesOf l
  | [] => rfl
  | k :: ks => by
    have ih := tcpNamesOf_map f hname htcp ks
    unfold tcpNamesOf at ih ⊢
    simp only [List.map_cons, List.filter_cons, htcp]
    cases h : k.enableTCP <;> simp [hname, ih]

theorem udpNamesOf_map (f : Client → Client) (hname : ∀ k, (f k).name = k.name)
    (hudp : ∀ k, (f k).enableUDP = k.enableUDP) : ∀ l : List Client, udpNamesOf (l.map f) = udpNamesOf l
  | [] => rfl
  | k :: ks => by
    have ih := udpNamesOf_map f hname hudp ks
    unfold udpNamesOf at ih ⊢
    simp only [List.map_cons, List.filter_cons, hudp]
    cases h : k.enableUDP <;> simp [hname, ih]

/-- `validate` sees the clients only through name, enableTCP/enableUDP and `checkClient` -/
theorem validate_congr_clients (c : Config) (f : Client → Client) (hname : ∀ k, (f k).name = k.name)
    (htcp : ∀ k, (f k).enableTCP = k.enableTCP) (hudp : ∀ k, (f k).enableUDP = k.enableUDP)
    (hchk : ∀ k, checkClient (f k) = checkClient k) :
    validate { c with clients := c.clients.map f } = validate c := by
  obtain ⟨servers, clients, groups, resolvers, router⟩ := c
  cases clients with
  | nil => rfl
  | cons k ks =>
    have h1 := checkClients_map f hname hchk (k :: ks) []
    have h2 := map_cname_eq hname (k :: ks)
    have h3 := tcpNamesOf_map f hname htcp (k :: ks)
    have h4 := udpNamesOf_map f hname hudp (k :: ks)
    unfold validate effectiveClients
    simp only [List.map_cons, List.isEmpty_cons, Bool.false_eq_true, if_false] at h1 h2 h3 h4 ⊢
    simp only [h1, h2, h3, h4]

end SSV.Config

namespace SSV.Config
open SSV.Gen

theorem all_mem_of_guard {l names : List String} (h : ¬ (!l.isEmpty && !l.all names.contains) = true) :
    ∀ m ∈ l, m ∈ names := by
  intro m hm
  cases hl : l with
  | nil => rw [hl] at hm; cases hm
  | cons a as =>
    rw [hl] at h hm
    have h' : (a :: as).all names.contains = true := by simpa using h
    have := List.all_eq_true.mp h' m hm
    simpa using this

theorem addGroup_ok {g : Group} {tcp udp tcp' udp' : List String} (h : addGroup g tcp udp = .ok (tcp', udp')) :
    (∀ m ∈ g.tcpClients, m ∈ tcp) ∧ (∀ m ∈ g.udpClients, m ∈ udp) ∧ (∀ n ∈ tcp, n ∈ tcp') ∧ (∀ n ∈ udp, n ∈ udp') := by
  unfold addGroup at h
  split at h
  · cases h
  · split at h
    · cases h
    · rename_i h2
      split at h
      · cases h
      · simp only at h
        split at h
        · cases h
        · rename_i h4
          split at h
          · cases h
          · injection h with h
            injection h with ht hu
            refine ⟨all_mem_of_guard h2, all_mem_of_guard h4, ?_, ?_⟩
            · intro n hn
              rw [← ht]
              split
              · exact hn
              · exact List.mem_cons_of_mem _ hn
            · intro n hn
              rw [← hu]
              split
              · exact hn
              · exact List.mem_cons_of_mem _ hn

theorem checkGroups_ok {cn : List String} :
    ∀ {gs : List Group} {seen tcp udp tcp' udp' : List String}, checkGroups cn seen gs tcp udp = .ok (tcp', udp') →
      (gs.map (·.name)).Nodup ∧ (∀ g ∈ gs, g.name ∉ seen ∧ g.name ∉ cn) ∧
      (∀ g ∈ gs, (∀ m ∈ g.tcpClients, m ∈ tcp') ∧ (∀ m ∈ g.udpClients, m ∈ udp')) ∧
      (∀ n ∈ tcp, n ∈ tcp') ∧ (∀ n ∈ udp, n ∈ udp')
  | [], _, _, _, _, _, h => by
    unfold checkGroups at h
    injection h with h
    injection h with ht hu
    subst ht; subst hu
    exact ⟨List.nodup_nil, (fun _ hg => by cases hg), (fun _ hg => by cases hg), (fun _ hn => hn), (fun _ hn => hn)⟩
  | g :: gs, seen, tcp, udp, tcp', udp', h => by
    unfold checkGroups at h
    split at h
    · cases h
    · rename_i h1
      split at h
      · cases h
      · rename_i h2
        split at h
        · cases h
        · rename_i t1 u1 h3
          have ⟨a1, a2, a3, a4⟩ := addGroup_ok h3
          have ⟨nd, ns, mem, mt, mu⟩ := checkGroups_ok h
          have hcn : g.name ∉ cn := by simpa using h1
          have hseen : g.name ∉ seen := by simpa using h2
          refine ⟨?_, ?_, ?_, (fun n hn => mt n (a3 n hn)), (fun n hn => mu n (a4 n hn))⟩
          · simp only [List.map_cons]
            refine List.nodup_cons.mpr ⟨?_, nd⟩
            intro hmem
            obtain ⟨d, hd, hdn⟩ := List.mem_map.mp hmem
            exact (ns d hd).1 (by rw [hdn]; exact List.mem_cons_self)
          · intro d hd
            cases hd with
            | head => exact ⟨hseen, hcn⟩
            | tail _ hd' => exact ⟨fun hs => (ns d hd').1 (List.mem_cons_of_mem _ hs), (ns d hd').2⟩
          · intro d hd
            cases hd with
            | head => exact ⟨fun m hm => mt m (a3 m (a1 m hm)), fun m hm => mu m (a4 m (a2 m hm))⟩
            | tail _ hd' => exact mem d hd'

end SSV.Config

namespace SSV.Config
open SSV.Gen

theorem checkResolver_ok {r : Resolver} {tcp udp : List String} (h : checkResolver r tcp udp = .ok ()) :
    (r.tcpClient ≠ "" → r.tcpClient ∈ tcp) ∧ (r.udpClient ≠ "" → r.udpClient ∈ udp) := by
  unfold checkResolver at h
  split at h
  · split at h
    · cases h
    · rename_i hx
      refine ⟨fun ht => ?_, fun hu => ?_⟩
      · exfalso; apply hx; simp [ht]
      · exfalso; apply hx; simp [hu]
  · split at h
    · cases h
    · split at h
      · cases h
      · split at h
        · cases h
        · split at h
          · cases h
          · rename_i h4
            split at h
            · cases h
            · rename_i h5
              refine ⟨fun ht => ?_, fun hu => ?_⟩
              · by_cases hm : r.tcpClient ∈ tcp
                · exact hm
                · exfalso; apply h4; simp [ht, hm]
              · by_cases hm : r.udpClient ∈ udp
                · exact hm
                · exfalso; apply h5; simp [hu, hm]

end SSV.Config

namespace SSV.Config
open SSV.Gen

theorem addGroup_sub {g : Group} {tcp udp tcp' udp' : List String} (h : addGroup g tcp udp = .ok (tcp', udp')) :
    (∀ n ∈ tcp', n = g.name ∨ n ∈ tcp) ∧ (∀ n ∈ udp', n = g.name ∨ n ∈ udp) := by
  unfold addGroup at h
  split at h
  · cases h
  · split at h
    · cases h
    · split at h
      · cases h
      · simp only at h
        split at h
        · cases h
        · split at h
          · cases h
          · injection h with h
            injection h with ht hu
            refine ⟨?_, ?_⟩
            · intro n hn
              rw [← ht] at hn
              split at hn
              · exact Or.inr hn
              · cases hn with
                | head => exact Or.inl rfl
                | tail _ hn' => exact Or.inr hn'
            · intro n hn
              rw [← hu] at hn
              split at hn
              · exact Or.inr hn
              · cases hn with
                | head => exact Or.inl rfl
                | tail _ hn' => exact Or.inr hn'

theorem checkGroups_sub {cn : List String} :
    ∀ {gs : List Group} {seen tcp udp tcp' udp' : List String}, checkGroups cn seen gs tcp udp = .ok (tcp', udp') →
      (∀ n ∈ tcp', n ∈ tcp ∨ n ∈ gs.map (·.name)) ∧ (∀ n ∈ udp', n ∈ udp ∨ n ∈ gs.map (·.name))
  | [], _, _, _, _, _, h => by
    unfold checkGroups at h
    injection h with h
    injection h with ht hu
    subst ht; subst hu
    exact ⟨fun _ hn => Or.inl hn, fun _ hn => Or.inl hn⟩
  | g :: gs, seen, tcp, udp, tcp', udp', h => by
    unfold checkGroups at h
    split at h
    · cases h
    · split at h
      · cases h
      · split at h
        · cases h
        · rename_i t1 u1 h3
          have ⟨a1, a2⟩ := addGroup_sub h3
          have ⟨b1, b2⟩ := checkGroups_sub h
          refine ⟨?_, ?_⟩
          · intro n hn
            rcases b1 n hn with h1 | h1
            · rcases a1 n h1 with h2 | h2
              · exact Or.inr (by simp [h2])
              · exact Or.inl h2
            · exact Or.inr (by simp only [List.map_cons]; exact List.mem_cons_of_mem _ h1)
          · intro n hn
            rcases b2 n hn with h1 | h1
            · rcases a2 n h1 with h2 | h2
              · exact Or.inr (by simp [h2])
              · exact Or.inl h2
            · exact Or.inr (by simp only [List.map_cons]; exact List.mem_cons_of_mem _ h1)

end SSV.Config

namespace SSV.Config

theorem mapSize_nodup : ∀ {l : List String}, l.Nodup → mapSize l = l.length
  | [], _ => rfl
  | n :: ns, h => by
    have ⟨hn, hns⟩ := List.nodup_cons.mp h
    have hc : ns.contains n = false := by simpa using hn
    unfold mapSize
    rw [hc, mapSize_nodup hns]
    simp

end SSV.Config
