import SSV.Model.Config
/-
Helper lemmas for the C18 theorems: inversion of the validators of SSV.Model.Config.
-/
namespace SSV.Config
open SSV.Gen

-- ---------------------------------------------------------------- mapE

theorem mapE_ok_mem {α β : Type} {f : α → R β} :
    ∀ {l : List α} {r : List β}, mapE f l = .ok r → ∀ x ∈ l, ∃ y ∈ r, f x = .ok y
  | [], _, _, x, hx => by cases hx
  | a :: as, r, h, x, hx => by
    unfold mapE at h
    split at h
    · cases h
    · rename_i y hy
      split at h
      · cases h
      · rename_i ys hys
        cases h
        cases hx with
        | head => exact ⟨y, List.mem_cons_self, hy⟩
        | tail _ hx' =>
          obtain ⟨z, hz, hfz⟩ := mapE_ok_mem hys x hx'
          exact ⟨z, List.mem_cons_of_mem _ hz, hfz⟩

theorem mapE_ok_mem' {α β : Type} {f : α → R β} :
    ∀ {l : List α} {r : List β}, mapE f l = .ok r → ∀ y ∈ r, ∃ x ∈ l, f x = .ok y
  | [], r, h, y, hy => by
    unfold mapE at h
    cases h
    cases hy
  | a :: as, r, h, y, hy => by
    unfold mapE at h
    split at h
    · cases h
    · rename_i y0 hy0
      split at h
      · cases h
      · rename_i ys hys
        cases h
        cases hy with
        | head => exact ⟨a, List.mem_cons_self, hy0⟩
        | tail _ hy' =>
          obtain ⟨x, hx, hfx⟩ := mapE_ok_mem' hys y hy'
          exact ⟨x, List.mem_cons_of_mem _ hx, hfx⟩

theorem mapE_length {α β : Type} {f : α → R β} :
    ∀ {l : List α} {r : List β}, mapE f l = .ok r → r.length = l.length
  | [], r, h => by
    unfold mapE at h
    cases h
    rfl
  | a :: as, r, h => by
    unfold mapE at h
    split at h
    · cases h
    · split at h
      · cases h
      · rename_i ys hys
        cases h
        simp [mapE_length hys]

theorem mapE_congr {α β : Type} {f g : α → R β} :
    ∀ {l : List α}, (∀ x ∈ l, f x = g x) → mapE f l = mapE g l
  | [], _ => rfl
  | a :: as, h => by
    unfold mapE
    rw [h a List.mem_cons_self, mapE_congr (fun x hx => h x (List.mem_cons_of_mem _ hx))]

theorem mapE_map {α β γ : Type} {f : β → R γ} {g : α → β} :
    ∀ {l : List α}, mapE f (l.map g) = mapE (fun x => f (g x)) l
  | [] => rfl
  | a :: as => by
    simp only [List.map_cons]
    unfold mapE
    rw [mapE_map]

-- ---------------------------------------------------------------- UDP listeners

theorem rangeDefault_some {x max dflt v : Int} (h : rangeDefault x max dflt = some v) :
    (0 < x ∧ x ≤ max ∧ v = x) ∨ (x = 0 ∧ v = dflt) := by
  unfold rangeDefault at h
  split at h
  · rename_i hx
    cases h
    exact Or.inl ⟨hx.1, hx.2, rfl⟩
  · split at h
    · rename_i hx
      cases h
      exact Or.inr ⟨hx, rfl⟩
    · cases h

theorem capDefault_some {x v : Int} (h : capDefault x = some v) :
    ((C18.sendCapMin : Int) ≤ x ∧ v = x) ∨ (x = 0 ∧ v = (C18.sendCapDefault : Int)) := by
  unfold capDefault at h
  split at h
  · rename_i hx
    cases h
    exact Or.inl ⟨hx, rfl⟩
  · split at h
    · rename_i hx
      cases h
      exact Or.inr ⟨hx, rfl⟩
    · cases h

/-- everything `UDPListenerConfig.Configure` guarantees about an accepted listener -/
structure ULok (minNat : Int) (l : UL) (e : EffUL) : Prop where
  network : l.network = "udp" ∨ l.network = "udp4" ∨ l.network = "udp6"
  batchMode : C18.batchModes.contains l.batchMode = true ∧ e.batchMode = l.batchMode
  relay : rangeDefault l.relayBatch C18.relayBatchMax C18.relayBatchDefault = some e.relayBatch
  recv : rangeDefault l.recvBatch C18.recvBatchMax C18.recvBatchDefault = some e.recvBatch
  cap : capDefault l.sendCap = some e.sendCap
  nat : (l.natTimeout = 0 ∧ e.natTimeout = (C18.natTimeoutDefault : Int)) ∨
        (l.natTimeout ≠ 0 ∧ natTooSmall l.natTimeout minNat = false ∧ e.natTimeout = l.natTimeout)

theorem checkUL_ok {minNat : Int} {l : UL} {e : EffUL} (h : checkUL minNat l = .ok e) : ULok minNat l e := by
  unfold checkUL at h
  split at h
  · cases h
  · rename_i hnet
    split at h
    · cases h
    · rename_i hbm
      split at h
      · cases h
      · rename_i rb hrb
        split at h
        · cases h
        · rename_i sb hsb
          split at h
          · cases h
          · rename_i cc hcc
            have hnet' : l.network = "udp" ∨ l.network = "udp4" ∨ l.network = "udp6" := by
              simpa [or_assoc] using hnet
            have hbm' : C18.batchModes.contains l.batchMode = true := by simpa using hbm
            split at h
            · rename_i hz
              cases h
              exact ⟨hnet', ⟨hbm', rfl⟩, hrb, hsb, hcc, Or.inl ⟨hz, rfl⟩⟩
            · rename_i hnz
              split at h
              · cases h
              · rename_i hsmall
                cases h
                exact ⟨hnet', ⟨hbm', rfl⟩, hrb, hsb, hcc, Or.inr ⟨hnz, by simpa using hsmall, rfl⟩⟩

end SSV.Config
