import SSV.Proofs.StreamRun
/-
The conn with its sticky read error (`SReader`) on schedules where nothing fails: identical to the
plain reader. Independent of the regenerated fact `readErrorsSticky` (used by C01).
-/
namespace SSV.Stream
open SSV.Gen.C01

theorem hardErr_none_iff (o : ROut) : o.hardErr = none ↔ (o.err = none ∨ o.err = some .eof) := by
  unfold ROut.hardErr
  cases h : o.err with
  | none => simp
  | some e => cases e <;> simp

theorem step_of_none (C : Crypto) (r : Reader) (op : ROp) :
    SReader.step C ⟨r, none, []⟩ op =
      ((r.step C op).1, ⟨(r.step C op).2, if readErrorsSticky then (r.step C op).1.hardErr else none, []⟩) := by
  simp [SReader.step]

/-- on a schedule that the stopping semantics runs to its end, the conn with the sticky error
behaves exactly the same (the guard is invisible as long as nothing fails). Holds whether or not
the source has the guard (it does not use the fact `readErrorsSticky`). -/
theorem srun_eq_run (C : Crypto) (ops : List ROp) : ∀ r : Reader,
    (Reader.run C r ops).length = ops.length → SReader.run C ⟨r, none, []⟩ ops = Reader.run C r ops := by
  induction ops with
  | nil => intro r _; rfl
  | cons op ops ih =>
    intro r hlen
    simp only [SReader.run, step_of_none]
    cases herr : (r.step C op).1.err with
    | none =>
      have hh : (r.step C op).1.hardErr = none := (hardErr_none_iff _).mpr (Or.inl herr)
      simp only [Reader.run, herr, List.length_cons, Nat.add_right_cancel_iff] at hlen ⊢
      rw [hh, ite_self, ih _ hlen]
    | some e =>
      by_cases he : e = .eof
      · subst he
        have hh : (r.step C op).1.hardErr = none := (hardErr_none_iff _).mpr (Or.inr herr)
        simp only [Reader.run, herr, List.length_cons, Nat.add_right_cancel_iff] at hlen ⊢
        rw [hh, ite_self, ih _ hlen]
      · have hrun : Reader.run C r (op :: ops) = [(r.step C op).1] := by
          simp only [Reader.run, herr]
        rw [hrun] at hlen ⊢
        have : ops = [] := by
          simp at hlen
          exact hlen
        subst this
        rfl

end SSV.Stream
