import SSV.Model.Dns
/-
Lemmas about the DNS model: expiry only ever decreases ("lowers") under `parseMsg`,
every record used bounds it, malformed responses never mark a family done, addresses
come from answer records of usable responses.
-/
namespace SSV.Dns
open SSV.Gen.C17 SSV.Lru

/-- the expiry is set and at most `t` -/
def ExpLe (x : Option Nat) (t : Nat) : Prop := ∃ e, x = some e ∧ e ≤ t

/-- `x'` is at most `x` (an unset expiry is the top element) -/
def Lowers (x x' : Option Nat) : Prop := ∀ t, ExpLe x t → ExpLe x' t

theorem Lowers.refl (x : Option Nat) : Lowers x x := fun _ h => h
theorem Lowers.trans {x y z : Option Nat} (h1 : Lowers x y) (h2 : Lowers y z) : Lowers x z :=
  fun t h => h2 t (h1 t h)
theorem lowers_none (x : Option Nat) : Lowers none x := by
  intro t h; obtain ⟨e, he, _⟩ := h; cases he

theorem minExp_le (x : Option Nat) (t : Nat) : ExpLe (minExp x t) t := by
  unfold minExp
  cases x with
  | none => exact ⟨t, rfl, Nat.le_refl _⟩
  | some a =>
    by_cases h : a > t
    · simp only [h, if_true]; exact ⟨t, rfl, Nat.le_refl _⟩
    · simp only [h, if_false]; exact ⟨a, rfl, by omega⟩

theorem minExp_lowers (x : Option Nat) (t : Nat) : Lowers x (minExp x t) := by
  intro u ⟨e, he, hle⟩
  subst he
  unfold minExp
  by_cases h : e > t
  · simp only [h, if_true]; exact ⟨t, rfl, by omega⟩
  · simp only [h, if_false]; exact ⟨e, rfl, hle⟩

/-- Gen fact used below: the answer loop takes the minimum -/
theorem answerExp_eq (x : Option Nat) (now ttl : Nat) : answerExp x now ttl = minExp x (now + ttl * sec) := by
  simp [answerExp, answerExpiryMin]

/-- Gen fact used below: the failure branch takes the minimum (true of the repaired source; F11 otherwise) -/
theorem failureExp_eq (x : Option Nat) (now : Nat) : failureExp x now = minExp x (now + rcodeFailureCachingDuration) := by
  simp [failureExp, failureExpiryMin]

theorem applyAns_lowers (now : Nat) (b : Builder) (x : Ans) : Lowers b.exp (applyAns now b x).exp := by
  have : (applyAns now b x).exp = minExp b.exp (now + x.ttl * sec) := by
    unfold applyAns; rw [answerExp_eq]; dsimp only; split
    · rfl
    · split <;> rfl
  rw [this]; exact minExp_lowers _ _

theorem applyAns_le (now : Nat) (b : Builder) (x : Ans) : ExpLe (applyAns now b x).exp (now + x.ttl * sec) := by
  have : (applyAns now b x).exp = minExp b.exp (now + x.ttl * sec) := by
    unfold applyAns; rw [answerExp_eq]; dsimp only; split
    · rfl
    · split <;> rfl
  rw [this]; exact minExp_le _ _

theorem foldAns_lowers (now : Nat) (xs : List Ans) (b : Builder) : Lowers b.exp (xs.foldl (applyAns now) b).exp := by
  induction xs generalizing b with
  | nil => exact Lowers.refl _
  | cons x r ih => exact (applyAns_lowers now b x).trans (ih _)

theorem foldAns_le (now : Nat) (xs : List Ans) (b : Builder) (x : Ans) (hx : x ∈ xs) :
    ExpLe (xs.foldl (applyAns now) b).exp (now + x.ttl * sec) := by
  induction xs generalizing b with
  | nil => cases hx
  | cons y r ih =>
    rcases List.mem_cons.mp hx with h | h
    · subst h; exact foldAns_lowers now r _ _ (applyAns_le now b x)
    · exact ih _ h

/-- the stage after the answer loop, as a function of the builder reached there -/
def afterAnswers (b : Builder) (now : Nat) (m : Msg) (isUDP : Bool) : Builder × Option Hdr :=
  match m.ansEnd with
  | .hdrErr => (b, none)
  | .bodyErr ttl => ({ b with exp := answerExp b.exp now ttl }, none)
  | .done =>
    let afterAuth : Builder × Bool :=
      if soaOnlyIfZero && b.exp.isSome then (b, true) else
      let b := m.auths.foldl (applyAuth now) b
      match m.authEnd with
      | .done => (b, true)
      | .hdrErr => (b, false)
      | .skipErr soa ttl => (applyAuth now b (soa, ttl), false)
    if !afterAuth.2 then (afterAuth.1, none) else
    let b := afterAuth.1
    let b := if !m.tc || !isUDP then markDone b m.id else b
    (b, some m.hdr)

theorem parseBody_eq (b : Builder) (now : Nat) (m : Msg) (isUDP : Bool) :
    parseBody b now m isUDP =
      if !m.response then (b, none) else
      if !m.ra then (b, none) else
      if !(rcodeOk.contains m.rcode || rcodeFailure.contains m.rcode) then (b, none) else
      let b := if rcodeFailure.contains m.rcode then { b with exp := failureExp b.exp now } else b
      if !m.qOk then (b, none) else
      afterAnswers (m.answers.foldl (applyAns now) b) now m isUDP := rfl

theorem markDone_exp (b : Builder) (id : Nat) : (markDone b id).exp = b.exp := by
  unfold markDone; split
  · rfl
  · split <;> rfl


theorem afterAnswers_lowers (b : Builder) (now : Nat) (m : Msg) (isUDP : Bool) :
    Lowers b.exp (afterAnswers b now m isUDP).1.exp := by
  cases hb : b.exp with
  | none => exact lowers_none _
  | some e =>
    unfold afterAnswers
    cases m.ansEnd with
    | hdrErr => simp only [hb]; exact Lowers.refl _
    | bodyErr ttl => simp only [answerExp_eq, hb]; exact minExp_lowers _ _
    | done =>
      have : (soaOnlyIfZero && b.exp.isSome) = true := by simp [soaOnlyIfZero, hb]
      simp only [this, if_true, Bool.not_true, Bool.false_eq_true, if_false]
      split <;> simp only [markDone_exp, hb] <;> exact Lowers.refl _

theorem parseBody_lowers (b : Builder) (now : Nat) (m : Msg) (isUDP : Bool) :
    Lowers b.exp (parseBody b now m isUDP).1.exp := by
  rw [parseBody_eq]
  split; · exact Lowers.refl _
  split; · exact Lowers.refl _
  split; · exact Lowers.refl _
  have h1 : Lowers b.exp (if rcodeFailure.contains m.rcode then { b with exp := failureExp b.exp now } else b).exp := by
    split
    · simp only [failureExp_eq]; exact minExp_lowers _ _
    · exact Lowers.refl _
  dsimp only
  split; · exact h1
  exact h1.trans ((foldAns_lowers now m.answers _).trans (afterAnswers_lowers _ now m isUDP))

/-- the response reaches the rcode switch of `parseMsg` -/
def Usable (m : Msg) : Prop :=
  m.response = true ∧ m.ra = true ∧ (rcodeOk.contains m.rcode || rcodeFailure.contains m.rcode) = true

theorem parseBody_fail_le (b : Builder) (now : Nat) (m : Msg) (isUDP : Bool) (hu : Usable m)
    (hf : rcodeFailure.contains m.rcode = true) :
    ExpLe (parseBody b now m isUDP).1.exp (now + rcodeFailureCachingDuration) := by
  obtain ⟨h1, h2, h3⟩ := hu
  rw [parseBody_eq]
  simp only [h1, h2, hf, Bool.not_true, Bool.false_eq_true, if_false, if_true, Bool.or_true]
  have h0 : ExpLe (failureExp b.exp now) (now + rcodeFailureCachingDuration) := by
    rw [failureExp_eq]; exact minExp_le _ _
  split
  · exact h0
  · exact afterAnswers_lowers _ now m isUDP _
      (foldAns_lowers now m.answers { b with exp := failureExp b.exp now } _ h0)

theorem parseBody_ans_le (b : Builder) (now : Nat) (m : Msg) (isUDP : Bool) (hu : Usable m)
    (hq : m.qOk = true) (x : Ans) (hx : x ∈ m.answers) :
    ExpLe (parseBody b now m isUDP).1.exp (now + x.ttl * sec) := by
  obtain ⟨h1, h2, h3⟩ := hu
  rw [parseBody_eq]
  simp only [h1, h2, h3, hq, Bool.not_true, Bool.false_eq_true, if_false]
  exact afterAnswers_lowers _ now m isUDP _ (foldAns_le now m.answers _ x hx)

theorem idCheck_exp (b b' : Builder) (id : Nat) (d : Bool) (h : idCheck b id = some (b', d)) : b'.exp = b.exp := by
  unfold idCheck at h
  repeat' split at h
  all_goals first | cases h; rfl | cases h

theorem parseMsg_lowers (b : Builder) (now : Nat) (w : Wire) (isUDP : Bool) :
    Lowers b.exp (parseMsg b now w isUDP).1.exp := by
  unfold parseMsg
  cases w with
  | garbage => exact Lowers.refl _
  | msg m =>
    dsimp only
    cases h : idCheck b m.id with
    | none => exact Lowers.refl _
    | some r =>
      obtain ⟨b', d⟩ := r
      have he := idCheck_exp b b' m.id d h
      cases d with
      | true => simp only [he]; exact Lowers.refl _
      | false => simp only; rw [← he]; exact parseBody_lowers b' now m isUDP

/-- the message is looked at beyond the id check: its family is still open -/
def Open (b : Builder) (m : Msg) : Prop := ∃ b', idCheck b m.id = some (b', false)

theorem parseMsg_ans_le (b : Builder) (now : Nat) (m : Msg) (isUDP : Bool) (ho : Open b m) (hu : Usable m)
    (hq : m.qOk = true) (x : Ans) (hx : x ∈ m.answers) :
    ExpLe (parseMsg b now (.msg m) isUDP).1.exp (now + x.ttl * sec) := by
  obtain ⟨b', h⟩ := ho
  simp only [parseMsg, h]
  exact parseBody_ans_le b' now m isUDP hu hq x hx

theorem parseMsg_fail_le (b : Builder) (now : Nat) (m : Msg) (isUDP : Bool) (ho : Open b m) (hu : Usable m)
    (hf : rcodeFailure.contains m.rcode = true) :
    ExpLe (parseMsg b now (.msg m) isUDP).1.exp (now + rcodeFailureCachingDuration) := by
  obtain ⟨b', h⟩ := ho
  simp only [parseMsg, h]
  exact parseBody_fail_le b' now m isUDP hu hf

/-- feeding a timed sequence of received messages to the builder -/
def feed (b : Builder) : List (Nat × Wire × Bool) → Builder
  | [] => b
  | (now, w, u) :: rest => feed (parseMsg b now w u).1 rest

theorem feed_append (b : Builder) (xs ys : List (Nat × Wire × Bool)) : feed b (xs ++ ys) = feed (feed b xs) ys := by
  induction xs generalizing b with
  | nil => rfl
  | cons x r ih => obtain ⟨now, w, u⟩ := x; simp [feed, ih]

theorem feed_lowers (b : Builder) (xs : List (Nat × Wire × Bool)) : Lowers b.exp (feed b xs).exp := by
  induction xs generalizing b with
  | nil => exact Lowers.refl _
  | cons x r ih => obtain ⟨now, w, u⟩ := x; exact (parseMsg_lowers b now w u).trans (ih _)


/-- a message the scripted upstream of this lookup really sent: a datagram from the configured
server address, or a frame on one of the TCP connections -/
def FromUpstream (up : Upstream) (w : Wire) : Prop :=
  (∃ dt, UdpEv.dgram dt true w ∈ up.udp) ∨ (∃ fr fin dt, Conn.conn fr fin ∈ up.conns ∧ Frame.wire dt w ∈ fr)

/-- what was fed to the builder: entries of the trace come from the given source, not before `t0` -/
def TraceFrom (src : Wire → Prop) (t0 : Nat) (tr : List (Nat × Wire × Bool)) : Prop :=
  ∀ e ∈ tr, src e.2.1 ∧ t0 ≤ e.1

theorem readLoop_trace (dl : Nat) (fin : ConnEnd) (frames : List Frame) (b : Builder) (now : Nat) :
    ∃ tr, (readLoop dl b now fin frames).b = feed b tr ∧
      TraceFrom (fun w => ∃ dt, Frame.wire dt w ∈ frames) now tr := by
  induction frames generalizing b now with
  | nil =>
    refine ⟨[], ?_, by intro e he; cases he⟩
    cases fin with
    | close dt => simp only [readLoop]; split <;> rfl
    | closeMid dt => simp only [readLoop]; split <;> rfl
    | hang => rfl
  | cons f rest ih =>
    cases f with
    | zero dt =>
      refine ⟨[], ?_, by intro e he; cases he⟩
      unfold readLoop; split <;> rfl
    | wire dt w =>
      unfold readLoop
      split
      · exact ⟨[], rfl, by intro e he; cases he⟩
      · cases hp : parseMsg b (now + dt) w false with
        | mk b' r =>
          cases r with
          | none =>
            refine ⟨[(now + dt, w, false)], by simp [feed, hp], ?_⟩
            intro e he; simp only [List.mem_singleton] at he; subst he
            exact ⟨⟨dt, by simp⟩, Nat.le_add_right _ _⟩
          | some h =>
            dsimp only
            split
            · refine ⟨[(now + dt, w, false)], by simp [feed, hp], ?_⟩
              intro e he; simp only [List.mem_singleton] at he; subst he
              exact ⟨⟨dt, by simp⟩, Nat.le_add_right _ _⟩
            · obtain ⟨tr, h1, h2⟩ := ih b' (now + dt)
              refine ⟨(now + dt, w, false) :: tr, by simp [feed, hp, h1], ?_⟩
              intro e he
              rcases List.mem_cons.mp he with h | h
              · subst h; exact ⟨⟨dt, by simp⟩, Nat.le_add_right _ _⟩
              · obtain ⟨⟨d, hd⟩, hle⟩ := h2 e h
                exact ⟨⟨d, List.mem_cons_of_mem _ hd⟩, by omega⟩

theorem readLoop_now (dl : Nat) (fin : ConnEnd) (frames : List Frame) (b : Builder) (now : Nat) (h : now ≤ dl) :
    now ≤ (readLoop dl b now fin frames).now := by
  induction frames generalizing b now with
  | nil =>
    cases fin with
    | close dt => simp only [readLoop]; split <;> simp <;> omega
    | closeMid dt => simp only [readLoop]; split <;> simp <;> omega
    | hang => simpa [readLoop] using h
  | cons f rest ih =>
    cases f with
    | zero dt => unfold readLoop; split <;> simp <;> omega
    | wire dt w =>
      unfold readLoop
      split
      · exact h
      · cases hp : parseMsg b (now + dt) w false with
        | mk b' r =>
          cases r with
          | none => simp
          | some hh =>
            dsimp only
            split
            · simp
            · have := ih b' (now + dt) (by omega); omega


/-- entries of the trace come from the given source -/
def Sourced (src : Wire → Prop) (tr : List (Nat × Wire × Bool)) : Prop := ∀ e ∈ tr, src e.2.1

def InConns (conns : List Conn) (w : Wire) : Prop :=
  ∃ fr fin dt, Conn.conn fr fin ∈ conns ∧ Frame.wire dt w ∈ fr

theorem doTCP_trace (dl : Nat) (b : Builder) (now : Nat) (c : Conn) :
    ∃ tr, (doTCP dl b now c).b = feed b tr ∧ Sourced (InConns [c]) tr := by
  cases c with
  | dialFail => exact ⟨[], rfl, by intro e he; cases he⟩
  | conn fr fin =>
    obtain ⟨tr, h1, h2⟩ := readLoop_trace dl fin fr b now
    refine ⟨tr, h1, ?_⟩
    intro e he
    obtain ⟨⟨dt, hd⟩, _⟩ := h2 e he
    exact ⟨fr, fin, dt, by simp, hd⟩

theorem tcpLoop_trace (dl : Nat) (n : Nat) (t : TcpTrace) (conns : List Conn) :
    ∃ tr, (tcpLoop dl n t conns).b = feed t.b tr ∧ Sourced (InConns conns) tr := by
  induction n generalizing t conns with
  | zero => exact ⟨[], rfl, by intro e he; cases he⟩
  | succ n ih =>
    unfold tcpLoop
    split
    · exact ⟨[], rfl, by intro e he; cases he⟩
    · cases conns with
      | nil =>
        dsimp only [List.headD, doTCP]
        simp only [Bool.not_false, if_true]
        exact ⟨[], rfl, by intro e he; cases he⟩
      | cons c rest =>
        dsimp only [List.headD_cons, List.tail_cons]
        obtain ⟨tr1, h1, h2⟩ := doTCP_trace dl t.b t.now c
        have lift1 : Sourced (InConns (c :: rest)) tr1 := by
          intro e he
          obtain ⟨fr, fin, dt, hm, hw⟩ := h2 e he
          simp only [List.mem_singleton] at hm
          exact ⟨fr, fin, dt, by simp [hm], hw⟩
        split
        · exact ⟨tr1, h1, lift1⟩
        · obtain ⟨tr2, g1, g2⟩ := ih { b := (doTCP dl t.b t.now c).b, now := (doTCP dl t.b t.now c).now, queries := t.queries ++ [querySubset t.b] } rest
          refine ⟨tr1 ++ tr2, ?_, ?_⟩
          · rw [feed_append, ← h1]; exact g1
          · intro e he
            rcases List.mem_append.mp he with h | h
            · exact lift1 e h
            · obtain ⟨fr, fin, dt, hm, hw⟩ := g2 e h
              exact ⟨fr, fin, dt, List.mem_cons_of_mem _ hm, hw⟩

theorem udpLoop_trace (dl : Nat) (evs : List UdpEv) (o : UdpOut) :
    ∃ tr, (udpLoop dl o evs).b = feed o.b tr ∧ Sourced (fun w => ∃ dt, UdpEv.dgram dt true w ∈ evs) tr := by
  induction evs generalizing o with
  | nil => exact ⟨[], rfl, by intro e he; cases he⟩
  | cons ev rest ih =>
    have lift : ∀ tr, Sourced (fun w => ∃ dt, UdpEv.dgram dt true w ∈ rest) tr →
        Sourced (fun w => ∃ dt, UdpEv.dgram dt true w ∈ ev :: rest) tr := by
      intro tr h e he
      obtain ⟨dt, hd⟩ := h e he
      exact ⟨dt, List.mem_cons_of_mem _ hd⟩
    cases ev with
    | silence => exact ⟨[], rfl, by intro e he; cases he⟩
    | readErr dt =>
      unfold udpLoop
      split
      · exact ⟨[], rfl, by intro e he; cases he⟩
      · obtain ⟨tr, h1, h2⟩ := ih { o with now := o.now + dt, used := o.used + 1 }
        exact ⟨tr, h1, lift tr h2⟩
    | dgram dt fs w =>
      unfold udpLoop
      split
      · exact ⟨[], rfl, by intro e he; cases he⟩
      · dsimp only
        cases fs with
        | false =>
          simp only [Bool.not_false, if_true]
          obtain ⟨tr, h1, h2⟩ := ih { o with now := o.now + dt, used := o.used + 1 }
          exact ⟨tr, h1, lift tr h2⟩
        | true =>
          simp only [Bool.not_true, Bool.false_eq_true, if_false]
          have src1 : Sourced (fun w' => ∃ dt', UdpEv.dgram dt' true w' ∈ UdpEv.dgram dt true w :: rest)
              [(o.now + dt, w, true)] := by
            intro e he; simp only [List.mem_singleton] at he; subst he; exact ⟨dt, by simp⟩
          cases hp : parseMsg o.b (o.now + dt) w true with
          | mk b' r =>
            cases r with
            | none => exact ⟨[(o.now + dt, w, true)], by simp [feed, hp], src1⟩
            | some h =>
              dsimp only
              split
              · exact ⟨[(o.now + dt, w, true)], by simp [feed, hp], src1⟩
              · split
                · exact ⟨[(o.now + dt, w, true)], by simp [feed, hp], src1⟩
                · obtain ⟨tr, h1, h2⟩ := ih (UdpOut.mk b' (o.now + dt) (o.cancel4 || h.id == idV4)
                      (o.cancel6 || h.id == idV6) (o.used + 1) o.why)
                  refine ⟨(o.now + dt, w, true) :: tr, by simp [feed, hp]; exact h1, ?_⟩
                  intro e he
                  rcases List.mem_cons.mp he with hh | hh
                  · subst hh; exact ⟨dt, by simp⟩
                  · exact lift tr h2 e hh

theorem sendQueries_trace (cfg : Config) (now : Nat) (up : Upstream) :
    ∃ tr, (sendQueries cfg now up).b = feed {} tr ∧ Sourced (FromUpstream up) tr := by
  unfold sendQueries
  dsimp only
  have hu : ∃ tr, (sendQueriesUDP {} now up.udp).b = feed {} tr ∧ Sourced (FromUpstream up) tr := by
    obtain ⟨tr, h1, h2⟩ := udpLoop_trace (now + lookupTimeout) up.udp { b := {}, now := now }
    exact ⟨tr, h1, fun e he => Or.inl (h2 e he)⟩
  have ht : ∀ (b : Builder) (t0 : Nat), ∃ tr, (sendQueriesTCP b t0 up.conns).b = feed b tr ∧ Sourced (FromUpstream up) tr := by
    intro b t0
    obtain ⟨tr, h1, h2⟩ := tcpLoop_trace (t0 + lookupTimeout) tcpAttempts { b := b, now := t0 } up.conns
    exact ⟨tr, h1, fun e he => Or.inr (h2 e he)⟩
  cases cfg.hasUDP with
  | true =>
    simp only [if_true]
    obtain ⟨tr1, h1, h2⟩ := hu
    split
    · obtain ⟨tr2, g1, g2⟩ := ht (sendQueriesUDP {} now up.udp).b (sendQueriesUDP {} now up.udp).now
      refine ⟨tr1 ++ tr2, ?_, ?_⟩
      · rw [feed_append, ← h1]; exact g1
      · intro e he
        rcases List.mem_append.mp he with h | h
        · exact h2 e h
        · exact g2 e h
    · exact ⟨tr1, h1, h2⟩
  | false =>
    simp only [Bool.false_eq_true, if_false]
    split
    · exact ht {} now
    · exact ⟨[], rfl, by intro e he; cases he⟩


theorem foldAns_done (now : Nat) (xs : List Ans) (b : Builder) :
    (xs.foldl (applyAns now) b).v4done = b.v4done ∧ (xs.foldl (applyAns now) b).v6done = b.v6done := by
  induction xs generalizing b with
  | nil => exact ⟨rfl, rfl⟩
  | cons x r ih =>
    have h : (applyAns now b x).v4done = b.v4done ∧ (applyAns now b x).v6done = b.v6done := by
      unfold applyAns; dsimp only; split
      · exact ⟨rfl, rfl⟩
      · split <;> exact ⟨rfl, rfl⟩
    have := ih (applyAns now b x)
    simp only [List.foldl_cons]
    exact ⟨this.1.trans h.1, this.2.trans h.2⟩

theorem foldAuth_done (now : Nat) (xs : List (Bool × Nat)) (b : Builder) :
    (xs.foldl (applyAuth now) b).v4done = b.v4done ∧ (xs.foldl (applyAuth now) b).v6done = b.v6done := by
  induction xs generalizing b with
  | nil => exact ⟨rfl, rfl⟩
  | cons x r ih =>
    have h : (applyAuth now b x).v4done = b.v4done ∧ (applyAuth now b x).v6done = b.v6done := by
      unfold applyAuth; split <;> exact ⟨rfl, rfl⟩
    have := ih (applyAuth now b x)
    simp only [List.foldl_cons]
    exact ⟨this.1.trans h.1, this.2.trans h.2⟩

/-- a response rejected after the answer loop leaves the done flags alone -/
theorem afterAnswers_err_done (b : Builder) (now : Nat) (m : Msg) (isUDP : Bool)
    (h : (afterAnswers b now m isUDP).2 = none) :
    (afterAnswers b now m isUDP).1.v4done = b.v4done ∧ (afterAnswers b now m isUDP).1.v6done = b.v6done := by
  unfold afterAnswers at h ⊢
  cases hae : m.ansEnd with
  | hdrErr => simp
  | bodyErr ttl => simp
  | done =>
    simp only [hae] at h ⊢
    by_cases hs : (soaOnlyIfZero && b.exp.isSome) = true
    · simp [hs] at h
    · simp only [hs, Bool.false_eq_true, if_false] at h ⊢
      have hf := foldAuth_done now m.auths b
      cases hau : m.authEnd with
      | done => simp [hau] at h
      | hdrErr => simp only [hau, Bool.not_false, if_true]; exact hf
      | skipErr soa ttl =>
        simp only [hau, Bool.not_false, if_true]
        have : (applyAuth now (m.auths.foldl (applyAuth now) b) (soa, ttl)).v4done = (m.auths.foldl (applyAuth now) b).v4done ∧
            (applyAuth now (m.auths.foldl (applyAuth now) b) (soa, ttl)).v6done = (m.auths.foldl (applyAuth now) b).v6done := by
          unfold applyAuth; split <;> exact ⟨rfl, rfl⟩
        exact ⟨this.1.trans hf.1, this.2.trans hf.2⟩

theorem parseBody_err_done (b : Builder) (now : Nat) (m : Msg) (isUDP : Bool)
    (h : (parseBody b now m isUDP).2 = none) :
    (parseBody b now m isUDP).1.v4done = b.v4done ∧ (parseBody b now m isUDP).1.v6done = b.v6done := by
  rw [parseBody_eq] at h ⊢
  split; · exact ⟨rfl, rfl⟩
  split; · exact ⟨rfl, rfl⟩
  split; · exact ⟨rfl, rfl⟩
  rename_i h1 h2 h3
  simp only [h1, h2, h3, if_false] at h
  dsimp only at h ⊢
  have hb : (if rcodeFailure.contains m.rcode = true then { b with exp := failureExp b.exp now } else b).v4done = b.v4done ∧
      (if rcodeFailure.contains m.rcode = true then { b with exp := failureExp b.exp now } else b).v6done = b.v6done := by
    split <;> exact ⟨rfl, rfl⟩
  split
  · exact hb
  · rename_i h4
    simp only [h4, if_false] at h
    have h5 := afterAnswers_err_done _ now m isUDP h
    have h6 := foldAns_done now m.answers (if rcodeFailure.contains m.rcode = true then { b with exp := failureExp b.exp now } else b)
    exact ⟨h5.1.trans (h6.1.trans hb.1), h5.2.trans (h6.2.trans hb.2)⟩

theorem idCheck_done (b b' : Builder) (id : Nat) (d : Bool) (h : idCheck b id = some (b', d)) :
    b'.v4done = b.v4done ∧ b'.v6done = b.v6done := by
  unfold idCheck at h
  repeat' split at h
  all_goals first | (cases h; exact ⟨rfl, rfl⟩) | cases h

/-- **malformed / unusable responses never mark a family done** -/
theorem parseMsg_err_done (b : Builder) (now : Nat) (w : Wire) (isUDP : Bool)
    (h : (parseMsg b now w isUDP).2 = none) :
    (parseMsg b now w isUDP).1.v4done = b.v4done ∧ (parseMsg b now w isUDP).1.v6done = b.v6done := by
  unfold parseMsg at h ⊢
  cases w with
  | garbage => exact ⟨rfl, rfl⟩
  | msg m =>
    dsimp only at h ⊢
    cases hi : idCheck b m.id with
    | none => exact ⟨rfl, rfl⟩
    | some r =>
      obtain ⟨b', d⟩ := r
      have hd := idCheck_done b b' m.id d hi
      cases d with
      | true => simp [hi] at h
      | false =>
        simp only [hi] at h ⊢
        have := parseBody_err_done b' now m isUDP h
        exact ⟨this.1.trans hd.1, this.2.trans hd.2⟩

/-- a wire that `parseMsg` rejects whatever the builder, the time and the transport -/
def Bad (w : Wire) : Prop := ∀ b now u, (parseMsg b now w u).2 = none

theorem feed_bad_done (tr : List (Nat × Wire × Bool)) (b : Builder) (hb : ∀ e ∈ tr, Bad e.2.1) :
    (feed b tr).v4done = b.v4done ∧ (feed b tr).v6done = b.v6done := by
  induction tr generalizing b with
  | nil => exact ⟨rfl, rfl⟩
  | cons x r ih =>
    obtain ⟨now, w, u⟩ := x
    have h1 := parseMsg_err_done b now w u (hb (now, w, u) (by simp) b now u)
    have h2 := ih (parseMsg b now w u).1 (fun e he => hb e (by simp [he]))
    simp only [feed]
    exact ⟨h2.1.trans h1.1, h2.2.trans h1.2⟩




theorem afterAnswers_tc_udp (b : Builder) (now : Nat) (m : Msg) (htc : m.tc = true) :
    (afterAnswers b now m true).1.v4done = b.v4done ∧ (afterAnswers b now m true).1.v6done = b.v6done := by
  unfold afterAnswers
  cases m.ansEnd with
  | hdrErr => simp
  | bodyErr ttl => simp
  | done =>
    simp only [htc, Bool.not_true, Bool.or_self, Bool.false_eq_true, if_false]
    have hf := foldAuth_done now m.auths b
    by_cases hs : (soaOnlyIfZero && b.exp.isSome) = true
    · simp [hs]
    · simp only [hs, Bool.false_eq_true, if_false]
      cases m.authEnd with
      | done => simpa using hf
      | hdrErr => simpa using hf
      | skipErr soa ttl =>
        have : (applyAuth now (m.auths.foldl (applyAuth now) b) (soa, ttl)).v4done = (m.auths.foldl (applyAuth now) b).v4done ∧
            (applyAuth now (m.auths.foldl (applyAuth now) b) (soa, ttl)).v6done = (m.auths.foldl (applyAuth now) b).v6done := by
          unfold applyAuth; split <;> exact ⟨rfl, rfl⟩
        simp only [Bool.not_false, if_true]
        exact ⟨this.1.trans hf.1, this.2.trans hf.2⟩

theorem parseBody_tc_udp (b : Builder) (now : Nat) (m : Msg) (htc : m.tc = true) :
    (parseBody b now m true).1.v4done = b.v4done ∧ (parseBody b now m true).1.v6done = b.v6done := by
  rw [parseBody_eq]
  split; · exact ⟨rfl, rfl⟩
  split; · exact ⟨rfl, rfl⟩
  split; · exact ⟨rfl, rfl⟩
  dsimp only
  have hb : (if rcodeFailure.contains m.rcode = true then { b with exp := failureExp b.exp now } else b).v4done = b.v4done ∧
      (if rcodeFailure.contains m.rcode = true then { b with exp := failureExp b.exp now } else b).v6done = b.v6done := by
    split <;> exact ⟨rfl, rfl⟩
  split
  · exact hb
  · have h5 := afterAnswers_tc_udp (m.answers.foldl (applyAns now) (if rcodeFailure.contains m.rcode = true then { b with exp := failureExp b.exp now } else b)) now m htc
    have h6 := foldAns_done now m.answers (if rcodeFailure.contains m.rcode = true then { b with exp := failureExp b.exp now } else b)
    exact ⟨h5.1.trans (h6.1.trans hb.1), h5.2.trans (h6.2.trans hb.2)⟩

theorem afterAnswers_hdr (b : Builder) (now : Nat) (m : Msg) (u : Bool) (hd : Hdr)
    (h : (afterAnswers b now m u).2 = some hd) : hd = m.hdr := by
  unfold afterAnswers at h
  cases hae : m.ansEnd with
  | hdrErr => simp [hae] at h
  | bodyErr ttl => simp [hae] at h
  | done =>
    simp only [hae] at h
    repeat' split at h
    all_goals first | (cases h; done) | (cases h; rfl) | (injection h with h'; exact h'.symm)

theorem parseBody_hdr (b : Builder) (now : Nat) (m : Msg) (u : Bool) (hd : Hdr)
    (h : (parseBody b now m u).2 = some hd) : hd = m.hdr := by
  rw [parseBody_eq] at h
  split at h; · cases h
  split at h; · cases h
  split at h; · cases h
  dsimp only at h
  split at h; · cases h
  exact afterAnswers_hdr _ now m u hd h

/-- over UDP a response with the TC bit never completes a family -/
theorem parseMsg_tc_udp (b b' : Builder) (now : Nat) (w : Wire) (h : Hdr)
    (hp : parseMsg b now w true = (b', some h)) (htc : h.tc = true) :
    b'.v4done = b.v4done ∧ b'.v6done = b.v6done := by
  unfold parseMsg at hp
  cases w with
  | garbage => cases hp
  | msg m =>
    dsimp only at hp
    cases hi : idCheck b m.id with
    | none => simp [hi] at hp
    | some r =>
      obtain ⟨b1, d⟩ := r
      have hd := idCheck_done b b1 m.id d hi
      cases d with
      | true => simp only [hi, Prod.mk.injEq] at hp; rw [← hp.1]; exact hd
      | false =>
        simp only [hi] at hp
        have hh : (parseBody b1 now m true).2 = some h := by rw [hp]
        have hmtc : m.tc = true := by
          have := parseBody_hdr b1 now m true h hh
          rw [this] at htc; exact htc
        have := parseBody_tc_udp b1 now m hmtc
        rw [hp] at this
        exact ⟨this.1.trans hd.1, this.2.trans hd.2⟩


section spec
variable {K V : Type} [DecidableEq K]

theorem find_append (s t : Spec K V) (k : K) :
    Spec.find (s ++ t) k = (Spec.find s k).or (Spec.find t k) := by
  induction s with
  | nil => simp [Spec.find]
  | cons p r ih =>
    obtain ⟨k', v⟩ := p
    by_cases h : k' = k <;> simp [Spec.find, h, ih]

theorem find_erase_ne (s : Spec K V) (k k' : K) (h : k' ≠ k) : Spec.find (Spec.erase s k) k' = Spec.find s k' := by
  induction s with
  | nil => rfl
  | cons p r ih =>
    obtain ⟨k0, v⟩ := p
    by_cases h0 : k0 = k
    · subst h0
      have : ¬ (k0 = k') := fun e => h e.symm
      simp only [Spec.erase, List.filter_cons, not_true_eq_false, decide_false, Bool.false_eq_true, if_false, Spec.find, this]
      exact ih
    · by_cases h1 : k0 = k'
      · subst h1
        simp [Spec.erase, List.filter_cons, h0, Spec.find]
      · simp only [Spec.erase, List.filter_cons, h0, not_false_eq_true, decide_true, if_true, Spec.find, h1, if_false]
        exact ih

theorem find_erase_self (s : Spec K V) (k : K) : Spec.find (Spec.erase s k) k = none := by
  induction s with
  | nil => rfl
  | cons p r ih =>
    obtain ⟨k0, v⟩ := p
    by_cases h0 : k0 = k
    · simp only [Spec.erase, List.filter_cons, h0, not_true_eq_false, decide_false, Bool.false_eq_true, if_false]; exact ih
    · simp only [Spec.erase, List.filter_cons, h0, not_false_eq_true, decide_true, if_true, Spec.find, if_false]; exact ih

/-- a `Get` moves the entry to the most-recent position but changes no binding -/
theorem find_get (s : Spec K V) (k k' : K) : Spec.find (Spec.get s k).1 k' = Spec.find s k' := by
  unfold Spec.get
  cases h : Spec.find s k with
  | none => rfl
  | some v =>
    simp only [Spec.touch, find_append]
    by_cases hk : k' = k
    · subst hk; simp [find_erase_self, Spec.find, h]
    · have : ¬ (k = k') := fun e => hk e.symm
      simp [find_erase_ne s k k' hk, Spec.find, this]

theorem get_snd (s : Spec K V) (k : K) : (Spec.get s k).2 = Spec.find s k := by
  unfold Spec.get; cases Spec.find s k <;> rfl

end spec


/-- all addresses of a builder -/
def Builder.addrs (b : Builder) : List String := b.a ++ b.aaaa

/-- `x` is the address of an A/AAAA record in the answer section of `m`, a response (QR=1, RA=1)
carrying one of the lookup's own two transaction ids -/
def AddrIn (m : Msg) (x : String) : Prop :=
  (m.id = idV4 ∨ m.id = idV6) ∧ m.response = true ∧ m.ra = true ∧
    ∃ r ∈ m.answers, r.addr = x ∧ (r.kind = typeA ∨ r.kind = typeAAAA)

theorem applyAns_addrs (now : Nat) (b : Builder) (r : Ans) (x : String) (hx : x ∈ (applyAns now b r).addrs) :
    x ∈ b.addrs ∨ (r.addr = x ∧ (r.kind = typeA ∨ r.kind = typeAAAA)) := by
  unfold applyAns at hx
  dsimp only at hx
  split at hx
  · rename_i hk
    simp only [Builder.addrs, List.mem_append, List.mem_singleton] at hx ⊢
    rcases hx with (h | h) | h
    · exact Or.inl (Or.inl h)
    · exact Or.inr ⟨h.symm, Or.inl hk⟩
    · exact Or.inl (Or.inr h)
  · split at hx
    · rename_i hk
      simp only [Builder.addrs, List.mem_append, List.mem_singleton] at hx ⊢
      rcases hx with h | h | h
      · exact Or.inl (Or.inl h)
      · exact Or.inl (Or.inr h)
      · exact Or.inr ⟨h.symm, Or.inr hk⟩
    · exact Or.inl hx

theorem foldAns_addrs (now : Nat) (xs : List Ans) (b : Builder) (x : String)
    (hx : x ∈ (xs.foldl (applyAns now) b).addrs) :
    x ∈ b.addrs ∨ ∃ r ∈ xs, r.addr = x ∧ (r.kind = typeA ∨ r.kind = typeAAAA) := by
  induction xs generalizing b with
  | nil => exact Or.inl hx
  | cons r rest ih =>
    rcases ih (applyAns now b r) hx with h | ⟨r', hr', h⟩
    · rcases applyAns_addrs now b r x h with h1 | h1
      · exact Or.inl h1
      · exact Or.inr ⟨r, by simp, h1⟩
    · exact Or.inr ⟨r', by simp [hr'], h⟩

theorem foldAuth_addrs (now : Nat) (xs : List (Bool × Nat)) (b : Builder) :
    (xs.foldl (applyAuth now) b).addrs = b.addrs := by
  induction xs generalizing b with
  | nil => rfl
  | cons y r ih =>
    have h : (applyAuth now b y).addrs = b.addrs := by unfold applyAuth; split <;> rfl
    simp only [List.foldl_cons]; rw [ih, h]

theorem markDone_addrs (b : Builder) (id : Nat) : (markDone b id).addrs = b.addrs := by
  unfold markDone; split
  · rfl
  · split <;> rfl

theorem afterAnswers_addrs (b : Builder) (now : Nat) (m : Msg) (u : Bool) :
    (afterAnswers b now m u).1.addrs = b.addrs := by
  unfold afterAnswers
  cases m.ansEnd with
  | hdrErr => rfl
  | bodyErr ttl => rfl
  | done =>
    have hf := foldAuth_addrs now m.auths b
    have hs : ∀ soa ttl, (applyAuth now (m.auths.foldl (applyAuth now) b) (soa, ttl)).addrs = b.addrs := by
      intro soa ttl
      have : (applyAuth now (m.auths.foldl (applyAuth now) b) (soa, ttl)).addrs = (m.auths.foldl (applyAuth now) b).addrs := by
        unfold applyAuth; split <;> rfl
      rw [this, hf]
    dsimp only
    by_cases h1 : (soaOnlyIfZero && b.exp.isSome) = true
    · simp only [h1, if_true, Bool.not_true, Bool.false_eq_true, if_false]
      split
      · exact markDone_addrs _ _
      · rfl
    · simp only [h1, Bool.false_eq_true, if_false]
      cases m.authEnd with
      | done =>
        simp only [Bool.not_true, Bool.false_eq_true, if_false]
        split
        · rw [markDone_addrs]; exact hf
        · exact hf
      | hdrErr => simpa using hf
      | skipErr soa ttl => simpa using hs soa ttl

theorem parseBody_addrs (b : Builder) (now : Nat) (m : Msg) (u : Bool) (x : String)
    (hx : x ∈ (parseBody b now m u).1.addrs) :
    x ∈ b.addrs ∨ (m.response = true ∧ m.ra = true ∧ ∃ r ∈ m.answers, r.addr = x ∧ (r.kind = typeA ∨ r.kind = typeAAAA)) := by
  rw [parseBody_eq] at hx
  split at hx; · exact Or.inl hx
  split at hx; · exact Or.inl hx
  split at hx; · exact Or.inl hx
  rename_i h1 h2 _
  dsimp only at hx
  have hb : (if rcodeFailure.contains m.rcode = true then { b with exp := failureExp b.exp now } else b).addrs = b.addrs := by
    split <;> rfl
  split at hx
  · rw [hb] at hx; exact Or.inl hx
  · rw [afterAnswers_addrs] at hx
    rcases foldAns_addrs now m.answers _ x hx with h | h
    · rw [hb] at h; exact Or.inl h
    · exact Or.inr ⟨by simpa using h1, by simpa using h2, h⟩

theorem idCheck_addrs (b b' : Builder) (id : Nat) (d : Bool) (h : idCheck b id = some (b', d)) (x : String)
    (hx : x ∈ b'.addrs) : x ∈ b.addrs ∧ (id = idV4 ∨ id = idV6) := by
  unfold idCheck at h
  split at h
  · rename_i hid
    split at h
    · cases h; exact ⟨hx, Or.inl hid⟩
    · cases h
      simp only [Builder.addrs, List.nil_append] at hx
      exact ⟨by simp [Builder.addrs, hx], Or.inl hid⟩
  · split at h
    · rename_i hid
      split at h
      · cases h; exact ⟨hx, Or.inr hid⟩
      · cases h
        simp only [Builder.addrs, List.append_nil] at hx
        exact ⟨by simp [Builder.addrs, hx], Or.inr hid⟩
    · cases h

theorem parseMsg_addrs (b : Builder) (now : Nat) (w : Wire) (u : Bool) (x : String)
    (hx : x ∈ (parseMsg b now w u).1.addrs) : x ∈ b.addrs ∨ ∃ m, w = .msg m ∧ AddrIn m x := by
  unfold parseMsg at hx
  cases w with
  | garbage => exact Or.inl hx
  | msg m =>
    dsimp only at hx
    cases hi : idCheck b m.id with
    | none => simp only [hi] at hx; exact Or.inl hx
    | some r =>
      obtain ⟨b', d⟩ := r
      cases d with
      | true => simp only [hi] at hx; exact Or.inl (idCheck_addrs b b' m.id true hi x hx).1
      | false =>
        simp only [hi] at hx
        rcases parseBody_addrs b' now m u x hx with h | ⟨h1, h2, h3⟩
        · exact Or.inl (idCheck_addrs b b' m.id false hi x h).1
        · -- the id: idCheck succeeded
          have hid : m.id = idV4 ∨ m.id = idV6 := by
            unfold idCheck at hi
            by_cases h4 : m.id = idV4
            · exact Or.inl h4
            · by_cases h6 : m.id = idV6
              · exact Or.inr h6
              · simp [h4, h6] at hi
          exact Or.inr ⟨m, rfl, hid, h1, h2, h3⟩

theorem feed_addrs (tr : List (Nat × Wire × Bool)) (b : Builder) (x : String) (hx : x ∈ (feed b tr).addrs) :
    x ∈ b.addrs ∨ ∃ e ∈ tr, ∃ m, e.2.1 = .msg m ∧ AddrIn m x := by
  induction tr generalizing b with
  | nil => exact Or.inl hx
  | cons e rest ih =>
    obtain ⟨now, w, u⟩ := e
    rcases ih _ hx with h | ⟨e', he', h⟩
    · rcases parseMsg_addrs b now w u x h with h1 | ⟨m, hm, h1⟩
      · exact Or.inl h1
      · exact Or.inr ⟨(now, w, u), by simp, m, hm, h1⟩
    · exact Or.inr ⟨e', by simp [he'], h⟩


section specmem
variable {K V : Type} [DecidableEq K]

theorem find_mem (s : Spec K V) (k : K) (v : V) (h : Spec.find s k = some v) : (k, v) ∈ s := by
  induction s with
  | nil => simp [Spec.find] at h
  | cons p r ih =>
    obtain ⟨k0, v0⟩ := p
    by_cases h0 : k0 = k
    · simp only [Spec.find, h0, if_true, Option.some.injEq] at h
      subst h0; subst h; simp
    · simp only [Spec.find, h0, if_false] at h
      exact List.mem_cons_of_mem _ (ih h)

theorem mem_erase (s : Spec K V) (k : K) (kv : K × V) (h : kv ∈ Spec.erase s k) : kv ∈ s :=
  (List.mem_filter.mp h).1

theorem mem_get (s : Spec K V) (k : K) (kv : K × V) (h : kv ∈ (Spec.get s k).1) : kv ∈ s := by
  unfold Spec.get at h
  cases hf : Spec.find s k with
  | none => simpa [hf] using h
  | some v =>
    simp only [hf, Spec.touch, List.mem_append, List.mem_singleton] at h
    rcases h with h | h
    · exact mem_erase s k kv h
    · subst h; exact find_mem s k v hf

theorem mem_set (cap : Nat) (s : Spec K V) (k : K) (v : V) (kv : K × V) (h : kv ∈ Spec.set cap s k v) :
    kv ∈ s ∨ kv = (k, v) := by
  unfold Spec.set at h
  cases hf : Spec.find s k with
  | none =>
    simp only [hf, Spec.add, List.mem_append, List.mem_singleton] at h
    rcases h with h | h
    · split at h
      · exact Or.inl (List.mem_of_mem_tail h)
      · exact Or.inl h
    · exact Or.inr h
  | some v0 =>
    simp only [hf, Spec.touch, List.mem_append, List.mem_singleton] at h
    rcases h with h | h
    · exact Or.inl (mem_erase s k kv h)
    · exact Or.inr h

end specmem

/-- the outcome hands `r` to the caller -/
def Carries (o : Outcome) (r : Result) : Prop := o = .hit r ∨ o = .fresh r ∨ o = .stale r

/-- `r` is the completed result of an upstream round trip that some goroutine made *for this name*:
it probed `name` at `t0`, its round trip ended with script `up`, and `r` is what `sendQueries`
built from that script -/
def Justified (cfg : Config) (all : List Act) (name : String) (r : Result) : Prop :=
  ∃ tid t0 up, Act.probe tid name t0 ∈ all ∧ Act.finish tid up ∈ all ∧
    (sendQueries cfg t0 up).b.isDone = true ∧ r = (sendQueries cfg t0 up).b.result

theorem Justified.mono {cfg : Config} {all all' : List Act} {name : String} {r : Result}
    (h : Justified cfg all name r) (hs : ∀ a ∈ all, a ∈ all') : Justified cfg all' name r := by
  obtain ⟨tid, t0, up, h1, h2, h3, h4⟩ := h
  exact ⟨tid, t0, up, hs _ h1, hs _ h2, h3, h4⟩

/-- invariant of the interleaved system: every cache binding and every value a pending lookup carries
was produced by a lookup of that very name -/
def CInv (cfg : Config) (seen : List Act) (s : CState) : Prop :=
  (∀ kv ∈ s.cache, Justified cfg seen kv.1 kv.2) ∧
  (∀ tp ∈ s.pending, Act.probe tp.1 tp.2.name tp.2.start ∈ seen ∧
      ∀ r, tp.2.cached = some r → Justified cfg seen tp.2.name r)

theorem findPending_some (ps : List (Nat × Pending)) (tid : Nat) (tp : Nat × Pending)
    (h : findPending ps tid = some tp) : tp ∈ ps ∧ tp.1 = tid := by
  unfold findPending at h
  exact ⟨List.mem_of_find?_eq_some h, by simpa using List.find?_some h⟩

theorem cstep_inv (cfg : Config) (seen : List Act) (s : CState) (a : Act) (hi : CInv cfg seen s) :
    CInv cfg (seen ++ [a]) (cstep cfg s a).1 ∧
    ∀ e, (cstep cfg s a).2 = some e → ∀ r, Carries e.out r → Justified cfg (seen ++ [a]) e.name r := by
  have hsub : ∀ x ∈ seen, x ∈ seen ++ [a] := fun x hx => List.mem_append_left _ hx
  have hlift : CInv cfg (seen ++ [a]) s :=
    ⟨fun kv h => (hi.1 kv h).mono hsub, fun tp h => ⟨hsub _ (hi.2 tp h).1, fun r hr => ((hi.2 tp h).2 r hr).mono hsub⟩⟩
  cases a with
  | probe tid name now =>
    cases hp : findPending s.pending tid with
    | some tp =>
      simp only [cstep, hp]
      exact ⟨hlift, by intro e he; cases he⟩
    | none =>
      rcases hget : Spec.get s.cache name with ⟨cache, cached⟩
      have e1 : cache = (Spec.get s.cache name).1 := by rw [hget]
      have e2 : cached = (Spec.get s.cache name).2 := by rw [hget]
      have hcache : ∀ kv ∈ cache, Justified cfg (seen ++ [.probe tid name now]) kv.1 kv.2 :=
        fun kv h => hlift.1 kv (mem_get _ name _ (by rw [← e1]; exact h))
      have hcached : ∀ r, cached = some r → Justified cfg (seen ++ [.probe tid name now]) name r := by
        intro r hr
        rw [e2, get_snd] at hr
        exact hlift.1 (name, r) (find_mem _ _ _ hr)
      have hpend : CInv cfg (seen ++ [.probe tid name now])
          { cache := cache, pending := (tid, { name := name, cached := cached, start := now }) :: s.pending } := by
        refine ⟨hcache, ?_⟩
        intro tp htp
        rcases List.mem_cons.mp htp with h | h
        · subst h; exact ⟨by simp, hcached⟩
        · exact hlift.2 tp h
      cases cached with
      | none =>
        simp only [cstep, hp, hget]
        exact ⟨hpend, by intro e he; cases he⟩
      | some r0 =>
        simp only [cstep, hp, hget]
        split
        · refine ⟨⟨hcache, hlift.2⟩, ?_⟩
          intro e he r hr
          simp only [Option.some.injEq] at he; subst he
          rcases hr with h | h | h <;> cases h
          exact hcached _ rfl
        · exact ⟨hpend, by intro e he; cases he⟩
  | finish tid up =>
    cases hp : findPending s.pending tid with
    | none =>
      simp only [cstep, hp]
      exact ⟨hlift, by intro e he; cases he⟩
    | some tp =>
      obtain ⟨hmem, htid⟩ := findPending_some _ _ _ hp
      have hpd := hi.2 tp hmem
      have hfilter : ∀ x ∈ s.pending.filter (fun x => !(x.1 == tid)),
          Act.probe x.1 x.2.name x.2.start ∈ seen ++ [.finish tid up] ∧
            ∀ r, x.2.cached = some r → Justified cfg (seen ++ [.finish tid up]) x.2.name r :=
        fun x hx => hlift.2 x (List.mem_filter.mp hx).1
      simp only [cstep, hp]
      split
      · refine ⟨⟨hlift.1, hfilter⟩, ?_⟩
        intro e he r hr
        simp only [Option.some.injEq] at he; subst he
        dsimp only at hr
        cases hc : tp.2.cached with
        | none => simp only [hc] at hr; rcases hr with h | h | h <;> cases h
        | some r0 =>
          simp only [hc] at hr
          rcases hr with h | h | h <;> cases h
          exact (hpd.2 r hc).mono hsub
      · rename_i hdone
        have hj : Justified cfg (seen ++ [.finish tid up]) tp.2.name (sendQueries cfg tp.2.start up).b.result :=
          ⟨tp.1, tp.2.start, up, hsub _ hpd.1, by rw [htid]; simp, by simpa using hdone, rfl⟩
        refine ⟨⟨?_, hfilter⟩, ?_⟩
        · intro kv hkv
          rcases mem_set _ _ _ _ _ hkv with h | h
          · exact hlift.1 kv h
          · subst h; exact hj
        · intro e he r hr
          simp only [Option.some.injEq] at he; subst he
          rcases hr with h | h | h <;> cases h
          exact hj

theorem crun_inv (cfg : Config) (acts : List Act) (seen : List Act) (s : CState) (hi : CInv cfg seen s) :
    CInv cfg (seen ++ acts) (crun cfg s acts).1 ∧
    ∀ e ∈ (crun cfg s acts).2, ∀ r, Carries e.out r → Justified cfg (seen ++ acts) e.name r := by
  induction acts generalizing seen s with
  | nil => simpa [crun] using hi
  | cons a rest ih =>
    obtain ⟨h1, h2⟩ := cstep_inv cfg seen s a hi
    obtain ⟨g1, g2⟩ := ih (seen ++ [a]) (cstep cfg s a).1 h1
    have he : seen ++ [a] ++ rest = seen ++ a :: rest := by simp
    rw [he] at g1 g2
    unfold crun
    dsimp only
    refine ⟨g1, ?_⟩
    intro e hmem r hr
    cases hev : (cstep cfg s a).2 with
    | none => simp only [hev] at hmem; exact g2 e hmem r hr
    | some e0 =>
      simp only [hev] at hmem
      rcases List.mem_cons.mp hmem with h | h
      · subst h
        exact (h2 e hev r hr).mono (fun x hx => by
          rcases List.mem_append.mp hx with h | h
          · exact List.mem_append_left _ h
          · simp only [List.mem_singleton] at h; subst h; simp)
      · exact g2 e h r hr


theorem udpLoop_timeout_now (dl : Nat) (evs : List UdpEv) (o : UdpOut)
    (h : (udpLoop dl o evs).why = .timeout) : (udpLoop dl o evs).now = dl := by
  induction evs generalizing o with
  | nil => simp [udpLoop]
  | cons ev rest ih =>
    cases ev with
    | silence => simp [udpLoop]
    | readErr dt =>
      unfold udpLoop at h ⊢
      split
      · rfl
      · rename_i hh; simp only [hh, if_false] at h; exact ih _ h
    | dgram dt fs w =>
      unfold udpLoop at h ⊢
      split
      · rfl
      · rename_i hh
        simp only [hh, if_false] at h
        dsimp only at h ⊢
        cases fs with
        | false => simp only [Bool.not_false, if_true] at h ⊢; exact ih _ h
        | true =>
          simp only [Bool.not_true, Bool.false_eq_true, if_false] at h ⊢
          cases hp : parseMsg o.b (o.now + dt) w true with
          | mk b' r =>
            simp only [hp] at h ⊢
            cases r with
            | none => simp at h
            | some hd =>
              dsimp only at h ⊢
              by_cases htc : hd.tc = true
              · simp [htc] at h
              · simp only [htc, Bool.false_eq_true, if_false] at h ⊢
                by_cases hdn : b'.isDone = true
                · simp [hdn] at h
                · simp only [hdn, Bool.false_eq_true, if_false] at h ⊢
                  exact ih _ h


end SSV.Dns
