import SSV.Model.Router
/-
C09 helper lemmas: the port-set table, the three port representations and the binary search.
-/
namespace SSV.Router

/-! ### the bit table -/

def PortSet.WF (s : PortSet) : Prop := s.bits.size = portSpace

theorem PortSet.wf_empty : PortSet.empty.WF := by
  simp [PortSet.WF, PortSet.empty]

theorem PortSet.mem_empty (q : Nat) : PortSet.empty.mem q = false := by
  simp only [PortSet.empty, PortSet.mem, Array.getD_eq_getD_getElem?, Array.getElem?_replicate]
  split <;> rfl

theorem PortSet.wf_add (s : PortSet) (hs : s.WF) (p : Nat) : (s.add p).WF := by
  simp [PortSet.WF, PortSet.add] at *; exact hs

theorem PortSet.mem_add (s : PortSet) (hs : s.WF) (p q : Nat) (hp : p < portSpace) :
    ((s.add p).mem q = true ↔ q = p ∨ s.mem q = true) := by
  simp only [PortSet.add, PortSet.mem, Array.getD_eq_getD_getElem?, Array.getElem?_setIfInBounds]
  have hsz : p < s.bits.size := by rw [hs]; exact hp
  by_cases h : p = q
  · subst h; simp [hsz]
  · have h' : ¬ q = p := fun e => h e.symm
    simp [h, h']

theorem PortSet.wf_addRun (s : PortSet) (hs : s.WF) (a n : Nat) : (s.addRun a n).WF := by
  induction n generalizing s a with
  | zero => simpa [PortSet.addRun] using hs
  | succ n ih => simp only [PortSet.addRun]; exact ih _ (PortSet.wf_add s hs a) _

theorem PortSet.mem_addRun (s : PortSet) (hs : s.WF) (a n q : Nat) (h : a + n ≤ portSpace) :
    ((s.addRun a n).mem q = true ↔ (a ≤ q ∧ q < a + n) ∨ s.mem q = true) := by
  induction n generalizing s a with
  | zero =>
    simp only [PortSet.addRun]
    constructor
    · intro h; exact Or.inr h
    · rintro (⟨h1, h2⟩ | h)
      · omega
      · exact h
  | succ n ih =>
    simp only [PortSet.addRun]
    rw [ih (s.add a) (PortSet.wf_add s hs a) (a + 1) (by omega), PortSet.mem_add s hs a q (by omega)]
    constructor
    · rintro (⟨h1, h2⟩ | h | h)
      · exact Or.inl ⟨by omega, by omega⟩
      · exact Or.inl ⟨by omega, by omega⟩
      · exact Or.inr h
    · rintro (⟨h1, h2⟩ | h)
      · by_cases e : q = a
        · exact Or.inr (Or.inl e)
        · exact Or.inl ⟨by omega, by omega⟩
      · exact Or.inr (Or.inr h)

/-! ### `Count` / `First` -/

theorem countFrom_zero (mem : Nat → Bool) : ∀ n p, countFrom mem n p = 0 → ∀ q, p ≤ q → q < p + n → mem q = false := by
  intro n
  induction n with
  | zero => intro p _ q h1 h2; omega
  | succ n ih =>
    intro p h q h1 h2
    simp only [countFrom] at h
    by_cases hp : mem p = true
    · exfalso; simp [hp] at h
    · simp [hp] at h
      by_cases hq : q = p
      · subst hq; simpa using hp
      · exact ih (p + 1) h q (by omega) (by omega)

theorem firstFrom_ge (mem : Nat → Bool) : ∀ n p, countFrom mem n p ≠ 0 → p ≤ firstFrom mem n p := by
  intro n
  induction n with
  | zero => intro p h; simp [countFrom] at h
  | succ n ih =>
    intro p h
    simp only [firstFrom]
    by_cases hp : mem p = true
    · simp [hp]
    · simp only [countFrom, hp] at h
      simp [hp]
      have := ih (p + 1) (by simpa using h)
      omega

theorem countFrom_one (mem : Nat → Bool) : ∀ n p, countFrom mem n p = 1 →
    ∀ q, p ≤ q → q < p + n → (mem q = true ↔ q = firstFrom mem n p) := by
  intro n
  induction n with
  | zero => intro p h; simp [countFrom] at h
  | succ n ih =>
    intro p h q h1 h2
    simp only [countFrom] at h
    simp only [firstFrom]
    by_cases hp : mem p = true
    · simp [hp] at h
      rw [if_pos hp]
      constructor
      · intro hq
        by_cases e : q = p
        · exact e
        · have := countFrom_zero mem n (p + 1) (by omega) q (by omega) (by omega)
          rw [this] at hq; cases hq
      · intro e; subst e; exact hp
    · simp [hp] at h
      simp only [hp]
      have hge := firstFrom_ge mem n (p + 1) (by omega)
      by_cases e : q = p
      · subst e
        constructor
        · intro hq; exact absurd hq hp
        · intro e2; simp at e2; omega
      · simpa using ih (p + 1) h q (by omega) (by omega)

/-! ### `RangeSet` -/

def covered (rs : List (Nat × Nat)) (q : Nat) : Bool := rs.any (fun r => decide (r.1 ≤ q) && decide (q ≤ r.2))

theorem covered_cons (r : Nat × Nat) (rs : List (Nat × Nat)) (q : Nat) :
    covered (r :: rs) q = ((decide (r.1 ≤ q) && decide (q ≤ r.2)) || covered rs q) := by
  simp [covered]

theorem runs_covered (mem : Nat → Bool) : ∀ n p cur q, (∀ s, cur = some s → s < p) →
    (covered (runs mem n p cur) q = true ↔
      (p ≤ q ∧ q < p + n ∧ mem q = true) ∨ (∃ s, cur = some s ∧ s ≤ q ∧ q < p)) := by
  intro n
  induction n with
  | zero =>
    intro p cur q hc
    cases cur with
    | none =>
      simp only [runs, covered, List.any_nil]
      constructor
      · intro h; cases h
      · rintro (⟨a, b, _⟩ | ⟨s, h, _⟩)
        · omega
        · cases h
    | some s =>
      have := hc s rfl
      simp [runs, covered]; omega
  | succ n ih =>
    intro p cur q hc
    cases cur with
    | none =>
      simp only [runs]
      by_cases hp : mem p = true
      · rw [if_pos hp]
        rw [ih (p + 1) (some p) q (by intro s h; cases h; omega)]
        constructor
        · rintro (⟨a, b, c⟩ | ⟨s, h, a, b⟩)
          · exact Or.inl ⟨by omega, by omega, c⟩
          · cases h
            have : q = p := by omega
            subst this
            exact Or.inl ⟨by omega, by omega, hp⟩
        · rintro (⟨a, b, c⟩ | ⟨s, h, _⟩)
          · by_cases e : q = p
            · exact Or.inr ⟨p, rfl, by omega, by omega⟩
            · exact Or.inl ⟨by omega, by omega, c⟩
          · cases h
      · rw [if_neg hp]
        rw [ih (p + 1) none q (by intro s h; cases h)]
        constructor
        · rintro (⟨a, b, c⟩ | ⟨s, h, _⟩)
          · exact Or.inl ⟨by omega, by omega, c⟩
          · cases h
        · rintro (⟨a, b, c⟩ | ⟨s, h, _⟩)
          · by_cases e : q = p
            · subst e; exact absurd c hp
            · exact Or.inl ⟨by omega, by omega, c⟩
          · cases h
    | some s =>
      have hs := hc s rfl
      simp only [runs]
      by_cases hp : mem p = true
      · rw [if_pos hp]
        rw [ih (p + 1) (some s) q (by intro s' h; cases h; omega)]
        constructor
        · rintro (⟨a, b, c⟩ | ⟨s', h, a, b⟩)
          · exact Or.inl ⟨by omega, by omega, c⟩
          · cases h
            by_cases e : q = p
            · subst e; exact Or.inl ⟨by omega, by omega, hp⟩
            · exact Or.inr ⟨s, rfl, a, by omega⟩
        · rintro (⟨a, b, c⟩ | ⟨s', h, a, b⟩)
          · by_cases e : q = p
            · exact Or.inr ⟨s, rfl, by omega, by omega⟩
            · exact Or.inl ⟨by omega, by omega, c⟩
          · cases h
            exact Or.inr ⟨s, rfl, a, by omega⟩
      · rw [if_neg hp]
        rw [covered_cons, Bool.or_eq_true, ih (p + 1) none q (by intro s h; cases h)]
        simp only [Bool.and_eq_true, decide_eq_true_eq]
        constructor
        · rintro (⟨a, b⟩ | ⟨a, b, c⟩ | ⟨s', h, _⟩)
          · exact Or.inr ⟨s, rfl, a, by omega⟩
          · exact Or.inl ⟨by omega, by omega, c⟩
          · cases h
        · rintro (⟨a, b, c⟩ | ⟨s', h, a, b⟩)
          · by_cases e : q = p
            · subst e; exact absurd c hp
            · exact Or.inr (Or.inl ⟨by omega, by omega, c⟩)
          · cases h
            exact Or.inl ⟨a, by omega⟩

/-- every range produced starts at or after the open run's start (or the scan position) and is non-empty -/
theorem runs_lb (mem : Nat → Bool) : ∀ n p cur, (∀ s, cur = some s → s < p) →
    ∀ r ∈ runs mem n p cur, (match cur with | some s => s | none => p) ≤ r.1 ∧ r.1 ≤ r.2 := by
  intro n
  induction n with
  | zero =>
    intro p cur hc r hr
    cases cur with
    | none => simp [runs] at hr
    | some s =>
      have := hc s rfl
      simp [runs] at hr; subst hr; simp; omega
  | succ n ih =>
    intro p cur hc r hr
    cases cur with
    | none =>
      simp only [runs] at hr
      by_cases hp : mem p = true
      · rw [if_pos hp] at hr
        have := ih (p + 1) (some p) (by intro s h; cases h; omega) r hr
        simpa using this
      · rw [if_neg hp] at hr
        have := ih (p + 1) none (by intro s h; cases h) r hr
        simp at this ⊢; omega
    | some s =>
      have hs := hc s rfl
      simp only [runs] at hr
      by_cases hp : mem p = true
      · rw [if_pos hp] at hr
        have := ih (p + 1) (some s) (by intro s' h; cases h; omega) r hr
        simpa using this
      · rw [if_neg hp] at hr
        rcases List.mem_cons.mp hr with e | hr'
        · subst e; simp; omega
        · have := ih (p + 1) none (by intro s h; cases h) r hr'
          simp at this ⊢; omega

theorem runs_pairwise (mem : Nat → Bool) : ∀ n p cur, (∀ s, cur = some s → s < p) →
    (runs mem n p cur).Pairwise (fun a b => a.2 < b.1) := by
  intro n
  induction n with
  | zero =>
    intro p cur _
    cases cur <;> simp [runs]
  | succ n ih =>
    intro p cur hc
    cases cur with
    | none =>
      simp only [runs]
      by_cases hp : mem p = true
      · rw [if_pos hp]; exact ih (p + 1) (some p) (by intro s h; cases h; omega)
      · rw [if_neg hp]; exact ih (p + 1) none (by intro s h; cases h)
    | some s =>
      have hs := hc s rfl
      simp only [runs]
      by_cases hp : mem p = true
      · rw [if_pos hp]; exact ih (p + 1) (some s) (by intro s' h; cases h; omega)
      · rw [if_neg hp]
        refine List.Pairwise.cons ?_ (ih (p + 1) none (by intro s h; cases h))
        intro r hr
        have := runs_lb mem n (p + 1) none (by intro s h; cases h) r hr
        simp at this ⊢; omega

/-! ### `PortRangeSet.Contains` (binary search) -/

theorem bsearch_spec (rs : List (Nat × Nat)) (port : Nat)
    (hs : ∀ i j, i < j → j < rs.length → (rs.getD i (0, 0)).2 < (rs.getD j (0, 0)).1)
    (hw : ∀ i, i < rs.length → (rs.getD i (0, 0)).1 ≤ (rs.getD i (0, 0)).2) :
    ∀ fuel i j, j ≤ rs.length → j - i < fuel →
      (bsearch rs port fuel i j = true ↔
        ∃ k, i ≤ k ∧ k < j ∧ (rs.getD k (0, 0)).1 ≤ port ∧ port ≤ (rs.getD k (0, 0)).2) := by
  intro fuel
  induction fuel with
  | zero => intro i j _ h; omega
  | succ fuel ih =>
    intro i j hj hf
    unfold bsearch
    by_cases hij : i < j
    · simp only [hij, if_true]
      have hh1 : i ≤ (i + j) / 2 := by omega
      have hh2 : (i + j) / 2 < j := by omega
      generalize hh : (i + j) / 2 = h at hh1 hh2
      by_cases c1 : port > (rs.getD h (0, 0)).2
      · rw [if_pos c1]
        rw [ih (h + 1) j hj (by omega)]
        constructor
        · rintro ⟨k, a, b, c, d⟩; exact ⟨k, by omega, b, c, d⟩
        · rintro ⟨k, a, b, c, d⟩
          refine ⟨k, ?_, b, c, d⟩
          by_cases e : k < h
          · have := hs k h e (by omega)
            have := hw h (by omega)
            omega
          · by_cases e2 : k = h
            · subst e2; omega
            · omega
      · rw [if_neg c1]
        by_cases c2 : port < (rs.getD h (0, 0)).1
        · rw [if_pos c2]
          rw [ih i h (by omega) (by omega)]
          constructor
          · rintro ⟨k, a, b, c, d⟩; exact ⟨k, a, by omega, c, d⟩
          · rintro ⟨k, a, b, c, d⟩
            refine ⟨k, a, ?_, c, d⟩
            by_cases e : h < k
            · have := hs h k e (by omega)
              have := hw k (by omega)
              omega
            · by_cases e2 : k = h
              · subst e2; omega
              · omega
        · rw [if_neg c2]
          simp only [true_iff]
          exact ⟨h, hh1, hh2, by omega, by omega⟩
    · simp only [hij, if_false]
      constructor
      · intro h; cases h
      · rintro ⟨k, a, b, _⟩; omega

theorem getD_of_lt (rs : List (Nat × Nat)) (k : Nat) (h : k < rs.length) : rs.getD k (0, 0) = rs[k] := by
  simp [List.getD_eq_getElem?_getD, List.getElem?_eq_getElem h]

theorem rangesContain_eq_covered (rs : List (Nat × Nat))
    (hp : rs.Pairwise (fun a b => a.2 < b.1)) (hw : ∀ r ∈ rs, r.1 ≤ r.2) (port : Nat) :
    rangesContain rs port = covered rs port := by
  have hs' : ∀ i j, i < j → j < rs.length → (rs.getD i (0, 0)).2 < (rs.getD j (0, 0)).1 := by
    intro i j hij hj
    rw [getD_of_lt rs i (by omega), getD_of_lt rs j hj]
    exact List.pairwise_iff_getElem.mp hp i j (by omega) hj hij
  have hw' : ∀ i, i < rs.length → (rs.getD i (0, 0)).1 ≤ (rs.getD i (0, 0)).2 := by
    intro i hi
    rw [getD_of_lt rs i hi]
    exact hw _ (List.getElem_mem hi)
  have key := bsearch_spec rs port hs' hw' (rs.length + 1) 0 rs.length (Nat.le_refl _) (by omega)
  rw [Bool.eq_iff_iff]
  unfold rangesContain
  rw [key]
  simp only [covered, List.any_eq_true, Bool.and_eq_true, decide_eq_true_eq]
  constructor
  · rintro ⟨k, _, hk, a, b⟩
    rw [getD_of_lt rs k hk] at a b
    exact ⟨rs[k], List.getElem_mem hk, a, b⟩
  · rintro ⟨r, hr, a, b⟩
    obtain ⟨k, hk, e⟩ := List.mem_iff_getElem.mp hr
    refine ⟨k, Nat.zero_le _, hk, ?_, ?_⟩ <;> rw [getD_of_lt rs k hk, e] <;> assumption

/-- `RangeSet().Contains` decides the same ports as the bit table (for every table whose bit 0 is clear or not). -/
theorem rangeSet_contains (s : PortSet) (q : Nat) (hq : q < portSpace) :
    rangesContain s.rangeSet q = s.mem q := by
  have hc : ∀ t : Nat, (none : Option Nat) = some t → t < 0 := by intro t h; cases h
  rw [PortSet.rangeSet, rangesContain_eq_covered _ (runs_pairwise s.mem portSpace 0 none hc)
    (fun r hr => (runs_lb s.mem portSpace 0 none hc r hr).2)]
  rw [Bool.eq_iff_iff, runs_covered s.mem portSpace 0 none q hc]
  constructor
  · rintro (⟨_, _, c⟩ | ⟨t, h, _⟩)
    · exact c
    · cases h
  · intro c; exact Or.inl ⟨Nat.zero_le _, by omega, c⟩

/-- a table with exactly one set bit: `First` is that port -/
theorem first_of_count_one (s : PortSet) (h : s.count = 1) (q : Nat) (hq : q < portSpace) :
    (s.first == q) = s.mem q := by
  have := countFrom_one s.mem portSpace 0 h q (Nat.zero_le _) (by omega)
  rw [Bool.eq_iff_iff]
  simp only [beq_iff_eq]
  constructor
  · intro e; exact this.mpr e.symm
  · intro e; exact (this.mp e).symm

end SSV.Router
