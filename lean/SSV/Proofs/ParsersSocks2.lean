import SSV.Proofs.ParsersSocks
/-
C06 helper lemmas, part 5: SOCKS5 request stage and the whole server handshake; the session relay's
receive path; direct server load + first reply.
-/
namespace SSV.Parsers.Proofs
open SSV SSV.Go SSV.Outcome SSV.Parsers

theorem appendFromReader_ok_len {s sa rest : Bytes} (h : appendFromReader s = .ok (sa, rest)) :
    2 ≤ sa.length ∧ sa.length ≤ Gen.C06.MaxAddrLen := by
  unfold appendFromReader readFull at h
  simp only [Gen.C06.MaxAddrLen]
  split at h
  · rename_i h2
    simp only [ok_bind] at h
    have l2 : (List.take 2 s).length = 2 := by simp only [List.length_take]; omega
    rw [idx_of_lt (by omega), idx_of_lt (by omega)] at h
    simp only [ok_bind] at h
    have hl := ((List.take 2 s)[1]'(by omega)).toNat_lt
    split at h
    · simp only [pure_eq, ok_bind] at h
      split at h
      · simp only [ok_bind, Outcome.ok.injEq, Prod.mk.injEq] at h
        rw [← h.1]; simp only [List.length_append, List.length_take, List.length_drop]; omega
      · split at h <;> simp at h
    · split at h
      · simp only [pure_eq, ok_bind] at h
        split at h
        · simp only [ok_bind, Outcome.ok.injEq, Prod.mk.injEq] at h
          rw [← h.1]; simp only [List.length_append, List.length_take, List.length_drop]; omega
        · split at h <;> simp at h
      · split at h
        · simp only [pure_eq, ok_bind] at h
          split at h
          · simp only [ok_bind, Outcome.ok.injEq, Prod.mk.injEq] at h
            rw [← h.1]; simp only [List.length_append, List.length_take, List.length_drop]; omega
          · split at h <;> simp at h
        · simp at h
  · split at h <;> simp at h

theorem np_s5Request (tcp udp tcpLocal : Bool) (bound : Bytes) (st : S5) (hb : st.b.length = 3 + Gen.C06.MaxAddrLen) :
    NoPanic (s5Request tcp udp tcpLocal bound st) := by
  unfold s5Request
  simp only [Gen.C06.MaxAddrLen, Gen.C06.serverHandleRequest_lenGuard0] at hb ⊢
  split
  · omega
  · refine noPanic_bind (np_readInto st 0 5 (by omega)) ?_
    intro st1 h1
    have l1 := readInto_len h1
    rw [idx_of_lt (by omega)]
    simp only [ok_bind]
    split
    · simp
    · rw [slice_of_le (by omega), slice_of_le (by omega)]
      simp only [ok_bind]
      refine noPanic_bind (np_appendFromReader _) ?_
      rintro ⟨sa, rest⟩ hsa
      have hlen := appendFromReader_ok_len hsa
      simp only [Gen.C06.MaxAddrLen] at hlen
      dsimp only
      refine noPanic_bind (np_connAddrFromSlice sa) ?_
      rintro ⟨a, n⟩ _
      dsimp only
      have lb : (List.take 3 st1.b ++ sa ++ List.drop (3 + sa.length) st1.b).length = st1.b.length := by
        simp only [List.length_append, List.length_take, List.length_drop]; omega
      rw [idx_of_lt (by rw [lb]; omega)]
      simp only [ok_bind]
      split
      · simp
      · split
        · split
          · simp
          · refine noPanic_bind (np_set _ 1 _ (by simp only [lb]; omega)) ?_
            intro st4 h4
            have l4 := set_len h4
            simp only [lb] at l4
            rw [sliceTo_of_le (by omega)]
            simp only [ok_bind]
            rw [sliceTo_of_le (by simp only [l4]; omega)]
            simp
        · refine noPanic_bind (np_replyWithStatus _ _ (by simp only [lb, Gen.C06.IPv4AddrLen]; omega)) ?_
          intro _ _
          simp

theorem s5Request_len {tcp udp tcpLocal : Bool} {bound : Bytes} {st st' : S5} {a : Addr}
    (hb : st.b.length = 3 + Gen.C06.MaxAddrLen) (h : s5Request tcp udp tcpLocal bound st = .ok (st', a)) :
    st'.b.length = st.b.length := by
  unfold s5Request at h
  simp only [Gen.C06.MaxAddrLen] at hb
  split at h
  · simp at h
  · obtain ⟨st1, h1, h⟩ := bind_eq_ok h
    have l1 := readInto_len h1
    obtain ⟨v, _, h⟩ := bind_eq_ok h
    split at h
    · simp at h
    · obtain ⟨_, _, h⟩ := bind_eq_ok h
      obtain ⟨pre, _, h⟩ := bind_eq_ok h
      obtain ⟨⟨sa, rest⟩, hsa, h⟩ := bind_eq_ok h
      have hlen := appendFromReader_ok_len hsa
      simp only [Gen.C06.MaxAddrLen] at hlen
      dsimp only at h
      obtain ⟨⟨a', n⟩, _, h⟩ := bind_eq_ok h
      dsimp only at h
      obtain ⟨cmd, _, h⟩ := bind_eq_ok h
      have lb : (List.take 3 st1.b ++ sa ++ List.drop (3 + sa.length) st1.b).length = st1.b.length := by
        simp only [List.length_append, List.length_take, List.length_drop]; omega
      split at h
      · simp only [pure_eq, Outcome.ok.injEq, Prod.mk.injEq] at h
        rw [← h.1]; simp only [lb]; omega
      · split at h
        · split at h
          · simp at h
          · obtain ⟨st4, _, h⟩ := bind_eq_ok h
            obtain ⟨_, _, h⟩ := bind_eq_ok h
            obtain ⟨_, _, h⟩ := bind_eq_ok h
            simp at h
        · obtain ⟨_, _, h⟩ := bind_eq_ok h
          simp at h

/-- the whole SOCKS5 server handshake (both authentication modes, any command, any configuration),
followed by `Proceed` or `Abort`, never panics, for every client byte stream -/
theorem np_s5Server (auth : Bool) (check : Bytes → Bytes → Bool) (tcp udp tcpLocal : Bool) (bound : Bytes)
    (finish : Option UInt8) (stream : Bytes) : NoPanic (s5Server auth check tcp udp tcpLocal bound finish stream) := by
  unfold s5Server
  have hb0 : (⟨List.replicate (3 + Gen.C06.MaxAddrLen) 0, stream, []⟩ : S5).b.length = 3 + Gen.C06.MaxAddrLen := by simp
  refine noPanic_bind (np_s5MethodSelection _ _ hb0) ?_
  intro st1 h1
  have l1 : st1.b.length = 3 + Gen.C06.MaxAddrLen := by rw [s5MethodSelection_len h1]; exact hb0
  refine noPanic_bind ?_ ?_
  · split
    · exact np_s5UsernamePassword check st1 l1
    · simp
  · intro st2 h2
    have l2 : st2.b.length = 3 + Gen.C06.MaxAddrLen := by
      split at h2
      · rw [s5UsernamePassword_len h2]; exact l1
      · simp only [pure_eq, Outcome.ok.injEq] at h2; rw [← h2]; exact l1
    refine noPanic_bind (np_s5Request tcp udp tcpLocal bound st2 l2) ?_
    rintro ⟨st3, a⟩ h3
    have l3 : st3.b.length = 3 + Gen.C06.MaxAddrLen := by rw [s5Request_len l2 h3]; exact l2
    dsimp only
    cases finish with
    | none => simp
    | some status =>
      dsimp only
      refine noPanic_bind (np_replyWithStatus st3 status (by rw [l3]; simp only [Gen.C06.MaxAddrLen, Gen.C06.IPv4AddrLen]; omega)) ?_
      intro _ _
      simp

/-! #### the session relay's receive path -/

theorem udpSessionInfo_len {C : Ciphers} (hC : C.LenPreserving) {b b' : Bytes} {csid : Nat}
    (h : udpSessionInfo C b = .ok (csid, b')) : b'.length = b.length := by
  unfold udpSessionInfo at h
  simp only [Gen.C06.UDPServerSessionInfo_lenGuard0] at h
  split at h
  · simp at h
  · rename_i hl
    rw [arr_of_le (by omega)] at h
    simp only [ok_bind] at h
    obtain ⟨c, _, h⟩ := bind_eq_ok h
    simp only [pure_eq, Outcome.ok.injEq, Prod.mk.injEq] at h
    rw [← h.2, List.length_append, hC]
    simp only [List.length_take, List.length_drop]; omega

theorem np_udpServerReceive (C : Ciphers) (hC : C.LenPreserving) (now : Int) (idLen : Nat) (found replayed : Bool)
    (b : Bytes) (ps pl : Nat) (hb : ps + pl ≤ b.length) (hid : idLen = 0 ∨ idLen = Gen.C06.IdentityHeaderLength) :
    NoPanic (udpServerReceive C now idLen found replayed b ps pl) := by
  unfold udpServerReceive
  rw [slice_of_le (by omega)]
  simp only [ok_bind]
  refine noPanic_bind (np_udpSessionInfo C hC _) ?_
  rintro ⟨csid, pkt'⟩ h1
  have l1 := udpSessionInfo_len hC h1
  dsimp only
  refine noPanic_bind (np_udpNewUnpacker idLen found pkt' hid) ?_
  intro _ _
  refine np_udpServerUnpack C now _ replayed _ ps pl ?_ (by omega)
  simp only [List.length_append, List.length_take, List.length_drop] at l1 ⊢
  omega

theorem np_directServe (target : Addr) (targetOnly srcIsTarget : Bool) (n m : Nat) (r : R Unit)
    (h : directServe true target targetOnly srcIsTarget n m = some r) : NoPanic r := by
  unfold directServe at h
  split at h
  · rename_i hacc
    simp only [Option.some.injEq] at h
    subst h
    exact np_directServerPack true rfl target targetOnly srcIsTarget n m hacc
  · simp at h

end SSV.Parsers.Proofs
