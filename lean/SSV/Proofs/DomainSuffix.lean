import SSV.Model.DomainSet
/-
Suffix matching: `matchDomainSuffix`, the linear / map matchers and the trie decide the same language
"the domain equals a rule or ends with '.' ++ rule"; trie insertion order is irrelevant.
-/
namespace SSV.DomainSet

/-- the declarative meaning of one suffix rule: equality or a suffix on a label boundary -/
def SuffixOf (r d : Str) : Prop := d = r ∨ (dot :: r) <:+ d

/-- the declarative language of a set of suffix rules -/
def SuffixSpec (rs : List Str) (d : Str) : Prop := ∃ r ∈ rs, SuffixOf r d

/-! ### `matchDomainSuffix`, linear and map matchers -/

theorem matchDomainSuffix_iff (d s : Str) : matchDomainSuffix d s = true ↔ SuffixOf s d := by
  unfold matchDomainSuffix SuffixOf
  simp only [Bool.or_eq_true, beq_iff_eq, Bool.and_eq_true, decide_eq_true_eq]
  constructor
  · rintro (h | ⟨⟨hlen, hdot⟩, hdrop⟩)
    · exact Or.inl h
    · right
      have hn : d.length - s.length - 1 < d.length := by omega
      rw [List.getElem?_eq_getElem hn] at hdot
      have hdot' : d[d.length - s.length - 1] = dot := by simpa using hdot
      refine ⟨d.take (d.length - s.length - 1), ?_⟩
      have h1 := List.drop_eq_getElem_cons hn
      have h2 : d.length - s.length - 1 + 1 = d.length - s.length := by omega
      rw [h2, hdrop, hdot'] at h1
      rw [← h1, List.take_append_drop]
  · rintro (h | ⟨t, ht⟩)
    · exact Or.inl h
    · right
      subst ht
      have hl : (t ++ dot :: s).length = t.length + 1 + s.length := by simp; omega
      refine ⟨⟨by omega, ?_⟩, ?_⟩
      · have : (t ++ dot :: s).length - s.length - 1 = t.length := by omega
        rw [this]; simp
      · have : (t ++ dot :: s).length - s.length = t.length + 1 := by omega
        rw [this]
        simp

theorem suffixLinearMatch_iff (rs : List Str) (d : Str) : suffixLinearMatch rs d = true ↔ SuffixSpec rs d := by
  unfold suffixLinearMatch SuffixSpec
  simp only [List.any_eq_true, matchDomainSuffix_iff]

theorem mem_afterDots : ∀ (d t : Str), t ∈ afterDots d ↔ (dot :: t) <:+ d
  | [], t => by simp [afterDots]
  | c :: cs, t => by
    rw [List.suffix_cons_iff]
    unfold afterDots
    by_cases hc : c = dot
    · subst hc
      simp only [↓reduceIte, List.mem_cons, mem_afterDots cs t, List.cons.injEq, true_and]
    · simp only [hc, ↓reduceIte, mem_afterDots cs t, List.cons.injEq]
      constructor
      · exact Or.inr
      · rintro (⟨h, _⟩ | h)
        · exact absurd h.symm hc
        · exact h

theorem suffixMapMatch_iff (m : List Str) (d : Str) : suffixMapMatch m d = true ↔ SuffixSpec m d := by
  unfold suffixMapMatch SuffixSpec SuffixOf
  simp only [Bool.or_eq_true, List.any_eq_true, List.contains_iff_mem, mem_afterDots]
  constructor
  · rintro (⟨t, ht, htm⟩ | h)
    · exact ⟨t, htm, Or.inr ht⟩
    · exact ⟨d, h, Or.inl rfl⟩
  · rintro ⟨r, hr, rfl | h⟩
    · exact Or.inr hr
    · exact Or.inl ⟨r, h, hr⟩

theorem mem_mapInsert (m : List Str) (r x : Str) : x ∈ mapInsert m r ↔ x ∈ m ∨ x = r := by
  unfold mapInsert
  by_cases h : r ∈ m
  · simp only [List.contains_iff_mem, h, ↓reduceIte]
    constructor
    · exact Or.inl
    · rintro (h' | rfl)
      · exact h'
      · exact h
  · simp [h]

theorem mem_foldl_mapInsert (rs : List Str) : ∀ (m : List Str) (x : Str),
    x ∈ rs.foldl mapInsert m ↔ x ∈ m ∨ x ∈ rs := by
  induction rs with
  | nil => simp
  | cons r rs ih =>
    intro m x
    rw [List.foldl_cons, ih, mem_mapInsert]
    simp only [List.mem_cons]
    constructor
    · rintro ((h | h) | h)
      · exact Or.inl h
      · exact Or.inr (Or.inl h)
      · exact Or.inr (Or.inr h)
    · rintro (h | h | h)
      · exact Or.inl (Or.inl h)
      · exact Or.inl (Or.inr h)
      · exact Or.inr h

/-! ### splitting at dots -/

theorem splitOn_ne_nil (c : UInt8) : ∀ s, splitOn c s ≠ []
  | [] => by simp [splitOn]
  | x :: xs => by
    unfold splitOn
    split
    · simp
    · split <;> simp

theorem splitOn_cons_ne (c x : UInt8) (xs : Str) (h : x ≠ c) :
    ∃ hd tl, splitOn c xs = hd :: tl ∧ splitOn c (x :: xs) = (x :: hd) :: tl := by
  cases hs : splitOn c xs with
  | nil => exact absurd hs (splitOn_ne_nil c xs)
  | cons hd tl => exact ⟨hd, tl, rfl, by simp [splitOn, h, hs]⟩

theorem splitOn_append_sep (c : UInt8) : ∀ (a b : Str), splitOn c (a ++ c :: b) = splitOn c a ++ splitOn c b
  | [], b => by simp [splitOn]
  | x :: a, b => by
    by_cases h : x = c
    · subst h
      simp [splitOn, splitOn_append_sep x a b]
    · obtain ⟨hd, tl, h1, h2⟩ := splitOn_cons_ne c x a h
      obtain ⟨hd', tl', h1', h2'⟩ := splitOn_cons_ne c x (a ++ c :: b) h
      rw [List.cons_append, h2', h2]
      rw [splitOn_append_sep c a b, h1] at h1'
      simp only [List.cons_append, List.cons.injEq] at h1'
      rw [← h1'.1, ← h1'.2]
      simp

theorem joinWith_cons_cons (c : UInt8) (a b : Str) (rest : List Str) :
    joinWith c (a :: b :: rest) = a ++ c :: joinWith c (b :: rest) := rfl

theorem joinWith_splitOn (c : UInt8) : ∀ s, joinWith c (splitOn c s) = s
  | [] => by simp [splitOn, joinWith]
  | x :: xs => by
    by_cases h : x = c
    · subst h
      have ih := joinWith_splitOn x xs
      cases hs : splitOn x xs with
      | nil => exact absurd hs (splitOn_ne_nil x xs)
      | cons hd tl =>
        rw [hs] at ih
        simp only [splitOn, ↓reduceIte, hs, joinWith_cons_cons, List.nil_append, ih]
    · obtain ⟨hd, tl, h1, h2⟩ := splitOn_cons_ne c x xs h
      have ih := joinWith_splitOn c xs
      rw [h1] at ih
      rw [h2]
      cases tl with
      | nil => simp only [joinWith] at ih ⊢; rw [ih]
      | cons b rest =>
        rw [joinWith_cons_cons] at ih ⊢
        rw [List.cons_append, ih]

theorem joinWith_append (c : UInt8) : ∀ (a b : List Str), a ≠ [] → b ≠ [] →
    joinWith c (a ++ b) = joinWith c a ++ c :: joinWith c b
  | [], _, h, _ => absurd rfl h
  | [x], b, _, hb => by
    cases b with
    | nil => exact absurd rfl hb
    | cons y ys => simp [joinWith]
  | x :: y :: rest, b, _, hb => by
    rw [List.cons_append, List.cons_append, joinWith_cons_cons, ← List.cons_append,
      joinWith_append c (y :: rest) b (by simp) hb, joinWith_cons_cons]
    simp

/-- the label lists decide the declarative suffix relation -/
theorem labels_suffix_iff (r d : Str) : splitOn dot r <:+ splitOn dot d ↔ SuffixOf r d := by
  unfold SuffixOf
  constructor
  · rintro ⟨pre, hpre⟩
    cases pre with
    | nil =>
      left
      have := congrArg (joinWith dot) hpre
      simp only [List.nil_append, joinWith_splitOn] at this
      exact this.symm
    | cons p ps =>
      right
      have := congrArg (joinWith dot) hpre
      rw [joinWith_append dot _ _ (by simp) (splitOn_ne_nil dot r), joinWith_splitOn, joinWith_splitOn] at this
      exact ⟨joinWith dot (p :: ps), this⟩
  · rintro (rfl | ⟨t, rfl⟩)
    · exact List.suffix_refl _
    · rw [splitOn_append_sep]
      exact List.suffix_append _ _

theorem labelsRev_prefix_iff (r d : Str) : (labelsRev r).isPrefixOf (labelsRev d) = true ↔ SuffixOf r d := by
  unfold labelsRev
  rw [List.isPrefixOf_iff_prefix, List.reverse_prefix, labels_suffix_iff]

theorem labelsRev_ne_nil (r : Str) : labelsRev r ≠ [] := by
  unfold labelsRev
  simp [splitOn_ne_nil]

/-! ### the trie -/

theorem lookup_set : ∀ (cs : Children) (s : Str) (t : Trie) (s' : Str),
    (cs.set s t).lookup s' = if s = s' then some t else cs.lookup s'
  | .nil, s, t, s' => by simp [Children.set, Children.lookup]
  | .cons k u rest, s, t, s' => by
    unfold Children.set
    by_cases hk : k = s
    · subst hk
      simp only [↓reduceIte, Children.lookup]
      by_cases h : k = s' <;> simp [h]
    · simp only [hk, ↓reduceIte, Children.lookup, lookup_set rest s t s']
      by_cases hks : k = s'
      · subst hks
        have : ¬ s = k := fun h => hk h.symm
        simp [this]
      · simp [hks]

theorem matchLabels_cons (cs : Children) (x : Str) (ds : List Str) :
    matchLabels cs (x :: ds) =
      match cs.lookup x with
      | none => false
      | some .leaf => true
      | some (.node cs') => matchLabels cs' ds := by
  cases ds with
  | nil =>
    unfold matchLabels
    cases cs.lookup x with
    | none => rfl
    | some t => cases t <;> simp [matchLabels]
  | cons y ys =>
    rw [matchLabels]
    · rfl
    · simp

theorem matchLabels_nil_children : ∀ d, matchLabels .nil d = false
  | [] => rfl
  | x :: ds => by rw [matchLabels_cons]; simp [Children.lookup]

/-- inserting a rule adds exactly the names that have the rule's labels as a prefix (read from the right) -/
theorem matchLabels_insert : ∀ (r : List Str), r ≠ [] → ∀ (cs : Children) (d : List Str),
    matchLabels (insertLabels cs r) d = (matchLabels cs d || r.isPrefixOf d)
  | [], h, _, _ => absurd rfl h
  | [l], _, cs, d => by
    rw [insertLabels]
    cases d with
    | nil => simp [matchLabels, List.isPrefixOf]
    | cons x ds =>
      rw [matchLabels_cons, matchLabels_cons, lookup_set]
      by_cases hl : l = x
      · subst hl
        simp only [↓reduceIte, List.isPrefixOf, beq_self_eq_true, Bool.and_self, Bool.or_true]
      · have : (l == x) = false := by simpa using hl
        simp [hl, List.isPrefixOf, this]
  | l :: l' :: rest, _, cs, d => by
    have ih := matchLabels_insert (l' :: rest) (by simp)
    rw [insertLabels]
    rotate_left
    · simp
    cases hlk : cs.lookup l with
    | none =>
      simp only
      cases d with
      | nil => simp [matchLabels, List.isPrefixOf]
      | cons x ds =>
        rw [matchLabels_cons, matchLabels_cons, lookup_set]
        by_cases hl : l = x
        · subst hl
          simp only [↓reduceIte, hlk, ih, matchLabels_nil_children, Bool.false_or, List.isPrefixOf,
            beq_self_eq_true, Bool.true_and]
        · have : (l == x) = false := by simpa using hl
          simp [hl, List.isPrefixOf, this]
    | some t =>
      cases t with
      | leaf =>
        simp only
        cases d with
        | nil => simp [List.isPrefixOf]
        | cons x ds =>
          by_cases hl : l = x
          · subst hl
            rw [matchLabels_cons, hlk]
            simp
          · have : (l == x) = false := by simpa using hl
            simp [List.isPrefixOf, this]
      | node cs1 =>
        simp only
        cases d with
        | nil => simp [matchLabels, List.isPrefixOf]
        | cons x ds =>
          rw [matchLabels_cons, matchLabels_cons, lookup_set]
          by_cases hl : l = x
          · subst hl
            simp only [↓reduceIte, hlk, ih, List.isPrefixOf, beq_self_eq_true, Bool.true_and]
          · have : (l == x) = false := by simpa using hl
            simp [hl, List.isPrefixOf, this]

theorem trieMatch_insert (root : Children) (r d : Str) :
    trieMatch (trieInsert root r) d = (trieMatch root d || (labelsRev r).isPrefixOf (labelsRev d)) := by
  unfold trieMatch trieInsert
  exact matchLabels_insert _ (labelsRev_ne_nil r) root _

theorem trieMatch_foldl (rs : List Str) : ∀ (root : Children) (d : Str),
    trieMatch (rs.foldl trieInsert root) d
      = (trieMatch root d || rs.any (fun r => (labelsRev r).isPrefixOf (labelsRev d))) := by
  induction rs with
  | nil => simp
  | cons r rs ih =>
    intro root d
    rw [List.foldl_cons, ih, trieMatch_insert, List.any_cons, Bool.or_assoc]

/-- a trie built from rules (any order, rules extending one another, empty labels, trailing dots) matches
exactly the declarative language -/
theorem trieFromList_iff (rs : List Str) (d : Str) : trieMatch (trieFromList rs) d = true ↔ SuffixSpec rs d := by
  unfold trieFromList SuffixSpec
  rw [trieMatch_foldl]
  have : trieMatch .nil d = false := matchLabels_nil_children _
  simp only [this, Bool.false_or, List.any_eq_true, labelsRev_prefix_iff]

/-! ### exact domains and keywords -/

theorem containsSub_iff : ∀ (d kw : Str), containsSub d kw = true ↔ kw <:+: d
  | [], kw => by
    simp only [containsSub, List.isEmpty_iff, List.infix_nil]
  | c :: cs, kw => by
    rw [containsSub, Bool.or_eq_true, List.isPrefixOf_iff_prefix, containsSub_iff cs kw, List.infix_cons_iff]

theorem keywordMatch_iff (kws : List Str) (d : Str) : keywordMatch kws d = true ↔ ∃ k ∈ kws, k <:+: d := by
  unfold keywordMatch
  simp only [List.any_eq_true, containsSub_iff]

end SSV.DomainSet
