import SSV.Model.Parsers
/-
Helper lemmas for C06: no-panic proofs of the parser models (`SSV.Model.Parsers`).
The length side conditions of the Go slice operations are discharged by `omega` from the code's own
guards, whose constants are the regenerated `SSV.Gen.C06.*_lenGuard<i>` (unfolded only inside the
discharger, so every proof below re-checks against the numbers in the source now).
-/
namespace SSV.Parsers.Proofs
open SSV SSV.Go SSV.Outcome SSV.Parsers

/-- closes length side conditions -/
macro "go_len" : tactic => `(tactic| first
  | omega
  | (simp only [List.length_drop, List.length_take, List.length_cons, List.length_append, List.length_nil]; omega)
  | (simp only [List.length_drop, List.length_take, List.length_cons, List.length_append, List.length_nil] at *; omega))

/-- unfolds the regenerated constants (reducible `abbrev`s) in the goal: the guards become the numbers the source has now -/
macro "go_consts" : tactic => `(tactic| try simp only [
   Gen.C06.AddrPortFromSlice_lenGuard0, Gen.C06.AddrPortFromSlice_lenGuard1,
   Gen.C06.ConnAddrFromSlice_lenGuard0, Gen.C06.ConnAddrFromSlice_lenGuard1, Gen.C06.ConnAddrFromSlice_lenGuard2,
   Gen.C06.DomainCacheConnAddrFromSlice_lenGuard0, Gen.C06.DomainCacheConnAddrFromSlice_lenGuard1, Gen.C06.DomainCacheConnAddrFromSlice_lenGuard2,
   Gen.C06.ParseUDPClientMessageHeader_lenGuard0, Gen.C06.ParseUDPServerMessageHeader_lenGuard0,
   Gen.C06.UDPServerSessionInfo_lenGuard0,
   Gen.C06.UDPClientMessageHeaderFixedLength, Gen.C06.UDPServerMessageHeaderFixedLength, Gen.C06.UDPSeparateHeaderLength,
   Gen.C06.tagSize, Gen.C06.TCPRequestFixedLengthHeaderLength])
macro "go_consts_at" h:ident : tactic => `(tactic| try simp only [
   Gen.C06.AddrPortFromSlice_lenGuard0, Gen.C06.AddrPortFromSlice_lenGuard1,
   Gen.C06.ConnAddrFromSlice_lenGuard0, Gen.C06.ConnAddrFromSlice_lenGuard1, Gen.C06.ConnAddrFromSlice_lenGuard2,
   Gen.C06.DomainCacheConnAddrFromSlice_lenGuard0, Gen.C06.DomainCacheConnAddrFromSlice_lenGuard1, Gen.C06.DomainCacheConnAddrFromSlice_lenGuard2,
   Gen.C06.ParseUDPClientMessageHeader_lenGuard0, Gen.C06.ParseUDPServerMessageHeader_lenGuard0,
   Gen.C06.UDPServerSessionInfo_lenGuard0,
   Gen.C06.UDPClientMessageHeaderFixedLength, Gen.C06.UDPServerMessageHeaderFixedLength, Gen.C06.UDPSeparateHeaderLength,
   Gen.C06.tagSize, Gen.C06.TCPRequestFixedLengthHeaderLength] at $h:ident)

/-- rewrites every Go slice operation whose bounds follow from the hypotheses into its `ok` value -/
macro "go_ok" : tactic => `(tactic| simp (disch := go_len) only [idx_of_lt, slice_of_le, sliceFrom_of_le, sliceTo_of_le, arr_of_le, be16_of_le, be64_of_le,
   ok_bind, err_bind, panic_bind, pure_eq, noPanic_ok, noPanic_err, and_self])
macro "go_ok_at" h:ident : tactic => `(tactic| simp (disch := go_len) only [idx_of_lt, slice_of_le, sliceFrom_of_le, sliceTo_of_le, arr_of_le, be16_of_le, be64_of_le,
   ok_bind, err_bind, panic_bind, pure_eq, and_self, reduceCtorEq, Outcome.ok.injEq, Prod.mk.injEq] at $h:ident)

/-- no-panic loop: rewrite what the guards justify, split the code's own case distinctions, repeat -/
macro "go_np" : tactic => `(tactic| repeat' (first | go_ok | split))
/-- same on a hypothesis `h : f input = ok v` -/
macro "go_cases" h:ident : tactic => `(tactic| repeat' (first | (go_ok_at $h:ident) | (split at $h:ident)))

theorem np_addrFromDomainPort (d : Bytes) (p : Nat) : NoPanic (addrFromDomainPort d p) := by
  unfold addrFromDomainPort; split <;> simp

theorem addrFromDomainPort_ok {d : Bytes} {p : Nat} {a : Addr} (h : addrFromDomainPort d p = .ok a) :
    a = .dom d p ∧ 1 ≤ d.length ∧ d.length ≤ 255 := by
  unfold addrFromDomainPort at h
  split at h
  · simp at h
  · rename_i hn
    simp only [Outcome.ok.injEq] at h
    exact ⟨h.symm, by omega, by omega⟩

/-! #### socks5 `*FromSlice` -/

theorem np_addrPortFromSlice (b : Bytes) : NoPanic (addrPortFromSlice b) := by
  unfold addrPortFromSlice
  go_consts
  go_np

theorem addrPortFromSlice_ok {b : Bytes} {a : Addr} {n : Nat} (h : addrPortFromSlice b = .ok (a, n)) :
    n ≤ b.length ∧ a.isIP = true := by
  unfold addrPortFromSlice at h
  go_consts_at h
  go_cases h
  all_goals (obtain ⟨h1, h2⟩ := h; subst h1 h2; exact ⟨by go_len, rfl⟩)

theorem np_connAddrFromSlice (b : Bytes) : NoPanic (connAddrFromSlice b) := by
  unfold connAddrFromSlice addrFromDomainPort
  go_consts
  go_np

theorem connAddrFromSlice_ok {b : Bytes} {a : Addr} {n : Nat} (h : connAddrFromSlice b = .ok (a, n)) :
    n ≤ b.length ∧ a.isValid = true := by
  unfold connAddrFromSlice addrFromDomainPort at h
  go_consts_at h
  go_cases h
  all_goals (obtain ⟨h1, h2⟩ := h; subst h1 h2; exact ⟨by go_len, rfl⟩)

theorem np_connAddrFromSliceDC (b : Bytes) : NoPanic (connAddrFromSliceDC b) := by
  unfold connAddrFromSliceDC addrFromDomainPort
  go_consts
  go_np

theorem connAddrFromSliceDC_ok {b : Bytes} {a : Addr} {n : Nat} (h : connAddrFromSliceDC b = .ok (a, n)) :
    n ≤ b.length ∧ a.isValid = true := by
  unfold connAddrFromSliceDC addrFromDomainPort at h
  go_consts_at h
  go_cases h
  all_goals (obtain ⟨h1, h2⟩ := h; subst h1 h2; exact ⟨by go_len, rfl⟩)

/-! #### ss2022 header parsers -/

theorem np_validateTimestamp (now : Int) (b : Bytes) (h : 8 ≤ b.length) : NoPanic (validateTimestamp now b) := by
  unfold validateTimestamp
  go_np

theorem np_parseTCPRequestFixedLengthHeader (now : Int) (b : Bytes) (h : b.length = Gen.C06.TCPRequestFixedLengthHeaderLength) :
    NoPanic (parseTCPRequestFixedLengthHeader now b) := by
  unfold parseTCPRequestFixedLengthHeader validateTimestamp
  go_consts_at h
  go_np

theorem np_parseTCPRequestVariableLengthHeader (b : Bytes) : NoPanic (parseTCPRequestVariableLengthHeader b) := by
  unfold parseTCPRequestVariableLengthHeader
  refine noPanic_bind (np_connAddrFromSlice b) ?_
  rintro ⟨a, n⟩ h
  have hn := (connAddrFromSlice_ok h).1
  dsimp only
  go_np

theorem np_parseTCPResponseHeader (now : Int) (salt b : Bytes) (h : b.length = 1 + 8 + salt.length + 2) :
    NoPanic (parseTCPResponseHeader now salt b) := by
  unfold parseTCPResponseHeader validateTimestamp
  go_np

theorem np_parseUDPClientMessageHeader (now : Int) (b : Bytes) : NoPanic (parseUDPClientMessageHeader now b) := by
  unfold parseUDPClientMessageHeader validateTimestamp
  go_consts
  go_np
  all_goals (refine noPanic_bind (np_connAddrFromSliceDC _) ?_; rintro ⟨a, n⟩ _; simp)

theorem np_parseUDPServerMessageHeader (now : Int) (csid : Nat) (b : Bytes) : NoPanic (parseUDPServerMessageHeader now csid b) := by
  unfold parseUDPServerMessageHeader validateTimestamp
  go_consts
  go_np
  all_goals (refine noPanic_bind (np_addrPortFromSlice _) ?_; rintro ⟨a, n⟩ _; simp)

end SSV.Parsers.Proofs
