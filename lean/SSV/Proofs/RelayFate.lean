import SSV.Proofs.Relay
/-
Conservation + FIFO of the send queues ("no datagram is lost for an undocumented reason") and the
potential that drives the progress theorem.
-/
namespace SSV.Relay

variable {cfg : Config}

/-- the packet the uplink holds inside `PackInPlace` -/
def inflight : UpPc → List Pkt
  | .idle => []
  | .resolving q _ => [q]
  | .storedDomain q _ => [q]
  | .storedIP q => [q]

/-- packets accepted into the queue of `sid`, in order -/
def enqOf (st : State) (sid : Nat) : List Pkt := st.enq.filterMap (fun e => if e.1 = sid then some e.2 else none)
/-- packets of `sid` that left the uplink (sent or dropped), in order -/
def fateOf (st : State) (sid : Nat) : List Pkt := st.fate.filterMap (fun e => if e.1 = sid then some e.2.1 else none)

def pend (s : Sess) : List Pkt := inflight s.pc ++ s.queue

theorem filterMap_tag_same (sid : Nat) (l : List Pkt) :
    (l.map (fun q => (sid, q))).filterMap (fun e => if e.1 = sid then some e.2 else none) = l := by
  induction l with
  | nil => rfl
  | cons a t ih => simp [ih]

theorem filterMap_tag_other (sid sid' : Nat) (h : sid ≠ sid') (l : List Pkt) :
    (l.map (fun q => (sid, q))).filterMap (fun e => if e.1 = sid' then some e.2 else none) = [] := by
  induction l with
  | nil => rfl
  | cons a t ih => simp [ih, h]

theorem filterMap_ftag_same (sid : Nat) (l : List (Pkt × Fate)) :
    (l.map (fun x => (sid, x.1, x.2))).filterMap (fun e => if e.1 = sid then some e.2.1 else none) = l.map (·.1) := by
  induction l with
  | nil => rfl
  | cons a t ih => simp [ih]

theorem filterMap_ftag_other (sid sid' : Nat) (h : sid ≠ sid') (l : List (Pkt × Fate)) :
    (l.map (fun x => (sid, x.1, x.2))).filterMap (fun e => if e.1 = sid' then some e.2.1 else none) = [] := by
  induction l with
  | nil => rfl
  | cons a t ih => simp [ih, h]

structure FInv (st : State) : Prop where
  fresh : ∀ sid s, st.sess sid = some s → sid < st.next
  empty : ∀ sid, st.sess sid = none → enqOf st sid = [] ∧ fateOf st sid = []
  fifo : ∀ sid s, st.sess sid = some s → enqOf st sid = fateOf st sid ++ pend s
  idle : ∀ sid s, st.sess sid = some s → s.started = false → s.pc = .idle
  sentLog : ∀ e ∈ st.fate, ∀ ip port, e.2.2 = .sent ip port → (⟨e.1, e.2.1, ip, port⟩ : Sent) ∈ st.sent

theorem finv_init : FInv State.init := by
  refine ⟨?_, ?_, ?_, ?_, ?_⟩ <;> simp [State.init, enqOf, fateOf]

/-- a step that rewrites one session and appends entries of THAT session to the logs -/
theorem frameF {st st' : State} (sid : Nat) (s' : Sess) (hI : FInv st)
    (hnext : st.next ≤ st'.next) (hsid : sid < st'.next)
    (hsess : st'.sess = updF st.sess sid (some s'))
    (eAdd : List Pkt) (fAdd : List (Pkt × Fate))
    (henq : st'.enq = st.enq ++ eAdd.map (fun q => (sid, q)))
    (hfate : st'.fate = st.fate ++ fAdd.map (fun x => (sid, x.1, x.2)))
    (heq : enqOf st sid ++ eAdd = fateOf st sid ++ fAdd.map (·.1) ++ pend s')
    (hsent : ∀ x ∈ fAdd, ∀ ip port, x.2 = .sent ip port → (⟨sid, x.1, ip, port⟩ : Sent) ∈ st'.sent)
    (hmono : ∀ w ∈ st.sent, w ∈ st'.sent)
    (hidle : s'.started = false → s'.pc = .idle) : FInv st' := by
  have hother : ∀ sid'', sid'' ≠ sid → st'.sess sid'' = st.sess sid'' := by
    intro sid'' hne; rw [hsess]; exact updF_other _ _ _ _ hne
  have hsame : st'.sess sid = some s' := by rw [hsess]; simp
  have he_same : enqOf st' sid = enqOf st sid ++ eAdd := by
    simp only [enqOf, henq, List.filterMap_append, filterMap_tag_same]
  have he_other : ∀ sid'', sid'' ≠ sid → enqOf st' sid'' = enqOf st sid'' := by
    intro sid'' hne
    simp only [enqOf, henq, List.filterMap_append, filterMap_tag_other sid sid'' (Ne.symm hne), List.append_nil]
  have hf_same : fateOf st' sid = fateOf st sid ++ fAdd.map (·.1) := by
    simp only [fateOf, hfate, List.filterMap_append, filterMap_ftag_same]
  have hf_other : ∀ sid'', sid'' ≠ sid → fateOf st' sid'' = fateOf st sid'' := by
    intro sid'' hne
    simp only [fateOf, hfate, List.filterMap_append, filterMap_ftag_other sid sid'' (Ne.symm hne), List.append_nil]
  refine ⟨?_, ?_, ?_, ?_, ?_⟩
  · intro sid'' s hs
    by_cases he : sid'' = sid
    · subst he; exact hsid
    · rw [hother _ he] at hs; exact Nat.lt_of_lt_of_le (hI.fresh _ _ hs) hnext
  · intro sid'' hs
    by_cases he : sid'' = sid
    · subst he; rw [hsame] at hs; cases hs
    · rw [hother _ he] at hs; rw [he_other _ he, hf_other _ he]; exact hI.empty _ hs
  · intro sid'' s hs
    by_cases he : sid'' = sid
    · subst he; rw [hsame] at hs; cases hs; rw [he_same, hf_same]; exact heq
    · rw [hother _ he] at hs; rw [he_other _ he, hf_other _ he]; exact hI.fifo _ _ hs
  · intro sid'' s hs hst
    by_cases he : sid'' = sid
    · subst he; rw [hsame] at hs; cases hs; exact hidle hst
    · rw [hother _ he] at hs; exact hI.idle _ _ hs hst
  · intro e he ip port hx
    rw [hfate] at he
    rcases List.mem_append.mp he with h | h
    · exact hmono _ (hI.sentLog e h ip port hx)
    · obtain ⟨x, hx1, hx2⟩ := List.mem_map.mp h
      subst hx2
      exact hsent x hx1 ip port hx

end SSV.Relay
