import SSV.Proofs.DomainTextSafe
import SSV.Model.PrefixSet
/-
Language preservation across text ↔ builder ↔ gob, and the prefix-set text round trip.
-/
namespace SSV.DomainSet

/-- builders on which `Rules()` determines the language: a binary-search slot must agree with membership of its rules
(true for every slice kept sorted by `Insert`), a trie slot must be well-formed (true for every trie built by `Insert`). -/
def Builder.Regular (b : Builder) : Prop :=
  (match b.domains with
   | .bsearch rs => ∀ d, rs.contains d = (binarySearch rs d).2
   | _ => True) ∧
  (match b.suffixes with
   | .trie root => root.WF
   | _ => True)

theorem Builder.Regular.domains {b : Builder} (h : b.Regular) (d : Str) : b.domains.rules.contains d = b.domains.lang d := by
  obtain ⟨h1, _⟩ := h
  cases hb : b.domains with
  | linear rs => rfl
  | bsearch rs => rw [hb] at h1; exact h1 d
  | map m => rfl

theorem Builder.Regular.suffixes {b : Builder} (h : b.Regular) (d : Str) :
    trieMatch (trieFromList b.suffixes.rules) d = b.suffixes.lang d := by
  obtain ⟨_, h2⟩ := h
  cases hb : b.suffixes with
  | linear rs => exact suffix_linear_eq_trie rs d
  | map m =>
    show trieMatch (trieFromList m) d = suffixMapMatch m d
    rw [suffix_linear_eq_trie, suffix_linear_eq_map]
  | trie root =>
    rw [hb] at h2
    exact trie_rebuild root h2 d

/-- the builder obtained by re-reading what `WriteText` wrote -/
def Builder.reread (b : Builder) : Builder :=
  ⟨.map (b.domains.rules.foldl mapInsert []), .trie (trieFromList b.suffixes.rules), b.keywords, b.regexps⟩

theorem lang_reread (re : Str → Str → Bool) (b : Builder) (h : b.Regular) (d : Str) :
    b.reread.lang re d = b.lang re d := by
  unfold Builder.lang Builder.reread
  simp only [DomainB.lang, SuffixB.lang, contains_foldl_mapInsert, h.domains d, h.suffixes d]

theorem ofBuilder_domains (b : Builder) (h : b.Regular) (d : Str) :
    (BuilderGob.ofBuilder b).domains.contains d = b.domains.lang d := by
  have hreg := h.domains d
  unfold BuilderGob.ofBuilder
  simp only
  cases hb : b.domains with
  | linear rs => simp only [DomainB.rules, DomainB.lang, contains_foldl_mapInsert]
  | bsearch rs =>
    rw [hb] at hreg
    simp only [DomainB.rules, contains_foldl_mapInsert]
    exact hreg
  | map m => rfl

theorem ofBuilder_suffixes (b : Builder) (d : Str) :
    trieMatch (BuilderGob.ofBuilder b).suffixes d = b.suffixes.lang d := by
  unfold BuilderGob.ofBuilder
  simp only
  cases hb : b.suffixes with
  | linear rs => exact suffix_linear_eq_trie rs d
  | map m =>
    show trieMatch (trieFromList m) d = suffixMapMatch m d
    rw [suffix_linear_eq_trie, suffix_linear_eq_map]
  | trie root => rfl

theorem lang_gob (re : Str → Str → Bool) (b : Builder) (h : b.Regular) (d : Str) :
    (BuilderGob.ofBuilder b).builder.lang re d = b.lang re d := by
  have e1 := ofBuilder_domains b h d
  have e2 := ofBuilder_suffixes b d
  have e3 : (BuilderGob.ofBuilder b).keywords = b.keywords := rfl
  have e4 : (BuilderGob.ofBuilder b).regexps = b.regexps := rfl
  unfold Builder.lang BuilderGob.builder
  simp only [DomainB.lang, SuffixB.lang, e1, e2, e3, e4]

theorem regular_of_textBuilder {b : Builder} (h : TextBuilder b) : b.Regular := by
  obtain ⟨m, hm⟩ := h.domains
  obtain ⟨root, hr, hwf⟩ := h.suffixes
  unfold Builder.Regular
  rw [hm, hr]
  exact ⟨trivial, hwf⟩

theorem ruleLineList_ne_nil_iff (b : Builder) :
    ruleLineList b ≠ [] ↔ (b.domains.rules ≠ [] ∨ b.suffixes.rules ≠ [] ∨ b.keywords ≠ [] ∨ b.regexps ≠ []) := by
  unfold ruleLineList
  simp only [ne_eq, List.append_eq_nil_iff, List.map_eq_nil_iff]
  constructor
  · intro h
    by_cases h1 : b.domains.rules = []
    · by_cases h2 : b.suffixes.rules = []
      · by_cases h3 : b.keywords = []
        · by_cases h4 : b.regexps = []
          · exact absurd ⟨⟨⟨h1, h2⟩, h3⟩, h4⟩ h
          · exact Or.inr (Or.inr (Or.inr h4))
        · exact Or.inr (Or.inr (Or.inl h3))
      · exact Or.inr (Or.inl h2)
    · exact Or.inl h1
  · rintro (h | h | h | h) ⟨⟨⟨h1, h2⟩, h3⟩, h4⟩
    · exact h h1
    · exact h h2
    · exact h h3
    · exact h h4

end SSV.DomainSet

namespace SSV.PrefixSet
open SSV.DomainSet

theorem mapM_map_some {P : Type} (parse : Str → Option P) (print : P → Str) : ∀ (ps : List P),
    (∀ p ∈ ps, parse (print p) = some p) → (ps.map print).mapM parse = some ps
  | [], _ => rfl
  | p :: ps, h => by
    rw [List.map_cons, List.mapM_cons, h p (by simp), mapM_map_some parse print ps (fun x hx => h x (by simp [hx]))]
    rfl

/-- a written prefix set is read back as the same list of prefixes -/
theorem prefixSet_roundtrip {P : Type} (parse : Str → Option P) (print : P → Str) (ps : List P)
    (hrt : ∀ p ∈ ps, parse (print p) = some p)
    (hsafe : ∀ p ∈ ps, lineSafe (print p) = true ∧ (print p).head? ≠ some hash) :
    prefixSetFromText parse (prefixSetToText print ps) = some ps := by
  unfold prefixSetFromText prefixSetToText prefixLines
  have e : ps.flatMap (fun p => print p ++ [LF]) = (ps.map print).flatMap (fun l => l ++ [LF]) := by
    rw [List.flatMap_map]
  rw [e, nonEmptyLines_of_safe (ps.map print) (by
    intro l hl
    obtain ⟨p, hp, rfl⟩ := List.mem_map.mp hl
    exact (hsafe p hp).1)]
  have hf : (ps.map print).filter (fun l => l.head? != some hash) = ps.map print := by
    rw [List.filter_eq_self]
    intro l hl
    obtain ⟨p, hp, rfl⟩ := List.mem_map.mp hl
    simpa using (hsafe p hp).2
  rw [hf]
  exact mapM_map_some parse print ps hrt

end SSV.PrefixSet
