import SSV.Proofs.Cred3
/-
C08 helper lemmas, part 4: the file clause under concurrency. In every interleaving, whenever no
call stands between its critical section and its `enqueueSave`, nothing is pending and the saver is
idle, the last synchronised content represents the cache.
-/
namespace SSV.Cred
open SSV.Gen.C08
variable (H : Key → Hash)

/-- the thread has left a critical section and has not yet queued the save -/
def owes (t : Thread) : Bool := t.prog.head? == some Step.enqueueSave

def FileInv (s : Sys) : Prop :=
  (∀ t ∈ s.threads, owes t = false) → s.st.pending = false → s.st.saverBusy = false →
    Represents s.st.cachedContent s.st.cache

/-- same file-relevant fields -/
def SameF (a b : St) : Prop :=
  a.cache = b.cache ∧ a.cachedContent = b.cachedContent ∧ a.pending = b.pending ∧ a.saverBusy = b.saverBusy

theorem cs_add_file (st : St) (r : Regs) (hl : st.loaded = true) :
    (runLocked H csAdd st r).1 = st ∨ owes (runLocked H csAdd st r).2 = true := by
  have hp : csAdd = [.lock, .guardAbsent, .hashKey, .guardHashFree, .mkConfig, .guardConfigOk, .mkCred, .cacheSet, .lookupSet, .liveSet, .unlock, .enqueueSave, .ret] := rfl
  rw [hp]
  by_cases h1 : (find st.cache r.name).isSome = true
  · left; simp [runLocked, exec, touch, h1]
  by_cases h2 : (find st.lookup (H r.key)).isSome = true
  · left; simp [runLocked, exec, touch, h1, h2]
  right
  simp [runLocked, exec, touch, h1, h2, hl, liveUpd, owes]

theorem cs_update_file (st : St) (r : Regs) :
    (runLocked H csUpdate st r).1 = st ∨ owes (runLocked H csUpdate st r).2 = true := by
  have hp : csUpdate = [.lock, .loadUc, .guardPresent, .guardKeyDiffers, .hashKey, .guardHashFree, .mkConfig, .guardConfigOk, .saveOldHash, .cacheUpdKey, .lookupDelOld, .lookupSet, .liveDelOldSet, .unlock, .enqueueSave, .ret] := rfl
  rw [hp]
  cases h0 : find st.cache r.name with
  | none => left; simp [runLocked, exec, touch, h0]
  | some k0 =>
    by_cases h1 : k0 = r.key
    · left; simp [runLocked, exec, touch, h0, h1]
    by_cases h2 : (find st.lookup (H r.key)).isSome = true
    · left; simp [runLocked, exec, touch, h0, h1, h2]
    right
    simp [runLocked, exec, touch, h0, h1, h2, liveUpd, owes]

theorem cs_delete_file (st : St) (r : Regs) :
    (runLocked H csDelete st r).1 = st ∨ owes (runLocked H csDelete st r).2 = true := by
  have hp : csDelete = [.lock, .loadUc, .guardPresent, .cacheDel, .lookupDelUc, .liveDelUc, .unlock, .enqueueSave, .ret] := rfl
  rw [hp]
  cases h0 : find st.cache r.name with
  | none => left; simp [runLocked, exec, touch, h0]
  | some k0 => right; simp [runLocked, exec, touch, h0, liveUpd, owes]

theorem cs_load_file (st : St) (r : Regs) :
    (runLocked H csLoad st r).1 = st ∨
    (Represents (runLocked H csLoad st r).1.cachedContent (runLocked H csLoad st r).1.cache) := by
  have hp : csLoad = [.lock, .readFile, .deferClose, .guardChangedLoaded, .decode, .guardDecodeOk, .buildMaps, .setCachedContent, .setLookup, .setCache, .liveReplaceTcpLocal, .liveReplaceUdpLocal, .unlock, .ret] := rfl
  rw [hp]
  by_cases hskip : st.loaded = true ∧ st.file = st.cachedContent
  · left; simp [runLocked, exec, touch, hskip.1, hskip.2]
  cases hd : decodeDoc st.file with
  | none => left; simp [runLocked, exec, touch, hskip, hd]
  | some l =>
    cases hb : build H st.pskLen l with
    | none => left; simp [runLocked, exec, touch, hskip, hd, hb]
    | some pr =>
      obtain ⟨lk, c⟩ := pr
      right
      simp [runLocked, exec, touch, hskip, hd, hb]
      exact ⟨l, hd, fun n => (build_cache H _ _ _ _ hb n).symm⟩

theorem neutral_file (s : Step) (hs : neutral s = true) (st : St) (r : Regs) :
    (s = .enqueueSave ∧ (outSt (exec H s st r)).pending = true) ∨ (s ≠ .enqueueSave ∧ SameF (outSt (exec H s st r)) st) := by
  cases s <;> simp [neutral] at hs
  · right; refine ⟨by simp, ?_⟩; simp only [exec]; split <;> exact ⟨rfl, rfl, rfl, rfl⟩
  · right; refine ⟨by simp, ?_⟩; simp only [exec]; split <;> exact ⟨rfl, rfl, rfl, rfl⟩
  · left; exact ⟨rfl, rfl⟩
  · right; exact ⟨by simp, rfl, rfl, rfl, rfl⟩
  · right; exact ⟨by simp, rfl, rfl, rfl, rfl⟩
  · right; exact ⟨by simp, rfl, rfl, rfl, rfl⟩

theorem mem_set_cases {α : Type} (l : List α) (i : Nat) (a : α) (x : α) (hx : x ∈ l) :
    (∃ h : i < l.length, x = l[i]) ∨ x ∈ l.set i a := by
  obtain ⟨j, hj, rfl⟩ := List.mem_iff_getElem.1 hx
  by_cases e : i = j
  · subst e; exact Or.inl ⟨hj, rfl⟩
  · right
    apply List.mem_iff_getElem.2
    exact ⟨j, by simpa using hj, by simp [List.getElem_set_ne e]⟩

theorem act_file (s : Sys) (a : Act) (hs : SysInv H s) (hf : FileInv s) : FileInv (s.act H a) := by
  cases a with
  | dequeue =>
    intro h1 h2 h3
    simp only [Sys.act, dequeue] at h1 h2 h3 ⊢
    by_cases hp : s.st.pending = true
    · simp [hp] at h3
    · simp only [hp] at h2 h3 ⊢
      exact hf h1 h2 h3
  | edit d =>
    intro h1 h2 h3
    exact hf h1 h2 h3
  | save =>
    intro h1 h2 h3
    simp only [Sys.act, save] at h1 h2 h3 ⊢
    by_cases hb : s.st.saverBusy = true
    · simp only [hb, if_true]
      exact render_represents _ hs.inv.nodup
    · simp only [hb] at h2 h3 ⊢
      exact hf h1 h2 h3
  | thread i =>
    simp only [Sys.act]
    cases hti : s.threads[i]? with
    | none => simpa [hti] using hf
    | some t =>
      simp only []
      have hmem : t ∈ s.threads := List.mem_of_getElem? hti
      have htc := hs.cuts t hmem
      have hlt : i < s.threads.length := (List.getElem?_eq_some_iff.1 hti).1
      have hget : s.threads[i] = t := (List.getElem?_eq_some_iff.1 hti).2
      -- it suffices: the new state has the same file fields, and the old thread did not owe
      have same_case : SameF (seg H s.st t).1 s.st → owes t = false →
          FileInv { st := (seg H s.st t).1, threads := s.threads.set i (seg H s.st t).2 } := by
        intro hsame hown h1 h2 h3
        simp only at h1 h2 h3 ⊢
        rw [hsame.1, hsame.2.1]
        refine hf ?_ (hsame.2.2.1 ▸ h2) (hsame.2.2.2 ▸ h3)
        intro x hx
        rcases mem_set_cases s.threads i (seg H s.st t).2 x hx with ⟨_, hxi⟩ | hx'
        · rw [hxi, hget]; exact hown
        · exact h1 x hx'
      obtain ⟨q, r, res⟩ := t
      have hk := allCuts_ok q htc
      cases q with
      | nil =>
        exact same_case ⟨rfl, rfl, rfl, rfl⟩ rfl
      | cons st0 rest =>
        simp only [okHead, Bool.or_eq_true, beq_iff_eq] at hk
        rcases hk with (((hk | hk) | hk) | hk) | hk
        · -- a step outside the lock
          rcases neutral_file H st0 hk s.st r with ⟨he, hpend⟩ | ⟨hne, hsame⟩
          · intro _ h2 _
            simp only at h2
            rw [seg_neutral H st0 hk, hpend] at h2
            cases h2
          · have hown : owes { prog := st0 :: rest, regs := r, res := res } = false := by
              cases st0 <;> simp [neutral] at hk <;> first | rfl | exact absurd rfl hne
            refine same_case ?_ hown
            rw [seg_neutral H st0 hk]; exact hsame
        · rcases cs_add_file H s.st r hs.inv.loaded with h | h
          · refine same_case ?_ (by rw [hk]; rfl)
            rw [hk]
            show SameF (runLocked H csAdd s.st r).1 s.st
            rw [h]; exact ⟨rfl, rfl, rfl, rfl⟩
          · intro h1 _ _
            have := h1 (seg H s.st { prog := st0 :: rest, regs := r, res := res }).2 (List.mem_set hlt _)
            rw [hk] at this
            have e : (seg H s.st { prog := csAdd, regs := r, res := res }).2 = (runLocked H csAdd s.st r).2 := rfl
            rw [e, h] at this; cases this
        · rcases cs_update_file H s.st r with h | h
          · refine same_case ?_ (by rw [hk]; rfl)
            rw [hk]
            show SameF (runLocked H csUpdate s.st r).1 s.st
            rw [h]; exact ⟨rfl, rfl, rfl, rfl⟩
          · intro h1 _ _
            have := h1 (seg H s.st { prog := st0 :: rest, regs := r, res := res }).2 (List.mem_set hlt _)
            rw [hk] at this
            have e : (seg H s.st { prog := csUpdate, regs := r, res := res }).2 = (runLocked H csUpdate s.st r).2 := rfl
            rw [e, h] at this; cases this
        · rcases cs_delete_file H s.st r with h | h
          · refine same_case ?_ (by rw [hk]; rfl)
            rw [hk]
            show SameF (runLocked H csDelete s.st r).1 s.st
            rw [h]; exact ⟨rfl, rfl, rfl, rfl⟩
          · intro h1 _ _
            have := h1 (seg H s.st { prog := st0 :: rest, regs := r, res := res }).2 (List.mem_set hlt _)
            rw [hk] at this
            have e : (seg H s.st { prog := csDelete, regs := r, res := res }).2 = (runLocked H csDelete s.st r).2 := rfl
            rw [e, h] at this; cases this
        · rcases cs_load_file H s.st r with h | h
          · refine same_case ?_ (by rw [hk]; rfl)
            rw [hk]
            show SameF (runLocked H csLoad s.st r).1 s.st
            rw [h]; exact ⟨rfl, rfl, rfl, rfl⟩
          · intro _ _ _
            simp only
            rw [hk]
            exact h

theorem run_file (as : List Act) (s : Sys) (hs : SysInv H s) (hf : FileInv s) : FileInv (s.run H as) := by
  induction as generalizing s with
  | nil => exact hf
  | cons a as ih => exact ih _ (act_inv H s a hs) (act_file H s a hs hf)

theorem start_file (st : St) (ops : List Op) (hsy : Synced st) : FileInv (Sys.start st ops) := by
  intro _ h2 _
  exact hsy.rep h2


/-! ### the file itself: `file = cachedContent` is stable while nobody else edits the file

With the read of the store file inside the critical section (regenerated `loadProg` starts with `lock`),
a reload installs exactly what is on disk at that moment, and a save writes what it records. -/

/-- a segment leaves the file alone and leaves `cachedContent` alone or sets it to the file -/
def FC (st st' : St) : Prop :=
  st'.file = st.file ∧ (st'.cachedContent = st.cachedContent ∨ st'.cachedContent = st.file)

theorem fc_refl (st : St) : FC st st := ⟨rfl, Or.inl rfl⟩

theorem cs_add_fc (st : St) (r : Regs) (hl : st.loaded = true) : FC st (runLocked H csAdd st r).1 := by
  have hp : csAdd = [.lock, .guardAbsent, .hashKey, .guardHashFree, .mkConfig, .guardConfigOk, .mkCred, .cacheSet, .lookupSet, .liveSet, .unlock, .enqueueSave, .ret] := rfl
  rw [hp]
  by_cases h1 : (find st.cache r.name).isSome = true
  · simp [runLocked, exec, touch, h1, FC]
  by_cases h2 : (find st.lookup (H r.key)).isSome = true
  · simp [runLocked, exec, touch, h1, h2, FC]
  simp [runLocked, exec, touch, h1, h2, hl, liveUpd, FC]

theorem cs_update_fc (st : St) (r : Regs) : FC st (runLocked H csUpdate st r).1 := by
  have hp : csUpdate = [.lock, .loadUc, .guardPresent, .guardKeyDiffers, .hashKey, .guardHashFree, .mkConfig, .guardConfigOk, .saveOldHash, .cacheUpdKey, .lookupDelOld, .lookupSet, .liveDelOldSet, .unlock, .enqueueSave, .ret] := rfl
  rw [hp]
  cases h0 : find st.cache r.name with
  | none => simp [runLocked, exec, touch, h0, FC]
  | some k0 =>
    by_cases h1 : k0 = r.key
    · simp [runLocked, exec, touch, h0, h1, FC]
    by_cases h2 : (find st.lookup (H r.key)).isSome = true
    · simp [runLocked, exec, touch, h0, h1, h2, FC]
    simp [runLocked, exec, touch, h0, h1, h2, liveUpd, FC]

theorem cs_delete_fc (st : St) (r : Regs) : FC st (runLocked H csDelete st r).1 := by
  have hp : csDelete = [.lock, .loadUc, .guardPresent, .cacheDel, .lookupDelUc, .liveDelUc, .unlock, .enqueueSave, .ret] := rfl
  rw [hp]
  cases h0 : find st.cache r.name with
  | none => simp [runLocked, exec, touch, h0, FC]
  | some k0 => simp [runLocked, exec, touch, h0, liveUpd, FC]

theorem cs_load_fc (st : St) (r : Regs) : FC st (runLocked H csLoad st r).1 := by
  have hp : csLoad = [.lock, .readFile, .deferClose, .guardChangedLoaded, .decode, .guardDecodeOk, .buildMaps, .setCachedContent, .setLookup, .setCache, .liveReplaceTcpLocal, .liveReplaceUdpLocal, .unlock, .ret] := rfl
  rw [hp]
  by_cases hskip : st.loaded = true ∧ st.file = st.cachedContent
  · simp [runLocked, exec, touch, hskip.1, hskip.2, FC]
  cases hd : decodeDoc st.file with
  | none => simp [runLocked, exec, touch, hskip, hd, FC]
  | some l =>
    cases hb : build H st.pskLen l with
    | none => simp [runLocked, exec, touch, hskip, hd, hb, FC]
    | some pr =>
      obtain ⟨lk, c⟩ := pr
      simp [runLocked, exec, touch, hskip, hd, hb, FC]

theorem seg_fc (t : Thread) (ht : t.prog ∈ allCuts) (st : St) (hl : st.loaded = true) : FC st (seg H st t).1 := by
  obtain ⟨q, r, res⟩ := t
  have hk := allCuts_ok q ht
  cases q with
  | nil => exact fc_refl st
  | cons s rest =>
    simp only [okHead, Bool.or_eq_true, beq_iff_eq] at hk
    rcases hk with (((hk | hk) | hk) | hk) | hk
    · rw [seg_neutral H s hk]
      rcases neutral_file H s hk st r with ⟨he, _⟩ | ⟨_, hsame⟩
      · subst he; exact ⟨rfl, Or.inl rfl⟩
      · cases s <;> simp [neutral] at hk <;> first
          | (simp only [exec]; split <;> exact fc_refl st)
          | exact fc_refl st
    · rw [hk]; exact cs_add_fc H st r hl
    · rw [hk]; exact cs_update_fc H st r
    · rw [hk]; exact cs_delete_fc H st r
    · rw [hk]; exact cs_load_fc H st r

theorem act_fileEq (s : Sys) (a : Act) (hs : SysInv H s) (hne : a.isEdit = false)
    (he : s.st.file = s.st.cachedContent) : (s.act H a).st.file = (s.act H a).st.cachedContent := by
  cases a with
  | edit d => simp [Act.isEdit] at hne
  | dequeue =>
    simp only [Sys.act, dequeue]
    split <;> exact he
  | save =>
    simp only [Sys.act, save]
    split
    · rfl
    · exact he
  | thread i =>
    simp only [Sys.act]
    cases hti : s.threads[i]? with
    | none => simpa [hti] using he
    | some t =>
      simp only []
      have htc := hs.cuts t (List.mem_of_getElem? hti)
      obtain ⟨h1, h2⟩ := seg_fc H t htc s.st hs.inv.loaded
      rcases h2 with h2 | h2
      · rw [h1, h2]; exact he
      · rw [h1, h2]

theorem run_fileEq (as : List Act) (s : Sys) (hs : SysInv H s) (hne : ∀ a ∈ as, a.isEdit = false)
    (he : s.st.file = s.st.cachedContent) : (s.run H as).st.file = (s.run H as).st.cachedContent := by
  induction as generalizing s with
  | nil => exact he
  | cons a as ih =>
    exact ih _ (act_inv H s a hs) (fun b hb => hne b (List.mem_cons_of_mem a hb))
      (act_fileEq H s a hs (hne a (List.mem_cons_self)) he)

end SSV.Cred
