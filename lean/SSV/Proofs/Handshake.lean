import SSV.Model.Handshake
/-
Helper lemmas for C07: `io.ReadFull` over a chunked transport depends only on the concatenation;
scratch-buffer algebra; one specification lemma per handshake stage.
-/
namespace SSV.HS
open SSV SSV.Gen

/-! ### readFull -/

theorem dropC_flatten (n : Nat) (cs : Chunks) : (dropC n cs).flatten = cs.flatten.drop n := by
  induction cs generalizing n with
  | nil => cases n <;> simp [dropC]
  | cons c cs ih =>
    cases n with
    | zero => simp [dropC]
    | succ n =>
      simp only [dropC]
      split
      · split
        · rename_i h1 h2
          simp [List.drop_append, h2]
        · rename_i h1 h2
          have : n + 1 - c.length = 0 := by omega
          simp [List.drop_append, this]
      · rename_i h1
        rw [ih]
        simp only [List.flatten_cons, List.drop_append]
        have : List.drop (n + 1) c = [] := List.drop_eq_nil_of_le (by omega)
        simp [this]

theorem readFull_flat (n : Nat) (cs : Chunks) (h : n ≤ cs.flatten.length) :
    readFull n cs = some (cs.flatten.take n, dropC n cs) := by
  induction cs generalizing n with
  | nil =>
    cases n with
    | zero => simp [readFull, dropC]
    | succ n => simp at h
  | cons c cs ih =>
    cases n with
    | zero => simp [readFull, dropC]
    | succ n =>
      simp only [readFull, dropC]
      split
      · rename_i h1
        simp only [List.flatten_cons, List.take_append]
        have : n + 1 - c.length = 0 := by omega
        simp [this]
      · rename_i h1
        have hlen : n + 1 - c.length ≤ cs.flatten.length := by
          simp only [List.flatten_cons, List.length_append] at h; omega
        rw [ih _ hlen]
        simp only [List.flatten_cons, List.take_append]
        have : List.take (n + 1) c = c := List.take_of_length_le (by omega)
        simp [this]

theorem readFull_none (n : Nat) (cs : Chunks) (h : cs.flatten.length < n) : readFull n cs = none := by
  induction cs generalizing n with
  | nil => cases n with
    | zero => simp at h
    | succ n => simp [readFull]
  | cons c cs ih =>
    cases n with
    | zero => simp at h
    | succ n =>
      simp only [List.flatten_cons, List.length_append] at h
      simp only [readFull]
      split
      · omega
      · rw [ih _ (by omega)]

/-- `io.ReadFull` depends only on the concatenation of what the transport delivers. -/
theorem readFullM_of_flat (s : St) (d rest : Bytes) (h : s.inp.flatten = d ++ rest) :
    readFullM d.length s = (.ok d, { s with inp := dropC d.length s.inp }) ∧
    (dropC d.length s.inp).flatten = rest := by
  constructor
  · unfold readFullM
    rw [readFull_flat _ _ (by rw [h]; simp)]
    simp [h]
  · rw [dropC_flatten, h]; simp

/-! ### the monad -/

@[simp] theorem bind_def (m : M α) (f : α → M β) (s : St) :
    (m >>= f) s = match m s with
      | (.ok a, s') => f a s'
      | (.error e, s') => (.error e, s') := rfl

@[simp] theorem pure_def (a : α) (s : St) : (pure a : M α) s = (.ok a, s) := rfl
@[simp] theorem fail_def (e : Err) (s : St) : (fail e : M α) s = (.error e, s) := rfl
@[simp] theorem need_true (s : St) : need true s = (.ok (), s) := rfl
@[simp] theorem write_def (b : Bytes) (s : St) : write b s = (.ok (), { s with out := s.out ++ b }) := rfl
@[simp] theorem liftE_def (x : Except Err α) (s : St) : liftE x s = (x, s) := rfl

theorem need_of (c : Bool) (h : c = true) (s : St) : need c s = (.ok (), s) := by subst h; rfl

/-! ### scratch buffer -/

theorem bwrite_length (b : Bytes) (off : Nat) (d : Bytes) (h : off + d.length ≤ b.length) :
    (bwrite b off d).length = b.length := by
  simp [bwrite, List.length_take, List.length_drop]; omega

/-- after `copy(b[0:], d)`: `b[i:j] = d[i:j]` for `j ≤ len(d)` -/
theorem bslice_bwrite0 (b d : Bytes) (i j : Nat) (hj : j ≤ d.length) :
    bslice (bwrite b 0 d) i j = (d.take j).drop i := by
  simp [bslice, bwrite, List.take_append, show j - d.length = 0 by omega]

theorem getElem?_bwrite0 (b d : Bytes) (i : Nat) (hi : i < d.length) :
    (bwrite b 0 d)[i]? = d[i]? := by
  simp [bwrite, List.getElem?_append_left hi]

/-- two consecutive reads into adjacent regions are one write of the concatenation -/
theorem bwrite_bwrite0 (b d1 d2 : Bytes) (h : d1.length + d2.length ≤ b.length) :
    bwrite (bwrite b 0 d1) d1.length d2 = bwrite b 0 (d1 ++ d2) := by
  simp only [bwrite, List.take_zero, List.nil_append, Nat.zero_add, List.length_append]
  rw [List.take_left' rfl, List.drop_append]
  have : List.drop (d1.length + d2.length) d1 = [] := List.drop_eq_nil_of_le (by omega)
  simp [this, List.drop_drop]

theorem bgetM_of (b : Bytes) (i : Nat) (v : UInt8) (h : b[i]? = some v) (s : St) :
    bgetM b i s = (.ok v, s) := by
  simp [bgetM, h]

theorem bset_bwrite0_length (b : Bytes) (i : Nat) (v : UInt8) : (bset b i v).length = b.length := by
  simp [bset]

/-! ### stages -/

theorem readFullM_eq (n : Nat) (s : St) (h : n ≤ s.inp.flatten.length) :
    readFullM n s = (.ok (s.inp.flatten.take n), { s with inp := dropC n s.inp }) := by
  unfold readFullM
  rw [readFull_flat _ _ h]

theorem readIntoM_eq (b : Bytes) (off n : Nat) (s : St) (h : n ≤ s.inp.flatten.length) (hb : off + n ≤ b.length) :
    readIntoM b off n s = (.ok (bwrite b off (s.inp.flatten.take n)), { s with inp := dropC n s.inp }) := by
  unfold readIntoM
  simp only [bind_def]
  rw [need_of _ (by simpa using hb)]
  simp only [readFullM_eq n s h, pure_def]

theorem u8_toNat (n : Nat) (h : n < 256) : (u8 n).toNat = n := by
  simp [u8, UInt8.toNat_ofNat']
  omega

theorem methodSelection_spec (b : Bytes) (hb : b.length = C07.scratchLen) (method m0 : UInt8) (ms rest : Bytes)
    (hlen : ms.length + 1 ≤ 255) (s : St)
    (hs : s.inp.flatten = cVersion :: u8 (ms.length + 1) :: m0 :: (ms ++ rest)) :
    ∃ inp', inp'.flatten = rest ∧
      if (m0 :: ms).contains method then
        ∃ b', methodSelection b method s = (.ok b', { s with inp := inp', out := s.out ++ [cVersion, method] }) ∧
          b'.length = b.length
      else methodSelection b method s =
        (.error .noAcceptable, { s with inp := inp', out := s.out ++ [cVersion, mNoAcceptable] }) := by
  have hb' : b.length = 262 := hb
  have hn : (u8 (ms.length + 1)).toNat = ms.length + 1 := u8_toNat _ (by omega)
  cases ms with
  | nil =>
    refine ⟨dropC 3 s.inp, by rw [dropC_flatten, hs]; simp, ?_⟩
    unfold methodSelection
    simp only [bind_def]
    rw [need_of _ (by simp [hb'])]
    simp only []
    rw [readIntoM_eq _ _ _ _ (by simp [hs]) (by omega)]
    simp only [hs]
    by_cases h : m0 = method
    · subst h; simp [bgetM, bwrite, bslice, bset, u8_toNat]; omega
    · have h' : ¬ method = m0 := fun e => h e.symm
      simp [bgetM, bwrite, bslice, bset, u8_toNat, h, h']
  | cons m1 ms' =>
    have h2 : (u8 (ms'.length + 1 + 1)).toNat = ms'.length + 2 := by simpa using hn
    have hf : (dropC 3 s.inp).flatten = (m1 :: ms') ++ rest := by rw [dropC_flatten, hs]; simp
    refine ⟨dropC (ms'.length + 1) (dropC 3 s.inp), by rw [dropC_flatten, hf]; simp, ?_⟩
    unfold methodSelection
    simp only [bind_def]
    rw [need_of _ (by simp [hb'])]
    simp only []
    rw [readIntoM_eq _ _ _ _ (by simp [hs]) (by omega)]
    simp only [hs]
    simp [bgetM, bwrite, h2]
    simp at hlen
    rw [readIntoM_eq _ _ _ _ (by simp [hf]) (by simp [hb']; omega)]
    have e : 2 + (ms'.length + 2) = ms'.length + 1 + 1 + 1 + 1 := by omega
    simp only [hf, bwrite, bslice, bset, e]
    simp
    by_cases hm : method = m0 ∨ method = m1 ∨ method ∈ ms'
    · have hn' : ¬(¬method = m0 ∧ ¬method = m1 ∧ ¬method ∈ ms') := by
        intro ⟨a, b, c⟩; rcases hm with h | h | h <;> contradiction
      rw [if_pos hm, if_neg hn']
      refine ⟨_, rfl, ?_⟩
      simp [hb']; omega
    · have hn' : (¬method = m0 ∧ ¬method = m1 ∧ ¬method ∈ ms') := by simpa [not_or] using hm
      rw [if_neg hm, if_pos hn']; rfl

theorem aux_idx (a b c d : UInt8) (xs : Bytes) (p : UInt8) (junk : Bytes) :
    (a :: b :: c :: d :: (xs ++ p :: junk))[2 + (xs.length + 2)]? = some p := by
  have e : 2 + (xs.length + 2) = xs.length + 1 + 1 + 1 + 1 := by omega
  rw [e]; simp

theorem aux_slice (a b c d : UInt8) (xs ys : Bytes) :
    bslice (a :: b :: c :: d :: (xs ++ ys)) 2 (2 + (xs.length + 2)) = c :: d :: xs := by
  have e : 2 + (xs.length + 2) = xs.length + 1 + 1 + 1 + 1 := by omega
  rw [e]; simp [bslice]

theorem aux_pw (a b : UInt8) (P ys : Bytes) :
    bslice (a :: b :: (P ++ ys)) 2 (2 + P.length) = P := by
  have e : 2 + P.length = P.length + 1 + 1 := by omega
  rw [e]; simp [bslice]

theorem userPass_spec (users : List (Bytes × Bytes)) (b : Bytes) (hb : b.length = C07.scratchLen)
    (u0 : UInt8) (us P rest : Bytes) (hU : us.length + 1 ≤ 255) (hP1 : 1 ≤ P.length) (hP2 : P.length ≤ 255) (s : St)
    (hs : s.inp.flatten = cAuthVersion :: u8 (us.length + 1) :: u0 :: (us ++ u8 P.length :: (P ++ rest))) :
    ∃ inp', inp'.flatten = rest ∧
      match lookupUser users (u0 :: us) with
      | some (u, pw) =>
        if P = pw then
          ∃ b', userPass users b s = (.ok (u, b'), { s with inp := inp', out := s.out ++ [cAuthVersion, 0] }) ∧
            b'.length = b.length
        else userPass users b s = (.error .badCreds, { s with inp := inp', out := s.out ++ [cAuthVersion, 1] })
      | none => userPass users b s = (.error .badCreds, { s with inp := inp', out := s.out ++ [cAuthVersion, 1] }) := by
  have hb' : b.length = 262 := hb
  have hn : (u8 (us.length + 1)).toNat = us.length + 1 := u8_toNat _ (by omega)
  have hp : (u8 P.length).toNat = P.length := u8_toNat _ (by omega)
  cases us with
  | nil =>
    have hf : (dropC 4 s.inp).flatten = P ++ rest := by rw [dropC_flatten, hs]; simp
    refine ⟨dropC P.length (dropC 4 s.inp), by rw [dropC_flatten, hf]; simp, ?_⟩
    unfold userPass
    simp only [bind_def]
    rw [need_of _ (by simp [hb'])]
    simp only []
    rw [readIntoM_eq _ _ _ _ (by simp [hs]) (by omega)]
    simp only [hs]
    have hPne : P ≠ [] := by intro h; simp [h] at hP1
    have e : 2 + P.length = P.length + 1 + 1 := by omega
    simp [bgetM, bwrite, u8_toNat, hp, hPne]
    rw [readIntoM_eq _ _ _ _ (by simp [hf]) (by simp [hb']; omega)]
    have e2 : List.take (P.length + 1 + 1) (cAuthVersion :: u8 1 :: (P ++ List.drop (2 + P.length)
        (cAuthVersion :: u8 1 :: u0 :: u8 P.length :: List.drop 4 b))) = cAuthVersion :: u8 1 :: P := by
      simp
    cases hl : lookupUser users [u0] with
    | none => simp [hf, bslice, bwrite, bset, e, hl]
    | some up =>
      obtain ⟨u, pw⟩ := up
      by_cases hpw : P = pw
      · subst hpw; simp [hf, bslice, bwrite, bset, e, hl, hb']; omega
      · simp [hf, bslice, bwrite, bset, e, hl, hpw]
  | cons u1 us' =>
    simp at hU
    have h2 : (u8 (us'.length + 1 + 1)).toNat = us'.length + 2 := by simpa using hn
    have hf1 : (dropC 4 s.inp).flatten = (us' ++ [u8 P.length]) ++ (P ++ rest) := by rw [dropC_flatten, hs]; simp
    have hf2 : (dropC (us'.length + 1) (dropC 4 s.inp)).flatten = P ++ rest := by
      rw [dropC_flatten, hf1]; simp
    refine ⟨dropC P.length (dropC (us'.length + 1) (dropC 4 s.inp)), by rw [dropC_flatten, hf2]; simp, ?_⟩
    unfold userPass
    simp only [bind_def]
    rw [need_of _ (by simp [hb'])]
    simp only []
    rw [readIntoM_eq _ _ _ _ (by simp [hs]) (by omega)]
    simp only [hs]
    have hPne : P ≠ [] := by intro h; simp [h] at hP1
    have e : 2 + P.length = P.length + 1 + 1 := by omega
    simp [bgetM, bwrite, h2]
    rw [readIntoM_eq _ _ _ _ (by simp [hf1]) (by simp [hb']; omega)]
    have T : List.take (us'.length + 1) (us' ++ u8 P.length :: (P ++ rest)) = us' ++ [u8 P.length] := by
      rw [show us' ++ u8 P.length :: (P ++ rest) = (us' ++ [u8 P.length]) ++ (P ++ rest) by simp]
      exact List.take_left' (by simp)
    simp only [hf1, bwrite]
    simp only [List.take_zero, List.nil_append, List.append_assoc, List.cons_append, T, List.length_append,
      List.length_cons, List.length_nil, Nat.zero_add, List.take_succ_cons]
    have hjl : (List.drop (4 + (us'.length + 1))
        (cAuthVersion :: u8 (us'.length + 1 + 1) :: u0 :: u1 :: List.drop 4 b)).length = 257 - us'.length := by
      simp [hb']; omega
    generalize List.drop (4 + (us'.length + 1)) _ = junk at hjl ⊢
    simp only [aux_idx, aux_slice, hp]
    have hP0 : ¬ P.length = 0 := by omega
    simp only [hP0, if_false, bind_def]
    rw [readIntoM_eq _ _ _ _ (by simp [hf2]) (by simp [hjl]; omega)]
    simp only [hf2, List.take_left' rfl, bwrite, List.take_succ_cons, List.take_zero, List.cons_append, List.nil_append, aux_pw]
    cases hl : lookupUser users (u0 :: u1 :: us') with
    | none => simp [bslice, bset]
    | some up =>
      obtain ⟨u, pw⟩ := up
      by_cases hpw : P = pw
      · subst hpw; simp [bslice, bset, hjl]; omega
      · simp [bslice, bset, hpw]

/-- the plain wire form of an address (no IPv4-mapped conversion) -/
def wireEnc : Addr → Bytes
  | .v4 ip p => atypV4 :: (ip ++ be16 p)
  | .v6 ip p => atypV6 :: (ip ++ be16 p)
  | .dom n p => atypDom :: u8 n.length :: (n ++ be16 p)
  | .zero => []

theorem rd16_be16 (p : Nat) (h : p < 65536) : rd16 (u8 (p / 256)) (u8 (p % 256)) = p := by
  simp [rd16, u8_toNat _ (show p / 256 < 256 by omega), u8_toNat _ (show p % 256 < 256 by omega)]
  omega

theorem atyp_ne1 : atypV4 ≠ atypDom := by decide
theorem atyp_ne2 : atypV6 ≠ atypDom := by decide
theorem atyp_ne3 : atypV6 ≠ atypV4 := by decide

theorem encodeAddr_norm (a : Addr) (h : a.wf = true) : encodeAddr a = wireEnc a.norm := by
  cases a with
  | zero => simp [encodeAddr, Addr.norm, wireEnc, encodeIPPort]
  | v4 ip p => simp [encodeAddr, Addr.norm, wireEnc, encodeIPPort]
  | dom n p => simp [encodeAddr, Addr.norm, wireEnc]
  | v6 ip p =>
    by_cases hm : is4in6 ip = true <;> simp [encodeAddr, Addr.norm, encodeIPPort, hm, wireEnc]

theorem norm_wf (a : Addr) (h : a.wf = true) : a.norm.wf = true ∧ a.norm ≠ .zero := by
  cases a with
  | zero => simp [Addr.norm, Addr.wf]
  | v4 ip p => simpa [Addr.norm] using h
  | dom n p => simpa [Addr.norm] using h
  | v6 ip p =>
    simp only [Addr.norm]
    split
    · simp [Addr.wf] at h ⊢; omega
    · simpa using h

theorem decode_wire (w : Addr) (hw : w.wf = true) (hz : w ≠ .zero) : decodeAddr (wireEnc w) = .ok w := by
  cases w with
  | zero => exact absurd rfl hz
  | v4 ip p =>
    simp [Addr.wf] at hw
    obtain ⟨hl, hp⟩ := hw
    match ip, hl with
    | [a, b, c, d], _ =>
      simp [wireEnc, decodeAddr, atyp_ne1, be16, rd16_be16 p hp]
  | v6 ip p =>
    simp [Addr.wf] at hw
    obtain ⟨hl, hp⟩ := hw
    match ip, hl with
    | i0 :: ip', hl' =>
      simp at hl'
      simp [wireEnc, decodeAddr, atyp_ne2, atyp_ne3, be16, hl', rd16_be16 p hp]
  | dom n p =>
    simp [Addr.wf] at hw
    obtain ⟨⟨h1, h2⟩, hp⟩ := hw
    have hn : (u8 n.length).toNat = n.length := u8_toNat _ (by omega)
    have h0 : ¬ n.length = 0 := by omega
    simp [wireEnc, decodeAddr, be16, hn, rd16_be16 p hp, h0]

theorem aux_slice35 (a b c t x : UInt8) (tail junk : Bytes) :
    bslice (a :: b :: c :: t :: x :: (tail ++ junk)) 3 (5 + tail.length) = t :: x :: tail := by
  have e : 5 + tail.length = tail.length + 1 + 1 + 1 + 1 + 1 := by omega
  rw [e]; simp [bslice]

def kSel (t x : UInt8) : M Nat :=
  if t = atypDom then pure (x.toNat + 2)
  else if t = atypV4 then pure 5
  else if t = atypV6 then pure 17
  else fail (.badAtyp t)

theorem handleRequest_core (tcp udp : Bool) (loc : Bool × Bytes × Nat) (b : Bytes) (hb : b.length = C07.scratchLen)
    (cmd rsv t x : UInt8) (tail : Bytes) (w : Addr) (hk2 : tail.length ≤ 257)
    (hsel : kSel t x = pure tail.length)
    (hdec : decodeAddr (t :: x :: tail) = .ok w) (rest : Bytes) (s : St)
    (hs : s.inp.flatten = cVersion :: cmd :: rsv :: t :: x :: (tail ++ rest)) :
    ∃ inp', inp'.flatten = rest ∧
      (if cmd = cmdConnect ∧ tcp = true then
        ∃ b', handleRequest tcp udp loc b s = (.ok (.pending w, b'), { s with inp := inp' }) ∧ b'.length = b.length
      else if cmd = cmdUDP ∧ udp = true then
        ∃ b', handleRequest tcp udp loc b s = (.ok (.udpDone w, b'),
          { s with inp := inp', out := s.out ++ ([cVersion, repSucceeded, rsv] ++ encodeIPPort loc.1 loc.2.1 loc.2.2) })
      else
        ∃ b', handleRequest tcp udp loc b s = (.ok (.unsupported w cmd, b'),
          { s with inp := inp', out := s.out ++ [cVersion, repCmdNotSupported, 0, atypV4, 0, 0, 0, 0, 0, 0] })) := by
  have hb' : b.length = 262 := hb
  have hf : (dropC 5 s.inp).flatten = tail ++ rest := by rw [dropC_flatten, hs]; simp
  refine ⟨dropC tail.length (dropC 5 s.inp), by rw [dropC_flatten, hf]; simp, ?_⟩
  unfold handleRequest readAddrTailM
  simp only [bind_def]
  rw [need_of _ (by simp [hb']; decide)]
  simp only []
  rw [readIntoM_eq _ _ _ _ (by simp [hs]) (by omega)]
  simp only [hs]
  simp [bgetM, bwrite]
  have hsel' := hsel
  unfold kSel at hsel'
  rw [hsel']
  simp only [pure_def]
  rw [readIntoM_eq _ _ _ _ (by simp [hf]) (by simp [hb']; omega)]
  simp only [hf, List.take_left' rfl, bwrite, List.take_succ_cons, List.take_zero, List.cons_append, List.nil_append]
  have hjl : (List.drop (5 + tail.length) (cVersion :: cmd :: rsv :: t :: x :: List.drop 5 b)).length
      = 257 - tail.length := by simp [hb']; omega
  generalize List.drop (5 + tail.length) _ = junk at hjl ⊢
  simp only [aux_slice35, hdec]
  by_cases h1 : cmd = cmdConnect ∧ tcp = true
  · simp [h1, hjl]; omega
  · by_cases h2 : cmd = cmdUDP ∧ udp = true
    · have hne : ¬ (cmdUDP = cmdConnect) := by decide
      obtain ⟨h2a, h2b⟩ := h2
      subst h2a
      simp [hne, h2b, bslice, bset]
    · simp [h1, h2, replyWithStatus, hjl]
      rw [need_of _ (by simp [C07.IPv4AddrLen]; omega)]
      simp [C07.IPv4AddrLen, List.replicate]

theorem wire_shape (w : Addr) (hw : w.wf = true) (hz : w ≠ .zero) :
    ∃ t x tail, wireEnc w = t :: x :: tail ∧ kSel t x = pure tail.length ∧ tail.length ≤ 257 := by
  cases w with
  | zero => exact absurd rfl hz
  | v4 ip p =>
    simp [Addr.wf] at hw
    match ip, hw.1 with
    | [a, b, c, d], _ =>
      exact ⟨atypV4, a, [b, c, d] ++ be16 p, by simp [wireEnc], by simp [kSel, atyp_ne1, be16], by simp [be16]⟩
  | v6 ip p =>
    simp [Addr.wf] at hw
    match ip, hw.1 with
    | i0 :: ip', hl =>
      simp at hl
      exact ⟨atypV6, i0, ip' ++ be16 p, by simp [wireEnc], by simp [kSel, atyp_ne2, atyp_ne3, be16, hl],
        by simp [be16, hl]⟩
  | dom n p =>
    simp [Addr.wf] at hw
    have hn : (u8 n.length).toNat = n.length := u8_toNat _ (by omega)
    exact ⟨atypDom, u8 n.length, n ++ be16 p, by simp [wireEnc], by simp [kSel, hn, be16], by simp [be16]; omega⟩

theorem handleRequest_spec (tcp udp : Bool) (loc : Bool × Bytes × Nat) (b : Bytes) (hb : b.length = C07.scratchLen)
    (cmd rsv : UInt8) (w : Addr) (hw : w.wf = true) (hz : w ≠ .zero) (rest : Bytes) (s : St)
    (hs : s.inp.flatten = cVersion :: cmd :: rsv :: (wireEnc w ++ rest)) :
    ∃ inp', inp'.flatten = rest ∧
      (if cmd = cmdConnect ∧ tcp = true then
        ∃ b', handleRequest tcp udp loc b s = (.ok (.pending w, b'), { s with inp := inp' }) ∧ b'.length = b.length
      else if cmd = cmdUDP ∧ udp = true then
        ∃ b', handleRequest tcp udp loc b s = (.ok (.udpDone w, b'),
          { s with inp := inp', out := s.out ++ ([cVersion, repSucceeded, rsv] ++ encodeIPPort loc.1 loc.2.1 loc.2.2) })
      else
        ∃ b', handleRequest tcp udp loc b s = (.ok (.unsupported w cmd, b'),
          { s with inp := inp', out := s.out ++ [cVersion, repCmdNotSupported, 0, atypV4, 0, 0, 0, 0, 0, 0] })) := by
  obtain ⟨t, x, tail, hsh, hsel, hk⟩ := wire_shape w hw hz
  have hdec : decodeAddr (t :: x :: tail) = .ok w := by rw [← hsh]; exact decode_wire w hw hz
  exact handleRequest_core tcp udp loc b hb cmd rsv t x tail w hk hsel hdec rest s (by rw [hs, hsh]; simp)

theorem kSel_cases (t x : UInt8) (k : Nat) (h : kSel t x = pure k) :
    (t = atypDom ∧ k = x.toNat + 2) ∨ (t ≠ atypDom ∧ t = atypV4 ∧ k = 5) ∨
    (t ≠ atypDom ∧ t ≠ atypV4 ∧ t = atypV6 ∧ k = 17) := by
  have h0 := congrFun h ⟨[], [], []⟩
  unfold kSel at h0
  by_cases h1 : t = atypDom
  · simp [h1] at h0; exact Or.inl ⟨h1, h0.symm⟩
  · by_cases h2 : t = atypV4
    · simp [h2, atyp_ne1] at h0; exact Or.inr (Or.inl ⟨h1, h2, h0.symm⟩)
    · by_cases h3 : t = atypV6
      · simp [h3, atyp_ne2, atyp_ne3] at h0; exact Or.inr (Or.inr ⟨h1, h2, h3, h0.symm⟩)
      · simp [h1, h2, h3] at h0

theorem lookupUser_mem (users : List (Bytes × Bytes)) (name u pw : Bytes) (h : lookupUser users name = some (u, pw)) :
    u = name ∧ (u, pw) ∈ users := by
  unfold lookupUser at h
  have h1 := List.find?_some h
  have h2 := List.mem_of_find?_eq_some h
  simp at h1 h2
  exact ⟨h1, h2⟩

end SSV.HS
