import SSV.Model.Handshake
/-
Helper lemmas for C07: `io.ReadFull` over a chunked transport depends only on the concatenation;
scratch-buffer algebra; one specification lemma per handshake stage.
-/
namespace SSV.HS
open SSV SSV.Gen

/-! ### readFull -/

theorem dropC_flatten (n : Nat) (cs : Chunks) : (dropC n cs).flatten = cs.flatten.drop n := by
  induction cs generalizing n with
  | nil => cases n <;> simp [dropC]
  | cons c cs ih =>
    cases n with
    | zero => simp [dropC]
    | succ n =>
      simp only [dropC]
      split
      · split
        · rename_i h1 h2
          simp [List.drop_append, h2]
        · rename_i h1 h2
          have : n + 1 - c.length = 0 := by omega
          simp [List.drop_append, this]
      · rename_i h1
        rw [ih]
        simp only [List.flatten_cons, List.drop_append]
        have : List.drop (n + 1) c = [] := List.drop_eq_nil_of_le (by omega)
        simp [this]

theorem readFull_flat (n : Nat) (cs : Chunks) (h : n ≤ cs.flatten.length) :
    readFull n cs = some (cs.flatten.take n, dropC n cs) := by
  induction cs generalizing n with
  | nil =>
    cases n with
    | zero => simp [readFull, dropC]
    | succ n => simp at h
  | cons c cs ih =>
    cases n with
    | zero => simp [readFull, dropC]
    | succ n =>
      simp only [readFull, dropC]
      split
      · rename_i h1
        simp only [List.flatten_cons, List.take_append]
        have : n + 1 - c.length = 0 := by omega
        simp [this]
      · rename_i h1
        have hlen : n + 1 - c.length ≤ cs.flatten.length := by
          simp only [List.flatten_cons, List.length_append] at h; omega
        rw [ih _ hlen]
        simp only [List.flatten_cons, List.take_append]
        have : List.take (n + 1) c = c := List.take_of_length_le (by omega)
        simp [this]

theorem readFull_none (n : Nat) (cs : Chunks) (h : cs.flatten.length < n) : readFull n cs = none := by
  induction cs generalizing n with
  | nil => cases n with
    | zero => simp at h
    | succ n => simp [readFull]
  | cons c cs ih =>
    cases n with
    | zero => simp at h
    | succ n =>
      simp only [List.flatten_cons, List.length_append] at h
      simp only [readFull]
      split
      · omega
      · rw [ih _ (by omega)]

/-- `io.ReadFull` depends only on the concatenation of what the transport delivers. -/
theorem readFullM_of_flat (s : St) (d rest : Bytes) (h : s.inp.flatten = d ++ rest) :
    readFullM d.length s = (.ok d, { s with inp := dropC d.length s.inp }) ∧
    (dropC d.length s.inp).flatten = rest := by
  constructor
  · unfold readFullM
    rw [readFull_flat _ _ (by rw [h]; simp)]
    simp [h]
  · rw [dropC_flatten, h]; simp

/-! ### the monad -/

@[simp] theorem bind_def (m : M α) (f : α → M β) (s : St) :
    (m >>= f) s = match m s with
      | (.ok a, s') => f a s'
      | (.error e, s') => (.error e, s') := rfl

@[simp] theorem pure_def (a : α) (s : St) : (pure a : M α) s = (.ok a, s) := rfl
@[simp] theorem fail_def (e : Err) (s : St) : (fail e : M α) s = (.error e, s) := rfl
@[simp] theorem need_true (s : St) : need true s = (.ok (), s) := rfl
@[simp] theorem write_def (b : Bytes) (s : St) : write b s = (.ok (), { s with out := s.out ++ b }) := rfl
@[simp] theorem liftE_def (x : Except Err α) (s : St) : liftE x s = (x, s) := rfl

theorem need_of (c : Bool) (h : c = true) (s : St) : need c s = (.ok (), s) := by subst h; rfl

/-! ### scratch buffer -/

theorem bwrite_length (b : Bytes) (off : Nat) (d : Bytes) (h : off + d.length ≤ b.length) :
    (bwrite b off d).length = b.length := by
  simp [bwrite, List.length_take, List.length_drop]; omega

/-- after `copy(b[0:], d)`: `b[i:j] = d[i:j]` for `j ≤ len(d)` -/
theorem bslice_bwrite0 (b d : Bytes) (i j : Nat) (hj : j ≤ d.length) :
    bslice (bwrite b 0 d) i j = (d.take j).drop i := by
  simp [bslice, bwrite, List.take_append, show j - d.length = 0 by omega]

theorem getElem?_bwrite0 (b d : Bytes) (i : Nat) (hi : i < d.length) :
    (bwrite b 0 d)[i]? = d[i]? := by
  simp [bwrite, List.getElem?_append_left hi]

/-- two consecutive reads into adjacent regions are one write of the concatenation -/
theorem bwrite_bwrite0 (b d1 d2 : Bytes) (h : d1.length + d2.length ≤ b.length) :
    bwrite (bwrite b 0 d1) d1.length d2 = bwrite b 0 (d1 ++ d2) := by
  simp only [bwrite, List.take_zero, List.nil_append, Nat.zero_add, List.length_append]
  rw [List.take_left' rfl, List.drop_append]
  have : List.drop (d1.length + d2.length) d1 = [] := List.drop_eq_nil_of_le (by omega)
  simp [this, List.drop_drop]

theorem bgetM_of (b : Bytes) (i : Nat) (v : UInt8) (h : b[i]? = some v) (s : St) :
    bgetM b i s = (.ok v, s) := by
  simp [bgetM, h]

theorem bset_bwrite0_length (b : Bytes) (i : Nat) (v : UInt8) : (bset b i v).length = b.length := by
  simp [bset]

/-! ### stages -/

theorem readFullM_eq (n : Nat) (s : St) (h : n ≤ s.inp.flatten.length) :
    readFullM n s = (.ok (s.inp.flatten.take n), { s with inp := dropC n s.inp }) := by
  unfold readFullM
  rw [readFull_flat _ _ h]

theorem readIntoM_eq (b : Bytes) (off n : Nat) (s : St) (h : n ≤ s.inp.flatten.length) (hb : off + n ≤ b.length) :
    readIntoM b off n s = (.ok (bwrite b off (s.inp.flatten.take n)), { s with inp := dropC n s.inp }) := by
  unfold readIntoM
  simp only [bind_def]
  rw [need_of _ (by simpa using hb)]
  simp only [readFullM_eq n s h, pure_def]

theorem u8_toNat (n : Nat) (h : n < 256) : (u8 n).toNat = n := by
  simp [u8, UInt8.toNat_ofNat']
  omega

theorem methodSelection_spec (b : Bytes) (hb : b.length = C07.scratchLen) (method m0 : UInt8) (ms rest : Bytes)
    (hlen : ms.length + 1 ≤ 255) (s : St)
    (hs : s.inp.flatten = cVersion :: u8 (ms.length + 1) :: m0 :: (ms ++ rest)) :
    ∃ inp', inp'.flatten = rest ∧
      if (m0 :: ms).contains method then
        ∃ b', methodSelection b method s = (.ok b', { s with inp := inp', out := s.out ++ [cVersion, method] }) ∧
          b'.length = b.length
      else methodSelection b method s =
        (.error .noAcceptable, { s with inp := inp', out := s.out ++ [cVersion, mNoAcceptable] }) := by
  have hb' : b.length = 262 := hb
  have hn : (u8 (ms.length + 1)).toNat = ms.length + 1 := u8_toNat _ (by omega)
  cases ms with
  | nil =>
    refine ⟨dropC 3 s.inp, by rw [dropC_flatten, hs]; simp, ?_⟩
    unfold methodSelection
    simp only [bind_def]
    rw [need_of _ (by simp [hb'])]
    simp only []
    rw [readIntoM_eq _ _ _ _ (by simp [hs]) (by omega)]
    simp only [hs]
    by_cases h : m0 = method
    · subst h; simp [bgetM, bwrite, bslice, bset, u8_toNat]; omega
    · have h' : ¬ method = m0 := fun e => h e.symm
      simp [bgetM, bwrite, bslice, bset, u8_toNat, h, h']
  | cons m1 ms' =>
    have h2 : (u8 (ms'.length + 1 + 1)).toNat = ms'.length + 2 := by simpa using hn
    have hf : (dropC 3 s.inp).flatten = (m1 :: ms') ++ rest := by rw [dropC_flatten, hs]; simp
    refine ⟨dropC (ms'.length + 1) (dropC 3 s.inp), by rw [dropC_flatten, hf]; simp, ?_⟩
    unfold methodSelection
    simp only [bind_def]
    rw [need_of _ (by simp [hb'])]
    simp only []
    rw [readIntoM_eq _ _ _ _ (by simp [hs]) (by omega)]
    simp only [hs]
    simp [bgetM, bwrite, h2]
    simp at hlen
    rw [readIntoM_eq _ _ _ _ (by simp [hf]) (by simp [hb']; omega)]
    have e : 2 + (ms'.length + 2) = ms'.length + 1 + 1 + 1 + 1 := by omega
    simp only [hf, bwrite, bslice, bset, e]
    simp
    by_cases hm : method = m0 ∨ method = m1 ∨ method ∈ ms'
    · have hn' : ¬(¬method = m0 ∧ ¬method = m1 ∧ ¬method ∈ ms') := by
        intro ⟨a, b, c⟩; rcases hm with h | h | h <;> contradiction
      rw [if_pos hm, if_neg hn']
      refine ⟨_, rfl, ?_⟩
      simp [hb']; omega
    · have hn' : (¬method = m0 ∧ ¬method = m1 ∧ ¬method ∈ ms') := by simpa [not_or] using hm
      rw [if_neg hm, if_pos hn']; rfl

end SSV.HS
