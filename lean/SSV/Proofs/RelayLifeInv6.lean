import SSV.Proofs.RelayLifeDefs3
/- C12 helper lemmas, part 6: the listener's deadline is in the past once Stop's first step is done; the entry Stop is
about to force has not been marked visited yet. -/
namespace SSV.RelayLife
variable (cfg : Cfg)

/-- Stop has forced the listeners' read deadline -/
def SPc.afterDl : SPc → Bool
  | .idle | .dlServer => false
  | _ => true

structure Inv6 (s : State) : Prop where
  p1 : s.spc.afterDl = true → s.srvPast = true
  p2 : ∀ i, s.spc = .pend i → (i < s.n ∧ (s.ent i).visited = false)

theorem inv6_initial : Inv6 State.init := by
  constructor <;> simp [State.init, SPc.afterDl]

set_option hygiene false in
macro "close_case6" : tactic => `(tactic| (
  first
  | (simp at h; done)
  | (injection h with h; subst h
     constructor <;> simp_all [State.setE, State.inTab, SPc.afterDl, Entry.closeIf, Entry.closeSock] <;> grind [SPc.afterDl, Entry.fresh])))

theorem inv6_arrive (s s' : State) (c : Nat) (hI : Inv6 s) (h : step cfg s (.arrive c) = some s') : Inv6 s' := by
  obtain ⟨p1, p2⟩ := hI
  simp only [step] at h
  (repeat' split at h) <;> close_case6

theorem inv6_rLock (s s' : State)  (hI : Inv6 s) (h : step cfg s (.rLock ) = some s') : Inv6 s' := by
  obtain ⟨p1, p2⟩ := hI
  simp only [step] at h
  (repeat' split at h) <;> close_case6

theorem inv6_rProc (s s' : State) (ok : Bool) (hI : Inv6 s) (h : step cfg s (.rProc ok) = some s') : Inv6 s' := by
  obtain ⟨p1, p2⟩ := hI
  simp only [step] at h
  (repeat' split at h) <;> close_case6

theorem inv6_rMore (s s' : State) (c : Nat) (hI : Inv6 s) (h : step cfg s (.rMore c) = some s') : Inv6 s' := by
  obtain ⟨p1, p2⟩ := hI
  simp only [step] at h
  (repeat' split at h) <;> close_case6

theorem inv6_rUnlock (s s' : State)  (hI : Inv6 s) (h : step cfg s (.rUnlock ) = some s') : Inv6 s' := by
  obtain ⟨p1, p2⟩ := hI
  simp only [step] at h
  (repeat' split at h) <;> close_case6

theorem inv6_rExit (s s' : State)  (hI : Inv6 s) (h : step cfg s (.rExit ) = some s') : Inv6 s' := by
  obtain ⟨p1, p2⟩ := hI
  simp only [step] at h
  (repeat' split at h) <;> close_case6

theorem inv6_init (s s' : State) (i : Nat) (ok : Bool) (hI : Inv6 s) (h : step cfg s (.init i ok) = some s') : Inv6 s' := by
  obtain ⟨p1, p2⟩ := hI
  simp only [step] at h
  (repeat' split at h) <;> close_case6

theorem inv6_dTimeout (s s' : State) (i : Nat) (hI : Inv6 s) (h : step cfg s (.dTimeout i) = some s') : Inv6 s' := by
  obtain ⟨p1, p2⟩ := hI
  simp only [step] at h
  (repeat' split at h) <;> close_case6

theorem inv6_dPacket (s s' : State) (i : Nat) (hI : Inv6 s) (h : step cfg s (.dPacket i) = some s') : Inv6 s' := by
  obtain ⟨p1, p2⟩ := hI
  simp only [step] at h
  (repeat' split at h) <;> close_case6

theorem inv6_dSend (s s' : State) (i : Nat) (hI : Inv6 s) (h : step cfg s (.dSend i) = some s') : Inv6 s' := by
  obtain ⟨p1, p2⟩ := hI
  simp only [step] at h
  (repeat' split at h) <;> close_case6

theorem inv6_cleanup (s s' : State) (i : Nat) (hI : Inv6 s) (h : step cfg s (.cleanup i) = some s') : Inv6 s' := by
  obtain ⟨p1, p2⟩ := hI
  simp only [step] at h
  (repeat' split at h) <;> close_case6

theorem inv6_uRecv (s s' : State) (i : Nat) (k : Nat) (hI : Inv6 s) (h : step cfg s (.uRecv i k) = some s') : Inv6 s' := by
  obtain ⟨p1, p2⟩ := hI
  simp only [step] at h
  (repeat' split at h) <;> close_case6

theorem inv6_uStep (s s' : State) (i : Nat) (hI : Inv6 s) (h : step cfg s (.uStep i) = some s') : Inv6 s' := by
  obtain ⟨p1, p2⟩ := hI
  simp only [step] at h
  (repeat' split at h) <;> close_case6

theorem inv6_uFail (s s' : State) (i : Nat) (hI : Inv6 s) (h : step cfg s (.uFail i) = some s') : Inv6 s' := by
  obtain ⟨p1, p2⟩ := hI
  simp only [step] at h
  (repeat' split at h) <;> close_case6

theorem inv6_timer (s s' : State) (i : Nat) (hI : Inv6 s) (h : step cfg s (.timer i) = some s') : Inv6 s' := by
  obtain ⟨p1, p2⟩ := hI
  simp only [step] at h
  (repeat' split at h) <;> close_case6

theorem inv6_stopCall (s s' : State)  (hI : Inv6 s) (h : step cfg s (.stopCall ) = some s') : Inv6 s' := by
  obtain ⟨p1, p2⟩ := hI
  simp only [step] at h
  (repeat' split at h) <;> close_case6

theorem inv6_stop (s s' : State)  (hI : Inv6 s) (h : step cfg s (.stop ) = some s') : Inv6 s' := by
  obtain ⟨p1, p2⟩ := hI
  simp only [step] at h
  (repeat' split at h) <;> close_case6

theorem inv6_stopVisit (s s' : State) (i : Nat) (hI : Inv6 s) (h : step cfg s (.stopVisit i) = some s') : Inv6 s' := by
  obtain ⟨p1, p2⟩ := hI
  simp only [step] at h
  (repeat' split at h) <;> close_case6

theorem inv6_step (s s' : State) (e : Ev) (hI : Inv6 s) (h : step cfg s e = some s') : Inv6 s' := by
  cases e with
  | arrive c => exact inv6_arrive cfg s s' c hI h
  | rLock  => exact inv6_rLock cfg s s'  hI h
  | rProc ok => exact inv6_rProc cfg s s' ok hI h
  | rMore c => exact inv6_rMore cfg s s' c hI h
  | rUnlock  => exact inv6_rUnlock cfg s s'  hI h
  | rExit  => exact inv6_rExit cfg s s'  hI h
  | init i ok => exact inv6_init cfg s s' i ok hI h
  | dTimeout i => exact inv6_dTimeout cfg s s' i hI h
  | dPacket i => exact inv6_dPacket cfg s s' i hI h
  | dSend i => exact inv6_dSend cfg s s' i hI h
  | cleanup i => exact inv6_cleanup cfg s s' i hI h
  | uRecv i k => exact inv6_uRecv cfg s s' i k hI h
  | uStep i => exact inv6_uStep cfg s s' i hI h
  | uFail i => exact inv6_uFail cfg s s' i hI h
  | timer i => exact inv6_timer cfg s s' i hI h
  | stopCall  => exact inv6_stopCall cfg s s'  hI h
  | stop  => exact inv6_stop cfg s s'  hI h
  | stopVisit i => exact inv6_stopVisit cfg s s' i hI h

theorem inv6_reachable {s : State} (h : Reachable cfg s) : Inv6 s := by
  induction h with
  | init => exact inv6_initial
  | step e _ hs ih => exact inv6_step cfg _ _ e ih hs

end SSV.RelayLife
