import SSV.Proofs.Stats
/-
C14 — the regenerated programs satisfy `GenOK`; the conserved quantity over a whole configuration;
induction over all interleavings (`Reach`).
-/
namespace SSV.Stats
open SSV.Gen.C14

/-! ### facts about the regenerated programs (closed by evaluation) -/

theorem shape_reset : parseAgg SnapshotAndReset = some ⟨.snapshotAndReset, .snapshotAndReset⟩ := by decide
theorem shape_plain : parseAgg Snapshot = some ⟨.snapshot, .snapshot⟩ := by decide

theorem genOK : GenOK where
  collect_adds := by intro i; cases i <;> decide
  reset_anon := by decide
  reset_user := by decide
  load_anon := by decide
  load_user := by decide
  add_pointwise := by
    intro tot lit f
    cases f <;> simp [applyAdd, trafficAdd, List.foldl, Counters.get_set]

/-! ### what one recorded session is worth, written from the documentation of `stats.Collector`
(parameter names of the interface), independently of the regenerated programs -/

/-- `CollectTCPSession(username, downlinkBytes, uplinkBytes)`: the bytes and one TCP session.
`CollectUDPSessionDownlink(username, downlinkPackets, downlinkBytes)`: packets, bytes and the UDP session itself.
`CollectUDPSessionUplink(username, uplinkPackets, uplinkBytes)`: packets and bytes. -/
def specDelta : Call → Nat → Nat → Field → Nat
  | .tcp, dl, _, .downlinkBytes => dl
  | .tcp, _, ul, .uplinkBytes => ul
  | .tcp, _, _, .tcpSessions => 1
  | .udpDown, pk, _, .downlinkPackets => pk
  | .udpDown, _, by_, .downlinkBytes => by_
  | .udpDown, _, _, .udpSessions => 1
  | .udpUp, pk, _, .uplinkPackets => pk
  | .udpUp, _, by_, .uplinkBytes => by_
  | _, _, _, _ => 0

/-- the atomic adds of a Collect* call add up to exactly what the session is worth, counter by counter
(crossed fields or arguments in the source falsify this) -/
theorem collect_adds_spec (c : Call) (x0 x1 : Nat) (f : Field) : pendPc f (collectPc c x0 x1) = specDelta c x0 x1 f := by
  cases c <;> cases f <;>
    simp [collectPc, Call.wrapper, CollectTCPSession, CollectUDPSessionDownlink, CollectUDPSessionUplink, innerProg,
      collectTCPSession, collectUDPSessionDownlink, collectUDPSessionUplink, bindStep, Arg.eval, pendPc, specDelta]

/-! ### whole configurations -/

def sumOver (g : Thread → Nat) : List Thread → Nat
  | [] => 0
  | th :: r => g th + sumOver g r

theorem sumOver_append (g : Thread → Nat) (a b : List Thread) : sumOver g (a ++ b) = sumOver g a + sumOver g b := by
  induction a with
  | nil => simp [sumOver]
  | cons x r ih => simp [sumOver, ih, Nat.add_assoc]

/-- per collector and counter: taken out by resetting snapshots + still in the counter + still to be added -/
def mass (cfg : Config) (t : Target) (f : Field) : Nat :=
  sumOver (Thread.got t f) cfg.threads + (cfg.sh.ctr t).get f + sumOver (Thread.pend t f) cfg.threads

def AllWF (cfg : Config) : Prop := ∀ th ∈ cfg.threads, th.WF

theorem thread_step_ok (order : List String) (sh sh' : Shared) (th th' : Thread) (hwf : th.WF)
    (h : Thread.step order sh th = some (sh', th')) : th'.WF ∧ ∀ t f, Conserved t f sh sh' th th' := by
  cases th with
  | collect c =>
    simp only [Thread.step, Option.map_eq_some_iff] at h
    obtain ⟨⟨sh1, c1⟩, hc, heq⟩ := h
    simp only [Prod.mk.injEq] at heq
    obtain ⟨rfl, rfl⟩ := heq
    have := collect_step_ok sh sh1 c c1 hwf hc
    exact ⟨this.1, this.2.2.2.2⟩
  | snap s =>
    simp only [Thread.step, Option.map_eq_some_iff] at h
    obtain ⟨⟨sh1, s1⟩, hc, heq⟩ := h
    simp only [Prod.mk.injEq] at heq
    obtain ⟨rfl, rfl⟩ := heq
    have := snap_step_ok genOK order sh sh1 s s1 hwf hc
    exact ⟨this.1, this.2.2⟩

theorem step_ok {a b : Config} (hs : Step a b) (hwf : AllWF a) :
    AllWF b ∧ ∀ t f, mass b t f % M = mass a t f % M ∧ mass b t f ≤ mass a t f := by
  cases hs with
  | mk pre post th th' sh sh' order _ hstep =>
    have hth : th.WF := hwf th (by simp)
    obtain ⟨hwf', hcons⟩ := thread_step_ok order sh sh' th th' hth hstep
    refine ⟨?_, ?_⟩
    · intro x hx
      simp only [List.mem_append, List.mem_cons] at hx
      rcases hx with hx | rfl | hx
      · exact hwf x (by simp [hx])
      · exact hwf'
      · exact hwf x (by simp [hx])
    · intro t f
      have := hcons t f
      simp only [Conserved, M] at this
      simp only [mass, sumOver_append, sumOver, M]
      omega

theorem reach_ok {a b : Config} (hr : Reach a b) (hwf : AllWF a) :
    AllWF b ∧ ∀ t f, mass b t f % M = mass a t f % M ∧ mass b t f ≤ mass a t f := by
  induction hr with
  | refl => exact ⟨hwf, fun _ _ => ⟨rfl, Nat.le_refl _⟩⟩
  | tail _ hstep ih =>
    obtain ⟨hw, hm⟩ := ih
    obtain ⟨hw', hm'⟩ := step_ok hstep hw
    refine ⟨hw', fun t f => ?_⟩
    have h1 := hm t f
    have h2 := hm' t f
    exact ⟨h2.1.trans h1.1, Nat.le_trans h2.2 h1.2⟩

/-! ### pools of calls -/

/-- a call of the public `stats.Collector` interface -/
inductive Op where
  | collect (c : Call) (u : String) (x0 x1 : Nat)
  | snapshot (reset : Bool)

def Op.thread : Op → Thread
  | .collect c u x0 x1 => .collect (mkCollect c u x0 x1)
  | .snapshot reset => .snap (mkSnap reset)

/-- every call of the pool is pending, all counters are zero, no user collector exists -/
def initCfg (ops : List Op) : Config := ⟨Shared.init, ops.map Op.thread⟩

/-- everything the pool records for collector `t`, counter `f` (by the documentation, not by the code) -/
def recorded (t : Target) (f : Field) : List Op → Nat
  | [] => 0
  | .collect c u x0 x1 :: r => (if target u = t then specDelta c x0 x1 f else 0) + recorded t f r
  | .snapshot _ :: r => recorded t f r

theorem initCfg_WF (ops : List Op) : AllWF (initCfg ops) := by
  intro th hth
  simp only [initCfg, List.mem_map] at hth
  obtain ⟨op, _, rfl⟩ := hth
  cases op with
  | collect c u x0 x1 => exact mkCollect_WF genOK c u x0 x1
  | snapshot r => exact mkSnap_WF genOK r

theorem mass_init (ops : List Op) (t : Target) (f : Field) : mass (initCfg ops) t f = recorded t f ops := by
  have hg : sumOver (Thread.got t f) (ops.map Op.thread) = 0 := by
    induction ops with
    | nil => rfl
    | cons op r ih =>
      cases op with
      | collect c u x0 x1 => simpa [sumOver, Op.thread, Thread.got] using ih
      | snapshot reset =>
        cases reset <;> simpa [sumOver, Op.thread, Thread.got, mkSnap, sumDone] using ih
  have hp : sumOver (Thread.pend t f) (ops.map Op.thread) = recorded t f ops := by
    clear hg
    induction ops with
    | nil => rfl
    | cons op r ih =>
      cases op with
      | collect c u x0 x1 =>
        simp only [List.map_cons, sumOver, Op.thread, Thread.pend, mkCollect, recorded, ih, collect_adds_spec]
      | snapshot reset => simpa [sumOver, Op.thread, Thread.pend, recorded] using ih
  simp [mass, initCfg, hg, hp, Shared.init]

end SSV.Stats
