import SSV.Proofs.ParsersSocks2
/-
C06 helper lemmas, part 6: the SOCKS5 client reading a (hostile) server's replies.
-/
namespace SSV.Parsers.Proofs
open SSV SSV.Go SSV.Outcome SSV.Parsers

theorem np_s5ClientNegotiate (method : Nat) (st : S5) (hb : st.b.length = 3 + Gen.C06.MaxAddrLen) :
    NoPanic (s5ClientNegotiate method st) := by
  unfold s5ClientNegotiate
  simp only [Gen.C06.MaxAddrLen, Gen.C06.clientNegotiateAuthMethod_lenGuard0] at hb ⊢
  split
  · omega
  · refine noPanic_bind (np_set st 0 _ (by omega)) ?_
    intro s1 h1; have l1 := set_len h1
    refine noPanic_bind (np_set s1 1 _ (by omega)) ?_
    intro s2 h2; have l2 := set_len h2
    refine noPanic_bind (np_set s2 2 _ (by omega)) ?_
    intro s3 h3; have l3 := set_len h3
    refine noPanic_bind (np_writeTo s3 3 (by omega)) ?_
    intro s4 h4; have l4 := writeTo_len h4
    refine noPanic_bind (np_readInto s4 0 2 (by omega)) ?_
    intro s5 h5; have l5 := readInto_len h5
    rw [idx_of_lt (by omega)]
    simp only [ok_bind]
    split
    · simp
    · rw [idx_of_lt (by omega)]
      simp only [ok_bind]
      split <;> simp

theorem s5ClientNegotiate_len {method : Nat} {st st' : S5} (h : s5ClientNegotiate method st = .ok st') :
    st'.b.length = st.b.length := by
  unfold s5ClientNegotiate at h
  split at h
  · simp at h
  · obtain ⟨s1, h1, h⟩ := bind_eq_ok h; have l1 := set_len h1
    obtain ⟨s2, h2, h⟩ := bind_eq_ok h; have l2 := set_len h2
    obtain ⟨s3, h3, h⟩ := bind_eq_ok h; have l3 := set_len h3
    obtain ⟨s4, h4, h⟩ := bind_eq_ok h; have l4 := writeTo_len h4
    obtain ⟨s5, h5, h⟩ := bind_eq_ok h; have l5 := readInto_len h5
    obtain ⟨v, _, h⟩ := bind_eq_ok h
    split at h
    · simp at h
    · obtain ⟨m, _, h⟩ := bind_eq_ok h
      split at h
      · simp at h
      · simp only [pure_eq, Outcome.ok.injEq] at h
        subst h; omega

theorem np_s5ClientAuth (authMsg : Bytes) (st : S5) (hb : st.b.length = 3 + Gen.C06.MaxAddrLen) :
    NoPanic (s5ClientAuth authMsg st) := by
  unfold s5ClientAuth
  simp only [Gen.C06.MaxAddrLen, Gen.C06.clientDoUsernamePasswordAuth_lenGuard0] at hb ⊢
  split
  · omega
  · refine noPanic_bind (np_readInto _ 0 2 (by simp only []; omega)) ?_
    intro s1 h1; have l1 := readInto_len h1
    simp only [] at l1
    rw [idx_of_lt (by omega)]
    simp only [ok_bind]
    split
    · simp
    · rw [idx_of_lt (by omega)]
      simp only [ok_bind]
      split <;> simp

theorem s5ClientAuth_len {authMsg : Bytes} {st st' : S5} (h : s5ClientAuth authMsg st = .ok st') :
    st'.b.length = st.b.length := by
  unfold s5ClientAuth at h
  split at h
  · simp at h
  · obtain ⟨s1, h1, h⟩ := bind_eq_ok h; have l1 := readInto_len h1
    simp only [] at l1
    obtain ⟨v, _, h⟩ := bind_eq_ok h
    split at h
    · simp at h
    · obtain ⟨m, _, h⟩ := bind_eq_ok h
      split at h
      · simp at h
      · simp only [pure_eq, Outcome.ok.injEq] at h
        subst h; omega

theorem np_s5ClientRequest (cmd : UInt8) (enc : Bytes) (henc : enc.length ≤ Gen.C06.MaxAddrLen) (st : S5)
    (hb : st.b.length = 3 + Gen.C06.MaxAddrLen) : NoPanic (s5ClientRequest cmd enc st) := by
  unfold s5ClientRequest
  simp only [Gen.C06.MaxAddrLen, Gen.C06.clientDoRequest_lenGuard0] at hb henc ⊢
  split
  · omega
  · refine noPanic_bind (np_set st 0 _ (by omega)) ?_
    intro s1 h1; have l1 := set_len h1
    refine noPanic_bind (np_set s1 1 _ (by omega)) ?_
    intro s2 h2; have l2 := set_len h2
    refine noPanic_bind (np_set s2 2 _ (by omega)) ?_
    intro s3 h3; have l3 := set_len h3
    rw [sliceFrom_of_le (by omega)]
    simp only [ok_bind]
    split
    · rename_i hlt
      simp only [List.length_drop] at hlt
      omega
    · have lb : (List.take 3 s3.b ++ enc ++ List.drop (3 + enc.length) s3.b).length = s3.b.length := by
        simp only [List.length_append, List.length_take, List.length_drop]; omega
      refine noPanic_bind (np_writeTo _ _ (by simp only [lb]; omega)) ?_
      intro s4 h4; have l4 := writeTo_len h4
      simp only [lb] at l4
      refine noPanic_bind (np_readInto s4 0 5 (by omega)) ?_
      intro s5 h5; have l5 := readInto_len h5
      rw [idx_of_lt (by omega)]
      simp only [ok_bind]
      split
      · simp
      · rw [slice_of_le (by omega), slice_of_le (by omega)]
        simp only [ok_bind]
        refine noPanic_bind (np_appendFromReader _) ?_
        rintro ⟨sa, rest⟩ hsa
        have hlen := appendFromReader_ok_len hsa
        simp only [Gen.C06.MaxAddrLen] at hlen
        dsimp only
        refine noPanic_bind (np_connAddrFromSlice sa) ?_
        rintro ⟨a, n⟩ _
        dsimp only
        have lb2 : (List.take 3 s5.b ++ sa ++ List.drop (3 + sa.length) s5.b).length = s5.b.length := by
          simp only [List.length_append, List.length_take, List.length_drop]; omega
        rw [idx_of_lt (by rw [lb2]; omega)]
        simp only [ok_bind]
        split <;> simp

/-- the whole SOCKS5 client exchange never panics, whatever the server sends -/
theorem np_s5Client (auth : Bool) (authMsg : Bytes) (cmd : UInt8) (enc : Bytes) (henc : enc.length ≤ Gen.C06.MaxAddrLen)
    (stream : Bytes) : NoPanic (s5Client auth authMsg cmd enc stream) := by
  unfold s5Client
  have hb0 : (⟨List.replicate (3 + Gen.C06.MaxAddrLen) 0, stream, []⟩ : S5).b.length = 3 + Gen.C06.MaxAddrLen := by simp
  refine noPanic_bind (np_s5ClientNegotiate _ _ hb0) ?_
  intro st1 h1
  have l1 : st1.b.length = 3 + Gen.C06.MaxAddrLen := by rw [s5ClientNegotiate_len h1]; exact hb0
  refine noPanic_bind ?_ ?_
  · split
    · exact np_s5ClientAuth authMsg st1 l1
    · simp
  · intro st2 h2
    have l2 : st2.b.length = 3 + Gen.C06.MaxAddrLen := by
      split at h2
      · rw [s5ClientAuth_len h2]; exact l1
      · simp only [pure_eq, Outcome.ok.injEq] at h2; rw [← h2]; exact l1
    refine noPanic_bind (np_s5ClientRequest cmd enc henc st2 l2) ?_
    rintro ⟨st3, a⟩ _
    simp

end SSV.Parsers.Proofs
