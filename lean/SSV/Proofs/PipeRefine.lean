import SSV.Proofs.PipeStable
/-
C15 — refinement: the goroutine-pc model implements the abstract direction of the property statement.
-/
namespace SSV.Pipe

/-- the abstract direction: the byte stream delivered to the reading end, the writes (in the order in which
they were admitted) each with the number of its bytes delivered so far, and how the direction was closed -/
structure Spec where
  delivered : Bytes
  writes : List (Bytes × Nat)
  closed : Option Err

/-- the atomic actions of the abstract direction: only the LAST admitted write delivers, a prefix at a time -/
inductive SpecStep (a : Spec) : Spec → Prop where
  | admitWrite (buf : Bytes) : SpecStep a { a with writes := a.writes ++ [(buf, 0)] }
  | deliver (pre : List (Bytes × Nat)) (buf : Bytes) (n k : Nat) :
      a.writes = pre ++ [(buf, n)] → n + k ≤ buf.length →
      SpecStep a { a with writes := pre ++ [(buf, n + k)], delivered := a.delivered ++ (buf.drop n).take k }
  | close (e : Err) : a.closed = none → SpecStep a { a with closed := some e }

def abs (s : State) : Spec :=
  { delivered := s.rret, writes := s.wlog, closed := if s.done then s.err else none }

theorem abs_eq {s s' : State} (h1 : s'.rret = s.rret) (h2 : s'.wlog = s.wlog) (h3 : s'.done = s.done)
    (h4 : s'.err = s.err) : abs s' = abs s := by
  simp [abs, h1, h2, h3, h4]

theorem setCount_last (pre : List (Bytes × Nat)) (o : Bytes) (n m : Nat) :
    setCount (pre ++ [(o, n)]) pre.length m = pre ++ [(o, m)] := by
  induction pre with
  | nil => simp [setCount]
  | cons x rest ih => simp [setCount, ih]

theorem split_last {α : Type} (l : List α) (ci : Nat) (x : α) (h : l[ci]? = some x) (hl : ci + 1 = l.length) :
    ∃ pre, l = pre ++ [x] ∧ pre.length = ci := by
  refine ⟨l.take ci, ?_, by simp; omega⟩
  have hlt : ci < l.length := by omega
  have hx : l[ci] = x := by
    have := List.getElem?_eq_getElem hlt
    rw [this] at h; exact Option.some.inj h
  have h2 : l.drop ci = [x] := by
    rw [List.drop_eq_getElem_cons hlt, hx]
    have : l.drop (ci + 1) = [] := by simp; omega
    rw [this]
  have h1 : l = l.take ci ++ l.drop ci := (List.take_append_drop ci l).symm
  rw [h2] at h1; exact h1

theorem local_abs {s s' : State} (h : Inv s) (i : Nat) (hs : s' ∈ localSteps s i) :
    abs s' = abs s ∨ SpecStep (abs s) (abs s') := by
  unfold localSteps at hs
  split at hs
  case h_4 => -- rSel
    left
    rcases mem_selSteps hs with h' | h' <;> split at h' <;> simp at h' <;> subst h'
    · rename_i hd; obtain ⟨e, he⟩ := err_of_done h hd
      rw [withErr_some _ he]; exact abs_eq rfl rfl rfl rfl
    · exact abs_eq rfl rfl rfl rfl
  case h_9 => -- wSel
    left
    rcases mem_selSteps hs with h' | h' <;> split at h' <;> simp at h' <;> subst h'
    · rename_i hd; obtain ⟨e, he⟩ := err_of_done h hd
      rw [withErr_some _ he]; exact abs_eq rfl rfl rfl rfl
    · exact abs_eq rfl rfl rfl rfl
  case h_7 b hp => -- wLock
    split at hs
    · simp at hs; subst hs
      right
      exact SpecStep.admitWrite b
    · simp at hs
  case h_10 e hp => -- cStore
    left
    simp at hs; subst hs
    simp only [abs, State.setT]
    by_cases hd : s.done = true
    · obtain ⟨e', he'⟩ := err_of_done h hd
      simp [hd, he']
    · simp [hd]
  case h_11 hp => -- cClose
    simp at hs; subst hs
    by_cases hd : s.done = true
    · left; exact abs_eq rfl rfl (by simp [State.setT, hd]) rfl
    · right
      have hne := h.closeOk i hp
      obtain ⟨e, he⟩ := Option.ne_none_iff_exists'.mp hne
      have : abs ({ s with done := true }.setT i (.uRet .nil)) = { abs s with closed := some e } := by
        simp [abs, State.setT, hd, he]
      rw [this]; exact SpecStep.close e (by simp [abs, hd])
  case h_13 w k hp => -- dSet
    left; simp at hs; subst hs
    cases w <;> exact abs_eq rfl rfl rfl rfl
  case h_12 w k hp => -- dChk
    left
    split at hs <;> simp at hs <;> subst hs
    · rename_i hd; obtain ⟨e, he⟩ := err_of_done h hd; rw [withErr_some _ he]
      (repeat' split) <;> exact abs_eq rfl rfl rfl rfl
    · exact abs_eq rfl rfl rfl rfl
  all_goals
    left
    first
      | (simp at hs; done)
      | (split at hs <;> simp at hs <;> subst hs <;>
          first
            | exact abs_eq rfl rfl rfl rfl
            | (rename_i hd; obtain ⟨e, he⟩ := err_of_done h hd; rw [withErr_some _ he]
               first
                 | exact abs_eq rfl rfl rfl rfl
                 | (split <;> exact abs_eq rfl rfl rfl rfl)))
      | (simp at hs; subst hs; exact abs_eq rfl rfl rfl rfl)

/-- REFINEMENT: every step of the implementation model is a step of the abstract direction or leaves its
abstract state unchanged (admitWrite = the write takes the lock; deliver = the count-back completes a hand-shake;
close = `close(done)` for the first time). -/
theorem step_refines {s s' : State} (h : Inv s) (st : Step s s') : abs s' = abs s ∨ SpecStep (abs s) (abs s') := by
  cases st with
  | start i op hs =>
    left; unfold start at hs; split at hs <;> simp at hs; subst hs; exact abs_eq rfl rfl rfl rfl
  | finish i hs =>
    left; unfold finish at hs; split at hs <;> simp at hs <;> subst hs <;> exact abs_eq rfl rfl rfl rfl
  | fire w hs =>
    left; unfold fire at hs
    cases w <;> simp at hs <;> obtain ⟨_, hs⟩ := hs <;> split at hs <;> simp at hs <;> subst hs <;>
      exact abs_eq rfl rfl rfl rfl
  | loc i hs => exact local_abs h i hs
  | data i j hs =>
    left; unfold data at hs; split at hs
    · split at hs <;> simp at hs; subst hs; exact abs_eq rfl rfl rfl rfl
    · simp at hs
  | count i j hs =>
    unfold count at hs; split at hs
    next k acc nr fail chunk b n ci hi hj =>
      obtain ⟨j', hj'⟩ := h.ackHs i (by simp [hi, PC.isAck])
      obtain ⟨i', hi'⟩ := h.awaitHs j (by simp [hj, PC.isAwait])
      have hhs : s.hs = some (i, j) := by
        rw [hj'] at hi'; simp only [Option.some.injEq, Prod.mk.injEq] at hi'
        rw [hj', hi'.2]
      obtain ⟨_, _, _, _, b0, _, _, e1, e2, hle⟩ := h.hsOk i j hhs
      rw [hi] at e1; rw [hj] at e2
      simp only [PC.rAck.injEq] at e1; simp only [PC.wAwait.injEq] at e2
      obtain ⟨_, _, enr, _, ech⟩ := e1
      obtain ⟨eb, _, _⟩ := e2
      subst enr; subst eb
      have hwj := h.wOk j
      simp only [hj, PC.wOk] at hwj
      obtain ⟨hci, o, hget, hb, hno⟩ := hwj
      have hnle : ¬ nr > b.length := by omega
      simp only [hnle, if_false, Option.some.injEq] at hs
      obtain ⟨pre, hpre, hlen⟩ := split_last s.wlog ci (o, n) hget hci
      have hlen' : b.length = o.length - n := by rw [hb]; simp
      right
      have key : abs s' = { abs s with writes := pre ++ [(o, n + nr)],
                                        delivered := (abs s).delivered ++ (o.drop n).take nr } := by
        subst hs
        have hsc : setCount s.wlog ci (n + nr) = pre ++ [(o, n + nr)] := by
          rw [hpre, ← hlen]; exact setCount_last pre o n (n + nr)
        split <;> simp [abs, State.setT, hsc, ech, hb]
      rw [key]
      exact SpecStep.deliver pre o n nr (by simp [abs, hpre]) (by omega)
    next => simp at hs

/-- the abstract direction keeps `delivered` = concatenation of the delivered prefixes of its writes -/
theorem spec_fidelity {s : State} (h : Inv s) : (abs s).delivered = consumed (abs s).writes := h.fid

end SSV.Pipe
