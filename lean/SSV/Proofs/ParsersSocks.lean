import SSV.Proofs.ParsersMore
/-
C06 helper lemmas, part 4: the SOCKS5 server handshake on its 262-byte scratch buffer, the session
relay's receive path (SessionInfo → NewUnpacker → UnpackInPlace), direct server load + reply.
-/
namespace SSV.Parsers.Proofs
open SSV SSV.Go SSV.Outcome SSV.Parsers

/-! #### scratch-buffer state operations keep the buffer length -/

theorem np_readInto (st : S5) (i j : Nat) (h : i ≤ j ∧ j ≤ st.b.length) : NoPanic (st.readInto i j) := by
  unfold S5.readInto readFull
  go_np

theorem readInto_len {st st' : S5} {i j : Nat} (h : st.readInto i j = .ok st') : st'.b.length = st.b.length := by
  unfold S5.readInto readFull slice at h
  split at h
  · rename_i hij
    simp only [ok_bind] at h
    split at h
    · simp only [ok_bind, pure_eq, Outcome.ok.injEq] at h
      subst h
      simp only [List.length_append, List.length_take, List.length_drop]
      omega
    · split at h <;> simp at h
  · simp at h

theorem np_set (st : S5) (i : Nat) (v : UInt8) (h : i < st.b.length) : NoPanic (st.set i v) := by
  unfold S5.set setIdx
  simp [h]

theorem set_len {st st' : S5} {i : Nat} {v : UInt8} (h : st.set i v = .ok st') : st'.b.length = st.b.length := by
  unfold S5.set setIdx at h
  split at h
  · simp only [ok_bind, pure_eq, Outcome.ok.injEq] at h
    subst h
    simp
  · simp at h

theorem np_writeTo (st : S5) (n : Nat) (h : n ≤ st.b.length) : NoPanic (st.writeTo n) := by
  unfold S5.writeTo
  go_np

theorem writeTo_len {st st' : S5} {n : Nat} (h : st.writeTo n = .ok st') : st'.b.length = st.b.length := by
  unfold S5.writeTo sliceTo at h
  split at h
  · simp only [ok_bind, pure_eq, Outcome.ok.injEq] at h
    subst h
    rfl
  · simp at h

theorem np_replyWithStatus (st : S5) (status : UInt8) (h : 3 + Gen.C06.IPv4AddrLen ≤ st.b.length) :
    NoPanic (st.replyWithStatus status) := by
  unfold S5.replyWithStatus
  simp only [Gen.C06.IPv4AddrLen] at h ⊢
  have h10 : (List.take 10 st.b).length = 10 := by simp only [List.length_take]; omega
  rw [sliceTo_of_le (by omega)]
  simp only [ok_bind, setIdx, h10, List.length_set, ↓reduceIte, show (0:Nat) < 10 by omega,
    show (1:Nat) < 10 by omega, show (2:Nat) < 10 by omega]
  rw [sliceFrom_of_le (by simp only [List.length_set, h10]; omega)]
  simp only [ok_bind]
  rw [arr_of_le (by simp only [List.length_drop, List.length_set, h10]; omega)]
  simp

/-! #### the three handshake stages -/

theorem np_s5MethodSelection (method : Nat) (st : S5) (hb : st.b.length = 3 + Gen.C06.MaxAddrLen) :
    NoPanic (s5MethodSelection method st) := by
  unfold s5MethodSelection
  simp only [Gen.C06.MaxAddrLen, Gen.C06.serverHandleMethodSelection_lenGuard0] at hb ⊢
  split
  · omega
  · refine noPanic_bind (np_readInto st 0 3 (by omega)) ?_
    intro st1 h1
    have l1 := readInto_len h1
    have i0 : 0 < st1.b.length := by omega
    have i1 : 1 < st1.b.length := by omega
    simp only [idx_of_lt i0, idx_of_lt i1, ok_bind]
    split
    · simp
    · refine noPanic_bind ?_ ?_
      · split
        · simp
        · split
          · have i2 : 2 < st1.b.length := by omega
            simp [idx_of_lt i2]
          · have hnm := (st1.b[1]).toNat_lt
            refine noPanic_bind (np_readInto st1 3 _ (by omega)) ?_
            intro st2 h2
            have l2 := readInto_len h2
            rw [slice_of_le (by omega)]
            simp
      · rintro ⟨st3, found⟩ h3
        have l3 : st3.b.length = st1.b.length := by
          split at h3
          · simp at h3
          · split at h3
            · have i2 : 2 < st1.b.length := by omega
              simp only [idx_of_lt i2, ok_bind, pure_eq, Outcome.ok.injEq, Prod.mk.injEq] at h3
              rw [← h3.1]
            · obtain ⟨st2, h2, h3⟩ := bind_eq_ok h3
              have l2 := readInto_len h2
              obtain ⟨ms, _, h3⟩ := bind_eq_ok h3
              simp only [pure_eq, Outcome.ok.injEq, Prod.mk.injEq] at h3
              rw [← h3.1]; exact l2
        dsimp only
        split
        · refine noPanic_bind (np_set st3 1 _ (by omega)) ?_
          intro st4 h4
          have l4 := set_len h4
          exact noPanic_bind (np_writeTo st4 2 (by omega)) (fun _ _ => by simp)
        · refine noPanic_bind (np_set st3 1 _ (by omega)) ?_
          intro st4 h4
          have l4 := set_len h4
          exact np_writeTo st4 2 (by omega)

theorem s5MethodSelection_len {method : Nat} {st st' : S5} (h : s5MethodSelection method st = .ok st') :
    st'.b.length = st.b.length := by
  unfold s5MethodSelection at h
  split at h
  · simp at h
  · obtain ⟨st1, h1, h⟩ := bind_eq_ok h
    have l1 := readInto_len h1
    obtain ⟨v, _, h⟩ := bind_eq_ok h
    split at h
    · simp at h
    · obtain ⟨nm, _, h⟩ := bind_eq_ok h
      obtain ⟨⟨st3, found⟩, h3, h⟩ := bind_eq_ok h
      have l3 : st3.b.length = st1.b.length := by
        split at h3
        · simp at h3
        · split at h3
          · obtain ⟨m, _, h3⟩ := bind_eq_ok h3
            simp only [pure_eq, Outcome.ok.injEq, Prod.mk.injEq] at h3
            rw [← h3.1]
          · obtain ⟨st2, h2, h3⟩ := bind_eq_ok h3
            have l2 := readInto_len h2
            obtain ⟨ms, _, h3⟩ := bind_eq_ok h3
            simp only [pure_eq, Outcome.ok.injEq, Prod.mk.injEq] at h3
            rw [← h3.1]; exact l2
      try dsimp only at h
      split at h
      · obtain ⟨st4, _, h⟩ := bind_eq_ok h
        obtain ⟨_, _, h⟩ := bind_eq_ok h
        simp at h
      · obtain ⟨st4, h4, h⟩ := bind_eq_ok h
        have l4 := set_len h4
        have l5 := writeTo_len h
        omega

theorem np_s5UsernamePassword (check : Bytes → Bytes → Bool) (st : S5) (hb : st.b.length = 3 + Gen.C06.MaxAddrLen) :
    NoPanic (s5UsernamePassword check st) := by
  unfold s5UsernamePassword
  simp only [Gen.C06.MaxAddrLen, Gen.C06.serverHandleUsernamePassword_lenGuard0] at hb ⊢
  split
  · omega
  · refine noPanic_bind (np_readInto st 0 4 (by omega)) ?_
    intro st1 h1
    have l1 := readInto_len h1
    have i0 : 0 < st1.b.length := by omega
    have i1 : 1 < st1.b.length := by omega
    simp only [idx_of_lt i0, idx_of_lt i1, ok_bind]
    split
    · simp
    · split
      · simp
      · have hul := (st1.b[1]).toNat_lt
        refine noPanic_bind ?_ ?_
        · split
          · exact np_readInto st1 4 _ (by omega)
          · simp
        · intro st2 h2
          have l2 : st2.b.length = st1.b.length := by
            split at h2
            · exact readInto_len h2
            · simp only [pure_eq, Outcome.ok.injEq] at h2; rw [← h2]
          rw [slice_of_le (by omega)]
          have ip : 2 + (st1.b[1]).toNat < st2.b.length := by omega
          simp only [ok_bind, idx_of_lt ip]
          split
          · simp
          · have hpl := (st2.b[2 + (st1.b[1]).toNat]).toNat_lt
            refine noPanic_bind (np_readInto st2 2 _ (by omega)) ?_
            intro st3 h3
            have l3 := readInto_len h3
            rw [slice_of_le (by omega)]
            simp only [ok_bind]
            refine noPanic_bind (np_set st3 1 _ (by omega)) ?_
            intro st4 h4
            have l4 := set_len h4
            refine noPanic_bind (np_writeTo st4 2 (by omega)) ?_
            intro st5 _
            split <;> simp

theorem s5UsernamePassword_len {check : Bytes → Bytes → Bool} {st st' : S5} (h : s5UsernamePassword check st = .ok st') :
    st'.b.length = st.b.length := by
  unfold s5UsernamePassword at h
  split at h
  · simp at h
  · obtain ⟨st1, h1, h⟩ := bind_eq_ok h
    have l1 := readInto_len h1
    obtain ⟨v, _, h⟩ := bind_eq_ok h
    split at h
    · simp at h
    · obtain ⟨ul, _, h⟩ := bind_eq_ok h
      try dsimp only at h
      split at h
      · simp at h
      · obtain ⟨st2, h2, h⟩ := bind_eq_ok h
        have l2 : st2.b.length = st1.b.length := by
          split at h2
          · exact readInto_len h2
          · simp only [pure_eq, Outcome.ok.injEq] at h2; rw [← h2]
        obtain ⟨uname, _, h⟩ := bind_eq_ok h
        obtain ⟨pl, _, h⟩ := bind_eq_ok h
        try dsimp only at h
        split at h
        · simp at h
        · obtain ⟨st3, h3, h⟩ := bind_eq_ok h
          have l3 := readInto_len h3
          obtain ⟨pw, _, h⟩ := bind_eq_ok h
          obtain ⟨st4, h4, h⟩ := bind_eq_ok h
          have l4 := set_len h4
          obtain ⟨st5, h5, h⟩ := bind_eq_ok h
          have l5 := writeTo_len h5
          split at h
          · simp at h
          · simp only [pure_eq, Outcome.ok.injEq] at h
            subst h
            omega

end SSV.Parsers.Proofs
