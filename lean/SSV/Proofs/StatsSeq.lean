import SSV.Proofs.StatsLocal
/-
C14 — a Snapshot taken while nothing else runs (quiescence) reads exactly the counters: for the anonymous
collector and for every user collector that exists, whatever order `range sc.ucs` yields.
-/
namespace SSV.Stats
open SSV.Gen.C14

def loadSame : BStep → Bool
  | .load f o => o == f
  | _ => false

/-- facts about `Gen.snapshot` used here: every step is `Load` of a counter into the field of the same name,
and every counter is loaded -/
structure GenLoad : Prop where
  anon_shape : ∀ x ∈ (snapProg (shapeOf false).anonKind).map (bindStep []), loadSame x = true
  user_shape : ∀ x ∈ (snapProg (shapeOf false).userKind).map (bindStep []), loadSame x = true
  anon_all : ∀ f : Field, BStep.load f f ∈ (snapProg (shapeOf false).anonKind).map (bindStep [])
  user_all : ∀ f : Field, BStep.load f f ∈ (snapProg (shapeOf false).userKind).map (bindStep [])

theorem genLoad : GenLoad where
  anon_shape := by decide
  user_shape := by decide
  anon_all := by intro f; cases f <;> decide
  user_all := by intro f; cases f <;> decide

def targets (s : SnapTh) : List Target := s.done.map Prod.fst

def Cover (names : List String) (s : SnapTh) : Prop :=
  match s.phase with
  | .anon => s.v.t = .anon
  | .lockWait => .anon ∈ targets s
  | .users todo => .anon ∈ targets s ∧ ∀ u ∈ names, .user u ∈ targets s ∨ u ∈ todo
  | .visiting u todo => .anon ∈ targets s ∧ s.v.t = .user u ∧ ∀ u' ∈ names, .user u' ∈ targets s ∨ u' = u ∨ u' ∈ todo
  | .finished => .anon ∈ targets s ∧ ∀ u ∈ names, .user u ∈ targets s

def Active (s : SnapTh) : Prop := s.phase = .anon ∨ ∃ u todo, s.phase = .visiting u todo

/-- invariant of a lone Snapshot thread started on shared state `sh0` -/
structure Lone (sh0 sh : Shared) (s : SnapTh) : Prop where
  ctr : sh.ctr = sh0.ctr
  names : sh.names = sh0.names
  nreset : s.reset = false
  done : ∀ e ∈ s.done, ∀ f, e.2.get f = (sh0.ctr e.1).get f
  pcShape : ∀ x ∈ s.v.pc, loadSame x = true
  lit : Active s → ∀ f, (BStep.load f f ∈ s.v.pc) ∨ s.v.lit.get f = (sh0.ctr s.v.t).get f
  cover : Cover sh0.names s

theorem lone_init (sh0 : Shared) : Lone sh0 sh0 (mkSnap false) where
  ctr := rfl
  names := rfl
  nreset := rfl
  done := by simp [mkSnap]
  pcShape := by simpa [mkSnap] using genLoad.anon_shape
  lit := by intro _ f; exact Or.inl (by simpa [mkSnap] using genLoad.anon_all f)
  cover := by simp [Cover, mkSnap]

theorem lone_step (sh0 sh sh' : Shared) (s s' : SnapTh) (order : List String) (hperm : order.Perm sh.names)
    (hl : Lone sh0 sh s) (h : s.step order sh = some (sh', s')) : Lone sh0 sh' s' := by
  unfold SnapTh.step at h
  cases hpc : s.v.pc with
  | cons x rest =>
    simp only [hpc, Option.some.injEq, Prod.mk.injEq] at h
    obtain ⟨rfl, rfl⟩ := h
    have hx : loadSame x = true := hl.pcShape x (by simp [hpc])
    cases x with
    | add _ _ => simp [loadSame] at hx
    | swap0 _ _ => simp [loadSame] at hx
    | load f0 o =>
      have ho : o = f0 := by simpa [loadSame] using hx
      subst ho
      refine ⟨hl.ctr, hl.names, hl.nreset, hl.done, ?_, ?_, ?_⟩
      · intro y hy; exact hl.pcShape y (by simp [hpc]; exact Or.inr (by simpa [exec] using hy))
      · intro hact g
        have hact' : Active s := by simpa [Active, exec] using hact
        simp only [exec, Counters.get_set]
        by_cases hg : g = o
        · subst hg; right; simp [hl.ctr]
        · rcases hl.lit hact' g with hm | hv
          · left
            simp only [hpc, List.mem_cons] at hm
            rcases hm with hm | hm
            · exact absurd (by injection hm) hg
            · exact hm
          · right; simp [hg, hv]
      · have := hl.cover
        simpa [Cover, targets, exec] using this
  | nil =>
    simp only [hpc] at h
    cases hph : s.phase with
    | anon =>
      simp only [hph, Option.some.injEq, Prod.mk.injEq] at h
      obtain ⟨rfl, rfl⟩ := h
      have hlit : ∀ f, s.v.lit.get f = (sh0.ctr s.v.t).get f := by
        intro f
        rcases hl.lit (Or.inl hph) f with hm | hv
        · simp [hpc] at hm
        · exact hv
      have hc : s.v.t = .anon := by simpa [Cover, hph] using hl.cover
      refine ⟨hl.ctr, hl.names, hl.nreset, ?_, by simp [Visit.idle], ?_, ?_⟩
      · intro e he f
        simp only [List.mem_append, List.mem_singleton] at he
        rcases he with he | rfl
        · exact hl.done e he f
        · exact hlit f
      · intro hact; simp [Active] at hact
      · simp [Cover, targets, hc]
    | lockWait =>
      simp only [hph, Option.some.injEq, Prod.mk.injEq] at h
      obtain ⟨rfl, rfl⟩ := h
      have hc : Target.anon ∈ targets s := by simpa [Cover, hph] using hl.cover
      refine ⟨hl.ctr, hl.names, hl.nreset, hl.done, hl.pcShape, ?_, ?_⟩
      · intro hact; simp [Active] at hact
      · refine ⟨hc, fun u hu => Or.inr ?_⟩
        have : u ∈ sh.names := by rw [hl.names]; exact hu
        exact hperm.mem_iff.mpr this
    | users todo =>
      cases todo with
      | nil =>
        simp only [hph, Option.some.injEq, Prod.mk.injEq] at h
        obtain ⟨rfl, rfl⟩ := h
        have hc := hl.cover
        simp only [Cover, hph] at hc
        refine ⟨hl.ctr, hl.names, hl.nreset, hl.done, hl.pcShape, ?_, ?_⟩
        · intro hact; simp [Active] at hact
        · refine ⟨hc.1, fun u hu => ?_⟩
          rcases hc.2 u hu with h1 | h1
          · exact h1
          · simp at h1
      | cons u todo =>
        simp only [hph, Option.some.injEq, Prod.mk.injEq] at h
        obtain ⟨rfl, rfl⟩ := h
        have hc := hl.cover
        simp only [Cover, hph] at hc
        refine ⟨hl.ctr, hl.names, hl.nreset, hl.done, ?_, ?_, ?_⟩
        · simpa [hl.nreset] using genLoad.user_shape
        · intro _ f; left; simpa [hl.nreset] using genLoad.user_all f
        · refine ⟨hc.1, rfl, fun u' hu' => ?_⟩
          rcases hc.2 u' hu' with h1 | h1
          · exact Or.inl h1
          · simp only [List.mem_cons] at h1
            rcases h1 with h1 | h1
            · exact Or.inr (Or.inl h1)
            · exact Or.inr (Or.inr h1)
    | visiting u todo =>
      simp only [hph, Option.some.injEq, Prod.mk.injEq] at h
      obtain ⟨rfl, rfl⟩ := h
      have hlit : ∀ f, s.v.lit.get f = (sh0.ctr s.v.t).get f := by
        intro f
        rcases hl.lit (Or.inr ⟨u, todo, hph⟩) f with hm | hv
        · simp [hpc] at hm
        · exact hv
      have hc := hl.cover
      simp only [Cover, hph] at hc
      refine ⟨hl.ctr, hl.names, hl.nreset, ?_, by simp [Visit.idle], ?_, ?_⟩
      · intro e he f
        simp only [List.mem_append, List.mem_singleton] at he
        rcases he with he | rfl
        · exact hl.done e he f
        · exact hlit f
      · intro hact; simp [Active] at hact
      · refine ⟨by simp [targets] at hc ⊢; exact Or.inl hc.1, fun u' hu' => ?_⟩
        rcases hc.2.2 u' hu' with h1 | h1 | h1
        · left; simp [targets] at h1 ⊢; exact Or.inl h1
        · left; subst h1; simp [targets, hc.2.1]
        · exact Or.inr h1
    | finished => simp [hph] at h

theorem lone_reach (sh0 : Shared) {cfg : Config} (hr : Reach ⟨sh0, [.snap (mkSnap false)]⟩ cfg) :
    ∃ s, cfg.threads = [.snap s] ∧ Lone sh0 cfg.sh s := by
  induction hr with
  | refl => exact ⟨mkSnap false, rfl, lone_init sh0⟩
  | tail _ hstep ih =>
    obtain ⟨s, hth, hl⟩ := ih
    cases hstep with
    | mk pre post th th' sh sh' order hperm hs =>
      simp only at hth hl
      have hpre : pre = [] := by
        cases pre with
        | nil => rfl
        | cons a r =>
          simp only [List.cons_append, List.cons.injEq] at hth
          have := hth.2
          simp at this
      subst hpre
      simp only [List.nil_append, List.cons.injEq] at hth
      obtain ⟨rfl, rfl⟩ := hth
      simp only [Thread.step, Option.map_eq_some_iff] at hs
      obtain ⟨⟨sh1, s1⟩, hc, heq⟩ := hs
      simp only [Prod.mk.injEq] at heq
      obtain ⟨rfl, rfl⟩ := heq
      exact ⟨s1, rfl, lone_step sh0 sh sh1 s s1 order hperm hl hc⟩

theorem Reach.trans {a b c : Config} (h1 : Reach a b) (h2 : Reach b c) : Reach a c := by
  induction h2 with
  | refl => exact h1
  | tail _ hs ih => exact Reach.tail ih hs

/-- the sequential execution the driver performs (`runSnap`: the lone thread is scheduled until it stops,
`range sc.ucs` in the order of `names`) is one of the interleavings of the small-step semantics -/
theorem runSnap_reach (n : Nat) (sh : Shared) (th : SnapTh) :
    Reach ⟨sh, [.snap th]⟩ ⟨(runSnap n sh th).1, [.snap (runSnap n sh th).2]⟩ := by
  induction n generalizing sh th with
  | zero => exact Reach.refl _
  | succ n ih =>
    cases h : th.step sh.names sh with
    | none => simp only [runSnap, h]; exact Reach.refl _
    | some r =>
      obtain ⟨sh', th'⟩ := r
      simp only [runSnap, h]
      have hstep : Step ⟨sh, [] ++ Thread.snap th :: []⟩ ⟨sh', [] ++ Thread.snap th' :: []⟩ :=
        Step.mk [] [] _ _ sh sh' sh.names (List.Perm.refl _) (by simp [Thread.step, h])
      exact Reach.trans (Reach.tail (Reach.refl _) hstep) (ih sh' th')

theorem runCollect_reach (n : Nat) (sh : Shared) (th : CollectTh) :
    Reach ⟨sh, [.collect th]⟩ ⟨(runCollect n sh th).1, [.collect (runCollect n sh th).2]⟩ := by
  induction n generalizing sh th with
  | zero => exact Reach.refl _
  | succ n ih =>
    cases h : th.step sh with
    | none => simp only [runCollect, h]; exact Reach.refl _
    | some r =>
      obtain ⟨sh', th'⟩ := r
      simp only [runCollect, h]
      have hstep : Step ⟨sh, [] ++ Thread.collect th :: []⟩ ⟨sh', [] ++ Thread.collect th' :: []⟩ :=
        Step.mk [] [] _ _ sh sh' sh.names (List.Perm.refl _) (by simp [Thread.step, h])
      exact Reach.trans (Reach.tail (Reach.refl _) hstep) (ih sh' th')

end SSV.Stats
