import SSV.Model.PortSet
/-
The word-level run scanning of `RangeSet` / `RangeCount` (TrailingZeros jumps) equals a bit-by-bit scan.
-/
namespace SSV.PortSet

/-- the `n` low bits of `x`, least significant first -/
def bitsOf : Nat → Nat → List Bool
  | _, 0 => []
  | x, n + 1 => (x % 2 == 1) :: bitsOf (x / 2) n

/-- number of trailing one bits (at most `f`) -/
def trailingOnes : Nat → Nat → Nat
  | 0, _ => 0
  | f + 1, x => if x % 2 = 1 then 1 + trailingOnes f (x / 2) else 0

def closeAt (st : Scan) (p : Nat) : Scan :=
  if st.inRange then ⟨false, st.start, ⟨st.start, p - 1⟩ :: st.acc⟩ else st

def openAt (st : Scan) (p : Nat) : Scan :=
  if st.inRange then st else ⟨true, p, st.acc⟩

/-- one bit of the abstract scan: position `p`, value `b` -/
def stepBit (st : Scan) (p : Nat) (b : Bool) : Scan := if b then openAt st p else closeAt st p

/-- the abstract scan: one bit at a time -/
def scanBits : Scan → Nat → List Bool → Scan
  | st, _, [] => st
  | st, p, b :: bs => scanBits (stepBit st p b) (p + 1) bs

theorem shiftRight_succ' (x k : Nat) : x >>> (1 + k) = (x / 2) >>> k := by
  rw [Nat.add_comm, Nat.shiftRight_succ_inside]

theorem tz_le : ∀ f x, trailingZeros f x ≤ f
  | 0, _ => by simp [trailingZeros]
  | f + 1, x => by
    unfold trailingZeros
    split
    · omega
    · have := tz_le f (x / 2); omega

theorem bitsOf_tz : ∀ f x n, trailingZeros f x ≤ n →
    bitsOf x n = List.replicate (trailingZeros f x) false ++ bitsOf (x >>> trailingZeros f x) (n - trailingZeros f x)
  | 0, x, n, _ => by simp [trailingZeros]
  | f + 1, x, n, h => by
    unfold trailingZeros at h ⊢
    split
    · simp
    · rename_i hx
      simp only [hx, ↓reduceIte] at h
      obtain ⟨m, rfl⟩ : ∃ m, n = m + 1 := ⟨n - 1, by omega⟩
      have ih := bitsOf_tz f (x / 2) m (by omega)
      have hb : (x % 2 == 1) = false := by
        have : x % 2 = 0 := by omega
        simp [this]
      rw [bitsOf, hb, ih, shiftRight_succ']
      have : m + 1 - (1 + trailingZeros f (x / 2)) = m - trailingZeros f (x / 2) := by omega
      rw [this, Nat.add_comm 1, List.replicate_succ]
      rfl

theorem bitsOf_all_zero : ∀ f x n, n ≤ trailingZeros f x → bitsOf x n = List.replicate n false
  | _, _, 0, _ => by simp [bitsOf]
  | 0, x, n + 1, h => by simp [trailingZeros] at h
  | f + 1, x, n + 1, h => by
    unfold trailingZeros at h
    split at h
    · omega
    · rename_i hx
      have hb : (x % 2 == 1) = false := by
        have : x % 2 = 0 := by omega
        simp [this]
      rw [bitsOf, hb, bitsOf_all_zero f (x / 2) n (by omega), List.replicate_succ]

theorem tz_bit : ∀ f x, trailingZeros f x < f → (x >>> trailingZeros f x) % 2 = 1
  | 0, _, h => by simp [trailingZeros] at h
  | f + 1, x, h => by
    unfold trailingZeros at h ⊢
    split
    · simpa using ‹x % 2 = 1›
    · rename_i hx
      simp only [hx, ↓reduceIte] at h
      rw [shiftRight_succ']
      exact tz_bit f (x / 2) (by omega)

theorem tz_eq_zero_iff (f x : Nat) : trailingZeros (f + 1) x = 0 ↔ x % 2 = 1 := by
  unfold trailingZeros
  split <;> simp_all <;> omega

theorem tz_not : ∀ f x, x < 2 ^ f → trailingZeros f (2 ^ f - 1 - x) = trailingOnes f x
  | 0, _, _ => by simp [trailingZeros, trailingOnes]
  | f + 1, x, hx => by
    have hp : 2 ^ (f + 1) = 2 * 2 ^ f := by rw [Nat.pow_succ, Nat.mul_comm]
    have hpos : 0 < 2 ^ f := Nat.two_pow_pos f
    unfold trailingZeros trailingOnes
    by_cases hodd : x % 2 = 1
    · have h1 : ¬ (2 ^ (f + 1) - 1 - x) % 2 = 1 := by omega
      have h2 : (2 ^ (f + 1) - 1 - x) / 2 = 2 ^ f - 1 - x / 2 := by omega
      simp only [h1, hodd, ↓reduceIte, h2]
      rw [tz_not f (x / 2) (by omega)]
    · have h1 : (2 ^ (f + 1) - 1 - x) % 2 = 1 := by omega
      simp [h1, hodd]

theorem bitsOf_ones : ∀ f x n, trailingOnes f x ≤ n →
    bitsOf x n = List.replicate (trailingOnes f x) true ++ bitsOf (x >>> trailingOnes f x) (n - trailingOnes f x)
  | 0, x, n, _ => by simp [trailingOnes]
  | f + 1, x, n, h => by
    unfold trailingOnes at h ⊢
    split
    · rename_i hx
      simp only [hx, ↓reduceIte] at h
      obtain ⟨m, rfl⟩ : ∃ m, n = m + 1 := ⟨n - 1, by omega⟩
      have ih := bitsOf_ones f (x / 2) m (by omega)
      have hb : (x % 2 == 1) = true := by simp [hx]
      rw [bitsOf, hb, ih, shiftRight_succ']
      have : m + 1 - (1 + trailingOnes f (x / 2)) = m - trailingOnes f (x / 2) := by omega
      rw [this, Nat.add_comm 1, List.replicate_succ]
      rfl
    · simp

theorem ones_le_of_lt : ∀ f x n, x < 2 ^ n → trailingOnes f x ≤ n
  | 0, _, _, _ => by simp [trailingOnes]
  | f + 1, x, n, hx => by
    unfold trailingOnes
    split
    · rename_i hodd
      cases n with
      | zero => simp at hx; omega
      | succ m =>
        have hp : 2 ^ (m + 1) = 2 * 2 ^ m := by rw [Nat.pow_succ, Nat.mul_comm]
        have := ones_le_of_lt f (x / 2) m (by omega)
        omega
    · omega

theorem ones_bit : ∀ f x, trailingOnes f x < f → (x >>> trailingOnes f x) % 2 = 0
  | 0, _, h => by simp [trailingOnes] at h
  | f + 1, x, h => by
    unfold trailingOnes at h ⊢
    split
    · rename_i hx
      simp only [hx, ↓reduceIte] at h
      rw [shiftRight_succ']
      exact ones_bit f (x / 2) (by omega)
    · simp; omega

theorem ones_pos (f x : Nat) (h : x % 2 = 1) : 1 ≤ trailingOnes (f + 1) x := by
  unfold trailingOnes; simp [h]

theorem shiftRight_lt {x n k : Nat} (hx : x < 2 ^ n) (hk : k ≤ n) : x >>> k < 2 ^ (n - k) := by
  rw [Nat.shiftRight_eq_div_pow]
  apply Nat.div_lt_of_lt_mul
  rw [← Nat.pow_add]
  have : k + (n - k) = n := by omega
  rwa [this]

/-! ### runs in the abstract scan -/

theorem scanBits_false_closed : ∀ k st p rest, st.inRange = false →
    scanBits st p (List.replicate k false ++ rest) = scanBits st (p + k) rest
  | 0, st, p, rest, _ => by simp
  | k + 1, st, p, rest, h => by
    rw [List.replicate_succ, List.cons_append, scanBits]
    have : stepBit st p false = st := by simp [stepBit, closeAt, h]
    rw [this, scanBits_false_closed k st (p + 1) rest h]
    congr 1; omega

theorem scanBits_false (k : Nat) (st : Scan) (p : Nat) (rest : List Bool) (hk : 1 ≤ k) :
    scanBits st p (List.replicate k false ++ rest) = scanBits (closeAt st p) (p + k) rest := by
  obtain ⟨m, rfl⟩ : ∃ m, k = m + 1 := ⟨k - 1, by omega⟩
  rw [List.replicate_succ, List.cons_append, scanBits]
  have h1 : stepBit st p false = closeAt st p := by simp [stepBit]
  have h2 : (closeAt st p).inRange = false := by
    unfold closeAt; split <;> simp_all
  rw [h1, scanBits_false_closed m _ (p + 1) rest h2]
  congr 1; omega

theorem scanBits_true_open : ∀ k st p rest, st.inRange = true →
    scanBits st p (List.replicate k true ++ rest) = scanBits st (p + k) rest
  | 0, st, p, rest, _ => by simp
  | k + 1, st, p, rest, h => by
    rw [List.replicate_succ, List.cons_append, scanBits]
    have : stepBit st p true = st := by simp [stepBit, openAt, h]
    rw [this, scanBits_true_open k st (p + 1) rest h]
    congr 1; omega

theorem scanBits_true (k : Nat) (st : Scan) (p : Nat) (rest : List Bool) (hk : 1 ≤ k) :
    scanBits st p (List.replicate k true ++ rest) = scanBits (openAt st p) (p + k) rest := by
  obtain ⟨m, rfl⟩ : ∃ m, k = m + 1 := ⟨k - 1, by omega⟩
  rw [List.replicate_succ, List.cons_append, scanBits]
  have h1 : stepBit st p true = openAt st p := by simp [stepBit]
  have h2 : (openAt st p).inRange = true := by
    unfold openAt; split <;> simp_all
  rw [h1, scanBits_true_open m _ (p + 1) rest h2]
  congr 1; omega

end SSV.PortSet
