import SSV.Model.PacketLimit
/- C05 helper lemmas: the cached downlink limit follows the client address. -/
namespace SSV.Packet
open SSV SSV.Gen.C05

/-- a refresh program is *current* if after it the destination is the new address and the limit is the one of the new address -/
def LimProgCurrent (mtu : Int) (prog : List LimStmt) : Prop :=
  ∀ st new, limRefresh mtu prog st new = ⟨new, new, maxPacketSize mtu new.ip⟩

theorem limRun_current (mtu : Int) (prog : List LimStmt) (h : LimProgCurrent mtu prog) (a0 : AddrPort) (events : List AddrPort) :
    limRun mtu prog a0 events = limInit mtu ((events.getLast?).getD a0) := by
  unfold limRun
  induction events generalizing a0 with
  | nil => rfl
  | cons e t ih =>
    simp only [List.foldl_cons]
    have : limRefresh mtu prog (limInit mtu a0) e = limInit mtu e := h _ _
    rw [this, ih e]
    cases t with
    | nil => rfl
    | cons x y =>
      have hne : (x :: y).getLast? ≠ none := by simp
      cases hl : (x :: y).getLast? with
      | none => exact absurd hl hne
      | some v => simp [List.getLast?_cons_cons, hl]

theorem sessionRefreshGeneric_current (mtu : Int) : LimProgCurrent mtu sessionRefreshGeneric := by
  intro st new
  simp [limRefresh, sessionRefreshGeneric, limStep]

theorem sessionRefreshMmsg_current (mtu : Int) : LimProgCurrent mtu sessionRefreshMmsg := by
  intro st new
  simp [limRefresh, sessionRefreshMmsg, limStep]

end SSV.Packet
