import SSV.Model.PacketHistory
import SSV.Proofs.PacketPlain
import SSV.Proofs.PacketSSUp
/- C05 helper lemmas: histories through one packer/unpacker pair with a reused buffer and carried state. -/
namespace SSV.Packet
open SSV SSV.Gen.C05

/-! ## the domain cache returns values -/

theorem intern_value (c : DomainCache) (name : Bytes) : (c.intern name).2 = name := by
  unfold DomainCache.intern
  split
  · next k hk =>
    have := List.find?_some hk
    simpa using this
  · rfl

theorem internAddr_value (c : DomainCache) (a : Addr) : (c.internAddr a).2 = a := by
  cases a with
  | zero => rfl
  | ip ap => rfl
  | dom n p => simp [DomainCache.internAddr, intern_value]

/-- whatever the cache holds, the unpacker with cache returns what the cache-less function returns -/
theorem plainServerUnpackC_result (c : DomainCache) (hdr3 : Bool) (b : Bytes) (q n : Nat) :
    (plainServerUnpackC c hdr3 b q n).2 = plainServerUnpack hdr3 b q n := by
  unfold plainServerUnpackC
  split
  · next u h => rw [h]; simp [internAddr_value]
  · rfl

theorem ssServerUnpackC_result (dc : DomainCache) (c : Crypto) (block aeadKey : Bytes) (k : Nat) (lookup : Bool)
    (users : List (Bytes × Bytes)) (now : Int) (b : Bytes) (q n : Nat) :
    (ssServerUnpackC dc c block aeadKey k lookup users now b q n).2 = ssServerUnpack c block aeadKey k lookup users now b q n := by
  unfold ssServerUnpackC
  split
  · next u h => rw [h]; simp [internAddr_value]
  · rfl

/-! ## none / SOCKS5 histories -/

def PlainStep.good (len : Nat) (x : PlainStep) : Prop := x.addr.wf ∧ x.ps + x.payload.length ≤ len

/-- one step: the buffer keeps its length, and what is delivered is what was packed -/
theorem plainHistStep_spec (hdr3 : Bool) (limit : Int) (c : DomainCache) (b : Bytes) (x : PlainStep) (hx : x.good b.length) :
    ((plainHistStep hdr3 limit (c, b) x).1.2).length = b.length ∧
    ((plainHistStep hdr3 limit (c, b) x).2 = none ∨ (plainHistStep hdr3 limit (c, b) x).2 = some (x.addr.norm, x.payload)) := by
  obtain ⟨hw, hfit⟩ := hx
  have hL : (splice b x.ps x.payload).length = b.length := splice_length _ _ _ hfit
  have hP : sub (splice b x.ps x.payload) x.ps x.payload.length = x.payload := sub_splice _ _ _ hfit
  unfold plainHistStep
  simp only
  generalize hpk : plainClientPack hdr3 limit (splice b x.ps x.payload) x.addr x.ps x.payload.length = pk
  cases pk with
  | ok r =>
    simp only
    obtain ⟨hu, hpay⟩ := plain_roundtrip_up hdr3 limit _ x.addr x.ps x.payload.length r hw (by rw [hL]; exact hfit) hpk
    obtain ⟨hlen, _, _⟩ := plainClientPack_frame hdr3 limit _ x.addr x.ps x.payload.length r hw (by rw [hL]; exact hfit) hpk
    have hres := plainServerUnpackC_result c hdr3 r.buf r.packetStart.toNat r.packetLen.toNat
    rw [hu] at hres
    generalize hcu : plainServerUnpackC c hdr3 r.buf r.packetStart.toNat r.packetLen.toNat = cu at hres
    obtain ⟨c', o⟩ := cu
    simp only at hres
    subst hres
    simp only
    refine ⟨by rw [hlen, hL], Or.inr ?_⟩
    simp only [Int.toNat_natCast, hpay, hP]
  | err e => exact ⟨hL, Or.inl rfl⟩
  | panic => exact ⟨hL, Or.inl rfl⟩
  | noRoom => exact ⟨hL, Or.inl rfl⟩

/-- every packet of a history is delivered as packed (or refused), whatever came before -/
def PlainDelivered : List PlainStep → List (Option (Addr × Bytes)) → Prop
  | [], [] => True
  | x :: t, o :: os => (o = none ∨ o = some (x.addr.norm, x.payload)) ∧ PlainDelivered t os
  | _, _ => False

theorem plainHist_spec (hdr3 : Bool) (limit : Int) (steps : List PlainStep) :
    ∀ (c : DomainCache) (b : Bytes), (∀ x ∈ steps, x.good b.length) → PlainDelivered steps (plainHist hdr3 limit (c, b) steps) := by
  induction steps with
  | nil => intro c b _; trivial
  | cons x t ih =>
    intro c b hgood
    obtain ⟨hlen, hout⟩ := plainHistStep_spec hdr3 limit c b x (hgood x (by simp))
    simp only [plainHist, PlainDelivered]
    refine ⟨hout, ?_⟩
    have := ih (plainHistStep hdr3 limit (c, b) x).1.1 (plainHistStep hdr3 limit (c, b) x).1.2
      (fun y hy => by rw [hlen]; exact hgood y (by simp [hy]))
    exact this

/-! ## ss2022 histories -/

def SSStep.good (len : Nat) (x : SSStep) : Prop :=
  x.addr.wf ∧ x.ps + x.payload.length ≤ len ∧ x.ts.length = 8 ∧ x.pid.length = 8 ∧ tsOk x.ts x.now = true

def SSPair.good (p : SSPair) : Prop := p.c.Laws ∧ p.sid.length = 8 ∧ ∀ kh ∈ p.eih, kh.2.length = 16

theorem ssHistStep_spec (p : SSPair) (hp : p.good) (c : DomainCache) (b : Bytes) (x : SSStep) (hx : x.good b.length) :
    ((ssHistStep p (c, b) x).1.2).length = b.length ∧
    ((ssHistStep p (c, b) x).2 = none ∨ (ssHistStep p (c, b) x).2 = some (x.addr.norm, x.payload)) := by
  obtain ⟨hw, hfit, hts, hpid, hnow⟩ := hx
  obtain ⟨hL', hsid, hh⟩ := hp
  have hL : (splice b x.ps x.payload).length = b.length := splice_length _ _ _ hfit
  have hP : sub (splice b x.ps x.payload) x.ps x.payload.length = x.payload := sub_splice _ _ _ hfit
  unfold ssHistStep
  simp only
  generalize hpk : ssClientPack p.c p.userBlock p.aeadKey p.eih p.mps p.pol (splice b x.ps x.payload) x.addr x.ps x.payload.length
    x.rand x.ts p.sid x.pid = pk
  cases pk with
  | ok r =>
    simp only
    obtain ⟨u, hu, ha, hps, hpl, hpay, hlen, _, _⟩ := ss_roundtrip_up p.c hL' p.userBlock p.aeadKey p.eih p.mps p.pol _ x.addr x.ps
      x.payload.length x.rand x.ts p.sid x.pid x.now r hw hts hsid hpid hh hnow hpk
    have hres := ssServerUnpackC_result c p.c (ssBlock p.userBlock p.eih) p.aeadKey p.eih.length false [] x.now r.buf
      r.packetStart.toNat r.packetLen.toNat
    rw [hu] at hres
    generalize hcu : ssServerUnpackC c p.c (ssBlock p.userBlock p.eih) p.aeadKey p.eih.length false [] x.now r.buf
      r.packetStart.toNat r.packetLen.toNat = cu at hres
    obtain ⟨c', o⟩ := cu
    simp only at hres
    subst hres
    simp only
    refine ⟨by rw [hlen, hL], Or.inr ?_⟩
    rw [ha, hps, hpl]
    simp only [Int.toNat_natCast, hpay, hP]
  | err e => exact ⟨hL, Or.inl rfl⟩
  | panic => exact ⟨hL, Or.inl rfl⟩
  | noRoom => exact ⟨hL, Or.inl rfl⟩

def SSDelivered : List SSStep → List (Option (Addr × Bytes)) → Prop
  | [], [] => True
  | x :: t, o :: os => (o = none ∨ o = some (x.addr.norm, x.payload)) ∧ SSDelivered t os
  | _, _ => False

theorem ssHist_spec (p : SSPair) (hp : p.good) (steps : List SSStep) :
    ∀ (c : DomainCache) (b : Bytes), (∀ x ∈ steps, x.good b.length) → SSDelivered steps (ssHist p (c, b) steps) := by
  induction steps with
  | nil => intro c b _; trivial
  | cons x t ih =>
    intro c b hgood
    obtain ⟨hlen, hout⟩ := ssHistStep_spec p hp c b x (hgood x (by simp))
    simp only [ssHist, SSDelivered]
    refine ⟨hout, ?_⟩
    exact ih (ssHistStep p (c, b) x).1.1 (ssHistStep p (c, b) x).1.2 (fun y hy => by rw [hlen]; exact hgood y (by simp [hy]))

/-! ## the direct packer's resolver cache -/

/-- the answers the resolver has given so far: (name, address) -/
abbrev Answers := List (Bytes × IP)

def DirectStep.answers (known : Answers) (x : DirectStep) : Answers :=
  match x.addr, x.res with
  | .dom d _, some ip => (d, ip) :: known
  | _, _ => known

/-- what a packet of a history may be addressed to -/
def DirectStep.okFor (known' : Answers) (x : DirectStep) (mtu : Int) (r : DirectPacked) : Prop :=
  r.packetStart = x.ps ∧ r.packetLen = x.pl ∧
  match x.addr with
  | .ip ap => r.dest = some ap.ip ∧ (x.pl : Int) ≤ maxPacketSize mtu ap.ip
  | .dom d _ => ∃ ip, r.dest = some ip ∧ (d, ip) ∈ known' ∧ (x.pl : Int) ≤ maxPacketSize mtu ip
  | .zero => False

def DirectSound (mtu : Int) : Answers → List DirectStep → List (Outcome DirectPacked) → Prop
  | _, [], [] => True
  | known, x :: t, o :: os =>
    (∀ r, o = .ok r → x.okFor (x.answers known) mtu r) ∧ DirectSound mtu (x.answers known) t os
  | _, _, _ => False

/-- invariant of the cache: it is empty, or it holds a name together with an address the resolver gave for that name -/
def ResInv (known : Answers) (st : ResState) : Prop :=
  st.dom = [] ∨ ∃ ip, st.ip = some ip ∧ (st.dom, ip) ∈ known

/-- `updateDomainIPCache` as it is in the source -/
theorem updateDomainIPCache_head (res : Option IP) (d : Bytes) (st : ResState) :
    updateDomainIPCache updateDomainIPCacheProg res d st =
      if st.dom = d then (st, false)
      else match res with
        | some ip => (⟨d, some ip⟩, false)
        | none => (st, true) := by
  by_cases hd : st.dom = d
  · simp [updateDomainIPCache, updateDomainIPCacheProg, resOp, hd]
  · cases res <;> simp [updateDomainIPCache, updateDomainIPCacheProg, resOp, hd]

theorem directFinish_spec (mtu : Int) (st : ResState) (dest : Option IP) (ps pl : Nat) :
    (directFinish mtu st dest ps pl).1 = st ∧
    ∀ r, (directFinish mtu st dest ps pl).2 = .ok r → r = ⟨ps, pl, dest⟩ ∧ (pl : Int) ≤ directLimit mtu dest := by
  unfold directFinish
  split
  · exact ⟨rfl, fun r h => by cases h⟩
  · next hbig =>
    simp only [directCTooBig, decide_eq_true_eq, Int.not_lt] at hbig
    refine ⟨rfl, fun r h => ?_⟩
    simp only [Outcome.ok.injEq] at h
    exact ⟨h.symm, hbig⟩

theorem answers_mono (known : Answers) (x : DirectStep) (st : ResState) (h : ResInv known st) : ResInv (x.answers known) st := by
  rcases h with h | ⟨ip, h1, h2⟩
  · exact Or.inl h
  · refine Or.inr ⟨ip, h1, ?_⟩
    unfold DirectStep.answers
    split <;> simp [h2]

theorem directStep_sound (mtu : Int) (known : Answers) (st : ResState) (x : DirectStep) (hinv : ResInv known st) (hw : x.addr.wf) :
    ResInv (x.answers known) (directClientPackS updateDomainIPCacheProg mtu x.res st x.addr x.ps x.pl).1 ∧
    ∀ r, (directClientPackS updateDomainIPCacheProg mtu x.res st x.addr x.ps x.pl).2 = .ok r → x.okFor (x.answers known) mtu r := by
  cases ha : x.addr with
  | zero =>
    simp only [directClientPackS]
    exact ⟨answers_mono known x st hinv, fun r h => by cases h⟩
  | ip ap =>
    simp only [directClientPackS]
    obtain ⟨h1, h2⟩ := directFinish_spec mtu st (some ap.ip) x.ps x.pl
    refine ⟨by rw [h1]; exact answers_mono known x st hinv, fun r h => ?_⟩
    obtain ⟨rfl, hle⟩ := h2 r h
    simp only [DirectStep.okFor, ha]
    exact ⟨trivial, trivial, trivial, hle⟩
  | dom d p =>
    rw [ha] at hw
    have hdne : d ≠ [] := by
      intro h; have := hw.1; simp [h] at this
    simp only [directClientPackS, updateDomainIPCache_head]
    by_cases hd : st.dom = d
    · -- cached: by the invariant the cached address was given for this very name
      simp only [hd, if_true, Bool.false_eq_true, if_false]
      rcases hinv with h0 | ⟨ip, hip, hmem⟩
      · exact absurd (hd ▸ h0) hdne
      · have hinv' : ResInv (x.answers known) st := answers_mono known x st (Or.inr ⟨ip, hip, hmem⟩)
        have hk : (d, ip) ∈ x.answers known := by
          rcases hinv' with h0 | ⟨ip', h1', h2'⟩
          · exact absurd (hd ▸ h0) hdne
          · rw [hip] at h1'; cases h1'; rw [hd] at h2'; exact h2'
        obtain ⟨h1, h2⟩ := directFinish_spec mtu st st.ip x.ps x.pl
        refine ⟨by rw [h1]; exact hinv', fun r h => ?_⟩
        obtain ⟨rfl, hle⟩ := h2 r h
        simp only [DirectStep.okFor, ha]
        rw [hip] at hle ⊢
        exact ⟨trivial, trivial, ip, rfl, hk, hle⟩
    · simp only [hd, if_false]
      cases hr : x.res with
      | none =>
        simp only [if_true]
        exact ⟨answers_mono known x st hinv, fun r h => by cases h⟩
      | some ip =>
        have hk : (d, ip) ∈ x.answers known := by simp [DirectStep.answers, ha, hr]
        simp only [Bool.false_eq_true, if_false]
        obtain ⟨h1, h2⟩ := directFinish_spec mtu ⟨d, some ip⟩ (some ip) x.ps x.pl
        refine ⟨by rw [h1]; exact Or.inr ⟨ip, rfl, hk⟩, fun r h => ?_⟩
        obtain ⟨rfl, hle⟩ := h2 r h
        simp only [DirectStep.okFor, ha]
        exact ⟨trivial, trivial, ip, rfl, hk, hle⟩

theorem directHist_sound (mtu : Int) (steps : List DirectStep) :
    ∀ (known : Answers) (st : ResState), ResInv known st → (∀ x ∈ steps, x.addr.wf) →
      DirectSound mtu known steps (directHist updateDomainIPCacheProg mtu st steps) := by
  induction steps with
  | nil => intro _ _ _ _; trivial
  | cons x t ih =>
    intro known st hinv hw
    obtain ⟨hinv', hok⟩ := directStep_sound mtu known st x hinv (hw x (by simp))
    simp only [directHist, DirectSound]
    exact ⟨hok, ih _ _ hinv' (fun y hy => hw y (by simp [hy]))⟩

end SSV.Packet
