import SSV.Proofs.StreamStickyBase
/-
Read deadlines of the transport (C01 scenario `transient-timeout-at-chunk-boundary`): a deadline that
fires when nothing of the next chunk has been consumed leaves the conn usable; the stream is still
delivered exactly once, in order. Depends on the regenerated facts `readErrorsSticky` and
`boundaryTimeoutRetryable` (the narrower repair F22b).
-/
namespace SSV.Stream
open SSV.Gen.C01

/-- the stretches of a stream that read deadlines cut at chunk boundaries: one per group of chunks -/
def encodeGroups (C : Crypto) (k : Bytes) : Nat → List (List Bytes) → List Bytes
  | _, [] => []
  | n, g :: gs => encodeChunks C k n g :: encodeGroups C k (n + 2 * g.length) gs

/-- the conn is usable, in sync with the chunks of the current stretch, and the later stretches are
the encodings of the later chunk groups -/
structure TSync (C : Crypto) (s : SReader) (g0 : List Bytes) (gs : List (List Bytes)) : Prop where
  noErr : s.err = none
  sync : Sync C s.r g0
  later : s.later = encodeGroups C s.r.key (s.r.nonce + 2 * g0.length) gs
  valid : ∀ g ∈ gs, ValidChunks g

def pendingT (s : SReader) (g0 : List Bytes) (gs : List (List Bytes)) : Bytes :=
  pending s.r g0 ++ (gs.map List.flatten).flatten

theorem hitEnd_eq_sawEnd (o : ROut) (h : o.err = none ∨ o.err = some .eof) : o.hitEnd = o.sawEnd := by
  cases o with
  | data bs => rfl
  | fail e =>
    have : e = .eof := by rcases h with h | h <;> simpa [ROut.err] using h
    subst this; rfl
  | copied ps e =>
    cases e with
    | none => rfl
    | some e =>
      have : e = .eof := by rcases h with h | h <;> simpa [ROut.err] using h
      subst this; rfl

theorem asTimeout_bytes (o : ROut) : o.asTimeout.bytes = o.bytes := by cases o <;> rfl

theorem asTimeout_of_hitEnd (o : ROut) (h : o.hitEnd = true) :
    o.asTimeout.err = some .timeout ∧ o.asTimeout.sawEnd = false := by
  cases o with
  | data bs => simp [ROut.hitEnd] at h
  | fail e => exact ⟨rfl, rfl⟩
  | copied ps e => exact ⟨rfl, rfl⟩

/-- what one call guarantees on a transport whose deadlines fall on chunk boundaries -/
structure TStepOK (C : Crypto) (s : SReader) (g0 : List Bytes) (gs : List (List Bytes)) (op : ROp)
    (g0' : List Bytes) (gs' : List (List Bytes)) : Prop where
  sync : TSync C (s.step C op).2 g0' gs'
  /-- the only errors are end of stream and the transport's deadline -/
  errs : (s.step C op).1.err = none ∨ (s.step C op).1.err = some .eof ∨ (s.step C op).1.err = some .timeout
  /-- the call hands over the next bytes and keeps the rest pending: nothing lost, nothing repeated -/
  split : pendingT s g0 gs = (s.step C op).1.bytes ++ pendingT (s.step C op).2 g0' gs'
  /-- end of stream is only reported when nothing is pending -/
  atEnd : (s.step C op).1.sawEnd = true → pendingT (s.step C op).2 g0' gs' = []
  /-- each reported deadline uses up one of the transport's deadlines; other calls use none -/
  fuel : ((s.step C op).1.err = some .timeout → gs'.length + 1 = gs.length) ∧
         ((s.step C op).1.err ≠ some .timeout → gs' = gs)
  /-- a copy call runs until the end of the stream or the next deadline -/
  copy : (∀ n, op ≠ .read n) → (s.step C op).1.sawEnd = true ∨ (s.step C op).1.err = some .timeout

theorem tstep_ok {C : Crypto} (hC : AeadOK C) (s : SReader) (g0 : List Bytes) (gs : List (List Bytes))
    (hs : TSync C s g0 gs) (op : ROp) : ∃ g0' gs', TStepOK C s g0 gs op g0' gs' := by
  have hf1 : readErrorsSticky = true := by decide
  have hf2 : boundaryTimeoutRetryable = true := by decide
  obtain ⟨cs', h⟩ := step_ok hC s.r g0 hs.sync op
  have hhard : (s.r.step C op).1.hardErr = none := (hardErr_none_iff _).mpr h.noErr
  have hnt : (s.r.step C op).1.err ≠ some .timeout := by
    rcases h.noErr with e | e <;> rw [e] <;> simp
  cases hgs : gs with
  | nil =>
    have hl : s.later = [] := by rw [hs.later, hgs]; rfl
    have e : s.step C op = ((s.r.step C op).1, { r := (s.r.step C op).2, err := none, later := [] }) := by
      simp [SReader.step, hf1, hs.noErr, hl, hhard]
    refine ⟨cs', [], ?_⟩
    rw [hgs] at hs
    constructor
    · rw [e]; exact ⟨rfl, h.sync, rfl, by intro g hg; cases hg⟩
    · rw [e]; rcases h.noErr with x | x
      · exact Or.inl x
      · exact Or.inr (Or.inl x)
    · rw [e]; simp only [pendingT, List.map_nil, List.flatten_nil, List.append_nil]; exact h.split
    · rw [e]; simp only [pendingT, List.map_nil, List.flatten_nil, List.append_nil]; exact h.atEnd
    · rw [e]; exact ⟨fun x => absurd x hnt, fun _ => rfl⟩
    · intro hn; rw [e]
      exact Or.inl (h.copyEnds (by intro x; exact hn 0 x) hn)
  | cons g1 rest =>
    have hl : s.later = encodeChunks C s.r.key (s.r.nonce + 2 * g0.length) g1 ::
        encodeGroups C s.r.key (s.r.nonce + 2 * g0.length + 2 * g1.length) rest := by
      rw [hs.later, hgs]; rfl
    have hv1 : ValidChunks g1 := hs.valid g1 (by rw [hgs]; exact List.mem_cons_self)
    have hvr : ∀ g ∈ rest, ValidChunks g := fun g hg => hs.valid g (by rw [hgs]; exact List.mem_cons_of_mem _ hg)
    by_cases hend : (s.r.step C op).1.hitEnd = true
    · -- the call reached the end of the stretch: a deadline, at a chunk boundary
      have hsaw : (s.r.step C op).1.sawEnd = true := by rw [← hitEnd_eq_sawEnd _ h.noErr]; exact hend
      have hp := h.atEnd hsaw
      have hleft : (s.r.step C op).2.left = [] := (List.append_eq_nil_iff.mp hp).1
      have hcs : cs' = [] := flatten_nil_of_valid h.sync.valid (List.append_eq_nil_iff.mp hp).2
      subst hcs
      have hw : (s.r.step C op).2.wire = [] := by simpa [encodeChunks] using h.sync.wire
      have hn : (s.r.step C op).2.nonce = s.r.nonce + 2 * g0.length := by simpa using h.nonce
      have hne : ((s.r.step C op).1.err == some Err.unexpectedEOF) = false := by
        rcases h.noErr with x | x <;> rw [x] <;> rfl
      have hpar : ((s.r.step C op).2.nonce % 2 != s.r.nonce % 2) = false := by
        rw [hn]; simp [Nat.add_mul_mod_self_left]
      have e : s.step C op = ((s.r.step C op).1.asTimeout,
          { r := { (s.r.step C op).2 with wire := (s.r.step C op).2.wire ++ encodeChunks C s.r.key (s.r.nonce + 2 * g0.length) g1 },
            err := none, later := encodeGroups C s.r.key (s.r.nonce + 2 * g0.length + 2 * g1.length) rest }) := by
        simp [SReader.step, hf1, hf2, hs.noErr, hl, hend, hne, hpar]
      obtain ⟨hte, hts⟩ := asTimeout_of_hitEnd _ hend
      refine ⟨g1, rest, ?_⟩
      constructor
      · rw [e]
        refine ⟨rfl, ⟨?_, hv1⟩, ?_, hvr⟩
        · simp only [hw, List.nil_append, h.key, hn]
        · simp only [h.key, hn]
      · rw [e]; exact Or.inr (Or.inr hte)
      · rw [e]
        simp only [pendingT, pending, asTimeout_bytes, hleft, List.nil_append, List.map_cons, List.flatten_cons]
        have := h.split
        simp only [pending, hleft, List.flatten_nil, List.append_nil] at this
        rw [this]
      · rw [e]; intro x; rw [hts] at x; cases x
      · rw [e]; exact ⟨fun _ => by simp, fun x => absurd hte x⟩
      · intro _; rw [e]; exact Or.inr hte
    · -- the call did not touch the end of the stretch
      have hend' : (s.r.step C op).1.hitEnd = false := by simpa using hend
      have e : s.step C op = ((s.r.step C op).1, { r := (s.r.step C op).2, err := none, later := s.later }) := by
        simp [SReader.step, hf1, hs.noErr, hl, hend', hhard]
      have hsaw : (s.r.step C op).1.sawEnd = false := by rw [← hitEnd_eq_sawEnd _ h.noErr]; exact hend'
      refine ⟨cs', g1 :: rest, ?_⟩
      constructor
      · rw [e]
        refine ⟨rfl, h.sync, ?_, by intro g hg; exact hs.valid g (by rw [hgs]; exact hg)⟩
        simp only [hl, h.key, encodeGroups]
        have := h.nonce
        rw [this]
      · rw [e]; rcases h.noErr with x | x
        · exact Or.inl x
        · exact Or.inr (Or.inl x)
      · rw [e]; simp only [pendingT]; rw [h.split, List.append_assoc]
      · rw [e]; intro x; rw [hsaw] at x; cases x
      · rw [e]; exact ⟨fun x => absurd x hnt, fun _ => rfl⟩
      · intro hn; rw [e]
        have := h.copyEnds (by intro x; exact hn 0 x) hn
        rw [hsaw] at this; cases this

/-- `DeliversT stream outs`: like `Delivers`, on a transport with read deadlines: the outcomes hand
over consecutive pieces of `stream`; the only errors are end of stream and the transport's deadline;
an outcome that reports the end of the stream has exhausted it. -/
def DeliversT : Bytes → List ROut → Prop
  | _, [] => True
  | stream, o :: os =>
    (o.err = none ∨ o.err = some .eof ∨ o.err = some .timeout) ∧
    ∃ rest, stream = o.bytes ++ rest ∧ (o.sawEnd = true → rest = []) ∧ DeliversT rest os

/-- the state of the conn after a schedule -/
def SReader.after (C : Crypto) : SReader → List ROp → SReader
  | s, [] => s
  | s, op :: ops => SReader.after C (s.step C op).2 ops

theorem trun_ok {C : Crypto} (hC : AeadOK C) (ops : List ROp) :
    ∀ (s : SReader) (g0 : List Bytes) (gs : List (List Bytes)), TSync C s g0 gs →
      DeliversT (pendingT s g0 gs) (s.run C ops) ∧ (s.after C ops).err = none := by
  induction ops with
  | nil => intro s g0 gs hs; exact ⟨trivial, hs.noErr⟩
  | cons op ops ih =>
    intro s g0 gs hs
    obtain ⟨g0', gs', h⟩ := tstep_ok hC s g0 gs hs op
    obtain ⟨ih1, ih2⟩ := ih _ g0' gs' h.sync
    exact ⟨⟨h.errs, _, h.split, h.atEnd, ih1⟩, ih2⟩

/-! ### a deadline in the middle of a chunk is permanent -/

theorem take_of_append_eq {a b c d : Bytes} (h : a ++ b = c ++ d) (hl : c.length ≤ a.length) :
    a.take c.length = c ∧ a.drop c.length ++ b = d := by
  have h1 : (a ++ b).take c.length = c := by rw [h, List.take_left]
  have h2 : (a ++ b).drop c.length = d := by rw [h, List.drop_left]
  rw [List.take_append_of_le_length hl] at h1
  rw [List.drop_append_of_le_length hl] at h2
  exact ⟨h1, h2⟩

/-- `read` on a stretch that ends strictly inside a chunk: it fails having consumed bytes of the
chunk: `io.ErrUnexpectedEOF`-like, or — exactly the length chunk was there — with the nonce advanced
by one -/
theorem readChunk_partial {C : Crypto} (hC : AeadOK C) (k : Bytes) (n : Nat) (p q q2 : Bytes)
    (h0 : p.length ≠ 0) (hmax : p.length ≤ streamMaxPayloadSize)
    (hq : sealChunk C k n p = q ++ q2) (hq1 : q ≠ []) (hq2 : q2 ≠ []) :
    (readChunk C k n q = ⟨.error .unexpectedEOF, n, []⟩) ∨ (readChunk C k n q = ⟨.error .unexpectedEOF, n + 1, []⟩) ∨
    (readChunk C k n q = ⟨.error .eof, n + 1, []⟩) := by
  have hl1 : (C.enc k n (be16 p.length)).length = 2 + tagSize := by rw [hC.enc_len, be16_length]
  have hl2 : (C.enc k (n + 1) p).length = p.length + tagSize := hC.enc_len _ _ _
  have htag : tagSize = 16 := rfl
  have hqlen : q.length ≠ 0 := fun h => hq1 (List.length_eq_zero_iff.mp h)
  have hq2len : q2.length ≠ 0 := fun h => hq2 (List.length_eq_zero_iff.mp h)
  have htot : q.length + q2.length = (2 + tagSize) + (p.length + tagSize) := by
    have := congrArg List.length hq
    simp only [sealChunk, List.length_append, hl1, hl2] at this
    omega
  by_cases hshort : q.length < 2 + tagSize
  · left
    have hs' : q.length < 18 := by omega
    unfold readChunk readFull
    simp [hqlen, hs', htag]
  · have hle : (C.enc k n (be16 p.length)).length ≤ q.length := by rw [hl1]; omega
    obtain ⟨ht, hd⟩ := take_of_append_eq (hq.symm ▸ rfl : q ++ q2 = C.enc k n (be16 p.length) ++ C.enc k (n + 1) p) hle
    rw [hl1] at ht hd
    have hrf : readFull (2 + tagSize) q = .ok (C.enc k n (be16 p.length), q.drop (2 + tagSize)) := by
      unfold readFull
      simp only [htag] at hshort ⊢
      rw [if_neg (by omega), if_neg hqlen, if_neg (by omega)]
      simp only [htag] at ht
      rw [ht]
    have hlt : p.length < 65536 := by
      have : streamMaxPayloadSize = 65535 := rfl
      omega
    have hu : unbe16 (be16 p.length) = p.length := by simpa using unbe16_be16 p.length hlt []
    have hrest : (q.drop (2 + tagSize)).length < p.length + tagSize := by
      simp only [List.length_drop]; omega
    right
    by_cases hemp : (q.drop (2 + tagSize)).length = 0
    · right
      unfold readChunk
      rw [hrf]
      simp only [hC.dec_enc, hu, h0, ↓reduceIte]
      have he' : q.length - 18 = 0 := by simpa [htag] using hemp
      unfold readFull
      simp [he', htag]
    · left
      unfold readChunk
      rw [hrf]
      simp only [hC.dec_enc, hu, h0, ↓reduceIte]
      unfold readFull
      rw [if_neg (by omega), if_neg hemp, if_pos hrest]

/-- **the negative**: the stretch ends strictly inside a chunk (the transport's deadline fires after
`k > 0` bytes of it): whatever the call, it hands over nothing, reports the deadline, and the conn's
sticky error is set -/
theorem midchunk_timeout {C : Crypto} (hC : AeadOK C) (s : SReader) (p q q2 nx : Bytes) (rest : List Bytes)
    (herr : s.err = none) (hleft : s.r.left = []) (hwire : s.r.wire = q) (hlater : s.later = nx :: rest)
    (h0 : p.length ≠ 0) (hmax : p.length ≤ streamMaxPayloadSize)
    (hq : sealChunk C s.r.key s.r.nonce p = q ++ q2) (hq1 : q ≠ []) (hq2 : q2 ≠ []) (op : ROp) :
    (s.step C op).1.bytes = [] ∧ (s.step C op).1.err = some .timeout ∧ (s.step C op).2.err = some .timeout := by
  have hf1 : readErrorsSticky = true := by decide
  have hf3 : writeToFlushesLeftover = true := by decide
  have hf4 : tunnelFlushesLeftover = true := by decide
  have hl0 : s.r.left.length = 0 := by rw [hleft]; rfl
  have hfuel : s.r.wire.length + 1 = (s.r.wire.length) + 1 := rfl
  rcases readChunk_partial hC s.r.key s.r.nonce p q q2 h0 hmax hq hq1 hq2 with hc | hc | hc <;>
  cases op <;>
  simp [SReader.step, hf1, herr, hlater, Reader.step, Reader.read, Reader.writeTo, Reader.tunnel, hf3, hf4, hl0, hwire,
    copyLoop, hc, ROut.hitEnd, ROut.asTimeout, ROut.bytes, ROut.err] <;>
  (intro hx; omega)

/-- a deadline that fires when nothing of the next chunk has been consumed (the stretch is exhausted,
nothing buffered) — on ANY wire: the call reports it and the conn is exactly as before, now facing
the next stretch; no sticky error -/
theorem boundary_timeout_unchanged (C : Crypto) (s : SReader) (nx : Bytes) (rest : List Bytes)
    (herr : s.err = none) (hleft : s.r.left = []) (hwire : s.r.wire = []) (hlater : s.later = nx :: rest) (op : ROp) :
    s.step C op = (failedOut op .timeout, { r := { s.r with wire := nx }, err := none, later := rest }) := by
  have hf1 : readErrorsSticky = true := by decide
  have hf2 : boundaryTimeoutRetryable = true := by decide
  have hf3 : writeToFlushesLeftover = true := by decide
  have hf4 : tunnelFlushesLeftover = true := by decide
  have hl0 : s.r.left.length = 0 := by rw [hleft]; rfl
  cases op <;>
  simp [SReader.step, hf1, hf2, herr, hlater, Reader.step, Reader.read, Reader.writeTo, Reader.tunnel, hf3, hf4, hl0, hwire,
    copyLoop, readChunk_nil, ROut.hitEnd, ROut.asTimeout, ROut.err, failedOut, hleft]

end SSV.Stream
