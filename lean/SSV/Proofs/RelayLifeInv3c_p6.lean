import SSV.Proofs.RelayLifeDefs3
namespace SSV.RelayLife
variable (cfg : Cfg)

theorem inv3c_arrive (s s' : State) (c : Nat) (ha : Inv3a s) (hI : Inv3c s) (h : step cfg s (.arrive c) = some s') : Inv3c s' := by
  have g5 := ha.g5
  clear ha
  obtain ⟨g10⟩ := hI
  simp only [step] at h
  (repeat' split at h) <;> close_case3

theorem inv3c_rLock (s s' : State)  (ha : Inv3a s) (hI : Inv3c s) (h : step cfg s (.rLock ) = some s') : Inv3c s' := by
  have g5 := ha.g5
  clear ha
  obtain ⟨g10⟩ := hI
  simp only [step] at h
  (repeat' split at h) <;> close_case3

theorem inv3c_rMore (s s' : State) (c : Nat) (ha : Inv3a s) (hI : Inv3c s) (h : step cfg s (.rMore c) = some s') : Inv3c s' := by
  have g5 := ha.g5
  clear ha
  obtain ⟨g10⟩ := hI
  simp only [step] at h
  (repeat' split at h) <;> close_case3

theorem inv3c_rUnlock (s s' : State)  (ha : Inv3a s) (hI : Inv3c s) (h : step cfg s (.rUnlock ) = some s') : Inv3c s' := by
  have g5 := ha.g5
  clear ha
  obtain ⟨g10⟩ := hI
  simp only [step] at h
  (repeat' split at h) <;> close_case3


end SSV.RelayLife
