import SSV.Model.SaltPool
import SSV.Proofs.SaltPoolTs
/-
Helper lemmas for C03, part 2: the pool, the accept logic, histories.
-/
namespace SSV.SaltPool

/-! ### pool -/

theorem contains_iff (p : Pool) (s : Salt) : contains p s = true ↔ ∃ n ∈ p, n.salt = s := by
  simp [contains, List.any_eq_true]

theorem pruneExpired_suffix (now : Nat) (p : Pool) : pruneExpired now p <:+ p := by
  induction p with
  | nil => simp [pruneExpired]
  | cons n rest ih =>
    unfold pruneExpired
    split
    · exact List.suffix_refl _
    · exact List.IsSuffix.trans ih (List.suffix_cons n rest)

theorem mem_of_mem_prune {now : Nat} {p : Pool} {n : Node} (h : n ∈ pruneExpired now p) : n ∈ p :=
  (pruneExpired_suffix now p).subset h

/-- pruning never removes a node that has not expired (no ordering assumption needed) -/
theorem mem_prune_of_live {now : Nat} {p : Pool} {n : Node} (h : n ∈ p) (hl : now < n.expiresAt) :
    n ∈ pruneExpired now p := by
  induction p with
  | nil => cases h
  | cons m rest ih =>
    unfold pruneExpired
    split
    · exact h
    · rename_i hm
      rcases List.mem_cons.mp h with rfl | h'
      · omega
      · exact ih h'

theorem add_fst_cases (P : Params) (now : Nat) (s : Salt) (p : Pool) :
    ((add P now s p).2 = false ∧ (add P now s p).1 = pruneExpired now p ∧ contains (pruneExpired now p) s = true) ∨
    ((add P now s p).2 = true ∧ (add P now s p).1 = pruneExpired now p ++ [{ salt := s, expiresAt := now + P.window }]
      ∧ contains (pruneExpired now p) s = false) := by
  unfold add
  cases h : contains (pruneExpired now p) s <;> simp [h, insert]

theorem mem_add_of_live {P : Params} {now : Nat} {s : Salt} {p : Pool} {n : Node} (h : n ∈ p) (hl : now < n.expiresAt) :
    n ∈ (add P now s p).1 := by
  have hm := mem_prune_of_live h hl
  rcases add_fst_cases P now s p with ⟨_, h1, _⟩ | ⟨_, h1, _⟩ <;> rw [h1]
  · exact hm
  · exact List.mem_append_left _ hm

theorem add_false_of_live {P : Params} {now : Nat} {p : Pool} {n : Node} (h : n ∈ p) (hl : now < n.expiresAt) :
    (add P now n.salt p).2 = false := by
  have hm := mem_prune_of_live h hl
  have hc : contains (pruneExpired now p) n.salt = true := (contains_iff _ _).mpr ⟨n, hm, rfl⟩
  simp [add, hc]

theorem add_true_mem {P : Params} {now : Nat} {s : Salt} {p : Pool} (h : (add P now s p).2 = true) :
    ({ salt := s, expiresAt := now + P.window } : Node) ∈ (add P now s p).1 := by
  rcases add_fst_cases P now s p with ⟨h0, _, _⟩ | ⟨_, h1, _⟩
  · rw [h0] at h; cases h
  · rw [h1]; simp

theorem add_true_of_absent {P : Params} {now : Nat} {s : Salt} {p : Pool} (h : contains p s = false) :
    (add P now s p).2 = true := by
  have hc : contains (pruneExpired now p) s = false := by
    cases hc : contains (pruneExpired now p) s
    · rfl
    · obtain ⟨n, hn, hs⟩ := (contains_iff _ _).mp hc
      have : contains p s = true := (contains_iff _ _).mpr ⟨n, mem_of_mem_prune hn, hs⟩
      rw [h] at this; cases this
  simp [add, hc]

/-! ### the accept logic, flattened -/

theorem handle_eq (P : Params) (c : Bool) (now : Nat) (r : Request) (pool : Pool) :
    handle P c now r pool =
      if !r.complete then (pool, .shortRead)
      else if tryContains c pool r.salt then (pool, .repeatedSalt)
      else if !r.prefixOk then (pool, .badPrefix)
      else if !r.userOk then (pool, .noUser)
      else if !r.authOk then (pool, .authFail)
      else if !r.typeOk then (pool, .typeMismatch)
      else if !tsValid P r.ts now then (pool, .badTimestamp)
      else if !(add P now r.salt pool).2 then ((add P now r.salt pool).1, .repeatedSalt)
      else if !r.bodyOk then ((add P now r.salt pool).1, .lateError)
      else ((add P now r.salt pool).1, .accepted) := by
  simp only [handle, handleStages, phase1Stages, phase2Stages, List.cons_append, List.nil_append, runStages, stageStep]
  cases h1 : r.complete with
  | false => simp
  | true =>
  cases h2 : tryContains c pool r.salt with
  | true => simp [h2]
  | false =>
  cases h3 : r.prefixOk with
  | false => simp [h2]
  | true =>
  cases h4 : r.userOk with
  | false => simp [h2]
  | true =>
  cases h5 : r.authOk with
  | false => simp [h2]
  | true =>
  cases h6 : r.typeOk with
  | false => simp [h2]
  | true =>
  cases h7 : tsValid P r.ts now with
  | false => simp [h2]
  | true =>
  cases h8 : (add P now r.salt pool).2 with
  | false => simp [h2, h8]
  | true =>
  cases h9 : r.bodyOk <;> simp [h2, h8]

/-- the verdict and pool of a presentation, by cases (all the facts the other lemmas need) -/
theorem handle_cases (P : Params) (c : Bool) (now : Nat) (r : Request) (pool : Pool) :
    ((handle P c now r pool).1 = pool ∧ (handle P c now r pool).2 ≠ .accepted ∧ (handle P c now r pool).2 ≠ .lateError ∧
      (r.forged = true ∨ tryContains c pool r.salt = true ∨ r.typeOk = false ∨ tsValid P r.ts now = false)) ∨
    (r.complete = true ∧ tryContains c pool r.salt = false ∧ r.prefixOk = true ∧ r.userOk = true ∧ r.authOk = true ∧
      r.typeOk = true ∧ tsValid P r.ts now = true ∧ (handle P c now r pool).1 = (add P now r.salt pool).1 ∧
      (handle P c now r pool).2 =
        (if (add P now r.salt pool).2 then (if r.bodyOk then Verdict.accepted else Verdict.lateError) else Verdict.repeatedSalt)) := by
  rw [handle_eq]
  unfold Request.forged
  cases h1 : r.complete with
  | false => simp
  | true =>
  cases h2 : tryContains c pool r.salt with
  | true => simp
  | false =>
  cases h3 : r.prefixOk with
  | false => simp
  | true =>
  cases h4 : r.userOk with
  | false => simp
  | true =>
  cases h5 : r.authOk with
  | false => simp
  | true =>
  cases h6 : r.typeOk with
  | false => simp
  | true =>
  cases h7 : tsValid P r.ts now with
  | false => simp
  | true =>
  cases h8 : (add P now r.salt pool).2 with
  | false => simp
  | true =>
  cases h9 : r.bodyOk <;> simp

/-- what an acceptance means -/
theorem handle_accepted {P : Params} {c : Bool} {now : Nat} {r : Request} {pool : Pool}
    (h : (handle P c now r pool).2 = .accepted) :
    r.complete = true ∧ tryContains c pool r.salt = false ∧ r.prefixOk = true ∧ r.userOk = true ∧ r.authOk = true ∧
    r.typeOk = true ∧ tsValid P r.ts now = true ∧ (add P now r.salt pool).2 = true ∧ r.bodyOk = true ∧
    (handle P c now r pool).1 = (add P now r.salt pool).1 := by
  rcases handle_cases P c now r pool with ⟨_, hna, _⟩ | ⟨h1, h2, h3, h4, h5, h6, h7, hp, hv⟩
  · exact absurd h hna
  · rw [hv] at h
    refine ⟨h1, h2, h3, h4, h5, h6, h7, ?_, ?_, hp⟩
    · cases ha : (add P now r.salt pool).2
      · simp [ha] at h
      · rfl
    · cases hb : r.bodyOk
      · cases ha : (add P now r.salt pool).2 <;> simp [ha, hb] at h
      · rfl

/-- the pool after a presentation is the old pool or the result of `Add` (reached only with a valid timestamp) -/
theorem handle_pool (P : Params) (c : Bool) (now : Nat) (r : Request) (pool : Pool) :
    (handle P c now r pool).1 = pool ∨
    (tsValid P r.ts now = true ∧ r.forged = false ∧ r.typeOk = true ∧ (handle P c now r pool).1 = (add P now r.salt pool).1) := by
  rcases handle_cases P c now r pool with ⟨hp, _⟩ | ⟨h1, h2, h3, h4, h5, h6, h7, hp, hv⟩
  · exact Or.inl hp
  · exact Or.inr ⟨h7, by simp [Request.forged, h1, h3, h4, h5], h6, hp⟩

/-- a live node with the request's salt forbids acceptance -/
theorem handle_not_accepted_of_live {P : Params} {c : Bool} {now : Nat} {r : Request} {pool : Pool} {n : Node}
    (h : n ∈ pool) (hs : n.salt = r.salt) (hl : now < n.expiresAt) : (handle P c now r pool).2 ≠ .accepted := by
  intro ha
  have := (handle_accepted ha).2.2.2.2.2.2.2.1
  rw [← hs, add_false_of_live h hl] at this
  cases this

/-! ### histories -/

theorem run_append (P : Params) (s : State) (a b : List Op) : run P s (a ++ b) = run P (run P s a) b := by
  induction a generalizing s with
  | nil => rfl
  | cons o a ih => simp [run, ih]

theorem step_now_le (P : Params) (s : State) (o : Op) : s.now ≤ (step P s o).1.now := by
  cases o <;> simp [step]

theorem run_now_le (P : Params) (s : State) (ops : List Op) : s.now ≤ (run P s ops).now := by
  induction ops generalizing s with
  | nil => exact Nat.le_refl _
  | cons o ops ih => exact Nat.le_trans (step_now_le P s o) (ih _)

/-- "the node is still in the pool, or its expiry has passed" -/
def Live (n : Node) (st : State) : Prop := n ∈ st.pool ∨ n.expiresAt ≤ st.now

/-- Side condition on every clock reading of a history at which a timestamp is compared. -/
def ClockOk (P : Params) (t : Nat) : Prop := unixSec t + P.maxEpochDiff < 2 ^ 63

instance (P : Params) (t : Nat) : Decidable (ClockOk P t) := by unfold ClockOk; infer_instance

theorem live_step {P : Params} {n : Node} {st : State} (o : Op) (h : Live n st) : Live n (step P st o).1 := by
  cases o with
  | advance d =>
    rcases h with h | h
    · exact Or.inl h
    · exact Or.inr (by simp [step]; omega)
  | present r c =>
    rcases h with h | h
    · by_cases hl : st.now < n.expiresAt
      · left
        show n ∈ (handle P c st.now r st.pool).1
        rcases handle_pool P c st.now r st.pool with hp | ⟨_, _, _, hp⟩ <;> rw [hp]
        · exact h
        · exact mem_add_of_live h hl
      · exact Or.inr (by simp [step]; omega)
    · exact Or.inr (by simp [step]; omega)

theorem live_run {P : Params} {n : Node} {st : State} (ops : List Op) (h : Live n st) : Live n (run P st ops) := by
  induction ops generalizing st with
  | nil => exact h
  | cons o ops ih => exact ih (live_step o h)

end SSV.SaltPool
