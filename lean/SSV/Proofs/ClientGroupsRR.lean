import SSV.Model.ClientGroups
/-
Helper lemmas for C19, round-robin part: counter arithmetic and the interleaving invariant.
-/
namespace SSV.ClientGroups
open SSV.Gen.C19

theorem rrMask_eq : rrMask = 2 ^ 63 - 1 := by decide
theorem rrWord_eq : rrWord = 2 ^ 64 := by decide
theorem rrInit_eq : rrInit = 2 ^ 64 - 1 := by decide

/-- the counter value whose next `Add(1)` returns `j` -/
def ctrBefore (j : Nat) : Nat := (j + (2 ^ 64 - 1)) % 2 ^ 64

theorem ctrBefore_zero : ctrBefore 0 = rrInit := by decide

theorem rrAdd_ctrBefore (j : Nat) : rrAdd (ctrBefore j) = j % 2 ^ 64 := by
  unfold rrAdd ctrBefore
  rw [rrWord_eq]
  omega

theorem ctrBefore_succ (j : Nat) : ctrBefore (j + 1) = j % 2 ^ 64 := by
  unfold ctrBefore
  omega

theorem rrPick_eq (v n : Nat) : rrPick v n = v % 2 ^ 63 % n := by
  unfold rrPick
  rw [rrMask_eq, Nat.and_two_pow_sub_one_eq_mod]

theorem rrPick_small (v n : Nat) (hv : v < 2 ^ 63) : rrPick v n = v % n := by
  rw [rrPick_eq, Nat.mod_eq_of_lt hv]

/-- the value returned by the `t`-th `Add(1)` (0-based) since initialisation, masked and reduced -/
def pickOfTicket (n t : Nat) : Nat := rrPick (t % 2 ^ 64) n

theorem pickOfTicket_eq (n t : Nat) : pickOfTicket n t = t % 2 ^ 63 % n := by
  unfold pickOfTicket
  rw [rrPick_eq]
  have : t % 2 ^ 64 % 2 ^ 63 = t % 2 ^ 63 := Nat.mod_mod_of_dvd t ⟨2, by decide⟩
  rw [this]

theorem pickOfTicket_small (n t : Nat) (ht : t < 2 ^ 63) : pickOfTicket n t = t % n := by
  rw [pickOfTicket_eq, Nat.mod_eq_of_lt ht]

/-- `m` sequential selections starting where the next ticket is `j` -/
theorem rrRun_from (n : Nat) : ∀ (m j : Nat), rrRun (ctrBefore j) n m = (List.range' j m).map (pickOfTicket n)
  | 0, _ => rfl
  | m + 1, j => by
    have ih := rrRun_from n m (j + 1)
    simp only [rrRun, rrSelect, rrAdd_ctrBefore, List.range', List.map_cons]
    rw [ctrBefore_succ] at ih
    rw [ih]
    rfl

/-! ### interleavings -/

def addCount : List RREvent → Nat
  | [] => 0
  | .add _ :: r => addCount r + 1
  | .fin _ :: r => addCount r

theorem addCount_append (a b : List RREvent) : addCount (a ++ b) = addCount a + addCount b := by
  induction a with
  | nil => simp [addCount]
  | cons e r ih => cases e <;> simp [addCount, ih] <;> omega

theorem takePending_perm {tid : Nat} : ∀ {l : List (Nat × Nat)} {v : Nat} {r : List (Nat × Nat)},
    takePending tid l = some (v, r) → l.Perm ((tid, v) :: r)
  | [], _, _, h => by simp [takePending] at h
  | (t, w) :: rest, v, r, h => by
    unfold takePending at h
    by_cases ht : t = tid
    · simp [ht] at h
      obtain ⟨h1, h2⟩ := h
      subst h1 h2 ht
      exact List.Perm.refl _
    · simp [ht] at h
      cases hrec : takePending tid rest with
      | none => simp [hrec] at h
      | some pr =>
        obtain ⟨w', r'⟩ := pr
        simp [hrec] at h
        obtain ⟨h1, h2⟩ := h
        subst h1 h2
        have ih := takePending_perm hrec
        exact (List.Perm.cons _ ih).trans (List.Perm.swap _ _ _)

/-- the invariant of every interleaving: tickets handed out so far = in flight + returned -/
structure RRInv (n : Nat) (a : Nat) (s : RRState) : Prop where
  ctr : s.ctr = ctrBefore a
  perm : (s.pending.map (fun q => rrPick q.2 n) ++ s.done).Perm ((List.range a).map (pickOfTicket n))

theorem rrInv_init (n : Nat) : RRInv n 0 rrInitState :=
  ⟨ctrBefore_zero.symm, by simp [rrInitState]⟩

theorem rrInv_step (n a : Nat) (s : RRState) (e : RREvent) (h : RRInv n a s) :
    RRInv n (a + addCount [e]) (rrStep n s e) := by
  cases e with
  | add tid =>
    simp only [rrStep, addCount]
    refine ⟨?_, ?_⟩
    · simp only [h.ctr, rrAdd_ctrBefore, ctrBefore_succ]
    · simp only [h.ctr, rrAdd_ctrBefore, List.map_append, List.map_cons, List.map_nil, List.range_succ]
      have h1 : (List.map (fun q => rrPick q.2 n) s.pending ++ [rrPick (a % 2 ^ 64) n] ++ s.done).Perm
          ((List.map (fun q => rrPick q.2 n) s.pending ++ s.done) ++ [rrPick (a % 2 ^ 64) n]) := by
        rw [List.append_assoc, List.append_assoc]
        exact List.Perm.append_left _ List.perm_append_comm
      exact h1.trans (List.Perm.append_right _ h.perm)
  | fin tid =>
    simp only [rrStep, addCount, Nat.add_zero]
    cases htp : takePending tid s.pending with
    | none => exact h
    | some pr =>
      obtain ⟨v, rest⟩ := pr
      refine ⟨h.ctr, ?_⟩
      have hp := takePending_perm htp
      have hp' : (s.pending.map (fun q => rrPick q.2 n)).Perm (rrPick v n :: rest.map (fun q => rrPick q.2 n)) := by
        simpa using hp.map (fun q => rrPick q.2 n)
      simp only
      have h2 : (List.map (fun q => rrPick q.2 n) rest ++ (s.done ++ [rrPick v n])).Perm
          (rrPick v n :: List.map (fun q => rrPick q.2 n) rest ++ s.done) := by
        rw [← List.append_assoc]
        exact List.perm_append_comm.trans (by simp)
      exact h2.trans ((List.Perm.append_right _ hp'.symm).trans h.perm)

theorem rrInv_exec (n : Nat) : ∀ (evs : List RREvent) (a : Nat) (s : RRState), RRInv n a s →
    RRInv n (a + addCount evs) (rrExec n s evs)
  | [], a, s, h => by simpa [rrExec, addCount] using h
  | e :: r, a, s, h => by
    have h1 := rrInv_step n a s e h
    have h2 := rrInv_exec n r _ _ h1
    have : a + addCount [e] + addCount r = a + addCount (e :: r) := by
      cases e <;> simp [addCount] <;> omega
    rw [this] at h2
    simpa [rrExec] using h2

end SSV.ClientGroups
