import SSV.Proofs.Parsers
/-
C06 helper lemmas, part 2: readers, UDP length checks, direct unpackers, router criteria.
-/
namespace SSV.Parsers.Proofs
open SSV SSV.Go SSV.Outcome SSV.Parsers

/-! #### stream readers -/

theorem np_appendFromReader (s : Bytes) : NoPanic (appendFromReader s) := by
  unfold appendFromReader readFull
  go_np

theorem np_connAddrFromReader (s : Bytes) : NoPanic (connAddrFromReader s) := by
  unfold connAddrFromReader readFull addrFromDomainPort
  go_np

/-! #### ss2022 UDP length checks -/

theorem np_udpSessionInfo (C : Ciphers) (hC : C.LenPreserving) (b : Bytes) : NoPanic (udpSessionInfo C b) := by
  unfold udpSessionInfo
  go_consts
  split
  · simp
  · rename_i h
    have h1 : (C.dec16 (b.take 16)).length = 16 := by rw [hC]; simp; omega
    go_np

theorem np_udpNewUnpacker (idLen : Nat) (found : Bool) (b : Bytes) (hid : idLen = 0 ∨ idLen = Gen.C06.IdentityHeaderLength) :
    NoPanic (udpNewUnpacker idLen found b) := by
  unfold udpNewUnpacker
  simp only [Gen.C06.IdentityHeaderLength] at hid
  go_consts
  go_np

theorem np_udpServerUnpack (C : Ciphers) (now : Int) (hdr : Nat) (replayed : Bool) (b : Bytes) (ps pl : Nat)
    (hb : ps + pl ≤ b.length) (hh : Gen.C06.UDPSeparateHeaderLength ≤ hdr) : NoPanic (udpServerUnpack C now hdr replayed b ps pl) := by
  unfold udpServerUnpack
  go_consts
  go_consts_at hh
  go_np
  all_goals (refine noPanic_bind (np_parseUDPClientMessageHeader _ _) ?_; rintro ⟨a, n, l⟩ _; simp)

theorem np_udpClientUnpack (C : Ciphers) (hC : C.LenPreserving) (now : Int) (csid : Nat) (sess : CliSess) (tooSoon replayed : Bool)
    (b : Bytes) (ps pl : Nat) (hb : ps + pl ≤ b.length) : NoPanic (udpClientUnpack true C now csid sess tooSoon replayed b ps pl) := by
  unfold udpClientUnpack
  go_consts
  split
  · simp
  · rename_i h
    have h1 : (C.dec16 (((b.take (ps + 16)).drop ps).take 16)).length = 16 := by rw [hC]; simp; omega
    go_ok
    refine noPanic_bind ?_ ?_
    · repeat' (first | go_ok | split)
    · rintro ⟨hasAEAD, hasFilter⟩ hslot
      have hA : hasAEAD = true := by
        repeat' (split at hslot)
        all_goals first
          | (simp at hslot; done)
          | (simp only [Bool.not_true, Bool.false_or, Outcome.ok.injEq, Prod.mk.injEq] at *; simp_all; done)
          | (go_ok_at hslot; simp_all; done)
      subst hA
      dsimp only
      repeat' (first | go_ok | split)
      all_goals first
        | (exfalso; simp_all; done)
        | (refine noPanic_bind (np_parseUDPServerMessageHeader _ _ _) ?_; rintro ⟨a, n, l⟩ _; simp)

/-! #### direct/packet.go -/

theorem np_noneServerUnpack (b : Bytes) (ps pl : Nat) (hb : ps + pl ≤ b.length) : NoPanic (noneServerUnpack b ps pl) := by
  unfold noneServerUnpack
  go_np
  all_goals (refine noPanic_bind (np_connAddrFromSliceDC _) ?_; rintro ⟨a, n⟩ _; simp)

theorem np_noneClientUnpack (fs : Bool) (b : Bytes) (ps pl : Nat) (hb : ps + pl ≤ b.length) : NoPanic (noneClientUnpack fs b ps pl) := by
  unfold noneClientUnpack
  go_np
  all_goals (refine noPanic_bind (np_addrPortFromSlice _) ?_; rintro ⟨a, n⟩ _; simp)

theorem np_socks5ServerUnpack (b : Bytes) (ps pl : Nat) (hb : ps + pl ≤ b.length) : NoPanic (socks5ServerUnpack b ps pl) := by
  unfold socks5ServerUnpack validatePacketHeader
  go_np
  all_goals (refine noPanic_bind (np_connAddrFromSliceDC _) ?_; rintro ⟨a, n⟩ _; simp)

theorem np_socks5ClientUnpack (fs : Bool) (b : Bytes) (ps pl : Nat) (hb : ps + pl ≤ b.length) : NoPanic (socks5ClientUnpack fs b ps pl) := by
  unfold socks5ClientUnpack validatePacketHeader
  go_np
  all_goals (refine noPanic_bind (np_addrPortFromSlice _) ?_; rintro ⟨a, n⟩ _; simp)

theorem np_directServerPack (rej : Bool) (hrej : rej = true) (target : Addr) (targetOnly srcIsTarget : Bool) (n m : Nat)
    (hacc : directConfigAccepted rej target targetOnly = true) : NoPanic (directServerPack target targetOnly srcIsTarget n m) := by
  subst hrej
  unfold directServerPack
  cases target <;> cases targetOnly <;> simp [directConfigAccepted, Addr.isValid, Addr.isIP, Addr.ip] at hacc ⊢ <;>
    (repeat' split) <;> simp

end SSV.Parsers.Proofs
