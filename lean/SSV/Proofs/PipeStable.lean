import SSV.Proofs.PipeLive
/-
C15 — `done` and the once-error never change once set (closing is irrevocable, the FIRST stored error wins).
-/
namespace SSV.Pipe

/-- the part of the state a close decides -/
def closedAs (s : State) (e : Err) : Prop := s.done = true ∧ s.err = some e

theorem withErr_keep {s : State} {f : Err → State} {P : State → Prop} (hp : P s.panic) (hf : ∀ e, P (f e)) :
    P (withErr s f) := by
  unfold withErr; split
  · exact hf _
  · exact hp

theorem local_keeps {s s' : State} (i : Nat) (hs : s' ∈ localSteps s i) :
    (s.done = true → s'.done = true) ∧ (∀ e, s.err = some e → s'.err = some e) := by
  unfold localSteps at hs
  split at hs
  case h_4 => -- rSel
    rcases mem_selSteps hs with h | h <;> split at h <;> simp at h <;> subst h <;>
      first
        | exact withErr_keep (P := fun t => (s.done = true → t.done = true) ∧ (∀ e, s.err = some e → t.err = some e))
            (by simp [State.panic]) (by intro e; simp [State.setT])
        | simp [State.setT]
  case h_9 => -- wSel
    rcases mem_selSteps hs with h | h <;> split at h <;> simp at h <;> subst h <;>
      first
        | exact withErr_keep (P := fun t => (s.done = true → t.done = true) ∧ (∀ e, s.err = some e → t.err = some e))
            (by simp [State.panic]) (by intro e; simp [State.setT])
        | simp [State.setT]
  all_goals
    first
      | (simp at hs; done)
      | (split at hs <;> simp at hs <;> subst hs <;>
          first
            | exact withErr_keep (P := fun t => (s.done = true → t.done = true) ∧ (∀ e, s.err = some e → t.err = some e))
                (by simp [State.panic]) (by intro e; (repeat' split) <;> simp [State.setT])
            | exact withErr_keep (P := fun t => (s.done = true → t.done = true) ∧ (∀ e, s.err = some e → t.err = some e))
                (by simp [State.panic]) (by intro e; simp [State.setT])
            | simp [State.setT])
      | (simp at hs; subst hs; cases he : s.err <;> simp [State.setT, he])
      | (simp at hs; subst hs; split <;> simp [State.setT])
      | (simp at hs; subst hs; simp [State.setT])


theorem step_keeps {s s' : State} (st : Step s s') :
    (s.done = true → s'.done = true) ∧ (∀ e, s.err = some e → s'.err = some e) := by
  cases st with
  | start i op hs =>
    unfold start at hs; split at hs <;> simp at hs; subst hs; simp [State.setT]
  | finish i hs =>
    unfold finish at hs; split at hs <;> simp at hs <;> subst hs <;> simp [State.setT]
  | fire w hs =>
    unfold fire at hs
    cases w <;> simp at hs <;> obtain ⟨_, hs⟩ := hs <;> split at hs <;> simp at hs <;> subst hs <;> simp [State.panic]
  | loc i hs => exact local_keeps i hs
  | data i j hs =>
    unfold data at hs; split at hs
    · split at hs <;> simp at hs; subst hs; simp [State.setT]
    · simp at hs
  | count i j hs =>
    unfold count at hs; split at hs
    · split at hs
      · simp at hs; subst hs; simp [State.panic]
      · simp only [Option.some.injEq] at hs; subst hs; split <;> simp [State.setT]
    · simp at hs

/-- once a direction is closed with error `e`, it stays closed with `e` -/
theorem closedAs_stable {s s' : State} {e : Err} (st : Step s s') (h : closedAs s e) : closedAs s' e :=
  ⟨(step_keeps st).1 h.1, (step_keeps st).2 e h.2⟩

end SSV.Pipe
