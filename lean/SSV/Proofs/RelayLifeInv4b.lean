import SSV.Proofs.RelayLifeInv4b_p0
import SSV.Proofs.RelayLifeInv4b_p1
import SSV.Proofs.RelayLifeInv4b_p2
import SSV.Proofs.RelayLifeInv4b_p3
import SSV.Proofs.RelayLifeInv4b_p4
import SSV.Proofs.RelayLifeInv4b_p5
import SSV.Proofs.RelayLifeInv4b_p6
namespace SSV.RelayLife
variable (cfg : Cfg)

theorem inv4_init (s s' : State) (i : Nat) (ok : Bool) (h1 : Inv1 s) (ha : Inv3a s) (hd : Inv3d s) (hI : Inv4 cfg s) (h : step cfg s (.init i ok) = some s') : Inv4 cfg s' := by
  by_cases hi : i < s.n
  · cases hp : (s.ent i).ipc with
    | getClient => exact inv4_init_getClient cfg s s' i ok h1 ha hd hI hi hp h
    | newSession => exact inv4_init_newSession cfg s s' i ok h1 ha hd hI hi hp h
    | listen => exact inv4_init_listen cfg s s' i ok h1 ha hd hI hi hp h
    | setDl => exact inv4_init_setDl cfg s s' i ok h1 ha hd hI hi hp h
    | newPacker => exact inv4_init_newPacker cfg s s' i ok h1 ha hd hI hi hp h
    | swap => exact inv4_init_swap cfg s s' i ok h1 ha hd hI hi hp h
    | spawn => exact inv4_init_spawn cfg s s' i ok h1 ha hd hI hi hp h
    | _ => simp [step, hi, hp] at h
  · simp [step, hi] at h

end SSV.RelayLife
