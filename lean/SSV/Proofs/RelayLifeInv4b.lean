import SSV.Proofs.RelayLifeInv4Defs
namespace SSV.RelayLife
variable (cfg : Cfg)

set_option maxHeartbeats 1600000 in
theorem inv4_init_getClient (s s' : State) (i : Nat) (ok : Bool) (h1 : Inv1 s) (ha : Inv3a s) (hd : Inv3d s) (hI : Inv4 cfg s) (hi : i < s.n) (hp : (s.ent i).ipc = .getClient)
    (h : step cfg s (.init i ok) = some s') : Inv4 cfg s' := by
  have a7 := h1.closed
  clear h1
  have u2 := ha.u2
  have u3 := ha.u3
  clear ha
  obtain ⟨u1⟩ := hd
  obtain ⟨s1,s2,s3,s4,s5,u4,u6⟩ := hI
  simp only [step, hi, hp, if_true] at h
  (repeat' split at h) <;> close_case4

set_option maxHeartbeats 1600000 in
theorem inv4_init_newSession (s s' : State) (i : Nat) (ok : Bool) (h1 : Inv1 s) (ha : Inv3a s) (hd : Inv3d s) (hI : Inv4 cfg s) (hi : i < s.n) (hp : (s.ent i).ipc = .newSession)
    (h : step cfg s (.init i ok) = some s') : Inv4 cfg s' := by
  have a7 := h1.closed
  clear h1
  have u2 := ha.u2
  have u3 := ha.u3
  clear ha
  obtain ⟨u1⟩ := hd
  obtain ⟨s1,s2,s3,s4,s5,u4,u6⟩ := hI
  simp only [step, hi, hp, if_true] at h
  (repeat' split at h) <;> close_case4

set_option maxHeartbeats 1600000 in
theorem inv4_init_listen (s s' : State) (i : Nat) (ok : Bool) (h1 : Inv1 s) (ha : Inv3a s) (hd : Inv3d s) (hI : Inv4 cfg s) (hi : i < s.n) (hp : (s.ent i).ipc = .listen)
    (h : step cfg s (.init i ok) = some s') : Inv4 cfg s' := by
  have a7 := h1.closed
  clear h1
  have u2 := ha.u2
  have u3 := ha.u3
  clear ha
  obtain ⟨u1⟩ := hd
  obtain ⟨s1,s2,s3,s4,s5,u4,u6⟩ := hI
  simp only [step, hi, hp, if_true] at h
  (repeat' split at h) <;> close_case4

set_option maxHeartbeats 1600000 in
theorem inv4_init_setDl (s s' : State) (i : Nat) (ok : Bool) (h1 : Inv1 s) (ha : Inv3a s) (hd : Inv3d s) (hI : Inv4 cfg s) (hi : i < s.n) (hp : (s.ent i).ipc = .setDl)
    (h : step cfg s (.init i ok) = some s') : Inv4 cfg s' := by
  have a7 := h1.closed
  clear h1
  have u2 := ha.u2
  have u3 := ha.u3
  clear ha
  obtain ⟨u1⟩ := hd
  obtain ⟨s1,s2,s3,s4,s5,u4,u6⟩ := hI
  simp only [step, hi, hp, if_true] at h
  (repeat' split at h) <;> close_case4

set_option maxHeartbeats 1600000 in
theorem inv4_init_newPacker (s s' : State) (i : Nat) (ok : Bool) (h1 : Inv1 s) (ha : Inv3a s) (hd : Inv3d s) (hI : Inv4 cfg s) (hi : i < s.n) (hp : (s.ent i).ipc = .newPacker)
    (h : step cfg s (.init i ok) = some s') : Inv4 cfg s' := by
  have a7 := h1.closed
  clear h1
  have u2 := ha.u2
  have u3 := ha.u3
  clear ha
  obtain ⟨u1⟩ := hd
  obtain ⟨s1,s2,s3,s4,s5,u4,u6⟩ := hI
  simp only [step, hi, hp, if_true] at h
  (repeat' split at h) <;> close_case4

set_option maxHeartbeats 1600000 in
theorem inv4_init_swap (s s' : State) (i : Nat) (ok : Bool) (h1 : Inv1 s) (ha : Inv3a s) (hd : Inv3d s) (hI : Inv4 cfg s) (hi : i < s.n) (hp : (s.ent i).ipc = .swap)
    (h : step cfg s (.init i ok) = some s') : Inv4 cfg s' := by
  have a7 := h1.closed
  clear h1
  have u2 := ha.u2
  have u3 := ha.u3
  clear ha
  obtain ⟨u1⟩ := hd
  obtain ⟨s1,s2,s3,s4,s5,u4,u6⟩ := hI
  simp only [step, hi, hp, if_true] at h
  (repeat' split at h) <;> close_case4

set_option maxHeartbeats 1600000 in
theorem inv4_init_spawn (s s' : State) (i : Nat) (ok : Bool) (h1 : Inv1 s) (ha : Inv3a s) (hd : Inv3d s) (hI : Inv4 cfg s) (hi : i < s.n) (hp : (s.ent i).ipc = .spawn)
    (h : step cfg s (.init i ok) = some s') : Inv4 cfg s' := by
  have a7 := h1.closed
  clear h1
  have u2 := ha.u2
  have u3 := ha.u3
  clear ha
  obtain ⟨u1⟩ := hd
  obtain ⟨s1,s2,s3,s4,s5,u4,u6⟩ := hI
  simp only [step, hi, hp, if_true] at h
  (repeat' split at h) <;> close_case4

theorem inv4_init (s s' : State) (i : Nat) (ok : Bool) (h1 : Inv1 s) (ha : Inv3a s) (hd : Inv3d s) (hI : Inv4 cfg s) (h : step cfg s (.init i ok) = some s') : Inv4 cfg s' := by
  by_cases hi : i < s.n
  · cases hp : (s.ent i).ipc with
    | getClient => exact inv4_init_getClient cfg s s' i ok h1 ha hd hI hi hp h
    | newSession => exact inv4_init_newSession cfg s s' i ok h1 ha hd hI hi hp h
    | listen => exact inv4_init_listen cfg s s' i ok h1 ha hd hI hi hp h
    | setDl => exact inv4_init_setDl cfg s s' i ok h1 ha hd hI hi hp h
    | newPacker => exact inv4_init_newPacker cfg s s' i ok h1 ha hd hI hi hp h
    | swap => exact inv4_init_swap cfg s s' i ok h1 ha hd hI hi hp h
    | spawn => exact inv4_init_spawn cfg s s' i ok h1 ha hd hI hi hp h
    | _ => simp [step, hi, hp] at h
  · simp [step, hi] at h

end SSV.RelayLife
