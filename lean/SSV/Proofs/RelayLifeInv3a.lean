import SSV.Proofs.RelayLifeInv3a_p0
import SSV.Proofs.RelayLifeInv3a_p1
import SSV.Proofs.RelayLifeInv3a_p2
import SSV.Proofs.RelayLifeInv3a_p3
import SSV.Proofs.RelayLifeInv3a_p4
import SSV.Proofs.RelayLifeInv3a_p5
import SSV.Proofs.RelayLifeInv3a_p6
import SSV.Proofs.RelayLifeInv3a_p7
import SSV.Proofs.RelayLifeInv3a_p8
namespace SSV.RelayLife
variable (cfg : Cfg)

theorem inv3a_step (s s' : State) (e : Ev) (hI : Inv3a s) (h : step cfg s e = some s') : Inv3a s' := by
  cases e with
  | arrive c => exact inv3a_arrive cfg s s' c hI h
  | rLock  => exact inv3a_rLock cfg s s'  hI h
  | rProc ok => exact inv3a_rProc cfg s s' ok hI h
  | rMore c => exact inv3a_rMore cfg s s' c hI h
  | rUnlock  => exact inv3a_rUnlock cfg s s'  hI h
  | rExit  => exact inv3a_rExit cfg s s'  hI h
  | init i ok => exact inv3a_init cfg s s' i ok hI h
  | dTimeout i => exact inv3a_dTimeout cfg s s' i hI h
  | dPacket i => exact inv3a_dPacket cfg s s' i hI h
  | dSend i => exact inv3a_dSend cfg s s' i hI h
  | uFail i => exact inv3a_uFail cfg s s' i hI h
  | cleanup i => exact inv3a_cleanup cfg s s' i hI h
  | uRecv i k => exact inv3a_uRecv cfg s s' i k hI h
  | uStep i => exact inv3a_uStep cfg s s' i hI h
  | timer i => exact inv3a_timer cfg s s' i hI h
  | stopCall  => exact inv3a_stopCall cfg s s'  hI h
  | stop  => exact inv3a_stop cfg s s'  hI h
  | stopVisit i => exact inv3a_stopVisit cfg s s' i hI h

end SSV.RelayLife
