import SSV.Proofs.RelayLifeDefs3
namespace SSV.RelayLife
variable (cfg : Cfg)

theorem inv3a_arrive (s s' : State) (c : Nat) (hI : Inv3a s) (h : step cfg s (.arrive c) = some s') : Inv3a s' := by
  obtain ⟨k1,u2,u3,g5,gp⟩ := hI
  simp only [step] at h
  (repeat' split at h) <;> close_case3

theorem inv3a_rLock (s s' : State)  (hI : Inv3a s) (h : step cfg s (.rLock ) = some s') : Inv3a s' := by
  obtain ⟨k1,u2,u3,g5,gp⟩ := hI
  simp only [step] at h
  (repeat' split at h) <;> close_case3

set_option maxHeartbeats 1600000 in
theorem inv3a_rProc (s s' : State) (ok : Bool) (hI : Inv3a s) (h : step cfg s (.rProc ok) = some s') : Inv3a s' := by
  obtain ⟨k1,u2,u3,g5,gp⟩ := hI
  simp only [step] at h
  (repeat' split at h) <;> close_case3

theorem inv3a_rMore (s s' : State) (c : Nat) (hI : Inv3a s) (h : step cfg s (.rMore c) = some s') : Inv3a s' := by
  obtain ⟨k1,u2,u3,g5,gp⟩ := hI
  simp only [step] at h
  (repeat' split at h) <;> close_case3

theorem inv3a_rUnlock (s s' : State)  (hI : Inv3a s) (h : step cfg s (.rUnlock ) = some s') : Inv3a s' := by
  obtain ⟨k1,u2,u3,g5,gp⟩ := hI
  simp only [step] at h
  (repeat' split at h) <;> close_case3

theorem inv3a_rExit (s s' : State)  (hI : Inv3a s) (h : step cfg s (.rExit ) = some s') : Inv3a s' := by
  obtain ⟨k1,u2,u3,g5,gp⟩ := hI
  simp only [step] at h
  (repeat' split at h) <;> close_case3

set_option maxHeartbeats 1600000 in
theorem inv3a_init (s s' : State) (i : Nat) (ok : Bool) (hI : Inv3a s) (h : step cfg s (.init i ok) = some s') : Inv3a s' := by
  obtain ⟨k1,u2,u3,g5,gp⟩ := hI
  simp only [step] at h
  (repeat' split at h) <;> close_case3

theorem inv3a_dTimeout (s s' : State) (i : Nat) (hI : Inv3a s) (h : step cfg s (.dTimeout i) = some s') : Inv3a s' := by
  obtain ⟨k1,u2,u3,g5,gp⟩ := hI
  simp only [step] at h
  (repeat' split at h) <;> close_case3

theorem inv3a_dPacket (s s' : State) (i : Nat) (hI : Inv3a s) (h : step cfg s (.dPacket i) = some s') : Inv3a s' := by
  obtain ⟨k1,u2,u3,g5,gp⟩ := hI
  simp only [step] at h
  (repeat' split at h) <;> close_case3

theorem inv3a_dSend (s s' : State) (i : Nat) (hI : Inv3a s) (h : step cfg s (.dSend i) = some s') : Inv3a s' := by
  obtain ⟨k1,u2,u3,g5,gp⟩ := hI
  simp only [step] at h
  (repeat' split at h) <;> close_case3

theorem inv3a_uFail (s s' : State) (i : Nat) (hI : Inv3a s) (h : step cfg s (.uFail i) = some s') : Inv3a s' := by
  obtain ⟨k1,u2,u3,g5,gp⟩ := hI
  simp only [step] at h
  (repeat' split at h) <;> close_case3

set_option maxHeartbeats 1600000 in
theorem inv3a_cleanup (s s' : State) (i : Nat) (hI : Inv3a s) (h : step cfg s (.cleanup i) = some s') : Inv3a s' := by
  obtain ⟨k1,u2,u3,g5,gp⟩ := hI
  simp only [step] at h
  (repeat' split at h) <;> close_case3

theorem inv3a_uRecv (s s' : State) (i : Nat) (k : Nat) (hI : Inv3a s) (h : step cfg s (.uRecv i k) = some s') : Inv3a s' := by
  obtain ⟨k1,u2,u3,g5,gp⟩ := hI
  simp only [step] at h
  (repeat' split at h) <;> close_case3

set_option maxHeartbeats 1600000 in
theorem inv3a_uStep (s s' : State) (i : Nat) (hI : Inv3a s) (h : step cfg s (.uStep i) = some s') : Inv3a s' := by
  obtain ⟨k1,u2,u3,g5,gp⟩ := hI
  simp only [step] at h
  (repeat' split at h) <;> close_case3

theorem inv3a_timer (s s' : State) (i : Nat) (hI : Inv3a s) (h : step cfg s (.timer i) = some s') : Inv3a s' := by
  obtain ⟨k1,u2,u3,g5,gp⟩ := hI
  simp only [step] at h
  (repeat' split at h) <;> close_case3

theorem inv3a_stopCall (s s' : State)  (hI : Inv3a s) (h : step cfg s (.stopCall ) = some s') : Inv3a s' := by
  obtain ⟨k1,u2,u3,g5,gp⟩ := hI
  simp only [step] at h
  (repeat' split at h) <;> close_case3

set_option maxHeartbeats 1600000 in
theorem inv3a_stop (s s' : State)  (hI : Inv3a s) (h : step cfg s (.stop ) = some s') : Inv3a s' := by
  obtain ⟨k1,u2,u3,g5,gp⟩ := hI
  simp only [step] at h
  (repeat' split at h) <;> close_case3

set_option maxHeartbeats 1600000 in
theorem inv3a_stopVisit (s s' : State) (i : Nat) (hI : Inv3a s) (h : step cfg s (.stopVisit i) = some s') : Inv3a s' := by
  obtain ⟨k1,u2,u3,g5,gp⟩ := hI
  simp only [step] at h
  (repeat' split at h) <;> close_case3

theorem inv3a_step (s s' : State) (e : Ev) (hI : Inv3a s) (h : step cfg s e = some s') : Inv3a s' := by
  cases e with
  | arrive c => exact inv3a_arrive cfg s s' c hI h
  | rLock  => exact inv3a_rLock cfg s s'  hI h
  | rProc ok => exact inv3a_rProc cfg s s' ok hI h
  | rMore c => exact inv3a_rMore cfg s s' c hI h
  | rUnlock  => exact inv3a_rUnlock cfg s s'  hI h
  | rExit  => exact inv3a_rExit cfg s s'  hI h
  | init i ok => exact inv3a_init cfg s s' i ok hI h
  | dTimeout i => exact inv3a_dTimeout cfg s s' i hI h
  | dPacket i => exact inv3a_dPacket cfg s s' i hI h
  | dSend i => exact inv3a_dSend cfg s s' i hI h
  | uFail i => exact inv3a_uFail cfg s s' i hI h
  | cleanup i => exact inv3a_cleanup cfg s s' i hI h
  | uRecv i k => exact inv3a_uRecv cfg s s' i k hI h
  | uStep i => exact inv3a_uStep cfg s s' i hI h
  | timer i => exact inv3a_timer cfg s s' i hI h
  | stopCall  => exact inv3a_stopCall cfg s s'  hI h
  | stop  => exact inv3a_stop cfg s s'  hI h
  | stopVisit i => exact inv3a_stopVisit cfg s s' i hI h

end SSV.RelayLife
