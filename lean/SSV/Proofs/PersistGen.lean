import SSV.Proofs.Persist
/-
C20 helper lemmas, general start state: the save program run from ANY file system in which the store path
names a file holding the old document (other inodes, stale temporary files, any counter), and histories
of saves.
-/
namespace SSV.Persist

theorem upd_append_length (L : List Inode) (x : Inode) (f : Inode → Inode) :
    upd (L ++ [x]) L.length f = L ++ [f x] := by
  induction L with
  | nil => rfl
  | cons y ys ih => simp [upd, ih]

/-- power-loss quiescent: the store path names a synced file holding `o`, and that directory entry is on
stable storage (nothing older can come back) -/
def Quiescent (fs : FS) (o : Bytes) : Prop :=
  ∃ t, fs.target = some t ∧ fs.thist = [some t] ∧ fs.inodes[t]? = some ⟨o, true⟩

/-- kill quiescent: the store path names a file whose page-cache content is `o` -/
def KQ (fs : FS) (o : Bytes) : Prop := afterKill fs = some o

theorem kq_elim {fs : FS} {o : Bytes} (h : KQ fs o) :
    ∃ t c, fs.target = some t ∧ fs.inodes[t]? = some ⟨o, c⟩ := by
  unfold KQ afterKill at h
  cases ht : fs.target with
  | none => simp [ht] at h
  | some t =>
    simp only [ht, Option.bind_some] at h
    cases hi : fs.inodes[t]? with
    | none => simp [hi] at h
    | some ino =>
      simp [hi] at h
      exact ⟨t, ino.clean, rfl, by rw [← h, hi]⟩

theorem quiescent_init (o : Bytes) : Quiescent (initFS o) o := ⟨0, rfl, rfl, rfl⟩

theorem kq_of_quiescent {fs : FS} {o : Bytes} (h : Quiescent fs o) : KQ fs o := by
  obtain ⟨t, h1, _, h3⟩ := h; simp [KQ, afterKill, h1, h3]

theorem lt_of_getElem?_some {L : List Inode} {t : Nat} {x : Inode} (h : L[t]? = some x) : t < L.length := by
  rcases Nat.lt_or_ge t L.length with h' | h'
  · exact h'
  · simp [List.getElem?_eq_none h'] at h

theorem safe_old_gen {o n : Bytes} {fs : FS} {t : Nat} (h1 : fs.thist = [some t])
    (h2 : fs.inodes[t]? = some ⟨o, true⟩) : Safe o n fs := by
  intro c hc
  obtain ⟨b, hb, hm⟩ := hc
  rw [h1] at hb
  simp at hb
  subst hb
  simp only [h2] at hm
  obtain ⟨ino, hi, d, hd, hcl⟩ := hm
  simp at hi
  subst hi
  left
  rw [hd, hcl rfl]

theorem safe_new_gen {o n : Bytes} {fs : FS} {t l : Nat} (h1 : fs.thist = [some l, some t])
    (h2 : fs.inodes[t]? = some ⟨o, true⟩) (h3 : fs.inodes[l]? = some ⟨n, true⟩) : Safe o n fs := by
  intro c hc
  obtain ⟨b, hb, hm⟩ := hc
  rw [h1] at hb
  simp at hb
  rcases hb with hb | hb
  · subst hb
    simp only [h3] at hm
    obtain ⟨ino, hi, d, hd, hcl⟩ := hm
    simp at hi
    subst hi
    right
    rw [hd, hcl rfl]
  · subst hb
    simp only [h2] at hm
    obtain ⟨ino, hi, d, hd, hcl⟩ := hm
    simp at hi
    subst hi
    left
    rw [hd, hcl rfl]

macro "close_safe_gen" h3:ident ht:ident : tactic =>
  `(tactic| first
    | exact safe_old_gen rfl $h3
    | exact safe_old_gen rfl (by simpa [List.getElem?_append_left $ht] using $h3)
    | exact safe_new_gen rfl (by simpa [List.getElem?_append_left $ht] using $h3) (by simp))

/-- temp-file program from any quiescent state, any single failing call: every instant is safe under power loss -/
theorem trace_tempRename_safe_gen (fs0 : FS) (o n : Bytes) (hq : Quiescent fs0 o) (fault : Fault) :
    ∀ fs ∈ trace n fault progTempRename 0 (startRun fs0), Safe o n fs := by
  obtain ⟨t, h1, h2, h3⟩ := hq
  obtain ⟨L, tg, th, tm, nx⟩ := fs0
  simp only at h1 h2 h3
  subst h1 h2
  have ht : t < L.length := lt_of_getElem?_some h3
  intro fs hmem
  match fault with
  | none =>
    simp [trace, progTempRename, enabled, faultAt, execOp, execOk, interm, writeBytes, upd_append_length, startRun] at hmem
    rcases hmem with rfl | rfl | ⟨a, _, rfl⟩ | rfl | rfl | rfl <;> close_safe_gen h3 ht
  | some (j, k) =>
    match j with
    | 0 | 1 | 2 | 3 | 4 | 5 | 6 | 7 | 8 | 9 =>
      simp [trace, progTempRename, enabled, faultAt, execOp, execOk, execFail, interm, writeBytes, upd_append_length, startRun] at hmem
      rcases hmem with rfl | rfl | ⟨a, _, rfl⟩ | rfl | rfl | rfl | rfl <;> close_safe_gen h3 ht
    | j + 10 =>
      simp [trace, progTempRename, enabled, faultAt, execOp, execOk, interm, writeBytes, upd_append_length, startRun] at hmem
      rcases hmem with rfl | rfl | ⟨a, _, rfl⟩ | rfl | rfl | rfl <;> close_safe_gen h3 ht

macro "close_kill" h3:ident ht:ident : tactic =>
  `(tactic| first
    | (left; simp [afterKill, $h3:ident]; done)
    | (left; simp [afterKill, List.getElem?_append_left $ht, $h3:ident]; done)
    | (right; simp [afterKill]; done))

/-- temp-file program from any state whose store path shows `o`: under a process kill at any instant (and
with any single failing call) the store path shows `o` or `n` -/
theorem kill_tempRename_gen (fs0 : FS) (o n : Bytes) (hq : KQ fs0 o) (fault : Fault) :
    ∀ fs ∈ trace n fault progTempRename 0 (startRun fs0), afterKill fs = some o ∨ afterKill fs = some n := by
  obtain ⟨t, c, h1, h3⟩ := kq_elim hq
  obtain ⟨L, tg, th, tm, nx⟩ := fs0
  simp only at h1 h3
  subst h1
  have ht : t < L.length := lt_of_getElem?_some h3
  intro fs hmem
  match fault with
  | none =>
    simp [trace, progTempRename, enabled, faultAt, execOp, execOk, interm, writeBytes, upd_append_length, startRun] at hmem
    rcases hmem with rfl | rfl | ⟨a, _, rfl⟩ | rfl | rfl | rfl <;> close_kill h3 ht
  | some (j, k) =>
    match j with
    | 0 | 1 | 2 | 3 | 4 | 5 | 6 | 7 | 8 | 9 =>
      simp [trace, progTempRename, enabled, faultAt, execOp, execOk, execFail, interm, writeBytes, upd_append_length, startRun] at hmem
      rcases hmem with rfl | rfl | ⟨a, _, rfl⟩ | rfl | rfl | rfl | rfl <;> close_kill h3 ht
    | j + 10 =>
      simp [trace, progTempRename, enabled, faultAt, execOp, execOk, interm, writeBytes, upd_append_length, startRun] at hmem
      rcases hmem with rfl | rfl | ⟨a, _, rfl⟩ | rfl | rfl | rfl <;> close_kill h3 ht

/-- the end of a run re-establishes the kill-quiescent state: with the new document iff the save
reported success, else with the old one -/
theorem final_tempRename_gen (fs0 : FS) (o n : Bytes) (hq : KQ fs0 o) (fault : Fault) :
    let r := finalRun n fault none progTempRename 0 (startRun fs0)
    (r.err = false → KQ r.fs n) ∧ (r.err = true → KQ r.fs o) := by
  obtain ⟨t, c, h1, h3⟩ := kq_elim hq
  obtain ⟨L, tg, th, tm, nx⟩ := fs0
  simp only at h1 h3
  subst h1
  have ht : t < L.length := lt_of_getElem?_some h3
  match fault with
  | none =>
    simp [finalRun, progTempRename, enabled, faultAt, execOp, execOk, writeBytes, upd_append_length, startRun, KQ, afterKill]
  | some (j, k) =>
    match j with
    | 0 | 1 | 2 | 3 | 4 | 5 | 6 | 7 | 8 | 9 =>
      simp [finalRun, progTempRename, enabled, faultAt, execOp, execOk, execFail, writeBytes, upd_append_length, startRun, KQ,
        afterKill, List.getElem?_append_left ht, h3]
    | j + 10 =>
      simp [finalRun, progTempRename, enabled, faultAt, execOp, execOk, writeBytes, upd_append_length, startRun, KQ, afterKill]

/-! ### histories of saves -/

/-- a history: each save has its document and possibly one failing call; every run goes to its end -/
def runSaves (prog : List Stmt) : FS → List (Bytes × Fault) → FS
  | fs, [] => fs
  | fs, (d, f) :: rest => runSaves prog (finalRun d f none prog 0 (startRun fs)).fs rest

/-- the document of the last save of the history that reported success (`d0` if none did) -/
def lastSaved (prog : List Stmt) : FS → Bytes → List (Bytes × Fault) → Bytes
  | _, d, [] => d
  | fs, d, (n, f) :: rest =>
    let r := finalRun n f none prog 0 (startRun fs)
    lastSaved prog r.fs (if r.err then d else n) rest

theorem history_kq (fs0 : FS) (d0 : Bytes) (hist : List (Bytes × Fault)) (h : KQ fs0 d0) :
    KQ (runSaves progTempRename fs0 hist) (lastSaved progTempRename fs0 d0 hist) := by
  induction hist generalizing fs0 d0 with
  | nil => exact h
  | cons p rest ih =>
    obtain ⟨n, f⟩ := p
    simp only [runSaves, lastSaved]
    have hf := final_tempRename_gen fs0 d0 n h f
    apply ih
    cases he : (finalRun n f none progTempRename 0 (startRun fs0)).err with
    | false => simpa using hf.1 he
    | true => simpa using hf.2 he

theorem lastSaved_mem (prog : List Stmt) (fs0 : FS) (d0 : Bytes) (hist : List (Bytes × Fault)) :
    lastSaved prog fs0 d0 hist = d0 ∨ lastSaved prog fs0 d0 hist ∈ hist.map (·.1) := by
  induction hist generalizing fs0 d0 with
  | nil => exact Or.inl rfl
  | cons p rest ih =>
    obtain ⟨n, f⟩ := p
    simp only [lastSaved, List.map_cons, List.mem_cons]
    rcases ih (finalRun n f none prog 0 (startRun fs0)).fs
        (if (finalRun n f none prog 0 (startRun fs0)).err = true then d0 else n) with h | h
    · rw [h]
      split
      · exact Or.inl rfl
      · exact Or.inr (Or.inl rfl)
    · exact Or.inr (Or.inr h)

end SSV.Persist
