import SSV.Proofs.Persist
/-
C20 helper lemmas, general start state: the save program run from ANY file system in which the store path
names a file holding the old document (other inodes, stale temporary files, any counter), and histories
of saves.
-/
namespace SSV.Persist

theorem upd_append_length (L : List Inode) (x : Inode) (f : Inode → Inode) :
    upd (L ++ [x]) L.length f = L ++ [f x] := by
  induction L with
  | nil => rfl
  | cons y ys ih => simp [upd, ih]

/-- power-loss quiescent: the store path names a synced file holding `o`, and that directory entry is on
stable storage (nothing older can come back) -/
def Quiescent (fs : FS) (o : Bytes) : Prop :=
  ∃ t, fs.target = some t ∧ fs.thist = [some t] ∧ fs.inodes[t]? = some ⟨o, true⟩

/-- kill quiescent: the store path names a file whose page-cache content is `o` -/
def KQ (fs : FS) (o : Bytes) : Prop := afterKill fs = some o

theorem kq_elim {fs : FS} {o : Bytes} (h : KQ fs o) :
    ∃ t c, fs.target = some t ∧ fs.inodes[t]? = some ⟨o, c⟩ := by
  unfold KQ afterKill at h
  cases ht : fs.target with
  | none => simp [ht] at h
  | some t =>
    simp only [ht, Option.bind_some] at h
    cases hi : fs.inodes[t]? with
    | none => simp [hi] at h
    | some ino =>
      simp [hi] at h
      exact ⟨t, ino.clean, rfl, by rw [← h, hi]⟩

theorem quiescent_init (o : Bytes) : Quiescent (initFS o) o := ⟨0, rfl, rfl, rfl⟩

theorem kq_of_quiescent {fs : FS} {o : Bytes} (h : Quiescent fs o) : KQ fs o := by
  obtain ⟨t, h1, _, h3⟩ := h; simp [KQ, afterKill, h1, h3]

theorem lt_of_getElem?_some {L : List Inode} {t : Nat} {x : Inode} (h : L[t]? = some x) : t < L.length := by
  rcases Nat.lt_or_ge t L.length with h' | h'
  · exact h'
  · simp [List.getElem?_eq_none h'] at h

theorem safe_old_gen {o n : Bytes} {fs : FS} {t : Nat} (h1 : fs.thist = [some t])
    (h2 : fs.inodes[t]? = some ⟨o, true⟩) : Safe o n fs := by
  intro c hc
  obtain ⟨b, hb, hm⟩ := hc
  rw [h1] at hb
  simp at hb
  subst hb
  simp only [h2] at hm
  obtain ⟨ino, hi, d, hd, hcl⟩ := hm
  simp at hi
  subst hi
  left
  rw [hd, hcl rfl]

theorem safe_new_gen {o n : Bytes} {fs : FS} {t l : Nat} (h1 : fs.thist = [some l, some t])
    (h2 : fs.inodes[t]? = some ⟨o, true⟩) (h3 : fs.inodes[l]? = some ⟨n, true⟩) : Safe o n fs := by
  intro c hc
  obtain ⟨b, hb, hm⟩ := hc
  rw [h1] at hb
  simp at hb
  rcases hb with hb | hb
  · subst hb
    simp only [h3] at hm
    obtain ⟨ino, hi, d, hd, hcl⟩ := hm
    simp at hi
    subst hi
    right
    rw [hd, hcl rfl]
  · subst hb
    simp only [h2] at hm
    obtain ⟨ino, hi, d, hd, hcl⟩ := hm
    simp at hi
    subst hi
    left
    rw [hd, hcl rfl]

macro "close_safe_gen" h3:ident ht:ident : tactic =>
  `(tactic| first
    | exact safe_old_gen rfl $h3
    | exact safe_old_gen rfl (by simpa [List.getElem?_append_left $ht] using $h3)
    | exact safe_new_gen rfl (by simpa [List.getElem?_append_left $ht] using $h3) (by simp))

/-- temp-file program from any quiescent state, any single failing call: every instant is safe under power loss -/
theorem trace_tempRename_safe_gen (fs0 : FS) (o n : Bytes) (hq : Quiescent fs0 o) (fault : Fault) :
    ∀ fs ∈ trace n fault progTempRename 0 (startRun fs0), Safe o n fs := by
  obtain ⟨t, h1, h2, h3⟩ := hq
  obtain ⟨L, tg, th, tm, lk, ds⟩ := fs0
  simp only at h1 h2 h3
  subst h1 h2
  have ht : t < L.length := lt_of_getElem?_some h3
  intro fs hmem
  match fault with
  | none =>
    simp [trace, progTempRename, enabled, faultAt, execOp, execOk, interm, writeBytes, upd_append_length, startRun] at hmem
    rcases hmem with rfl | rfl | ⟨a, _, rfl⟩ | rfl | rfl | rfl <;> close_safe_gen h3 ht
  | some (j, k) =>
    match j with
    | 0 | 1 | 2 | 3 | 4 | 5 | 6 | 7 | 8 | 9 =>
      simp [trace, progTempRename, enabled, faultAt, execOp, execOk, execFail, interm, writeBytes, upd_append_length, startRun] at hmem
      rcases hmem with rfl | rfl | ⟨a, _, rfl⟩ | rfl | rfl | rfl | rfl <;> close_safe_gen h3 ht
    | j + 10 =>
      simp [trace, progTempRename, enabled, faultAt, execOp, execOk, interm, writeBytes, upd_append_length, startRun] at hmem
      rcases hmem with rfl | rfl | ⟨a, _, rfl⟩ | rfl | rfl | rfl <;> close_safe_gen h3 ht

macro "close_kill" h3:ident ht:ident : tactic =>
  `(tactic| first
    | (left; simp [afterKill, $h3:ident]; done)
    | (left; simp [afterKill, List.getElem?_append_left $ht, $h3:ident]; done)
    | (right; simp [afterKill]; done))

/-- temp-file program from any state whose store path shows `o`: under a process kill at any instant (and
with any single failing call) the store path shows `o` or `n` -/
theorem kill_tempRename_gen (fs0 : FS) (o n : Bytes) (hq : KQ fs0 o) (fault : Fault) :
    ∀ fs ∈ trace n fault progTempRename 0 (startRun fs0), afterKill fs = some o ∨ afterKill fs = some n := by
  obtain ⟨t, c, h1, h3⟩ := kq_elim hq
  obtain ⟨L, tg, th, tm, lk, ds⟩ := fs0
  simp only at h1 h3
  subst h1
  have ht : t < L.length := lt_of_getElem?_some h3
  intro fs hmem
  match fault with
  | none =>
    simp [trace, progTempRename, enabled, faultAt, execOp, execOk, interm, writeBytes, upd_append_length, startRun] at hmem
    rcases hmem with rfl | rfl | ⟨a, _, rfl⟩ | rfl | rfl | rfl <;> close_kill h3 ht
  | some (j, k) =>
    match j with
    | 0 | 1 | 2 | 3 | 4 | 5 | 6 | 7 | 8 | 9 =>
      simp [trace, progTempRename, enabled, faultAt, execOp, execOk, execFail, interm, writeBytes, upd_append_length, startRun] at hmem
      rcases hmem with rfl | rfl | ⟨a, _, rfl⟩ | rfl | rfl | rfl | rfl <;> close_kill h3 ht
    | j + 10 =>
      simp [trace, progTempRename, enabled, faultAt, execOp, execOk, interm, writeBytes, upd_append_length, startRun] at hmem
      rcases hmem with rfl | rfl | ⟨a, _, rfl⟩ | rfl | rfl | rfl <;> close_kill h3 ht

/-- the end of a run re-establishes the kill-quiescent state: with the new document iff the save
reported success, else with the old one -/
theorem final_tempRename_gen (fs0 : FS) (o n : Bytes) (hq : KQ fs0 o) (fault : Fault) :
    let r := finalRun n fault none progTempRename 0 (startRun fs0)
    (r.err = false → KQ r.fs n) ∧ (r.err = true → KQ r.fs o) := by
  obtain ⟨t, c, h1, h3⟩ := kq_elim hq
  obtain ⟨L, tg, th, tm, lk, ds⟩ := fs0
  simp only at h1 h3
  subst h1
  have ht : t < L.length := lt_of_getElem?_some h3
  match fault with
  | none =>
    simp [finalRun, progTempRename, enabled, faultAt, execOp, execOk, writeBytes, upd_append_length, startRun, KQ, afterKill]
  | some (j, k) =>
    match j with
    | 0 | 1 | 2 | 3 | 4 | 5 | 6 | 7 | 8 | 9 =>
      simp [finalRun, progTempRename, enabled, faultAt, execOp, execOk, execFail, writeBytes, upd_append_length, startRun, KQ,
        afterKill, List.getElem?_append_left ht, h3]
    | j + 10 =>
      simp [finalRun, progTempRename, enabled, faultAt, execOp, execOk, writeBytes, upd_append_length, startRun, KQ, afterKill]

/-! ### every state a run can stop in is a state of the trace -/

theorem head_mem_trace (doc : Bytes) (fault : Fault) (prog : List Stmt) (i : Nat) (r : Run) :
    r.fs ∈ trace doc fault prog i r := by
  induction prog generalizing i r with
  | nil => simp [trace]
  | cons s rest ih =>
    cases s with
    | retIfErr =>
      simp only [trace]
      split
      · simp
      · exact ih _ _
    | op g rec o =>
      simp only [trace]
      split
      · simp
      · exact ih _ _

/-- wherever a run ends — at its end, or killed right after statement `stop` — its file system is one of
the instants of `trace` -/
theorem finalRun_fs_mem_trace (doc : Bytes) (fault : Fault) (stop : Option Nat) (prog : List Stmt) (i : Nat) (r : Run) :
    (finalRun doc fault stop prog i r).fs ∈ trace doc fault prog i r := by
  induction prog generalizing i r with
  | nil => simp [trace, finalRun]
  | cons s rest ih =>
    cases s with
    | retIfErr =>
      simp only [trace, finalRun]
      split
      · simp
      · exact ih _ _
    | op g rec o =>
      simp only [trace, finalRun]
      split
      · split
        · apply List.mem_cons_of_mem
          apply List.mem_append_right
          exact head_mem_trace _ _ _ _ _
        · apply List.mem_cons_of_mem
          apply List.mem_append_right
          exact ih _ _
      · exact ih _ _

/-- after a run of the temp-file program that ended anywhere (end, error path, kill after any statement,
one failing call) the store path shows the old or the new document -/
theorem kq_after_run (fs0 : FS) (o n : Bytes) (hq : KQ fs0 o) (fault : Fault) (stop : Option Nat) :
    KQ (finalRun n fault stop progTempRename 0 (startRun fs0)).fs o ∨
    KQ (finalRun n fault stop progTempRename 0 (startRun fs0)).fs n :=
  kill_tempRename_gen fs0 o n hq fault _ (finalRun_fs_mem_trace n fault stop progTempRename 0 (startRun fs0))

/-- **no left-over can block a save**: from any directory (stale temporary files under any names, the fixed
name `<store>.tmp` included, symlinked store or not) a save without a failing call reports success and the
store path shows the new document -/
theorem save_completes_gen (fs0 : FS) (o n : Bytes) (hq : KQ fs0 o) :
    (finalRun n none none progTempRename 0 (startRun fs0)).err = false ∧
    KQ (finalRun n none none progTempRename 0 (startRun fs0)).fs n := by
  obtain ⟨t, c, h1, h3⟩ := kq_elim hq
  obtain ⟨L, tg, th, tm, lk, ds⟩ := fs0
  simp only at h1 h3
  subst h1
  simp [finalRun, progTempRename, enabled, faultAt, execOp, execOk, writeBytes, upd_append_length, startRun, KQ, afterKill]

/-- what the temp-file program does to a **symlinked** store: the link is replaced by a regular file with
the new document; the file the link pointed to keeps its inode and the OLD document -/
theorem symlink_replaced (fs0 : FS) (o n : Bytes) (t : Nat) (c : Bool) (hl : fs0.isLink = true) (hd : fs0.dest = some t)
    (ht : fs0.target = some t) (hi : fs0.inodes[t]? = some ⟨o, c⟩) :
    let r := finalRun n none none progTempRename 0 (startRun fs0)
    r.err = false ∧ r.fs.isLink = false ∧ afterKill r.fs = some n ∧
    r.fs.dest = some t ∧ r.fs.inodes[t]? = some ⟨o, c⟩ := by
  obtain ⟨L, tg, th, tm, lk, ds⟩ := fs0
  simp only at hl hd ht hi
  subst hl hd ht
  have hlt : t < L.length := lt_of_getElem?_some hi
  simp [finalRun, progTempRename, enabled, faultAt, execOp, execOk, writeBytes, upd_append_length, startRun, afterKill,
    List.getElem?_append_left hlt, hi]

/-! ### the fixed-name variant (`<store>.tmp`, O_EXCL) -/

/-- one save killed inside its write leaves `<store>.tmp` behind; the next save — no fault at all — fails
at the create (EEXIST) and the store keeps the old document -/
theorem exclTmp_stuck_after_crash (o n n2 : Bytes) (k : Nat) :
    let fs1 := (finalRun n (some (3, k)) (some 3) progExclTmp 0 (startRun (initFS o))).fs
    let r2 := finalRun n2 none none progExclTmp 0 (startRun fs1)
    afterKill fs1 = some o ∧ r2.err = true ∧ afterKill r2.fs = some o := by
  simp [finalRun, progExclTmp, enabled, faultAt, execOp, execOk, execFail, writeBytes, upd, startRun, initFS, afterKill,
    List.lookup]

/-! ### histories of saves across restarts -/

/-- one save of a history: its document, possibly one failing call, possibly a kill right after a statement
(then the process restarts on whatever is left: `startRun` forgets descriptors and names) -/
structure SaveEv where
  doc : Bytes
  fault : Fault
  stop : Option Nat

def runSaves (prog : List Stmt) : FS → List SaveEv → FS
  | fs, [] => fs
  | fs, e :: rest => runSaves prog (finalRun e.doc e.fault e.stop prog 0 (startRun fs)).fs rest

/-- after any history the store path shows the start document or the document of one of the saves -/
theorem history_kq (fs0 : FS) (d0 : Bytes) (hist : List SaveEv) (h : KQ fs0 d0) :
    ∃ d, (d = d0 ∨ d ∈ hist.map (·.doc)) ∧ KQ (runSaves progTempRename fs0 hist) d := by
  induction hist generalizing fs0 d0 with
  | nil => exact ⟨d0, Or.inl rfl, h⟩
  | cons e rest ih =>
    simp only [runSaves]
    rcases kq_after_run fs0 d0 e.doc h e.fault e.stop with h1 | h1
    · obtain ⟨d, hd, hk⟩ := ih _ d0 h1
      refine ⟨d, ?_, hk⟩
      rcases hd with hd | hd
      · exact Or.inl hd
      · exact Or.inr (by simp [hd])
    · obtain ⟨d, hd, hk⟩ := ih _ e.doc h1
      refine ⟨d, ?_, hk⟩
      rcases hd with hd | hd
      · exact Or.inr (by simp [hd])
      · exact Or.inr (by simp [hd])

end SSV.Persist
