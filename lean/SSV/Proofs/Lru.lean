import SSV.Model.Lru
/-
Representation invariant of the pointer-level LRU model and the lemmas that every operation
preserves it and acts on the represented list like the specification.
-/
namespace SSV.Lru
variable {K V : Type}

/-- a represented entry: node id, key, value -/
abbrev Tr (K V : Type) := Nat × K × V

def nextOf (rest : List (Tr K V)) (nx : Option Nat) : Option Nat :=
  match rest with
  | [] => nx
  | u :: _ => some u.1

def lastOf (l : List (Tr K V)) (p : Option Nat) : Option Nat :=
  match l.getLast? with
  | some t => some t.1
  | none => p

/-- `l` is laid out in the heap as a doubly linked segment entered with `prev = p` and left with `next = nx` -/
def SegT (h : Heap K V) : Option Nat → List (Tr K V) → Option Nat → Prop
  | _, [], _ => True
  | p, t :: rest, nx =>
    h t.1 = some { prev := p, next := nextOf rest nx, key := t.2.1, val := t.2.2 } ∧ SegT h (some t.1) rest nx

theorem lastOf_nil (p : Option Nat) : lastOf ([] : List (Tr K V)) p = p := rfl

theorem lastOf_cons (t : Tr K V) (l : List (Tr K V)) (p : Option Nat) :
    lastOf (t :: l) p = lastOf l (some t.1) := by
  cases l with
  | nil => simp [lastOf]
  | cons u r =>
    simp only [lastOf, List.getLast?_cons_cons]
    cases h : (u :: r).getLast? with
    | none => simp at h
    | some x => rfl

theorem lastOf_append_singleton (l : List (Tr K V)) (t : Tr K V) (p : Option Nat) :
    lastOf (l ++ [t]) p = some t.1 := by
  simp [lastOf]

theorem nextOf_append (A B : List (Tr K V)) (nx : Option Nat) :
    nextOf (A ++ B) nx = nextOf A (nextOf B nx) := by
  cases A <;> simp [nextOf]

theorem segT_append (h : Heap K V) (A B : List (Tr K V)) (p nx : Option Nat) :
    SegT h p (A ++ B) nx ↔ SegT h p A (nextOf B nx) ∧ SegT h (lastOf A p) B nx := by
  induction A generalizing p with
  | nil => simp [SegT, lastOf_nil]
  | cons t rest ih =>
    simp only [List.cons_append, SegT, ih, lastOf_cons, nextOf_append]
    constructor
    · rintro ⟨h1, h2, h3⟩; exact ⟨⟨h1, h2⟩, h3⟩
    · rintro ⟨⟨h1, h2⟩, h3⟩; exact ⟨h1, h2, h3⟩

theorem segT_frame (h : Heap K V) (i : Nat) (n : Node K V) (l : List (Tr K V)) (p nx : Option Nat)
    (hi : ∀ t ∈ l, t.1 ≠ i) : SegT (upd h i n) p l nx ↔ SegT h p l nx := by
  induction l generalizing p with
  | nil => simp [SegT]
  | cons t rest ih =>
    have h1 : t.1 ≠ i := hi t (by simp)
    have h2 : ∀ u ∈ rest, u.1 ≠ i := fun u hu => hi u (by simp [hu])
    simp [SegT, ih _ h2, upd, h1]


/-- overwrite the `next` field of the last node of a segment -/
theorem segT_patch_next (h : Heap K V) (A : List (Tr K V)) (a : Tr K V) (p x y : Option Nat)
    (hs : SegT h p (A ++ [a]) x) (nd : ((A ++ [a]).map (·.1)).Nodup) :
    h a.1 = some { prev := lastOf A p, next := x, key := a.2.1, val := a.2.2 } ∧
    SegT (upd h a.1 { prev := lastOf A p, next := y, key := a.2.1, val := a.2.2 }) p (A ++ [a]) y := by
  rw [segT_append] at hs
  obtain ⟨hA, ha⟩ := hs
  simp only [SegT, nextOf, and_true] at ha
  refine ⟨ha, ?_⟩
  rw [segT_append]
  have hne : ∀ t ∈ A, t.1 ≠ a.1 := by
    intro t ht heq
    rw [List.map_append, List.nodup_append] at nd
    exact nd.2.2 t.1 (List.mem_map_of_mem ht) a.1 (by simp) heq
  refine ⟨?_, ?_⟩
  · rw [segT_frame _ _ _ _ _ _ hne]
    simpa [nextOf] using hA
  · simp [SegT, nextOf, upd]

/-- overwrite the `prev` field of the first node of a segment -/
theorem segT_patch_prev (h : Heap K V) (b : Tr K V) (B : List (Tr K V)) (p q nx : Option Nat)
    (hs : SegT h p (b :: B) nx) (nd : ((b :: B).map (·.1)).Nodup) :
    h b.1 = some { prev := p, next := nextOf B nx, key := b.2.1, val := b.2.2 } ∧
    SegT (upd h b.1 { prev := q, next := nextOf B nx, key := b.2.1, val := b.2.2 }) q (b :: B) nx := by
  obtain ⟨hb, hB⟩ := hs
  refine ⟨hb, ?_⟩
  have hne : ∀ t ∈ B, t.1 ≠ b.1 := by
    intro t ht heq
    simp only [List.map_cons, List.nodup_cons, List.mem_map] at nd
    exact nd.1 ⟨t, ht, heq⟩
  refine ⟨by simp [upd], ?_⟩
  rw [segT_frame _ _ _ _ _ _ hne]
  exact hB

variable [DecidableEq K]

/-- the pointer structure represents the recency-ordered list `L` (head = least recently used) -/
structure Rep (c : Cache K V) (L : List (Tr K V)) : Prop where
  ids : (L.map (·.1)).Nodup
  keys : (L.map (·.2.1)).Nodup
  seg : SegT c.heap none L none
  head : c.head = nextOf L none
  tail : c.tail = lastOf L none
  idx : c.idx.Perm (L.map (fun t => (t.2.1, t.1)))
  fresh : ∀ t ∈ L, t.1 < c.fresh

theorem filter_map_keys_ne (X : List (Tr K V)) (k : K) (hk : ∀ u ∈ X, u.2.1 ≠ k) :
    (X.map (fun t => (t.2.1, t.1))).filter (fun p => ¬ (p.1 = k)) = X.map (fun t => (t.2.1, t.1)) := by
  rw [List.filter_eq_self]
  intro p hp
  obtain ⟨u, hu, rfl⟩ := List.mem_map.mp hp
  simp [hk u hu]

omit [DecidableEq K] in
theorem keys_ne_of_nodup (A B : List (Tr K V)) (t : Tr K V)
    (nd : ((A ++ t :: B).map (·.2.1)).Nodup) : ∀ u ∈ A ++ B, u.2.1 ≠ t.2.1 := by
  intro u hu heq
  rw [List.map_append, List.map_cons, List.nodup_append] at nd
  obtain ⟨_, hB, hAB⟩ := nd
  rw [List.nodup_cons] at hB
  rcases List.mem_append.mp hu with h | h
  · exact hAB u.2.1 (List.mem_map_of_mem h) t.2.1 (by simp) heq
  · exact hB.1 (by rw [← heq]; exact List.mem_map_of_mem h)

theorem erase_perm (idx : List (K × Nat)) (A B : List (Tr K V)) (t : Tr K V)
    (hp : idx.Perm ((A ++ t :: B).map (fun t => (t.2.1, t.1))))
    (nd : ((A ++ t :: B).map (·.2.1)).Nodup) :
    (eraseIdx idx t.2.1).Perm ((A ++ B).map (fun t => (t.2.1, t.1))) := by
  have h1 := hp.filter (fun p => decide (¬ (p.1 = t.2.1)))
  have hne := keys_ne_of_nodup A B t nd
  have hA : ∀ u ∈ A, u.2.1 ≠ t.2.1 := fun u hu => hne u (List.mem_append_left _ hu)
  have hB : ∀ u ∈ B, u.2.1 ≠ t.2.1 := fun u hu => hne u (List.mem_append_right _ hu)
  have h2 : ((A ++ t :: B).map (fun t => (t.2.1, t.1))).filter (fun p => decide (¬ (p.1 = t.2.1)))
      = (A ++ B).map (fun t => (t.2.1, t.1)) := by
    rw [List.map_append, List.filter_append, List.map_cons, List.filter_cons]
    simp only [not_true_eq_false, decide_false, Bool.false_eq_true, if_false]
    rw [filter_map_keys_ne A _ hA, filter_map_keys_ne B _ hB, List.map_append]
  rw [h2] at h1
  exact h1

omit [DecidableEq K] in
theorem sub_nodup {α : Type} (f : Tr K V → α) (A B : List (Tr K V)) (t : Tr K V)
    (nd : ((A ++ t :: B).map f).Nodup) : ((A ++ B).map f).Nodup :=
  nd.sublist (((List.Sublist.refl A).append (List.sublist_cons_self t B)).map f)

omit [DecidableEq K] in
theorem ids_ne_of_nodup (A B : List (Tr K V)) (t : Tr K V)
    (nd : ((A ++ t :: B).map (·.1)).Nodup) : ∀ u ∈ A ++ B, u.1 ≠ t.1 := by
  intro u hu heq
  rw [List.map_append, List.map_cons, List.nodup_append] at nd
  obtain ⟨_, hB, hAB⟩ := nd
  rw [List.nodup_cons] at hB
  rcases List.mem_append.mp hu with h | h
  · exact hAB u.1 (List.mem_map_of_mem h) t.1 (by simp) heq
  · exact hB.1 (by rw [← heq]; exact List.mem_map_of_mem h)

omit [DecidableEq K] in
theorem lastOf_append (X Y : List (Tr K V)) (p : Option Nat) : lastOf (X ++ Y) p = lastOf Y (lastOf X p) := by
  induction X generalizing p with
  | nil => rfl
  | cons t r ih => simp [lastOf_cons, ih]

theorem remove_spec (c : Cache K V) (A B : List (Tr K V)) (t : Tr K V) (hr : Rep c (A ++ t :: B)) :
    ∃ c', remove c t.1 = some c' ∧ Rep c' (A ++ B) ∧ c'.cap = c.cap ∧ c'.fresh = c.fresh := by
  have hseg := hr.seg
  rw [segT_append] at hseg
  obtain ⟨hA, ht, hB⟩ := hseg
  have hids := sub_nodup (·.1) A B t hr.ids
  have hkeys := sub_nodup (·.2.1) A B t hr.keys
  have hidx := erase_perm c.idx A B t hr.idx hr.keys
  have hfresh : ∀ u ∈ A ++ B, u.1 < c.fresh := fun u hu => hr.fresh u (by
    rcases List.mem_append.mp hu with h | h
    · exact List.mem_append_left _ h
    · exact List.mem_append_right _ (List.mem_cons_of_mem _ h))
  have hne := ids_ne_of_nodup A B t hr.ids
  rcases List.eq_nil_or_concat A with rfl | ⟨A', a, rfl⟩
  · cases B with
    | nil =>
      simp only [lastOf_nil, nextOf] at ht
      simp only [remove, ht, Option.pure_def, Option.bind_eq_bind, Option.bind_some]
      exact ⟨_, rfl, ⟨hids, hkeys, trivial, rfl, rfl, hidx, hfresh⟩, rfl, rfl⟩
    | cons b B' =>
      simp only [lastOf_nil, nextOf] at ht
      have hbids : ((b :: B').map (·.1)).Nodup := by simpa using hids
      obtain ⟨hb, hB2⟩ := segT_patch_prev c.heap b B' (some t.1) none none hB hbids
      simp only [remove, ht, hb, Option.pure_def, Option.bind_eq_bind, Option.bind_some]
      exact ⟨_, rfl, ⟨hids, hkeys, hB2, rfl, by simpa [lastOf_cons] using hr.tail, hidx, hfresh⟩, rfl, rfl⟩
  · rw [List.concat_eq_append] at *
    have haids : ((A' ++ [a]).map (·.1)).Nodup := by
      have := hids; rw [List.map_append, List.nodup_append] at this; exact this.1
    cases B with
    | nil =>
      simp only [nextOf, lastOf_append_singleton] at ht hA
      obtain ⟨ha, hA2⟩ := segT_patch_next c.heap A' a none (some t.1) none hA haids
      simp only [remove, ht, ha, Option.pure_def, Option.bind_eq_bind, Option.bind_some]
      refine ⟨_, rfl, ⟨hids, hkeys, ?_, ?_, ?_, hidx, hfresh⟩, rfl, rfl⟩
      · simpa using hA2
      · have := hr.head; simp only [nextOf_append] at this ⊢; cases A' <;> simpa [nextOf] using this
      · simp [lastOf_append_singleton]
    | cons b B' =>
      simp only [nextOf, lastOf_append_singleton] at ht hA
      have hbids : ((b :: B').map (·.1)).Nodup := by
        have := hids; rw [List.map_append, List.nodup_append] at this; exact this.2.1
      have hab : a.1 ≠ b.1 := by
        have := hids; rw [List.map_append, List.nodup_append] at this
        exact this.2.2 a.1 (by simp) b.1 (by simp)
      obtain ⟨ha, hA2⟩ := segT_patch_next c.heap A' a none (some t.1) (some b.1) hA haids
      -- b's node is untouched by the first update
      have hB1 : SegT (upd c.heap a.1 { prev := lastOf A' none, next := some b.1, key := a.2.1, val := a.2.2 })
          (some t.1) (b :: B') none := by
        rw [segT_frame]; exact hB
        intro u hu heq
        have := hids; rw [List.map_append, List.nodup_append] at this
        exact this.2.2 a.1 (by simp) u.1 (List.mem_map_of_mem hu) heq.symm
      obtain ⟨hb, hB2⟩ := segT_patch_prev _ b B' (some t.1) (some a.1) none hB1 hbids
      simp only [remove, ht, ha, hb, Option.pure_def, Option.bind_eq_bind, Option.bind_some]
      refine ⟨_, rfl, ⟨hids, hkeys, ?_, ?_, ?_, hidx, hfresh⟩, rfl, rfl⟩
      · rw [segT_append]
        refine ⟨?_, by simpa [lastOf_append_singleton] using hB2⟩
        rw [segT_frame]; simpa [nextOf] using hA2
        intro u hu heq
        have := hids; rw [List.map_append, List.nodup_append] at this
        exact this.2.2 u.1 (List.mem_map_of_mem hu) b.1 (by simp) heq
      · have := hr.head; simp only [nextOf_append] at this ⊢; cases A' <;> simpa [nextOf] using this
      · have := hr.tail
        simpa [lastOf_append, lastOf_cons] using this

omit [DecidableEq K] in
/-- link a node that is already in the heap (with `prev` = the tail, `next` = nil) behind the tail -/
theorem segT_attach (h : Heap K V) (X : List (Tr K V)) (tl : Tr K V) (p : Option Nat) (i : Nat) (k : K) (v : V)
    (hs : SegT h p (X ++ [tl]) none) (nd : ((X ++ [tl]).map (·.1)).Nodup)
    (hi : ∀ u ∈ X ++ [tl], u.1 ≠ i)
    (hn : h i = some { prev := some tl.1, next := none, key := k, val := v }) :
    h tl.1 = some { prev := lastOf X p, next := none, key := tl.2.1, val := tl.2.2 } ∧
    SegT (upd h tl.1 { prev := lastOf X p, next := some i, key := tl.2.1, val := tl.2.2 }) p (X ++ [tl] ++ [(i, k, v)]) none := by
  obtain ⟨h1, h2⟩ := segT_patch_next h X tl p none (some i) hs nd
  refine ⟨h1, ?_⟩
  rw [segT_append]
  refine ⟨by simpa [nextOf] using h2, ?_⟩
  have : tl.1 ≠ i := hi tl (by simp)
  simp [SegT, nextOf, lastOf_append_singleton, upd, hn, Ne.symm this]

omit [DecidableEq K] in
theorem insert_tail (c : Cache K V) (L : List (Tr K V)) (k : K) (v : V) (hr : Rep c L)
    (hk : ∀ t ∈ L, t.2.1 ≠ k) :
    ∃ c', insertTail c k v = some c'
      ∧ Rep c' (L ++ [(c.fresh, k, v)]) ∧ c'.cap = c.cap := by
  have hfr : ∀ u ∈ L, u.1 ≠ c.fresh := fun u hu => Nat.ne_of_lt (hr.fresh u hu)
  have hids : ((L ++ [(c.fresh, k, v)]).map (·.1)).Nodup := by
    rw [List.map_append, List.nodup_append]
    refine ⟨hr.ids, by simp, ?_⟩
    intro a ha b hb
    simp only [List.map_cons, List.map_nil, List.mem_singleton] at hb
    obtain ⟨u, hu, rfl⟩ := List.mem_map.mp ha
    rw [hb]; exact hfr u hu
  have hkeys : ((L ++ [(c.fresh, k, v)]).map (·.2.1)).Nodup := by
    rw [List.map_append, List.nodup_append]
    refine ⟨hr.keys, by simp, ?_⟩
    intro a ha b hb
    simp only [List.map_cons, List.map_nil, List.mem_singleton] at hb
    obtain ⟨u, hu, rfl⟩ := List.mem_map.mp ha
    rw [hb]; exact hk u hu
  have hidx : ((k, c.fresh) :: c.idx).Perm ((L ++ [(c.fresh, k, v)]).map (fun t => (t.2.1, t.1))) := by
    rw [List.map_append]
    exact (List.Perm.cons _ hr.idx).trans (List.perm_append_singleton _ _).symm
  have hfresh : ∀ u ∈ L ++ [(c.fresh, k, v)], u.1 < c.fresh + 1 := by
    intro u hu
    rcases List.mem_append.mp hu with h | h
    · exact Nat.lt_succ_of_lt (hr.fresh u h)
    · simp only [List.mem_singleton] at h; subst h; exact Nat.lt_succ_self _
  have hseg1 : SegT (upd c.heap c.fresh { prev := c.tail, next := none, key := k, val := v }) none L none := by
    rw [segT_frame _ _ _ _ _ _ hfr]; exact hr.seg
  rcases List.eq_nil_or_concat L with rfl | ⟨X, tl, rfl⟩
  · have ht : c.tail = none := hr.tail
    simp only [insertTail, ht]
    exact ⟨_, rfl, ⟨hids, hkeys, by simp [SegT, nextOf, upd], rfl, rfl, hidx, hfresh⟩, rfl⟩
  · rw [List.concat_eq_append] at *
    have ht : c.tail = some tl.1 := by rw [hr.tail, lastOf_append_singleton]
    simp only [ht] at hseg1
    obtain ⟨h1, h2⟩ := segT_attach _ X tl none c.fresh k v hseg1 hr.ids hfr (by simp [upd])
    simp only [insertTail, ht, h1, Option.pure_def, Option.bind_eq_bind, Option.bind_some]
    refine ⟨_, rfl, ⟨hids, hkeys, h2, ?_, ?_, hidx, hfresh⟩, rfl⟩
    · have := hr.head; simp only [nextOf_append] at this ⊢; cases X <;> simpa [nextOf] using this
    · show some c.fresh = _
      rw [lastOf_append_singleton]

omit [DecidableEq K] in
theorem perm_move (A B : List (Tr K V)) (t : Tr K V) : (A ++ B ++ [t]).Perm (A ++ t :: B) :=
  (List.perm_append_singleton _ _).trans List.perm_middle.symm

omit [DecidableEq K] in
theorem moveToTail_spec (c : Cache K V) (A B : List (Tr K V)) (t : Tr K V) (hr : Rep c (A ++ t :: B)) :
    ∃ c', moveToTail c t.1 = some c' ∧ Rep c' (A ++ B ++ [t]) ∧ c'.cap = c.cap ∧ c'.idx = c.idx := by
  have hseg := hr.seg
  rw [segT_append] at hseg
  obtain ⟨hA, ht, hB⟩ := hseg
  have hperm := perm_move A B t
  have hids : ((A ++ B ++ [t]).map (·.1)).Nodup := (hperm.map _).nodup_iff.mpr hr.ids
  have hkeys : ((A ++ B ++ [t]).map (·.2.1)).Nodup := (hperm.map _).nodup_iff.mpr hr.keys
  have hidx : c.idx.Perm ((A ++ B ++ [t]).map (fun t => (t.2.1, t.1))) := hr.idx.trans (hperm.map _).symm
  have hfresh : ∀ u ∈ A ++ B ++ [t], u.1 < c.fresh := fun u hu => hr.fresh u (hperm.mem_iff.mp hu)
  have hne := ids_ne_of_nodup A B t hr.ids
  have hidsAB := sub_nodup (·.1) A B t hr.ids
  cases B with
  | nil =>
    simp only [nextOf] at ht
    simp only [moveToTail, ht, Option.pure_def, Option.bind_eq_bind, Option.bind_some]
    refine ⟨_, rfl, ⟨hids, hkeys, ?_, ?_, ?_, hidx, hfresh⟩, rfl, rfl⟩
    · simpa using hr.seg
    · simpa using hr.head
    · simpa using hr.tail
  | cons b B' =>
    simp only [nextOf] at ht
    obtain ⟨B'', tl, hBeq⟩ : ∃ B'' tl, b :: B' = B'' ++ [tl] := by
      rcases List.eq_nil_or_concat (b :: B') with h | ⟨X, y, h⟩
      · cases h
      · exact ⟨X, y, by rw [h, List.concat_eq_append]⟩
    have hbids : ((b :: B').map (·.1)).Nodup := by
      have := hidsAB; rw [List.map_append, List.nodup_append] at this; exact this.2.1
    have htail : c.tail = some tl.1 := by
      rw [hr.tail, lastOf_append, lastOf_cons, hBeq, lastOf_append_singleton]
    -- step 1: node.next.prev = node.prev
    obtain ⟨hb, hB1⟩ := segT_patch_prev c.heap b B' (some t.1) (lastOf A none) none hB hbids
    have htb : t.1 ≠ b.1 := (hne b (by simp)).symm
    rcases List.eq_nil_or_concat A with rfl | ⟨A', a, rfl⟩
    · -- node is the head
      simp only [lastOf_nil] at ht hb hB1
      have ht2 : upd c.heap b.1 { prev := none, next := nextOf B' none, key := b.2.1, val := b.2.2 } t.1
          = some { prev := none, next := some b.1, key := t.2.1, val := t.2.2 } := by
        simp [upd, htb, ht]
      have hfr3 : ∀ u ∈ b :: B', u.1 ≠ t.1 := fun u hu => hne u (by simpa using hu)
      have hB3 : SegT (upd (upd c.heap b.1 { prev := none, next := nextOf B' none, key := b.2.1, val := b.2.2 }) t.1
          { prev := some tl.1, next := none, key := t.2.1, val := t.2.2 }) none (B'' ++ [tl]) none := by
        rw [← hBeq, segT_frame _ _ _ _ _ _ hfr3]; exact hB1
      obtain ⟨htl, h4⟩ := segT_attach _ B'' tl none t.1 t.2.1 t.2.2 hB3 (by rw [← hBeq]; exact hbids)
        (by rw [← hBeq]; exact hfr3) (by simp [upd])
      simp only [moveToTail, ht, hb, ht2, htail, htl, Option.pure_def, Option.bind_eq_bind, Option.bind_some]
      refine ⟨_, rfl, ⟨hids, hkeys, ?_, ?_, ?_, hidx, hfresh⟩, rfl, rfl⟩
      · simpa [hBeq] using h4
      · simp [nextOf]
      · show some t.1 = _
        rw [lastOf_append_singleton]
    · rw [List.concat_eq_append] at *
      simp only [lastOf_append_singleton] at ht hb hB1
      have haids : ((A' ++ [a]).map (·.1)).Nodup := by
        have := hidsAB; rw [List.map_append, List.nodup_append] at this; exact this.1
      have hdisj : ∀ u ∈ A' ++ [a], ∀ w ∈ b :: B', u.1 ≠ w.1 := by
        intro u hu w hw
        have := hidsAB; rw [List.map_append, List.nodup_append] at this
        exact this.2.2 u.1 (List.mem_map_of_mem hu) w.1 (List.mem_map_of_mem hw)
      have hab : a.1 ≠ b.1 := hdisj a (by simp) b (by simp)
      have hta : t.1 ≠ a.1 := (hne a (by simp)).symm
      -- step 2: node.prev.next = node.next (b's node is a different one)
      have hA1 : SegT (upd c.heap b.1 { prev := some a.1, next := nextOf B' none, key := b.2.1, val := b.2.2 })
          none (A' ++ [a]) (some t.1) := by
        rw [segT_frame]; simpa [nextOf] using hA
        intro u hu; exact hdisj u hu b (by simp)
      obtain ⟨ha, hA2⟩ := segT_patch_next _ A' a none (some t.1) (some b.1) hA1 haids
      have hB2 : SegT (upd (upd c.heap b.1 { prev := some a.1, next := nextOf B' none, key := b.2.1, val := b.2.2 }) a.1
          { prev := lastOf A' none, next := some b.1, key := a.2.1, val := a.2.2 }) (some a.1) (b :: B') none := by
        rw [segT_frame]; exact hB1
        intro u hu; exact (hdisj a (by simp) u hu).symm
      have ht2 : upd (upd c.heap b.1 { prev := some a.1, next := nextOf B' none, key := b.2.1, val := b.2.2 }) a.1
          { prev := lastOf A' none, next := some b.1, key := a.2.1, val := a.2.2 } t.1
          = some { prev := some a.1, next := some b.1, key := t.2.1, val := t.2.2 } := by
        simp [upd, htb, hta, ht]
      have hfr3 : ∀ u ∈ A' ++ [a] ++ b :: B', u.1 ≠ t.1 := hne
      have hAB3 : SegT (upd (upd (upd c.heap b.1 { prev := some a.1, next := nextOf B' none, key := b.2.1, val := b.2.2 }) a.1
          { prev := lastOf A' none, next := some b.1, key := a.2.1, val := a.2.2 }) t.1
          { prev := some tl.1, next := none, key := t.2.1, val := t.2.2 }) none (A' ++ [a] ++ B'' ++ [tl]) none := by
        rw [List.append_assoc (A' ++ [a]), ← hBeq, segT_frame _ _ _ _ _ _ hfr3, segT_append]
        exact ⟨by simpa [nextOf] using hA2, by simpa [lastOf_append_singleton] using hB2⟩
      obtain ⟨htl, h4⟩ := segT_attach _ (A' ++ [a] ++ B'') tl none t.1 t.2.1 t.2.2 hAB3
        (by rw [List.append_assoc (A' ++ [a]), ← hBeq]; exact hidsAB)
        (by rw [List.append_assoc (A' ++ [a]), ← hBeq]; exact hfr3) (by simp [upd])
      simp only [moveToTail, ht, hb, ha, ht2, htail, htl, Option.pure_def, Option.bind_eq_bind, Option.bind_some]
      refine ⟨_, rfl, ⟨hids, hkeys, ?_, ?_, ?_, hidx, hfresh⟩, rfl, rfl⟩
      · have e : A' ++ [a] ++ b :: B' ++ [t] = A' ++ [a] ++ B'' ++ [tl] ++ [(t.1, t.2.1, t.2.2)] := by
          rw [hBeq]; simp
        rw [e]; exact h4
      · have := hr.head; simp only [nextOf_append] at this ⊢; cases A' <;> simpa [nextOf] using this
      · show some t.1 = _
        rw [lastOf_append_singleton]

end SSV.Lru
