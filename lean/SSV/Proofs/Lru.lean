import SSV.Model.Lru
/-
Representation invariant of the pointer-level LRU model and the lemmas that every operation
preserves it and acts on the represented list like the specification.
-/
namespace SSV.Lru
variable {K V : Type}

/-- a represented entry: node id, key, value -/
abbrev Tr (K V : Type) := Nat × K × V

def nextOf (rest : List (Tr K V)) (nx : Option Nat) : Option Nat :=
  match rest with
  | [] => nx
  | u :: _ => some u.1

def lastOf (l : List (Tr K V)) (p : Option Nat) : Option Nat :=
  match l.getLast? with
  | some t => some t.1
  | none => p

/-- `l` is laid out in the heap as a doubly linked segment entered with `prev = p` and left with `next = nx` -/
def SegT (h : Heap K V) : Option Nat → List (Tr K V) → Option Nat → Prop
  | _, [], _ => True
  | p, t :: rest, nx =>
    h t.1 = some { prev := p, next := nextOf rest nx, key := t.2.1, val := t.2.2 } ∧ SegT h (some t.1) rest nx

theorem lastOf_nil (p : Option Nat) : lastOf ([] : List (Tr K V)) p = p := rfl

theorem lastOf_cons (t : Tr K V) (l : List (Tr K V)) (p : Option Nat) :
    lastOf (t :: l) p = lastOf l (some t.1) := by
  cases l with
  | nil => simp [lastOf]
  | cons u r =>
    simp only [lastOf, List.getLast?_cons_cons]
    cases h : (u :: r).getLast? with
    | none => simp at h
    | some x => rfl

theorem lastOf_append_singleton (l : List (Tr K V)) (t : Tr K V) (p : Option Nat) :
    lastOf (l ++ [t]) p = some t.1 := by
  simp [lastOf]

theorem nextOf_append (A B : List (Tr K V)) (nx : Option Nat) :
    nextOf (A ++ B) nx = nextOf A (nextOf B nx) := by
  cases A <;> simp [nextOf]

theorem segT_append (h : Heap K V) (A B : List (Tr K V)) (p nx : Option Nat) :
    SegT h p (A ++ B) nx ↔ SegT h p A (nextOf B nx) ∧ SegT h (lastOf A p) B nx := by
  induction A generalizing p with
  | nil => simp [SegT, lastOf_nil]
  | cons t rest ih =>
    simp only [List.cons_append, SegT, ih, lastOf_cons, nextOf_append]
    constructor
    · rintro ⟨h1, h2, h3⟩; exact ⟨⟨h1, h2⟩, h3⟩
    · rintro ⟨⟨h1, h2⟩, h3⟩; exact ⟨h1, h2, h3⟩

theorem segT_frame (h : Heap K V) (i : Nat) (n : Node K V) (l : List (Tr K V)) (p nx : Option Nat)
    (hi : ∀ t ∈ l, t.1 ≠ i) : SegT (upd h i n) p l nx ↔ SegT h p l nx := by
  induction l generalizing p with
  | nil => simp [SegT]
  | cons t rest ih =>
    have h1 : t.1 ≠ i := hi t (by simp)
    have h2 : ∀ u ∈ rest, u.1 ≠ i := fun u hu => hi u (by simp [hu])
    simp [SegT, ih _ h2, upd, h1]


/-- overwrite the `next` field of the last node of a segment -/
theorem segT_patch_next (h : Heap K V) (A : List (Tr K V)) (a : Tr K V) (p x y : Option Nat)
    (hs : SegT h p (A ++ [a]) x) (nd : ((A ++ [a]).map (·.1)).Nodup) :
    h a.1 = some { prev := lastOf A p, next := x, key := a.2.1, val := a.2.2 } ∧
    SegT (upd h a.1 { prev := lastOf A p, next := y, key := a.2.1, val := a.2.2 }) p (A ++ [a]) y := by
  rw [segT_append] at hs
  obtain ⟨hA, ha⟩ := hs
  simp only [SegT, nextOf, and_true] at ha
  refine ⟨ha, ?_⟩
  rw [segT_append]
  have hne : ∀ t ∈ A, t.1 ≠ a.1 := by
    intro t ht heq
    rw [List.map_append, List.nodup_append] at nd
    exact nd.2.2 t.1 (List.mem_map_of_mem ht) a.1 (by simp) heq
  refine ⟨?_, ?_⟩
  · rw [segT_frame _ _ _ _ _ _ hne]
    simpa [nextOf] using hA
  · simp [SegT, nextOf, upd]

/-- overwrite the `prev` field of the first node of a segment -/
theorem segT_patch_prev (h : Heap K V) (b : Tr K V) (B : List (Tr K V)) (p q nx : Option Nat)
    (hs : SegT h p (b :: B) nx) (nd : ((b :: B).map (·.1)).Nodup) :
    h b.1 = some { prev := p, next := nextOf B nx, key := b.2.1, val := b.2.2 } ∧
    SegT (upd h b.1 { prev := q, next := nextOf B nx, key := b.2.1, val := b.2.2 }) q (b :: B) nx := by
  obtain ⟨hb, hB⟩ := hs
  refine ⟨hb, ?_⟩
  have hne : ∀ t ∈ B, t.1 ≠ b.1 := by
    intro t ht heq
    simp only [List.map_cons, List.nodup_cons, List.mem_map] at nd
    exact nd.1 ⟨t, ht, heq⟩
  refine ⟨by simp [upd], ?_⟩
  rw [segT_frame _ _ _ _ _ _ hne]
  exact hB

variable [DecidableEq K]

/-- the pointer structure represents the recency-ordered list `L` (head = least recently used) -/
structure Rep (c : Cache K V) (L : List (Tr K V)) : Prop where
  ids : (L.map (·.1)).Nodup
  keys : (L.map (·.2.1)).Nodup
  seg : SegT c.heap none L none
  head : c.head = nextOf L none
  tail : c.tail = lastOf L none
  idx : c.idx.Perm (L.map (fun t => (t.2.1, t.1)))
  fresh : ∀ t ∈ L, t.1 < c.fresh

theorem filter_map_keys_ne (X : List (Tr K V)) (k : K) (hk : ∀ u ∈ X, u.2.1 ≠ k) :
    (X.map (fun t => (t.2.1, t.1))).filter (fun p => ¬ (p.1 = k)) = X.map (fun t => (t.2.1, t.1)) := by
  rw [List.filter_eq_self]
  intro p hp
  obtain ⟨u, hu, rfl⟩ := List.mem_map.mp hp
  simp [hk u hu]

omit [DecidableEq K] in
theorem keys_ne_of_nodup (A B : List (Tr K V)) (t : Tr K V)
    (nd : ((A ++ t :: B).map (·.2.1)).Nodup) : ∀ u ∈ A ++ B, u.2.1 ≠ t.2.1 := by
  intro u hu heq
  rw [List.map_append, List.map_cons, List.nodup_append] at nd
  obtain ⟨_, hB, hAB⟩ := nd
  rw [List.nodup_cons] at hB
  rcases List.mem_append.mp hu with h | h
  · exact hAB u.2.1 (List.mem_map_of_mem h) t.2.1 (by simp) heq
  · exact hB.1 (by rw [← heq]; exact List.mem_map_of_mem h)

theorem erase_perm (idx : List (K × Nat)) (A B : List (Tr K V)) (t : Tr K V)
    (hp : idx.Perm ((A ++ t :: B).map (fun t => (t.2.1, t.1))))
    (nd : ((A ++ t :: B).map (·.2.1)).Nodup) :
    (eraseIdx idx t.2.1).Perm ((A ++ B).map (fun t => (t.2.1, t.1))) := by
  have h1 := hp.filter (fun p => decide (¬ (p.1 = t.2.1)))
  have hne := keys_ne_of_nodup A B t nd
  have hA : ∀ u ∈ A, u.2.1 ≠ t.2.1 := fun u hu => hne u (List.mem_append_left _ hu)
  have hB : ∀ u ∈ B, u.2.1 ≠ t.2.1 := fun u hu => hne u (List.mem_append_right _ hu)
  have h2 : ((A ++ t :: B).map (fun t => (t.2.1, t.1))).filter (fun p => decide (¬ (p.1 = t.2.1)))
      = (A ++ B).map (fun t => (t.2.1, t.1)) := by
    rw [List.map_append, List.filter_append, List.map_cons, List.filter_cons]
    simp only [not_true_eq_false, decide_false, Bool.false_eq_true, if_false]
    rw [filter_map_keys_ne A _ hA, filter_map_keys_ne B _ hB, List.map_append]
  rw [h2] at h1
  exact h1

omit [DecidableEq K] in
theorem sub_nodup {α : Type} (f : Tr K V → α) (A B : List (Tr K V)) (t : Tr K V)
    (nd : ((A ++ t :: B).map f).Nodup) : ((A ++ B).map f).Nodup :=
  nd.sublist (((List.Sublist.refl A).append (List.sublist_cons_self t B)).map f)

omit [DecidableEq K] in
theorem ids_ne_of_nodup (A B : List (Tr K V)) (t : Tr K V)
    (nd : ((A ++ t :: B).map (·.1)).Nodup) : ∀ u ∈ A ++ B, u.1 ≠ t.1 := by
  intro u hu heq
  rw [List.map_append, List.map_cons, List.nodup_append] at nd
  obtain ⟨_, hB, hAB⟩ := nd
  rw [List.nodup_cons] at hB
  rcases List.mem_append.mp hu with h | h
  · exact hAB u.1 (List.mem_map_of_mem h) t.1 (by simp) heq
  · exact hB.1 (by rw [← heq]; exact List.mem_map_of_mem h)

omit [DecidableEq K] in
theorem lastOf_append (X Y : List (Tr K V)) (p : Option Nat) : lastOf (X ++ Y) p = lastOf Y (lastOf X p) := by
  induction X generalizing p with
  | nil => rfl
  | cons t r ih => simp [lastOf_cons, ih]

theorem remove_spec (c : Cache K V) (A B : List (Tr K V)) (t : Tr K V) (hr : Rep c (A ++ t :: B)) :
    ∃ c', remove c t.1 = some c' ∧ Rep c' (A ++ B) ∧ c'.cap = c.cap ∧ c'.fresh = c.fresh := by
  have hseg := hr.seg
  rw [segT_append] at hseg
  obtain ⟨hA, ht, hB⟩ := hseg
  have hids := sub_nodup (·.1) A B t hr.ids
  have hkeys := sub_nodup (·.2.1) A B t hr.keys
  have hidx := erase_perm c.idx A B t hr.idx hr.keys
  have hfresh : ∀ u ∈ A ++ B, u.1 < c.fresh := fun u hu => hr.fresh u (by
    rcases List.mem_append.mp hu with h | h
    · exact List.mem_append_left _ h
    · exact List.mem_append_right _ (List.mem_cons_of_mem _ h))
  have hne := ids_ne_of_nodup A B t hr.ids
  rcases List.eq_nil_or_concat A with rfl | ⟨A', a, rfl⟩
  · cases B with
    | nil =>
      simp only [lastOf_nil, nextOf] at ht
      simp only [remove, ht, Option.pure_def, Option.bind_eq_bind, Option.bind_some]
      exact ⟨_, rfl, ⟨hids, hkeys, trivial, rfl, rfl, hidx, hfresh⟩, rfl, rfl⟩
    | cons b B' =>
      simp only [lastOf_nil, nextOf] at ht
      have hbids : ((b :: B').map (·.1)).Nodup := by simpa using hids
      obtain ⟨hb, hB2⟩ := segT_patch_prev c.heap b B' (some t.1) none none hB hbids
      simp only [remove, ht, hb, Option.pure_def, Option.bind_eq_bind, Option.bind_some]
      exact ⟨_, rfl, ⟨hids, hkeys, hB2, rfl, by simpa [lastOf_cons] using hr.tail, hidx, hfresh⟩, rfl, rfl⟩
  · rw [List.concat_eq_append] at *
    have haids : ((A' ++ [a]).map (·.1)).Nodup := by
      have := hids; rw [List.map_append, List.nodup_append] at this; exact this.1
    cases B with
    | nil =>
      simp only [nextOf, lastOf_append_singleton] at ht hA
      obtain ⟨ha, hA2⟩ := segT_patch_next c.heap A' a none (some t.1) none hA haids
      simp only [remove, ht, ha, Option.pure_def, Option.bind_eq_bind, Option.bind_some]
      refine ⟨_, rfl, ⟨hids, hkeys, ?_, ?_, ?_, hidx, hfresh⟩, rfl, rfl⟩
      · simpa using hA2
      · have := hr.head; simp only [nextOf_append] at this ⊢; cases A' <;> simpa [nextOf] using this
      · simp [lastOf_append_singleton]
    | cons b B' =>
      simp only [nextOf, lastOf_append_singleton] at ht hA
      have hbids : ((b :: B').map (·.1)).Nodup := by
        have := hids; rw [List.map_append, List.nodup_append] at this; exact this.2.1
      have hab : a.1 ≠ b.1 := by
        have := hids; rw [List.map_append, List.nodup_append] at this
        exact this.2.2 a.1 (by simp) b.1 (by simp)
      obtain ⟨ha, hA2⟩ := segT_patch_next c.heap A' a none (some t.1) (some b.1) hA haids
      -- b's node is untouched by the first update
      have hB1 : SegT (upd c.heap a.1 { prev := lastOf A' none, next := some b.1, key := a.2.1, val := a.2.2 })
          (some t.1) (b :: B') none := by
        rw [segT_frame]; exact hB
        intro u hu heq
        have := hids; rw [List.map_append, List.nodup_append] at this
        exact this.2.2 a.1 (by simp) u.1 (List.mem_map_of_mem hu) heq.symm
      obtain ⟨hb, hB2⟩ := segT_patch_prev _ b B' (some t.1) (some a.1) none hB1 hbids
      simp only [remove, ht, ha, hb, Option.pure_def, Option.bind_eq_bind, Option.bind_some]
      refine ⟨_, rfl, ⟨hids, hkeys, ?_, ?_, ?_, hidx, hfresh⟩, rfl, rfl⟩
      · rw [segT_append]
        refine ⟨?_, by simpa [lastOf_append_singleton] using hB2⟩
        rw [segT_frame]; simpa [nextOf] using hA2
        intro u hu heq
        have := hids; rw [List.map_append, List.nodup_append] at this
        exact this.2.2 u.1 (List.mem_map_of_mem hu) b.1 (by simp) heq
      · have := hr.head; simp only [nextOf_append] at this ⊢; cases A' <;> simpa [nextOf] using this
      · have := hr.tail
        simpa [lastOf_append, lastOf_cons] using this

omit [DecidableEq K] in
/-- link a node that is already in the heap (with `prev` = the tail, `next` = nil) behind the tail -/
theorem segT_attach (h : Heap K V) (X : List (Tr K V)) (tl : Tr K V) (p : Option Nat) (i : Nat) (k : K) (v : V)
    (hs : SegT h p (X ++ [tl]) none) (nd : ((X ++ [tl]).map (·.1)).Nodup)
    (hi : ∀ u ∈ X ++ [tl], u.1 ≠ i)
    (hn : h i = some { prev := some tl.1, next := none, key := k, val := v }) :
    h tl.1 = some { prev := lastOf X p, next := none, key := tl.2.1, val := tl.2.2 } ∧
    SegT (upd h tl.1 { prev := lastOf X p, next := some i, key := tl.2.1, val := tl.2.2 }) p (X ++ [tl] ++ [(i, k, v)]) none := by
  obtain ⟨h1, h2⟩ := segT_patch_next h X tl p none (some i) hs nd
  refine ⟨h1, ?_⟩
  rw [segT_append]
  refine ⟨by simpa [nextOf] using h2, ?_⟩
  have : tl.1 ≠ i := hi tl (by simp)
  simp [SegT, nextOf, lastOf_append_singleton, upd, hn, Ne.symm this]

omit [DecidableEq K] in
theorem insert_tail (c : Cache K V) (L : List (Tr K V)) (k : K) (v : V) (hr : Rep c L)
    (hk : ∀ t ∈ L, t.2.1 ≠ k) :
    ∃ c', insertTail c k v = some c'
      ∧ Rep c' (L ++ [(c.fresh, k, v)]) ∧ c'.cap = c.cap := by
  have hfr : ∀ u ∈ L, u.1 ≠ c.fresh := fun u hu => Nat.ne_of_lt (hr.fresh u hu)
  have hids : ((L ++ [(c.fresh, k, v)]).map (·.1)).Nodup := by
    rw [List.map_append, List.nodup_append]
    refine ⟨hr.ids, by simp, ?_⟩
    intro a ha b hb
    simp only [List.map_cons, List.map_nil, List.mem_singleton] at hb
    obtain ⟨u, hu, rfl⟩ := List.mem_map.mp ha
    rw [hb]; exact hfr u hu
  have hkeys : ((L ++ [(c.fresh, k, v)]).map (·.2.1)).Nodup := by
    rw [List.map_append, List.nodup_append]
    refine ⟨hr.keys, by simp, ?_⟩
    intro a ha b hb
    simp only [List.map_cons, List.map_nil, List.mem_singleton] at hb
    obtain ⟨u, hu, rfl⟩ := List.mem_map.mp ha
    rw [hb]; exact hk u hu
  have hidx : ((k, c.fresh) :: c.idx).Perm ((L ++ [(c.fresh, k, v)]).map (fun t => (t.2.1, t.1))) := by
    rw [List.map_append]
    exact (List.Perm.cons _ hr.idx).trans (List.perm_append_singleton _ _).symm
  have hfresh : ∀ u ∈ L ++ [(c.fresh, k, v)], u.1 < c.fresh + 1 := by
    intro u hu
    rcases List.mem_append.mp hu with h | h
    · exact Nat.lt_succ_of_lt (hr.fresh u h)
    · simp only [List.mem_singleton] at h; subst h; exact Nat.lt_succ_self _
  have hseg1 : SegT (upd c.heap c.fresh { prev := c.tail, next := none, key := k, val := v }) none L none := by
    rw [segT_frame _ _ _ _ _ _ hfr]; exact hr.seg
  rcases List.eq_nil_or_concat L with rfl | ⟨X, tl, rfl⟩
  · have ht : c.tail = none := hr.tail
    simp only [insertTail, ht]
    exact ⟨_, rfl, ⟨hids, hkeys, by simp [SegT, nextOf, upd], rfl, rfl, hidx, hfresh⟩, rfl⟩
  · rw [List.concat_eq_append] at *
    have ht : c.tail = some tl.1 := by rw [hr.tail, lastOf_append_singleton]
    simp only [ht] at hseg1
    obtain ⟨h1, h2⟩ := segT_attach _ X tl none c.fresh k v hseg1 hr.ids hfr (by simp [upd])
    simp only [insertTail, ht, h1, Option.pure_def, Option.bind_eq_bind, Option.bind_some]
    refine ⟨_, rfl, ⟨hids, hkeys, h2, ?_, ?_, hidx, hfresh⟩, rfl⟩
    · have := hr.head; simp only [nextOf_append] at this ⊢; cases X <;> simpa [nextOf] using this
    · show some c.fresh = _
      rw [lastOf_append_singleton]

omit [DecidableEq K] in
theorem perm_move (A B : List (Tr K V)) (t : Tr K V) : (A ++ B ++ [t]).Perm (A ++ t :: B) :=
  (List.perm_append_singleton _ _).trans List.perm_middle.symm

omit [DecidableEq K] in
theorem moveToTail_spec (c : Cache K V) (A B : List (Tr K V)) (t : Tr K V) (hr : Rep c (A ++ t :: B)) :
    ∃ c', moveToTail c t.1 = some c' ∧ Rep c' (A ++ B ++ [t]) ∧ c'.cap = c.cap ∧ c'.idx = c.idx := by
  have hseg := hr.seg
  rw [segT_append] at hseg
  obtain ⟨hA, ht, hB⟩ := hseg
  have hperm := perm_move A B t
  have hids : ((A ++ B ++ [t]).map (·.1)).Nodup := (hperm.map _).nodup_iff.mpr hr.ids
  have hkeys : ((A ++ B ++ [t]).map (·.2.1)).Nodup := (hperm.map _).nodup_iff.mpr hr.keys
  have hidx : c.idx.Perm ((A ++ B ++ [t]).map (fun t => (t.2.1, t.1))) := hr.idx.trans (hperm.map _).symm
  have hfresh : ∀ u ∈ A ++ B ++ [t], u.1 < c.fresh := fun u hu => hr.fresh u (hperm.mem_iff.mp hu)
  have hne := ids_ne_of_nodup A B t hr.ids
  have hidsAB := sub_nodup (·.1) A B t hr.ids
  cases B with
  | nil =>
    simp only [nextOf] at ht
    simp only [moveToTail, ht, Option.pure_def, Option.bind_eq_bind, Option.bind_some]
    refine ⟨_, rfl, ⟨hids, hkeys, ?_, ?_, ?_, hidx, hfresh⟩, rfl, rfl⟩
    · simpa using hr.seg
    · simpa using hr.head
    · simpa using hr.tail
  | cons b B' =>
    simp only [nextOf] at ht
    obtain ⟨B'', tl, hBeq⟩ : ∃ B'' tl, b :: B' = B'' ++ [tl] := by
      rcases List.eq_nil_or_concat (b :: B') with h | ⟨X, y, h⟩
      · cases h
      · exact ⟨X, y, by rw [h, List.concat_eq_append]⟩
    have hbids : ((b :: B').map (·.1)).Nodup := by
      have := hidsAB; rw [List.map_append, List.nodup_append] at this; exact this.2.1
    have htail : c.tail = some tl.1 := by
      rw [hr.tail, lastOf_append, lastOf_cons, hBeq, lastOf_append_singleton]
    -- step 1: node.next.prev = node.prev
    obtain ⟨hb, hB1⟩ := segT_patch_prev c.heap b B' (some t.1) (lastOf A none) none hB hbids
    have htb : t.1 ≠ b.1 := (hne b (by simp)).symm
    rcases List.eq_nil_or_concat A with rfl | ⟨A', a, rfl⟩
    · -- node is the head
      simp only [lastOf_nil] at ht hb hB1
      have ht2 : upd c.heap b.1 { prev := none, next := nextOf B' none, key := b.2.1, val := b.2.2 } t.1
          = some { prev := none, next := some b.1, key := t.2.1, val := t.2.2 } := by
        simp [upd, htb, ht]
      have hfr3 : ∀ u ∈ b :: B', u.1 ≠ t.1 := fun u hu => hne u (by simpa using hu)
      have hB3 : SegT (upd (upd c.heap b.1 { prev := none, next := nextOf B' none, key := b.2.1, val := b.2.2 }) t.1
          { prev := some tl.1, next := none, key := t.2.1, val := t.2.2 }) none (B'' ++ [tl]) none := by
        rw [← hBeq, segT_frame _ _ _ _ _ _ hfr3]; exact hB1
      obtain ⟨htl, h4⟩ := segT_attach _ B'' tl none t.1 t.2.1 t.2.2 hB3 (by rw [← hBeq]; exact hbids)
        (by rw [← hBeq]; exact hfr3) (by simp [upd])
      simp only [moveToTail, ht, hb, ht2, htail, htl, Option.pure_def, Option.bind_eq_bind, Option.bind_some]
      refine ⟨_, rfl, ⟨hids, hkeys, ?_, ?_, ?_, hidx, hfresh⟩, rfl, rfl⟩
      · simpa [hBeq] using h4
      · simp [nextOf]
      · show some t.1 = _
        rw [lastOf_append_singleton]
    · rw [List.concat_eq_append] at *
      simp only [lastOf_append_singleton] at ht hb hB1
      have haids : ((A' ++ [a]).map (·.1)).Nodup := by
        have := hidsAB; rw [List.map_append, List.nodup_append] at this; exact this.1
      have hdisj : ∀ u ∈ A' ++ [a], ∀ w ∈ b :: B', u.1 ≠ w.1 := by
        intro u hu w hw
        have := hidsAB; rw [List.map_append, List.nodup_append] at this
        exact this.2.2 u.1 (List.mem_map_of_mem hu) w.1 (List.mem_map_of_mem hw)
      have hab : a.1 ≠ b.1 := hdisj a (by simp) b (by simp)
      have hta : t.1 ≠ a.1 := (hne a (by simp)).symm
      -- step 2: node.prev.next = node.next (b's node is a different one)
      have hA1 : SegT (upd c.heap b.1 { prev := some a.1, next := nextOf B' none, key := b.2.1, val := b.2.2 })
          none (A' ++ [a]) (some t.1) := by
        rw [segT_frame]; simpa [nextOf] using hA
        intro u hu; exact hdisj u hu b (by simp)
      obtain ⟨ha, hA2⟩ := segT_patch_next _ A' a none (some t.1) (some b.1) hA1 haids
      have hB2 : SegT (upd (upd c.heap b.1 { prev := some a.1, next := nextOf B' none, key := b.2.1, val := b.2.2 }) a.1
          { prev := lastOf A' none, next := some b.1, key := a.2.1, val := a.2.2 }) (some a.1) (b :: B') none := by
        rw [segT_frame]; exact hB1
        intro u hu; exact (hdisj a (by simp) u hu).symm
      have ht2 : upd (upd c.heap b.1 { prev := some a.1, next := nextOf B' none, key := b.2.1, val := b.2.2 }) a.1
          { prev := lastOf A' none, next := some b.1, key := a.2.1, val := a.2.2 } t.1
          = some { prev := some a.1, next := some b.1, key := t.2.1, val := t.2.2 } := by
        simp [upd, htb, hta, ht]
      have hfr3 : ∀ u ∈ A' ++ [a] ++ b :: B', u.1 ≠ t.1 := hne
      have hAB3 : SegT (upd (upd (upd c.heap b.1 { prev := some a.1, next := nextOf B' none, key := b.2.1, val := b.2.2 }) a.1
          { prev := lastOf A' none, next := some b.1, key := a.2.1, val := a.2.2 }) t.1
          { prev := some tl.1, next := none, key := t.2.1, val := t.2.2 }) none (A' ++ [a] ++ B'' ++ [tl]) none := by
        rw [List.append_assoc (A' ++ [a]), ← hBeq, segT_frame _ _ _ _ _ _ hfr3, segT_append]
        exact ⟨by simpa [nextOf] using hA2, by simpa [lastOf_append_singleton] using hB2⟩
      obtain ⟨htl, h4⟩ := segT_attach _ (A' ++ [a] ++ B'') tl none t.1 t.2.1 t.2.2 hAB3
        (by rw [List.append_assoc (A' ++ [a]), ← hBeq]; exact hidsAB)
        (by rw [List.append_assoc (A' ++ [a]), ← hBeq]; exact hfr3) (by simp [upd])
      simp only [moveToTail, ht, hb, ha, ht2, htail, htl, Option.pure_def, Option.bind_eq_bind, Option.bind_some]
      refine ⟨_, rfl, ⟨hids, hkeys, ?_, ?_, ?_, hidx, hfresh⟩, rfl, rfl⟩
      · have e : A' ++ [a] ++ b :: B' ++ [t] = A' ++ [a] ++ B'' ++ [tl] ++ [(t.1, t.2.1, t.2.2)] := by
          rw [hBeq]; simp
        rw [e]; exact h4
      · have := hr.head; simp only [nextOf_append] at this ⊢; cases A' <;> simpa [nextOf] using this
      · show some t.1 = _
        rw [lastOf_append_singleton]

def ent (t : Tr K V) : K × V := (t.2.1, t.2.2)

theorem lookupIdx_mem (idx : List (K × Nat)) (k : K) (i : Nat) (h : lookupIdx idx k = some i) : (k, i) ∈ idx := by
  induction idx with
  | nil => simp [lookupIdx] at h
  | cons p r ih =>
    obtain ⟨k', j⟩ := p
    simp only [lookupIdx] at h
    split at h
    · rename_i heq; cases h; subst heq; simp
    · exact List.mem_cons_of_mem _ (ih h)

theorem lookupIdx_none (idx : List (K × Nat)) (k : K) (h : lookupIdx idx k = none) : ∀ i, (k, i) ∉ idx := by
  induction idx with
  | nil => simp
  | cons p r ih =>
    obtain ⟨k', j⟩ := p
    simp only [lookupIdx] at h
    split at h
    · cases h
    · rename_i hne
      intro i hi
      rcases List.mem_cons.mp hi with h1 | h1
      · cases h1; exact hne rfl
      · exact ih h i h1

theorem rep_lookup_some (c : Cache K V) (L : List (Tr K V)) (hr : Rep c L) (k : K) (i : Nat)
    (h : lookupIdx c.idx k = some i) : ∃ v A B, L = A ++ (i, k, v) :: B := by
  have h1 := hr.idx.mem_iff.mp (lookupIdx_mem _ _ _ h)
  obtain ⟨t, ht, heq⟩ := List.mem_map.mp h1
  obtain ⟨A, B, hL⟩ := List.append_of_mem ht
  obtain ⟨i', k', v⟩ := t
  simp only [Prod.mk.injEq] at heq
  obtain ⟨rfl, rfl⟩ := heq
  exact ⟨v, A, B, hL⟩

theorem rep_lookup_none (c : Cache K V) (L : List (Tr K V)) (hr : Rep c L) (k : K)
    (h : lookupIdx c.idx k = none) : ∀ t ∈ L, t.2.1 ≠ k := by
  intro t ht heq
  have : (k, t.1) ∈ c.idx := hr.idx.mem_iff.mpr (List.mem_map.mpr ⟨t, ht, by simp [heq]⟩)
  exact lookupIdx_none _ _ h _ this

theorem find_none (L : List (Tr K V)) (k : K) (h : ∀ t ∈ L, t.2.1 ≠ k) : Spec.find (L.map ent) k = none := by
  induction L with
  | nil => rfl
  | cons t r ih =>
    have h1 : t.2.1 ≠ k := h t (by simp)
    simp [Spec.find, ent, h1]
    exact ih (fun u hu => h u (by simp [hu]))

theorem find_some (A B : List (Tr K V)) (t : Tr K V) (hA : ∀ u ∈ A, u.2.1 ≠ t.2.1) :
    Spec.find ((A ++ t :: B).map ent) t.2.1 = some t.2.2 := by
  induction A with
  | nil => simp [Spec.find, ent]
  | cons u r ih =>
    have h1 : u.2.1 ≠ t.2.1 := hA u (by simp)
    have := ih (fun w hw => hA w (by simp [hw]))
    simp only [List.cons_append, List.map_cons, Spec.find, ent, h1, if_false] at this ⊢
    exact this

theorem erase_found (A B : List (Tr K V)) (t : Tr K V) (hne : ∀ u ∈ A ++ B, u.2.1 ≠ t.2.1) :
    Spec.erase ((A ++ t :: B).map ent) t.2.1 = (A ++ B).map ent := by
  have hA : ∀ u ∈ A, u.2.1 ≠ t.2.1 := fun u hu => hne u (List.mem_append_left _ hu)
  have hB : ∀ u ∈ B, u.2.1 ≠ t.2.1 := fun u hu => hne u (List.mem_append_right _ hu)
  have hf : ∀ X : List (Tr K V), (∀ u ∈ X, u.2.1 ≠ t.2.1) →
      (X.map ent).filter (fun p => decide (¬ (p.1 = t.2.1))) = X.map ent := by
    intro X hX
    rw [List.filter_eq_self]
    intro p hp
    obtain ⟨u, hu, rfl⟩ := List.mem_map.mp hp
    simp [ent, hX u hu]
  simp only [Spec.erase, List.map_append, List.filter_append, List.map_cons, List.filter_cons]
  rw [hf A hA, hf B hB]
  simp [ent]


/-- representation invariant + capacity bound -/
def Inv (c : Cache K V) (L : List (Tr K V)) : Prop := Rep c L ∧ L.length ≤ c.cap ∧ 0 < c.cap

omit [DecidableEq K] in
theorem rep_idx_length (c : Cache K V) (L : List (Tr K V)) (hr : Rep c L) : c.idx.length = L.length := by
  rw [hr.idx.length_eq, List.length_map]

omit [DecidableEq K] in
theorem rep_last_node (c : Cache K V) (X : List (Tr K V)) (t : Tr K V) (hr : Rep c (X ++ [t])) :
    ∃ p, c.heap t.1 = some { prev := p, next := none, key := t.2.1, val := t.2.2 } := by
  have := hr.seg
  rw [segT_append] at this
  exact ⟨_, this.2.1⟩

theorem get_spec (c : Cache K V) (L : List (Tr K V)) (k : K) (hi : Inv c L) :
    ∃ c' r L', get c k = some (c', r) ∧ Inv c' L' ∧ c'.cap = c.cap ∧ (L'.map ent, r) = Spec.get (L.map ent) k := by
  obtain ⟨hr, hlen, hcap⟩ := hi
  cases h : lookupIdx c.idx k with
  | none =>
    refine ⟨c, none, L, by simp [get, h], ⟨hr, hlen, hcap⟩, rfl, ?_⟩
    simp [Spec.get, find_none L k (rep_lookup_none c L hr k h)]
  | some i =>
    obtain ⟨v, A, B, rfl⟩ := rep_lookup_some c L hr k i h
    obtain ⟨c', hm, hr', hc, _⟩ := moveToTail_spec c A B (i, k, v) hr
    obtain ⟨p, hn⟩ := rep_last_node c' (A ++ B) (i, k, v) hr'
    have hne := keys_ne_of_nodup A B (i, k, v) hr.keys
    refine ⟨c', some v, A ++ B ++ [(i, k, v)], ?_, ⟨hr', ?_, by rw [hc]; exact hcap⟩, hc, ?_⟩
    · simp only [get, h]
      simp only [] at hm hn
      simp [hm, hn]
    · rw [hc]; simpa using hlen
    · have hf := find_some A B (i, k, v) (fun u hu => hne u (List.mem_append_left _ hu))
      have he := erase_found A B (i, k, v) hne
      simp only [] at hf he
      simp only [Spec.get, hf, Spec.touch, he]
      simp [ent]

theorem removeKey_spec (c : Cache K V) (L : List (Tr K V)) (k : K) (hi : Inv c L) :
    ∃ c' r L', removeKey c k = some (c', r) ∧ Inv c' L' ∧ c'.cap = c.cap ∧ (L'.map ent, r) = Spec.removeKey (L.map ent) k := by
  obtain ⟨hr, hlen, hcap⟩ := hi
  cases h : lookupIdx c.idx k with
  | none =>
    refine ⟨c, false, L, by simp [removeKey, h], ⟨hr, hlen, hcap⟩, rfl, ?_⟩
    simp [Spec.removeKey, find_none L k (rep_lookup_none c L hr k h)]
  | some i =>
    obtain ⟨v, A, B, rfl⟩ := rep_lookup_some c L hr k i h
    obtain ⟨c', hm, hr', hc, _⟩ := remove_spec c A B (i, k, v) hr
    have hne := keys_ne_of_nodup A B (i, k, v) hr.keys
    refine ⟨c', true, A ++ B, ?_, ⟨hr', ?_, by rw [hc]; exact hcap⟩, hc, ?_⟩
    · simp only [removeKey, h]
      simp only [] at hm
      simp [hm]
    · rw [hc]; simp at hlen ⊢; omega
    · have hf := find_some A B (i, k, v) (fun u hu => hne u (List.mem_append_left _ hu))
      have he := erase_found A B (i, k, v) hne
      simp only [] at hf he
      simp only [Spec.removeKey, hf, he]

theorem insert_spec (c : Cache K V) (L : List (Tr K V)) (k : K) (v : V) (hi : Inv c L)
    (hk : ∀ t ∈ L, t.2.1 ≠ k) :
    ∃ c' L', insert c k v = some c' ∧ Inv c' L' ∧ c'.cap = c.cap ∧ L'.map ent = Spec.add c.cap (L.map ent) k v := by
  obtain ⟨hr, hlen, hcap⟩ := hi
  have hil := rep_idx_length c L hr
  by_cases hfull : L.length = c.cap
  · cases L with
    | nil => simp at hfull; omega
    | cons hd L' =>
      have hhead : c.head = some hd.1 := hr.head
      obtain ⟨c1, hm, hr1, hc1, _⟩ := remove_spec c [] L' hd hr
      obtain ⟨c2, hm2, hr2, hc2⟩ := insert_tail c1 L' k v hr1 (fun t ht => hk t (by simp [ht]))
      refine ⟨c2, _, ?_, ⟨hr2, ?_, by rw [hc2, hc1]; exact hcap⟩, by rw [hc2, hc1], ?_⟩
      · simp only [insert, hil, hfull, if_true, hhead]
        simp [hm, hm2]
      · rw [hc2, hc1]; simp at hfull ⊢; omega
      · have : L'.length + 1 = c.cap := by simpa using hfull
        simp [Spec.add, this, ent]
  · obtain ⟨c2, hm2, hr2, hc2⟩ := insert_tail c L k v hr hk
    refine ⟨c2, _, ?_, ⟨hr2, ?_, by rw [hc2]; exact hcap⟩, hc2, ?_⟩
    · simp only [insert, hil, hfull, if_false]
      simp [hm2]
    · rw [hc2]; simp; omega
    · simp [Spec.add, hfull, ent]


omit [DecidableEq K] in
theorem rep_set_val (c : Cache K V) (A B : List (Tr K V)) (i : Nat) (k : K) (v0 v : V)
    (hr : Rep c (A ++ (i, k, v0) :: B)) :
    ∃ n, c.heap i = some n ∧ Rep { c with heap := upd c.heap i { n with val := v } } (A ++ (i, k, v) :: B) := by
  have hseg := hr.seg
  rw [segT_append] at hseg
  obtain ⟨hA, ht, hB⟩ := hseg
  have hne := ids_ne_of_nodup A B (i, k, v0) hr.ids
  have hhead : c.head = nextOf (A ++ (i, k, v) :: B) none := by
    have := hr.head; rw [nextOf_append] at this ⊢; simpa [nextOf] using this
  refine ⟨_, ht, ⟨by simpa using hr.ids, by simpa using hr.keys, ?_, hhead,
    by simpa [lastOf_append, lastOf_cons] using hr.tail, by simpa using hr.idx, ?_⟩⟩
  · rw [segT_append]
    refine ⟨?_, ?_, ?_⟩
    · rw [segT_frame]; simpa [nextOf] using hA
      intro u hu; exact hne u (List.mem_append_left _ hu)
    · simp [upd, nextOf]
    · rw [segT_frame]; exact hB
      intro u hu; exact hne u (List.mem_append_right _ hu)
  · intro u hu
    rcases List.mem_append.mp hu with h | h
    · exact hr.fresh u (List.mem_append_left _ h)
    · rcases List.mem_cons.mp h with h | h
      · subst h; exact hr.fresh (i, k, v0) (by simp)
      · exact hr.fresh u (List.mem_append_right _ (List.mem_cons_of_mem _ h))

theorem set_spec (c : Cache K V) (L : List (Tr K V)) (k : K) (v : V) (hi : Inv c L) :
    ∃ c' L', set c k v = some c' ∧ Inv c' L' ∧ c'.cap = c.cap ∧ L'.map ent = Spec.set c.cap (L.map ent) k v := by
  cases h : lookupIdx c.idx k with
  | none =>
    have hk := rep_lookup_none c L hi.1 k h
    obtain ⟨c', L', h1, h2, h3, h4⟩ := insert_spec c L k v hi hk
    refine ⟨c', L', by simp [set, h, h1], h2, h3, ?_⟩
    simp only [Spec.set, find_none L k hk]; exact h4
  | some i =>
    obtain ⟨hr, hlen, hcap⟩ := hi
    obtain ⟨v0, A, B, rfl⟩ := rep_lookup_some c L hr k i h
    obtain ⟨n, hn, hr1⟩ := rep_set_val c A B i k v0 v hr
    obtain ⟨c', hm, hr', hc, _⟩ := moveToTail_spec _ A B (i, k, v) hr1
    have hne := keys_ne_of_nodup A B (i, k, v0) hr.keys
    refine ⟨c', A ++ B ++ [(i, k, v)], ?_, ⟨hr', ?_, by rw [hc]; exact hcap⟩, hc, ?_⟩
    · simp only [set, h]
      simp only [] at hm
      simp [hn, hm]
    · rw [hc]; simpa using hlen
    · have hf := find_some A B (i, k, v0) (fun u hu => hne u (List.mem_append_left _ hu))
      have he := erase_found A B (i, k, v0) hne
      simp only [] at hf he
      simp only [Spec.set, hf, Spec.touch, he]
      simp [ent]

theorem insertNew_spec (c : Cache K V) (L : List (Tr K V)) (k : K) (v : V) (hi : Inv c L) :
    ∃ c' r L', insertNew c k v = some (c', r) ∧ Inv c' L' ∧ c'.cap = c.cap ∧
      (L'.map ent, r) = Spec.insertNew c.cap (L.map ent) k v := by
  cases h : lookupIdx c.idx k with
  | none =>
    have hk := rep_lookup_none c L hi.1 k h
    obtain ⟨c', L', h1, h2, h3, h4⟩ := insert_spec c L k v hi hk
    refine ⟨c', true, L', by simp [insertNew, h, h1], h2, h3, ?_⟩
    simp only [Spec.insertNew, find_none L k hk, h4]
  | some i =>
    obtain ⟨v0, A, B, rfl⟩ := rep_lookup_some c L hi.1 k i h
    have hne := keys_ne_of_nodup A B (i, k, v0) hi.1.keys
    have hf := find_some A B (i, k, v0) (fun u hu => hne u (List.mem_append_left _ hu))
    simp only [] at hf
    exact ⟨c, false, _, by simp [insertNew, h], hi, rfl, by simp only [Spec.insertNew, hf]⟩

theorem contains_spec (c : Cache K V) (L : List (Tr K V)) (k : K) (hi : Inv c L) :
    contains c k = (Spec.find (L.map ent) k).isSome := by
  cases h : lookupIdx c.idx k with
  | none => simp [contains, h, find_none L k (rep_lookup_none c L hi.1 k h)]
  | some i =>
    obtain ⟨v0, A, B, rfl⟩ := rep_lookup_some c L hi.1 k i h
    have hne := keys_ne_of_nodup A B (i, k, v0) hi.1.keys
    have hf := find_some A B (i, k, v0) (fun u hu => hne u (List.mem_append_left _ hu))
    simp only [] at hf
    simp only [contains, h, hf, Option.isSome_some]

/-- every operation preserves the invariant and answers like the specification -/
theorem step_spec (c : Cache K V) (L : List (Tr K V)) (o : Op K V) (hi : Inv c L) :
    ∃ c' out L', step c o = some (c', out) ∧ Inv c' L' ∧ c'.cap = c.cap ∧
      (L'.map ent, out) = Spec.step c.cap (L.map ent) o := by
  cases o with
  | get k =>
    obtain ⟨c', r, L', h1, h2, h3, h4⟩ := get_spec c L k hi
    refine ⟨c', .got r, L', by simp [step, h1], h2, h3, ?_⟩
    simp only [Spec.step, ← h4]
  | set k v =>
    obtain ⟨c', L', h1, h2, h3, h4⟩ := set_spec c L k v hi
    exact ⟨c', .done, L', by simp [step, h1], h2, h3, by simp only [Spec.step, h4]⟩
  | insert k v =>
    obtain ⟨c', r, L', h1, h2, h3, h4⟩ := insertNew_spec c L k v hi
    refine ⟨c', .flag r, L', by simp [step, h1], h2, h3, ?_⟩
    simp only [Spec.step, ← h4]
  | remove k =>
    obtain ⟨c', r, L', h1, h2, h3, h4⟩ := removeKey_spec c L k hi
    refine ⟨c', .flag r, L', by simp [step, h1], h2, h3, ?_⟩
    simp only [Spec.step, ← h4]
  | contains k =>
    exact ⟨c, .flag (contains c k), L, by simp [step], hi, rfl, by simp only [Spec.step, contains_spec c L k hi]⟩

theorem run_spec (c : Cache K V) (L : List (Tr K V)) (ops : List (Op K V)) (hi : Inv c L) :
    ∃ c' outs L', run c ops = some (c', outs) ∧ Inv c' L' ∧ c'.cap = c.cap ∧
      (L'.map ent, outs) = Spec.run c.cap (L.map ent) ops := by
  induction ops generalizing c L with
  | nil => exact ⟨c, [], L, rfl, hi, rfl, rfl⟩
  | cons o rest ih =>
    obtain ⟨c1, out, L1, h1, h2, h3, h4⟩ := step_spec c L o hi
    obtain ⟨c2, outs, L2, g1, g2, g3, g4⟩ := ih c1 L1 h2
    refine ⟨c2, out :: outs, L2, by simp [run, h1, g1], g2, by rw [g3, h3], ?_⟩
    rw [h3] at g4
    simp only [Spec.run, ← h4, ← g4]


omit [DecidableEq K] in
theorem walkNext_seg (h : Heap K V) (L : List (Tr K V)) (p : Option Nat) (fuel : Nat)
    (hs : SegT h p L none) (hf : L.length ≤ fuel) : walkNext h (nextOf L none) fuel = (L.map ent, true) := by
  induction L generalizing p fuel with
  | nil => cases fuel <;> simp [walkNext, nextOf]
  | cons t r ih =>
    cases fuel with
    | zero => simp at hf
    | succ f =>
      obtain ⟨h1, h2⟩ := hs
      have := ih (some t.1) f h2 (by simpa using hf)
      have e : nextOf (t :: r) none = some t.1 := rfl
      rw [e]
      simp only [walkNext, h1, this]
      simp [ent]

omit [DecidableEq K] in
theorem walkPrev_seg (h : Heap K V) (n : Nat) : ∀ (L : List (Tr K V)) (nx : Option Nat) (fuel : Nat),
    L.length = n → SegT h none L nx → L.length ≤ fuel → walkPrev h (lastOf L none) fuel = ((L.map ent).reverse, true) := by
  induction n with
  | zero =>
    intro L nx fuel hl _ _
    have : L = [] := List.length_eq_zero_iff.mp hl
    subst this
    cases fuel <;> simp [walkPrev, lastOf]
  | succ m ih =>
    intro L nx fuel hl hs hf
    rcases List.eq_nil_or_concat L with rfl | ⟨X, t, rfl⟩
    · simp at hl
    · rw [List.concat_eq_append] at *
      cases fuel with
      | zero => simp at hf
      | succ f =>
        rw [segT_append] at hs
        obtain ⟨hX, ht, _⟩ := hs
        have hlX : X.length = m := by simpa using hl
        have := ih X _ f hlX hX (by simp at hf; omega)
        rw [lastOf_append_singleton]
        simp only [walkPrev, ht, this]
        simp [ent]

omit [DecidableEq K] in
theorem new_inv (capacity : Int) : Inv (new capacity : Cache K V) [] := by
  refine ⟨⟨by simp, by simp, trivial, rfl, rfl, by simp [new], by simp⟩, by simp, ?_⟩
  simp only [new]
  split
  · decide
  · omega


/-- The refinement theorem in the form used by `SSV.C17.lru_refines_map`. -/
theorem run_refines (capacity : Int) (ops : List (Op K V)) :
    ∃ c outs s,
      run (new capacity) ops = some (c, outs) ∧
      Spec.run (new capacity : Cache K V).cap [] ops = (s, outs) ∧
      all c = (s, true) ∧ backward c = (s.reverse, true) ∧ len c = s.length ∧
      (s.map Prod.fst).Nodup ∧ s.length ≤ c.cap ∧ c.cap = (new capacity : Cache K V).cap := by
  obtain ⟨c, outs, L, h1, ⟨hr, hlen, _⟩, hc, h4⟩ := run_spec (new capacity : Cache K V) [] ops (new_inv capacity)
  have hil := rep_idx_length c L hr
  refine ⟨c, outs, L.map ent, h1, ?_, ?_, ?_, ?_, ?_, ?_, hc⟩
  · simpa using h4.symm
  · simp only [all, hr.head, hil]
    exact walkNext_seg c.heap L none _ hr.seg (Nat.le_succ _)
  · simp only [backward, hr.tail, hil]
    exact walkPrev_seg c.heap L.length L none _ rfl hr.seg (Nat.le_succ _)
  · simp [len, hil]
  · have : (L.map ent).map Prod.fst = L.map (·.2.1) := by simp [ent, Function.comp_def]
    rw [this]; exact hr.keys
  · simpa using hlen

omit [DecidableEq K] in
/-- every allocated node keeps its key (heap `h'` extends `h` key-wise) -/
def HK (h h' : Heap K V) : Prop := ∀ i n, h i = some n → ∃ n', h' i = some n' ∧ n'.key = n.key

omit [DecidableEq K] in
theorem HK.refl (h : Heap K V) : HK h h := fun _ n hn => ⟨n, hn, rfl⟩
omit [DecidableEq K] in
theorem HK.trans {h1 h2 h3 : Heap K V} (a : HK h1 h2) (b : HK h2 h3) : HK h1 h3 := by
  intro i n hn
  obtain ⟨n2, h2n, k2⟩ := a i n hn
  obtain ⟨n3, h3n, k3⟩ := b i n2 h2n
  exact ⟨n3, h3n, k3.trans k2⟩

omit [DecidableEq K] in
/-- overwriting a node by one with the same key, or writing to an unallocated address -/
theorem hk_upd (h : Heap K V) (i : Nat) (n' : Node K V) (hk : ∀ n, h i = some n → n'.key = n.key) :
    HK h (upd h i n') := by
  intro j n hn
  by_cases hj : j = i
  · subst hj; exact ⟨n', by simp [upd], hk n hn⟩
  · exact ⟨n, by simp [upd, hj, hn], rfl⟩


theorem remove_hk (c c' : Cache K V) (i : Nat) (h : remove c i = some c') : HK c.heap c'.heap ∧ c'.fresh = c.fresh := by
  unfold remove at h
  simp only [Option.bind_eq_bind, Option.pure_def] at h
  cases hn : c.heap i with
  | none => simp [hn] at h
  | some n =>
    simp only [hn, Option.bind_some] at h
    cases hp : n.prev with
    | none =>
      simp only [hp, Option.bind_some] at h
      cases hq : n.next with
      | none => simp only [hq, Option.bind_some, Option.some.injEq] at h; subst h; exact ⟨HK.refl _, rfl⟩
      | some q =>
        simp only [hq] at h
        cases hqn : c.heap q with
        | none => simp [hqn] at h
        | some qn =>
          simp only [hqn, Option.bind_some, Option.some.injEq] at h; subst h
          exact ⟨hk_upd _ _ _ (fun m hm => by rw [hqn] at hm; cases hm; rfl), rfl⟩
    | some p =>
      simp only [hp] at h
      cases hpn : c.heap p with
      | none => simp [hpn] at h
      | some pn =>
        simp only [hpn, Option.bind_some] at h
        have h1 : HK c.heap (upd c.heap p { pn with next := n.next }) :=
          hk_upd _ _ _ (fun m hm => by rw [hpn] at hm; cases hm; rfl)
        cases hq : n.next with
        | none => simp only [hq, Option.bind_some, Option.some.injEq] at h; subst h; exact ⟨by simpa [hq] using h1, rfl⟩
        | some q =>
          simp only [hq] at h
          cases hqn : upd c.heap p { pn with next := some q } q with
          | none => simp [hqn] at h
          | some qn =>
            simp only [hqn, Option.bind_some, Option.some.injEq] at h; subst h
            refine ⟨HK.trans (by simpa [hq] using h1) (hk_upd _ _ _ (fun m hm => by rw [hqn] at hm; cases hm; rfl)), rfl⟩


omit [DecidableEq K] in
/-- no node is allocated at or beyond the allocation counter -/
def HB (h : Heap K V) (fr : Nat) : Prop := ∀ i, fr ≤ i → h i = none

omit [DecidableEq K] in
theorem hb_upd (h : Heap K V) (fr i : Nat) (m n' : Node K V) (hi : h i = some m) (hb : HB h fr) : HB (upd h i n') fr := by
  intro j hj
  have : j ≠ i := by intro e; subst e; rw [hb j hj] at hi; cases hi
  simp [upd, this, hb j hj]

/-- pointer stability + allocation discipline, as one relation between two cache states -/
def Ext (c c' : Cache K V) : Prop :=
  HK c.heap c'.heap ∧ c.fresh ≤ c'.fresh ∧ (HB c.heap c.fresh → HB c'.heap c'.fresh)

omit [DecidableEq K] in
theorem Ext.refl (c : Cache K V) : Ext c c := ⟨HK.refl _, Nat.le_refl _, id⟩
omit [DecidableEq K] in
theorem Ext.trans {a b c : Cache K V} (x : Ext a b) (y : Ext b c) : Ext a c :=
  ⟨x.1.trans y.1, Nat.le_trans x.2.1 y.2.1, fun h => y.2.2 (x.2.2 h)⟩

omit [DecidableEq K] in
/-- one same-key overwrite of an allocated node -/
theorem ext_upd (c : Cache K V) (i : Nat) (m n' : Node K V) (hi : c.heap i = some m) (hk : n'.key = m.key)
    (c' : Cache K V) (hh : c'.heap = upd c.heap i n') (hf : c'.fresh = c.fresh) : Ext c c' := by
  refine ⟨?_, by rw [hf]; exact Nat.le_refl _, ?_⟩
  · rw [hh]; exact hk_upd _ _ _ (fun x hx => by rw [hi] at hx; cases hx; exact hk)
  · intro hb; rw [hh, hf]; exact hb_upd _ _ _ m _ hi hb

theorem remove_ext (c c' : Cache K V) (i : Nat) (h : remove c i = some c') : Ext c c' := by
  obtain ⟨h1, h2⟩ := remove_hk c c' i h
  refine ⟨h1, by rw [h2]; exact Nat.le_refl _, ?_⟩
  intro hb j hj
  rw [h2] at hj
  -- a node at j ≥ fresh would have to be allocated in c'; all writes of `remove` go to allocated nodes
  unfold remove at h
  simp only [Option.bind_eq_bind, Option.pure_def] at h
  cases hn : c.heap i with
  | none => simp [hn] at h
  | some n =>
    simp only [hn, Option.bind_some] at h
    cases hp : n.prev with
    | none =>
      simp only [hp, Option.bind_some] at h
      cases hq : n.next with
      | none => simp only [hq, Option.bind_some, Option.some.injEq] at h; subst h; exact hb j hj
      | some q =>
        simp only [hq] at h
        cases hqn : c.heap q with
        | none => simp [hqn] at h
        | some qn =>
          simp only [hqn, Option.bind_some, Option.some.injEq] at h; subst h
          exact hb_upd _ _ _ qn _ hqn hb j hj
    | some p =>
      simp only [hp] at h
      cases hpn : c.heap p with
      | none => simp [hpn] at h
      | some pn =>
        simp only [hpn, Option.bind_some] at h
        have hb1 := hb_upd c.heap c.fresh p pn { pn with next := n.next } hpn hb
        cases hq : n.next with
        | none => simp only [hq, Option.bind_some, Option.some.injEq] at h; subst h; simpa [hq] using hb1 j hj
        | some q =>
          simp only [hq] at h hb1
          cases hqn : upd c.heap p { pn with next := some q } q with
          | none => simp [hqn] at h
          | some qn =>
            simp only [hqn, Option.bind_some, Option.some.injEq] at h; subst h
            exact hb_upd _ _ _ qn _ hqn hb1 j hj


omit [DecidableEq K] in
def HExt (h h' : Heap K V) (fr : Nat) : Prop := HK h h' ∧ (HB h fr → HB h' fr)
omit [DecidableEq K] in
theorem HExt.refl (h : Heap K V) (fr : Nat) : HExt h h fr := ⟨HK.refl _, id⟩
omit [DecidableEq K] in
theorem HExt.trans {h1 h2 h3 : Heap K V} {fr : Nat} (a : HExt h1 h2 fr) (b : HExt h2 h3 fr) : HExt h1 h3 fr :=
  ⟨a.1.trans b.1, fun x => b.2 (a.2 x)⟩
omit [DecidableEq K] in
theorem hext_upd (h : Heap K V) (fr i : Nat) (m n' : Node K V) (hi : h i = some m) (hk : n'.key = m.key) :
    HExt h (upd h i n') fr :=
  ⟨hk_upd _ _ _ (fun x hx => by rw [hi] at hx; cases hx; exact hk), hb_upd _ _ _ m _ hi⟩

theorem moveToTail_ext (c c' : Cache K V) (i : Nat) (h : moveToTail c i = some c') : Ext c c' := by
  suffices hs : HExt c.heap c'.heap c.fresh ∧ c'.fresh = c.fresh by
    exact ⟨hs.1.1, by rw [hs.2]; exact Nat.le_refl _, fun hb => by rw [hs.2]; exact hs.1.2 hb⟩
  unfold moveToTail at h
  simp only [Option.bind_eq_bind, Option.pure_def] at h
  cases hn : c.heap i with
  | none => simp [hn] at h
  | some n =>
    simp only [hn, Option.bind_some] at h
    cases hq : n.next with
    | none => simp only [hq, Option.some.injEq] at h; subst h; exact ⟨HExt.refl _ _, rfl⟩
    | some q =>
      simp only [hq] at h
      cases hqn : c.heap q with
      | none => simp [hqn] at h
      | some qn =>
        simp only [hqn, Option.bind_some] at h
        have e1 := hext_upd c.heap c.fresh q qn { qn with prev := n.prev } hqn rfl
        cases ht : c.tail with
        | none =>
          cases hp : n.prev with
          | none => simp [hp, ht] at h
          | some p =>
            simp only [hp] at h
            cases hpn : upd c.heap q { qn with prev := some p } p with
            | none => simp [hpn] at h
            | some pn => simp [hpn, ht] at h
        | some t =>
          -- the remaining lookups, in the heap reached so far
          have fin : ∀ (hp : Heap K V) (hd : Option Nat), HExt c.heap hp c.fresh →
              (do
                let n' ← hp i
                let heap := upd hp i { n' with prev := some t, next := none }
                let tn ← heap t
                let heap := upd heap t { tn with next := some i }
                pure { c with heap := heap, head := hd, tail := some i } : Option (Cache K V)) = some c' →
              HExt c.heap c'.heap c.fresh ∧ c'.fresh = c.fresh := by
            intro hp hd e hh
            simp only [Option.bind_eq_bind, Option.pure_def] at hh
            cases hi : hp i with
            | none => simp [hi] at hh
            | some n' =>
              simp only [hi, Option.bind_some] at hh
              have e2 := hext_upd hp c.fresh i n' { n' with prev := some t, next := none } hi rfl
              cases htn : upd hp i { n' with prev := some t, next := none } t with
              | none => simp [htn] at hh
              | some tn =>
                simp only [htn, Option.bind_some, Option.some.injEq] at hh; subst hh
                exact ⟨e.trans (e2.trans (hext_upd _ c.fresh t tn { tn with next := some i } htn rfl)), rfl⟩
          cases hp : n.prev with
          | none =>
            simp only [hp, Option.bind_some, ht] at h e1
            exact fin _ _ e1 h
          | some p =>
            simp only [hp] at h e1
            cases hpn : upd c.heap q { qn with prev := some p } p with
            | none => simp [hpn] at h
            | some pn =>
              simp only [hpn, Option.bind_some, ht] at h
              exact fin _ _ (e1.trans (hext_upd _ c.fresh p pn { pn with next := some q } hpn rfl)) h

/-- under the allocation discipline, every node keeps its key and the discipline is kept -/
def Stable (c c' : Cache K V) : Prop := HB c.heap c.fresh → HK c.heap c'.heap ∧ HB c'.heap c'.fresh

omit [DecidableEq K] in
theorem Stable.refl (c : Cache K V) : Stable c c := fun hb => ⟨HK.refl _, hb⟩
omit [DecidableEq K] in
theorem Stable.trans {a b c : Cache K V} (x : Stable a b) (y : Stable b c) : Stable a c :=
  fun hb => ⟨(x hb).1.trans (y (x hb).2).1, (y (x hb).2).2⟩
omit [DecidableEq K] in
theorem Ext.stable {c c' : Cache K V} (e : Ext c c') : Stable c c' := fun hb => ⟨e.1, e.2.2 hb⟩

theorem insertTail_stable (c c' : Cache K V) (k : K) (v : V) (h : insertTail c k v = some c') : Stable c c' := by
  intro hb
  unfold insertTail at h
  have hk0 : HK c.heap (upd c.heap c.fresh { prev := c.tail, next := none, key := k, val := v }) :=
    hk_upd _ _ _ (fun n hn => by rw [hb c.fresh (Nat.le_refl _)] at hn; cases hn)
  have hb0 : HB (upd c.heap c.fresh { prev := c.tail, next := none, key := k, val := v }) (c.fresh + 1) := by
    intro j hj
    have : j ≠ c.fresh := by omega
    simp [upd, this, hb j (by omega)]
  cases ht : c.tail with
  | none =>
    simp only [ht, Option.pure_def, Option.some.injEq] at h; subst h
    exact ⟨by simpa [ht] using hk0, by simpa [ht] using hb0⟩
  | some t =>
    simp only [ht, Option.bind_eq_bind, Option.pure_def] at h hk0 hb0
    cases htn : upd c.heap c.fresh { prev := some t, next := none, key := k, val := v } t with
    | none => simp [htn] at h
    | some tn =>
      simp only [htn, Option.bind_some, Option.some.injEq] at h; subst h
      have e := hext_upd _ (c.fresh + 1) t tn { tn with next := some c.fresh } htn rfl
      exact ⟨hk0.trans e.1, e.2 hb0⟩

theorem insert_stable (c c' : Cache K V) (k : K) (v : V) (h : insert c k v = some c') : Stable c c' := by
  unfold insert at h
  simp only [Option.bind_eq_bind, Option.pure_def] at h
  split at h
  · cases hh : c.head with
    | none => simp [hh] at h
    | some hd =>
      simp only [hh] at h
      cases hr : remove c hd with
      | none => simp [hr] at h
      | some c1 =>
        simp only [hr, Option.bind_some] at h
        exact (remove_ext c c1 hd hr).stable.trans (insertTail_stable c1 c' k v h)
  · simp only [Option.bind_some] at h
    exact insertTail_stable c c' k v h

/-- **pointer stability**: whatever operation runs, a node once allocated stays allocated and keeps its
key — an `*Entry` handed out by `GetEntry(k)` (the API listed in `Gen.entryPointerAPIs`) refers to key
`k` for ever; nodes are never recycled for another key. -/
theorem step_stable (c c' : Cache K V) (o : Op K V) (out : Out V) (h : step c o = some (c', out)) : Stable c c' := by
  cases o with
  | get k =>
    simp only [step, get, Option.map_eq_some_iff] at h
    obtain ⟨⟨c1, r⟩, h1, h2⟩ := h
    cases h2
    cases hl : lookupIdx c.idx k with
    | none => simp only [hl, Option.some.injEq, Prod.mk.injEq] at h1; rw [← h1.1]; exact Stable.refl _
    | some i =>
      simp only [hl, Option.bind_eq_bind, Option.pure_def] at h1
      cases hm : moveToTail c i with
      | none => simp [hm] at h1
      | some c2 =>
        simp only [hm, Option.bind_some] at h1
        cases hn : c2.heap i with
        | none => simp [hn] at h1
        | some n =>
          simp only [hn, Option.bind_some, Option.some.injEq, Prod.mk.injEq] at h1
          rw [← h1.1]; exact (moveToTail_ext c c2 i hm).stable
  | set k v =>
    simp only [step, set, Option.map_eq_some_iff] at h
    obtain ⟨c1, h1, h2⟩ := h
    cases h2
    cases hl : lookupIdx c.idx k with
    | none => simp only [hl] at h1; exact insert_stable c c' k v h1
    | some i =>
      simp only [hl, Option.bind_eq_bind] at h1
      cases hn : c.heap i with
      | none => simp [hn] at h1
      | some n =>
        simp only [hn, Option.bind_some] at h1
        have e1 : Ext c { c with heap := upd c.heap i { n with val := v } } :=
          ext_upd c i n { n with val := v } hn rfl _ rfl rfl
        exact e1.stable.trans (moveToTail_ext _ c' i h1).stable
  | insert k v =>
    simp only [step, insertNew, Option.map_eq_some_iff] at h
    obtain ⟨⟨c1, r⟩, h1, h2⟩ := h
    cases h2
    cases hl : lookupIdx c.idx k with
    | some i => simp only [hl, Option.some.injEq, Prod.mk.injEq] at h1; rw [← h1.1]; exact Stable.refl _
    | none =>
      simp only [hl, Option.bind_eq_bind, Option.pure_def] at h1
      cases hi : insert c k v with
      | none => simp [hi] at h1
      | some c2 =>
        simp only [hi, Option.bind_some, Option.some.injEq, Prod.mk.injEq] at h1
        rw [← h1.1]; exact insert_stable c c2 k v hi
  | remove k =>
    simp only [step, removeKey, Option.map_eq_some_iff] at h
    obtain ⟨⟨c1, r⟩, h1, h2⟩ := h
    cases h2
    cases hl : lookupIdx c.idx k with
    | none => simp only [hl, Option.some.injEq, Prod.mk.injEq] at h1; rw [← h1.1]; exact Stable.refl _
    | some i =>
      simp only [hl, Option.bind_eq_bind, Option.pure_def] at h1
      cases hr : remove c i with
      | none => simp [hr] at h1
      | some c2 =>
        simp only [hr, Option.bind_some, Option.some.injEq, Prod.mk.injEq] at h1
        rw [← h1.1]; exact (remove_ext c c2 i hr).stable
  | contains k =>
    simp only [step, Option.some.injEq, Prod.mk.injEq] at h
    rw [← h.1]; exact Stable.refl _

theorem run_stable (c c' : Cache K V) (ops : List (Op K V)) (outs : List (Out V)) (h : run c ops = some (c', outs)) :
    Stable c c' := by
  induction ops generalizing c c' outs with
  | nil => simp only [run, Option.some.injEq, Prod.mk.injEq] at h; rw [← h.1]; exact Stable.refl _
  | cons o rest ih =>
    simp only [run, Option.bind_eq_bind, Option.pure_def] at h
    cases hs : step c o with
    | none => simp [hs] at h
    | some p =>
      obtain ⟨c1, out⟩ := p
      simp only [hs, Option.bind_some] at h
      cases hr : run c1 rest with
      | none => simp [hr] at h
      | some q =>
        obtain ⟨c2, outs2⟩ := q
        simp only [hr, Option.bind_some, Option.some.injEq, Prod.mk.injEq] at h
        rw [← h.1]
        exact (step_stable c c1 o out hs).trans (ih c1 c2 outs2 hr)


end SSV.Lru
