import SSV.Proofs.PipeStable
import SSV.Proofs.PipeTerm
import SSV.Proofs.PipeTermDL
/-
C15 — concrete runs of the model (witnesses that the hypotheses of the property theorems are satisfiable, and
that the model can actually transfer data, half-close, time out).
-/
namespace SSV.Pipe.Ex

theorem loc {s s' : State} (r : Reachable s) (i : Nat) (h : s' ∈ localSteps s i) : Reachable s' := .step r (.loc i h)

/-- run the only enabled local step of thread `i` -/
def step1 (s : State) (i : Nat) : State := (localSteps s i).headD s

theorem reach_step1 {s : State} (r : Reachable s) (i : Nat) (h : localSteps s i ≠ []) : Reachable (step1 s i) := by
  unfold step1
  cases hl : localSteps s i with
  | nil => exact absurd hl h
  | cons x xs => exact loc r i (by simp [hl])

def startD (s : State) (i : Nat) (op : Op) : State := (start s i op).getD s
def dataD (s : State) (i j : Nat) : State := (data s i j).getD s
def countD (s : State) (i j : Nat) : State := (count s i j).getD s

theorem reach_start {s : State} (r : Reachable s) (i : Nat) (op : Op) (h : (start s i op).isSome) : Reachable (startD s i op) := by
  unfold startD; cases hs : start s i op with
  | none => simp [hs] at h
  | some s' => exact .step r (.start i op hs)

theorem reach_data {s : State} (r : Reachable s) (i j : Nat) (h : (data s i j).isSome) : Reachable (dataD s i j) := by
  unfold dataD; cases hs : data s i j with
  | none => simp [hs] at h
  | some s' => exact .step r (.data i j hs)

theorem reach_count {s : State} (r : Reachable s) (i j : Nat) (h : (count s i j).isSome) : Reachable (countD s i j) := by
  unfold countD; cases hs : count s i j with
  | none => simp [hs] at h
  | some s' => exact .step r (.count i j hs)

/-! CloseWrite: Store(EOF) ; close -/
def c1 := startD init 0 (.closeWrite none)
def c2 := step1 c1 0
def c3 := step1 c2 0

theorem c3_reachable : Reachable c3 :=
  reach_step1 (reach_step1 (reach_start .init 0 _ (by decide)) 0 (by decide)) 0 (by decide)

theorem c3_closed : closedAs c3 .eof := ⟨by decide, by decide⟩

theorem c3_bounded : Bounded 1 c3 := by
  intro i hi
  have h : i ≠ 0 := by omega
  simp [c3, c2, c1, step1, startD, start, localSteps, init, State.setT, Op.entry, h]

/-! thread 0 writes [1,2,3]; thread 1 reads with a 2-byte buffer -/
def w1 := startD init 0 (.write [1, 2, 3])
def w2 := step1 (step1 (step1 (step1 w1 0) 0) 0) 0      -- wChk1, wChk2, wLock, wEnter  → in the select
def w3 := startD w2 1 (.read 2)
def w4 := step1 (step1 (step1 w3 1) 1) 1                -- rChk1, rChk2, rEnter → in the select
def w5 := dataD w4 1 0                                   -- data channel
def w6 := countD w5 1 0                                  -- count-back

theorem w6_reachable : Reachable w6 := by
  refine reach_count (reach_data (reach_step1 (reach_step1 (reach_step1 (reach_start
    (reach_step1 (reach_step1 (reach_step1 (reach_step1 (reach_start .init 0 _ ?_) 0 ?_) 0 ?_) 0 ?_) 0 ?_) 1 _ ?_) 1 ?_) 1 ?_) 1 ?_) 1 0 ?_) 1 0 ?_ <;> decide

theorem w6_facts : w6.rret = [1, 2] ∧ w6.wlog = [([1, 2, 3], 2)] ∧ w6.thr 1 = .rRet 2 .nil ∧
    w6.thr 0 = .wEnter [3] 2 0 := by decide

theorem w4_in_selects : w4.thr 0 = .wSel [1, 2, 3] 0 0 0 ∧ w4.thr 1 = .rSel (.read 2) 0 0 := by decide
theorem w5_in_handshake : w5.thr 1 = .rAck (.read 2) 0 2 false [1, 2] ∧ w5.thr 0 = .wAwait [1, 2, 3] 0 0 := by decide


/-! CloseRead: Store(ErrClosedPipe) ; close -/
def r3 := step1 (step1 (startD init 0 (.closeRead none)) 0) 0
theorem r3_reachable : Reachable r3 :=
  reach_step1 (reach_step1 (reach_start .init 0 _ (by decide)) 0 (by decide)) 0 (by decide)
theorem r3_closed : closedAs r3 .closedPipe := ⟨by decide, by decide⟩

/-! thread 1 blocks in a Read; thread 2 sets a past read deadline; thread 0 blocks in a Write and thread 3
queues on the mutex; then thread 2 sets a past write deadline too -/
def d1 := step1 (step1 (step1 (startD init 1 (.read 4)) 1) 1) 1
def d2 := step1 (step1 (startD d1 2 (.setRD .past)) 2) 2
def d3 := step1 (step1 (step1 (step1 (startD d2 0 (.write [7])) 0) 0) 0) 0
def d4 := step1 (step1 (startD d3 3 (.write [8])) 3) 3

theorem d4_reachable : Reachable d4 := by
  refine reach_step1 (reach_step1 (reach_start (reach_step1 (reach_step1 (reach_step1 (reach_step1 (reach_start
    (reach_step1 (reach_step1 (reach_start (reach_step1 (reach_step1 (reach_step1 (reach_start .init 1 _ ?_) 1 ?_) 1 ?_) 1 ?_)
    2 _ ?_) 2 ?_) 2 ?_) 0 _ ?_) 0 ?_) 0 ?_) 0 ?_) 0 ?_) 3 _ ?_) 3 ?_) 3 ?_ <;> decide

theorem d4_facts : d4.rdl.closed = true ∧ d4.thr 1 = .rSel (.read 4) 0 0 ∧ d4.thr 0 = .wSel [7] 0 0 0 ∧
    d4.thr 3 = .wLock [8] ∧ d4.mu = some 0 ∧ d4.done = false := by decide


/-! …then thread 2 collects its result, sets a past WRITE deadline too and collects again: both expired -/
def finishD (s : State) (i : Nat) : State := (finish s i).getD s
theorem reach_finish {s : State} (r : Reachable s) (i : Nat) (h : (finish s i).isSome) : Reachable (finishD s i) := by
  unfold finishD; cases hs : finish s i with
  | none => simp [hs] at h
  | some s' => exact .step r (.finish i hs)

def d5 := step1 (step1 (startD (finishD d4 2) 2 (.setWD .past)) 2) 2
def d6 := finishD d5 2

theorem d6_reachable : Reachable d6 := by
  refine reach_finish (reach_step1 (reach_step1 (reach_start (reach_finish d4_reachable 2 ?_) 2 _ ?_) 2 ?_) 2 ?_) 2 ?_ <;> decide

theorem d6_bounded : Bounded 4 d6 := by
  intro i hi
  have h0 : i ≠ 0 := by omega
  have h1 : i ≠ 1 := by omega
  have h2 : i ≠ 2 := by omega
  have h3 : i ≠ 3 := by omega
  simp [d6, d5, d4, d3, d2, d1, finishD, finish, step1, startD, start, localSteps, init, State.setT, Op.entry, DL.set, DL.init,
    h0, h1, h2, h3]

theorem d6_expired : Expired d6 := by
  refine ⟨by decide, by decide, ?_⟩
  intro i
  by_cases h : i < 4
  · have : i = 0 ∨ i = 1 ∨ i = 2 ∨ i = 3 := by omega
    rcases this with h | h | h | h <;> subst h <;> decide
  · rw [d6_bounded i (by omega)]; rfl

end SSV.Pipe.Ex
