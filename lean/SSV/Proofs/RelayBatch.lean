import SSV.Model.Relay
/-
The sendmmsg relay loops send exactly the kept messages (fill index = kept-counter).
-/
namespace SSV.Relay

theorem take_set_succ {α : Type} (l : List α) (n : Nat) (x : α) (h : n < l.length) :
    (l.set n x).take (n + 1) = l.take n ++ [x] := by
  induction l generalizing n with
  | nil => simp at h
  | cons a t ih =>
    cases n with
    | zero => simp
    | succ m =>
      simp only [List.set_cons_succ, List.take_succ_cons, List.cons_append]
      rw [ih m (by simpa using h)]

theorem take_set_of_le {α : Type} (l : List α) (n k : Nat) (x : α) (h : k ≤ n) :
    (l.set n x).take k = l.take k := by
  induction l generalizing n k with
  | nil => simp
  | cons a t ih =>
    cases k with
    | zero => simp
    | succ k' =>
      cases n with
      | zero => omega
      | succ n' =>
        simp only [List.set_cons_succ, List.take_succ_cons]
        rw [ih n' k' (by omega)]

theorem batchLoop_counter {α : Type} (rx : List (Option α)) (i ns : Nat) (slots : List α)
    (h : ns + rx.length ≤ slots.length) :
    (batchLoop .counter rx i ns slots).2.take (batchLoop .counter rx i ns slots).1 =
      slots.take ns ++ rx.filterMap id ∧
    (batchLoop .counter rx i ns slots).2.length = slots.length := by
  induction rx generalizing i ns slots with
  | nil => simp [batchLoop]
  | cons r rest ih =>
    cases r with
    | none =>
      simp only [batchLoop, List.filterMap_cons, id]
      exact ih (i + 1) ns slots (by simp at h; omega)
    | some x =>
      simp only [batchLoop, List.filterMap_cons, id]
      have hlt : ns < slots.length := by simp at h; omega
      have := ih (i + 1) (ns + 1) (slots.set ns x) (by simp at h ⊢; omega)
      rw [take_set_succ slots ns x hlt] at this
      refine ⟨by rw [this.1]; simp, by rw [this.2]; simp⟩

/-- whatever earlier batches left in the send vector, and whichever messages of the batch are dropped:
the messages handed to sendmmsg are exactly the kept ones, in order, each its own (header, payload) -/
theorem batch_sends_kept {α : Type} (slots : List α) (rx : List (Option α)) (h : rx.length ≤ slots.length) :
    (batchSend .counter slots rx).2 = rx.filterMap id := by
  have := (batchLoop_counter rx 0 0 slots (by simpa using h)).1
  simpa [batchSend] using this

end SSV.Relay
