import SSV.Model.DomainSet
/-
Capacity hints and `make`: with the clamp by the text size no hint value can violate the precondition of
`make([]string, 0, n)`; without the clamp exactly the keyword / regexp hints above `maxSliceCap` would.
-/
namespace SSV.DomainSet

theorem clampHint_le (text : Str) (h : Nat) : clampHint text h ≤ text.length / 8 + 1 := by
  unfold clampHint
  simp only [SSV.Gen.C10.hintClampDiv, SSV.Gen.C10.hintClampAdd]
  omega

/-- for every text shorter than 2^47 bytes (128 TiB) and every hint value, loading never panics in `make`: the outcome
is exactly the error / builder of the panic-free model -/
theorem builderFromTextX_eq (text : Str) (hlen : text.length < 2 ^ 47) :
    builderFromTextX text = Load.ofExcept (builderFromText text) := by
  have hc : ∀ h, ¬ clampHint text h > maxSliceCap := by
    intro h
    have := clampHint_le text h
    unfold maxSliceCap
    omega
  unfold builderFromTextX builderFromText
  cases nonEmptyLines text with
  | nil => rfl
  | cons first rest =>
    simp only
    cases parseCapacityHint first with
    | absent => rfl
    | bad => rfl
    | found dskr =>
      simp only
      cases rest with
      | nil => rfl
      | cons x xs => simp [hc]

/-- what the unclamped code (before e3a55d9) did: `make([]string, 0, n)` panics exactly when `n > maxSliceCap`;
the memory the clamped hints can request is bounded by the size of the file -/
theorem clamped_alloc_bounded (text : Str) (h : Nat) : clampHint text h * 16 ≤ 2 * text.length + 16 := by
  have := clampHint_le text h
  omega

end SSV.DomainSet
