import SSV.Proofs.SWFBits
/-
Refinement of the ring-of-words filter (Model/SWF.lean) to "set of delivered ids + newest":
the simulation invariant `Inv f d` and its preservation by `new`, `isOk`, `mustAdd`, `add`.
-/
namespace SSV.SWF

theorem le_newest {d : List Nat} {c : Nat} (h : c ∈ d) : c ≤ newest d := by
  induction d with
  | nil => cases h
  | cons a t ih =>
    simp only [newest, List.foldr_cons]
    rcases List.mem_cons.mp h with rfl | h
    · exact Nat.le_max_left _ _
    · exact Nat.le_trans (ih h) (Nat.le_max_right _ _)

theorem newest_mem_or_zero (d : List Nat) : newest d ∈ d ∨ newest d = 0 := by
  induction d with
  | nil => right; rfl
  | cons a t ih =>
    simp only [newest, List.foldr_cons]
    rcases Nat.le_total (List.foldr max 0 t) a with h | h
    · left; rw [Nat.max_eq_left h]; exact List.mem_cons_self
    · rw [Nat.max_eq_right h]
      rcases ih with ih | ih
      · left; exact List.mem_cons_of_mem _ ih
      · have h0 : List.foldr max 0 t = 0 := ih
        have : a = 0 := by omega
        left; rw [h0, this]; exact List.mem_cons_self

theorem newest_eq {d : List Nat} {m : Nat} (hle : ∀ c ∈ d, c ≤ m) (hm : m ∈ d ∨ m = 0) : newest d = m := by
  rcases hm with hm | hm
  · have h1 := le_newest hm
    rcases newest_mem_or_zero d with h | h
    · have := hle _ h; omega
    · omega
  · rcases newest_mem_or_zero d with h | h
    · have := hle _ h; omega
    · omega

/-- well-formed ring: what `NewSlidingWindowFilter` establishes for sizes in range -/
structure WF (f : Filter) : Prop where
  pow : ∃ k, f.ring.length = 2 ^ k ∧ f.mask = 2 ^ k - 1
  size_pos : 1 ≤ f.size
  cap : f.size + 64 ≤ f.ring.length * 64

/-- simulation invariant between the filter and the list of delivered ids -/
structure Inv (f : Filter) (d : List Nat) : Prop where
  wf : WF f
  mem_le : ∀ c ∈ d, c ≤ f.last
  last_mem : f.last ∈ d ∨ f.last = 0
  bits : ∀ c, c / 64 ≤ f.last / 64 → f.last / 64 < c / 64 + f.ring.length →
    (word f ((c / 64) % f.ring.length)).testBit (c % 64) = decide (c ∈ d)
  words : ∀ i, word f i < 2 ^ 64

theorem Inv.newest {f : Filter} {d : List Nat} (h : Inv f d) : newest d = f.last :=
  newest_eq h.mem_le h.last_mem

theorem WF.ring_pos {f : Filter} (h : WF f) : 0 < f.ring.length := by
  obtain ⟨k, hk, _⟩ := h.pow
  rw [hk]; exact Nat.two_pow_pos k

theorem WF.blockIndex_eq {f : Filter} (h : WF f) (c : Nat) : SWF.blockIndex f c = (c / 64) % f.ring.length := by
  obtain ⟨k, hk, hm⟩ := h.pow
  simp only [SWF.blockIndex, blockBits_eq, hm, hk, Nat.and_two_pow_sub_one_eq_mod]

/-- every ring access of `IsOk`/`MustAdd`/`Add` is in range -/
theorem WF.blockIndex_lt {f : Filter} (h : WF f) (c : Nat) : SWF.blockIndex f c < f.ring.length := by
  rw [h.blockIndex_eq]; exact Nat.mod_lt _ h.ring_pos

/-! ### `new` -/

theorem len64_bounds {x : Nat} (hx : x ≠ 0) : 2 ^ (len64 x - 1) ≤ x ∧ x < 2 ^ len64 x ∧ 1 ≤ len64 x := by
  simp only [len64, hx, if_false, Nat.add_sub_cancel]
  exact ⟨Nat.log2_self_le hx, Nat.lt_log2_self, by omega⟩

theorem new_shape (size : Nat) (h1 : 1 ≤ size) (h2 : size + 63 < 2 ^ 63) :
    ∃ k, (new size).ring = List.replicate (2 ^ k) 0 ∧ (new size).mask = 2 ^ k - 1 ∧
      size + 64 ≤ 2 ^ k * 64 ∧ (new size).size = size ∧ (new size).last = 0 := by
  have hx : size + 63 ≠ 0 := by omega
  obtain ⟨hlo, hhi, _⟩ := len64_bounds hx
  generalize hL : len64 (size + 63) = L at hlo hhi
  have hL7 : 7 ≤ L := by
    apply Classical.byContradiction; intro hn
    have : 2 ^ L ≤ 2 ^ 6 := Nat.pow_le_pow_right (by decide) (by omega)
    omega
  have hL63 : L ≤ 63 := by
    apply Classical.byContradiction; intro hn
    have : 2 ^ 63 ≤ 2 ^ (L - 1) := Nat.pow_le_pow_right (by decide) (by omega)
    omega
  have hW : (2 : Nat) ^ L < 2 ^ 64 := Nat.pow_lt_pow_right (by decide) (by omega)
  have hdiv : (2 : Nat) ^ L / 64 = 2 ^ (L - 6) := by
    have : (64 : Nat) = 2 ^ 6 := by decide
    rw [this, Nat.pow_div (by omega) (by decide)]
  have hmul : (2 : Nat) ^ (L - 6) * 64 = 2 ^ L := by
    have : (64 : Nat) = 2 ^ 6 := by decide
    rw [this, ← Nat.pow_add]; congr 1; omega
  have hpos : 0 < (2 : Nat) ^ (L - 6) := Nat.two_pow_pos _
  have hlt : (2 : Nat) ^ (L - 6) < 2 ^ 64 := Nat.pow_lt_pow_right (by decide) (by omega)
  have harg : (size + 64 - 1) % 2 ^ 64 = size + 63 := by omega
  refine ⟨L - 6, ?_, ?_, ?_, rfl, rfl⟩
  · simp only [new, Nat.one_shiftLeft, blockBits_eq, W]
    rw [harg, hL, Nat.mod_eq_of_lt hW, hdiv]
  · simp only [new, Nat.one_shiftLeft, blockBits_eq, W]
    rw [harg, hL, Nat.mod_eq_of_lt hW, hdiv]
    omega
  · omega

theorem new_inv (size : Nat) (h1 : 1 ≤ size) (h2 : size + 63 < 2 ^ 63) : Inv (new size) [] := by
  obtain ⟨k, hring, hmask, hcap, hsize, hlast⟩ := new_shape size h1 h2
  have hlen : (new size).ring.length = 2 ^ k := by rw [hring, List.length_replicate]
  have hword : ∀ i, word (new size) i = 0 := by
    intro i
    simp only [word, hring, List.getD_eq_getElem?_getD, List.getElem?_replicate]
    split <;> rfl
  refine ⟨⟨⟨k, hlen, hmask⟩, by omega, by rw [hsize, hlen]; exact hcap⟩, ?_, Or.inr hlast, ?_, ?_⟩
  · intro c hc; cases hc
  · intro c _ _
    rw [hword, Nat.zero_testBit]; simp
  · intro i; rw [hword]; exact Nat.two_pow_pos 64

/-! ### `add` is `isOk` followed by `mustAdd` -/

theorem add_eq (f : Filter) (c : Nat) :
    add f c = if isOk f c then (mustAdd f c, true) else (f, false) := by
  unfold add isOk mustAdd
  by_cases h1 : c > f.last
  · simp [h1]
  · by_cases h2 : f.last - c ≥ f.size
    · simp [h1, h2]
    · simp only [h1, h2, if_false]
      rw [and_shift_bne_zero, and_shift_beq_zero]
      cases (word f (blockIndex f c)).testBit (bitIndex c) <;> simp

/-! ### `isOk` decides freshness -/

theorem isOk_iff {f : Filter} {d : List Nat} (h : Inv f d) (c : Nat) :
    isOk f c = true ↔ (c ∉ d ∧ (d = [] ∨ newest d < c ∨ newest d - c < f.size)) := by
  have hsz := h.wf.size_pos
  have hcap := h.wf.cap
  rw [h.newest]
  unfold isOk
  by_cases h1 : c > f.last
  · rw [if_pos h1]
    refine ⟨fun _ => ⟨fun hc => ?_, Or.inr (Or.inl h1)⟩, fun _ => rfl⟩
    have := h.mem_le c hc; omega
  · rw [if_neg h1]
    by_cases h2 : f.last - c ≥ f.size
    · rw [if_pos h2]
      constructor
      · intro hf; cases hf
      · rintro ⟨_, hd | hd | hd⟩
        · exfalso
          rcases h.last_mem with hm | hm
          · rw [hd] at hm; cases hm
          · omega
        · omega
        · omega
    · rw [if_neg h2]
      rw [and_shift_beq_zero, h.wf.blockIndex_eq, bitIndex, blockBits_eq]
      rw [h.bits c (by omega) (by omega)]
      by_cases hc : c ∈ d
      · simp [hc]
      · simp only [hc, decide_false, Bool.not_false, not_false_eq_true, true_and, true_iff]
        right; right; omega

/-! ### `setBit` -/

theorem word_setBit {f : Filter} (hwf : WF f) (c i : Nat) :
    word (setBit f c) i =
      if (c / 64) % f.ring.length = i then word f i ||| (1 <<< (c % 64)) else word f i := by
  simp only [setBit, word, hwf.blockIndex_eq, bitIndex, blockBits_eq]
  rw [getD_set _ _ _ _ (Nat.mod_lt _ hwf.ring_pos)]
  split
  · next h => rw [h]
  · rfl

theorem setBit_ring_length (f : Filter) (c : Nat) : (setBit f c).ring.length = f.ring.length := by
  simp [setBit]

theorem setBit_wf {f : Filter} (h : WF f) (c : Nat) : WF (setBit f c) := by
  obtain ⟨k, hk, hm⟩ := h.pow
  exact ⟨⟨k, by rw [setBit_ring_length]; exact hk, hm⟩, h.size_pos, by rw [setBit_ring_length]; exact h.cap⟩

/-- setting the bit of `c`, when the ring already describes `d` for the window ending at `f.last`
and `c` lies in that window -/
theorem setBit_inv {f : Filter} {d : List Nat} (hwf : WF f)
    (hmem : ∀ x ∈ d, x ≤ f.last) (hc : c ≤ f.last) (hlast : f.last ∈ c :: d)
    (hwin : f.last / 64 < c / 64 + f.ring.length)
    (hbits : ∀ x, x / 64 ≤ f.last / 64 → f.last / 64 < x / 64 + f.ring.length →
      (word f ((x / 64) % f.ring.length)).testBit (x % 64) = decide (x ∈ d))
    (hwords : ∀ i, word f i < 2 ^ 64) :
    Inv (setBit f c) (c :: d) := by
  refine ⟨setBit_wf hwf c, ?_, Or.inl hlast, ?_, ?_⟩
  · intro x hx
    rcases List.mem_cons.mp hx with rfl | hx
    · exact hc
    · exact hmem x hx
  · intro x hx1 hx2
    rw [setBit_ring_length] at hx2 ⊢
    show (word (setBit f c) _).testBit _ = _
    have hl : (setBit f c).last = f.last := rfl
    rw [hl] at hx1 hx2
    rw [word_setBit hwf]
    by_cases hb : c / 64 = x / 64
    · rw [hb]; simp only [if_true]
      rw [testBit_or_shift, hbits x hx1 hx2]
      by_cases hcx : c = x
      · subst hcx; simp
      · have : ¬ c % 64 = x % 64 := by omega
        have hxc : ¬ x = c := fun e => hcx e.symm
        simp [this, hxc]
    · have hne : ¬ (c / 64) % f.ring.length = (x / 64) % f.ring.length := by
        intro e
        exact hb (mod_inj_window (B := f.last / 64) (by omega) hwin hx1 hx2 e)
      simp only [hne, if_false]
      rw [hbits x hx1 hx2]
      have hxc : ¬ x = c := by intro e; subst e; exact hb rfl
      simp [hxc]
  · intro i
    rw [word_setBit hwf]
    split
    · exact or_shift_lt _ _ (hwords i) (Nat.mod_lt _ (by decide))
    · exact hwords i

/-! ### `advance` -/

theorem advance_ring_length (f : Filter) (c : Nat) : (advance f c).ring.length = f.ring.length := by
  simp [advance, clearLoop_length]

theorem advance_wf {f : Filter} (h : WF f) (c : Nat) : WF (advance f c) := by
  obtain ⟨k, hk, hm⟩ := h.pow
  exact ⟨⟨k, by rw [advance_ring_length]; exact hk, hm⟩, h.size_pos, by rw [advance_ring_length]; exact h.cap⟩

/-- blocks newer than the old newest block are cleared -/
theorem advance_cleared {f : Filter} (hwf : WF f) {c b : Nat} (hc : c > f.last)
    (hb1 : f.last / 64 < b) (hb2 : b ≤ c / 64) :
    word (advance f c) (b % f.ring.length) = 0 := by
  obtain ⟨k, hk, hm⟩ := hwf.pow
  simp only [advance, word, unmaskedBlockIndex, blockBits_eq, hm, hk]
  by_cases hle : c / 64 - f.last / 64 ≤ 2 ^ k
  · rw [Nat.min_eq_left hle]
    have := clearLoop_cleared k (c / 64 - f.last / 64) (f.last / 64) (b - f.last / 64) f.ring (by omega) (by omega)
    have e : f.last / 64 + (b - f.last / 64) = b := by omega
    rw [e] at this; exact this
  · rw [Nat.min_eq_right (by omega)]
    have hpos : 0 < 2 ^ k := Nat.two_pow_pos k
    have hlt := Nat.mod_lt (b - f.last / 64 - 1) hpos
    have := clearLoop_cleared k (2 ^ k) (f.last / 64) ((b - f.last / 64 - 1) % 2 ^ k + 1) f.ring (by omega) (by omega)
    have e : f.last / 64 + ((b - f.last / 64 - 1) % 2 ^ k + 1) = (b - f.last / 64 - 1) % 2 ^ k + (f.last / 64 + 1) := by omega
    rw [e, Nat.mod_add_mod] at this
    have e2 : b - f.last / 64 - 1 + (f.last / 64 + 1) = b := by omega
    rw [e2] at this; exact this

/-- blocks up to the old newest block that are still inside the new window keep their words -/
theorem advance_kept {f : Filter} (hwf : WF f) {c b : Nat} (hc : c > f.last)
    (hb1 : b ≤ f.last / 64) (hb2 : c / 64 < b + f.ring.length) :
    word (advance f c) (b % f.ring.length) = word f (b % f.ring.length) := by
  obtain ⟨k, hk, hm⟩ := hwf.pow
  simp only [advance, word, unmaskedBlockIndex, blockBits_eq, hm, hk]
  rw [hk] at hb2
  apply clearLoop_kept
  intro t h1 hn e
  have hn' : t ≤ c / 64 - f.last / 64 := Nat.le_trans hn (Nat.min_le_left _ _)
  have := mod_inj_window (R := 2 ^ k) (B := c / 64) (a := f.last / 64 + t) (b := b) (by omega) (by omega) (by omega) hb2 e
  omega

/-! ### `mustAdd` after a positive `isOk` -/

theorem mustAdd_inv {f : Filter} {d : List Nat} (h : Inv f d) {c : Nat} (hok : isOk f c = true) :
    Inv (mustAdd f c) (c :: d) := by
  have hfresh := (isOk_iff h c).mp hok
  have hcap := h.wf.cap
  unfold mustAdd
  by_cases h1 : c > f.last
  · simp only [h1, if_true]
    have hwf' := advance_wf h.wf c
    have hl : (advance f c).last = c := rfl
    have hlen := advance_ring_length f c
    apply setBit_inv hwf'
    · intro x hx; rw [hl]; have := h.mem_le x hx; omega
    · rw [hl]; exact Nat.le_refl c
    · rw [hl]; exact List.mem_cons_self
    · rw [hl, hlen]; have := h.wf.ring_pos; omega
    · intro x hx1 hx2
      rw [hl] at hx1 hx2
      rw [hlen] at hx2 ⊢
      by_cases hxb : x / 64 ≤ f.last / 64
      · rw [advance_kept h.wf h1 hxb hx2]
        exact h.bits x hxb (by omega)
      · rw [advance_cleared h.wf h1 (by omega) hx1, Nat.zero_testBit]
        have : x ∉ d := by
          intro hx; have := h.mem_le x hx; omega
        simp [this]
    · intro i
      simp only [advance, word]
      by_cases hz : (clearLoop f.mask (min (unmaskedBlockIndex c - unmaskedBlockIndex f.last) f.ring.length)
          (unmaskedBlockIndex f.last) f.ring).getD i 0 = f.ring.getD i 0
      · rw [hz]; exact h.words i
      · -- a changed word was cleared
        obtain ⟨k, hk, hm⟩ := h.wf.pow
        rw [hm] at hz ⊢
        apply Classical.byContradiction
        intro hnlt
        apply hz
        apply clearLoop_kept
        intro t ht1 htn e
        apply hnlt
        rw [← e, clearLoop_cleared k _ _ t _ ht1 htn]
        exact Nat.two_pow_pos 64
  · simp only [h1, if_false]
    have hin : f.last - c < f.size := by
      unfold isOk at hok
      simp only [h1, if_false] at hok
      by_cases h2 : f.last - c ≥ f.size
      · simp [h2] at hok
      · omega
    apply setBit_inv h.wf h.mem_le (by omega)
    · rcases h.last_mem with hm | hm
      · exact List.mem_cons_of_mem _ hm
      · have : c = f.last := by omega
        rw [this]; exact List.mem_cons_self
    · omega
    · exact h.bits
    · exact h.words

theorem add_spec {f : Filter} {d : List Nat} (h : Inv f d) (c : Nat) :
    ((add f c).2 = true ↔ (c ∉ d ∧ (d = [] ∨ newest d < c ∨ newest d - c < f.size))) ∧
    Inv (add f c).1 (if (add f c).2 then c :: d else d) := by
  rw [add_eq]
  by_cases hok : isOk f c = true
  · simp only [hok, if_true, true_iff]
    exact ⟨(isOk_iff h c).mp hok, mustAdd_inv h hok⟩
  · simp only [hok]
    refine ⟨?_, h⟩
    simp only [Bool.false_eq_true, false_iff, if_false]
    intro hf; exact hok ((isOk_iff h c).mpr hf)

theorem mustAdd_size (f : Filter) (c : Nat) : (mustAdd f c).size = f.size := by
  unfold mustAdd setBit advance; split <;> rfl

theorem add_size (f : Filter) (c : Nat) : (add f c).1.size = f.size := by
  rw [add_eq]; split
  · exact mustAdd_size f c
  · rfl

end SSV.SWF
