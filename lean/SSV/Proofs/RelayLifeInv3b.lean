import SSV.Proofs.RelayLifeInv3b_p0
import SSV.Proofs.RelayLifeInv3b_p1
import SSV.Proofs.RelayLifeInv3b_p2
import SSV.Proofs.RelayLifeInv3b_p3
import SSV.Proofs.RelayLifeInv3b_p4
import SSV.Proofs.RelayLifeInv3b_p5
import SSV.Proofs.RelayLifeInv3b_p6
import SSV.Proofs.RelayLifeInv3b_p7
import SSV.Proofs.RelayLifeInv3b_p8
namespace SSV.RelayLife
variable (cfg : Cfg)

theorem inv3b_step (s s' : State) (e : Ev) (h1 : Inv1 s) (ha : Inv3a s) (hd : Inv3d s) (hI : Inv3b cfg s) (h : step cfg s e = some s') : Inv3b cfg s' := by
  cases e with
  | arrive c => exact inv3b_arrive cfg s s' c h1 ha hd hI h
  | rLock  => exact inv3b_rLock cfg s s'  h1 ha hd hI h
  | rProc ok => exact inv3b_rProc cfg s s' ok h1 ha hd hI h
  | rMore c => exact inv3b_rMore cfg s s' c h1 ha hd hI h
  | rUnlock  => exact inv3b_rUnlock cfg s s'  h1 ha hd hI h
  | rExit  => exact inv3b_rExit cfg s s'  h1 ha hd hI h
  | init i ok => exact inv3b_init cfg s s' i ok h1 ha hd hI h
  | dTimeout i => exact inv3b_dTimeout cfg s s' i h1 ha hd hI h
  | dPacket i => exact inv3b_dPacket cfg s s' i h1 ha hd hI h
  | dSend i => exact inv3b_dSend cfg s s' i h1 ha hd hI h
  | uFail i => exact inv3b_uFail cfg s s' i h1 ha hd hI h
  | cleanup i => exact inv3b_cleanup cfg s s' i h1 ha hd hI h
  | uRecv i k => exact inv3b_uRecv cfg s s' i k h1 ha hd hI h
  | uStep i => exact inv3b_uStep cfg s s' i h1 ha hd hI h
  | timer i => exact inv3b_timer cfg s s' i h1 ha hd hI h
  | stopCall  => exact inv3b_stopCall cfg s s'  h1 ha hd hI h
  | stop  => exact inv3b_stop cfg s s'  h1 ha hd hI h
  | stopVisit i => exact inv3b_stopVisit cfg s s' i h1 ha hd hI h

end SSV.RelayLife
