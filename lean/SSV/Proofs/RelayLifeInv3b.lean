import SSV.Proofs.RelayLifeInv3d
namespace SSV.RelayLife
variable (cfg : Cfg)

theorem inv3b_arrive (s s' : State) (c : Nat) (h1 : Inv1 s) (ha : Inv3a s) (hd : Inv3d s) (hI : Inv3b cfg s) (h : step cfg s (.arrive c) = some s') : Inv3b cfg s' := by
  have a5 := h1.tab
  have a6 := h1.inTab
  clear h1
  obtain ⟨k1,u2,u3,g5,gp⟩ := ha
  obtain ⟨u1⟩ := hd
  obtain ⟨e0,e1,e2,g9⟩ := hI
  simp only [step] at h
  (repeat' split at h) <;> close_case3

theorem inv3b_rLock (s s' : State)  (h1 : Inv1 s) (ha : Inv3a s) (hd : Inv3d s) (hI : Inv3b cfg s) (h : step cfg s (.rLock ) = some s') : Inv3b cfg s' := by
  have a5 := h1.tab
  have a6 := h1.inTab
  clear h1
  obtain ⟨k1,u2,u3,g5,gp⟩ := ha
  obtain ⟨u1⟩ := hd
  obtain ⟨e0,e1,e2,g9⟩ := hI
  simp only [step] at h
  (repeat' split at h) <;> close_case3

set_option maxHeartbeats 1600000 in
theorem inv3b_rProc (s s' : State) (ok : Bool) (h1 : Inv1 s) (ha : Inv3a s) (hd : Inv3d s) (hI : Inv3b cfg s) (h : step cfg s (.rProc ok) = some s') : Inv3b cfg s' := by
  have a5 := h1.tab
  have a6 := h1.inTab
  clear h1
  obtain ⟨k1,u2,u3,g5,gp⟩ := ha
  obtain ⟨u1⟩ := hd
  obtain ⟨e0,e1,e2,g9⟩ := hI
  simp only [step] at h
  (repeat' split at h) <;> close_case3

theorem inv3b_rMore (s s' : State) (c : Nat) (h1 : Inv1 s) (ha : Inv3a s) (hd : Inv3d s) (hI : Inv3b cfg s) (h : step cfg s (.rMore c) = some s') : Inv3b cfg s' := by
  have a5 := h1.tab
  have a6 := h1.inTab
  clear h1
  obtain ⟨k1,u2,u3,g5,gp⟩ := ha
  obtain ⟨u1⟩ := hd
  obtain ⟨e0,e1,e2,g9⟩ := hI
  simp only [step] at h
  (repeat' split at h) <;> close_case3

theorem inv3b_rUnlock (s s' : State)  (h1 : Inv1 s) (ha : Inv3a s) (hd : Inv3d s) (hI : Inv3b cfg s) (h : step cfg s (.rUnlock ) = some s') : Inv3b cfg s' := by
  have a5 := h1.tab
  have a6 := h1.inTab
  clear h1
  obtain ⟨k1,u2,u3,g5,gp⟩ := ha
  obtain ⟨u1⟩ := hd
  obtain ⟨e0,e1,e2,g9⟩ := hI
  simp only [step] at h
  (repeat' split at h) <;> close_case3

theorem inv3b_rExit (s s' : State)  (h1 : Inv1 s) (ha : Inv3a s) (hd : Inv3d s) (hI : Inv3b cfg s) (h : step cfg s (.rExit ) = some s') : Inv3b cfg s' := by
  have a5 := h1.tab
  have a6 := h1.inTab
  clear h1
  obtain ⟨k1,u2,u3,g5,gp⟩ := ha
  obtain ⟨u1⟩ := hd
  obtain ⟨e0,e1,e2,g9⟩ := hI
  simp only [step] at h
  (repeat' split at h) <;> close_case3

set_option maxHeartbeats 1600000 in
theorem inv3b_init (s s' : State) (i : Nat) (ok : Bool) (h1 : Inv1 s) (ha : Inv3a s) (hd : Inv3d s) (hI : Inv3b cfg s) (h : step cfg s (.init i ok) = some s') : Inv3b cfg s' := by
  have a5 := h1.tab
  have a6 := h1.inTab
  clear h1
  obtain ⟨k1,u2,u3,g5,gp⟩ := ha
  obtain ⟨u1⟩ := hd
  obtain ⟨e0,e1,e2,g9⟩ := hI
  simp only [step] at h
  (repeat' split at h) <;> close_case3

theorem inv3b_dTimeout (s s' : State) (i : Nat) (h1 : Inv1 s) (ha : Inv3a s) (hd : Inv3d s) (hI : Inv3b cfg s) (h : step cfg s (.dTimeout i) = some s') : Inv3b cfg s' := by
  have a5 := h1.tab
  have a6 := h1.inTab
  clear h1
  obtain ⟨k1,u2,u3,g5,gp⟩ := ha
  obtain ⟨u1⟩ := hd
  obtain ⟨e0,e1,e2,g9⟩ := hI
  simp only [step] at h
  (repeat' split at h) <;> close_case3

theorem inv3b_dPacket (s s' : State) (i : Nat) (h1 : Inv1 s) (ha : Inv3a s) (hd : Inv3d s) (hI : Inv3b cfg s) (h : step cfg s (.dPacket i) = some s') : Inv3b cfg s' := by
  have a5 := h1.tab
  have a6 := h1.inTab
  clear h1
  obtain ⟨k1,u2,u3,g5,gp⟩ := ha
  obtain ⟨u1⟩ := hd
  obtain ⟨e0,e1,e2,g9⟩ := hI
  simp only [step] at h
  (repeat' split at h) <;> close_case3

theorem inv3b_dSend (s s' : State) (i : Nat) (h1 : Inv1 s) (ha : Inv3a s) (hd : Inv3d s) (hI : Inv3b cfg s) (h : step cfg s (.dSend i) = some s') : Inv3b cfg s' := by
  have a5 := h1.tab
  have a6 := h1.inTab
  clear h1
  obtain ⟨k1,u2,u3,g5,gp⟩ := ha
  obtain ⟨u1⟩ := hd
  obtain ⟨e0,e1,e2,g9⟩ := hI
  simp only [step] at h
  (repeat' split at h) <;> close_case3

theorem inv3b_uFail (s s' : State) (i : Nat) (h1 : Inv1 s) (ha : Inv3a s) (hd : Inv3d s) (hI : Inv3b cfg s) (h : step cfg s (.uFail i) = some s') : Inv3b cfg s' := by
  have a5 := h1.tab
  have a6 := h1.inTab
  clear h1
  obtain ⟨k1,u2,u3,g5,gp⟩ := ha
  obtain ⟨u1⟩ := hd
  obtain ⟨e0,e1,e2,g9⟩ := hI
  simp only [step] at h
  (repeat' split at h) <;> close_case3

set_option maxHeartbeats 1600000 in
theorem inv3b_cleanup (s s' : State) (i : Nat) (h1 : Inv1 s) (ha : Inv3a s) (hd : Inv3d s) (hI : Inv3b cfg s) (h : step cfg s (.cleanup i) = some s') : Inv3b cfg s' := by
  have a5 := h1.tab
  have a6 := h1.inTab
  clear h1
  obtain ⟨k1,u2,u3,g5,gp⟩ := ha
  obtain ⟨u1⟩ := hd
  obtain ⟨e0,e1,e2,g9⟩ := hI
  simp only [step] at h
  (repeat' split at h) <;> close_case3

theorem inv3b_uRecv (s s' : State) (i : Nat) (k : Nat) (h1 : Inv1 s) (ha : Inv3a s) (hd : Inv3d s) (hI : Inv3b cfg s) (h : step cfg s (.uRecv i k) = some s') : Inv3b cfg s' := by
  have a5 := h1.tab
  have a6 := h1.inTab
  clear h1
  obtain ⟨k1,u2,u3,g5,gp⟩ := ha
  obtain ⟨u1⟩ := hd
  obtain ⟨e0,e1,e2,g9⟩ := hI
  simp only [step] at h
  (repeat' split at h) <;> close_case3

set_option maxHeartbeats 1600000 in
theorem inv3b_uStep (s s' : State) (i : Nat) (h1 : Inv1 s) (ha : Inv3a s) (hd : Inv3d s) (hI : Inv3b cfg s) (h : step cfg s (.uStep i) = some s') : Inv3b cfg s' := by
  have a5 := h1.tab
  have a6 := h1.inTab
  clear h1
  obtain ⟨k1,u2,u3,g5,gp⟩ := ha
  obtain ⟨u1⟩ := hd
  obtain ⟨e0,e1,e2,g9⟩ := hI
  simp only [step] at h
  (repeat' split at h) <;> close_case3

theorem inv3b_timer (s s' : State) (i : Nat) (h1 : Inv1 s) (ha : Inv3a s) (hd : Inv3d s) (hI : Inv3b cfg s) (h : step cfg s (.timer i) = some s') : Inv3b cfg s' := by
  have a5 := h1.tab
  have a6 := h1.inTab
  clear h1
  obtain ⟨k1,u2,u3,g5,gp⟩ := ha
  obtain ⟨u1⟩ := hd
  obtain ⟨e0,e1,e2,g9⟩ := hI
  simp only [step] at h
  (repeat' split at h) <;> close_case3

theorem inv3b_stopCall (s s' : State)  (h1 : Inv1 s) (ha : Inv3a s) (hd : Inv3d s) (hI : Inv3b cfg s) (h : step cfg s (.stopCall ) = some s') : Inv3b cfg s' := by
  have a5 := h1.tab
  have a6 := h1.inTab
  clear h1
  obtain ⟨k1,u2,u3,g5,gp⟩ := ha
  obtain ⟨u1⟩ := hd
  obtain ⟨e0,e1,e2,g9⟩ := hI
  simp only [step] at h
  (repeat' split at h) <;> close_case3

set_option maxHeartbeats 1600000 in
theorem inv3b_stop (s s' : State)  (h1 : Inv1 s) (ha : Inv3a s) (hd : Inv3d s) (hI : Inv3b cfg s) (h : step cfg s (.stop ) = some s') : Inv3b cfg s' := by
  have a5 := h1.tab
  have a6 := h1.inTab
  clear h1
  obtain ⟨k1,u2,u3,g5,gp⟩ := ha
  obtain ⟨u1⟩ := hd
  obtain ⟨e0,e1,e2,g9⟩ := hI
  simp only [step] at h
  (repeat' split at h) <;> close_case3

set_option maxHeartbeats 1600000 in
theorem inv3b_stopVisit (s s' : State) (i : Nat) (h1 : Inv1 s) (ha : Inv3a s) (hd : Inv3d s) (hI : Inv3b cfg s) (h : step cfg s (.stopVisit i) = some s') : Inv3b cfg s' := by
  have a5 := h1.tab
  have a6 := h1.inTab
  clear h1
  obtain ⟨k1,u2,u3,g5,gp⟩ := ha
  obtain ⟨u1⟩ := hd
  obtain ⟨e0,e1,e2,g9⟩ := hI
  simp only [step] at h
  (repeat' split at h) <;> close_case3

theorem inv3b_step (s s' : State) (e : Ev) (h1 : Inv1 s) (ha : Inv3a s) (hd : Inv3d s) (hI : Inv3b cfg s) (h : step cfg s e = some s') : Inv3b cfg s' := by
  cases e with
  | arrive c => exact inv3b_arrive cfg s s' c h1 ha hd hI h
  | rLock  => exact inv3b_rLock cfg s s'  h1 ha hd hI h
  | rProc ok => exact inv3b_rProc cfg s s' ok h1 ha hd hI h
  | rMore c => exact inv3b_rMore cfg s s' c h1 ha hd hI h
  | rUnlock  => exact inv3b_rUnlock cfg s s'  h1 ha hd hI h
  | rExit  => exact inv3b_rExit cfg s s'  h1 ha hd hI h
  | init i ok => exact inv3b_init cfg s s' i ok h1 ha hd hI h
  | dTimeout i => exact inv3b_dTimeout cfg s s' i h1 ha hd hI h
  | dPacket i => exact inv3b_dPacket cfg s s' i h1 ha hd hI h
  | dSend i => exact inv3b_dSend cfg s s' i h1 ha hd hI h
  | uFail i => exact inv3b_uFail cfg s s' i h1 ha hd hI h
  | cleanup i => exact inv3b_cleanup cfg s s' i h1 ha hd hI h
  | uRecv i k => exact inv3b_uRecv cfg s s' i k h1 ha hd hI h
  | uStep i => exact inv3b_uStep cfg s s' i h1 ha hd hI h
  | timer i => exact inv3b_timer cfg s s' i h1 ha hd hI h
  | stopCall  => exact inv3b_stopCall cfg s s'  h1 ha hd hI h
  | stop  => exact inv3b_stop cfg s s'  h1 ha hd hI h
  | stopVisit i => exact inv3b_stopVisit cfg s s' i h1 ha hd hI h

end SSV.RelayLife
