import SSV.Proofs.RouterTop
import SSV.Model.RouterService
/-
C09 helper lemmas: `RouteConfig.Route` never reaches its `panic("unreachable")` (a non-empty port list that
passed validation always denotes at least one port).
-/
namespace SSV.Router
open SSV.Router.Spec SSV.Gen

theorem countFrom_pos (mem : Nat → Bool) (n p q : Nat) (h1 : p ≤ q) (h2 : q < p + n) (hq : mem q = true) :
    countFrom mem n p ≠ 0 := by
  intro h
  have := countFrom_zero mem n p h q h1 h2
  rw [this] at hq; cases hq

theorem addPorts_err (bad : BuildErr) : ∀ (ports : List Nat) (s : PortSet) (e : BuildErr),
    addPorts bad s ports = .error e → e = bad := by
  intro ports
  induction ports with
  | nil => intro s e h; simp [addPorts] at h
  | cons x xs ih =>
    intro s e h
    simp only [addPorts] at h
    split at h
    · cases h; rfl
    · exact ih _ _ h

theorem addPieces_err (bad : BuildErr) : ∀ (pieces : List (List UInt8)) (s : PortSet) (e : BuildErr),
    addPieces bad s pieces = .error e → e = bad := by
  intro pieces
  induction pieces with
  | nil => intro s e h; simp [addPieces] at h
  | cons pc rest ih =>
    intro s e h
    simp only [addPieces] at h
    split at h
    · cases h; rfl
    · exact ih _ _ h
    · exact ih _ _ h

theorem addPorts_lt (bad : BuildErr) : ∀ (ports : List Nat) (s s' : PortSet),
    addPorts bad s ports = .ok s' → ∀ x ∈ ports, x < portSpace := by
  intro ports
  induction ports with
  | nil => intro s s' _ x hx; cases hx
  | cons y ys ih =>
    intro s s' h x hx
    simp only [addPorts] at h
    split at h
    · cases h
    · rename_i hy
      simp only [Bool.or_eq_true, decide_eq_true_eq, not_or] at hy
      rcases List.mem_cons.mp hx with e | hx
      · subst e; omega
      · exact ih _ _ h x hx

/-- every accepted piece covers some port below 65536 -/
theorem addPieces_witness (bad : BuildErr) : ∀ (pieces : List (List UInt8)) (s s' : PortSet),
    addPieces bad s pieces = .ok s' → ∀ pc ∈ pieces, ∃ x, x < portSpace ∧ pieceCovers pc x = true := by
  intro pieces
  induction pieces with
  | nil => intro s s' _ pc hpc; cases hpc
  | cons c rest ih =>
    intro s s' h pc hpc
    simp only [addPieces] at h
    cases hp : SSV.PortSet.parseItem c with
    | none => rw [hp] at h; cases h
    | some it =>
      have hv := SSV.PortSet.parseItem_valid hp
      rw [hp] at h
      rcases List.mem_cons.mp hpc with e | hpc
      · subst e
        cases it with
        | port x =>
          simp only [SSV.PortSet.Item.Valid] at hv
          exact ⟨x, by simp [portSpace]; omega, by simp [pieceCovers, hp, itemCovers]⟩
        | range a b =>
          simp only [SSV.PortSet.Item.Valid] at hv
          exact ⟨a, by simp [portSpace]; omega, by simp [pieceCovers, hp, itemCovers]; omega⟩
      · cases it with
        | port x => exact ih _ _ h pc hpc
        | range a b => exact ih _ _ h pc hpc

theorem splitOn_ne_nil (c : UInt8) : ∀ s : List UInt8, SSV.splitOn c s ≠ [] := by
  intro s
  induction s with
  | nil => simp [SSV.splitOn]
  | cons x xs ih =>
    simp only [SSV.splitOn]
    split
    · simp
    · split <;> simp

theorem splitOn_cons_shape (c x : UInt8) (xs : List UInt8) :
    ∃ a t, SSV.splitOn c (x :: xs) = a :: t ∧ (t = [] → a ≠ []) := by
  obtain ⟨h, t, e⟩ := List.exists_cons_of_ne_nil (splitOn_ne_nil c xs)
  simp only [SSV.splitOn]
  rw [e]
  by_cases hx : x = c
  · rw [if_pos hx]; exact ⟨[], h :: t, rfl, by simp⟩
  · rw [if_neg hx]; exact ⟨x :: h, t, rfl, by simp⟩

theorem dropTrailingEmpty_ne_nil (a : List UInt8) (t : List (List UInt8)) (h : t = [] → a ≠ []) :
    (if (a :: t).getLast? = some [] then (a :: t).dropLast else a :: t) ≠ [] := by
  cases t with
  | nil =>
    have := h rfl
    simp [this]
  | cons t1 t2 =>
    split
    · simp [List.dropLast]
    · simp

/-- a non-empty port-range string has at least one piece -/
theorem items_ne_nil (s : List UInt8) (h : s ≠ []) : SSV.PortSet.items s ≠ [] := by
  cases s with
  | nil => exact absurd rfl h
  | cons x xs =>
    obtain ⟨a, t, e, ht⟩ := splitOn_cons_shape 44 x xs
    unfold SSV.PortSet.items
    simp only []
    rw [e]
    exact dropTrailingEmpty_ne_nil a t ht

theorem portCrit_err (s : PortSet) (a b c : Nat) (pl : BuildErr) (single : Nat → Crit)
    (ranges : List (Nat × Nat) → Crit) (set : PortSet → Crit) (e : BuildErr)
    (h : portCrit s a b c pl single ranges set = .error e) : (e = .unreachable ∧ s.count = 0) ∨ e = pl := by
  unfold portCrit at h
  simp only at h
  split at h
  · rename_i h0; cases h; exact Or.inl ⟨rfl, h0⟩
  · split at h
    · cases h
    · split at h
      · cases h; exact Or.inr rfl
      · split at h <;> cases h

theorem portsSection_err (init : PortSet) (hw : init.WF) (hi : ∀ x, init.mem x = false)
    (ports : List Nat) (str : List UInt8) (invert : Bool) (b1 b2 pl : BuildErr) (a b c : Nat)
    (single : Nat → Crit) (ranges : List (Nat × Nat) → Crit) (set : PortSet → Crit) (e : BuildErr)
    (h : portsSection init ports str invert b1 b2 pl a b c single ranges set = .error e) :
    e = b1 ∨ e = b2 ∨ e = pl := by
  unfold portsSection at h
  split at h
  · cases h
  · rename_i hne
    split at h
    · rename_i e1 h1; cases h; exact Or.inl (addPorts_err _ _ _ _ h1)
    · rename_i s1 h1
      split at h
      · rename_i e2 h2; cases h; exact Or.inr (Or.inl (addPieces_err _ _ _ _ h2))
      · rename_i s2 h2
        split at h
        · rename_i e3 h3
          cases h
          rcases portCrit_err _ _ _ _ _ _ _ _ _ h3 with ⟨_, h0⟩ | h3
          · -- impossible: the lists are not both empty, so some port below 65536 is in the table
            exfalso
            obtain ⟨key, _⟩ := portTable_spec init hw hi _ _ _ _ _ _ h1 h2
            have hex : ∃ x, x < portSpace ∧ portsDenote ports str x = true := by
              cases hp : ports with
              | cons x xs =>
                refine ⟨x, addPorts_lt _ _ _ _ h1 x (by rw [hp]; exact List.mem_cons_self), ?_⟩
                simp [portsDenote]
              | nil =>
                have hstr : str ≠ [] := by
                  intro e; simp [hp, e] at hne
                cases hi' : SSV.PortSet.items str with
                | nil => exact absurd hi' (items_ne_nil str hstr)
                | cons pc rest =>
                  rw [hi'] at h2
                  obtain ⟨x, hx, hc⟩ := addPieces_witness _ _ _ _ h2 pc List.mem_cons_self
                  refine ⟨x, hx, ?_⟩
                  simp only [portsDenote, rangesDenote, Bool.or_eq_true, List.any_eq_true, hi']
                  exact Or.inr ⟨pc, List.mem_cons_self, hc⟩
            obtain ⟨x, hx, hd⟩ := hex
            rw [← key x] at hd
            exact countFrom_pos s2.mem portSpace 0 x (Nat.zero_le _) (by omega) hd h0
          · exact Or.inr (Or.inr h3)
        · cases h

theorem mkPfxSet_err (env : Env) (lits : List Prefix) (sets : List String) (e : BuildErr)
    (h : mkPfxSet env lits sets = .error e) : e = .prefixSetNotFound := by
  unfold mkPfxSet at h
  split at h <;> cases h
  rfl

theorem precheck_ne (env : Env) (rc : RouteConfig) (e : BuildErr) (h : precheck env rc = some e) :
    e ≠ .unreachable := by
  unfold precheck at h
  split at h
  · cases h; intro hh; cases hh
  · split at h
    · cases h; intro hh; cases hh
    · split at h
      · cases h; intro hh; cases hh
      · split at h
        · cases h; intro hh; cases hh
        · cases h

theorem resolversFor_ne (env : Env) (rc : RouteConfig) (e : BuildErr) (h : resolversFor env rc = .error e) :
    e ≠ .unreachable := by
  unfold resolversFor at h
  split at h
  · cases h
  · split at h <;> cases h
    intro hh; cases hh

theorem secNetwork_ne (rc : RouteConfig) (e : BuildErr) (h : secNetwork rc = .error e) : e ≠ .unreachable := by
  unfold secNetwork at h
  split at h
  · cases h
  · split at h
    · cases h
    · split at h <;> cases h
      intro hh; cases hh

theorem secClients_ne (env : Env) (rc : RouteConfig) (e : BuildErr) (h : secClients env rc = .error e) :
    e ≠ .unreachable := by
  unfold secClients at h
  split at h
  · cases h
  · simp only at h
    split at h
    · cases h; intro hh; cases hh
    · split at h <;> cases h
      intro hh; cases hh

theorem secServers_ne (env : Env) (rc : RouteConfig) (e : BuildErr) (h : secServers env rc = .error e) :
    e ≠ .unreachable := by
  unfold secServers at h
  split at h
  · cases h
  · split at h <;> cases h
    intro hh; cases hh

theorem secFromPorts_ne (rc : RouteConfig) (e : BuildErr) (h : secFromPorts rc = .error e) : e ≠ .unreachable := by
  unfold secFromPorts at h
  rcases portsSection_err .empty PortSet.wf_empty PortSet.mem_empty _ _ _ _ _ _ _ _ _ _ _ _ e h with rfl | rfl | rfl <;>
    (intro hh; cases hh)

theorem secToPorts_ne (rc : RouteConfig) (e : BuildErr) (h : secToPorts rc = .error e) : e ≠ .unreachable := by
  unfold secToPorts at h
  rcases portsSection_err .empty PortSet.wf_empty PortSet.mem_empty _ _ _ _ _ _ _ _ _ _ _ _ e h with rfl | rfl | rfl <;>
    (intro hh; cases hh)

theorem secFromAddr_ne (env : Env) (rc : RouteConfig) (e : BuildErr) (h : secFromAddr env rc = .error e) :
    e ≠ .unreachable := by
  unfold secFromAddr at h
  split at h
  · cases h
  · split at h
    · rename_i e1 hg
      cases h
      split at hg
      · cases hg
      · split at hg
        · rename_i e2 hm
          cases hg
          rw [mkPfxSet_err _ _ _ _ hm]; intro hh; cases hh
        · cases hg
    · cases h

theorem secExpected_ne (env : Env) (rc : RouteConfig) (rs : List String) (e : BuildErr)
    (h : secExpected env rc rs = .error e) : e ≠ .unreachable := by
  unfold secExpected at h
  split at h
  · rename_i e1 hg
    cases h
    split at hg
    · cases hg
    · split at hg
      · rename_i e2 hm
        cases hg
        rw [mkPfxSet_err _ _ _ _ hm]; intro hh; cases hh
      · cases hg
  · cases h

theorem secToDomain_ne (env : Env) (rc : RouteConfig) (rs : List String) (e : BuildErr)
    (h : secToDomain env rc rs = .error e) : e ≠ .unreachable := by
  unfold secToDomain at h
  split at h
  · cases h
  · split at h
    · cases h; intro hh; cases hh
    · simp only at h
      split at h
      · split at h
        · rename_i e1 hx; cases h; exact secExpected_ne env rc rs _ hx
        · cases h
      · cases h

theorem secToPrefix_ne (env : Env) (rc : RouteConfig) (rs : List String) (e : BuildErr)
    (h : secToPrefix env rc rs = .error e) : e ≠ .unreachable := by
  unfold secToPrefix at h
  split at h
  · cases h
  · split at h
    · rename_i e1 hm; cases h
      rw [mkPfxSet_err _ _ _ _ hm]; intro hh; cases hh
    · split at h <;> cases h

theorem secToAddr_ne (env : Env) (rc : RouteConfig) (rs : List String) (e : BuildErr)
    (h : secToAddr env rc rs = .error e) : e ≠ .unreachable := by
  unfold secToAddr at h
  split at h
  · rename_i e1 hx; cases h; exact secToDomain_ne env rc rs _ hx
  · split at h
    · rename_i e1 hx; cases h; exact secToPrefix_ne env rc rs _ hx
    · cases h

/-- `RouteConfig.Route` never reaches `panic("unreachable")` -/
theorem build_ne_unreachable (env : Env) (rc : RouteConfig) : build env rc ≠ .error .unreachable := by
  intro h
  unfold build at h
  split at h
  · rename_i e he; cases h; exact precheck_ne env rc _ he rfl
  · split at h
    · rename_i e he; cases h; exact resolversFor_ne env rc _ he rfl
    · split at h
      · rename_i e he; cases h; exact secNetwork_ne rc _ he rfl
      · split at h
        · rename_i e he; cases h; exact secClients_ne env rc _ he rfl
        · split at h
          · rename_i e he; cases h; exact secServers_ne env rc _ he rfl
          · split at h
            · rename_i e he; cases h; exact secFromPorts_ne rc _ he rfl
            · split at h
              · rename_i e he; cases h; exact secFromAddr_ne env rc _ he rfl
              · split at h
                · rename_i e he; cases h; exact secToPorts_ne rc _ he rfl
                · split at h
                  · rename_i e he; cases h; exact secToAddr_ne env rc _ _ he rfl
                  · cases h

theorem buildRoutes_ne_unreachable (env : Env) : ∀ rcs, buildRoutes env rcs ≠ .error .unreachable := by
  intro rcs
  induction rcs with
  | nil => intro h; simp [buildRoutes] at h
  | cons rc rcs ih =>
    intro h
    simp only [buildRoutes] at h
    split at h
    · rename_i e he; cases h; exact build_ne_unreachable env rc he
    · split at h
      · rename_i e he; cases h; exact ih he
      · cases h

theorem defaultClient_ne (name : String) (clients : List String) (nf e : BuildErr)
    (h : defaultClient name clients nf = .error e) : e = nf := by
  unfold defaultClient at h
  split at h
  · cases h
  · split at h
    · split at h <;> cases h
    · split at h <;> cases h
      rfl

theorem buildRouter_ne_unreachable (env : Env) (cfg : Config) : buildRouter env cfg ≠ .error .unreachable := by
  intro h
  unfold buildRouter at h
  split at h
  · rename_i e he; cases h; have := defaultClient_ne _ _ _ _ he; cases this
  · split at h
    · rename_i e he; cases h; have := defaultClient_ne _ _ _ _ he; cases this
    · split at h
      · rename_i e he; cases h; exact buildRoutes_ne_unreachable env _ he
      · cases h

/-! ### port-range strings as written -/

/-- a port block that was accepted had only well-formed pieces in its range string -/
theorem portsSection_pieces_ok (init : PortSet) (hw : init.WF)
    (ports : List Nat) (str : List UInt8) (invert : Bool) (b1 b2 pl : BuildErr) (a b c : Nat)
    (single : Nat → Crit) (ranges : List (Nat × Nat) → Crit) (set : PortSet → Crit) (cs : List Crit)
    (h : portsSection init ports str invert b1 b2 pl a b c single ranges set = .ok cs) :
    ∀ pc ∈ SSV.PortSet.items str, SSV.PortSet.parseItem pc ≠ none := by
  unfold portsSection at h
  split at h
  · rename_i he
    simp only [Bool.and_eq_true, List.isEmpty_iff] at he
    rw [he.2]
    intro pc hpc
    simp [SSV.PortSet.items, SSV.splitOn] at hpc
  · split at h
    · cases h
    · rename_i s1 h1
      split at h
      · cases h
      · rename_i s2 h2
        obtain ⟨w1, _, _⟩ := addPorts_spec b1 ports init s1 hw h1
        exact (addPieces_spec b2 _ s1 s2 w1 h2).2.2.2

theorem build_pieces_ok (env : Env) (rc : RouteConfig) (route : Route) (h : build env rc = .ok route) :
    (∀ pc ∈ SSV.PortSet.items rc.fromPortRanges, SSV.PortSet.parseItem pc ≠ none) ∧
    (∀ pc ∈ SSV.PortSet.items rc.toPortRanges, SSV.PortSet.parseItem pc ≠ none) := by
  obtain ⟨_, _, _, _, cSp, _, cDp, _, _, _, _, _, hSp, _, hDp, _, _⟩ := build_ok env rc route h
  unfold secFromPorts at hSp
  unfold secToPorts at hDp
  exact ⟨portsSection_pieces_ok _ PortSet.wf_empty _ _ _ _ _ _ _ _ _ _ _ _ _ hSp,
    portsSection_pieces_ok _ PortSet.wf_empty _ _ _ _ _ _ _ _ _ _ _ _ _ hDp⟩

/-! ### the resolver arguments as service.Config.Manager builds them -/

theorem serviceResolvers_spec : ∀ (dns slice keys sl ks : List String), slice = keys → keys.Nodup →
    serviceResolvers dns slice keys = some (sl, ks) → sl = ks ∧ ks = keys ++ dns ∧ ks.Nodup := by
  intro dns
  induction dns with
  | nil =>
    intro slice keys sl ks e hk h
    simp only [serviceResolvers, Option.some.injEq, Prod.mk.injEq] at h
    obtain ⟨rfl, rfl⟩ := h
    exact ⟨e, by simp, hk⟩
  | cons n rest ih =>
    intro slice keys sl ks e hk h
    simp only [serviceResolvers] at h
    split at h
    · cases h
    · rename_i hn
      have hn' : n ∉ keys := by
        intro hm; exact hn (List.contains_iff_mem.mpr hm)
      obtain ⟨a, b, c⟩ := ih (slice ++ [n]) (keys ++ [n]) sl ks (by rw [e])
        (by
          rw [List.nodup_append]
          refine ⟨hk, by simp, ?_⟩
          intro x hx y hy
          simp only [List.mem_singleton] at hy
          subst hy
          intro exy; subst exy; exact hn' hx) h
      exact ⟨a, by rw [b, List.append_assoc]; rfl, c⟩

end SSV.Router
