import SSV.Proofs.RouterTop
/-
C09 helper lemmas: `RouteConfig.Route` never reaches its `panic("unreachable")` (a non-empty port list that
passed validation always denotes at least one port).
-/
namespace SSV.Router
open SSV.Router.Spec SSV.Gen

theorem countFrom_pos (mem : Nat → Bool) (n p q : Nat) (h1 : p ≤ q) (h2 : q < p + n) (hq : mem q = true) :
    countFrom mem n p ≠ 0 := by
  intro h
  have := countFrom_zero mem n p h q h1 h2
  rw [this] at hq; cases hq

theorem addPorts_err (bad : BuildErr) : ∀ (ports : List Nat) (s : PortSet) (e : BuildErr),
    addPorts bad s ports = .error e → e = bad := by
  intro ports
  induction ports with
  | nil => intro s e h; simp [addPorts] at h
  | cons x xs ih =>
    intro s e h
    simp only [addPorts] at h
    split at h
    · cases h; rfl
    · exact ih _ _ h

theorem addItems_err (bad : BuildErr) : ∀ (items : List PortItem) (s : PortSet) (e : BuildErr),
    addItems bad s items = .error e → e = bad := by
  intro items
  induction items with
  | nil => intro s e h; simp [addItems] at h
  | cons it its ih =>
    intro s e h
    cases it with
    | single x =>
      simp only [addItems] at h
      split at h
      · cases h; rfl
      · exact ih _ _ h
    | range a b =>
      simp only [addItems] at h
      split at h
      · cases h; rfl
      · exact ih _ _ h

theorem addPorts_lt (bad : BuildErr) : ∀ (ports : List Nat) (s s' : PortSet),
    addPorts bad s ports = .ok s' → ∀ x ∈ ports, x < portSpace := by
  intro ports
  induction ports with
  | nil => intro s s' _ x hx; cases hx
  | cons y ys ih =>
    intro s s' h x hx
    simp only [addPorts] at h
    split at h
    · cases h
    · rename_i hy
      simp only [Bool.or_eq_true, decide_eq_true_eq, not_or] at hy
      rcases List.mem_cons.mp hx with e | hx
      · subst e; omega
      · exact ih _ _ h x hx

/-- every accepted item covers some port below 65536 -/
theorem addItems_witness (bad : BuildErr) : ∀ (items : List PortItem) (s s' : PortSet),
    addItems bad s items = .ok s' → ∀ it ∈ items, ∃ x, x < portSpace ∧ PortItem.covers it x = true := by
  intro items
  induction items with
  | nil => intro s s' _ it hit; cases hit
  | cons i is ih =>
    intro s s' h it hit
    cases i with
    | single y =>
      simp only [addItems] at h
      split at h
      · cases h
      · rename_i hy
        simp only [Bool.or_eq_true, decide_eq_true_eq, not_or] at hy
        rcases List.mem_cons.mp hit with e | hit
        · subst e; exact ⟨y, by omega, by simp [PortItem.covers]⟩
        · exact ih _ _ h it hit
    | range a b =>
      simp only [addItems] at h
      split at h
      · cases h
      · rename_i hy
        simp only [Bool.or_eq_true, decide_eq_true_eq, not_or] at hy
        rcases List.mem_cons.mp hit with e | hit
        · subst e; exact ⟨a, by omega, by simp [PortItem.covers]; omega⟩
        · exact ih _ _ h it hit

theorem portCrit_err (s : PortSet) (a b c : Nat) (pl : BuildErr) (single : Nat → Crit)
    (ranges : List (Nat × Nat) → Crit) (set : PortSet → Crit) (e : BuildErr)
    (h : portCrit s a b c pl single ranges set = .error e) : (e = .unreachable ∧ s.count = 0) ∨ e = pl := by
  unfold portCrit at h
  simp only at h
  split at h
  · rename_i h0; cases h; exact Or.inl ⟨rfl, h0⟩
  · split at h
    · cases h
    · split at h
      · cases h; exact Or.inr rfl
      · split at h <;> cases h

theorem portsSection_err (init : PortSet) (hw : init.WF) (hi : ∀ x, init.mem x = false)
    (ports : List Nat) (items : List PortItem) (invert : Bool) (b1 b2 pl : BuildErr) (a b c : Nat)
    (single : Nat → Crit) (ranges : List (Nat × Nat) → Crit) (set : PortSet → Crit) (e : BuildErr)
    (h : portsSection init ports items invert b1 b2 pl a b c single ranges set = .error e) :
    e = b1 ∨ e = b2 ∨ e = pl := by
  unfold portsSection at h
  split at h
  · cases h
  · rename_i hne
    split at h
    · rename_i e1 h1; cases h; exact Or.inl (addPorts_err _ _ _ _ h1)
    · rename_i s1 h1
      split at h
      · rename_i e2 h2; cases h; exact Or.inr (Or.inl (addItems_err _ _ _ _ h2))
      · rename_i s2 h2
        split at h
        · rename_i e3 h3
          cases h
          rcases portCrit_err _ _ _ _ _ _ _ _ _ h3 with ⟨_, h0⟩ | h3
          · -- impossible: the lists are not both empty, so some port below 65536 is in the table
            exfalso
            obtain ⟨key, _⟩ := portTable_spec init hw hi _ _ _ _ _ _ h1 h2
            have hex : ∃ x, x < portSpace ∧ portsDenote ports items x = true := by
              cases hp : ports with
              | cons x xs =>
                refine ⟨x, addPorts_lt _ _ _ _ h1 x (by rw [hp]; exact List.mem_cons_self), ?_⟩
                simp [portsDenote]
              | nil =>
                cases hi' : items with
                | nil => simp [hp, hi'] at hne
                | cons it its =>
                  obtain ⟨x, hx, hc⟩ := addItems_witness _ _ _ _ h2 it (by rw [hi']; exact List.mem_cons_self)
                  refine ⟨x, hx, ?_⟩
                  simp only [portsDenote, Bool.or_eq_true, List.any_eq_true]
                  exact Or.inr ⟨it, List.mem_cons_self, hc⟩
            obtain ⟨x, hx, hd⟩ := hex
            rw [← key x] at hd
            exact countFrom_pos s2.mem portSpace 0 x (Nat.zero_le _) (by omega) hd h0
          · exact Or.inr (Or.inr h3)
        · cases h

theorem mkPfxSet_err (env : Env) (lits : List Prefix) (sets : List String) (e : BuildErr)
    (h : mkPfxSet env lits sets = .error e) : e = .prefixSetNotFound := by
  unfold mkPfxSet at h
  split at h <;> cases h
  rfl

theorem precheck_ne (env : Env) (rc : RouteConfig) (e : BuildErr) (h : precheck env rc = some e) :
    e ≠ .unreachable := by
  unfold precheck at h
  split at h
  · cases h; intro hh; cases hh
  · split at h
    · cases h; intro hh; cases hh
    · split at h
      · cases h; intro hh; cases hh
      · split at h
        · cases h; intro hh; cases hh
        · cases h

theorem resolversFor_ne (env : Env) (rc : RouteConfig) (e : BuildErr) (h : resolversFor env rc = .error e) :
    e ≠ .unreachable := by
  unfold resolversFor at h
  split at h
  · cases h
  · split at h <;> cases h
    intro hh; cases hh

theorem secNetwork_ne (rc : RouteConfig) (e : BuildErr) (h : secNetwork rc = .error e) : e ≠ .unreachable := by
  unfold secNetwork at h
  split at h
  · cases h
  · split at h
    · cases h
    · split at h <;> cases h
      intro hh; cases hh

theorem secClients_ne (env : Env) (rc : RouteConfig) (e : BuildErr) (h : secClients env rc = .error e) :
    e ≠ .unreachable := by
  unfold secClients at h
  split at h
  · cases h
  · simp only at h
    split at h
    · cases h; intro hh; cases hh
    · split at h <;> cases h
      intro hh; cases hh

theorem secServers_ne (env : Env) (rc : RouteConfig) (e : BuildErr) (h : secServers env rc = .error e) :
    e ≠ .unreachable := by
  unfold secServers at h
  split at h
  · cases h
  · split at h <;> cases h
    intro hh; cases hh

theorem secFromPorts_ne (rc : RouteConfig) (e : BuildErr) (h : secFromPorts rc = .error e) : e ≠ .unreachable := by
  unfold secFromPorts at h
  rcases portsSection_err .empty PortSet.wf_empty PortSet.mem_empty _ _ _ _ _ _ _ _ _ _ _ _ e h with rfl | rfl | rfl <;>
    (intro hh; cases hh)

theorem secToPorts_ne (rc : RouteConfig) (e : BuildErr) (h : secToPorts rc = .error e) : e ≠ .unreachable := by
  unfold secToPorts at h
  rcases portsSection_err .empty PortSet.wf_empty PortSet.mem_empty _ _ _ _ _ _ _ _ _ _ _ _ e h with rfl | rfl | rfl <;>
    (intro hh; cases hh)

theorem secFromAddr_ne (env : Env) (rc : RouteConfig) (e : BuildErr) (h : secFromAddr env rc = .error e) :
    e ≠ .unreachable := by
  unfold secFromAddr at h
  split at h
  · cases h
  · split at h
    · rename_i e1 hg
      cases h
      split at hg
      · cases hg
      · split at hg
        · rename_i e2 hm
          cases hg
          rw [mkPfxSet_err _ _ _ _ hm]; intro hh; cases hh
        · cases hg
    · cases h

theorem secExpected_ne (env : Env) (rc : RouteConfig) (rs : List String) (e : BuildErr)
    (h : secExpected env rc rs = .error e) : e ≠ .unreachable := by
  unfold secExpected at h
  split at h
  · rename_i e1 hg
    cases h
    split at hg
    · cases hg
    · split at hg
      · rename_i e2 hm
        cases hg
        rw [mkPfxSet_err _ _ _ _ hm]; intro hh; cases hh
      · cases hg
  · cases h

theorem secToDomain_ne (env : Env) (rc : RouteConfig) (rs : List String) (e : BuildErr)
    (h : secToDomain env rc rs = .error e) : e ≠ .unreachable := by
  unfold secToDomain at h
  split at h
  · cases h
  · split at h
    · cases h; intro hh; cases hh
    · simp only at h
      split at h
      · split at h
        · rename_i e1 hx; cases h; exact secExpected_ne env rc rs _ hx
        · cases h
      · cases h

theorem secToPrefix_ne (env : Env) (rc : RouteConfig) (rs : List String) (e : BuildErr)
    (h : secToPrefix env rc rs = .error e) : e ≠ .unreachable := by
  unfold secToPrefix at h
  split at h
  · cases h
  · split at h
    · rename_i e1 hm; cases h
      rw [mkPfxSet_err _ _ _ _ hm]; intro hh; cases hh
    · split at h <;> cases h

theorem secToAddr_ne (env : Env) (rc : RouteConfig) (rs : List String) (e : BuildErr)
    (h : secToAddr env rc rs = .error e) : e ≠ .unreachable := by
  unfold secToAddr at h
  split at h
  · rename_i e1 hx; cases h; exact secToDomain_ne env rc rs _ hx
  · split at h
    · rename_i e1 hx; cases h; exact secToPrefix_ne env rc rs _ hx
    · cases h

/-- `RouteConfig.Route` never reaches `panic("unreachable")` -/
theorem build_ne_unreachable (env : Env) (rc : RouteConfig) : build env rc ≠ .error .unreachable := by
  intro h
  unfold build at h
  split at h
  · rename_i e he; cases h; exact precheck_ne env rc _ he rfl
  · split at h
    · rename_i e he; cases h; exact resolversFor_ne env rc _ he rfl
    · split at h
      · rename_i e he; cases h; exact secNetwork_ne rc _ he rfl
      · split at h
        · rename_i e he; cases h; exact secClients_ne env rc _ he rfl
        · split at h
          · rename_i e he; cases h; exact secServers_ne env rc _ he rfl
          · split at h
            · rename_i e he; cases h; exact secFromPorts_ne rc _ he rfl
            · split at h
              · rename_i e he; cases h; exact secFromAddr_ne env rc _ he rfl
              · split at h
                · rename_i e he; cases h; exact secToPorts_ne rc _ he rfl
                · split at h
                  · rename_i e he; cases h; exact secToAddr_ne env rc _ _ he rfl
                  · cases h

theorem buildRoutes_ne_unreachable (env : Env) : ∀ rcs, buildRoutes env rcs ≠ .error .unreachable := by
  intro rcs
  induction rcs with
  | nil => intro h; simp [buildRoutes] at h
  | cons rc rcs ih =>
    intro h
    simp only [buildRoutes] at h
    split at h
    · rename_i e he; cases h; exact build_ne_unreachable env rc he
    · split at h
      · rename_i e he; cases h; exact ih he
      · cases h

theorem defaultClient_ne (name : String) (clients : List String) (nf e : BuildErr)
    (h : defaultClient name clients nf = .error e) : e = nf := by
  unfold defaultClient at h
  split at h
  · cases h
  · split at h
    · split at h <;> cases h
    · split at h <;> cases h
      rfl

theorem buildRouter_ne_unreachable (env : Env) (cfg : Config) : buildRouter env cfg ≠ .error .unreachable := by
  intro h
  unfold buildRouter at h
  split at h
  · rename_i e he; cases h; have := defaultClient_ne _ _ _ _ he; cases this
  · split at h
    · rename_i e he; cases h; have := defaultClient_ne _ _ _ _ he; cases this
    · split at h
      · rename_i e he; cases h; exact buildRoutes_ne_unreachable env _ he
      · cases h

end SSV.Router
