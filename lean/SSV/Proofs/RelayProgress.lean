import SSV.Model.Relay
namespace SSV.Relay

/-- the uplink is never stuck: the packet at the head of a started session's queue leaves with a few of the
session's own steps (plus one answer of the resolver for a domain target that is not cached) -/
theorem head_leaves (cfg : Config) (st : State) (sid : Nat) (s : Sess) (q : Pkt) (rest : List Pkt)
    (hs : st.sess sid = some s) (hst : s.started = true) (hpc : s.pc = .idle) (hq : s.queue = q :: rest) (ip : IP) :
    ∃ acts : List Act, acts ⊆ [.take sid, .resolved sid (some ip), .storeIP sid, .readSend sid] ∧
      ∃ a p, (run cfg st acts).sent = st.sent ++ [⟨sid, q, a, p⟩] := by
  cases hup : cfg.upstream with
  | some ap =>
    obtain ⟨a, p⟩ := ap
    exact ⟨[.take sid], by simp, a, p, by simp [run, step, take, hs, hst, hpc, hq, hup, setSess]⟩
  | none =>
    cases htg : q.target with
    | ip a p =>
      exact ⟨[.take sid], by simp, a, p, by simp [run, step, take, hs, hst, hpc, hq, hup, htg, setSess]⟩
    | dom d p =>
      by_cases hhit : (st.cache (cfg.packerOf sid)).dom = some d
      · exact ⟨[.take sid, .readSend sid], by simp, (st.cache (cfg.packerOf sid)).ip, p, by
          simp [run, step, take, readSend, hs, hst, hpc, hq, hup, htg, hhit, setSess, updF, Target.port]⟩
      · exact ⟨[.take sid, .resolved sid (some ip), .storeIP sid, .readSend sid], by simp, ip, p, by
          simp [run, step, take, resolved, storeIP, readSend, hs, hst, hpc, hq, hup, htg, hhit, setSess, updF, Target.port]⟩

end SSV.Relay
