import SSV.Model.DnsHttp
/-
C06 helper lemmas, part 10: dns parseMsg's own logic and the HTTP forwarder's Location indexing.
-/
namespace SSV.Parsers.Proofs
open SSV SSV.Go SSV.Outcome SSV.Parsers

theorem np_dnsAnswers (now : Int) : ∀ (xs : List DnsAnswer) (r : ResultBuilder), NoPanic (dnsAnswers now r xs)
  | [], r => by simp [dnsAnswers]
  | x :: xs, r => by
    cases x with
    | headerErr => simp [dnsAnswers]
    | a ttl body => cases body <;> simp [dnsAnswers, np_dnsAnswers now xs]
    | aaaa ttl body => cases body <;> simp [dnsAnswers, np_dnsAnswers now xs]
    | other ttl ok => cases ok <;> simp [dnsAnswers, np_dnsAnswers now xs]

theorem np_dnsAuthorities (now : Int) : ∀ (xs : List DnsAuthority) (r : ResultBuilder), NoPanic (dnsAuthorities now r xs)
  | [], r => by simp [dnsAuthorities]
  | x :: xs, r => by
    cases x with
    | headerErr => simp [dnsAuthorities]
    | rr isSOA ttl ok => cases ok <;> simp [dnsAuthorities, np_dnsAuthorities now xs]

theorem np_dnsParseMsg (now failTTL : Int) (isUDP : Bool) (r : ResultBuilder) (t : DnsTrace) :
    NoPanic (dnsParseMsg now failTTL isUDP r t) := by
  unfold dnsParseMsg
  split
  · simp
  · repeat' (first | (split; simp; done) | split)
    all_goals first
      | (simp; done)
      | (refine noPanic_bind (np_dnsAnswers now _ _) ?_
         intro r1 _
         refine noPanic_bind ?_ ?_
         · split
           · exact np_dnsAuthorities now _ _
           · simp
         · intro _ _
           first | (simp; done) | ((repeat' split) <;> simp))

theorem np_locationForcesClose (location : List Bytes) (urlHost : Bytes → Option Bytes) (reqHost : Bytes) :
    NoPanic (locationForcesClose location urlHost reqHost) := by
  unfold locationForcesClose
  split
  · simp
  · rename_i h
    have h1 : location.length = 1 := by omega
    match location, h1 with
    | [l], _ =>
      simp only [List.getElem?_cons_zero]
      split <;> simp

end SSV.Parsers.Proofs
