import SSV.Proofs.RelayLifeDefs3
namespace SSV.RelayLife
variable (cfg : Cfg)

theorem inv3c_uFail (s s' : State) (i : Nat) (ha : Inv3a s) (hI : Inv3c s) (h : step cfg s (.uFail i) = some s') : Inv3c s' := by
  have g5 := ha.g5
  clear ha
  obtain ⟨g10⟩ := hI
  simp only [step] at h
  (repeat' split at h) <;> close_case3

theorem inv3c_uRecv (s s' : State) (i : Nat) (k : Nat) (ha : Inv3a s) (hI : Inv3c s) (h : step cfg s (.uRecv i k) = some s') : Inv3c s' := by
  have g5 := ha.g5
  clear ha
  obtain ⟨g10⟩ := hI
  simp only [step] at h
  (repeat' split at h) <;> close_case3

theorem inv3c_timer (s s' : State) (i : Nat) (ha : Inv3a s) (hI : Inv3c s) (h : step cfg s (.timer i) = some s') : Inv3c s' := by
  have g5 := ha.g5
  clear ha
  obtain ⟨g10⟩ := hI
  simp only [step] at h
  (repeat' split at h) <;> close_case3

theorem inv3c_stopCall (s s' : State)  (ha : Inv3a s) (hI : Inv3c s) (h : step cfg s (.stopCall ) = some s') : Inv3c s' := by
  have g5 := ha.g5
  clear ha
  obtain ⟨g10⟩ := hI
  simp only [step] at h
  (repeat' split at h) <;> close_case3


end SSV.RelayLife
