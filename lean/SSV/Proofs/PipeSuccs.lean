import SSV.Proofs.Pipe
/-
C15 — the executable successor function the driver explores is exactly the internal part of `Step`
(for the threads below the bound, all others being idle).
-/
namespace SSV.Pipe

theorem succs_sound {n : Nat} {s s' : State} (h : s' ∈ succs n s) : Step s s' := by
  unfold succs at h
  simp only [List.mem_append, List.mem_flatMap, List.mem_filterMap, List.mem_range] at h
  rcases h with (⟨i, _, hi⟩ | ⟨i, _, j, _, hij⟩) | ⟨i, _, j, _, hij⟩
  · exact .loc i hi
  · exact .data i j hij
  · exact .count i j hij

theorem localSteps_idle {s : State} {i : Nat} (h : s.thr i = .idle) : localSteps s i = [] := by
  unfold localSteps; simp [h]

theorem data_idle_left {s : State} {i j : Nat} (h : s.thr i = .idle) : data s i j = none := by
  unfold data; simp [h]

theorem data_idle_right {s : State} {i j : Nat} (h : s.thr j = .idle) : data s i j = none := by
  unfold data; split
  · rename_i hj; rw [h] at hj; cases hj
  · rfl

theorem count_idle_left {s : State} {i j : Nat} (h : s.thr i = .idle) : count s i j = none := by
  unfold count; simp [h]

theorem count_idle_right {s : State} {i j : Nat} (h : s.thr j = .idle) : count s i j = none := by
  unfold count; split
  · rename_i hj; rw [h] at hj; cases hj
  · rfl

/-- every internal step (thread-local, data channel, count-back channel) is found by `succs n`
when all threads `≥ n` are idle -/
theorem succs_complete {n : Nat} {s s' : State} (hn : ∀ i, n ≤ i → s.thr i = .idle) :
    ((∃ i, s' ∈ localSteps s i) ∨ (∃ i j, data s i j = some s') ∨ (∃ i j, count s i j = some s')) →
    s' ∈ succs n s := by
  intro h
  unfold succs
  simp only [List.mem_append, List.mem_flatMap, List.mem_filterMap, List.mem_range]
  rcases h with ⟨i, hi⟩ | ⟨i, j, hij⟩ | ⟨i, j, hij⟩
  · refine Or.inl (Or.inl ⟨i, ?_, hi⟩)
    apply Nat.lt_of_not_le; intro hle
    rw [localSteps_idle (hn i hle)] at hi; simp at hi
  · refine Or.inl (Or.inr ⟨i, ?_, j, ?_, hij⟩)
    · apply Nat.lt_of_not_le; intro hle; rw [data_idle_left (hn i hle)] at hij; simp at hij
    · apply Nat.lt_of_not_le; intro hle; rw [data_idle_right (hn j hle)] at hij; simp at hij
  · refine Or.inr ⟨i, ?_, j, ?_, hij⟩
    · apply Nat.lt_of_not_le; intro hle; rw [count_idle_left (hn i hle)] at hij; simp at hij
    · apply Nat.lt_of_not_le; intro hle; rw [count_idle_right (hn j hle)] at hij; simp at hij

end SSV.Pipe
