import SSV.Proofs.RouterSections
/-
C09 helper lemmas: the address sections of `build` (source OR group, destination OR group with the
expected-IP group nested in the domain criterion), and the assembly of a whole route.
-/
namespace SSV.Router
open SSV.Router.Spec SSV.Gen

theorem geoMatch_eq (p : Params) (cs : List String) (a : IP) : geoMatch p cs a = R.ofV (inCountries p cs a) := by
  unfold geoMatch inCountries
  cases p.country a with
  | none => rfl
  | some c => exact (R.ofV_ofBool _).symm

theorem pfx_contains_eq (p : Params) (lits : List Prefix) (sets : List String) (a : IP) :
    PfxSet.contains p ⟨lits, sets⟩ a.unmap = inPrefixes p lits sets a := rfl

theorem mkPfxSet_ok (env : Env) (lits : List Prefix) (sets : List String) (s : PfxSet)
    (h : mkPfxSet env lits sets = .ok s) : s = ⟨lits, sets⟩ := by
  unfold mkPfxSet at h
  split at h
  · cases h; rfl
  · cases h

/-- `AddCriterion(c, invert)` of a criterion that decides `v` decides `v` xor the flag -/
theorem wrap_map (p : Params) (q : Req) (i : Bool) (c : Crit) (v : V) (h : meet p q c = R.ofV v) :
    [wrap i c].map (meet p q) = [v.inv i].map R.ofV := by
  simp only [List.map_cons, List.map_nil, meet_wrap, h, R.inv_ofV]

/-! ### source addresses -/

theorem secFromAddr_sound (p : Params) (q : Req) (env : Env) (rc : RouteConfig) (cs : List Crit)
    (h : secFromAddr env rc = .ok cs) : meetAll p q cs = R.ofV (cFromAddr p rc q) := by
  unfold secFromAddr at h
  unfold cFromAddr
  split at h
  · rename_i e
    simp only [Bool.and_eq_true] at e
    cases h
    simp [kFromPrefixes, kFromGeo, e.1.1, e.1.2, e.2, orKinds, meetAll_nil]
  · split at h
    · cases h
    · rename_i g1 hg1
      cases h
      apply meetAll_groupAppend
      rw [List.map_append, List.map_append]
      congr 1
      · unfold kFromPrefixes
        split at hg1
        · rename_i e; cases hg1; simp [e]
        · rename_i e
          split at hg1
          · cases hg1
          · rename_i s hs
            cases hg1
            have := mkPfxSet_ok _ _ _ _ hs
            subst this
            rw [if_neg e]
            apply wrap_map
            simp only [meet, pfx_contains_eq, R.ofV_ofBool]
      · unfold kFromGeo
        split
        · rfl
        · apply wrap_map
          simp only [meet, geoMatch_eq]

/-! ### destination addresses -/

/-- an IP criterion on a resolved destination (`DestResolvedIPCriterion` / `DestResolvedGeoIPCountryCriterion`
on a domain target) is the documented "through the resolver" condition -/
theorem resolved_eq (p : Params) (env : Env) (rc : RouteConfig) (d : String) (rs : List String)
    (hr : resolversFor env rc = .ok rs) (k : IP → V) (f : IP → R) (hf : ∀ a, f a = R.ofV (k a)) :
    (match lookup p d rs with
     | .error e => R.fail e
     | .ok a => f a) = R.ofV (resolvedV p env rc d k) := by
  rw [lookup_spec p env rc d rs hr]
  unfold resolvedV
  cases resolveSpec p env rc d with
  | error e => rfl
  | ok a => exact hf a

theorem meet_resolvedIP_domain (p : Params) (q : Req) (env : Env) (rc : RouteConfig) (rs : List String)
    (d : String) (hd : q.target = .domain d) (hr : resolversFor env rc = .ok rs)
    (lits : List Prefix) (sets : List String) :
    meet p q (.dstResolvedIP ⟨lits, sets⟩ rs) =
      R.ofV (resolvedV p env rc d (fun a => V.ofBool (inPrefixes p lits sets a))) := by
  simp only [meet, hd]
  exact resolved_eq p env rc d rs hr _ _ (fun a => by simp only [pfx_contains_eq, R.ofV_ofBool])

theorem meet_resolvedGeo_domain (p : Params) (q : Req) (env : Env) (rc : RouteConfig) (rs : List String)
    (d : String) (hd : q.target = .domain d) (hr : resolversFor env rc = .ok rs) (cs : List String) :
    meet p q (.dstResolvedGeo cs rs) = R.ofV (resolvedV p env rc d (fun a => inCountries p cs a)) := by
  simp only [meet, hd]
  exact resolved_eq p env rc d rs hr _ _ (fun a => geoMatch_eq p _ a)

theorem secExpected_map (p : Params) (q : Req) (env : Env) (rc : RouteConfig) (rs : List String) (g : List Crit)
    (d : String) (hd : q.target = .domain d)
    (hr : resolversFor env rc = .ok rs) (h : secExpected env rc rs = .ok g) :
    g.map (meet p q) = (expectedKinds p env rc d).map R.ofV := by
  unfold secExpected at h
  unfold expectedKinds
  split at h
  · cases h
  · rename_i g1 hg1
    cases h
    rw [List.map_append, List.map_append]
    congr 1
    · split at hg1
      · rename_i e; cases hg1; simp [e]
      · rename_i e
        split at hg1
        · cases hg1
        · rename_i s hs
          cases hg1
          have := mkPfxSet_ok _ _ _ _ hs
          subst this
          rw [if_neg e]
          apply wrap_map
          exact meet_resolvedIP_domain p q env rc rs d hd hr _ _
    · split
      · rfl
      · apply wrap_map
        exact meet_resolvedGeo_domain p q env rc rs d hd hr _

theorem expectedKinds_ne_nil (p : Params) (env : Env) (rc : RouteConfig) (d : String) (h : hasExpected rc = true) :
    expectedKinds p env rc d ≠ [] := by
  unfold hasExpected at h
  unfold expectedKinds
  by_cases e1 : (rc.toMatchedDomainExpectedPrefixes.isEmpty && rc.toMatchedDomainExpectedPrefixSets.isEmpty) = true
  · by_cases e2 : rc.toMatchedDomainExpectedGeoIPCountries.isEmpty = true
    · simp only [Bool.and_eq_true] at e1
      simp [e1.1, e1.2, e2] at h
    · simp [e2]
  · simp [e1]

theorem expectedKinds_nil (p : Params) (env : Env) (rc : RouteConfig) (d : String) (h : hasExpected rc = false) :
    expectedKinds p env rc d = [] := by
  unfold hasExpected at h
  simp only [Bool.or_eq_false_iff, Bool.not_eq_eq_eq_not, Bool.not_false] at h
  unfold expectedKinds
  simp [h.1.1, h.1.2, h.2]

theorem meet_domainExpected (p : Params) (q : Req) (env : Env) (rc : RouteConfig) (rs : List String) (gexp : List Crit)
    (hr : resolversFor env rc = .ok rs) (hexp : hasExpected rc = true) (hg : secExpected env rc rs = .ok gexp) :
    meet p q (.dstDomainExpected ⟨rc.toDomains, rc.toDomainSets⟩ (groupCriterion gexp)) = R.ofV (domainHolds p env rc q) := by
  unfold domainHolds
  cases hd : q.target with
  | ip a => simp only [meet, hd]; rfl
  | domain d =>
    simp only [meet, hd]
    by_cases hm : DomSets.matches p ⟨rc.toDomains, rc.toDomainSets⟩ d = true
    · have hm' : (rc.toDomains.contains d || rc.toDomainSets.any fun n => p.domSet n d) = true := hm
      rw [if_pos hm, if_pos hm']
      exact meet_groupCriterion p q gexp _ (expectedKinds_ne_nil p env rc d hexp)
        (secExpected_map p q env rc rs gexp d hd hr hg)
    · have hm' : ¬ (rc.toDomains.contains d || rc.toDomainSets.any fun n => p.domSet n d) = true := hm
      rw [if_neg hm, if_neg hm']; rfl

theorem meet_domainPlain (p : Params) (q : Req) (env : Env) (rc : RouteConfig) (hexp : hasExpected rc = false) :
    meet p q (.dstDomain ⟨rc.toDomains, rc.toDomainSets⟩) = R.ofV (domainHolds p env rc q) := by
  unfold domainHolds
  cases hd : q.target with
  | ip a => simp only [meet, hd]; rfl
  | domain d =>
    simp only [meet, hd]
    rw [expectedKinds_nil p env rc d hexp]
    by_cases hm : DomSets.matches p ⟨rc.toDomains, rc.toDomainSets⟩ d = true
    · have hm' : (rc.toDomains.contains d || rc.toDomainSets.any fun n => p.domSet n d) = true := hm
      rw [if_pos hm', hm]; rfl
    · have hm' : ¬ (rc.toDomains.contains d || rc.toDomainSets.any fun n => p.domSet n d) = true := hm
      rw [if_neg hm']
      have : DomSets.matches p ⟨rc.toDomains, rc.toDomainSets⟩ d = false := by simpa using hm
      rw [this]; rfl

theorem secToDomain_map (p : Params) (q : Req) (env : Env) (rc : RouteConfig) (rs : List String) (g : List Crit)
    (hr : resolversFor env rc = .ok rs) (h : secToDomain env rc rs = .ok g) :
    g.map (meet p q) = (kToDomains p env rc q).map R.ofV := by
  unfold secToDomain at h
  unfold kToDomains
  split at h
  · rename_i e; cases h; simp [e]
  · rename_i e
    rw [if_neg e]
    split at h
    · cases h
    · simp only at h
      split at h
      · rename_i hexp
        split at h
        · cases h
        · rename_i gexp hgexp
          cases h
          apply wrap_map
          exact meet_domainExpected p q env rc rs gexp hr hexp hgexp
      · rename_i hexp
        cases h
        apply wrap_map
        exact meet_domainPlain p q env rc (by simpa using hexp)

theorem meet_dstIP (p : Params) (q : Req) (env : Env) (rc : RouteConfig) (lits : List Prefix) (sets : List String)
    (hdis : rc.disableNameResolutionForIPRules = true) :
    meet p q (.dstIP ⟨lits, sets⟩) = R.ofV (destIPCond p env rc q (fun a => V.ofBool (inPrefixes p lits sets a))) := by
  unfold destIPCond
  cases hd : q.target with
  | ip a => simp only [meet, hd, pfx_contains_eq, R.ofV_ofBool]
  | domain d => simp only [meet, hd, hdis, if_true]; rfl

theorem meet_dstResolvedIP (p : Params) (q : Req) (env : Env) (rc : RouteConfig) (rs : List String)
    (lits : List Prefix) (sets : List String) (hr : resolversFor env rc = .ok rs)
    (hdis : ¬ rc.disableNameResolutionForIPRules = true) :
    meet p q (.dstResolvedIP ⟨lits, sets⟩ rs) =
      R.ofV (destIPCond p env rc q (fun a => V.ofBool (inPrefixes p lits sets a))) := by
  unfold destIPCond
  cases hd : q.target with
  | ip a => simp only [meet, hd, pfx_contains_eq, R.ofV_ofBool]
  | domain d =>
    simp only [hdis]
    exact meet_resolvedIP_domain p q env rc rs d hd hr _ _

theorem meet_dstGeo (p : Params) (q : Req) (env : Env) (rc : RouteConfig) (cs : List String)
    (hdis : rc.disableNameResolutionForIPRules = true) :
    meet p q (.dstGeo cs) = R.ofV (destIPCond p env rc q (fun a => inCountries p cs a)) := by
  unfold destIPCond
  cases hd : q.target with
  | ip a => simp only [meet, hd, geoMatch_eq]
  | domain d => simp only [meet, hd, hdis, if_true]; rfl

theorem meet_dstResolvedGeo (p : Params) (q : Req) (env : Env) (rc : RouteConfig) (rs : List String)
    (cs : List String) (hr : resolversFor env rc = .ok rs) (hdis : ¬ rc.disableNameResolutionForIPRules = true) :
    meet p q (.dstResolvedGeo cs rs) = R.ofV (destIPCond p env rc q (fun a => inCountries p cs a)) := by
  unfold destIPCond
  cases hd : q.target with
  | ip a => simp only [meet, hd, geoMatch_eq]
  | domain d =>
    simp only [hdis]
    exact meet_resolvedGeo_domain p q env rc rs d hd hr _

/-- a destination IP criterion, with or without name resolution, is `destIPCond` -/
theorem secToPrefix_map (p : Params) (q : Req) (env : Env) (rc : RouteConfig) (rs : List String) (g : List Crit)
    (hr : resolversFor env rc = .ok rs) (h : secToPrefix env rc rs = .ok g) :
    g.map (meet p q) = (kToPrefixes p env rc q).map R.ofV := by
  unfold secToPrefix at h
  unfold kToPrefixes
  split at h
  · rename_i e; cases h; simp [e]
  · rename_i e
    rw [if_neg e]
    split at h
    · cases h
    · rename_i s hs
      have := mkPfxSet_ok _ _ _ _ hs
      subst this
      split at h
      · rename_i hdis
        cases h
        apply wrap_map
        exact meet_dstIP p q env rc _ _ hdis
      · rename_i hdis
        cases h
        apply wrap_map
        exact meet_dstResolvedIP p q env rc rs _ _ hr hdis

theorem secToGeo_map (p : Params) (q : Req) (env : Env) (rc : RouteConfig) (rs : List String)
    (hr : resolversFor env rc = .ok rs) :
    (secToGeo rc rs).map (meet p q) = (kToGeo p env rc q).map R.ofV := by
  unfold secToGeo kToGeo
  split
  · rfl
  · split
    · rename_i hdis
      apply wrap_map
      exact meet_dstGeo p q env rc _ hdis
    · rename_i hdis
      apply wrap_map
      exact meet_dstResolvedGeo p q env rc rs _ hr hdis

theorem secToAddr_sound (p : Params) (q : Req) (env : Env) (rc : RouteConfig) (rs : List String) (cs : List Crit)
    (hr : resolversFor env rc = .ok rs) (h : secToAddr env rc rs = .ok cs) :
    meetAll p q cs = R.ofV (cToAddr p env rc q) := by
  unfold secToAddr at h
  unfold cToAddr
  split at h
  · cases h
  · rename_i g1 h1
    split at h
    · cases h
    · rename_i g2 h2
      cases h
      apply meetAll_groupAppend
      rw [List.map_append, List.map_append, List.map_append, List.map_append,
        secToDomain_map p q env rc rs g1 hr h1, secToPrefix_map p q env rc rs g2 hr h2, secToGeo_map p q env rc rs hr]

/-! ### a whole route -/

/-- `RouteConfig.Route` succeeded: what the pieces are -/
theorem build_ok (env : Env) (rc : RouteConfig) (route : Route) (h : build env rc = .ok route) :
    ∃ rs cNet clients cSrv cSp cSa cDp cDa,
      resolversFor env rc = .ok rs ∧ secNetwork rc = .ok cNet ∧ secClients env rc = .ok clients ∧
      secServers env rc = .ok cSrv ∧ secFromPorts rc = .ok cSp ∧ secFromAddr env rc = .ok cSa ∧
      secToPorts rc = .ok cDp ∧ secToAddr env rc rs = .ok cDa ∧
      route = { name := rc.name, criteria := cNet ++ cSrv ++ secUsers rc ++ cSp ++ cSa ++ cDp ++ cDa,
                tcpClient := clients.1, udpClient := clients.2 } := by
  unfold build at h
  split at h
  · cases h
  · split at h
    · cases h
    · rename_i rs hrs
      split at h
      · cases h
      · rename_i cNet hNet
        split at h
        · cases h
        · rename_i clients hcl
          split at h
          · cases h
          · rename_i cSrv hSrv
            split at h
            · cases h
            · rename_i cSp hSp
              split at h
              · cases h
              · rename_i cSa hSa
                split at h
                · cases h
                · rename_i cDp hDp
                  split at h
                  · cases h
                  · rename_i cDa hDa
                    cases h
                    exact ⟨rs, cNet, clients, cSrv, cSp, cSa, cDp, cDa, hrs, hNet, hcl, hSrv, hSp, hSa, hDp, hDa, rfl⟩

theorem R.andThen_assoc (a b c : R) : (a.andThen b).andThen c = a.andThen (b.andThen c) := by
  cases a <;> rfl

theorem R.andThen_yes (a : R) : a.andThen .yes = a := by
  cases a <;> rfl

/-- requests the theorems are about: the receiving server exists and ports are `uint16` -/
structure Req.WF (env : Env) (q : Req) : Prop where
  server : q.server < env.servers.length
  srcPort : q.srcPort < portSpace
  dstPort : q.dstPort < portSpace

theorem route_sound (p : Params) (env : Env) (rc : RouteConfig) (route : Route) (q : Req)
    (hnd : env.servers.Nodup) (hq : q.WF env) (h : build env rc = .ok route) :
    meetAll p q route.criteria = R.ofV (specRoute p env rc q) := by
  obtain ⟨rs, cNet, clients, cSrv, cSp, cSa, cDp, cDa, hrs, hNet, _, hSrv, hSp, hSa, hDp, hDa, rfl⟩ := build_ok env rc route h
  simp only [specRoute, conds, allV, R.ofV_and, meetAll_append]
  rw [secNetwork_sound p q rc cNet hNet, secServers_sound p q env rc cSrv hq.server hnd hSrv, secUsers_sound,
    secFromPorts_sound p q rc cSp hq.srcPort hSp, secFromAddr_sound p q env rc cSa hSa,
    secToPorts_sound p q rc cDp hq.dstPort hDp, secToAddr_sound p q env rc rs cDa hrs hDa]
  simp only [R.andThen_assoc, R.ofV, R.andThen_yes]

end SSV.Router
