import SSV.Proofs.RelayLifeDefs3
namespace SSV.RelayLife
variable (cfg : Cfg)

theorem inv3c_rExit (s s' : State)  (ha : Inv3a s) (hI : Inv3c s) (h : step cfg s (.rExit ) = some s') : Inv3c s' := by
  have g5 := ha.g5
  clear ha
  obtain ⟨g10⟩ := hI
  simp only [step] at h
  (repeat' split at h) <;> close_case3

theorem inv3c_dTimeout (s s' : State) (i : Nat) (ha : Inv3a s) (hI : Inv3c s) (h : step cfg s (.dTimeout i) = some s') : Inv3c s' := by
  have g5 := ha.g5
  clear ha
  obtain ⟨g10⟩ := hI
  simp only [step] at h
  (repeat' split at h) <;> close_case3

theorem inv3c_dPacket (s s' : State) (i : Nat) (ha : Inv3a s) (hI : Inv3c s) (h : step cfg s (.dPacket i) = some s') : Inv3c s' := by
  have g5 := ha.g5
  clear ha
  obtain ⟨g10⟩ := hI
  simp only [step] at h
  (repeat' split at h) <;> close_case3

theorem inv3c_dSend (s s' : State) (i : Nat) (ha : Inv3a s) (hI : Inv3c s) (h : step cfg s (.dSend i) = some s') : Inv3c s' := by
  have g5 := ha.g5
  clear ha
  obtain ⟨g10⟩ := hI
  simp only [step] at h
  (repeat' split at h) <;> close_case3


end SSV.RelayLife
