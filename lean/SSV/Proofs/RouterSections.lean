import SSV.Proofs.RouterSound
import SSV.Proofs.PortSetParse
/-
C09 helper lemmas: sections of `build` that do not involve addresses (network, servers, users, ports).
-/
namespace SSV.Router
open SSV.Router.Spec SSV.Gen

theorem secNetwork_sound (p : Params) (q : Req) (rc : RouteConfig) (cs : List Crit)
    (h : secNetwork rc = .ok cs) : meetAll p q cs = R.ofV (cNetwork rc q) := by
  unfold secNetwork at h
  simp only [C09.networkNames, List.getD_cons_zero, List.getD_cons_succ] at h
  split at h
  · rename_i e; cases h; simp [cNetwork, e, meetAll_nil]
  · split at h
    · rename_i e; cases h; simp [cNetwork, e, meetAll_single, meet]
    · split at h
      · rename_i e; cases h; simp [cNetwork, e, meetAll_single, meet]
      · cases h

theorem secUsers_sound (p : Params) (q : Req) (rc : RouteConfig) :
    meetAll p q (secUsers rc) = R.ofV (cUsers rc q) := by
  unfold secUsers cUsers
  split
  · rfl
  · simp only [meetAll_single, meet_wrap, meet, ← R.ofV_ofBool, R.inv_ofV]

theorem servers_contains (servers fs : List String) (i : Nat) (hi : i < servers.length) (hnd : servers.Nodup)
    (hall : fs.all (fun s => servers.contains s) = true) :
    (fs.map (fun s => servers.idxOf s)).contains i = fs.contains servers[i] := by
  rw [Bool.eq_iff_iff, List.contains_iff_mem, List.contains_iff_mem, List.mem_map]
  rw [List.all_eq_true] at hall
  constructor
  · rintro ⟨n, hn, e⟩
    have hmem : n ∈ servers := List.contains_iff_mem.mp (hall n hn)
    have hlt : List.idxOf n servers < servers.length := List.idxOf_lt_length_iff.mpr hmem
    have := List.getElem_idxOf hlt
    subst e
    rw [this]; exact hn
  · intro hn
    exact ⟨servers[i], hn, hnd.idxOf_getElem i hi⟩

theorem secServers_sound (p : Params) (q : Req) (env : Env) (rc : RouteConfig) (cs : List Crit)
    (hsrv : q.server < env.servers.length) (hnd : env.servers.Nodup)
    (h : secServers env rc = .ok cs) : meetAll p q cs = R.ofV (cServers env rc q) := by
  unfold secServers at h
  unfold cServers
  split at h
  · rename_i e; cases h; simp [e, meetAll_nil]
  · rename_i e
    split at h
    · rename_i hall
      cases h
      simp only [e, meetAll_single, meet_wrap, meet, bitsetIsSet]
      have : ¬ q.server ≥ env.servers.length := by omega
      simp only [this, if_false]
      rw [servers_contains env.servers rc.fromServers q.server hsrv hnd hall]
      simp only [List.getElem?_eq_getElem hsrv, ← R.ofV_ofBool, R.inv_ofV]
      rfl
    · cases h

/-! ### ports -/

theorem addPorts_spec (bad : BuildErr) : ∀ (ports : List Nat) (s s' : PortSet), s.WF →
    addPorts bad s ports = .ok s' →
    s'.WF ∧ (∀ q, s'.mem q = true ↔ (q ∈ ports ∨ s.mem q = true)) ∧ (∀ x ∈ ports, x ≠ 0) := by
  intro ports
  induction ports with
  | nil =>
    intro s s' hs h
    simp only [addPorts] at h; cases h
    exact ⟨hs, by simp, by simp⟩
  | cons x xs ih =>
    intro s s' hs h
    simp only [addPorts] at h
    split at h
    · cases h
    · rename_i hx
      simp only [Bool.or_eq_true, decide_eq_true_eq, not_or] at hx
      obtain ⟨w, m, z⟩ := ih (s.add x) s' (PortSet.wf_add s hs x) h
      refine ⟨w, ?_, ?_⟩
      · intro q
        rw [m q, PortSet.mem_add s hs x q (by omega)]
        simp only [List.mem_cons]
        constructor
        · rintro (a | a | a)
          · exact Or.inl (Or.inr a)
          · exact Or.inl (Or.inl a)
          · exact Or.inr a
        · rintro ((a | a) | a)
          · exact Or.inr (Or.inl a)
          · exact Or.inl a
          · exact Or.inr (Or.inr a)
      · intro y hy
        rcases List.mem_cons.mp hy with e | hy
        · subst e; exact hx.1
        · exact z y hy

/-- `Parse` on the table: every piece was well-formed, and the table gains exactly what the pieces denote -/
theorem addPieces_spec (bad : BuildErr) : ∀ (pieces : List (List UInt8)) (s s' : PortSet), s.WF →
    addPieces bad s pieces = .ok s' →
    s'.WF ∧ (∀ q, s'.mem q = true ↔ ((∃ pc ∈ pieces, pieceCovers pc q = true) ∨ s.mem q = true)) ∧
      (∀ pc ∈ pieces, pieceCovers pc 0 = false) ∧ (∀ pc ∈ pieces, SSV.PortSet.parseItem pc ≠ none) := by
  intro pieces
  induction pieces with
  | nil =>
    intro s s' hs h
    simp only [addPieces] at h; cases h
    exact ⟨hs, by simp, by simp, by simp⟩
  | cons pc rest ih =>
    intro s s' hs h
    simp only [addPieces] at h
    cases hp : SSV.PortSet.parseItem pc with
    | none => rw [hp] at h; cases h
    | some it =>
      have hv := SSV.PortSet.parseItem_valid hp
      rw [hp] at h
      cases it with
      | port x =>
        simp only at h
        simp only [SSV.PortSet.Item.Valid] at hv
        obtain ⟨w, m, z, pn⟩ := ih (s.add x) s' (PortSet.wf_add s hs x) h
        have hc : ∀ q, pieceCovers pc q = (x == q) := by intro q; simp [pieceCovers, hp, itemCovers]
        refine ⟨w, ?_, ?_, ?_⟩
        · intro q
          rw [m q, PortSet.mem_add s hs x q (by simp [portSpace]; omega)]
          constructor
          · rintro (⟨i, hi, c⟩ | a | a)
            · exact Or.inl ⟨i, List.mem_cons_of_mem _ hi, c⟩
            · exact Or.inl ⟨pc, List.mem_cons_self, by rw [hc]; simp [a]⟩
            · exact Or.inr a
          · rintro (⟨i, hi, c⟩ | a)
            · rcases List.mem_cons.mp hi with e | hi
              · subst e; rw [hc] at c; simp at c; exact Or.inr (Or.inl c.symm)
              · exact Or.inl ⟨i, hi, c⟩
            · exact Or.inr (Or.inr a)
        · intro y hy
          rcases List.mem_cons.mp hy with e | hy
          · subst e; rw [hc]; simp; omega
          · exact z y hy
        · intro y hy
          rcases List.mem_cons.mp hy with e | hy
          · subst e; rw [hp]; simp
          · exact pn y hy
      | range a b =>
        simp only at h
        simp only [SSV.PortSet.Item.Valid] at hv
        obtain ⟨h1, h2, h3⟩ := hv
        obtain ⟨w, m, z, pn⟩ := ih (s.addRun a (b + 1 - a)) s' (PortSet.wf_addRun s hs a _) h
        have hc : ∀ q, pieceCovers pc q = (decide (a ≤ q) && decide (q ≤ b)) := by
          intro q; simp [pieceCovers, hp, itemCovers]
        refine ⟨w, ?_, ?_, ?_⟩
        · intro q
          rw [m q, PortSet.mem_addRun s hs a (b + 1 - a) q (by simp [portSpace]; omega)]
          constructor
          · rintro (⟨i, hi, c⟩ | ⟨c1, c2⟩ | c)
            · exact Or.inl ⟨i, List.mem_cons_of_mem _ hi, c⟩
            · refine Or.inl ⟨pc, List.mem_cons_self, ?_⟩
              rw [hc]; simp; omega
            · exact Or.inr c
          · rintro (⟨i, hi, c⟩ | c)
            · rcases List.mem_cons.mp hi with e | hi
              · subst e; rw [hc] at c; simp at c; exact Or.inr (Or.inl ⟨c.1, by omega⟩)
              · exact Or.inl ⟨i, hi, c⟩
            · exact Or.inr (Or.inr c)
        · intro y hy
          rcases List.mem_cons.mp hy with e | hy
          · subst e; rw [hc]; simp; omega
          · exact z y hy
        · intro y hy
          rcases List.mem_cons.mp hy with e | hy
          · subst e; rw [hp]; simp
          · exact pn y hy

/-- the table built from a `ports` list and a `portRanges` string holds exactly the denoted ports; bit 0 is clear -/
theorem portTable_spec (init : PortSet) (hw : init.WF) (hi : ∀ q, init.mem q = false)
    (b1 b2 : BuildErr) (ports : List Nat) (str : List UInt8) (s1 s2 : PortSet)
    (h1 : addPorts b1 init ports = .ok s1) (h2 : addPieces b2 s1 (SSV.PortSet.items str) = .ok s2) :
    (∀ q, s2.mem q = portsDenote ports str q) ∧ s2.mem 0 = false := by
  obtain ⟨w1, m1, z1⟩ := addPorts_spec b1 ports init s1 hw h1
  obtain ⟨_, m2, z2, _⟩ := addPieces_spec b2 _ s1 s2 w1 h2
  have key : ∀ q, s2.mem q = portsDenote ports str q := by
    intro q
    rw [Bool.eq_iff_iff, m2 q, m1 q, hi]
    simp only [portsDenote, rangesDenote, Bool.or_eq_true, List.contains_iff_mem, List.any_eq_true]
    constructor
    · rintro (a | a | a)
      · exact Or.inr a
      · exact Or.inl a
      · cases a
    · rintro (a | a)
      · exact Or.inr (Or.inl a)
      · exact Or.inl a
  refine ⟨key, ?_⟩
  rw [key 0]
  simp only [portsDenote, rangesDenote, Bool.or_eq_false_iff]
  constructor
  · rw [Bool.eq_false_iff]
    intro h
    exact z1 0 (List.contains_iff_mem.mp h) rfl
  · rw [Bool.eq_false_iff]
    intro h
    obtain ⟨it, hit, c⟩ := List.any_eq_true.mp h
    rw [z2 it hit] at c; cases c

theorem portCrit_cases (s : PortSet) (pl : BuildErr) (single : Nat → Crit) (ranges : List (Nat × Nat) → Crit)
    (set : PortSet → Crit) (c : Crit) (h : portCrit s 1 65535 16 pl single ranges set = .ok c) :
    (c = single s.first ∧ s.count = 1) ∨ c = ranges s.rangeSet ∨ c = set s := by
  unfold portCrit at h
  simp only at h
  split at h
  · cases h
  · split at h
    · rename_i e; cases h; exact Or.inl ⟨rfl, e⟩
    · split at h
      · cases h
      · split at h
        · cases h; exact Or.inr (Or.inl rfl)
        · cases h; exact Or.inr (Or.inr rfl)

theorem srcGuard : C09.srcPortSetGuardsZero = true := by decide
theorem dstGuard : C09.dstPortSetGuardsZero = true := by decide

theorem portSetMeet_guarded (s : PortSet) (hs0 : s.mem 0 = false) (port : Nat) :
    portSetMeet true s port = R.ofBool (s.mem port) := by
  unfold portSetMeet PortSet.contains
  by_cases e : port = 0
  · subst e; simp [hs0, R.ofBool]
  · simp [e]

/-- the port block: whichever representation is chosen, the criterion decides "port ∈ denoted set" (xor invert) -/
theorem portsSection_sound (p : Params) (q : Req) (port : Nat) (hq : port < portSpace)
    (init : PortSet) (hw : init.WF) (hi : ∀ x, init.mem x = false)
    (ports : List Nat) (str : List UInt8) (invert : Bool) (b1 b2 pl : BuildErr)
    (single : Nat → Crit) (ranges : List (Nat × Nat) → Crit) (set : PortSet → Crit)
    (hsingle : ∀ x, meet p q (single x) = R.ofBool (x == port))
    (hranges : ∀ rs, meet p q (ranges rs) = R.ofBool (rangesContain rs port))
    (hset : ∀ s, meet p q (set s) = portSetMeet true s port)
    (cs : List Crit)
    (h : portsSection init ports str invert b1 b2 pl 1 65535 16 single ranges set = .ok cs) :
    meetAll p q cs =
      R.ofV (if ports.isEmpty && str.isEmpty then .t else (V.ofBool (portsDenote ports str port)).inv invert) := by
  unfold portsSection at h
  split at h
  · rename_i e; cases h; simp [e, meetAll_nil]
  · rename_i e
    split at h
    · cases h
    · rename_i s1 h1
      split at h
      · cases h
      · rename_i s2 h2
        split at h
        · cases h
        · rename_i c hc
          cases h
          obtain ⟨key, z⟩ := portTable_spec init hw hi _ _ _ _ _ _ h1 h2
          simp only [e, meetAll_single, meet_wrap]
          have hm : meet p q c = R.ofBool (s2.mem port) := by
            rcases portCrit_cases _ _ _ _ _ _ hc with ⟨rfl, h1⟩ | rfl | rfl
            · rw [hsingle, first_of_count_one s2 h1 _ hq]
            · rw [hranges, rangeSet_contains s2 _ hq]
            · rw [hset]; exact portSetMeet_guarded s2 z _
          rw [hm, key, ← R.ofV_ofBool, R.inv_ofV]
          rfl

theorem secFromPorts_sound (p : Params) (q : Req) (rc : RouteConfig) (cs : List Crit)
    (hq : q.srcPort < portSpace) (h : secFromPorts rc = .ok cs) :
    meetAll p q cs = R.ofV (cFromPorts rc q) := by
  unfold secFromPorts at h
  simp only [C09.srcPortSingleCount, C09.srcPortAllCount, C09.srcPortMaxRanges] at h
  exact portsSection_sound p q q.srcPort hq .empty PortSet.wf_empty PortSet.mem_empty _ _ _ _ _ _ _ _ _
    (fun x => by simp only [meet]) (fun rs => by simp only [meet]) (fun s => by simp only [meet, srcGuard]) cs h

theorem secToPorts_sound (p : Params) (q : Req) (rc : RouteConfig) (cs : List Crit)
    (hq : q.dstPort < portSpace) (h : secToPorts rc = .ok cs) :
    meetAll p q cs = R.ofV (cToPorts rc q) := by
  unfold secToPorts at h
  simp only [C09.dstPortSingleCount, C09.dstPortAllCount, C09.dstPortMaxRanges] at h
  exact portsSection_sound p q q.dstPort hq .empty PortSet.wf_empty PortSet.mem_empty _ _ _ _ _ _ _ _ _
    (fun x => by simp only [meet]) (fun rs => by simp only [meet]) (fun s => by simp only [meet, dstGuard]) cs h

end SSV.Router
