import SSV.Proofs.RelayLifeInv4c_p0
import SSV.Proofs.RelayLifeInv4c_p1
import SSV.Proofs.RelayLifeInv4c_p2
import SSV.Proofs.RelayLifeInv4c_p3
import SSV.Proofs.RelayLifeInv4c_p4
import SSV.Proofs.RelayLifeInv4c_p5
namespace SSV.RelayLife
variable (cfg : Cfg)

theorem inv4_uStep (s s' : State) (i : Nat) (h1 : Inv1 s) (ha : Inv3a s) (hd : Inv3d s) (hI : Inv4 cfg s) (h : step cfg s (.uStep i) = some s') : Inv4 cfg s' := by
  by_cases hi : i < s.n
  · cases hp : (s.ent i).upc with
    | recv => exact inv4_uStep_recv cfg s s' i h1 ha hd hI hi hp h
    | send => exact inv4_uStep_send cfg s s' i h1 ha hd hI hi hp h
    | arm => exact inv4_uStep_arm cfg s s' i h1 ha hd hI hi hp h
    | check => exact inv4_uStep_check cfg s s' i h1 ha hd hI hi hp h
    | force => exact inv4_uStep_force cfg s s' i h1 ha hd hI hi hp h
    | closeSock => exact inv4_uStep_closeSock cfg s s' i h1 ha hd hI hi hp h
    | _ => simp [step, hi, hp] at h
  · simp [step, hi] at h

set_option maxHeartbeats 1600000 in
theorem inv4_timer (s s' : State) (i : Nat) (h1 : Inv1 s) (ha : Inv3a s) (hd : Inv3d s) (hI : Inv4 cfg s) (h : step cfg s (.timer i) = some s') : Inv4 cfg s' := by
  have a7 := h1.closed
  clear h1
  have u2 := ha.u2
  have u3 := ha.u3
  clear ha
  obtain ⟨u1⟩ := hd
  obtain ⟨s1,s2,s3,s4,s5,u4,u6⟩ := hI
  simp only [step] at h
  (repeat' split at h) <;> close_case4

end SSV.RelayLife
