import SSV.Proofs.RelayFate
/-
Every step preserves the conservation + FIFO invariant `FInv`.
-/
namespace SSV.Relay

variable {cfg : Config}

theorem sess_next_none {st : State} (hI : FInv st) : st.sess st.next = none := by
  cases h : st.sess st.next with
  | none => rfl
  | some s => exact absurd (hI.fresh _ _ h) (Nat.lt_irrefl _)

theorem finv_recv {st : State} (hI : FInv st) (k : Key) (src : Addr) (res : Option Pkt) :
    FInv (recv cfg st k src res) := by
  unfold recv
  split
  · exact hI
  · cases ht : st.table k with
    | some sid =>
      simp only
      cases hs : st.sess sid with
      | none => simp only; exact hI
      | some s =>
        cases res with
        | none => simp only; exact hI
        | some q =>
          simp only
          by_cases hc : s.queue.length < cfg.cap
          · refine frameF sid (enqueue cfg { s with clientAddr := src } q) hI (Nat.le_refl _) (hI.fresh _ _ hs) rfl
              [q] [] (by simp [hc]) (by simp [setSess]) ?_ (by simp) (fun _ h => h) ?_
            · simp [hI.fifo _ _ hs, pend, enqueue, hc]
            · simpa using hI.idle _ _ hs
          · refine frameF sid (enqueue cfg { s with clientAddr := src } q) hI (Nat.le_refl _) (hI.fresh _ _ hs) rfl
              [] [] (by simp [hc]) (by simp [setSess]) ?_ (by simp) (fun _ h => h) ?_
            · simp [hI.fifo _ _ hs, pend, enqueue, hc]
            · simpa using hI.idle _ _ hs
    | none =>
      simp only
      have hnone := sess_next_none hI
      have hemp := hI.empty _ hnone
      cases res with
      | some q =>
        simp only
        by_cases hc : 0 < cfg.cap
        · refine frameF st.next (enqueue cfg (newSess k src) q) hI (Nat.le_succ _) (Nat.lt_succ_self _) rfl
            [q] [] (by simp [hc]) (by simp) ?_ (by simp) (fun _ h => h) (by simp [newSess])
          simp [hemp.1, hemp.2, pend, enqueue, newSess, hc, inflight]
        · refine frameF st.next (enqueue cfg (newSess k src) q) hI (Nat.le_succ _) (Nat.lt_succ_self _) rfl
            [] [] (by simp [hc]) (by simp) ?_ (by simp) (fun _ h => h) (by simp [newSess])
          simp [hemp.1, hemp.2, pend, enqueue, newSess, hc, inflight]
      | none =>
        simp only
        split
        · refine frameF st.next (newSess k src) hI (Nat.le_succ _) (Nat.lt_succ_self _) rfl
            [] [] (by simp) (by simp) ?_ (by simp) (fun _ h => h) (by simp [newSess])
          simp [hemp.1, hemp.2, pend, newSess, inflight]
        · exact hI

theorem finv_initOk {st : State} (hI : FInv st) (sid : Nat) : FInv (initOk st sid) := by
  unfold initOk
  cases hs : st.sess sid with
  | none => exact hI
  | some s =>
    simp only
    split
    · refine frameF sid { s with started := true } hI (Nat.le_refl _) (hI.fresh _ _ hs) rfl
        [] [] (by simp [setSess]) (by simp [setSess]) ?_ (by simp) (fun _ h => h) (by simp)
      simp [hI.fifo _ _ hs, pend]
    · exact hI

theorem finv_evict {st : State} (hI : FInv st) (sid : Nat) : FInv (evict st sid) := by
  unfold evict
  cases hs : st.sess sid with
  | none => exact hI
  | some s =>
    simp only
    split
    · refine frameF sid { s with closed := true } hI (Nat.le_refl _) (hI.fresh _ _ hs) rfl
        [] [] (by simp [closeSess, setSess]) (by simp [closeSess, setSess]) ?_ (by simp) (fun _ h => h)
        (by simpa using hI.idle _ _ hs)
      simp [hI.fifo _ _ hs, pend]
    · exact hI

theorem finv_initFail {st : State} (hI : FInv st) (sid : Nat) : FInv (initFail st sid) := by
  unfold initFail
  cases hs : st.sess sid with
  | none => exact hI
  | some s =>
    simp only
    split
    next hg =>
      have hns : s.started = false := by
        simp only [Bool.and_eq_true, Bool.not_eq_true'] at hg; exact hg.1
      have hpc := hI.idle _ _ hs hns
      refine frameF sid { s with queue := [], closed := true } hI (Nat.le_refl _) (hI.fresh _ _ hs) rfl
        [] (s.queue.map (fun q => (q, Fate.notStarted))) (by simp [closeSess, setSess])
        (by simp [closeSess, setSess, List.map_map, Function.comp_def]) ?_ ?_ (fun _ h => h) (fun _ => hpc)
      · simp [hI.fifo _ _ hs, pend, List.map_map, Function.comp_def, hpc, inflight]
      · intro x hx ip port h
        obtain ⟨q, _, hq⟩ := List.mem_map.mp hx
        subst hq; cases h
    · exact hI

theorem started_of_guard {s : Sess} (hg : (s.started && s.pc == .idle) = true) : s.started = true ∧ s.pc = .idle := by
  simp only [Bool.and_eq_true, beq_iff_eq] at hg; exact hg

theorem finv_take {st : State} (hI : FInv st) (sid : Nat) : FInv (take cfg st sid) := by
  unfold take
  cases hs : st.sess sid with
  | none => exact hI
  | some s =>
    simp only
    split
    next hg =>
      obtain ⟨hst, hidle⟩ := started_of_guard hg
      cases hqe : s.queue with
      | nil => exact hI
      | cons q rest =>
        simp only
        have hf := hI.fifo _ _ hs
        simp only [pend, hidle, inflight, hqe, List.nil_append] at hf
        cases hup : cfg.upstream with
        | some ap =>
          obtain ⟨a, p⟩ := ap
          simp only
          refine frameF sid { s with queue := rest } hI (Nat.le_refl _) (hI.fresh _ _ hs) rfl
            [] [(q, .sent a p)] (by simp [setSess]) (by simp [setSess]) ?_ ?_ (fun _ h => by simp [setSess]; exact Or.inl h)
            (fun h => by simp [hst] at h)
          · simp [hf, pend, hidle, inflight]
          · intro x hx ip port h; simp at hx; subst hx; cases h; simp [setSess]
        | none =>
          simp only
          cases htg : q.target with
          | ip a p =>
            simp only
            refine frameF sid { s with queue := rest } hI (Nat.le_refl _) (hI.fresh _ _ hs) rfl
              [] [(q, .sent a p)] (by simp [setSess]) (by simp [setSess]) ?_ ?_ (fun _ h => by simp [setSess]; exact Or.inl h)
              (fun h => by simp [hst] at h)
            · simp [hf, pend, hidle, inflight]
            · intro x hx ip port h; simp at hx; subst hx; cases h; simp [setSess]
          | dom d port =>
            simp only
            split
            · refine frameF sid { s with queue := rest, pc := .storedIP q } hI (Nat.le_refl _) (hI.fresh _ _ hs) rfl
                [] [] (by simp [setSess]) (by simp [setSess]) ?_ (by simp) (fun _ h => h) (fun h => by simp [hst] at h)
              simp [hf, pend, inflight]
            · refine frameF sid { s with queue := rest, pc := .resolving q d } hI (Nat.le_refl _) (hI.fresh _ _ hs) rfl
                [] [] (by simp [setSess]) (by simp [setSess]) ?_ (by simp) (fun _ h => h) (fun h => by simp [hst] at h)
              simp [hf, pend, inflight]
    next => exact hI

theorem finv_packErr {st : State} (hI : FInv st) (sid : Nat) : FInv (packErr st sid) := by
  unfold packErr
  cases hs : st.sess sid with
  | none => exact hI
  | some s =>
    simp only
    split
    next hg =>
      obtain ⟨hst, hidle⟩ := started_of_guard hg
      cases hqe : s.queue with
      | nil => exact hI
      | cons q rest =>
        simp only
        have hf := hI.fifo _ _ hs
        simp only [pend, hidle, inflight, hqe, List.nil_append] at hf
        refine frameF sid { s with queue := rest } hI (Nat.le_refl _) (hI.fresh _ _ hs) rfl
          [] [(q, .packFailed)] (by simp [setSess]) (by simp [setSess]) ?_ ?_ (fun _ h => h) (fun h => by simp [hst] at h)
        · simp [hf, pend, hidle, inflight]
        · intro x hx ip port h; simp at hx; subst hx; cases h
    next => exact hI

/-- a session whose uplink is inside `PackInPlace` has been started -/
theorem started_of_busy {st : State} (hI : FInv st) {sid : Nat} {s : Sess} (hs : st.sess sid = some s)
    (h : s.pc ≠ .idle) : s.started = true := by
  cases hst : s.started with
  | true => rfl
  | false => exact absurd (hI.idle _ _ hs hst) h

theorem finv_resolved {st : State} (hI : FInv st) (sid : Nat) (ans : Option IP) : FInv (resolved cfg st sid ans) := by
  unfold resolved
  cases hs : st.sess sid with
  | none => exact hI
  | some s =>
    simp only
    have hf := hI.fifo _ _ hs
    cases hpc : s.pc with
    | resolving q d =>
      have hst := started_of_busy hI hs (by rw [hpc]; simp)
      simp only [pend, hpc, inflight] at hf
      cases ans with
      | some ip =>
        simp only
        refine frameF sid { s with pc := .storedDomain q ip } hI (Nat.le_refl _) (hI.fresh _ _ hs) rfl
          [] [] (by simp [setSess]) (by simp [setSess]) ?_ (by simp) (fun _ h => h) (fun h => by simp [hst] at h)
        simp [hf, pend, inflight]
      | none =>
        simp only
        refine frameF sid { s with pc := .idle } hI (Nat.le_refl _) (hI.fresh _ _ hs) rfl
          [] [(q, .resolveFailed)] (by simp [setSess]) (by simp [setSess]) ?_ ?_ (fun _ h => h) (fun _ => rfl)
        · simp [hf, pend, inflight]
        · intro x hx ip port h; simp at hx; subst hx; cases h
    | idle => cases ans <;> exact hI
    | storedDomain _ _ => cases ans <;> exact hI
    | storedIP _ => cases ans <;> exact hI

theorem finv_storeIP {st : State} (hI : FInv st) (sid : Nat) : FInv (storeIP cfg st sid) := by
  unfold storeIP
  cases hs : st.sess sid with
  | none => exact hI
  | some s =>
    simp only
    have hf := hI.fifo _ _ hs
    cases hpc : s.pc with
    | storedDomain q ip =>
      have hst := started_of_busy hI hs (by rw [hpc]; simp)
      simp only [pend, hpc, inflight] at hf
      simp only
      refine frameF sid { s with pc := .storedIP q } hI (Nat.le_refl _) (hI.fresh _ _ hs) rfl
        [] [] (by simp [setSess]) (by simp [setSess]) ?_ (by simp) (fun _ h => h) (fun h => by simp [hst] at h)
      simp [hf, pend, inflight]
    | idle => exact hI
    | resolving _ _ => exact hI
    | storedIP _ => exact hI

theorem finv_readSend {st : State} (hI : FInv st) (sid : Nat) : FInv (readSend cfg st sid) := by
  unfold readSend
  cases hs : st.sess sid with
  | none => exact hI
  | some s =>
    simp only
    have hf := hI.fifo _ _ hs
    cases hpc : s.pc with
    | storedIP q =>
      simp only [pend, hpc, inflight] at hf
      simp only
      refine frameF sid { s with pc := .idle } hI (Nat.le_refl _) (hI.fresh _ _ hs) rfl
        [] [(q, .sent (st.cache (cfg.packerOf sid)).ip q.target.port)] (by simp [setSess]) (by simp [setSess]) ?_ ?_
        (fun _ h => by simp [setSess]; exact Or.inl h) (fun _ => rfl)
      · simp [hf, pend, inflight]
      · intro x hx ip port h; simp at hx; subst hx; cases h; simp [setSess]
    | idle => exact hI
    | resolving _ _ => exact hI
    | storedDomain _ _ => exact hI

theorem finv_down {st : State} (hI : FInv st) (sid : Nat) (res : Option ((IP × Nat) × Payload)) :
    FInv (down cfg st sid res) := by
  unfold down
  split
  · split
    · exact ⟨hI.fresh, hI.empty, hI.fifo, hI.idle, hI.sentLog⟩
    · exact hI
  · exact hI

theorem finv_step {st : State} (hI : FInv st) (a : Act) : FInv (step cfg st a) := by
  cases a with
  | recv k src r => exact finv_recv hI k src r
  | initOk sid => exact finv_initOk hI sid
  | initFail sid => exact finv_initFail hI sid
  | take sid => exact finv_take hI sid
  | packErr sid => exact finv_packErr hI sid
  | resolved sid ans => exact finv_resolved hI sid ans
  | storeIP sid => exact finv_storeIP hI sid
  | readSend sid => exact finv_readSend hI sid
  | down sid r => exact finv_down hI sid r
  | evict sid => exact finv_evict hI sid

theorem finv_run (acts : List Act) {st : State} (hI : FInv st) : FInv (run cfg st acts) := by
  induction acts generalizing st with
  | nil => exact hI
  | cons a rest ih => exact ih (finv_step hI a)

end SSV.Relay
