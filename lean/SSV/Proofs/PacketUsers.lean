import SSV.Proofs.PacketSSUp
import SSV.Model.PacketUsers
/- C05 helper lemmas: the multi-user ss2022 server (identity header, user lookup, per-user session key). -/
namespace SSV.Packet
open SSV SSV.Gen.C05

theorem xor_cancel_u8 (a b : UInt8) : (a ^^^ b) ^^^ b = a := by
  rw [UInt8.xor_assoc, UInt8.xor_self, UInt8.xor_zero]

theorem xorBytes_cancel : ∀ (h s : Bytes), h.length ≤ s.length → xorBytes (xorBytes h s) s = h
  | [], _, _ => by simp [xorBytes]
  | _ :: _, [], hl => by simp at hl
  | a :: h, b :: s, hl => by
    have ih := xorBytes_cancel h s (by simpa using hl)
    simp only [xorBytes, List.zipWith_cons_cons] at ih ⊢
    rw [xor_cancel_u8, ih]

/-- the user lookup: if the user set has an entry for `hu` and every entry with that hash carries the same PSK
(hash-injectivity on the user set), the derived table yields that user's session key -/
theorem lookup_user (users : List (Bytes × Bytes)) (f : Bytes → Bytes) (hu pu : Bytes)
    (hmem : (hu, pu) ∈ users) (hinj : ∀ u ∈ users, u.1 = hu → u.2 = pu) :
    ((users.map (fun u => (u.1, f u.2))).find? (fun u => u.1 == hu)).map (·.2) = some (f pu) := by
  induction users with
  | nil => cases hmem
  | cons x t ih =>
    simp only [List.map_cons, List.find?_cons]
    by_cases hx : x.1 = hu
    · have := hinj x (by simp) hx
      simp [hx, this]
    · have hne : (x.1 == hu) = false := by simpa using hx
      simp only [hne]
      apply ih
      · rcases List.mem_cons.mp hmem with h | h
        · exact absurd (by rw [← h]) hx
        · exact h
      · intro u hu' h; exact hinj u (by simp [hu']) h

/-- the server side with the identity lookup, on any buffer whose window holds
`enc(iblock, sep) ++ enc(iblock, hash ⊕ sep) ++ ciphertext` -/
theorem ssServerUnpack_window_lookup (c : Crypto) (L : c.Laws) (block : Bytes) (table : List (Bytes × Bytes)) (key : Bytes)
    (now : Int) (bb : Bytes) (q n : Nat) (sep hu ct pt : Bytes) (a : Addr) (ps' pl' : Nat)
    (hwin : sub bb q n = c.enc block sep ++ c.enc block (xorBytes hu sep) ++ ct)
    (hsep : sep.length = 16) (hhu : hu.length = 16) (hn : n = 32 + ct.length) (hct : 16 ≤ ct.length)
    (hlen : q + n ≤ bb.length)
    (hlook : (table.find? (fun u => u.1 == hu)).map (·.2) = some key)
    (hopen : c.aopen key (sep.drop 4) ct = some pt) (hparse : parseClientHeader pt now = .ok (a, ps', pl')) :
    ssServerUnpack c block [] 1 true table now bb q n
      = .ok ⟨splice bb q (sep ++ hu ++ pt), a, ((q + 32 + ps' : Nat) : Int), pl'⟩ := by
  have henc : (c.enc block sep).length = 16 := by rw [L.enc_len, hsep]
  have hxl : (xorBytes hu sep).length = 16 := by simp [xorBytes_length, hhu, hsep]
  have hidl : (c.enc block (xorBytes hu sep)).length = 16 := by rw [L.enc_len, hxl]
  have e1 : sub bb q 16 = c.enc block sep := by
    have := sub_of_sub bb q n 0 16 (by omega)
    rw [Nat.add_zero] at this
    rw [this, hwin, List.append_assoc, sub_left _ _ _ henc]
  have e2 : sub bb (q + 16) (16 + 16 * 1 - 16) = c.enc block (xorBytes hu sep) := by
    rw [sub_of_sub bb q n 16 (16 + 16 * 1 - 16) (by omega), hwin, List.append_assoc,
      sub_right (c.enc block sep) _ 16 _ 0 (by omega), sub_left _ ct _ (by omega)]
  have e3 : sub bb (q + (16 + 16 * 1)) (n - (16 + 16 * 1)) = ct := by
    rw [sub_of_sub bb q n (16 + 16 * 1) (n - (16 + 16 * 1)) (by omega), hwin,
      sub_right (c.enc block sep ++ c.enc block (xorBytes hu sep)) ct (16 + 16 * 1) _ 0 (by simp [henc, hidl]), sub_whole ct _ (by omega)]
  have hna : UDPSeparateHeaderLength + IdentityHeaderLength * 1 = 16 + 16 * 1 := rfl
  have hu' : UDPSeparateHeaderLength = 16 := rfl
  have hfirst : xorBytes (c.dec block (List.take 16 (c.enc block (xorBytes hu sep)))) sep = hu := by
    rw [List.take_of_length_le (by omega), L.dec_enc, xorBytes_cancel hu sep (by omega)]
  unfold ssServerUnpack
  rw [hna, hu']
  simp only [if_true]
  rw [if_neg (by simp only [Decidable.not_not, sliceOk]; omega), if_neg (by omega), if_neg (by omega)]
  simp only [e1, L.dec_enc, e2, hfirst, hlook]
  have e5 : sUnpackTooSmall (n : Int) ((16 + 16 * 1 : Nat) : Int) 16 = false := by
    simp only [sUnpackTooSmall, decide_eq_false_iff_not]; omega
  have e4 : (sUnpackMessageHeaderStart (q : Int) ((16 + 16 * 1 : Nat) : Int)).toNat = q + (16 + 16 * 1) := by
    simp only [sUnpackMessageHeaderStart]; omega
  simp only [e5, Bool.false_eq_true, if_false, e4, e3, hopen, hparse]
  have e6 : sUnpackMessageHeaderStart (q : Int) ((16 + 16 * 1 : Nat) : Int) + (ps' : Int) = ((q + 32 + ps' : Nat) : Int) := by
    simp only [sUnpackMessageHeaderStart]; omega
  rw [e6]
  have e7 : List.drop 16 (c.enc block (xorBytes hu sep)) = [] := List.drop_eq_nil_of_le (by omega)
  simp [e7]


/-- client → multi-user server round trip: the client of user `(hu, pu)` (one identity header, iPSK block key `ik`,
session key derived from ITS PSK) is unpacked by a server that only knows the iPSK and the user map -/
theorem ss_roundtrip_up_multiuser (c : Crypto) (L : c.Laws) (kdf : Bytes → Bytes → Bytes) (userBlock ik hu pu : Bytes)
    (users : List (Bytes × Bytes)) (mps : Int) (pol : Policy) (b : Bytes) (a : Addr) (ps pl rand : Nat)
    (ts sid pid : Bytes) (now : Int) (r : Packed)
    (ha : a.wf) (hts : ts.length = 8) (hsid : sid.length = 8) (hpid : pid.length = 8) (hhu : hu.length = 16)
    (hnow : tsOk ts now = true)
    (hmem : (hu, pu) ∈ users) (hinj : ∀ u ∈ users, u.1 = hu → u.2 = pu)
    (h : ssClientPack c userBlock (kdf pu sid) [(ik, hu)] mps pol b a ps pl rand ts sid pid = .ok r) :
    ∃ u, ssServerUnpackMU c kdf ik users now r.buf r.packetStart.toNat r.packetLen.toNat = .ok u ∧
      u.addr = a.norm ∧ u.payloadStart = ps ∧ u.payloadLen = pl ∧ sub u.buf ps pl = sub b ps pl ∧
      u.buf.length = b.length ∧ u.buf.take r.packetStart.toNat = r.buf.take r.packetStart.toNat ∧
      u.buf.drop (r.packetStart + r.packetLen).toNat = r.buf.drop (r.packetStart + r.packetLen).toNat := by
  obtain ⟨hal1, hal2⟩ := addrLen_bounds a ha
  obtain ⟨pad, hpad, hF, hroom, _, hps, hpl, hbuf⟩ := ssClientPack_ok ha h
  have hsep : (sid ++ pid).length = 16 := by simp [hsid, hpid]
  have hFdef : ssFront [(ik, hu)].length a pad = 16 + 16 * 1 + 11 + (addrLen a).toNat + pad := rfl
  have hhdr := ssClientHdr_length b a ps pad ts ha hts (by omega)
  have hsubpl : (sub b ps pl).length = pl := sub_length _ _ _ (by omega)
  have hxl : (xorBytes hu (sid ++ pid)).length = 16 := by simp [xorBytes_length, hhu, hsep]
  obtain ⟨P, hPdef⟩ : ∃ P, P = ssClientPacket c userBlock (kdf pu sid) [(ik, hu)] b a ps pl pad ts sid pid := ⟨_, rfl⟩
  have hPeq : P = c.enc ik (sid ++ pid) ++ c.enc ik (xorBytes hu (sid ++ pid)) ++
        c.aseal (kdf pu sid) ((sid ++ pid).drop 4) (ssClientHdr b a ps pad ts ++ sub b ps pl) := by
    rw [hPdef]; simp [ssClientPacket, ssBlock]
  have hF1 : ssFront [(ik, hu)].length a pad = ssFront 1 a pad := rfl
  rw [hF1, ← hPdef] at hbuf
  rw [hF1] at hF hps hpl
  have hF1d : ssFront 1 a pad = 16 + 16 * 1 + 11 + (addrLen a).toNat + pad := rfl
  have hPlen : P.length = ssFront 1 a pad + pl + 16 := by
    rw [hPeq]
    simp only [List.length_append, L.enc_len, L.seal_len, hsep, hxl, hhdr, hsubpl]
    omega
  have e1 : r.packetStart.toNat = ps - ssFront 1 a pad := by omega
  have e2 : r.packetLen.toNat = ssFront 1 a pad + pl + 16 := by omega
  have e3 : (r.packetStart + r.packetLen).toNat = ps + pl + 16 := by omega
  rw [e1, e2, e3, hbuf]
  have hL := splice_length b (ps - ssFront 1 a pad) P (by rw [hPlen]; omega)
  have hwin0 := sub_splice b (ps - ssFront 1 a pad) P (by rw [hPlen]; omega)
  rw [hPlen] at hwin0
  have hwin := hwin0.trans hPeq
  have hpt : ssClientHdr b a ps pad ts ++ sub b ps pl =
      UInt8.ofNat HeaderTypeClientPacket :: (ts ++ (be16 pad ++ (sub b (ps - (addrLen a).toNat - pad) pad ++ (encodeAddr a ++ sub b ps pl)))) := by
    simp [ssClientHdr]
  have hparse := parseClientHeader_put ts (sub b (ps - (addrLen a).toNat - pad) pad) pad a (sub b ps pl) now hts
    (sub_length _ _ _ (by omega)) (by omega) ha hnow
  rw [← hpt, hsubpl] at hparse
  -- the salt the server derives the session key from is the client session id
  have henc : (c.enc ik (sid ++ pid)).length = 16 := by rw [L.enc_len, hsep]
  have hsalt : (c.dec ik (sub (splice b (ps - ssFront 1 a pad) P) (ps - ssFront 1 a pad) 16)).take 8 = sid := by
    have := sub_of_sub (splice b (ps - ssFront 1 a pad) P) (ps - ssFront 1 a pad) (ssFront 1 a pad + pl + 16) 0 16 (by omega)
    rw [Nat.add_zero] at this
    rw [this, hwin, List.append_assoc, sub_left _ _ _ henc, L.dec_enc]
    simp [hsid]
  have hlook := lookup_user users (fun p => kdf p sid) hu pu hmem hinj
  have hu' := ssServerUnpack_window_lookup c L ik (users.map (fun u => (u.1, kdf u.2 sid))) (kdf pu sid) now _ (ps - ssFront 1 a pad)
    (ssFront 1 a pad + pl + 16) (sid ++ pid) hu _ _ _ _ _ hwin hsep hhu
    (by simp only [L.seal_len, List.length_append, hhdr, hsubpl]; omega)
    (by simp only [L.seal_len]; omega) (by omega) hlook (L.open_seal _ _ _) hparse
  have hDlen : (sid ++ pid ++ hu ++ (ssClientHdr b a ps pad ts ++ sub b ps pl)).length = ssFront 1 a pad + pl := by
    simp only [List.length_append, hsid, hpid, hhu, hhdr, hsubpl]; omega
  have hq : ps - ssFront 1 a pad + ssFront 1 a pad = ps := by omega
  refine ⟨_, by unfold ssServerUnpackMU; simp only; rw [hsalt]; exact hu', rfl, ?_, rfl, ?_, ?_, ?_, ?_⟩
  · simp only; omega
  · simp only
    have := sub_splice_inner (splice b (ps - ssFront 1 a pad) P)
      (ps - ssFront 1 a pad) _ (ssFront 1 a pad) pl (by rw [hDlen, hL]; omega) (by rw [hDlen]; omega)
    rw [hq] at this
    rw [this, ← List.append_assoc,
      sub_right _ (sub b ps pl) (ssFront 1 a pad) pl 0
        (by simp only [List.length_append, hsid, hpid, hhu, hhdr]; omega),
      sub_whole _ _ hsubpl]
  · simp only
    rw [splice_length _ _ _ (by rw [hDlen, hL]; omega), hL]
  · simp only
    rw [splice_take _ _ _ (by rw [hDlen, hL]; omega)]
  · simp only
    rw [splice_drop_ge _ _ _ _ (by rw [hDlen, hL]; omega) (by rw [hDlen]; omega)]

end SSV.Packet
