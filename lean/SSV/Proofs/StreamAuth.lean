import SSV.Proofs.StreamReader
/-
C02, layer 1: whatever wire an attacker presents, a reader only ever hands over genuine chunks, in
order, and everything it consumed on the way is byte-for-byte the honest wire.

Hypotheses about the AEAD under the session key `k` (parameters of the theorems):
* `uf`  — unforgeability relative to the honest history: whatever opens under nonce `n` was sealed
          by the genuine peer under nonce `n` (`honest n`);
* `det` — the ciphertext is determined by (key, nonce, plaintext).
-/
namespace SSV.Stream
open SSV.Gen.C01

/-- nonce → plaintext map of a genuine writer that sealed the chunks `cs` starting at nonce `n0`
(a function, because the writer uses every nonce once: `Writer.emit`) -/
def honestOf (n0 : Nat) (cs : List Bytes) (n : Nat) : Option Bytes :=
  if n < n0 then none
  else match cs[(n - n0) / 2]? with
    | none => none
    | some p => if (n - n0) % 2 = 0 then some (be16 p.length) else some p

structure AeadAuth (C : Crypto) (k : Bytes) (honest : Nat → Option Bytes) : Prop where
  uf : ∀ n c p, C.dec k n c = some p → honest n = some p
  det : ∀ n c p, C.dec k n c = some p → c = C.enc k n p

theorem honestOf_even (n0 : Nat) (cs : List Bytes) (j : Nat) (lp : Bytes)
    (h : honestOf n0 cs (n0 + 2 * j) = some lp) : ∃ p, cs[j]? = some p ∧ lp = be16 p.length := by
  unfold honestOf at h
  have e1 : (n0 + 2 * j - n0) / 2 = j := by omega
  have e2 : (n0 + 2 * j - n0) % 2 = 0 := by omega
  rw [if_neg (by omega), e1, e2] at h
  cases hc : cs[j]? with
  | none => simp [hc] at h
  | some p => simp [hc] at h; exact ⟨p, rfl, h.symm⟩

theorem honestOf_odd (n0 : Nat) (cs : List Bytes) (j : Nat) (q : Bytes)
    (h : honestOf n0 cs (n0 + 2 * j + 1) = some q) : cs[j]? = some q := by
  unfold honestOf at h
  have e1 : (n0 + 2 * j + 1 - n0) / 2 = j := by omega
  have e2 : (n0 + 2 * j + 1 - n0) % 2 = 1 := by omega
  rw [if_neg (by omega), e1, e2] at h
  cases hc : cs[j]? with
  | none => simp [hc] at h
  | some p => simp [hc] at h; rw [h]

theorem readFull_split {n : Nat} {w a b : Bytes} (h : readFull n w = .ok (a, b)) : w = a ++ b := by
  unfold readFull at h
  split at h
  · cases h; rfl
  · split at h
    · cases h
    · split at h
      · cases h
      · cases h; exact (List.take_append_drop n w).symm

theorem readFull_eof {n : Nat} {w : Bytes} (h : readFull n w = .error .eof) : w = [] := by
  unfold readFull at h
  split at h
  · cases h
  · split at h
    · exact List.length_eq_zero_iff.mp (by assumption)
    · split at h <;> cases h

/-- what a successful / cleanly ending `read` proves about the bytes it consumed -/
theorem readChunk_honest {C : Crypto} {k : Bytes} {n0 : Nat} {cs : List Bytes}
    (hA : AeadAuth C k (honestOf n0 cs)) (hv : ValidChunks cs) (j : Nat) (w : Bytes) :
    (∀ p, (readChunk C k (n0 + 2 * j) w).res = .ok p →
        cs[j]? = some p ∧ w = sealChunk C k (n0 + 2 * j) p ++ (readChunk C k (n0 + 2 * j) w).wire ∧
        (readChunk C k (n0 + 2 * j) w).nonce = n0 + 2 * (j + 1)) ∧
    ((readChunk C k (n0 + 2 * j) w).res = .error .eof →
        (readChunk C k (n0 + 2 * j) w).wire = [] ∧
        (w = [] ∨ ∃ p, cs[j]? = some p ∧ w = C.enc k (n0 + 2 * j) (be16 p.length))) := by
  unfold readChunk
  cases h1 : readFull (2 + tagSize) w with
  | error e =>
    refine ⟨fun p hp => by simp at hp, fun he => ?_⟩
    simp only at he ⊢
    have : e = .eof := by simpa using he
    subst this
    exact ⟨trivial, Or.inl (readFull_eof h1)⟩
  | ok r1 =>
    obtain ⟨c1, w1⟩ := r1
    have hw := readFull_split h1
    simp only
    cases hd : C.dec k (n0 + 2 * j) c1 with
    | none => exact ⟨fun p hp => by simp at hp, fun he => by simp at he⟩
    | some lp =>
      obtain ⟨pj, hpj, hlp⟩ := honestOf_even n0 cs j lp (hA.uf _ _ _ hd)
      have hc1 : c1 = C.enc k (n0 + 2 * j) (be16 pj.length) := by rw [hA.det _ _ _ hd, hlp]
      have hmem : pj ∈ cs := List.mem_of_getElem? hpj
      have hlen := hv pj hmem
      have hu : unbe16 lp = pj.length := by
        rw [hlp]
        have : streamMaxPayloadSize = 65535 := rfl
        simpa using unbe16_be16 pj.length (by omega) []
      simp only [hu, hlen.1, ↓reduceIte]
      cases h2 : readFull (pj.length + tagSize) w1 with
      | error e =>
        refine ⟨fun p hp => by simp at hp, fun he => ?_⟩
        simp only at he ⊢
        have : e = .eof := by simpa using he
        subst this
        have hw1 := readFull_eof h2
        exact ⟨trivial, Or.inr ⟨pj, hpj, by rw [hw, hw1, hc1]; simp⟩⟩
      | ok r2 =>
        obtain ⟨c2, w2⟩ := r2
        have hw1 := readFull_split h2
        simp only
        cases hd2 : C.dec k (n0 + 2 * j + 1) c2 with
        | none => exact ⟨fun p hp => by simp at hp, fun he => by simp at he⟩
        | some p =>
          have hp' := honestOf_odd n0 cs j p (hA.uf _ _ _ hd2)
          have hpe : p = pj := by rw [hpj] at hp'; exact (Option.some.inj hp').symm
          have hc2 : c2 = C.enc k (n0 + 2 * j + 1) p := hA.det _ _ _ hd2
          refine ⟨fun q hq => ?_, fun he => by simp at he⟩
          have : q = p := by simpa using hq.symm
          subst this
          refine ⟨hp', ?_, by simp only []; omega⟩
          simp only [sealChunk]
          rw [hw, hw1, hc1, hc2, hpe, List.append_assoc]

end SSV.Stream

namespace SSV.Stream
open SSV.Gen.C01

theorem take_succ_flatten (cs : List Bytes) (j : Nat) (p : Bytes) (h : cs[j]? = some p) :
    (cs.take (j + 1)).flatten = (cs.take j).flatten ++ p := by
  rw [List.take_add_one, h]
  simp

/-- invariant of a reader facing an arbitrary wire: what it has handed over plus what it buffers is
a whole number of genuine chunks, and either the transport is exhausted or key and nonce are those
of the genuine writer at that chunk boundary -/
def Inv (k : Bytes) (n0 : Nat) (cs : List Bytes) (r : Reader) (delivered : Bytes) : Prop :=
  ∃ j, delivered ++ r.left = (cs.take j).flatten ∧ (r.wire = [] ∨ (r.key = k ∧ r.nonce = n0 + 2 * j))

theorem copyLoop_prefix {C : Crypto} {k : Bytes} {n0 : Nat} {cs : List Bytes}
    (hA : AeadAuth C k (honestOf n0 cs)) (hv : ValidChunks cs) :
    ∀ (fuel : Nat) (r : Reader) (acc : List Bytes) (j : Nat), r.left = [] →
      (r.wire = [] ∨ (r.key = k ∧ r.nonce = n0 + 2 * j)) →
      ∃ j' new e r', copyLoop C fuel r acc = (.copied (acc.reverse ++ new) e, r') ∧
        (cs.take j).flatten ++ new.flatten = (cs.take j').flatten ∧ r'.left = [] ∧ e ≠ some .eof ∧
        (e = none → (r'.wire = [] ∨ (r'.key = k ∧ r'.nonce = n0 + 2 * j'))) := by
  intro fuel
  induction fuel with
  | zero =>
    intro r acc j hl _
    exact ⟨j, [], some .fuel, r, by simp [copyLoop], by simp, hl, by simp, by simp⟩
  | succ f ih =>
    intro r acc j hl hst
    rcases hst with hw | ⟨hk, hn⟩
    · refine ⟨j, [], none, { r with nonce := r.nonce, wire := [] }, ?_, by simp, hl, by simp, fun _ => Or.inl rfl⟩
      simp [copyLoop, hw, readChunk_nil]
    · have hh := readChunk_honest hA hv j r.wire
      rw [← hk, ← hn] at hh
      cases hres : (readChunk C r.key r.nonce r.wire).res with
      | ok p =>
        obtain ⟨hp, _, hnon⟩ := hh.1 p hres
        obtain ⟨j', new, e, r', he, hfl, hl', hne', hst'⟩ :=
          ih { r with nonce := (readChunk C r.key r.nonce r.wire).nonce, wire := (readChunk C r.key r.nonce r.wire).wire }
            (p :: acc) (j + 1) hl (Or.inr ⟨hk, hnon⟩)
        refine ⟨j', p :: new, e, r', ?_, ?_, hl', hne', hst'⟩
        · simp only [copyLoop, hres]
          rw [he]
          simp
        · rw [← hfl, take_succ_flatten cs j p hp]
          simp
      | error e =>
        by_cases hee : e = .eof
        · subst hee
          have := (hh.2 hres).1
          refine ⟨j, [], none, { r with nonce := (readChunk C r.key r.nonce r.wire).nonce, wire := (readChunk C r.key r.nonce r.wire).wire }, ?_, by simp, hl, by simp, fun _ => Or.inl this⟩
          simp [copyLoop, hres]
        · refine ⟨j, [], some e, { r with nonce := (readChunk C r.key r.nonce r.wire).nonce, wire := (readChunk C r.key r.nonce r.wire).wire }, ?_, by simp, hl, by simpa using hee, by simp⟩
          simp only [copyLoop, hres]
          cases e <;> simp_all

/-- one reader call on an arbitrary wire: the bytes handed over so far stay a whole-chunk prefix of
the genuine stream (minus what is buffered); unless the call reports an error other than end of
stream, the invariant continues to hold. -/
theorem step_inv {C : Crypto} {k : Bytes} {n0 : Nat} {cs : List Bytes}
    (hA : AeadAuth C k (honestOf n0 cs)) (hv : ValidChunks cs) (r : Reader) (delivered : Bytes)
    (hi : Inv k n0 cs r delivered) (op : ROp) :
    (∃ j, (delivered ++ (r.step C op).1.bytes) ++ (r.step C op).2.left = (cs.take j).flatten) ∧
    (((r.step C op).1.err = none ∨ (r.step C op).1.err = some .eof) →
      Inv k n0 cs (r.step C op).2 (delivered ++ (r.step C op).1.bytes)) := by
  obtain ⟨j, hb, hst⟩ := hi
  have hf1 : writeToFlushesLeftover = true := by decide
  have hf2 : tunnelFlushesLeftover = true := by decide
  -- copy calls (both kinds behave alike)
  have copy : ∀ (x : ROut × Reader),
      x = (if r.left.length = 0 then copyLoop C (r.wire.length + 1) r []
           else copyLoop C (r.wire.length + 1) { r with left := [] } [r.left]) →
      (∃ j, (delivered ++ x.1.bytes) ++ x.2.left = (cs.take j).flatten) ∧
      ((x.1.err = none ∨ x.1.err = some .eof) → Inv k n0 cs x.2 (delivered ++ x.1.bytes)) := by
    intro x heq
    by_cases hl : r.left.length = 0
    · have hl' : r.left = [] := List.length_eq_zero_iff.mp hl
      obtain ⟨j', new, e, r2, he, hfl, hl2, hne, hst2⟩ := copyLoop_prefix hA hv (r.wire.length + 1) r [] j hl' hst
      rw [if_pos hl, he] at heq
      subst heq
      have hb' : delivered = (cs.take j).flatten := by simpa [hl'] using hb
      have hj : (delivered ++ new.flatten) ++ r2.left = (cs.take j').flatten := by simp [hl2, hb', hfl]
      refine ⟨⟨j', by simpa [ROut.bytes] using hj⟩, fun herr => ⟨j', by simpa [ROut.bytes] using hj, ?_⟩⟩
      apply hst2
      rcases herr with h | h
      · simpa [ROut.err] using h
      · exact absurd (by simpa [ROut.err] using h) hne
    · obtain ⟨j', new, e, r2, he, hfl, hl2, hne, hst2⟩ :=
        copyLoop_prefix hA hv (r.wire.length + 1) { r with left := [] } [r.left] j rfl hst
      rw [if_neg hl, he] at heq
      subst heq
      have hj : (delivered ++ (r.left ++ new.flatten)) ++ r2.left = (cs.take j').flatten := by
        simp only [hl2, List.append_nil, ← List.append_assoc, hb, hfl]
      refine ⟨⟨j', by simpa [ROut.bytes] using hj⟩, fun herr => ⟨j', by simpa [ROut.bytes] using hj, ?_⟩⟩
      apply hst2
      rcases herr with h | h
      · simpa [ROut.err] using h
      · exact absurd (by simpa [ROut.err] using h) hne
  cases op with
  | writeTo => exact copy _ (by simp [Reader.step, Reader.writeTo, hf1])
  | tunnel => exact copy _ (by simp [Reader.step, Reader.tunnel, hf2])
  | read n =>
    by_cases hl : r.left.length = 0
    · have hl' : r.left = [] := List.length_eq_zero_iff.mp hl
      have hb' : delivered = (cs.take j).flatten := by simpa [hl'] using hb
      rcases hst with hw | ⟨hk, hn⟩
      · have e : r.step C (.read n) = (.fail .eof, { r with nonce := r.nonce, wire := [] }) := by
          simp [Reader.step, Reader.read, hl, hw, readChunk_nil]
        rw [e]
        exact ⟨⟨j, by simp [ROut.bytes, hl', hb']⟩, fun _ => ⟨j, by simp [ROut.bytes, hl', hb'], Or.inl rfl⟩⟩
      · have hh := readChunk_honest hA hv j r.wire
        rw [← hk, ← hn] at hh
        cases hres : (readChunk C r.key r.nonce r.wire).res with
        | ok p =>
          obtain ⟨hp, _, hnon⟩ := hh.1 p hres
          have hj1 := take_succ_flatten cs j p hp
          by_cases hbuf : n ≥ streamReadMinBufferSize
          · have e : r.step C (.read n) = (.data p, { r with nonce := (readChunk C r.key r.nonce r.wire).nonce, wire := (readChunk C r.key r.nonce r.wire).wire }) := by
              simp [Reader.step, Reader.read, hl, hres, hbuf]
            rw [e]
            have hj : (delivered ++ p) ++ r.left = (cs.take (j + 1)).flatten := by simp [hl', hb', hj1]
            exact ⟨⟨j + 1, by simpa [ROut.bytes] using hj⟩, fun _ => ⟨j + 1, by simpa [ROut.bytes] using hj, Or.inr ⟨hk, hnon⟩⟩⟩
          · have e : r.step C (.read n) = (.data (p.take n), { r with nonce := (readChunk C r.key r.nonce r.wire).nonce, wire := (readChunk C r.key r.nonce r.wire).wire, left := p.drop n }) := by
              simp [Reader.step, Reader.read, hl, hres, hbuf]
            rw [e]
            have hj : (delivered ++ p.take n) ++ p.drop n = (cs.take (j + 1)).flatten := by
              rw [List.append_assoc, List.take_append_drop, hb', hj1]
            exact ⟨⟨j + 1, by simpa [ROut.bytes] using hj⟩, fun _ => ⟨j + 1, by simpa [ROut.bytes] using hj, Or.inr ⟨hk, hnon⟩⟩⟩
        | error e =>
          have e' : r.step C (.read n) = (.fail e, { r with nonce := (readChunk C r.key r.nonce r.wire).nonce, wire := (readChunk C r.key r.nonce r.wire).wire }) := by
            simp [Reader.step, Reader.read, hl, hres]
          rw [e']
          refine ⟨⟨j, by simp [ROut.bytes, hl', hb']⟩, fun herr => ⟨j, by simp [ROut.bytes, hl', hb'], ?_⟩⟩
          have he : e = .eof := by
            rcases herr with h | h <;> simpa [ROut.err] using h
          subst he
          exact Or.inl (hh.2 hres).1
    · have e : r.step C (.read n) = (.data (r.left.take n), { r with left := r.left.drop n }) := by
        simp [Reader.step, Reader.read, hl]
      rw [e]
      have hj : (delivered ++ r.left.take n) ++ r.left.drop n = (cs.take j).flatten := by
        rw [List.append_assoc, List.take_append_drop, hb]
      exact ⟨⟨j, by simpa [ROut.bytes] using hj⟩, fun _ => ⟨j, by simpa [ROut.bytes] using hj, hst⟩⟩

/-- **reader_prefix** (induction over the schedule): whatever the wire, the bytes a schedule hands
over (it stops at the first error other than end of stream) are a prefix of the genuine stream. -/
theorem run_prefix {C : Crypto} {k : Bytes} {n0 : Nat} {cs : List Bytes}
    (hA : AeadAuth C k (honestOf n0 cs)) (hv : ValidChunks cs) (ops : List ROp) :
    ∀ (r : Reader) (delivered : Bytes), Inv k n0 cs r delivered →
      ∃ j rest, delivered ++ ((r.run C ops).map ROut.bytes).flatten ++ rest = (cs.take j).flatten := by
  induction ops with
  | nil => intro r d ⟨j, hb, _⟩; exact ⟨j, r.left, by simpa [Reader.run] using hb⟩
  | cons op ops ih =>
    intro r d hi
    obtain ⟨⟨j, hj⟩, hnext⟩ := step_inv hA hv r d hi op
    cases herr : (r.step C op).1.err with
    | none =>
      obtain ⟨j', rest, h⟩ := ih _ _ (hnext (Or.inl herr))
      refine ⟨j', rest, ?_⟩
      simp only [Reader.run, herr, List.map_cons, List.flatten_cons]
      simpa [List.append_assoc] using h
    | some e =>
      by_cases he : e = .eof
      · subst he
        obtain ⟨j', rest, h⟩ := ih _ _ (hnext (Or.inr herr))
        refine ⟨j', rest, ?_⟩
        simp only [Reader.run, herr, List.map_cons, List.flatten_cons]
        simpa [List.append_assoc] using h
      · refine ⟨j, (r.step C op).2.left, ?_⟩
        have : r.run C (op :: ops) = [(r.step C op).1] := by
          simp only [Reader.run, herr]
        rw [this]
        simpa using hj

end SSV.Stream
