import SSV.Proofs.ClientGroupsMain
/-
Helper lemmas for C19: scheduling of the probes inside a round (worker pool, per-probe deadline).
-/
namespace SSV.ClientGroups
open SSV.Gen.C19

theorem avail_deadline_base : availDeadlineBase = Base.jobStart := by decide
theorem lat_deadline_base : latDeadlineBase = Base.jobStart := by decide
theorem latency_clock_base : latencyClockBase = Base.jobStart := by decide

theorem deadlineBaseOf_eq (p : Policy) : deadlineBaseOf p = Base.jobStart := by
  cases p <;> simp [deadlineBaseOf, avail_deadline_base, lat_deadline_base]

/-- what the statement attributes to a client in a round, from its own behaviour only: a usable answer that
    comes less than `timeout` after the probe's OWN start is a success with that latency, anything else a failure -/
def scriptOutcome (timeout : Nat) (s : Script) : Outcome :=
  match s.answerAfter with
  | some d => if d < timeout then (if s.ok then some d else none) else none
  | none => none

theorem popMin_ne_none : ∀ (l : List Nat), l ≠ [] → ∃ m r, popMin l = some (m, r)
  | [], h => absurd rfl h
  | x :: xs, _ => by
    unfold popMin
    cases h : popMin xs with
    | none => exact ⟨x, [], rfl⟩
    | some mr =>
      obtain ⟨m, r⟩ := mr
      by_cases hx : x ≤ m
      · exact ⟨x, xs, by simp [hx]⟩
      · exact ⟨m, x :: r, by simp [hx]⟩

theorem popMin_mem : ∀ (l : List Nat) (m : Nat) (r : List Nat), popMin l = some (m, r) → m ∈ l ∧ r.length + 1 = l.length ∧ (∀ y ∈ r, y ∈ l) ∧ (∀ y ∈ l, m ≤ y)
  | [], _, _, h => by simp [popMin] at h
  | x :: xs, m, r, h => by
    unfold popMin at h
    cases hp : popMin xs with
    | none =>
      have hxs : xs = [] := by
        cases xs with
        | nil => rfl
        | cons a b =>
          obtain ⟨m', r', h'⟩ := popMin_ne_none (a :: b) (by simp)
          rw [h'] at hp
          exact absurd hp (by simp)
      simp [hp] at h
      obtain ⟨h1, h2⟩ := h
      subst h1 h2 hxs
      simp
    | some mr =>
      obtain ⟨m', r'⟩ := mr
      have ih := popMin_mem xs m' r' hp
      simp only [hp] at h
      by_cases hx : x ≤ m'
      · simp [hx] at h
        obtain ⟨h1, h2⟩ := h
        subst h1 h2
        refine ⟨by simp, by simp, fun y hy => by simp [hy], ?_⟩
        intro y hy
        simp at hy
        rcases hy with rfl | hy
        · exact Nat.le_refl _
        · exact Nat.le_trans hx (ih.2.2.2 y hy)
      · simp [hx] at h
        obtain ⟨h1, h2⟩ := h
        subst h1 h2
        refine ⟨by simp [ih.1], by simp; omega, ?_, ?_⟩
        · intro y hy
          simp at hy
          rcases hy with rfl | hy
          · simp
          · simp [ih.2.2.1 y hy]
        · intro y hy
          simp at hy
          rcases hy with rfl | hy
          · omega
          · exact ih.2.2.2 y hy

theorem probeRun_jobStart (timeout : Nat) (s : Script) :
    (if (probeRun timeout s).2 then some (probeRun timeout s).1 else none) = scriptOutcome timeout s := by
  unfold probeRun scriptOutcome
  cases s.answerAfter with
  | none => simp
  | some d =>
    by_cases h : d < timeout
    · simp [h]
    · simp [h]

/-- with both bases at the job's own start, every job's outcome is its client's own behaviour — whatever the
    workers' free-times (i.e. whatever was queued before it and however long that took) -/
theorem dispatchWith_jobStart_outcomes (timeout t0 : Nat) : ∀ (scripts : List Script) (free : List Nat), free ≠ [] →
    (dispatchWith .jobStart .jobStart timeout t0 scripts free).map (·.outcome) = scripts.map (scriptOutcome timeout)
  | [], _, _ => rfl
  | s :: rest, free, hf => by
    obtain ⟨m, r, hp⟩ := popMin_ne_none free hf
    simp only [dispatchWith, hp, List.map_cons]
    rw [dispatchWith_jobStart_outcomes timeout t0 rest _ (by simp), probeRun_jobStart]

theorem dispatch_outcomes (p : Policy) (timeout t0 : Nat) (scripts : List Script) (free : List Nat) (hf : free ≠ []) :
    (dispatch p timeout t0 scripts free).map (·.outcome) = scripts.map (scriptOutcome timeout) := by
  unfold dispatch
  rw [deadlineBaseOf_eq, latency_clock_base]
  exact dispatchWith_jobStart_outcomes timeout t0 scripts free hf

/-- every job starts no earlier than the round and takes exactly its probe's own time: the time a usable or
    unusable answer takes if it comes before the job's own deadline, the timeout otherwise -/
theorem dispatchWith_jobStart_timing (timeout t0 : Nat) : ∀ (scripts : List Script) (free : List Nat), free ≠ [] →
    (∀ f ∈ free, t0 ≤ f) →
    ∀ j ∈ dispatchWith .jobStart .jobStart timeout t0 scripts free, t0 ≤ j.start ∧ j.start ≤ j.finish ∧ j.finish ≤ j.start + timeout
  | [], _, _, _ => by simp [dispatchWith]
  | s :: rest, free, hf, hge => by
    obtain ⟨m, r, hp⟩ := popMin_ne_none free hf
    have hm := popMin_mem free m r hp
    intro j hj
    simp only [dispatchWith, hp, List.mem_cons] at hj
    have hrun : (probeRun timeout s).1 ≤ timeout := by
      unfold probeRun
      cases s.answerAfter with
      | none => simp
      | some d => by_cases h : d < timeout <;> simp [h] <;> omega
    rcases hj with rfl | hj
    · exact ⟨hge m hm.1, by simp, by simp; exact hrun⟩
    · refine dispatchWith_jobStart_timing timeout t0 rest _ (by simp) ?_ j hj
      intro f hf'
      simp at hf'
      rcases hf' with rfl | hf'
      · have := hge m hm.1; omega
      · exact hge f (hm.2.2.1 f hf')

theorem effConcurrency_bounds (cfg : Int) (n : Nat) (hn : 0 < n) : 1 ≤ effConcurrency cfg n ∧ effConcurrency cfg n ≤ n := by
  unfold effConcurrency
  have hd : 1 ≤ defaultProbeConcurrency := by decide
  by_cases h : cfg ≤ 0
  · simp only [h, if_true]
    omega
  · simp only [h, if_false]
    have : 1 ≤ cfg.toNat := by omega
    omega

theorem timedRound_eq (p : Policy) (timeout c t0 : Nat) (hc : 1 ≤ c) (st : State) (scripts : List Script) :
    timedRound p timeout c t0 st scripts = round p timeout st (scripts.map (scriptOutcome timeout)) := by
  unfold timedRound
  rw [dispatch_outcomes p timeout t0 scripts _ (by
    intro h
    have := congrArg List.length h
    simp at this
    omega)]

/-! ## the "nobody scores" fallback -/

/-- a scan in which no entry passes the improvement test leaves the accumulator alone -/
theorem scanFrom_no_improvement (c : CmpOp) : ∀ (l : List Nat) (i : Nat) (acc : Nat × Nat),
    (∀ x ∈ l, cmpTest c x acc.2 = false) → scanFrom c l i acc = acc
  | [], _, _, _ => rfl
  | s :: rest, i, (bi, bs), h => by
    have hs : cmpTest c s bs = false := h s (by simp)
    simp only [scanFrom, hs, Bool.false_eq_true, if_false]
    exact scanFrom_no_improvement c rest (i + 1) (bi, bs) (fun x hx => h x (by simp [hx]))

/-- if no client beats the sentinel (`0` successes / the timeout) the scan yields the FIRST client -/
theorem bestIndex_sentinel (p : Policy) (timeout : Nat) (scores : List Nat)
    (h : ∀ x ∈ scores, cmpTest (cmpOf p) x (valOf (initBestOf p) timeout) = false) :
    bestIndex p timeout scores = 0 := by
  unfold bestIndex
  rw [scanFrom_no_improvement (cmpOf p) scores 0 _ h]

end SSV.ClientGroups
