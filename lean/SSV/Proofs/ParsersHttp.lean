import SSV.Proofs.Parsers
/-
C06 helper lemmas, part 7: the HTTP proxy's own string logic (`hostHeaderToAddr`, Basic-auth prefix test).
-/
namespace SSV.Parsers.Proofs
open SSV SSV.Go SSV.Outcome SSV.Parsers

theorem np_addrFromHostPort (parseIP : Bytes → Option (Bool × Bytes)) (host : Bytes) (port : Nat) :
    NoPanic (addrFromHostPort parseIP host port) := by
  unfold addrFromHostPort
  split
  · simp
  · simp
  · exact np_addrFromDomainPort _ _

theorem np_hostHeaderToAddr (parseIP : Bytes → Option (Bool × Bytes)) (parseAddr : Bytes → Option Addr) (host : Bytes) :
    NoPanic (hostHeaderToAddr parseIP parseAddr host) := by
  unfold hostHeaderToAddr
  split
  · simp
  · rename_i hne
    split
    · exact np_addrFromHostPort _ _ _
    · rename_i hc
      rw [idx_of_lt (by omega), idx_of_lt (by omega)]
      simp only [ok_bind]
      split
      · rename_i hb
        -- `[` first, `]` last and a `:` somewhere: at least three bytes, so `host[1 : len-1]` is in range
        have h3 : 3 ≤ host.length := by
          match host, hne, hc, hb with
          | [a], _, hc, hb =>
            simp only [List.length_cons, List.length_nil, Nat.zero_add, Nat.sub_self, List.getElem_cons_zero] at hb
            omega
          | [a, b], _, hc, hb =>
            simp only [List.length_cons, List.length_nil, Nat.zero_add, List.getElem_cons_zero] at hb
            have hb2 : b.toNat = 93 := hb.2
            have ha : a.toNat = 91 := hb.1
            simp only [List.contains_cons, List.contains_nil, Bool.or_false, Bool.or_eq_false_iff, beq_eq_false_iff_ne, Bool.not_eq_eq_eq_not, Bool.not_true, not_and] at hc
            exfalso
            have h1 : a ≠ 58 := by intro h; rw [h] at ha; exact absurd ha (by decide)
            have h2 : b ≠ 58 := by intro h; rw [h] at hb2; exact absurd hb2 (by decide)
            exact hc (by simpa [eq_comm] using h1) (by simpa [eq_comm] using h2)
          | _ :: _ :: _ :: _, _, _, _ => simp only [List.length_cons]; omega
        rw [slice_of_le (by omega)]
        simp only [ok_bind]
        exact np_addrFromHostPort _ _ _
      · split <;> simp

theorem np_basicAuthToken (creds : Bytes) : NoPanic (basicAuthToken creds) := by
  unfold basicAuthToken
  go_np

theorem np_streamRead (cap : Nat) (hcap : Gen.C06.streamReadMinBufferSize ≤ cap) (sticky : Option Err)
    (openChunk : Bytes → Option Bytes) (s : Bytes) : NoPanic (streamRead cap sticky openChunk s) := by
  unfold streamRead readFull
  simp only [Gen.C06.streamReadMinBufferSize, Gen.C06.tagSize] at hcap ⊢
  split
  · omega
  · split
    · simp
    · split
      · omega
      · split
        · rename_i hs
          simp only [ok_bind]
          split
          · simp
          · rename_i pt _
            have hl : 2 ≤ (List.take 2 pt ++ List.drop 2 (List.take 18 s)).length := by
              simp only [List.length_append, List.length_take, List.length_drop]; omega
            rw [be16_of_le hl]
            simp only [ok_bind]
            have hlt := be16val_lt (List.take 2 pt ++ List.drop 2 (List.take 18 s))
            split
            · simp
            · split
              · omega
              · split
                · simp only [ok_bind]
                  split <;> simp
                · split <;> simp
        · split <;> simp

end SSV.Parsers.Proofs
