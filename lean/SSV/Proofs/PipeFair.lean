import SSV.Proofs.PipeNext
/-
C15 — progress BEFORE any close, under an explicit fairness assumption: infinite runs, weak fairness of a
thread, and "a Write facing readers that keep reading returns", "a Read facing a writer returns".
-/
namespace SSV.Pipe

/-- an infinite run of the direction: every position is a step of the model or a stutter -/
def IsRun (r : Nat → State) : Prop :=
  Reachable (r 0) ∧ ∀ n, Step (r n) (r (n + 1)) ∨ r (n + 1) = r n

theorem run_reachable {r : Nat → State} (h : IsRun r) (n : Nat) : Reachable (r n) := by
  induction n with
  | zero => exact h.1
  | succ k ih =>
    rcases h.2 k with st | e
    · exact .step ih st
    · rw [e]; exact ih

/-- thread `j` takes part in the step at position `n` (its pc changes) -/
def Moves (r : Nat → State) (j n : Nat) : Prop := (r (n + 1)).thr j ≠ (r n).thr j

/-- WEAK FAIRNESS towards thread `j` (the assumption about the Go scheduler / runtime): a goroutine that,
from some point on, could always take a step — alone or as one side of a channel operation whose other side is
waiting — eventually takes one. -/
def WeakFair (r : Nat → State) (j : Nat) : Prop :=
  ∀ n, (∀ m, n ≤ m → CanMove (r m) j) → ∃ m, n ≤ m ∧ Moves r j m

theorem first_move (r : Nat → State) (j : Nat) (pc : PC) :
    ∀ d n, (r n).thr j = pc → (∃ m, n ≤ m ∧ m ≤ n + d ∧ Moves r j m) →
      ∃ m, n ≤ m ∧ (r m).thr j = pc ∧ (r (m + 1)).thr j ≠ pc := by
  intro d
  induction d with
  | zero =>
    intro n hpc ⟨m, h1, h2, hm⟩
    have : m = n := by omega
    subst this
    exact ⟨m, Nat.le_refl _, hpc, by rw [← hpc]; exact hm⟩
  | succ d ih =>
    intro n hpc ⟨m, h1, h2, hm⟩
    by_cases hn : (r (n + 1)).thr j = (r n).thr j
    · by_cases hmn : m = n
      · subst hmn; exact absurd hn hm
      · obtain ⟨m', h1', h2', h3'⟩ := ih (n + 1) (by rw [hn, hpc]) ⟨m, by omega, by omega, hm⟩
        exact ⟨m', by omega, h2', h3'⟩
    · exact ⟨n, Nat.le_refl _, hpc, by rw [← hpc]; exact hn⟩

/-- a thread that can move whenever it sits at `pc` eventually leaves `pc` (by a real step of the model) -/
theorem eventually_leaves {r : Nat → State} {j : Nat} (hr : IsRun r) (hf : WeakFair r j) (pc : PC) (n : Nat)
    (hpc : (r n).thr j = pc) (hen : ∀ m, n ≤ m → (r m).thr j = pc → CanMove (r m) j) :
    ∃ m, n ≤ m ∧ (r m).thr j = pc ∧ (r (m + 1)).thr j ≠ pc ∧ Step (r m) (r (m + 1)) := by
  have hex : ∃ m, n ≤ m ∧ Moves r j m := by
    apply Classical.byContradiction
    intro hno
    have hconst : ∀ d, (r (n + d)).thr j = pc := by
      intro d
      induction d with
      | zero => exact hpc
      | succ d ih =>
        apply Classical.byContradiction
        intro hne
        apply hno
        refine ⟨n + d, by omega, ?_⟩
        show (r (n + d + 1)).thr j ≠ (r (n + d)).thr j
        rw [ih]; exact hne
    have hcan : ∀ m, n ≤ m → CanMove (r m) j := by
      intro m hm
      have := hconst (m - n)
      have e : n + (m - n) = m := by omega
      rw [e] at this
      exact hen m hm this
    exact hno (hf n hcan)
  obtain ⟨m0, h0, hm0⟩ := hex
  obtain ⟨m, h1, h2, h3⟩ := first_move r j pc (m0 - n) n hpc ⟨m0, h0, by omega, hm0⟩
  refine ⟨m, h1, h2, h3, ?_⟩
  rcases hr.2 m with st | e
  · exact st
  · rw [e] at h3; exact absurd h2 h3

/-- one round of the write loop: from the loop head the writer returns, or comes back to the loop head with
strictly fewer bytes left -/
theorem write_round {r : Nat → State} {j ci : Nat} (hr : IsRun r) (hf : WeakFair r j)
    (partner : ∀ m b c g, (r m).thr j = .wSel b c ci g → ∃ i k acc gr, (r m).thr i = .rSel k acc gr)
    (pos : ∀ m i k acc nr fail chunk b c, (r m).thr i = .rAck k acc nr fail chunk →
      (r m).thr j = .wAwait b c ci → b ≠ [] → 1 ≤ nr)
    (n : Nat) (b : Bytes) (c : Nat) (hp : (r n).thr j = .wEnter b c ci) :
    ∃ m, n ≤ m ∧ ((∃ c' e, (r m).thr j = .wRet c' e (some ci)) ∨
      (∃ b' c', b'.length < b.length ∧ (r m).thr j = .wEnter b' c' ci)) := by
  -- loop head → select
  obtain ⟨m1, h1, p1, q1, st1⟩ := eventually_leaves hr hf _ n hp (by
    intro m _ hm
    have := local_enabled (inv_reachable (run_reachable hr m)) j
    simp only [hm] at this; exact Or.inl this)
  rcases next_wEnter st1 p1 with h | ⟨g, hsel⟩
  · exact absurd h q1
  -- select → hand-shake (a reader is waiting) or return
  obtain ⟨m2, h2, p2, q2, st2⟩ := eventually_leaves hr hf _ (m1 + 1) hsel (by
    intro m _ hm
    obtain ⟨i, k, acc, gr, hi⟩ := partner m b c g hm
    obtain ⟨s', h'⟩ := data_enabled hi hm
    exact Or.inr (Or.inl ⟨i, s', Or.inr h'⟩))
  rcases next_wSel (inv_reachable (run_reachable hr m2)) st2 p2 with h | haw | ⟨e, hret⟩
  · exact absurd h q2
  · -- committed: the count always arrives
    obtain ⟨m3, h3, p3, q3, st3⟩ := eventually_leaves hr hf _ (m2 + 1) haw (by
      intro m _ hm
      have inv := inv_reachable (run_reachable hr m)
      obtain ⟨i, hi⟩ := inv.awaitHs j (by simp [hm, PC.isAwait])
      obtain ⟨k, acc, nr, fail, _, _, _, hh1, _, _⟩ := inv.hsOk i j hi
      obtain ⟨s', h'⟩ := count_enabled hh1 hm
      exact Or.inr (Or.inr ⟨i, s', Or.inr h'⟩))
    rcases next_wAwait (inv_reachable (run_reachable hr m3)) st3 p3 with h | ⟨i, k, acc, nr, fail, chunk, hi, hres⟩
    · exact absurd h q3
    · rcases hres with ⟨hpos, hent⟩ | hret
      · refine ⟨m3 + 1, by omega, Or.inr ⟨b.drop nr, c + nr, ?_, hent⟩⟩
        have hb : b ≠ [] := by intro e; subst e; simp at hpos
        have := pos m3 i k acc nr fail chunk b c hi p3 hb
        have hl : 0 < b.length := by cases b with | nil => exact absurd rfl hb | cons _ _ => simp
        simp; omega
      · exact ⟨m3 + 1, by omega, Or.inl ⟨_, _, hret⟩⟩
  · exact ⟨m2 + 1, by omega, Or.inl ⟨_, _, hret⟩⟩

/-- A WRITE FACING READERS THAT KEEP READING RETURNS.  Run `r`, weakly fair towards writer `j`, which holds the
lock at position `n` with `b` left to send.  If (partner) whenever `j` offers in its select some reader sits in
its select, and (positive buffers) the reader in the hand-shake with `j` took at least one byte of a non-empty
offer, then `j` eventually returns. -/
theorem write_returns {r : Nat → State} {j ci : Nat} (hr : IsRun r) (hf : WeakFair r j)
    (partner : ∀ m b c g, (r m).thr j = .wSel b c ci g → ∃ i k acc gr, (r m).thr i = .rSel k acc gr)
    (pos : ∀ m i k acc nr fail chunk b c, (r m).thr i = .rAck k acc nr fail chunk →
      (r m).thr j = .wAwait b c ci → b ≠ [] → 1 ≤ nr) :
    ∀ L n b c, b.length ≤ L → (r n).thr j = .wEnter b c ci →
      ∃ m, n ≤ m ∧ ∃ c' e, (r m).thr j = .wRet c' e (some ci) := by
  intro L
  induction L with
  | zero =>
    intro n b c hL hp
    obtain ⟨m, hm, h | ⟨b', c', hlt, _⟩⟩ := write_round hr hf partner pos n b c hp
    · exact ⟨m, hm, h⟩
    · omega
  | succ L ih =>
    intro n b c hL hp
    obtain ⟨m, hm, h | ⟨b', c', hlt, hp'⟩⟩ := write_round hr hf partner pos n b c hp
    · exact ⟨m, hm, h⟩
    · obtain ⟨m', hm', h'⟩ := ih m b' c' (by omega) hp'
      exact ⟨m', by omega, h'⟩

/-- A READ FACING A WRITER RETURNS.  Run `r`, weakly fair towards reader `i`, which sits in the select of a
`Read` at position `n`.  If whenever `i` sits in its select some writer sits in the write select, `i` eventually
returns. -/
theorem read_returns {r : Nat → State} {i : Nat} (hr : IsRun r) (hf : WeakFair r i)
    (partner : ∀ m k acc g, (r m).thr i = .rSel k acc g → ∃ j b c ci gw, (r m).thr j = .wSel b c ci gw)
    (n cap acc g : Nat) (hp : (r n).thr i = .rSel (.read cap) acc g) :
    ∃ m, n ≤ m ∧ ∃ c e, (r m).thr i = .rRet c e := by
  obtain ⟨m1, h1, p1, q1, st1⟩ := eventually_leaves hr hf _ n hp (by
    intro m _ hm
    obtain ⟨j, b, c, ci, gw, hj⟩ := partner m _ _ _ hm
    obtain ⟨s', h'⟩ := data_enabled hm hj
    exact Or.inr (Or.inl ⟨j, s', Or.inl h'⟩))
  rcases next_rSel (inv_reachable (run_reachable hr m1)) st1 p1 with h | ⟨e, hret⟩ | ⟨len, chunk, hack⟩
  · exact absurd h q1
  · exact ⟨m1 + 1, by omega, _, _, hret⟩
  · simp only [RKind.consume] at hack
    obtain ⟨m2, h2, p2, q2, st2⟩ := eventually_leaves hr hf _ (m1 + 1) hack (by
      intro m _ hm
      have inv := inv_reachable (run_reachable hr m)
      obtain ⟨j, hj⟩ := inv.ackHs i (by simp [hm, PC.isAck])
      obtain ⟨_, _, _, _, b, c, ci, _, hh2, _⟩ := inv.hsOk i j hj
      obtain ⟨s', h'⟩ := count_enabled hm hh2
      exact Or.inr (Or.inr ⟨j, s', Or.inl h'⟩))
    rcases next_rAck (inv_reachable (run_reachable hr m2)) st2 p2 with h | h
    · exact absurd h q2
    · exact ⟨m2 + 1, by omega, _, _, by rw [h]; rfl⟩

end SSV.Pipe
