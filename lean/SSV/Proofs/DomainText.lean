import SSV.Proofs.DomainBuilder
/-
Text form: lines, capacity hint, `WriteText`, and re-reading what `WriteText` wrote.
-/
namespace SSV.DomainSet

/-- a rule a text line can hold: non-empty, no LF, does not end in CR -/
def lineSafe (r : Str) : Bool := !r.isEmpty && !r.contains LF && r.getLast? != some CR

theorem lineSafe_iff (r : Str) : lineSafe r = true ↔ (r ≠ [] ∧ LF ∉ r ∧ r.getLast? ≠ some CR) := by
  unfold lineSafe
  simp [List.isEmpty_iff, and_assoc]

/-! ### lines -/

theorem trimCR_of_getLast (s : Str) (h : s.getLast? ≠ some CR) : trimCR s = s := by
  unfold trimCR
  cases hs : s.reverse with
  | nil => simp [List.reverse_eq_nil_iff.mp hs]
  | cons x xs =>
    have hx : s.getLast? = some x := by
      rw [← List.head?_reverse, hs]; rfl
    have : ¬ x = CR := by intro h'; subst h'; exact h hx
    rw [List.dropWhile_cons]
    simp only [this, decide_false, Bool.false_eq_true, ↓reduceIte]
    rw [← hs, List.reverse_reverse]

theorem nonEmptyLinesAux_line : ∀ (l : Str) (acc rest : Str), LF ∉ l →
    nonEmptyLinesAux acc (l ++ LF :: rest) =
      (if (trimCR (acc.reverse ++ l)).isEmpty then nonEmptyLinesAux [] rest
       else trimCR (acc.reverse ++ l) :: nonEmptyLinesAux [] rest)
  | [], acc, rest, _ => by simp [nonEmptyLinesAux]
  | c :: l, acc, rest, h => by
    have hc : c ≠ LF := by intro h'; subst h'; simp at h
    have hl : LF ∉ l := by intro h'; exact h (by simp [h'])
    rw [List.cons_append, nonEmptyLinesAux]
    simp only [hc, ↓reduceIte]
    rw [nonEmptyLinesAux_line l (c :: acc) rest hl]
    simp

/-- a text made of LF-terminated line-safe lines is read back as exactly these lines -/
theorem nonEmptyLines_of_safe : ∀ (ls : List Str), (∀ l ∈ ls, lineSafe l = true) →
    nonEmptyLines (ls.flatMap (fun l => l ++ [LF])) = ls
  | [], _ => by simp [nonEmptyLines, nonEmptyLinesAux, trimCR]
  | l :: ls, h => by
    obtain ⟨h1, h2, h3⟩ := (lineSafe_iff l).mp (h l (by simp))
    have ih := nonEmptyLines_of_safe ls (fun x hx => h x (by simp [hx]))
    unfold nonEmptyLines at ih ⊢
    rw [List.flatMap_cons, List.append_assoc, List.singleton_append, nonEmptyLinesAux_line l [] _ h2]
    simp only [List.reverse_nil, List.nil_append, trimCR_of_getLast l h3]
    have : l.isEmpty = false := by simpa [List.isEmpty_iff] using h1
    simp [this, ih]

/-- `parser_lines`: the lines the parser sees are the LF-separated pieces with every trailing CR removed and the
empty ones dropped — CRLF vs LF, blank lines and a missing final line terminator make no difference. -/
theorem nonEmptyLinesAux_spec : ∀ (text acc : Str),
    nonEmptyLinesAux acc text =
      ((match splitOn LF text with
        | [] => [acc.reverse]
        | h :: t => (acc.reverse ++ h) :: t).map trimCR).filter (fun l => !l.isEmpty)
  | [], acc => by
    simp only [nonEmptyLinesAux, splitOn, List.append_nil, List.map_cons, List.map_nil]
    by_cases h : (trimCR acc.reverse).isEmpty = true <;> simp [h]
  | c :: cs, acc => by
    unfold nonEmptyLinesAux splitOn
    by_cases hc : c = LF
    · subst hc
      simp only [↓reduceIte, List.append_nil, List.map_cons]
      have ih := nonEmptyLinesAux_spec cs []
      simp only [List.reverse_nil, List.nil_append] at ih
      have hm : (match splitOn LF cs with | [] => [[]] | h :: t => h :: t) = splitOn LF cs := by
        cases hs : splitOn LF cs with
        | nil => exact absurd hs (splitOn_ne_nil LF cs)
        | cons h t => rfl
      rw [hm] at ih
      by_cases h : (trimCR acc.reverse).isEmpty = true
      · simp [h, ih]
      · simp [h, ih]
    · simp only [hc, ↓reduceIte]
      rw [nonEmptyLinesAux_spec cs (c :: acc)]
      cases hs : splitOn LF cs with
      | nil => exact absurd hs (splitOn_ne_nil LF cs)
      | cons h t => simp

theorem nonEmptyLines_spec (text : Str) :
    nonEmptyLines text = ((splitOn LF text).map trimCR).filter (fun l => !l.isEmpty) := by
  unfold nonEmptyLines
  rw [nonEmptyLinesAux_spec]
  cases hs : splitOn LF text with
  | nil => exact absurd hs (splitOn_ne_nil LF text)
  | cons h t => simp

/-! ### decimal numbers -/

theorem digitsVal_append : ∀ (a b : Str) (n : Nat), digitsVal n (a ++ b) = digitsVal (digitsVal n a) b
  | [], _, _ => rfl
  | c :: a, b, n => by
    show digitsVal (n * 10 + (c.toNat - 48)) (a ++ b) = digitsVal (digitsVal (n * 10 + (c.toNat - 48)) a) b
    exact digitsVal_append a b _

theorem digit_toNat (k : Nat) (h : k < 10) : (UInt8.ofNat (48 + k)).toNat = 48 + k := by
  rw [UInt8.toNat_ofNat']
  omega

theorem natToDecAux_spec (f : Nat) : ∀ (n : Nat) (acc : Str), n < f →
    ∃ ds : Str, natToDecAux f n acc = ds ++ acc ∧ ds ≠ [] ∧ (∀ c ∈ ds, 48 ≤ c.toNat ∧ c.toNat ≤ 57)
      ∧ ∀ m, digitsVal m ds = m * 10 ^ ds.length + n := by
  induction f with
  | zero => intro n acc h; omega
  | succ f ih =>
    intro n acc h
    have hd := digit_toNat (n % 10) (Nat.mod_lt _ (by decide))
    generalize hdig : UInt8.ofNat (48 + n % 10) = dg at hd
    rw [natToDecAux]
    simp only [hdig]
    by_cases h0 : n / 10 = 0
    · simp only [h0, ↓reduceIte]
      refine ⟨[dg], rfl, by simp, ?_, ?_⟩
      · intro c hc
        simp only [List.mem_singleton] at hc
        subst hc; rw [hd]; omega
      · intro m
        show m * 10 + (dg.toNat - 48) = m * 10 ^ 1 + n
        rw [hd, Nat.pow_one]
        omega
    · simp only [h0, ↓reduceIte]
      obtain ⟨ds, h1, h2, h3, h4⟩ := ih (n / 10) (dg :: acc) (by omega)
      refine ⟨ds ++ [dg], by rw [h1]; simp, by simp, ?_, ?_⟩
      · intro c hc
        simp only [List.mem_append, List.mem_singleton] at hc
        rcases hc with hc | hc
        · exact h3 c hc
        · subst hc; rw [hd]; omega
      · intro m
        rw [digitsVal_append, h4]
        show (m * 10 ^ ds.length + n / 10) * 10 + (dg.toNat - 48) = m * 10 ^ (ds ++ [dg]).length + n
        rw [hd, List.length_append, List.length_singleton, Nat.pow_succ, Nat.add_mul, Nat.mul_assoc]
        omega

theorem natToDec_spec (n : Nat) :
    natToDec n ≠ [] ∧ (∀ c ∈ natToDec n, 48 ≤ c.toNat ∧ c.toNat ≤ 57) ∧ digitsVal 0 (natToDec n) = n := by
  obtain ⟨ds, h1, h2, h3, h4⟩ := natToDecAux_spec (n + 1) n [] (by omega)
  unfold natToDec
  rw [h1, List.append_nil]
  exact ⟨h2, h3, by rw [h4]; simp⟩

theorem atoiNonneg_natToDec (n : Nat) (h : n < 2 ^ 63) : atoiNonneg (natToDec n) = some n := by
  obtain ⟨h1, h2, h3⟩ := natToDec_spec n
  unfold atoiNonneg
  cases hs : natToDec n with
  | nil => exact absurd hs h1
  | cons c cs =>
    rw [hs] at h2 h3
    have hc := h2 c (by simp)
    have hall : (c :: cs).all isDigit = true := by
      rw [List.all_eq_true]
      intro x hx
      have := h2 x hx
      simp [isDigit, this]
    have h43 : (c == 43) = false := by
      rw [beq_eq_false_iff_ne]; intro h'; subst h'; simp at hc
    have h45 : (c == 45) = false := by
      rw [beq_eq_false_iff_ne]; intro h'; subst h'; simp at hc
    simp only [List.head?_cons, Option.some_beq_some, h43, h45, Bool.or_self, Bool.false_eq_true, ↓reduceIte,
      List.isEmpty_cons, hall, Bool.not_true, h3]
    simp [h]

theorem cutAt_digits (ds rest : Str) (h : ∀ c ∈ ds, 48 ≤ c.toNat ∧ c.toNat ≤ 57) :
    cutAt space (ds ++ space :: rest) = (ds, some rest) := by
  induction ds with
  | nil => simp [cutAt]
  | cons c cs ih =>
    have hc := h c (by simp)
    have : c ≠ space := by intro h'; subst h'; simp [space] at hc
    rw [List.cons_append, cutAt]
    simp only [this, ↓reduceIte]
    rw [ih (fun x hx => h x (by simp [hx]))]

/-- the capacity-hint line `WriteText` writes -/
def hintLine (a b c d : Nat) : Str :=
  SSV.Gen.C10.capacityHintPrefix ++ (natToDec a ++ space :: (natToDec b ++ space :: (natToDec c ++ space ::
    (natToDec d ++ space :: SSV.Gen.C10.capacityHintSuffix))))

theorem parseHintFields_written (a b c d : Nat) (ha : a < 2 ^ 63) (hb : b < 2 ^ 63) (hc : c < 2 ^ 63) (hd : d < 2 ^ 63) :
    parseHintFields 4 (natToDec a ++ space :: (natToDec b ++ space :: (natToDec c ++ space ::
      (natToDec d ++ space :: SSV.Gen.C10.capacityHintSuffix)))) = some [a, b, c, d] := by
  simp only [parseHintFields, cutAt_digits _ _ (natToDec_spec a).2.1, cutAt_digits _ _ (natToDec_spec b).2.1,
    cutAt_digits _ _ (natToDec_spec c).2.1, cutAt_digits _ _ (natToDec_spec d).2.1,
    atoiNonneg_natToDec _ ha, atoiNonneg_natToDec _ hb, atoiNonneg_natToDec _ hc, atoiNonneg_natToDec _ hd]
  simp

theorem parseCapacityHint_written (a b c d : Nat) (ha : a < 2 ^ 63) (hb : b < 2 ^ 63) (hc : c < 2 ^ 63) (hd : d < 2 ^ 63) :
    parseCapacityHint (hintLine a b c d) = .found [a, b, c, d] := by
  unfold parseCapacityHint hintLine
  have hne := (natToDec_spec a).1
  have hlen : (SSV.Gen.C10.capacityHintPrefix ++ (natToDec a ++ space :: (natToDec b ++ space :: (natToDec c ++ space ::
    (natToDec d ++ space :: SSV.Gen.C10.capacityHintSuffix))))).length > SSV.Gen.C10.capacityHintPrefix.length := by
    rw [List.length_append, List.length_append]
    have : 0 < (natToDec a).length := List.length_pos_iff.mpr hne
    omega
  simp only [hlen, List.take_left', List.drop_left', true_and, ↓reduceIte, parseHintFields_written a b c d ha hb hc hd]

/-! ### rule lines -/

theorem classify_suffix (r : Str) (h : r ≠ []) : classify (SSV.Gen.C10.suffixPrefix ++ r) = .suffix r := by
  cases r with
  | nil => exact absurd rfl h
  | cons x xs => simp [classify, SSV.Gen.C10.suffixPrefix, SSV.Gen.C10.textProbeLen]

theorem classify_domain (r : Str) (h : r ≠ []) : classify (SSV.Gen.C10.domainPrefix ++ r) = .domain r := by
  cases r with
  | nil => exact absurd rfl h
  | cons x xs =>
    simp [classify, SSV.Gen.C10.suffixPrefix, SSV.Gen.C10.domainPrefix, SSV.Gen.C10.textProbeLen]

theorem classify_regexp (r : Str) (h : r ≠ []) : classify (SSV.Gen.C10.regexpPrefix ++ r) = .regexp r := by
  cases r with
  | nil => exact absurd rfl h
  | cons x xs =>
    simp [classify, SSV.Gen.C10.suffixPrefix, SSV.Gen.C10.domainPrefix, SSV.Gen.C10.regexpPrefix,
      SSV.Gen.C10.textProbeLen]

theorem classify_keyword (r : Str) (h : r ≠ []) : classify (SSV.Gen.C10.keywordPrefix ++ r) = .keyword r := by
  cases r with
  | nil => exact absurd rfl h
  | cons x xs =>
    simp [classify, SSV.Gen.C10.suffixPrefix, SSV.Gen.C10.domainPrefix, SSV.Gen.C10.regexpPrefix,
      SSV.Gen.C10.keywordPrefix, SSV.Gen.C10.textProbeLen]

theorem ne_nil_of_lineSafe {r : Str} (h : lineSafe r = true) : r ≠ [] := ((lineSafe_iff r).mp h).1

theorem addLines_append (l1 : List Str) : ∀ (b : Builder) (l2 : List Str),
    addLines b (l1 ++ l2) = (addLines b l1).bind (fun b' => addLines b' l2) := by
  induction l1 with
  | nil => intro b l2; rfl
  | cons l ls ih =>
    intro b l2
    rw [List.cons_append, addLines, addLines]
    cases classify l <;> simp only [ih] <;> rfl

theorem addLines_domains (rs : List Str) : ∀ (b : Builder), (∀ r ∈ rs, lineSafe r = true) →
    addLines b (rs.map (SSV.Gen.C10.domainPrefix ++ ·)) = .ok { b with domains := rs.foldl DomainB.insert b.domains } := by
  induction rs with
  | nil => intro b _; rfl
  | cons r rs ih =>
    intro b h
    rw [List.map_cons, addLines, classify_domain r (ne_nil_of_lineSafe (h r (by simp)))]
    simp only
    rw [ih _ (fun x hx => h x (by simp [hx]))]
    rfl

theorem addLines_suffixes (rs : List Str) : ∀ (b : Builder), (∀ r ∈ rs, lineSafe r = true) →
    addLines b (rs.map (SSV.Gen.C10.suffixPrefix ++ ·)) = .ok { b with suffixes := rs.foldl SuffixB.insert b.suffixes } := by
  induction rs with
  | nil => intro b _; rfl
  | cons r rs ih =>
    intro b h
    rw [List.map_cons, addLines, classify_suffix r (ne_nil_of_lineSafe (h r (by simp)))]
    simp only
    rw [ih _ (fun x hx => h x (by simp [hx]))]
    rfl

theorem addLines_keywords (rs : List Str) : ∀ (b : Builder), (∀ r ∈ rs, lineSafe r = true) →
    addLines b (rs.map (SSV.Gen.C10.keywordPrefix ++ ·)) = .ok { b with keywords := b.keywords ++ rs } := by
  induction rs with
  | nil => intro b _; simp [addLines]
  | cons r rs ih =>
    intro b h
    rw [List.map_cons, addLines, classify_keyword r (ne_nil_of_lineSafe (h r (by simp)))]
    simp only
    rw [ih _ (fun x hx => h x (by simp [hx]))]
    simp

theorem addLines_regexps (rs : List Str) : ∀ (b : Builder), (∀ r ∈ rs, lineSafe r = true) →
    addLines b (rs.map (SSV.Gen.C10.regexpPrefix ++ ·)) = .ok { b with regexps := b.regexps ++ rs } := by
  induction rs with
  | nil => intro b _; simp [addLines]
  | cons r rs ih =>
    intro b h
    rw [List.map_cons, addLines, classify_regexp r (ne_nil_of_lineSafe (h r (by simp)))]
    simp only
    rw [ih _ (fun x hx => h x (by simp [hx]))]
    simp

theorem foldl_insert_map (l : List Str) : ∀ (m : List Str),
    l.foldl DomainB.insert (DomainB.map m) = DomainB.map (l.foldl mapInsert m) := by
  induction l with
  | nil => intro m; rfl
  | cons x xs ih => intro m; simp only [List.foldl_cons, DomainB.insert, ih]

theorem foldl_insert_trie (l : List Str) : ∀ (root : Children),
    l.foldl SuffixB.insert (SuffixB.trie root) = SuffixB.trie (l.foldl trieInsert root) := by
  induction l with
  | nil => intro m; rfl
  | cons x xs ih => intro m; simp only [List.foldl_cons, SuffixB.insert, ih]

/-! ### what `WriteText` writes -/

/-- the rule lines of a builder, in the order `WriteText` writes them -/
def ruleLineList (b : Builder) : List Str :=
  b.domains.rules.map (SSV.Gen.C10.domainPrefix ++ ·) ++ b.suffixes.rules.map (SSV.Gen.C10.suffixPrefix ++ ·)
    ++ b.keywords.map (SSV.Gen.C10.keywordPrefix ++ ·) ++ b.regexps.map (SSV.Gen.C10.regexpPrefix ++ ·)

theorem ruleLines_eq (pre : Str) (rs : List Str) :
    ruleLines pre rs = (rs.map (pre ++ ·)).flatMap (fun l => l ++ [LF]) := by
  unfold ruleLines
  rw [List.flatMap_map]

theorem writeText_eq (b : Builder) :
    b.writeText = (hintLine b.domains.rules.length b.suffixes.rules.length b.keywords.length b.regexps.length
      :: ruleLineList b).flatMap (fun l => l ++ [LF]) := by
  unfold Builder.writeText ruleLineList hintLine
  simp only [ruleLines_eq, List.flatMap_cons, List.flatMap_append, List.append_assoc, List.cons_append,
    List.nil_append]

theorem lineSafe_prefixed (pre r : Str) (hp : LF ∉ pre) (h : lineSafe r = true) : lineSafe (pre ++ r) = true := by
  obtain ⟨h1, h2, h3⟩ := (lineSafe_iff r).mp h
  rw [lineSafe_iff]
  refine ⟨by simp [h1], ?_, ?_⟩
  · intro hm
    rcases List.mem_append.mp hm with hm | hm
    · exact hp hm
    · exact h2 hm
  · rw [List.getLast?_append]
    cases hr : r.getLast? with
    | none => exact absurd (List.getLast?_eq_none_iff.mp hr) h1
    | some x =>
      rw [hr] at h3
      simpa using h3

theorem lineSafe_hintLine (a b c d : Nat) : lineSafe (hintLine a b c d) = true := by
  have hdig : ∀ n, LF ∉ natToDec n := by
    intro n hm
    have := (natToDec_spec n).2.1 LF hm
    simp [LF] at this
  rw [lineSafe_iff]
  unfold hintLine
  refine ⟨by simp [SSV.Gen.C10.capacityHintPrefix], ?_, ?_⟩
  · intro hm
    simp only [List.mem_append, List.mem_cons] at hm
    have hp : LF ∉ SSV.Gen.C10.capacityHintPrefix := by decide
    have hs : LF ∉ SSV.Gen.C10.capacityHintSuffix := by decide
    have hsp : LF ≠ space := by decide
    rcases hm with hm | hm | hm | hm | hm | hm | hm | hm | hm | hm
    · exact hp hm
    · exact hdig a hm
    · exact hsp hm
    · exact hdig b hm
    · exact hsp hm
    · exact hdig c hm
    · exact hsp hm
    · exact hdig d hm
    · exact hsp hm
    · exact hs hm
  · have : ∀ (x : Str), (x ++ SSV.Gen.C10.capacityHintSuffix).getLast? = some 82 := by
      intro x; rw [List.getLast?_append]; rfl
    have e : SSV.Gen.C10.capacityHintPrefix ++ (natToDec a ++ space :: (natToDec b ++ space :: (natToDec c ++ space ::
        (natToDec d ++ space :: SSV.Gen.C10.capacityHintSuffix))))
        = (SSV.Gen.C10.capacityHintPrefix ++ (natToDec a ++ space :: (natToDec b ++ space :: (natToDec c ++ space ::
        (natToDec d ++ [space]))))) ++ SSV.Gen.C10.capacityHintSuffix := by
      simp [List.append_assoc]
    rw [e, this]
    decide

theorem lineSafe_ruleLineList (b : Builder)
    (hd : ∀ r ∈ b.domains.rules, lineSafe r = true) (hs : ∀ r ∈ b.suffixes.rules, lineSafe r = true)
    (hk : ∀ r ∈ b.keywords, lineSafe r = true) (hr : ∀ r ∈ b.regexps, lineSafe r = true) :
    ∀ l ∈ ruleLineList b, lineSafe l = true := by
  intro l hl
  unfold ruleLineList at hl
  simp only [List.mem_append, List.mem_map] at hl
  rcases hl with ((⟨r, hr', rfl⟩ | ⟨r, hr', rfl⟩) | ⟨r, hr', rfl⟩) | ⟨r, hr', rfl⟩
  · exact lineSafe_prefixed _ r (by decide) (hd r hr')
  · exact lineSafe_prefixed _ r (by decide) (hs r hr')
  · exact lineSafe_prefixed _ r (by decide) (hk r hr')
  · exact lineSafe_prefixed _ r (by decide) (hr r hr')

/-- re-reading what `WriteText` wrote: the domain rules are inserted into an empty map, the suffix rules into an
empty trie, in the written order; keywords and regexps are kept. -/
theorem builderFromText_writeText (b : Builder)
    (hd : ∀ r ∈ b.domains.rules, lineSafe r = true) (hs : ∀ r ∈ b.suffixes.rules, lineSafe r = true)
    (hk : ∀ r ∈ b.keywords, lineSafe r = true) (hr : ∀ r ∈ b.regexps, lineSafe r = true)
    (hne : ruleLineList b ≠ [])
    (hsz : b.domains.rules.length < 2 ^ 63 ∧ b.suffixes.rules.length < 2 ^ 63 ∧ b.keywords.length < 2 ^ 63
      ∧ b.regexps.length < 2 ^ 63) :
    builderFromText b.writeText = .ok
      ⟨.map (b.domains.rules.foldl mapInsert []), .trie (trieFromList b.suffixes.rules), b.keywords, b.regexps⟩ := by
  have hlines : nonEmptyLines b.writeText =
      hintLine b.domains.rules.length b.suffixes.rules.length b.keywords.length b.regexps.length :: ruleLineList b := by
    rw [writeText_eq]
    apply nonEmptyLines_of_safe
    intro l hl
    simp only [List.mem_cons] at hl
    rcases hl with rfl | hl
    · exact lineSafe_hintLine _ _ _ _
    · exact lineSafe_ruleLineList b hd hs hk hr l hl
  unfold builderFromText
  rw [hlines]
  simp only [parseCapacityHint_written _ _ _ _ hsz.1 hsz.2.1 hsz.2.2.1 hsz.2.2.2]
  cases hrl : ruleLineList b with
  | nil => exact absurd hrl hne
  | cons l ls =>
    show addLines Builder.emptyText (l :: ls) = _
    rw [← hrl]
    unfold ruleLineList
    rw [addLines_append, addLines_append, addLines_append, addLines_domains _ _ hd]
    simp only [Except.bind]
    rw [addLines_suffixes _ _ hs]
    simp only [Except.bind]
    rw [addLines_keywords _ _ hk]
    simp only [Except.bind]
    rw [addLines_regexps _ _ hr]
    simp only [Builder.emptyText, foldl_insert_map, foldl_insert_trie, List.nil_append, trieFromList]

/-- the written form of a builder without rules is only the hint line, which the loader refuses as an empty set -/
theorem builderFromText_writeText_empty (b : Builder) (hne : ruleLineList b = [])
    (hsz : b.domains.rules.length < 2 ^ 63 ∧ b.suffixes.rules.length < 2 ^ 63 ∧ b.keywords.length < 2 ^ 63
      ∧ b.regexps.length < 2 ^ 63) :
    builderFromText b.writeText = .error .emptySet := by
  have hlines : nonEmptyLines b.writeText =
      [hintLine b.domains.rules.length b.suffixes.rules.length b.keywords.length b.regexps.length] := by
    rw [writeText_eq, hne]
    apply nonEmptyLines_of_safe
    intro l hl
    simp only [List.mem_singleton] at hl
    subst hl
    exact lineSafe_hintLine _ _ _ _
  unfold builderFromText
  rw [hlines]
  simp only [parseCapacityHint_written _ _ _ _ hsz.1 hsz.2.1 hsz.2.2.1 hsz.2.2.2]

end SSV.DomainSet
