import SSV.Proofs.RelayLifeDefs3
/- C12 helper lemmas: the uplink goroutine does not exist before the initialiser has spawned it. -/
namespace SSV.RelayLife
variable (cfg : Cfg)

structure Inv3d (s : State) : Prop where
  u1 : ∀ i, i < s.n → (s.ent i).ipc.idx ≤ 6 → (s.ent i).upc = .none

theorem inv3d_initial : Inv3d State.init := by
  constructor; simp [State.init]

theorem inv3d_arrive (s s' : State) (c : Nat) (hI : Inv3d s) (h : step cfg s (.arrive c) = some s') : Inv3d s' := by
  obtain ⟨u1⟩ := hI
  simp only [step] at h
  (repeat' split at h) <;> close_case3

theorem inv3d_rLock (s s' : State)  (hI : Inv3d s) (h : step cfg s (.rLock ) = some s') : Inv3d s' := by
  obtain ⟨u1⟩ := hI
  simp only [step] at h
  (repeat' split at h) <;> close_case3

theorem inv3d_rProc (s s' : State) (ok : Bool) (hI : Inv3d s) (h : step cfg s (.rProc ok) = some s') : Inv3d s' := by
  obtain ⟨u1⟩ := hI
  simp only [step] at h
  (repeat' split at h) <;> close_case3

theorem inv3d_rMore (s s' : State) (c : Nat) (hI : Inv3d s) (h : step cfg s (.rMore c) = some s') : Inv3d s' := by
  obtain ⟨u1⟩ := hI
  simp only [step] at h
  (repeat' split at h) <;> close_case3

theorem inv3d_rUnlock (s s' : State)  (hI : Inv3d s) (h : step cfg s (.rUnlock ) = some s') : Inv3d s' := by
  obtain ⟨u1⟩ := hI
  simp only [step] at h
  (repeat' split at h) <;> close_case3

theorem inv3d_rExit (s s' : State)  (hI : Inv3d s) (h : step cfg s (.rExit ) = some s') : Inv3d s' := by
  obtain ⟨u1⟩ := hI
  simp only [step] at h
  (repeat' split at h) <;> close_case3

theorem inv3d_init (s s' : State) (i : Nat) (ok : Bool) (hI : Inv3d s) (h : step cfg s (.init i ok) = some s') : Inv3d s' := by
  obtain ⟨u1⟩ := hI
  simp only [step] at h
  (repeat' split at h) <;> close_case3

theorem inv3d_dTimeout (s s' : State) (i : Nat) (hI : Inv3d s) (h : step cfg s (.dTimeout i) = some s') : Inv3d s' := by
  obtain ⟨u1⟩ := hI
  simp only [step] at h
  (repeat' split at h) <;> close_case3

theorem inv3d_dPacket (s s' : State) (i : Nat) (hI : Inv3d s) (h : step cfg s (.dPacket i) = some s') : Inv3d s' := by
  obtain ⟨u1⟩ := hI
  simp only [step] at h
  (repeat' split at h) <;> close_case3

theorem inv3d_dSend (s s' : State) (i : Nat) (hI : Inv3d s) (h : step cfg s (.dSend i) = some s') : Inv3d s' := by
  obtain ⟨u1⟩ := hI
  simp only [step] at h
  (repeat' split at h) <;> close_case3

theorem inv3d_uFail (s s' : State) (i : Nat) (hI : Inv3d s) (h : step cfg s (.uFail i) = some s') : Inv3d s' := by
  obtain ⟨u1⟩ := hI
  simp only [step] at h
  (repeat' split at h) <;> close_case3

theorem inv3d_cleanup (s s' : State) (i : Nat) (hI : Inv3d s) (h : step cfg s (.cleanup i) = some s') : Inv3d s' := by
  obtain ⟨u1⟩ := hI
  simp only [step] at h
  (repeat' split at h) <;> close_case3

theorem inv3d_uRecv (s s' : State) (i : Nat) (k : Nat) (hI : Inv3d s) (h : step cfg s (.uRecv i k) = some s') : Inv3d s' := by
  obtain ⟨u1⟩ := hI
  simp only [step] at h
  (repeat' split at h) <;> close_case3

theorem inv3d_uStep (s s' : State) (i : Nat) (hI : Inv3d s) (h : step cfg s (.uStep i) = some s') : Inv3d s' := by
  obtain ⟨u1⟩ := hI
  simp only [step] at h
  (repeat' split at h) <;> close_case3

theorem inv3d_timer (s s' : State) (i : Nat) (hI : Inv3d s) (h : step cfg s (.timer i) = some s') : Inv3d s' := by
  obtain ⟨u1⟩ := hI
  simp only [step] at h
  (repeat' split at h) <;> close_case3

theorem inv3d_stopCall (s s' : State)  (hI : Inv3d s) (h : step cfg s (.stopCall ) = some s') : Inv3d s' := by
  obtain ⟨u1⟩ := hI
  simp only [step] at h
  (repeat' split at h) <;> close_case3

theorem inv3d_stop (s s' : State)  (hI : Inv3d s) (h : step cfg s (.stop ) = some s') : Inv3d s' := by
  obtain ⟨u1⟩ := hI
  simp only [step] at h
  (repeat' split at h) <;> close_case3

theorem inv3d_stopVisit (s s' : State) (i : Nat) (hI : Inv3d s) (h : step cfg s (.stopVisit i) = some s') : Inv3d s' := by
  obtain ⟨u1⟩ := hI
  simp only [step] at h
  (repeat' split at h) <;> close_case3

theorem inv3d_step (s s' : State) (e : Ev) (hI : Inv3d s) (h : step cfg s e = some s') : Inv3d s' := by
  cases e with
  | arrive c => exact inv3d_arrive cfg s s' c hI h
  | rLock  => exact inv3d_rLock cfg s s'  hI h
  | rProc ok => exact inv3d_rProc cfg s s' ok hI h
  | rMore c => exact inv3d_rMore cfg s s' c hI h
  | rUnlock  => exact inv3d_rUnlock cfg s s'  hI h
  | rExit  => exact inv3d_rExit cfg s s'  hI h
  | init i ok => exact inv3d_init cfg s s' i ok hI h
  | dTimeout i => exact inv3d_dTimeout cfg s s' i hI h
  | dPacket i => exact inv3d_dPacket cfg s s' i hI h
  | dSend i => exact inv3d_dSend cfg s s' i hI h
  | uFail i => exact inv3d_uFail cfg s s' i hI h
  | cleanup i => exact inv3d_cleanup cfg s s' i hI h
  | uRecv i k => exact inv3d_uRecv cfg s s' i k hI h
  | uStep i => exact inv3d_uStep cfg s s' i hI h
  | timer i => exact inv3d_timer cfg s s' i hI h
  | stopCall  => exact inv3d_stopCall cfg s s'  hI h
  | stop  => exact inv3d_stop cfg s s'  hI h
  | stopVisit i => exact inv3d_stopVisit cfg s s' i hI h

theorem inv3d_reachable {s : State} (h : Reachable cfg s) : Inv3d s := by
  induction h with
  | init => exact inv3d_initial
  | step e _ hs ih => exact inv3d_step cfg _ _ e ih hs

end SSV.RelayLife
