import SSV.Proofs.PortSetRanges
/-
`add` / `addRange` at the word level set exactly the bits of the port / range; `Parse` is sound.
-/
namespace SSV.PortSet

theorem word_set (ws : Words) (i w j : Nat) :
    word (ws.set i w) j = if i = j ∧ i < ws.length then w else word ws j := by
  unfold word
  rw [List.getD_eq_getElem?_getD, List.getD_eq_getElem?_getD, List.getElem?_set]
  by_cases h : i = j
  · subst h
    by_cases hl : i < ws.length
    · simp [hl]
    · simp [hl]
  · simp [h]

theorem bitAt_set (ws : Words) (i w q : Nat) :
    bitAt (ws.set i w) q = if i = q / 64 ∧ i < ws.length then w.testBit (q % 64) else bitAt ws q := by
  rw [bitAt_eq_testBit, bitAt_eq_testBit, word_set]
  split <;> rfl

theorem testBit_shl_allOnes {k j : Nat} (hj : j < 64) :
    (shl64 allOnes k).testBit j = decide (k ≤ j) := by
  unfold shl64 allOnes W
  rw [Nat.testBit_mod_two_pow, Nat.testBit_shiftLeft, Nat.testBit_two_pow_sub_one]
  by_cases hk : k ≤ j
  · have : j - k < 64 := by omega
    simp [hj, hk, this]
  · simp [hj, hk]

theorem shl64_lt (x k : Nat) : shl64 x k < 2 ^ 64 := by
  unfold shl64 W
  exact Nat.mod_lt _ (by decide)

theorem testBit_not_shl_allOnes {k j : Nat} (hj : j < 64) :
    (not64 (shl64 allOnes k)).testBit j = decide (j < k) := by
  have hx := shl64_lt allOnes k
  rw [not64_eq hx]
  have : 2 ^ 64 - 1 - shl64 allOnes k = 2 ^ 64 - (shl64 allOnes k + 1) := by omega
  rw [this, Nat.testBit_two_pow_sub_succ hx, testBit_shl_allOnes hj]
  by_cases hk : k ≤ j
  · have : ¬ j < k := by omega
    simp [hj, hk, this]
  · have : j < k := by omega
    simp [hj, hk, this]

theorem not64_lt (x : Nat) : not64 x < 2 ^ 64 := by
  unfold not64 allOnes
  omega

theorem testBit_one_shl {k j : Nat} (hk : k < 64) : (shl64 1 k).testBit j = decide (k = j) := by
  have hs : shl64 1 k = 2 ^ k := by
    simp only [shl64, W, Nat.one_shiftLeft]
    exact Nat.mod_eq_of_lt (Nat.pow_lt_pow_right (by decide) hk)
  rw [hs, Nat.testBit_two_pow]

theorem WF_set {ws : Words} (h : WF ws) (i w : Nat) (hw : w < 2 ^ 64) : WF (ws.set i w) := by
  refine ⟨by rw [List.length_set]; exact h.1, ?_⟩
  intro x hx
  rcases List.mem_or_eq_of_mem_set hx with h' | h'
  · exact h.2 x h'
  · rw [h']; exact hw

theorem word_lt {ws : Words} (h : WF ws) (i : Nat) : word ws i < 2 ^ 64 := by
  unfold word
  rw [List.getD_eq_getElem?_getD]
  cases hi : ws[i]? with
  | none => simp
  | some w => exact h.2 w (List.mem_of_getElem? hi)

theorem WF_empty : WF empty := by
  refine ⟨by simp [empty]; rfl, ?_⟩
  intro w hw
  simp [empty] at hw
  omega

/-! ### `add` -/

theorem WF_add {ws : Words} (h : WF ws) (p : Nat) : WF (add ws p) := by
  unfold add
  apply WF_set h
  exact Nat.or_lt_two_pow (word_lt h _) (shl64_lt _ _)

theorem bitAt_add {ws : Words} (h : WF ws) {p q : Nat} (hp : p < 65536) (hq : q < 65536) :
    bitAt (add ws p) q = (bitAt ws q || decide (q = p)) := by
  unfold add
  show bitAt (ws.set (p / 64) (word ws (p / 64) ||| shl64 1 (p % 64))) q = _
  rw [bitAt_set, h.1]
  have hk : p % 64 < 64 := Nat.mod_lt _ (by decide)
  by_cases hb : p / 64 = q / 64
  · have : p / 64 < 1024 := by omega
    simp only [hb, true_and]
    have h2 : q / 64 < 1024 := by omega
    simp only [h2, ↓reduceIte]
    rw [Nat.testBit_or, testBit_one_shl hk, bitAt_eq_testBit ws q, ← hb]
    by_cases he : p % 64 = q % 64
    · have : q = p := by omega
      simp [he, this]
    · have : ¬ q = p := by intro h'; subst h'; exact he rfl
      simp [he, this]
  · have : ¬ q = p := by intro h'; subst h'; exact hb rfl
    simp [hb, this]

/-! ### `fillOnes` and `addRange` -/

theorem length_fillOnes : ∀ (n : Nat) (ws : Words) (lo : Nat), (fillOnes ws lo n).length = ws.length
  | 0, _, _ => rfl
  | n + 1, ws, lo => by rw [fillOnes, length_fillOnes n, List.length_set]

theorem word_fillOnes : ∀ (n : Nat) (ws : Words) (lo j : Nat),
    word (fillOnes ws lo n) j = if lo ≤ j ∧ j < lo + n ∧ j < ws.length then allOnes else word ws j
  | 0, ws, lo, j => by
    have : ¬ (lo ≤ j ∧ j < lo + 0 ∧ j < ws.length) := by omega
    rw [fillOnes, if_neg this]
  | n + 1, ws, lo, j => by
    rw [fillOnes, word_fillOnes n, List.length_set, word_set]
    by_cases h1 : lo + 1 ≤ j ∧ j < lo + 1 + n ∧ j < ws.length
    · have : lo ≤ j ∧ j < lo + (n + 1) ∧ j < ws.length := by omega
      simp [h1, this]
    · simp only [h1, ↓reduceIte]
      by_cases h2 : lo = j ∧ lo < ws.length
      · have : lo ≤ j ∧ j < lo + (n + 1) ∧ j < ws.length := by omega
        simp [h2, this]
      · have : ¬ (lo ≤ j ∧ j < lo + (n + 1) ∧ j < ws.length) := by omega
        simp [h2, this]

theorem WF_fillOnes : ∀ (n : Nat) (ws : Words) (lo : Nat), WF ws → WF (fillOnes ws lo n)
  | 0, _, _, h => h
  | n + 1, ws, lo, h => by
    rw [fillOnes]
    exact WF_fillOnes n _ _ (WF_set h lo allOnes (by decide))

theorem testBit_allOnes {j : Nat} (hj : j < 64) : allOnes.testBit j = true := by
  unfold allOnes
  rw [Nat.testBit_two_pow_sub_one]; simp [hj]

theorem WF_addRange {ws : Words} (h : WF ws) (a b : Nat) : WF (addRange ws a b) := by
  unfold addRange
  simp only
  split
  · exact WF_set h _ _ (Nat.or_lt_two_pow (word_lt h _) (Nat.and_lt_two_pow _ (not64_lt _)))
  · have h1 : WF (ws.set (blockIndex a) (word ws (blockIndex a) ||| shl64 allOnes (bitIndex a))) :=
      WF_set h _ _ (Nat.or_lt_two_pow (word_lt h _) (shl64_lt _ _))
    have h2 := WF_fillOnes (blockIndex b - (blockIndex a + 1)) _ (blockIndex a + 1) h1
    split
    · exact WF_set h2 _ _ (Nat.or_lt_two_pow (word_lt h2 _) (not64_lt _))
    · exact h2

theorem bitAt_addRange {ws : Words} (h : WF ws) {a b q : Nat} (hab : a < b) (hb : b ≤ 65536) (hq : q < 65536) :
    bitAt (addRange ws a b) q = (bitAt ws q || (decide (a ≤ q) && decide (q < b))) := by
  have hlen := h.1
  have hj : q % 64 < 64 := Nat.mod_lt _ (by decide)
  unfold addRange
  simp only [blockIndex, bitIndex, blockBits, SSV.Gen.C10.portsetBlockBits]
  by_cases hsame : a / 64 = b / 64
  · simp only [hsame, ↓reduceIte]
    rw [bitAt_set, hlen]
    by_cases hbq : b / 64 = q / 64
    · have : b / 64 < 1024 := by omega
      simp only [hbq, true_and]
      have h2 : q / 64 < 1024 := by omega
      simp only [h2, ↓reduceIte]
      rw [Nat.testBit_or, Nat.testBit_and, testBit_shl_allOnes hj, testBit_not_shl_allOnes hj, ← hbq,
        bitAt_eq_testBit ws q, ← hbq]
      have e1 : decide (a % 64 ≤ q % 64) = decide (a ≤ q) := by
        apply decide_eq_decide.mpr; omega
      have e2 : decide (q % 64 < b % 64) = decide (q < b) := by
        apply decide_eq_decide.mpr; omega
      rw [e1, e2]
    · have : ¬ (a ≤ q ∧ q < b) := by omega
      have e : (decide (a ≤ q) && decide (q < b)) = false := by simpa using this
      simp [hbq, e]
  · simp only [hsame, ↓reduceIte]
    have hlt : a / 64 < b / 64 := by
      have : a / 64 ≤ b / 64 := Nat.div_le_div_right (by omega)
      omega
    have hfl : (fillOnes (ws.set (a / 64) (word ws (a / 64) ||| shl64 allOnes (a % 64))) (a / 64 + 1)
        (b / 64 - (a / 64 + 1))).length = 1024 := by
      rw [length_fillOnes, List.length_set, hlen]
    -- the word of `q` after the first two steps
    have hw2 : word (fillOnes (ws.set (a / 64) (word ws (a / 64) ||| shl64 allOnes (a % 64))) (a / 64 + 1)
        (b / 64 - (a / 64 + 1))) (q / 64)
        = if a / 64 + 1 ≤ q / 64 ∧ q / 64 < b / 64 then allOnes
          else if a / 64 = q / 64 then word ws (a / 64) ||| shl64 allOnes (a % 64) else word ws (q / 64) := by
      rw [word_fillOnes, List.length_set, hlen, word_set, hlen]
      have hq2 : q / 64 < 1024 := by omega
      by_cases h1 : a / 64 + 1 ≤ q / 64 ∧ q / 64 < b / 64
      · have : a / 64 + 1 ≤ q / 64 ∧ q / 64 < a / 64 + 1 + (b / 64 - (a / 64 + 1)) ∧ q / 64 < 1024 := by omega
        simp [h1, this]
      · have : ¬ (a / 64 + 1 ≤ q / 64 ∧ q / 64 < a / 64 + 1 + (b / 64 - (a / 64 + 1)) ∧ q / 64 < 1024) := by omega
        simp only [h1, this, ↓reduceIte]
        by_cases h2 : a / 64 = q / 64
        · simp [h2, hq2]
        · simp [h2]
    simp only [hfl]
    by_cases htb : b / 64 < 1024
    · simp only [htb, ↓reduceIte]
      rw [bitAt_set, hfl]
      by_cases hbq : b / 64 = q / 64
      · simp only [hbq, true_and]
        rw [hbq] at hw2
        have h2 : q / 64 < 1024 := by omega
        simp only [h2, ↓reduceIte]
        rw [Nat.testBit_or, testBit_not_shl_allOnes hj, hw2]
        have n1 : ¬ (a / 64 + 1 ≤ q / 64 ∧ q / 64 < q / 64) := by omega
        have n2 : ¬ a / 64 = q / 64 := by omega
        simp only [n1, n2, ↓reduceIte]
        rw [bitAt_eq_testBit ws q]
        have e : decide (q % 64 < b % 64) = (decide (a ≤ q) && decide (q < b)) := by
          rw [Bool.eq_iff_iff]; simp; omega
        rw [e]
      · simp only [hbq, false_and, ↓reduceIte]
        rw [bitAt_eq_testBit, hw2, bitAt_eq_testBit ws q]
        by_cases h1 : a / 64 + 1 ≤ q / 64 ∧ q / 64 < b / 64
        · have e : (decide (a ≤ q) && decide (q < b)) = true := by simp; omega
          simp [h1, testBit_allOnes hj, e]
        · simp only [h1, ↓reduceIte]
          by_cases h2 : a / 64 = q / 64
          · simp only [h2, ↓reduceIte]
            rw [Nat.testBit_or, testBit_shl_allOnes hj, ← h2]
            have e : decide (a % 64 ≤ q % 64) = (decide (a ≤ q) && decide (q < b)) := by
              rw [Bool.eq_iff_iff]; simp; omega
            rw [e]
          · have e : (decide (a ≤ q) && decide (q < b)) = false := by
              have : ¬ (a ≤ q ∧ q < b) := by omega
              simpa using this
            simp [h2, e]
    · simp only [htb, ↓reduceIte]
      rw [bitAt_eq_testBit, hw2, bitAt_eq_testBit ws q]
      by_cases h1 : a / 64 + 1 ≤ q / 64 ∧ q / 64 < b / 64
      · have e : (decide (a ≤ q) && decide (q < b)) = true := by simp; omega
        simp [h1, testBit_allOnes hj, e]
      · simp only [h1, ↓reduceIte]
        by_cases h2 : a / 64 = q / 64
        · simp only [h2, ↓reduceIte]
          rw [Nat.testBit_or, testBit_shl_allOnes hj, ← h2]
          have e : decide (a % 64 ≤ q % 64) = (decide (a ≤ q) && decide (q < b)) := by
            rw [Bool.eq_iff_iff]; simp; omega
          rw [e]
        · have e : (decide (a ≤ q) && decide (q < b)) = false := by
            have : ¬ (a ≤ q ∧ q < b) := by omega
            simpa using this
          simp [h2, e]

/-! ### `Parse` -/

/-- what a piece denotes -/
def Item.covers : Item → Nat → Bool
  | .port p, q => decide (q = p)
  | .range a b, q => decide (a ≤ q) && decide (q ≤ b)

/-- a well-formed piece: a port 1..65535 or a range 1 ≤ lo < hi ≤ 65535 -/
def Item.Valid : Item → Prop
  | .port p => 1 ≤ p ∧ p ≤ 65535
  | .range a b => 1 ≤ a ∧ a < b ∧ b ≤ 65535

theorem parseDigits_le : ∀ (s : Str) (n m : Nat), n ≤ 65535 → parseDigits n s = some m → m ≤ 65535
  | [], n, m, hn, h => by simp [parseDigits] at h; omega
  | c :: cs, n, m, hn, h => by
    unfold parseDigits at h
    by_cases hd : 48 ≤ c.toNat ∧ c.toNat ≤ 57
    · simp only [hd, and_self, ↓reduceIte] at h
      by_cases hbig : n * 10 + (c.toNat - 48) > 65535
      · simp [hbig] at h
      · simp only [hbig, ↓reduceIte] at h
        exact parseDigits_le cs _ m (by omega) h
    · simp [hd] at h

theorem parseUint16_le {s : Str} {n : Nat} (h : parseUint16 s = some n) : n ≤ 65535 := by
  unfold parseUint16 at h
  split at h
  · cases h
  · exact parseDigits_le s 0 n (by omega) h

theorem parseItem_valid {s : Str} {it : Item} (h : parseItem s = some it) : it.Valid := by
  unfold parseItem at h
  split at h
  · split at h
    · cases h
    · rename_i p hp
      split at h
      · cases h
      · injection h with h; subst h
        have := parseUint16_le hp
        exact ⟨by omega, this⟩
  · split at h
    · cases h
    · rename_i f hf
      split at h
      · cases h
      · split at h
        · cases h
        · rename_i t ht
          split at h
          · cases h
          · injection h with h; subst h
            have := parseUint16_le ht
            exact ⟨by omega, by omega, this⟩

theorem WF_applyItem {ws : Words} (h : WF ws) (it : Item) : WF (applyItem ws it) := by
  cases it with
  | port p => exact WF_add h p
  | range a b => exact WF_addRange h a (b + 1)

theorem bitAt_applyItem {ws : Words} (h : WF ws) {it : Item} (hv : it.Valid) {q : Nat} (hq : q < 65536) :
    bitAt (applyItem ws it) q = (bitAt ws q || it.covers q) := by
  cases it with
  | port p => exact bitAt_add h (by have := hv.2; omega) hq
  | range a b =>
    obtain ⟨h1, h2, h3⟩ := hv
    show bitAt (addRange ws a (b + 1)) q = _
    rw [bitAt_addRange h (by omega) (by omega) hq]
    have e : decide (q < b + 1) = decide (q ≤ b) := by apply decide_eq_decide.mpr; omega
    rw [e]; rfl

theorem parseItems_sound : ∀ (pieces : List Str) (ws ws' : Words), WF ws → parseItems ws pieces = (ws', true) →
    WF ws' ∧ ∃ its : List Item, pieces.mapM parseItem = some its ∧ (∀ it ∈ its, it.Valid) ∧
      ∀ q, q < 65536 → bitAt ws' q = (bitAt ws q || its.any (fun it => it.covers q))
  | [], ws, ws', h, hp => by
    simp only [parseItems, Prod.mk.injEq, and_true] at hp
    subst hp
    exact ⟨h, [], rfl, by simp, by simp⟩
  | s :: rest, ws, ws', h, hp => by
    unfold parseItems at hp
    cases hs : parseItem s with
    | none => simp [hs] at hp
    | some it =>
      simp only [hs] at hp
      have hv := parseItem_valid hs
      obtain ⟨hwf, its, hm, hval, hbits⟩ := parseItems_sound rest _ ws' (WF_applyItem h it) hp
      refine ⟨hwf, it :: its, ?_, ?_, ?_⟩
      · simp [List.mapM_cons, hs, hm]
      · intro x hx
        simp only [List.mem_cons] at hx
        rcases hx with rfl | hx
        · exact hv
        · exact hval x hx
      · intro q hq
        rw [hbits q hq, bitAt_applyItem h hv hq, List.any_cons, Bool.or_assoc]

theorem parseItems_reject : ∀ (pieces : List Str) (ws ws' : Words), parseItems ws pieces = (ws', false) →
    ∃ piece ∈ pieces, parseItem piece = none
  | [], ws, ws', hp => by simp [parseItems] at hp
  | s :: rest, ws, ws', hp => by
    unfold parseItems at hp
    cases hs : parseItem s with
    | none => exact ⟨s, by simp, hs⟩
    | some it =>
      simp only [hs] at hp
      obtain ⟨p, hp1, hp2⟩ := parseItems_reject rest _ ws' hp
      exact ⟨p, by simp [hp1], hp2⟩

end SSV.PortSet

namespace SSV.PortSet

/-- the decimal value of a digit string read from accumulator `n` -/
def decFrom (n : Nat) (s : Str) : Nat := s.foldl (fun n c => n * 10 + (c.toNat - 48)) n

theorem le_decFrom : ∀ (s : Str) (n : Nat), n ≤ decFrom n s
  | [], n => by simp [decFrom]
  | c :: cs, n => by
    have := le_decFrom cs (n * 10 + (c.toNat - 48))
    simp only [decFrom, List.foldl_cons] at this ⊢
    omega

theorem parseDigits_iff : ∀ (s : Str) (n m : Nat),
    parseDigits n s = some m ↔ ((∀ c ∈ s, 48 ≤ c.toNat ∧ c.toNat ≤ 57) ∧ decFrom n s = m ∧ (s ≠ [] → m ≤ 65535))
  | [], n, m => by simp [parseDigits, decFrom]
  | c :: cs, n, m => by
    unfold parseDigits
    by_cases hd : 48 ≤ c.toNat ∧ c.toNat ≤ 57
    · simp only [hd, and_self, ↓reduceIte]
      by_cases hbig : n * 10 + (c.toNat - 48) > 65535
      · simp only [hbig, ↓reduceIte]
        constructor
        · intro h; cases h
        · rintro ⟨_, hv, hm⟩
          have := le_decFrom cs (n * 10 + (c.toNat - 48))
          have hm' := hm (by simp)
          simp only [decFrom, List.foldl_cons] at hv this
          omega
      · simp only [hbig, ↓reduceIte]
        rw [parseDigits_iff cs]
        simp only [List.mem_cons, forall_eq_or_imp, hd, and_self, true_and, decFrom, List.foldl_cons, ne_eq,
          reduceCtorEq, not_false_eq_true, forall_const]
        constructor
        · rintro ⟨h1, h2, h3⟩
          refine ⟨h1, h2, ?_⟩
          by_cases hc : cs = []
          · subst hc; simp at h2; omega
          · exact h3 hc
        · rintro ⟨h1, h2, h3⟩
          exact ⟨h1, h2, fun _ => h3⟩
    · simp only [hd, ↓reduceIte]
      constructor
      · intro h; cases h
      · rintro ⟨h, _⟩
        exact absurd (h c (by simp)) hd

/-- `strconv.ParseUint(s, 10, 16)` succeeds exactly on non-empty all-digit strings of value ≤ 65535 -/
theorem parseUint16_iff (s : Str) (m : Nat) :
    parseUint16 s = some m ↔ (s ≠ [] ∧ (∀ c ∈ s, 48 ≤ c.toNat ∧ c.toNat ≤ 57) ∧ decFrom 0 s = m ∧ m ≤ 65535) := by
  unfold parseUint16
  by_cases hs : s = []
  · simp [hs]
  · simp only [hs, ↓reduceIte, ne_eq, not_false_eq_true, true_and]
    rw [parseDigits_iff]
    simp [hs]

theorem covers_zero {it : Item} (hv : it.Valid) : it.covers 0 = false := by
  cases it with
  | port p => have := hv.1; simp [Item.covers]; omega
  | range a b => have := hv.1; simp [Item.covers]; omega

/-- membership in the result of an `Option` `mapM` -/
theorem mapM_some_mem {α β : Type} {f : α → Option β} : ∀ {l : List α} {r : List β}, l.mapM f = some r →
    ∀ b, b ∈ r ↔ ∃ a ∈ l, f a = some b := by
  intro l
  induction l with
  | nil => intro r h b; simp at h; subst h; simp
  | cons a l ih =>
    intro r h b
    rw [List.mapM_cons] at h
    cases hfa : f a with
    | none => simp [hfa] at h
    | some b0 =>
      cases hl : l.mapM f with
      | none => simp [hfa, hl] at h
      | some bs =>
        simp [hfa, hl] at h
        subst h
        simp [ih hl b, hfa]
        constructor
        · rintro (rfl | h)
          · exact Or.inl rfl
          · exact Or.inr h
        · rintro (h | h)
          · exact Or.inl h.symm
          · exact Or.inr h

/-- a well-formed block array is determined by its 65536 bits -/
theorem words_ext {ws ws' : Words} (h : WF ws) (h' : WF ws')
    (hb : ∀ q, q < 65536 → bitAt ws q = bitAt ws' q) : ws = ws' := by
  apply List.ext_getElem (by rw [h.1, h'.1])
  intro i hi hi'
  have hi1 : i < 1024 := by rw [← h.1]; exact hi
  apply Nat.eq_of_testBit_eq
  intro j
  by_cases hj : j < 64
  · have := hb (64 * i + j) (by omega)
    rw [bitAt_eq_testBit, bitAt_eq_testBit] at this
    have e1 : (64 * i + j) / 64 = i := by omega
    have e2 : (64 * i + j) % 64 = j := by omega
    rw [e1, e2] at this
    simpa [word, List.getD_eq_getElem?_getD, hi, hi'] using this
  · have hw : ws[i] < 2 ^ 64 := h.2 _ (List.getElem_mem hi)
    have hw' : ws'[i] < 2 ^ 64 := h'.2 _ (List.getElem_mem hi')
    have hp : 2 ^ 64 ≤ 2 ^ j := Nat.pow_le_pow_right (by omega) (by omega)
    rw [Nat.testBit_lt_two_pow (Nat.lt_of_lt_of_le hw hp), Nat.testBit_lt_two_pow (Nat.lt_of_lt_of_le hw' hp)]

end SSV.PortSet
