import SSV.Model.PacketRefused
import SSV.Proofs.PacketSSDown
/- C05 helper lemmas: frame on refusal. -/
namespace SSV.Packet
open SSV SSV.Gen.C05

/-- a refused none/SOCKS5 client pack is `ErrPayloadTooBig`, happened with the header space in range, and the
buffer it leaves differs from the input only inside `[payloadStart − |header|, payloadStart)` -/
theorem plainClientPack_refused (hdr3 : Bool) (limit : Int) (b : Bytes) (a : Addr) (ps pl : Nat) (e : Err) (ha : a.wf)
    (h : plainClientPack hdr3 limit b a ps pl = .err e) :
    e = .tooBig ∧ (plainHead hdr3 (encodeAddr a)).length ≤ ps ∧ ps ≤ b.length ∧
    (plainClientPackRefusedBuf hdr3 b a ps).length = b.length ∧
    (plainClientPackRefusedBuf hdr3 b a ps).take (ps - (plainHead hdr3 (encodeAddr a)).length) = b.take (ps - (plainHead hdr3 (encodeAddr a)).length) ∧
    (plainClientPackRefusedBuf hdr3 b a ps).drop ps = b.drop ps := by
  have hlen := encodeAddr_length a ha
  have hpl := plainHead_length hdr3 (encodeAddr a)
  have hrange : (plainHead hdr3 (encodeAddr a)).length ≤ ps ∧ ps ≤ b.length ∧ e = .tooBig := by
    unfold plainClientPack at h
    rw [wf_not_domTooLong ha] at h
    simp only [Bool.false_eq_true, if_false] at h
    cases hdr3
    · simp only [Bool.false_eq_true, if_false, List.nil_append, noneCPacketStart, noneCPacketLen, noneCTooBig] at h hpl
      simp only [plainHead, Bool.false_eq_true, if_false, List.nil_append] at hpl ⊢
      split at h
      · cases h
      · next hs =>
        simp only [Decidable.not_not, sliceOk] at hs
        split at h
        · simp only [Outcome.err.injEq] at h; exact ⟨by omega, by omega, h.symm⟩
        · cases h
    · simp only [if_true, socks5CPacketStart, socks5CPacketLen, socks5CTooBig] at h hpl
      simp only [plainHead, if_true, List.length_append, List.length_cons, List.length_nil] at hpl ⊢
      split at h
      · cases h
      · next hs =>
        simp only [Decidable.not_not, sliceOk, List.length_append, List.length_cons, List.length_nil] at hs
        split at h
        · simp only [Outcome.err.injEq] at h; exact ⟨by omega, by omega, h.symm⟩
        · cases h
  obtain ⟨h1, h2, h3⟩ := hrange
  have hfit : ps - (plainHead hdr3 (encodeAddr a)).length + (plainHead hdr3 (encodeAddr a)).length ≤ b.length := by omega
  have hdef : plainClientPackRefusedBuf hdr3 b a ps = splice b (ps - (plainHead hdr3 (encodeAddr a)).length) (plainHead hdr3 (encodeAddr a)) := rfl
  rw [hdef]
  refine ⟨h3, h1, h2, splice_length _ _ _ hfit, splice_take _ _ _ hfit, ?_⟩
  exact splice_drop_ge _ _ _ _ hfit (by omega)

theorem plainServerPack_refused (hdr3 : Bool) (limit : Int) (b : Bytes) (a : AddrPort) (ps pl : Nat) (e : Err) (ha : a.wf)
    (h : plainServerPack hdr3 b a ps pl limit = .err e) :
    e = .tooBig ∧ (plainHead hdr3 (encodeAddrPort a)).length ≤ ps ∧ ps ≤ b.length ∧
    (plainServerPackRefusedBuf hdr3 b a ps).length = b.length ∧
    (plainServerPackRefusedBuf hdr3 b a ps).take (ps - (plainHead hdr3 (encodeAddrPort a)).length) = b.take (ps - (plainHead hdr3 (encodeAddrPort a)).length) ∧
    (plainServerPackRefusedBuf hdr3 b a ps).drop ps = b.drop ps := by
  have hlen := encodeAddrPort_length a ha
  have hpl := plainHead_length hdr3 (encodeAddrPort a)
  have hrange : (plainHead hdr3 (encodeAddrPort a)).length ≤ ps ∧ ps ≤ b.length ∧ e = .tooBig := by
    unfold plainServerPack at h
    cases hdr3
    · simp only [Bool.false_eq_true, if_false, List.nil_append, noneSPacketStart, noneSPacketLen, noneSTooBig] at h hpl
      simp only [plainHead, Bool.false_eq_true, if_false, List.nil_append] at hpl ⊢
      split at h
      · cases h
      · next hs =>
        simp only [Decidable.not_not, sliceOk] at hs
        split at h
        · simp only [Outcome.err.injEq] at h; exact ⟨by omega, by omega, h.symm⟩
        · cases h
    · simp only [if_true, socks5SPacketStart, socks5SPacketLen, socks5STooBig] at h hpl
      simp only [plainHead, if_true, List.length_append, List.length_cons, List.length_nil] at hpl ⊢
      split at h
      · cases h
      · next hs =>
        simp only [Decidable.not_not, sliceOk, List.length_append, List.length_cons, List.length_nil] at hs
        split at h
        · simp only [Outcome.err.injEq] at h; exact ⟨by omega, by omega, h.symm⟩
        · cases h
  obtain ⟨h1, h2, h3⟩ := hrange
  have hfit : ps - (plainHead hdr3 (encodeAddrPort a)).length + (plainHead hdr3 (encodeAddrPort a)).length ≤ b.length := by omega
  have hdef : plainServerPackRefusedBuf hdr3 b a ps = splice b (ps - (plainHead hdr3 (encodeAddrPort a)).length) (plainHead hdr3 (encodeAddrPort a)) := rfl
  rw [hdef]
  refine ⟨h3, h1, h2, splice_length _ _ _ hfit, splice_take _ _ _ hfit, ?_⟩
  exact splice_drop_ge _ _ _ _ hfit (by omega)

/-- the ss2022 packers refuse only at the padding guard, i.e. before anything is written -/
theorem ssClientPack_refused (c : Crypto) (userBlock aeadKey : Bytes) (eih : List (Bytes × Bytes)) (mps : Int) (pol : Policy)
    (b : Bytes) (a : Addr) (ps pl rand : Nat) (ts sid pid : Bytes) (e : Err)
    (h : ssClientPack c userBlock aeadKey eih mps pol b a ps pl rand ts sid pid = .err e) : e = .tooBig := by
  unfold ssClientPack at h
  split at h
  · cases h
  · simp only at h
    split at h
    · simp only [Outcome.err.injEq] at h; exact h.symm
    · unfold ssClientPackWith at h
      simp only at h
      repeat' split at h
      all_goals cases h

theorem ssServerPack_refused (c : Crypto) (block aeadKey : Bytes) (pol : Policy) (b : Bytes) (src : AddrPort)
    (ps pl : Nat) (lim : Int) (rand : Nat) (ts ssid spid csid : Bytes) (e : Err)
    (h : ssServerPack c block aeadKey pol b src ps pl lim rand ts ssid spid csid = .err e) : e = .tooBig := by
  unfold ssServerPack at h
  simp only at h
  split at h
  · simp only [Outcome.err.injEq] at h; exact h.symm
  · unfold ssServerPackWith at h
    simp only at h
    repeat' split at h
    all_goals cases h

end SSV.Packet
