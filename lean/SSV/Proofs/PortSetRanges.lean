import SSV.Proofs.PortSetScan
/-
The abstract bit scan produces sorted, disjoint ranges covering exactly the set bits; the binary search of
`PortRangeSet.Contains` is correct on such a list; hence `RangeSet().Contains p = bit p`.
-/
namespace SSV.PortSet

/-- well-formed port set: the array type of the source (`[1024]uint`) -/
def WF (ws : Words) : Prop := ws.length = 1024 ∧ ∀ w ∈ ws, w < 2 ^ 64

def covered (rs : List Range) (q : Nat) : Prop := ∃ r ∈ rs, r.lo ≤ q ∧ q ≤ r.hi

/-- what a scan state covers below position `p` -/
def cov (st : Scan) (p q : Nat) : Prop := covered st.acc q ∨ (st.inRange = true ∧ st.start ≤ q ∧ q < p)

def bound (st : Scan) (p : Nat) : Nat := if st.inRange then st.start else p

structure Inv (st : Scan) (p : Nat) : Prop where
  open_lt : st.inRange = true → st.start < p
  ranges : ∀ r ∈ st.acc, r.lo ≤ r.hi ∧ r.hi < bound st p
  sorted : st.acc.Pairwise (fun a b => b.hi < a.lo)

theorem stepBit_spec {st : Scan} {p : Nat} (b : Bool) (h : Inv st p) :
    Inv (stepBit st p b) (p + 1) ∧ ∀ q, cov (stepBit st p b) (p + 1) q ↔ (cov st p q ∨ (q = p ∧ b = true)) := by
  obtain ⟨h1, h2, h3⟩ := h
  by_cases hr : st.inRange = true
  · have hlt := h1 hr
    cases b
    · -- a zero closes the open range
      have hs : stepBit st p false = ⟨false, st.start, ⟨st.start, p - 1⟩ :: st.acc⟩ := by
        simp [stepBit, closeAt, hr]
      rw [hs]
      refine ⟨⟨by simp, ?_, ?_⟩, ?_⟩
      · intro r hrm
        simp only [List.mem_cons] at hrm
        simp only [bound]
        rcases hrm with rfl | hrm
        · simp; omega
        · have := h2 r hrm
          simp only [bound, hr, ↓reduceIte] at this
          simp; omega
      · rw [List.pairwise_cons]
        refine ⟨?_, h3⟩
        intro r hrm
        have := h2 r hrm
        simp only [bound, hr, ↓reduceIte] at this
        exact this.2
      · intro q
        simp only [cov, covered, List.mem_cons, hr]
        constructor
        · rintro (⟨r, rfl | hrm, hq⟩ | ⟨hf, _⟩)
          · simp at hq; left; right; exact ⟨trivial, by omega, by omega⟩
          · left; left; exact ⟨r, hrm, hq⟩
          · simp at hf
        · rintro ((⟨r, hrm, hq⟩ | ⟨_, hq1, hq2⟩) | ⟨_, hf⟩)
          · left; exact ⟨r, Or.inr hrm, hq⟩
          · left; exact ⟨⟨st.start, p - 1⟩, Or.inl rfl, by simp; omega⟩
          · simp at hf
    · -- a one inside an open range
      have hs : stepBit st p true = st := by simp [stepBit, openAt, hr]
      rw [hs]
      refine ⟨⟨fun _ => by omega, ?_, h3⟩, ?_⟩
      · intro r hrm
        have := h2 r hrm
        simp only [bound, hr, ↓reduceIte] at this ⊢
        exact this
      · intro q
        simp only [cov, hr, true_and, and_true]
        constructor
        · rintro (hc | ⟨hq1, hq2⟩)
          · left; left; exact hc
          · by_cases hqp : q = p
            · right; exact hqp
            · left; right; exact ⟨hq1, by omega⟩
        · rintro ((hc | ⟨hq1, hq2⟩) | rfl)
          · left; exact hc
          · right; exact ⟨hq1, by omega⟩
          · right; exact ⟨by omega, by omega⟩
  · have hr' : st.inRange = false := by simpa using hr
    cases b
    · have hs : stepBit st p false = st := by simp [stepBit, closeAt, hr']
      rw [hs]
      refine ⟨⟨fun h => absurd h hr, ?_, h3⟩, ?_⟩
      · intro r hrm
        have := h2 r hrm
        simp only [bound, hr', Bool.false_eq_true, ↓reduceIte] at this ⊢
        omega
      · intro q
        simp [cov, hr']
    · have hs : stepBit st p true = ⟨true, p, st.acc⟩ := by simp [stepBit, openAt, hr']
      rw [hs]
      refine ⟨⟨fun _ => by simp, ?_, h3⟩, ?_⟩
      · intro r hrm
        have := h2 r hrm
        simp only [bound, hr', Bool.false_eq_true, ↓reduceIte] at this ⊢
        exact this
      · intro q
        simp only [cov, hr', Bool.false_eq_true, false_and, or_false, true_and, and_true]
        constructor
        · rintro (hc | ⟨hq1, hq2⟩)
          · left; exact hc
          · right; omega
        · rintro (hc | rfl)
          · left; exact hc
          · right; exact ⟨by omega, by omega⟩

theorem scanBits_spec : ∀ (bs : List Bool) (st : Scan) (p : Nat), Inv st p →
    Inv (scanBits st p bs) (p + bs.length) ∧
    ∀ q, cov (scanBits st p bs) (p + bs.length) q ↔ (cov st p q ∨ (p ≤ q ∧ bs[q - p]? = some true))
  | [], st, p, h => by
    refine ⟨by simpa [scanBits] using h, ?_⟩
    intro q; simp [scanBits]
  | b :: bs, st, p, h => by
    obtain ⟨hi, hc⟩ := stepBit_spec b h
    obtain ⟨hi', hc'⟩ := scanBits_spec bs _ _ hi
    have e : p + 1 + bs.length = p + (b :: bs).length := by simp; omega
    rw [scanBits]
    rw [e] at hi' hc'
    refine ⟨hi', ?_⟩
    intro q
    rw [hc' q, hc q]
    constructor
    · rintro ((hc0 | ⟨rfl, hb⟩) | ⟨hq, hbs⟩)
      · left; exact hc0
      · right; exact ⟨by omega, by simp [hb]⟩
      · right
        refine ⟨by omega, ?_⟩
        have : q - p = (q - (p + 1)) + 1 := by omega
        rw [this]; simpa using hbs
    · rintro (hc0 | ⟨hq, hbs⟩)
      · left; left; exact hc0
      · by_cases hqp : q = p
        · subst hqp
          left; right
          simp at hbs
          exact ⟨rfl, hbs⟩
        · right
          refine ⟨by omega, ?_⟩
          have : q - p = (q - (p + 1)) + 1 := by omega
          rw [this] at hbs; simpa using hbs

/-! ### bits of a word list -/

theorem and_two_pow_bne_zero (x k : Nat) : (x &&& 2 ^ k != 0) = x.testBit k := by
  by_cases h : x.testBit k = true
  · rw [h]
    have : (x &&& 2 ^ k).testBit k = true := by
      rw [Nat.testBit_and, h, Nat.testBit_two_pow_self]; rfl
    have hne : x &&& 2 ^ k ≠ 0 := by
      intro h0; rw [h0] at this; simp at this
    simpa using hne
  · have hf : x.testBit k = false := by simpa using h
    rw [hf]
    have : x &&& 2 ^ k = 0 := by
      apply Nat.eq_of_testBit_eq
      intro i
      rw [Nat.testBit_and, Nat.testBit_two_pow, Nat.zero_testBit]
      by_cases hik : k = i
      · subst hik; simp [hf]
      · simp [hik]
    simp [this]

theorem bitAt_eq_testBit (ws : Words) (q : Nat) : bitAt ws q = (word ws (q / 64)).testBit (q % 64) := by
  have hk : q % 64 < 64 := Nat.mod_lt _ (by decide)
  have hs : shl64 1 (q % 64) = 2 ^ (q % 64) := by
    simp only [shl64, W, Nat.one_shiftLeft]
    exact Nat.mod_eq_of_lt (Nat.pow_lt_pow_right (by decide) hk)
  show (word ws (q / 64) &&& shl64 1 (q % 64) != 0) = _
  rw [hs, and_two_pow_bne_zero]

theorem bitsOf_getElem? : ∀ (x n k : Nat), k < n → (bitsOf x n)[k]? = some (x.testBit k)
  | _, 0, _, h => by omega
  | x, n + 1, 0, _ => by
    simp only [bitsOf, List.getElem?_cons_zero, Nat.testBit_zero]
    congr 1
  | x, n + 1, k + 1, h => by
    simp only [bitsOf, List.getElem?_cons_succ]
    rw [bitsOf_getElem? (x / 2) n k (by omega), Nat.testBit_succ]

theorem allBits_getElem? : ∀ (ws : Words) (q : Nat), q / 64 < ws.length →
    (allBits ws)[q]? = some ((word ws (q / 64)).testBit (q % 64))
  | [], q, h => by simp at h
  | w :: rest, q, h => by
    show (bitsOf w 64 ++ allBits rest)[q]? = _
    by_cases hq : q < 64
    · rw [List.getElem?_append_left (by rw [length_bitsOf]; exact hq), bitsOf_getElem? w 64 q hq]
      have h0 : q / 64 = 0 := Nat.div_eq_of_lt hq
      have h1 : q % 64 = q := Nat.mod_eq_of_lt hq
      simp [word, h0, h1]
    · have hq' : 64 ≤ q := by omega
      rw [List.getElem?_append_right (by rw [length_bitsOf]; exact hq'), length_bitsOf]
      have hd : (q - 64) / 64 = q / 64 - 1 := by omega
      have hm : (q - 64) % 64 = q % 64 := by omega
      have hlen : (q - 64) / 64 < rest.length := by simp at h; omega
      rw [allBits_getElem? rest (q - 64) hlen, hd, hm]
      have : q / 64 = (q / 64 - 1) + 1 := by omega
      simp only [word]
      rw [this]
      simp

/-! ### the range list of a port set -/

def finish (st : Scan) : List Range := if st.inRange then ⟨st.start, 65535⟩ :: st.acc else st.acc

theorem rangeSet_eq (ws : Words) (h : WF ws) :
    rangeSet ws = (finish (scanBits ⟨false, 0, []⟩ 0 (allBits ws))).reverse := by
  have := scanBlocks_eq ws 0 ⟨false, 0, []⟩ (by rw [h.1]; omega) h.2 (by intro hh; simp at hh)
  simp only [Nat.zero_mul] at this
  unfold rangeSet finish
  simp only [this]

theorem length_allBits : ∀ ws : Words, (allBits ws).length = 64 * ws.length
  | [] => rfl
  | w :: rest => by
    show (bitsOf w 64 ++ allBits rest).length = _
    rw [List.length_append, length_bitsOf, length_allBits rest]; simp; omega

/-- ascending, pairwise disjoint, non-empty ranges: what the binary search needs -/
def SortedRanges (rs : List Range) : Prop :=
  rs.Pairwise (fun a b => a.hi < b.lo) ∧ ∀ r ∈ rs, r.lo ≤ r.hi

theorem rangeSet_spec (ws : Words) (h : WF ws) :
    SortedRanges (rangeSet ws) ∧ (∀ r ∈ rangeSet ws, r.hi ≤ 65535) ∧
    ∀ q, q < 65536 → (covered (rangeSet ws) q ↔ bitAt ws q = true) := by
  have hinv0 : Inv ⟨false, 0, []⟩ 0 := ⟨by simp, by simp, by simp⟩
  obtain ⟨hi, hc⟩ := scanBits_spec (allBits ws) _ _ hinv0
  rw [length_allBits, h.1] at hi hc
  simp only [Nat.zero_add, Nat.reduceMul] at hi hc
  rw [rangeSet_eq ws h]
  generalize scanBits ⟨false, 0, []⟩ 0 (allBits ws) = st at hi hc
  obtain ⟨h1, h2, h3⟩ := hi
  have hfin : (finish st).Pairwise (fun a b => b.hi < a.lo) ∧ (∀ r ∈ finish st, r.lo ≤ r.hi ∧ r.hi ≤ 65535) := by
    unfold finish
    by_cases hr : st.inRange = true
    · simp only [hr, ↓reduceIte]
      constructor
      · rw [List.pairwise_cons]
        refine ⟨?_, h3⟩
        intro r hrm
        have := h2 r hrm
        simp only [bound, hr, ↓reduceIte] at this
        exact this.2
      · intro r hrm
        simp only [List.mem_cons] at hrm
        rcases hrm with rfl | hrm
        · have := h1 hr; simp; omega
        · have := h2 r hrm
          have := h1 hr
          simp only [bound, hr, ↓reduceIte] at *
          omega
    · simp only [hr, Bool.false_eq_true, ↓reduceIte]
      refine ⟨h3, ?_⟩
      intro r hrm
      have := h2 r hrm
      simp only [bound, hr, Bool.false_eq_true, ↓reduceIte] at this
      omega
  refine ⟨⟨?_, ?_⟩, ?_, ?_⟩
  · rw [List.pairwise_reverse]; exact hfin.1
  · intro r hrm; exact (hfin.2 r (List.mem_reverse.mp hrm)).1
  · intro r hrm; exact (hfin.2 r (List.mem_reverse.mp hrm)).2
  · intro q hq
    have hcov : covered (finish st).reverse q ↔ cov st 65536 q := by
      unfold covered cov finish
      by_cases hr : st.inRange = true
      · simp only [hr, ↓reduceIte, List.mem_reverse, List.mem_cons, true_and]
        constructor
        · rintro ⟨r, rfl | hrm, hq'⟩
          · right; simp at hq'; exact ⟨hq'.1, hq⟩
          · left; exact ⟨r, hrm, hq'⟩
        · rintro (⟨r, hrm, hq'⟩ | ⟨hq1, _⟩)
          · exact ⟨r, Or.inr hrm, hq'⟩
          · exact ⟨⟨st.start, 65535⟩, Or.inl rfl, by simp; omega⟩
      · simp [hr, covered]
    rw [hcov, hc q]
    have hbit : (allBits ws)[q - 0]? = some (bitAt ws q) := by
      rw [Nat.sub_zero, allBits_getElem? ws q (by rw [h.1]; omega), bitAt_eq_testBit]
    rw [hbit]
    simp [cov, covered]

/-! ### binary search -/

theorem bsearch_spec (rs : List Range) (p : Nat) (hs : SortedRanges rs) :
    ∀ fuel i j, i ≤ j → j ≤ rs.length → j - i < fuel →
      (∀ k (hk : k < rs.length), k < i → rs[k].hi < p) →
      (∀ k (hk : k < rs.length), j ≤ k → p < rs[k].lo) →
      (bsearch rs p fuel i j = true ↔ covered rs p)
  | 0, _, _, _, _, hf, _, _ => by omega
  | fuel + 1, i, j, hij, hj, hf, hlo, hhi => by
    obtain ⟨hpw, hne⟩ := hs
    rw [List.pairwise_iff_getElem] at hpw
    unfold bsearch
    by_cases hlt : i < j
    · simp only [hlt, ↓reduceIte]
      have hh : (i + j) / 2 < rs.length := by omega
      rw [List.getElem?_eq_getElem hh]
      simp only
      by_cases h1 : p > rs[(i + j) / 2].hi
      · simp only [h1, ↓reduceIte]
        apply bsearch_spec rs p ⟨List.pairwise_iff_getElem.mpr hpw, hne⟩ fuel _ _ (by omega) hj (by omega) _ hhi
        intro k hk hkl
        by_cases hkh : k = (i + j) / 2
        · subst hkh; omega
        · have := hpw k ((i + j) / 2) hk hh (by omega)
          have := hne _ (List.getElem_mem hh)
          omega
      · simp only [h1, ↓reduceIte]
        by_cases h2 : p < rs[(i + j) / 2].lo
        · simp only [h2, ↓reduceIte]
          apply bsearch_spec rs p ⟨List.pairwise_iff_getElem.mpr hpw, hne⟩ fuel _ _ (by omega) (by omega) (by omega) hlo
          intro k hk hkl
          by_cases hkh : k = (i + j) / 2
          · subst hkh; omega
          · have := hpw ((i + j) / 2) k hh hk (by omega)
            have := hne _ (List.getElem_mem hh)
            omega
        · simp only [h2, ↓reduceIte, true_iff]
          exact ⟨_, List.getElem_mem hh, by omega, by omega⟩
    · simp only [hlt, ↓reduceIte, Bool.false_eq_true, false_iff]
      rintro ⟨r, hrm, hq1, hq2⟩
      obtain ⟨k, hk, rfl⟩ := List.getElem_of_mem hrm
      by_cases hki : k < i
      · have := hlo k hk hki; omega
      · have := hhi k hk (by omega); omega

theorem rangesContain_spec (rs : List Range) (p : Nat) (hs : SortedRanges rs) :
    rangesContain rs p = true ↔ covered rs p := by
  unfold rangesContain
  apply bsearch_spec rs p hs _ 0 rs.length (by omega) (by omega) (by omega)
  · intro k _ hk; omega
  · intro k hk hk'; omega

end SSV.PortSet
