import SSV.Proofs.DomainSuffix
/-
`Keys()` of a well-formed trie: the trie matches exactly the declarative language of its keys, so writing the keys
out and inserting them again (text round trip, gob conversion of other builders) preserves the language.
-/
namespace SSV.DomainSet

mutual
  /-- well-formed trie: what a Go map guarantees (distinct keys per node) and what `Insert` guarantees (labels without dots) -/
  def Trie.WF : Trie → Prop
    | .leaf => True
    | .node cs => cs.WF
  def Children.WF : Children → Prop
    | .nil => True
    | .cons k t rest => dot ∉ k ∧ rest.lookup k = none ∧ t.WF ∧ rest.WF
end

/-- `Match` below a node reached by a label -/
def matchTrie : Trie → List Str → Bool
  | .leaf, _ => true
  | .node cs, d => matchLabels cs d

theorem matchLabels_cons' (cs : Children) (x : Str) (ds : List Str) :
    matchLabels cs (x :: ds) = match cs.lookup x with
      | none => false
      | some t => matchTrie t ds := by
  rw [matchLabels_cons]
  cases cs.lookup x with
  | none => rfl
  | some t => cases t <;> rfl

theorem prefix_nil_iff {α} (p : List α) : p <+: [] ↔ p = [] := List.prefix_nil

mutual
  theorem matchTrie_iff_paths : ∀ (t : Trie) (d : List Str), t.WF →
      (matchTrie t d = true ↔ ∃ p ∈ t.paths, p <+: d)
    | .leaf, d, _ => by simp [matchTrie, Trie.paths]
    | .node cs, d, h => by
      simp only [matchTrie, Trie.paths]
      exact matchLabels_iff_paths cs d h
  theorem matchLabels_iff_paths : ∀ (cs : Children) (d : List Str), cs.WF →
      (matchLabels cs d = true ↔ ∃ p ∈ cs.paths, p <+: d)
    | .nil, d, _ => by simp [matchLabels_nil_children, Children.paths]
    | .cons k t rest, d, h => by
      obtain ⟨_, hk, ht, hrest⟩ := h
      have ihr := matchLabels_iff_paths rest d hrest
      cases d with
      | nil =>
        have : matchLabels (.cons k t rest) [] = false := rfl
        rw [this]
        have hr0 : matchLabels rest [] = false := rfl
        rw [hr0] at ihr
        simp only [Bool.false_eq_true, false_iff, Children.paths, List.mem_append, List.mem_map] at ihr ⊢
        rintro ⟨p, (⟨q, _, rfl⟩ | hp), hpre⟩
        · simp at hpre
        · exact ihr ⟨p, hp, hpre⟩
      | cons x ds =>
        rw [matchLabels_cons']
        simp only [Children.lookup, Children.paths, List.mem_append, List.mem_map]
        by_cases hkx : k = x
        · subst hkx
          simp only [↓reduceIte]
          rw [matchTrie_iff_paths t ds ht]
          constructor
          · rintro ⟨p, hp, hpre⟩
            exact ⟨k :: p, Or.inl ⟨p, hp, rfl⟩, by simpa using hpre⟩
          · rintro ⟨p, (⟨q, hq, rfl⟩ | hp), hpre⟩
            · exact ⟨q, hq, by simpa using hpre⟩
            · exfalso
              have := ihr.mpr ⟨p, hp, hpre⟩
              rw [matchLabels_cons', hk] at this
              simp at this
        · simp only [hkx, ↓reduceIte]
          rw [matchLabels_cons'] at ihr
          rw [ihr]
          constructor
          · rintro ⟨p, hp, hpre⟩; exact ⟨p, Or.inr hp, hpre⟩
          · rintro ⟨p, (⟨q, _, rfl⟩ | hp), hpre⟩
            · exfalso
              rw [List.cons_prefix_cons] at hpre
              exact hkx hpre.1
            · exact ⟨p, hp, hpre⟩
end

/-! ### paths are non-empty lists of dot-free labels -/

mutual
  theorem Trie.paths_labels : ∀ (t : Trie), t.WF → ∀ p ∈ t.paths, ∀ l ∈ p, dot ∉ l
    | .leaf, _, p, hp, l, hl => by
      simp only [Trie.paths, List.mem_singleton] at hp
      subst hp; simp at hl
    | .node cs, h, p, hp, l, hl => (Children.paths_labels cs h p hp).2 l hl
  theorem Children.paths_labels : ∀ (cs : Children), cs.WF → ∀ p ∈ cs.paths, p ≠ [] ∧ ∀ l ∈ p, dot ∉ l
    | .nil, _, p, hp => by simp [Children.paths] at hp
    | .cons k t rest, h, p, hp => by
      obtain ⟨hk, _, ht, hrest⟩ := h
      simp only [Children.paths, List.mem_append, List.mem_map] at hp
      rcases hp with ⟨q, hq, rfl⟩ | hp
      · refine ⟨by simp, ?_⟩
        intro l hl
        simp only [List.mem_cons] at hl
        rcases hl with rfl | hl
        · exact hk
        · exact Trie.paths_labels t ht q hq l hl
      · exact Children.paths_labels rest hrest p hp
end

theorem splitOn_no_sep (c : UInt8) : ∀ (s : Str), c ∉ s → splitOn c s = [s]
  | [], _ => rfl
  | x :: xs, h => by
    have hx : x ≠ c := by intro h'; subst h'; simp at h
    have := splitOn_no_sep c xs (by intro h'; exact h (by simp [h']))
    simp [splitOn, hx, this]

theorem splitOn_joinWith (c : UInt8) : ∀ (ls : List Str), ls ≠ [] → (∀ l ∈ ls, c ∉ l) →
    splitOn c (joinWith c ls) = ls
  | [], h, _ => absurd rfl h
  | [a], _, h => by simp [joinWith, splitOn_no_sep c a (h a (by simp))]
  | a :: b :: rest, _, h => by
    rw [joinWith_cons_cons, splitOn_append_sep, splitOn_no_sep c a (h a (by simp)),
      splitOn_joinWith c (b :: rest) (by simp) (fun l hl => h l (by simp [hl]))]
    rfl

theorem mem_splitOn_no_sep (c : UInt8) : ∀ (s : Str), ∀ l ∈ splitOn c s, c ∉ l
  | [], l, hl => by simp [splitOn] at hl; subst hl; simp
  | x :: xs, l, hl => by
    by_cases hx : x = c
    · subst hx
      simp only [splitOn, ↓reduceIte, List.mem_cons] at hl
      rcases hl with rfl | hl
      · simp
      · exact mem_splitOn_no_sep x xs l hl
    · obtain ⟨hd, tl, h1, h2⟩ := splitOn_cons_ne c x xs hx
      rw [h2] at hl
      simp only [List.mem_cons] at hl
      have ih := mem_splitOn_no_sep c xs
      rw [h1] at ih
      rcases hl with rfl | hl
      · intro hm
        simp only [List.mem_cons] at hm
        rcases hm with hm | hm
        · exact hx hm.symm
        · exact ih hd (by simp) hm
      · exact ih l (by simp [hl])

theorem labelsRev_pathToStr (p : List Str) (hne : p ≠ []) (hl : ∀ l ∈ p, dot ∉ l) :
    labelsRev (pathToStr p) = p := by
  unfold labelsRev pathToStr
  rw [splitOn_joinWith dot p.reverse (by simpa using hne) (fun l h => hl l (List.mem_reverse.mp h)),
    List.reverse_reverse]

theorem pathToStr_labelsRev (r : Str) : pathToStr (labelsRev r) = r := by
  unfold labelsRev pathToStr
  rw [List.reverse_reverse, joinWith_splitOn]

/-- a well-formed trie matches exactly the declarative language of its `Keys()` -/
theorem trieMatch_iff_keys (root : Children) (h : root.WF) (d : Str) :
    trieMatch root d = true ↔ SuffixSpec (trieKeys root) d := by
  unfold trieMatch SuffixSpec trieKeys
  rw [matchLabels_iff_paths root _ h]
  simp only [List.mem_map]
  constructor
  · rintro ⟨p, hp, hpre⟩
    obtain ⟨hne, hl⟩ := Children.paths_labels root h p hp
    refine ⟨pathToStr p, ⟨p, hp, rfl⟩, ?_⟩
    rw [← labelsRev_prefix_iff, labelsRev_pathToStr p hne hl, List.isPrefixOf_iff_prefix]
    exact hpre
  · rintro ⟨r, ⟨p, hp, rfl⟩, hs⟩
    obtain ⟨hne, hl⟩ := Children.paths_labels root h p hp
    rw [← labelsRev_prefix_iff, labelsRev_pathToStr p hne hl, List.isPrefixOf_iff_prefix] at hs
    exact ⟨p, hp, hs⟩

/-- writing the keys out and inserting them again (in any order) gives a trie with the same language -/
theorem trie_rebuild (root : Children) (h : root.WF) (d : Str) :
    trieMatch (trieFromList (trieKeys root)) d = trieMatch root d := by
  rw [Bool.eq_iff_iff, trieFromList_iff, trieMatch_iff_keys root h]

/-! ### `Insert` keeps the trie well-formed -/

theorem lookup_WF : ∀ (cs : Children) (s : Str) (t : Trie), cs.WF → cs.lookup s = some t → t.WF
  | .nil, _, _, _, h => by simp [Children.lookup] at h
  | .cons k u rest, s, t, hw, h => by
    obtain ⟨_, _, hu, hrest⟩ := hw
    unfold Children.lookup at h
    by_cases hk : k = s
    · simp only [hk, ↓reduceIte, Option.some.injEq] at h
      subst h; exact hu
    · simp only [hk, ↓reduceIte] at h
      exact lookup_WF rest s t hrest h

theorem set_WF : ∀ (cs : Children) (s : Str) (t : Trie), cs.WF → dot ∉ s → t.WF → (cs.set s t).WF
  | .nil, s, t, _, hs, ht => by
    simp only [Children.set, Children.WF]
    exact ⟨hs, rfl, ht, trivial⟩
  | .cons k u rest, s, t, hw, hs, ht => by
    obtain ⟨hk, hlk, hu, hrest⟩ := hw
    unfold Children.set
    by_cases hks : k = s
    · simp only [hks, ↓reduceIte, Children.WF]
      subst hks
      exact ⟨hk, hlk, ht, hrest⟩
    · simp only [hks, ↓reduceIte, Children.WF]
      refine ⟨hk, ?_, hu, set_WF rest s t hrest hs ht⟩
      rw [lookup_set]
      have : ¬ s = k := fun h => hks h.symm
      simp [this, hlk]

theorem insertLabels_WF : ∀ (r : List Str) (cs : Children), cs.WF → (∀ l ∈ r, dot ∉ l) → (insertLabels cs r).WF
  | [], cs, h, _ => by simpa [insertLabels] using h
  | [l], cs, h, hl => by
    rw [insertLabels]
    exact set_WF cs l .leaf h (hl l (by simp)) trivial
  | l :: l' :: rest, cs, h, hl => by
    have ih := fun cs' hw => insertLabels_WF (l' :: rest) cs' hw (fun x hx => hl x (by simp [hx]))
    rw [insertLabels]
    rotate_left
    · simp
    cases hlk : cs.lookup l with
    | none =>
      simp only
      exact set_WF cs l _ h (hl l (by simp)) (ih .nil trivial)
    | some t =>
      cases t with
      | leaf => simpa using h
      | node cs1 =>
        simp only
        have hw1 : cs1.WF := lookup_WF cs l (.node cs1) h hlk
        exact set_WF cs l _ h (hl l (by simp)) (ih cs1 hw1)

theorem trieInsert_WF (root : Children) (r : Str) (h : root.WF) : (trieInsert root r).WF := by
  unfold trieInsert labelsRev
  apply insertLabels_WF _ _ h
  intro l hl
  exact mem_splitOn_no_sep dot r l (List.mem_reverse.mp hl)

theorem trieFoldl_WF (rs : List Str) : ∀ (root : Children), root.WF → (rs.foldl trieInsert root).WF := by
  induction rs with
  | nil => intro root h; exact h
  | cons r rs ih => intro root h; exact ih _ (trieInsert_WF root r h)

theorem trieFromList_WF (rs : List Str) : (trieFromList rs).WF := trieFoldl_WF rs .nil trivial

end SSV.DomainSet
