import SSV.Model.Packet
/-
Helper lemmas for C05: byte-window algebra (`sub`/`splice`), the SOCKS address codec round trip,
the toy cryptography's laws.
-/
namespace SSV.Packet
open SSV SSV.Gen.C05

/-! ## `sub` / `splice` -/

theorem sub_length (b : Bytes) (lo n : Nat) (h : lo + n ≤ b.length) : (sub b lo n).length = n := by
  unfold sub; simp; omega

theorem splice_length (b : Bytes) (lo : Nat) (d : Bytes) (h : lo + d.length ≤ b.length) :
    (splice b lo d).length = b.length := by
  unfold splice; simp; omega

/-- frame, front part: nothing before the spliced window changes -/
theorem splice_take (b : Bytes) (lo : Nat) (d : Bytes) (h : lo + d.length ≤ b.length) :
    (splice b lo d).take lo = b.take lo := by
  unfold splice
  have h1 : (b.take lo).length = lo := by simp; omega
  simp [h1]

/-- frame, rear part: nothing behind the spliced window changes -/
theorem splice_drop (b : Bytes) (lo : Nat) (d : Bytes) (h : lo + d.length ≤ b.length) :
    (splice b lo d).drop (lo + d.length) = b.drop (lo + d.length) := by
  unfold splice
  have h1 : (b.take lo).length = lo := by simp; omega
  simp [List.drop_append, h1]

theorem sub_splice (b : Bytes) (lo : Nat) (d : Bytes) (h : lo + d.length ≤ b.length) :
    sub (splice b lo d) lo d.length = d := by
  unfold sub splice
  have h1 : (b.take lo).length = lo := by simp; omega
  simp [h1]

theorem sub_splice_inner (b : Bytes) (lo : Nat) (d : Bytes) (off n : Nat) (h : lo + d.length ≤ b.length)
    (hin : off + n ≤ d.length) : sub (splice b lo d) (lo + off) n = sub d off n := by
  unfold sub splice
  have h1 : (b.take lo).length = lo := by simp; omega
  rw [List.append_assoc, List.drop_append, h1]
  have h2 : List.drop (lo + off) (List.take lo b) = [] := by
    apply List.drop_eq_nil_of_le; omega
  rw [h2, List.nil_append, Nat.add_sub_cancel_left, List.drop_append]
  rw [List.take_append]
  have h3 : n - (List.drop off d).length = 0 := by simp; omega
  rw [h3]; simp

/-- a window behind the spliced data is read from the old buffer -/
theorem sub_splice_after (b : Bytes) (lo : Nat) (d : Bytes) (off n : Nat) (h : lo + d.length ≤ b.length)
    (hoff : lo + d.length ≤ off) : sub (splice b lo d) off n = sub b off n := by
  unfold sub
  obtain ⟨k, rfl⟩ : ∃ k, off = (lo + d.length) + k := ⟨off - (lo + d.length), by omega⟩
  rw [← List.drop_drop, splice_drop b lo d h, List.drop_drop]

theorem sub_cons_succ (x : UInt8) (l : Bytes) (n m : Nat) : sub (x :: l) (n+1) m = sub l n m := by simp [sub]
theorem sub_left (a r : Bytes) (m : Nat) (h : a.length = m) : sub (a ++ r) 0 m = a := by subst h; simp [sub]
theorem sub_right (a r : Bytes) (n m k : Nat) (h : a.length + k = n) : sub (a ++ r) n m = sub r k m := by
  subst h; simp [sub]

theorem unbe_be16 (n : Nat) (h : n < 65536) : unbe (be16 n) = n := by
  unfold unbe be16
  simp
  omega

theorem be16_length (n : Nat) : (be16 n).length = 2 := rfl

theorem as4_length (ip : IP) (h : ip.wf) : ip.as4.length = 4 := by
  cases ip with
  | v4 a => simpa [IP.as4, IP.wf] using h
  | v6 a => simp [IP.wf] at h; simp [IP.as4, h]

/-- decoding what `WriteAddrFromAddrPort` wrote (followed by anything) -/
theorem decode_v4 (t4 : Bytes) (port : Nat) (rest : Bytes) (h4 : t4.length = 4) (hport : port < 65536) :
    decodeAddrPort (UInt8.ofNat AtypIPv4 :: (t4 ++ (be16 port ++ rest))) = .ok (⟨.v4 t4, port⟩, 7) := by
  have e1 : sub (UInt8.ofNat AtypIPv4 :: (t4 ++ (be16 port ++ rest))) 1 4 = t4 := by
    rw [sub_cons_succ, sub_left _ _ _ h4]
  have e2 : sub (UInt8.ofNat AtypIPv4 :: (t4 ++ (be16 port ++ rest))) 5 2 = be16 port := by
    rw [sub_cons_succ, sub_right t4 _ 4 2 0 (by omega), sub_left (be16 port) rest 2 rfl]
  simp only [decodeAddrPort, e1, e2, unbe_be16 _ hport, List.length_cons, List.length_append, h4, be16_length]
  rw [if_neg (by omega), if_pos (by decide)]

theorem decode_v6 (t16 : Bytes) (port : Nat) (rest : Bytes) (h16 : t16.length = 16) (hport : port < 65536) :
    decodeAddrPort (UInt8.ofNat AtypIPv6 :: (t16 ++ (be16 port ++ rest))) = .ok (⟨.v6 t16, port⟩, 19) := by
  have e1 : sub (UInt8.ofNat AtypIPv6 :: (t16 ++ (be16 port ++ rest))) 1 16 = t16 := by
    rw [sub_cons_succ, sub_left _ _ _ h16]
  have e2 : sub (UInt8.ofNat AtypIPv6 :: (t16 ++ (be16 port ++ rest))) 17 2 = be16 port := by
    rw [sub_cons_succ, sub_right t16 _ 16 2 0 (by omega), sub_left (be16 port) rest 2 rfl]
  simp only [decodeAddrPort, e1, e2, unbe_be16 _ hport, List.length_cons, List.length_append, h16, be16_length]
  rw [if_neg (by omega), if_neg (by decide), if_pos (by decide), if_neg (by omega)]

theorem decode_encodeAddrPort (ap : AddrPort) (rest : Bytes) (h : ap.wf) :
    decodeAddrPort (encodeAddrPort ap ++ rest) = .ok (ap.norm, (addrPortLen ap).toNat) := by
  obtain ⟨hip, hport⟩ := h
  unfold encodeAddrPort addrPortLen AddrPort.norm IP.norm
  cases hv : ap.ip.v4family
  · cases hi : ap.ip with
    | v4 a => simp [hi, IP.v4family] at hv
    | v6 a =>
      simp [hi, IP.wf] at hip
      simp only [Bool.false_eq_true, if_false, IP.as16, List.cons_append, List.append_assoc]
      rw [decode_v6 a ap.port rest hip hport]; rfl
  · simp only [if_true, List.cons_append, List.append_assoc]
    rw [decode_v4 ap.ip.as4 ap.port rest (as4_length _ hip) hport]; rfl

theorem encodeAddrPort_length (ap : AddrPort) (h : ap.wf) : ((encodeAddrPort ap).length : Int) = addrPortLen ap := by
  obtain ⟨hip, _⟩ := h
  unfold encodeAddrPort addrPortLen
  cases hv : ap.ip.v4family
  · cases hi : ap.ip with
    | v4 a => simp [hi, IP.v4family] at hv
    | v6 a => simp [hi, IP.wf] at hip; simp [IP.as16, be16_length, hip, addrLenV6]
  · simp [as4_length _ hip, be16_length, addrLenV4]

theorem decodeAddr_v4 (t4 : Bytes) (port : Nat) (rest : Bytes) (h4 : t4.length = 4) (hport : port < 65536) :
    decodeAddr (UInt8.ofNat AtypIPv4 :: (t4 ++ (be16 port ++ rest))) = .ok (.ip ⟨.v4 t4, port⟩, 7) := by
  have e1 : sub (UInt8.ofNat AtypIPv4 :: (t4 ++ (be16 port ++ rest))) 1 4 = t4 := by
    rw [sub_cons_succ, sub_left _ _ _ h4]
  have e2 : sub (UInt8.ofNat AtypIPv4 :: (t4 ++ (be16 port ++ rest))) 5 2 = be16 port := by
    rw [sub_cons_succ, sub_right t4 _ 4 2 0 (by omega), sub_left (be16 port) rest 2 rfl]
  simp only [decodeAddr, e1, e2, unbe_be16 _ hport, List.length_cons, List.length_append, h4, be16_length]
  rw [if_neg (by omega), if_neg (by decide), if_pos (by decide), if_neg (by omega)]

theorem decodeAddr_v6 (t16 : Bytes) (port : Nat) (rest : Bytes) (h16 : t16.length = 16) (hport : port < 65536) :
    decodeAddr (UInt8.ofNat AtypIPv6 :: (t16 ++ (be16 port ++ rest))) = .ok (.ip ⟨.v6 t16, port⟩, 19) := by
  have e1 : sub (UInt8.ofNat AtypIPv6 :: (t16 ++ (be16 port ++ rest))) 1 16 = t16 := by
    rw [sub_cons_succ, sub_left _ _ _ h16]
  have e2 : sub (UInt8.ofNat AtypIPv6 :: (t16 ++ (be16 port ++ rest))) 17 2 = be16 port := by
    rw [sub_cons_succ, sub_right t16 _ 16 2 0 (by omega), sub_left (be16 port) rest 2 rfl]
  simp only [decodeAddr, e1, e2, unbe_be16 _ hport, List.length_cons, List.length_append, h16, be16_length]
  rw [if_neg (by omega), if_neg (by decide), if_neg (by decide), if_pos (by decide), if_neg (by omega)]

theorem decodeAddr_dom (name : Bytes) (port : Nat) (rest : Bytes) (h1 : 1 ≤ name.length) (h2 : name.length ≤ 255)
    (hport : port < 65536) :
    decodeAddr (UInt8.ofNat AtypDomainName :: UInt8.ofNat name.length :: (name ++ (be16 port ++ rest)))
      = .ok (.dom name port, 2 + name.length + 2) := by
  have hl : (UInt8.ofNat name.length).toNat = name.length := by
    rw [UInt8.toNat_ofNat']; omega
  have e1 : sub (UInt8.ofNat AtypDomainName :: UInt8.ofNat name.length :: (name ++ (be16 port ++ rest))) 2 name.length = name := by
    rw [sub_cons_succ, sub_cons_succ, sub_left _ _ _ rfl]
  have e2 : sub (UInt8.ofNat AtypDomainName :: UInt8.ofNat name.length :: (name ++ (be16 port ++ rest))) (2 + name.length) 2 = be16 port := by
    rw [show 2 + name.length = (name.length + 1) + 1 by omega, sub_cons_succ, sub_cons_succ,
      sub_right name _ name.length 2 0 (by omega), sub_left (be16 port) rest 2 rfl]
  simp only [decodeAddr, hl, e1, e2, unbe_be16 _ hport, List.length_cons, List.length_append, be16_length]
  rw [if_neg (by omega), if_pos (by decide), if_neg (by omega), if_neg (by omega)]

theorem decode_encodeAddr (a : Addr) (rest : Bytes) (h : a.wf) :
    decodeAddr (encodeAddr a ++ rest) = .ok (a.norm, (addrLen a).toNat) := by
  cases a with
  | zero =>
    have := decodeAddr_v4 [0, 0, 0, 0] 0 rest rfl (by omega)
    simpa [encodeAddr, encodeAddrPort, IP.v4family, IP.as4, Addr.norm, addrLen, addrLenZero] using this
  | ip ap =>
    obtain ⟨hip, hport⟩ := h
    simp only [encodeAddr, encodeAddrPort, Addr.norm, AddrPort.norm, IP.norm, addrLen, addrPortLen]
    cases hv : ap.ip.v4family
    · cases hi : ap.ip with
      | v4 a => simp [hi, IP.v4family] at hv
      | v6 a =>
        simp [hi, IP.wf] at hip
        simp only [Bool.false_eq_true, if_false, IP.as16, List.cons_append, List.append_assoc]
        rw [decodeAddr_v6 a ap.port rest hip hport]; rfl
    · simp only [if_true, List.cons_append, List.append_assoc]
      rw [decodeAddr_v4 ap.ip.as4 ap.port rest (as4_length _ hip) hport]; rfl
  | dom name port =>
    obtain ⟨h1, h2, hport⟩ := h
    simp only [encodeAddr, Addr.norm, addrLen, addrLenDomain, List.cons_append, List.append_assoc]
    rw [decodeAddr_dom name port rest h1 h2 hport]
    congr 2

theorem encodeAddr_length (a : Addr) (h : a.wf) : ((encodeAddr a).length : Int) = addrLen a := by
  cases a with
  | zero => simp [encodeAddr, encodeAddrPort, IP.v4family, IP.as4, addrLen, addrLenZero, be16_length]
  | ip ap => exact encodeAddrPort_length ap h
  | dom name port => simp [encodeAddr, addrLen, addrLenDomain, be16_length]; omega

/-! ## the toy cryptography is an instance of the laws -/

theorem toyTag_length (k n p : Bytes) : (toyTag k n p).length = 16 := by
  simp [toyTag, u64bytes]

/-- the driver's toy cryptography satisfies the laws the theorems assume (the hypothesis `Crypto.Laws` is satisfiable) -/
theorem toyCrypto_laws : toyCrypto.Laws where
  seal_len k n p := by simp [toyCrypto, toyTag_length]
  open_seal k n p := by
    simp only [toyCrypto, List.length_append, toyTag_length]
    rw [if_neg (by omega)]
    have e : p.length + 16 - 16 = p.length := by omega
    simp [e]
  open_len k n ct p h := by
    simp only [toyCrypto] at h
    split at h
    · cases h
    · next hl =>
      split at h
      · simp only [Option.some.injEq] at h
        subst h
        simp; omega
      · cases h
  enc_len k x := by simp [toyCrypto]
  dec_len k x := by simp [toyCrypto]
  dec_enc k x := by
    simp only [toyCrypto, List.map_map]
    have : ((fun b : UInt8 => b - toyKeyByte k) ∘ (fun b : UInt8 => b + toyKeyByte k)) = id := by
      funext b; simp [UInt8.add_sub_cancel]
    rw [this]; simp


end SSV.Packet
