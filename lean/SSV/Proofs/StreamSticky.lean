import SSV.Proofs.StreamAuth
import SSV.Proofs.StreamStickyBase
/-
Schedules that CONTINUE after errors (a caller that calls Read / WriteTo / the tunnel copy again
after a failed read), on the conn with its sticky read error (`SReader`, `readErr`).
Depends on the regenerated fact `readErrorsSticky`.
-/
namespace SSV.Stream
open SSV.Gen.C01

theorem sticky_fact : readErrorsSticky = true := by decide

theorem failedOut_bytes (op : ROp) (e : Err) : (failedOut op e).bytes = [] := by
  cases op <;> rfl

/-- once the sticky error is set, every later call fails with it and hands over nothing -/
theorem failed_run (C : Crypto) (r : Reader) (e : Err) (later : List Bytes) (ops : List ROp) :
    SReader.run C ⟨r, some e, later⟩ ops = ops.map (fun op => failedOut op e) := by
  induction ops with
  | nil => rfl
  | cons op ops ih =>
    simp only [SReader.run, SReader.step, sticky_fact, ↓reduceIte, List.map_cons]
    rw [ih]

theorem failed_run_bytes (C : Crypto) (r : Reader) (e : Err) (later : List Bytes) (ops : List ROp) :
    ((SReader.run C ⟨r, some e, later⟩ ops).map ROut.bytes).flatten = [] := by
  rw [failed_run]
  induction ops with
  | nil => rfl
  | cons op ops ih => simp [failedOut_bytes, ih]

/-- a continuing schedule hands over exactly the bytes of the schedule cut at the first error -/
theorem srun_bytes (C : Crypto) (ops : List ROp) : ∀ r : Reader,
    ((SReader.run C ⟨r, none, []⟩ ops).map ROut.bytes).flatten = ((Reader.run C r ops).map ROut.bytes).flatten := by
  induction ops with
  | nil => intro r; rfl
  | cons op ops ih =>
    intro r
    simp only [SReader.run, SReader.step, sticky_fact, ↓reduceIte, List.map_cons, List.flatten_cons]
    cases herr : (r.step C op).1.err with
    | none =>
      have hh : (r.step C op).1.hardErr = none := (hardErr_none_iff _).mpr (Or.inl herr)
      simp only [Reader.run, herr, hh, List.map_cons, List.flatten_cons]
      rw [ih]
    | some e =>
      by_cases he : e = .eof
      · subst he
        have hh : (r.step C op).1.hardErr = none := (hardErr_none_iff _).mpr (Or.inr herr)
        simp only [Reader.run, herr, hh, List.map_cons, List.flatten_cons]
        rw [ih]
      · have hh : (r.step C op).1.hardErr = some e := by
          unfold ROut.hardErr; rw [herr]; cases e <;> simp_all
        have hrun : Reader.run C r (op :: ops) = [(r.step C op).1] := by
          simp only [Reader.run, herr]
        rw [hrun, hh, failed_run_bytes]
        simp

/-- a client conn whose sticky error is set fails every later call without touching anything -/
theorem client_failed (C : Crypto) (c : CReader) (e : Err) (he : c.err = some e) (now : Int) :
    (∀ n, c.readS C now n = (.fail e, c)) ∧ c.writeToS C now = (.copied [] (some e), c) ∧
    (∀ st, c.tunnelS C now st = (.copied [] (some e), c)) := by
  refine ⟨fun n => ?_, ?_, fun st => ?_⟩ <;>
    simp [CReader.readS, CReader.writeToS, CReader.tunnelS, CReader.stepT, sticky_fact, he, failedOut]

end SSV.Stream

namespace SSV.Stream
open SSV.Gen.C01

theorem sstep_err_of_none (C : Crypto) (r : Reader) (op : ROp) :
    (SReader.step C { r := r } op).2.err = (SReader.step C { r := r } op).1.hardErr ∧
    (SReader.step C { r := r } op).1 = (r.step C op).1 := by
  simp [SReader.step, sticky_fact]

theorem prepend_hardErr (p : Bytes) (o : ROut) (h : ∃ ps e, o = .copied ps e) : (o.prepend p).hardErr = o.hardErr := by
  obtain ⟨ps, e, rfl⟩ := h; rfl

theorem initRead_err (C : Crypto) (c : CReader) (now : Int) : (initRead C c now).2.err = c.err := by
  unfold initRead
  simp only []
  repeat' split
  all_goals rfl

theorem firstPayload_err (C : Crypto) (c : CReader) (len : Nat) : (firstPayload C c len).2.err = c.err := by
  unfold firstPayload
  repeat' split
  all_goals rfl

theorem cread_err (C : Crypto) (c : CReader) (now : Int) (n : Nat) (hr : c.r = none) : (c.read C now n).2.err = c.err := by
  unfold CReader.read
  rw [hr]
  simp only []
  have h1 := initRead_err C c now
  cases hi : initRead C c now with
  | mk x c1 =>
    rw [hi] at h1
    cases x with
    | error e => exact h1
    | ok len =>
      simp only []
      have h2 := firstPayload_err C c1 len
      cases hp : firstPayload C c1 len with
      | mk y c2 =>
        rw [hp] at h2
        cases y with
        | error e => simp only []; rw [h2, h1]
        | ok p =>
          simp only []
          split
          · simp only []; rw [h2, h1]
          · simp only []; rw [h2, h1]

/-- the first call of a client conn (no reader yet, no read deadlines scripted) that fails with an error
other than end of stream: either the failure is recorded — it consumed bytes of the response, or the
read cipher already existed (prefix mismatch, segmented or truncated header, authentication, header
checks, first payload chunk) — and the conn is failed for good (`client_failed`); or nothing of the
response was consumed and the conn has neither a reader nor an error: the next call is a first call
again, on the same bytes. -/
theorem client_first_failure (C : Crypto) (c : CReader) (now : Int) (n : Nat) (e : Err)
    (hr : c.r = none) (he : c.err = none) (ht : c.touts = [])
    (hh : (c.readS C now n).1.hardErr = some e) :
    (c.readS C now n).2.err = some e ∨
    ((c.readS C now n).2.r = none ∧ (c.readS C now n).2.err = none ∧
      ¬ ((c.readS C now n).2.segs.flatten.length < c.segs.flatten.length)) := by
  have hf1 : readErrorsSticky = true := by decide
  have hf2 : boundaryTimeoutRetryable = true := by decide
  have herr := cread_err C c now n hr
  unfold CReader.readS CReader.stepT at hh ⊢
  simp only [hf1, hf2, he, hr, ht, ↓reduceIte, Bool.true_and] at hh ⊢
  cases hrd : c.read C now n with
  | mk o c' =>
    rw [hrd] at herr
    simp only [hrd] at hh ⊢
    cases hcr : c'.r with
    | some r' =>
      left
      simp only [hcr] at hh ⊢
      simpa using hh
    | none =>
      simp only [hcr, Option.isSome_none, Bool.false_or, decide_eq_true_eq] at hh ⊢
      by_cases hcons : c'.segs.flatten.length < c.segs.flatten.length
      · left; rw [if_pos hcons]; exact hh
      · right; rw [if_neg hcons]; exact ⟨hcr, by rw [herr, he], hcons⟩

end SSV.Stream
