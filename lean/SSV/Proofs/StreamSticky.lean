import SSV.Proofs.StreamAuth
import SSV.Proofs.StreamStickyBase
/-
Schedules that CONTINUE after errors (a caller that calls Read / WriteTo / the tunnel copy again
after a failed read), on the conn with its sticky read error (`SReader`, `readErr`).
Depends on the regenerated fact `readErrorsSticky`.
-/
namespace SSV.Stream
open SSV.Gen.C01

theorem sticky_fact : readErrorsSticky = true := by decide

theorem failedOut_bytes (op : ROp) (e : Err) : (failedOut op e).bytes = [] := by
  cases op <;> rfl

/-- once the sticky error is set, every later call fails with it and hands over nothing -/
theorem failed_run (C : Crypto) (r : Reader) (e : Err) (later : List Bytes) (ops : List ROp) :
    SReader.run C ⟨r, some e, later⟩ ops = ops.map (fun op => failedOut op e) := by
  induction ops with
  | nil => rfl
  | cons op ops ih =>
    simp only [SReader.run, SReader.step, sticky_fact, ↓reduceIte, List.map_cons]
    rw [ih]

theorem failed_run_bytes (C : Crypto) (r : Reader) (e : Err) (later : List Bytes) (ops : List ROp) :
    ((SReader.run C ⟨r, some e, later⟩ ops).map ROut.bytes).flatten = [] := by
  rw [failed_run]
  induction ops with
  | nil => rfl
  | cons op ops ih => simp [failedOut_bytes, ih]

/-- a continuing schedule hands over exactly the bytes of the schedule cut at the first error -/
theorem srun_bytes (C : Crypto) (ops : List ROp) : ∀ r : Reader,
    ((SReader.run C ⟨r, none, []⟩ ops).map ROut.bytes).flatten = ((Reader.run C r ops).map ROut.bytes).flatten := by
  induction ops with
  | nil => intro r; rfl
  | cons op ops ih =>
    intro r
    simp only [SReader.run, SReader.step, sticky_fact, ↓reduceIte, List.map_cons, List.flatten_cons]
    cases herr : (r.step C op).1.err with
    | none =>
      have hh : (r.step C op).1.hardErr = none := (hardErr_none_iff _).mpr (Or.inl herr)
      simp only [Reader.run, herr, hh, List.map_cons, List.flatten_cons]
      rw [ih]
    | some e =>
      by_cases he : e = .eof
      · subst he
        have hh : (r.step C op).1.hardErr = none := (hardErr_none_iff _).mpr (Or.inr herr)
        simp only [Reader.run, herr, hh, List.map_cons, List.flatten_cons]
        rw [ih]
      · have hh : (r.step C op).1.hardErr = some e := by
          unfold ROut.hardErr; rw [herr]; cases e <;> simp_all
        have hrun : Reader.run C r (op :: ops) = [(r.step C op).1] := by
          simp only [Reader.run, herr]
        rw [hrun, hh, failed_run_bytes]
        simp

/-- a client conn whose sticky error is set fails every later call without touching anything -/
theorem client_failed (C : Crypto) (c : CReader) (e : Err) (he : c.err = some e) (now : Int) :
    (∀ n, c.readS C now n = (.fail e, c)) ∧ c.writeToS C now = (.copied [] (some e), c) ∧
    (∀ st, c.tunnelS C now st = (.copied [] (some e), c)) := by
  refine ⟨fun n => ?_, ?_, fun st => ?_⟩ <;>
    simp [CReader.readS, CReader.writeToS, CReader.tunnelS, CReader.stepT, sticky_fact, he, failedOut]

end SSV.Stream
