import SSV.Proofs.RelayFateStep
/-
Progress: a potential that every enabled uplink turn of a session strictly increases and no step of any
thread decreases; hence, under fairness, everything pending in a started session's queue gets a fate.
-/
namespace SSV.Relay

variable {cfg : Config}

/-- steps done for the packet inside `PackInPlace` -/
def prog : UpPc → Nat
  | .idle => 0
  | .resolving _ _ => 1
  | .storedDomain _ _ => 2
  | .storedIP _ => 3

def progOf (o : Option Sess) : Nat := match o with | some s => prog s.pc | none => 0

/-- potential of session `sid`: 4 × (packets that have a fate) + progress on the packet in flight -/
def psi (st : State) (sid : Nat) : Nat := 4 * (fateOf st sid).length + progOf (st.sess sid)

/-- uplink turns needed to give a fate to everything pending now -/
def work (s : Sess) : Nat := 4 * s.queue.length + (match s.pc with | .idle => 0 | p => 4 - prog p)

/-- `a` is a step of the uplink goroutine of `sid` (or of the resolver on its behalf) whose guard holds in `st` -/
def enabledUpB (st : State) (sid : Nat) : Act → Bool
  | .take i => i == sid && (match st.sess i with
      | some s => s.started && s.pc == .idle && !s.queue.isEmpty | none => false)
  | .packErr i => i == sid && (match st.sess i with
      | some s => s.started && s.pc == .idle && !s.queue.isEmpty | none => false)
  | .resolved i _ => i == sid && (match st.sess i with
      | some s => (match s.pc with | .resolving _ _ => true | _ => false) | none => false)
  | .storeIP i => i == sid && (match st.sess i with
      | some s => (match s.pc with | .storedDomain _ _ => true | _ => false) | none => false)
  | .readSend i => i == sid && (match st.sess i with
      | some s => (match s.pc with | .storedIP _ => true | _ => false) | none => false)
  | _ => false

/-- number of enabled uplink turns of `sid` along a run -/
def upTurns (cfg : Config) (sid : Nat) : State → List Act → Nat
  | _, [] => 0
  | st, a :: rest => (if enabledUpB st sid a then 1 else 0) + upTurns cfg sid (step cfg st a) rest

theorem frameP {st st' : State} (sid0 : Nat) (s' : Sess) (fAdd : List (Pkt × Fate)) (δ : Nat)
    (hsess : st'.sess = updF st.sess sid0 (some s'))
    (hfate : st'.fate = st.fate ++ fAdd.map (fun x => (sid0, x.1, x.2)))
    (hge : progOf (st.sess sid0) + δ ≤ 4 * fAdd.length + prog s'.pc) :
    ∀ sid, psi st sid + (if sid = sid0 then δ else 0) ≤ psi st' sid := by
  intro sid
  by_cases he : sid = sid0
  · subst he
    have hf : fateOf st' sid = fateOf st sid ++ fAdd.map (·.1) := by
      simp only [fateOf, hfate, List.filterMap_append, filterMap_ftag_same]
    simp only [psi, hf, hsess, updF_same, List.length_append, List.length_map, progOf, if_true] at hge ⊢
    omega
  · have hf : fateOf st' sid = fateOf st sid := by
      simp only [fateOf, hfate, List.filterMap_append, filterMap_ftag_other sid0 sid (Ne.symm he), List.append_nil]
    simp only [psi, hf, hsess, updF_other _ _ _ _ he, he, if_false]
    omega

theorem psi_same {st st' : State} (hsess : st'.sess = st.sess) (hfate : st'.fate = st.fate) (sid : Nat) :
    psi st' sid = psi st sid := by
  simp [psi, fateOf, hsess, hfate]

def actSid : Act → Option Nat
  | .take i => some i
  | .packErr i => some i
  | .resolved i _ => some i
  | .storeIP i => some i
  | .readSend i => some i
  | _ => none

theorem turn_le (st : State) (sid : Nat) (a : Act) (i : Nat) (h : actSid a = some i) :
    (if enabledUpB st sid a then 1 else 0) ≤ (if sid = i then 1 else 0) := by
  by_cases he : sid = i
  · simp only [he, if_true]; split <;> omega
  · have hne : (i == sid) = false := by simp; exact fun h => he h.symm
    cases a <;> simp [actSid] at h <;> subst h <;> simp [enabledUpB, hne, he]

/-- the conclusion of `frameP`, phrased with the turn indicator -/
theorem psi_of_frame {st st' : State} {a : Act} {sid0 : Nat} (hact : actSid a = some sid0)
    (h : ∀ sid, psi st sid + (if sid = sid0 then 1 else 0) ≤ psi st' sid) (sid : Nat) :
    psi st sid + (if enabledUpB st sid a then 1 else 0) ≤ psi st' sid :=
  Nat.le_trans (Nat.add_le_add_left (turn_le st sid a sid0 hact) _) (h sid)

theorem frameP0 {st st' : State} (sid0 : Nat) (s' : Sess) (fAdd : List (Pkt × Fate))
    (hsess : st'.sess = updF st.sess sid0 (some s'))
    (hfate : st'.fate = st.fate ++ fAdd.map (fun x => (sid0, x.1, x.2)))
    (hge : progOf (st.sess sid0) ≤ 4 * fAdd.length + prog s'.pc) (sid : Nat) : psi st sid ≤ psi st' sid := by
  have := frameP sid0 s' fAdd 0 hsess hfate (by omega) sid
  simpa using this

theorem frameP1 {st st' : State} {a : Act} (sid0 : Nat) (hact : actSid a = some sid0) (s' : Sess) (fAdd : List (Pkt × Fate))
    (hsess : st'.sess = updF st.sess sid0 (some s'))
    (hfate : st'.fate = st.fate ++ fAdd.map (fun x => (sid0, x.1, x.2)))
    (hge : progOf (st.sess sid0) + 1 ≤ 4 * fAdd.length + prog s'.pc) (sid : Nat) :
    psi st sid + (if enabledUpB st sid a then 1 else 0) ≤ psi st' sid :=
  psi_of_frame hact (frameP sid0 s' fAdd 1 hsess hfate hge) sid

theorem psi_recv {st : State} (hI : FInv st) (k : Key) (src : Addr) (res : Option Pkt) (sid : Nat) :
    psi st sid ≤ psi (recv cfg st k src res) sid := by
  unfold recv
  split
  · exact Nat.le_refl _
  · cases ht : st.table k with
    | some sid0 =>
      simp only
      cases hs : st.sess sid0 with
      | none => exact Nat.le_refl _
      | some s =>
        cases res with
        | none => exact Nat.le_refl _
        | some q =>
          exact frameP0 sid0 (enqueue cfg { s with clientAddr := src } q) [] rfl (by simp [setSess]) (by simp [progOf, hs]) sid
    | none =>
      simp only
      cases res with
      | some q =>
        exact frameP0 st.next (enqueue cfg (newSess k src) q) [] rfl (by simp) (by simp [progOf, sess_next_none hI]) sid
      | none =>
        simp only
        split
        · exact frameP0 st.next (newSess k src) [] rfl (by simp) (by simp [progOf, sess_next_none hI]) sid
        · exact Nat.le_refl _

theorem psi_simple {st st' : State} (sid0 : Nat) (s s' : Sess) (hs : st.sess sid0 = some s)
    (hsess : st'.sess = updF st.sess sid0 (some s')) (hfate : st'.fate = st.fate) (hpc : s'.pc = s.pc) (sid : Nat) :
    psi st sid ≤ psi st' sid :=
  frameP0 sid0 s' [] hsess (by simp [hfate]) (by simp [progOf, hs, hpc]) sid

theorem psi_initOk (st : State) (sid0 sid : Nat) : psi st sid ≤ psi (initOk st sid0) sid := by
  unfold initOk
  cases hs : st.sess sid0 with
  | none => exact Nat.le_refl _
  | some s =>
    simp only
    split
    · exact psi_simple (st' := setSess st sid0 { s with started := true }) sid0 s _ hs rfl rfl rfl sid
    · exact Nat.le_refl _

theorem psi_evict (st : State) (sid0 sid : Nat) : psi st sid ≤ psi (evict st sid0) sid := by
  unfold evict
  cases hs : st.sess sid0 with
  | none => exact Nat.le_refl _
  | some s =>
    simp only
    split
    · exact psi_simple (st' := closeSess st sid0 s) sid0 s { s with closed := true } hs rfl rfl rfl sid
    · exact Nat.le_refl _

theorem psi_initFail (st : State) (sid0 sid : Nat) : psi st sid ≤ psi (initFail st sid0) sid := by
  unfold initFail
  cases hs : st.sess sid0 with
  | none => exact Nat.le_refl _
  | some s =>
    simp only
    split
    · exact frameP0 sid0 { s with queue := [], closed := true } (s.queue.map (fun q => (q, Fate.notStarted))) rfl
        (by simp [List.map_map, Function.comp_def]) (by simp [progOf, hs]) sid
    · exact Nat.le_refl _

theorem psi_down (st : State) (sid0 : Nat) (res : Option ((IP × Nat) × Payload)) (sid : Nat) :
    psi st sid ≤ psi (down cfg st sid0 res) sid := by
  unfold down
  split
  · split
    · exact Nat.le_of_eq (psi_same rfl rfl sid).symm
    · exact Nat.le_refl _
  · exact Nat.le_refl _

theorem psi_take (st : State) (sid0 sid : Nat) :
    psi st sid + (if enabledUpB st sid (.take sid0) then 1 else 0) ≤ psi (take cfg st sid0) sid := by
  unfold take
  cases hs : st.sess sid0 with
  | none => simp [enabledUpB, hs]
  | some s =>
    simp only
    by_cases hg : (s.started && s.pc == .idle) = true
    · rw [if_pos hg]
      obtain ⟨hst, hidle⟩ := started_of_guard hg
      cases hqe : s.queue with
      | nil => simp [enabledUpB, hs, hqe]
      | cons q rest =>
        simp only
        cases hup : cfg.upstream with
        | some ap =>
          obtain ⟨a, p⟩ := ap
          exact frameP1 sid0 rfl { s with queue := rest } [(q, .sent a p)] rfl (by simp [setSess])
            (by simp [progOf, hs, hidle, prog]) sid
        | none =>
          simp only
          cases htg : q.target with
          | ip a p =>
            exact frameP1 sid0 rfl { s with queue := rest } [(q, .sent a p)] rfl (by simp [setSess])
              (by simp [progOf, hs, hidle, prog]) sid
          | dom d port =>
            simp only
            by_cases hhit : ((st.cache (cfg.packerOf sid0)).dom == some d) = true
            · rw [if_pos hhit]
              exact frameP1 sid0 rfl { s with queue := rest, pc := .storedIP q } [] rfl (by simp [setSess])
                (by simp [progOf, hs, hidle, prog]) sid
            · rw [if_neg hhit]
              exact frameP1 sid0 rfl { s with queue := rest, pc := .resolving q d } [] rfl (by simp [setSess])
                (by simp [progOf, hs, hidle, prog]) sid
    · rw [if_neg hg]
      simp only [Bool.and_eq_true, beq_iff_eq, not_and] at hg
      have : enabledUpB st sid (.take sid0) = false := by
        simp [enabledUpB, hs]
        intro _ h1 h2
        exact absurd h2 (hg h1)
      simp [this]

theorem psi_packErr (st : State) (sid0 sid : Nat) :
    psi st sid + (if enabledUpB st sid (.packErr sid0) then 1 else 0) ≤ psi (packErr st sid0) sid := by
  unfold packErr
  cases hs : st.sess sid0 with
  | none => simp [enabledUpB, hs]
  | some s =>
    simp only
    by_cases hg : (s.started && s.pc == .idle) = true
    · rw [if_pos hg]
      obtain ⟨hst, hidle⟩ := started_of_guard hg
      cases hqe : s.queue with
      | nil => simp [enabledUpB, hs, hqe]
      | cons q rest =>
        exact frameP1 sid0 rfl { s with queue := rest } [(q, .packFailed)] rfl (by simp [setSess])
          (by simp [progOf, hs, hidle, prog]) sid
    · rw [if_neg hg]
      simp only [Bool.and_eq_true, beq_iff_eq, not_and] at hg
      have : enabledUpB st sid (.packErr sid0) = false := by
        simp [enabledUpB, hs]
        intro _ h1 h2
        exact absurd h2 (hg h1)
      simp [this]

theorem psi_resolved (st : State) (sid0 : Nat) (ans : Option IP) (sid : Nat) :
    psi st sid + (if enabledUpB st sid (.resolved sid0 ans) then 1 else 0) ≤ psi (resolved cfg st sid0 ans) sid := by
  unfold resolved
  cases hs : st.sess sid0 with
  | none => simp [enabledUpB, hs]
  | some s =>
    simp only
    cases hpc : s.pc with
    | resolving q d =>
      cases ans with
      | some ip =>
        exact frameP1 sid0 rfl { s with pc := .storedDomain q ip } [] rfl (by simp [setSess])
          (by simp [progOf, hs, hpc, prog]) sid
      | none =>
        exact frameP1 sid0 rfl { s with pc := .idle } [(q, .resolveFailed)] rfl (by simp [setSess])
          (by simp [progOf, hs, hpc, prog]) sid
    | idle => cases ans <;> simp [enabledUpB, hs, hpc]
    | storedDomain _ _ => cases ans <;> simp [enabledUpB, hs, hpc]
    | storedIP _ => cases ans <;> simp [enabledUpB, hs, hpc]

theorem psi_storeIP (st : State) (sid0 sid : Nat) :
    psi st sid + (if enabledUpB st sid (.storeIP sid0) then 1 else 0) ≤ psi (storeIP cfg st sid0) sid := by
  unfold storeIP
  cases hs : st.sess sid0 with
  | none => simp [enabledUpB, hs]
  | some s =>
    simp only
    cases hpc : s.pc with
    | storedDomain q ip =>
      exact frameP1 sid0 rfl { s with pc := .storedIP q } [] rfl (by simp [setSess]) (by simp [progOf, hs, hpc, prog]) sid
    | idle => simp [enabledUpB, hs, hpc]
    | resolving _ _ => simp [enabledUpB, hs, hpc]
    | storedIP _ => simp [enabledUpB, hs, hpc]

theorem psi_readSend (st : State) (sid0 sid : Nat) :
    psi st sid + (if enabledUpB st sid (.readSend sid0) then 1 else 0) ≤ psi (readSend cfg st sid0) sid := by
  unfold readSend
  cases hs : st.sess sid0 with
  | none => simp [enabledUpB, hs]
  | some s =>
    simp only
    cases hpc : s.pc with
    | storedIP q =>
      exact frameP1 sid0 rfl { s with pc := .idle }
        [(q, .sent (st.cache (cfg.packerOf sid0)).ip q.target.port)] rfl (by simp [setSess]) (by simp [progOf, hs, hpc, prog]) sid
    | idle => simp [enabledUpB, hs, hpc]
    | resolving _ _ => simp [enabledUpB, hs, hpc]
    | storedDomain _ _ => simp [enabledUpB, hs, hpc]

/-- no step of any thread decreases the potential of any session; an enabled uplink turn of `sid` increases it -/
theorem psi_step {st : State} (hI : FInv st) (a : Act) (sid : Nat) :
    psi st sid + (if enabledUpB st sid a then 1 else 0) ≤ psi (step cfg st a) sid := by
  cases a with
  | recv k src r => simpa [enabledUpB, step] using psi_recv hI k src r sid
  | initOk i => simpa [enabledUpB, step] using psi_initOk st i sid
  | initFail i => simpa [enabledUpB, step] using psi_initFail st i sid
  | down i r => simpa [enabledUpB, step] using psi_down st i r sid
  | evict i => simpa [enabledUpB, step] using psi_evict st i sid
  | take i => exact psi_take st i sid
  | packErr i => exact psi_packErr st i sid
  | resolved i ans => exact psi_resolved st i ans sid
  | storeIP i => exact psi_storeIP st i sid
  | readSend i => exact psi_readSend st i sid

theorem psi_run (acts : List Act) {st : State} (hI : FInv st) (sid : Nat) :
    psi st sid + upTurns cfg sid st acts ≤ psi (run cfg st acts) sid := by
  induction acts generalizing st with
  | nil => simp [upTurns, run]
  | cons a rest ih =>
    have h1 := psi_step (cfg := cfg) hI a sid
    have h2 := ih (st := step cfg st a) (finv_step hI a)
    simp only [upTurns, run, List.foldl] at h2 ⊢
    omega

end SSV.Relay
