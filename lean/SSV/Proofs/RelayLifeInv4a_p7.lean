import SSV.Proofs.RelayLifeInv4Defs
namespace SSV.RelayLife
variable (cfg : Cfg)

theorem inv4_rUnlock (s s' : State)  (h1 : Inv1 s) (ha : Inv3a s) (hd : Inv3d s) (hI : Inv4 cfg s) (h : step cfg s (.rUnlock ) = some s') : Inv4 cfg s' := by
  have a7 := h1.closed
  clear h1
  have u2 := ha.u2
  have u3 := ha.u3
  clear ha
  obtain ⟨u1⟩ := hd
  obtain ⟨s1,s2,s3,s4,s5,u4,u6⟩ := hI
  simp only [step] at h
  (repeat' split at h) <;> close_case4

theorem inv4_rExit (s s' : State)  (h1 : Inv1 s) (ha : Inv3a s) (hd : Inv3d s) (hI : Inv4 cfg s) (h : step cfg s (.rExit ) = some s') : Inv4 cfg s' := by
  have a7 := h1.closed
  clear h1
  have u2 := ha.u2
  have u3 := ha.u3
  clear ha
  obtain ⟨u1⟩ := hd
  obtain ⟨s1,s2,s3,s4,s5,u4,u6⟩ := hI
  simp only [step] at h
  (repeat' split at h) <;> close_case4

theorem inv4_dPacket (s s' : State) (i : Nat) (h1 : Inv1 s) (ha : Inv3a s) (hd : Inv3d s) (hI : Inv4 cfg s) (h : step cfg s (.dPacket i) = some s') : Inv4 cfg s' := by
  have a7 := h1.closed
  clear h1
  have u2 := ha.u2
  have u3 := ha.u3
  clear ha
  obtain ⟨u1⟩ := hd
  obtain ⟨s1,s2,s3,s4,s5,u4,u6⟩ := hI
  simp only [step] at h
  (repeat' split at h) <;> close_case4


end SSV.RelayLife
