import SSV.Proofs.PacketSSUp
/- C05 helper lemmas: what the unpackers can return (shapes), and absence of panics. -/
namespace SSV.Packet
open SSV SSV.Gen.C05

theorem unbe_two_lt (x : Bytes) (h : x.length = 2) : unbe x < 65536 := by
  match x, h with
  | [p, q], _ =>
    have hp := p.toNat_lt
    have hq := q.toNat_lt
    simp [unbe]
    omega

/-- what `ConnAddrFromSlice` can return -/
theorem decodeAddr_ok {s : Bytes} {a : Addr} {n : Nat} (h : decodeAddr s = .ok (a, n)) :
    a.wf ∧ addrLen a ≤ n ∧ n ≤ s.length ∧ a ≠ .zero := by
  unfold decodeAddr at h
  split at h
  · cases h
  · next hlen =>
    split at h
    · cases h
    · next t tl =>
      split at h
      · split at h
        · cases h
        · next l rest =>
          simp only [ite_err_eq_ok, Outcome.ok.injEq, Prod.mk.injEq] at h
          obtain ⟨h1, h2, h3, rfl⟩ := h
          subst h3
          have hl := l.toNat_lt
          have hsub : (sub (t :: l :: rest) 2 l.toNat).length = l.toNat := sub_length _ _ _ (by omega)
          have hport := unbe_two_lt (sub (t :: l :: rest) (2 + l.toNat) 2) (sub_length _ _ _ (by omega))
          refine ⟨⟨by omega, by omega, hport⟩, ?_, by omega, by simp⟩
          simp only [addrLen, addrLenDomain, hsub]; omega
      · split at h
        · simp only [ite_err_eq_ok, Outcome.ok.injEq, Prod.mk.injEq] at h
          obtain ⟨h1, rfl, rfl⟩ := h
          have hport := unbe_two_lt (sub (t :: tl) 5 2) (sub_length _ _ _ (by omega))
          refine ⟨⟨sub_length _ _ _ (by omega), hport⟩, ?_, by omega, by simp⟩
          simp only [addrLen, addrPortLen, IP.v4family, if_true, addrLenV4]; omega
        · split at h
          · simp only [ite_err_eq_ok, Outcome.ok.injEq, Prod.mk.injEq] at h
            obtain ⟨h1, rfl, rfl⟩ := h
            have hport := unbe_two_lt (sub (t :: tl) 17 2) (sub_length _ _ _ (by omega))
            refine ⟨⟨sub_length _ _ _ (by omega), hport⟩, ?_, by omega, by simp⟩
            simp only [addrLen, addrPortLen]
            split <;> simp [addrLenV4, addrLenV6]
          · cases h


theorem decodeAddrPort_ok {s : Bytes} {a : AddrPort} {n : Nat} (h : decodeAddrPort s = .ok (a, n)) :
    a.wf ∧ addrPortLen a ≤ n ∧ n ≤ s.length := by
  unfold decodeAddrPort at h
  split at h
  · cases h
  · next hlen =>
    split at h
    · cases h
    · next t tl =>
      split at h
      · simp only [Outcome.ok.injEq, Prod.mk.injEq] at h
        obtain ⟨rfl, rfl⟩ := h
        have hport := unbe_two_lt (sub (t :: tl) 5 2) (sub_length _ _ _ (by omega))
        refine ⟨⟨sub_length _ _ _ (by omega), hport⟩, ?_, by omega⟩
        simp only [addrPortLen, IP.v4family, if_true, addrLenV4]; omega
      · split at h
        · simp only [ite_err_eq_ok, Outcome.ok.injEq, Prod.mk.injEq] at h
          obtain ⟨h1, rfl, rfl⟩ := h
          have hport := unbe_two_lt (sub (t :: tl) 17 2) (sub_length _ _ _ (by omega))
          refine ⟨⟨sub_length _ _ _ (by omega), hport⟩, ?_, by omega⟩
          simp only [addrPortLen]
          split <;> simp [addrLenV4, addrLenV6]
        · cases h

/-- what the none / SOCKS5 server unpacker can return: the buffer untouched, a well-formed address, and a
payload window that starts behind a header at least as long as the re-encoded address (+3 for SOCKS5) -/
theorem plainServerUnpack_ok {hdr3 : Bool} {b : Bytes} {q n : Nat} {u : Unpacked Addr}
    (h : plainServerUnpack hdr3 b q n = .ok u) :
    u.buf = b ∧ u.addr.wf ∧ u.addr ≠ .zero ∧ q + n ≤ b.length ∧
    ∃ hdr : Nat, u.payloadStart = (q + hdr : Nat) ∧ u.payloadLen + hdr = n ∧ 0 ≤ u.payloadLen ∧
      (if hdr3 then 3 else 0) + addrLen u.addr ≤ hdr := by
  unfold plainServerUnpack at h
  simp only [ite_err_eq_ok, ite_panic_eq_ok, Decidable.not_not] at h
  obtain ⟨h1, hs, h2, h⟩ := h
  simp only [sliceOk] at hs
  split at h
  · next a m hd =>
    simp only [Outcome.ok.injEq] at h
    subst h
    obtain ⟨hw, hl, hm, hz⟩ := decodeAddr_ok hd
    have hsl : (sub b q n).length = n := sub_length _ _ _ (by omega)
    cases hdr3
    · simp only [Bool.false_eq_true, if_false, hsl] at hm ⊢
      refine ⟨trivial, hw, hz, by omega, m, ?_, ?_, ?_, by omega⟩
      · simp only [noneSUPayloadStart]; omega
      · simp only [noneSUPayloadLen]; omega
      · simp only [noneSUPayloadLen]; omega
    · simp only [if_true, List.length_drop, hsl] at hm ⊢
      simp only [true_and, socks5SUTooSmall, decide_eq_true_eq] at h1
      refine ⟨trivial, hw, hz, by omega, m + 3, ?_, ?_, ?_, by omega⟩
      · simp only [socks5SUPayloadStart]; omega
      · simp only [socks5SUPayloadLen]; omega
      · simp only [socks5SUPayloadLen]; omega
  · cases h
  · cases h
  · cases h

theorem decodeAddr_safe (s : Bytes) : (decodeAddr s).safe := by
  unfold decodeAddr Outcome.safe
  repeat' split
  all_goals (try simp)
  all_goals (repeat' split)
  all_goals simp

theorem decodeAddrPort_safe (s : Bytes) : (decodeAddrPort s).safe := by
  unfold decodeAddrPort Outcome.safe
  repeat' split
  all_goals simp

theorem plainServerUnpack_safe (hdr3 : Bool) (b : Bytes) (q n : Nat) (h : q + n ≤ b.length) :
    (plainServerUnpack hdr3 b q n).safe := by
  unfold plainServerUnpack
  split
  · simp [Outcome.safe]
  · rw [if_neg (by simp only [Decidable.not_not, sliceOk]; omega)]
    simp only
    split
    · simp [Outcome.safe]
    · have hx := decodeAddr_safe (if hdr3 = true then List.drop 3 (sub b q n) else sub b q n)
      generalize decodeAddr _ = x at hx ⊢
      cases x <;> simp_all [Outcome.safe]

/-- the ss2022 client packer never panics and never lacks seal room when 16 bytes follow the payload:
too little front space is reported as `ErrPayloadTooBig` by the padding guard -/
theorem ssClientPack_safe (c : Crypto) (userBlock aeadKey : Bytes) (eih : List (Bytes × Bytes)) (mps : Int) (pol : Policy)
    (b : Bytes) (a : Addr) (ps pl rand : Nat) (ts sid pid : Bytes) (ha : a.wf) (hroom : ps + pl + 16 ≤ b.length) :
    (ssClientPack c userBlock aeadKey eih mps pol b a ps pl rand ts sid pid).safe := by
  obtain ⟨hal1, hal2⟩ := addrLen_bounds a ha
  unfold ssClientPack
  rw [wf_not_domTooLong ha]
  simp only [Bool.false_eq_true, if_false]
  split
  · simp [Outcome.safe]
  · next hmax =>
    have hb := choosePadding_bounds _ (shouldPad pol a.port) rand (Int.not_lt.mp hmax)
    generalize choosePadding _ (shouldPad pol a.port) rand = padI at hb
    have hb2 := hb.2
    simp only [cMaxPaddingLen, cHeaderNoPaddingLen, UDPSeparateHeaderLength, IdentityHeaderLength] at hb2
    unfold ssClientPackWith
    simp only
    rw [if_neg (by simp only [Decidable.not_not, sliceOk, cMessageHeaderStart]; omega),
      if_neg (by simp only [Decidable.not_not, sliceOk, cMessageHeaderStart, cPacketStart, cIdentityHeadersStart, UDPSeparateHeaderLength, IdentityHeaderLength]; omega),
      if_neg (by simp only [Decidable.not_not, sliceOk, cMessageHeaderStart]; omega),
      if_neg (by omega)]
    simp [Outcome.safe]

theorem parseClientHeader_ok {pt : Bytes} {now : Int} {a : Addr} {ps' pl' : Nat}
    (h : parseClientHeader pt now = .ok (a, ps', pl')) :
    a.wf ∧ a ≠ .zero ∧ 11 + addrLen a ≤ ps' ∧ ps' + pl' = pt.length := by
  unfold parseClientHeader at h
  simp only [ite_err_eq_ok] at h
  obtain ⟨h1, h2, h3, h4, h⟩ := h
  simp only [UDPClientMessageHeaderFixedLength] at h1 h4 h
  split at h
  · next a' n hd =>
    simp only [Outcome.ok.injEq, Prod.mk.injEq] at h
    obtain ⟨rfl, rfl, rfl⟩ := h
    obtain ⟨hw, hl, hn, hz⟩ := decodeAddr_ok hd
    simp only [List.length_drop] at hn
    refine ⟨hw, hz, by omega, by omega⟩
  · cases h
  · cases h
  · cases h

theorem parseClientHeader_safe (pt : Bytes) (now : Int) : (parseClientHeader pt now).safe := by
  unfold parseClientHeader
  split
  · simp [Outcome.safe]
  split
  · simp [Outcome.safe]
  split
  · simp [Outcome.safe]
  simp only
  split
  · simp [Outcome.safe]
  generalize hx : decodeAddr _ = x
  have hs : x.safe := by rw [← hx]; exact decodeAddr_safe _
  cases x <;> simp_all [Outcome.safe]


/-- what the ss2022 server side can return: a buffer of the same length, a well-formed address, and a payload
window that starts behind a header at least as long as a fresh header for that address and ends 16 bytes
(the tag) before the end of the packet -/
theorem ssServerUnpack_ok {c : Crypto} (L : c.Laws) {block key : Bytes} {k : Nat} {lookup : Bool} {users : List (Bytes × Bytes)}
    {now : Int} {b : Bytes} {q n : Nat} {u : Unpacked Addr}
    (h : ssServerUnpack c block key k lookup users now b q n = .ok u) :
    u.buf.length = b.length ∧ u.addr.wf ∧ u.addr ≠ .zero ∧ q + n ≤ b.length ∧
    ∃ hdr : Nat, u.payloadStart = (q + hdr : Nat) ∧ u.payloadLen + hdr + 16 = n ∧ 0 ≤ u.payloadLen ∧
      16 + 16 * k + 11 + addrLen u.addr ≤ hdr := by
  have hna : UDPSeparateHeaderLength + IdentityHeaderLength * k = 16 + 16 * k := rfl
  have hu : UDPSeparateHeaderLength = 16 := rfl
  unfold ssServerUnpack at h
  rw [hna, hu] at h
  simp only [ite_panic_eq_ok, ite_err_eq_ok, Decidable.not_not] at h
  obtain ⟨hs, h1, h2, h⟩ := h
  simp only [sliceOk] at hs
  split at h
  · cases h
  · next key' hk =>
    simp only [ite_err_eq_ok] at h
    obtain ⟨h3, h⟩ := h
    simp only [sUnpackTooSmall, decide_eq_true_eq] at h3
    split at h
    · cases h
    · next pt hopen =>
      split at h
      · next a ps' pl' hparse =>
        simp only [Outcome.ok.injEq] at h
        subst h
        obtain ⟨hw, hz, hl, hsum⟩ := parseClientHeader_ok hparse
        have hmhs : (sUnpackMessageHeaderStart (q : Int) ((16 + 16 * k : Nat) : Int)).toNat = q + (16 + 16 * k) := by
          simp only [sUnpackMessageHeaderStart]; omega
        have hol := L.open_len _ _ _ _ hopen
        rw [hmhs, sub_length _ _ _ (by omega)] at hol
        have hsepl : (c.dec block (sub b q 16)).length = 16 := by rw [L.dec_len, sub_length _ _ _ (by omega)]
        have hraw : (sub b (q + 16) (16 + 16 * k - 16)).length = 16 + 16 * k - 16 := sub_length _ _ _ (by omega)
        refine ⟨?_, hw, hz, by omega, 16 + 16 * k + ps', ?_, ?_, ?_, ?_⟩
        · simp only
          apply splice_length
          simp only [List.length_append, hsepl]
          split
          · simp only [List.length_append, xorBytes_length, L.dec_len, List.length_take, List.length_drop, hraw, hsepl]
            omega
          · rw [hraw]; omega
        · simp only [sUnpackMessageHeaderStart]; omega
        · simp only; omega
        · simp only; omega
        · simp only; omega
      · cases h
      · cases h
      · cases h

theorem ssServerUnpack_safe (c : Crypto) (block key : Bytes) (k : Nat) (lookup : Bool) (users : List (Bytes × Bytes))
    (now : Int) (b : Bytes) (q n : Nat) (h : q + n ≤ b.length) :
    (ssServerUnpack c block key k lookup users now b q n).safe := by
  unfold ssServerUnpack
  rw [if_neg (by simp only [Decidable.not_not, sliceOk]; omega)]
  split
  · simp [Outcome.safe]
  try simp only
  split
  · simp [Outcome.safe]
  split
  · simp [Outcome.safe]
  · split
    · simp [Outcome.safe]
    · try simp only
      split
      · simp [Outcome.safe]
      · generalize hx : parseClientHeader _ now = x
        have hsx : x.safe := by rw [← hx]; exact parseClientHeader_safe _ _
        cases x <;> simp_all [Outcome.safe]


theorem plainClientUnpack_ok {hdr3 : Bool} {server src : AddrPort} {b : Bytes} {q n : Nat} {u : Unpacked AddrPort}
    (h : plainClientUnpack hdr3 server src b q n = .ok u) :
    u.buf = b ∧ u.addr.wf ∧ q + n ≤ b.length ∧
    ∃ hdr : Nat, u.payloadStart = (q + hdr : Nat) ∧ u.payloadLen + hdr = n ∧ 0 ≤ u.payloadLen ∧
      (if hdr3 then 3 else 0) + addrPortLen u.addr ≤ hdr := by
  unfold plainClientUnpack at h
  simp only [ite_err_eq_ok, ite_panic_eq_ok, Decidable.not_not] at h
  obtain ⟨_, h1, hs, h2, h⟩ := h
  simp only [sliceOk] at hs
  split at h
  · next a m hd =>
    simp only [Outcome.ok.injEq] at h
    subst h
    obtain ⟨hw, hl, hm⟩ := decodeAddrPort_ok hd
    have hsl : (sub b q n).length = n := sub_length _ _ _ (by omega)
    cases hdr3
    · simp only [Bool.false_eq_true, if_false, hsl] at hm ⊢
      refine ⟨trivial, hw, by omega, m, ?_, ?_, ?_, by omega⟩
      · simp only [noneCUPayloadStart]; omega
      · simp only [noneCUPayloadLen]; omega
      · simp only [noneCUPayloadLen]; omega
    · simp only [if_true, List.length_drop, hsl] at hm ⊢
      simp only [true_and, socks5CUTooSmall, decide_eq_true_eq] at h1
      refine ⟨trivial, hw, by omega, m + 3, ?_, ?_, ?_, by omega⟩
      · simp only [socks5CUPayloadStart]; omega
      · simp only [socks5CUPayloadLen]; omega
      · simp only [socks5CUPayloadLen]; omega
  · cases h
  · cases h
  · cases h

theorem plainClientUnpack_safe (hdr3 : Bool) (server src : AddrPort) (b : Bytes) (q n : Nat) (h : q + n ≤ b.length) :
    (plainClientUnpack hdr3 server src b q n).safe := by
  unfold plainClientUnpack
  split
  · simp [Outcome.safe]
  split
  · simp [Outcome.safe]
  · rw [if_neg (by simp only [Decidable.not_not, sliceOk]; omega)]
    simp only
    split
    · simp [Outcome.safe]
    · generalize hx : decodeAddrPort _ = x
      have hs : x.safe := by rw [← hx]; exact decodeAddrPort_safe _
      cases x <;> simp_all [Outcome.safe]

theorem parseServerHeader_ok {pt : Bytes} {now : Int} {csid : Bytes} {a : AddrPort} {ps' pl' : Nat}
    (h : parseServerHeader pt now csid = .ok (a, ps', pl')) :
    a.wf ∧ 19 + addrPortLen a ≤ ps' ∧ ps' + pl' = pt.length := by
  unfold parseServerHeader at h
  simp only [ite_err_eq_ok] at h
  obtain ⟨h1, h2, h3, h3', h4, h⟩ := h
  simp only [UDPServerMessageHeaderFixedLength] at h1 h4 h
  split at h
  · next a' n hd =>
    simp only [Outcome.ok.injEq, Prod.mk.injEq] at h
    obtain ⟨rfl, rfl, rfl⟩ := h
    obtain ⟨hw, hl, hn⟩ := decodeAddrPort_ok hd
    simp only [List.length_drop] at hn
    refine ⟨hw, by omega, by omega⟩
  · cases h
  · cases h
  · cases h

theorem parseServerHeader_safe (pt : Bytes) (now : Int) (csid : Bytes) : (parseServerHeader pt now csid).safe := by
  unfold parseServerHeader
  split
  · simp [Outcome.safe]
  split
  · simp [Outcome.safe]
  split
  · simp [Outcome.safe]
  split
  · simp [Outcome.safe]
  simp only
  split
  · simp [Outcome.safe]
  generalize hx : decodeAddrPort _ = x
  have hs : x.safe := by rw [← hx]; exact decodeAddrPort_safe _
  cases x <;> simp_all [Outcome.safe]

theorem ssClientUnpack_ok {c : Crypto} (L : c.Laws) {block key csid : Bytes} {now : Int} {b : Bytes} {q n : Nat}
    {u : Unpacked AddrPort} (h : ssClientUnpack c block key csid now b q n = .ok u) :
    u.buf.length = b.length ∧ u.addr.wf ∧ q + n ≤ b.length ∧
    ∃ hdr : Nat, u.payloadStart = (q + hdr : Nat) ∧ u.payloadLen + hdr + 16 = n ∧ 0 ≤ u.payloadLen ∧
      16 + 19 + addrPortLen u.addr ≤ hdr := by
  unfold ssClientUnpack at h
  simp only [ite_panic_eq_ok, ite_err_eq_ok, Decidable.not_not] at h
  obtain ⟨h1, hs1, hs2, h⟩ := h
  simp only [sliceOk, cUnpackMessageHeaderStart] at hs1 hs2
  simp only [cUnpackTooSmall, decide_eq_true_eq] at h1
  split at h
  · cases h
  · next pt hopen =>
    split at h
    · next a ps' pl' hparse =>
      simp only [Outcome.ok.injEq] at h
      subst h
      obtain ⟨hw, hl, hsum⟩ := parseServerHeader_ok hparse
      have hmhs : (cUnpackMessageHeaderStart (q : Int)).toNat = q + 16 := by
        simp only [cUnpackMessageHeaderStart]; omega
      have hol := L.open_len _ _ _ _ hopen
      rw [hmhs, sub_length _ _ _ (by omega)] at hol
      have hsepl : (c.dec block (sub b q 16)).length = 16 := by rw [L.dec_len, sub_length _ _ _ (by omega)]
      refine ⟨?_, hw, by omega, 16 + ps', ?_, ?_, ?_, ?_⟩
      · simp only
        apply splice_length
        simp only [List.length_append, hsepl]
        omega
      · simp only [cUnpackMessageHeaderStart]; omega
      · simp only; omega
      · simp only; omega
      · simp only; omega
    · cases h
    · cases h
    · cases h

theorem ssClientUnpack_safe (c : Crypto) (block key csid : Bytes) (now : Int) (b : Bytes) (q n : Nat) (h : q + n ≤ b.length) :
    (ssClientUnpack c block key csid now b q n).safe := by
  unfold ssClientUnpack
  split
  · simp [Outcome.safe]
  · next h1 =>
    simp only [cUnpackTooSmall, decide_eq_true_eq] at h1
    rw [if_neg (by simp only [Decidable.not_not, sliceOk, cUnpackMessageHeaderStart]; omega),
      if_neg (by simp only [Decidable.not_not, sliceOk, cUnpackMessageHeaderStart]; omega)]
    try simp only
    split
    · simp [Outcome.safe]
    · generalize hx : parseServerHeader _ now csid = x
      have hsx : x.safe := by rw [← hx]; exact parseServerHeader_safe _ _ _
      cases x <;> simp_all [Outcome.safe]

/-- the ss2022 server packer never panics and never lacks seal room when 16 bytes follow the payload -/
theorem ssServerPack_safe (c : Crypto) (block aeadKey : Bytes) (pol : Policy) (b : Bytes) (src : AddrPort)
    (ps pl : Nat) (lim : Int) (rand : Nat) (ts ssid spid csid : Bytes) (hroom : ps + pl + 16 ≤ b.length) :
    (ssServerPack c block aeadKey pol b src ps pl lim rand ts ssid spid csid).safe := by
  obtain ⟨hal1, hal2⟩ := addrPortLen_bounds src
  unfold ssServerPack
  simp only
  split
  · simp [Outcome.safe]
  · next hmax =>
    have hb := choosePadding_bounds _ (shouldPad pol src.port) rand (Int.not_lt.mp hmax)
    generalize choosePadding _ (shouldPad pol src.port) rand = padI at hb
    have hb2 := hb.2
    simp only [sMaxPaddingLen, sHeaderNoPaddingLen] at hb2
    unfold ssServerPackWith
    simp only
    rw [if_neg (by simp only [Decidable.not_not, sliceOk, sMessageHeaderStart]; omega),
      if_neg (by simp only [Decidable.not_not, sliceOk, sMessageHeaderStart, sPacketStart]; omega),
      if_neg (by simp only [Decidable.not_not, sliceOk, sMessageHeaderStart]; omega),
      if_neg (by omega)]
    simp [Outcome.safe]


end SSV.Packet
