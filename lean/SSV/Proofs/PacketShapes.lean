import SSV.Proofs.PacketSSUp
/- C05 helper lemmas: what the unpackers can return (shapes), and absence of panics. -/
namespace SSV.Packet
open SSV SSV.Gen.C05

theorem unbe_two_lt (x : Bytes) (h : x.length = 2) : unbe x < 65536 := by
  match x, h with
  | [p, q], _ =>
    have hp := p.toNat_lt
    have hq := q.toNat_lt
    simp [unbe]
    omega

/-- what `ConnAddrFromSlice` can return -/
theorem decodeAddr_ok {s : Bytes} {a : Addr} {n : Nat} (h : decodeAddr s = .ok (a, n)) :
    a.wf ∧ addrLen a ≤ n ∧ n ≤ s.length ∧ a ≠ .zero := by
  unfold decodeAddr at h
  split at h
  · cases h
  · next hlen =>
    split at h
    · cases h
    · next t tl =>
      split at h
      · split at h
        · cases h
        · next l rest =>
          simp only [ite_err_eq_ok, Outcome.ok.injEq, Prod.mk.injEq] at h
          obtain ⟨h1, h2, h3, rfl⟩ := h
          subst h3
          have hl := l.toNat_lt
          have hsub : (sub (t :: l :: rest) 2 l.toNat).length = l.toNat := sub_length _ _ _ (by omega)
          have hport := unbe_two_lt (sub (t :: l :: rest) (2 + l.toNat) 2) (sub_length _ _ _ (by omega))
          refine ⟨⟨by omega, by omega, hport⟩, ?_, by omega, by simp⟩
          simp only [addrLen, addrLenDomain, hsub]; omega
      · split at h
        · simp only [ite_err_eq_ok, Outcome.ok.injEq, Prod.mk.injEq] at h
          obtain ⟨h1, rfl, rfl⟩ := h
          have hport := unbe_two_lt (sub (t :: tl) 5 2) (sub_length _ _ _ (by omega))
          refine ⟨⟨sub_length _ _ _ (by omega), hport⟩, ?_, by omega, by simp⟩
          simp only [addrLen, addrPortLen, IP.v4family, if_true, addrLenV4]; omega
        · split at h
          · simp only [ite_err_eq_ok, Outcome.ok.injEq, Prod.mk.injEq] at h
            obtain ⟨h1, rfl, rfl⟩ := h
            have hport := unbe_two_lt (sub (t :: tl) 17 2) (sub_length _ _ _ (by omega))
            refine ⟨⟨sub_length _ _ _ (by omega), hport⟩, ?_, by omega, by simp⟩
            simp only [addrLen, addrPortLen]
            split <;> simp [addrLenV4, addrLenV6]
          · cases h


theorem decodeAddrPort_ok {s : Bytes} {a : AddrPort} {n : Nat} (h : decodeAddrPort s = .ok (a, n)) :
    a.wf ∧ addrPortLen a ≤ n ∧ n ≤ s.length := by
  unfold decodeAddrPort at h
  split at h
  · cases h
  · next hlen =>
    split at h
    · cases h
    · next t tl =>
      split at h
      · simp only [Outcome.ok.injEq, Prod.mk.injEq] at h
        obtain ⟨rfl, rfl⟩ := h
        have hport := unbe_two_lt (sub (t :: tl) 5 2) (sub_length _ _ _ (by omega))
        refine ⟨⟨sub_length _ _ _ (by omega), hport⟩, ?_, by omega⟩
        simp only [addrPortLen, IP.v4family, if_true, addrLenV4]; omega
      · split at h
        · simp only [ite_err_eq_ok, Outcome.ok.injEq, Prod.mk.injEq] at h
          obtain ⟨h1, rfl, rfl⟩ := h
          have hport := unbe_two_lt (sub (t :: tl) 17 2) (sub_length _ _ _ (by omega))
          refine ⟨⟨sub_length _ _ _ (by omega), hport⟩, ?_, by omega⟩
          simp only [addrPortLen]
          split <;> simp [addrLenV4, addrLenV6]
        · cases h

/-- what the none / SOCKS5 server unpacker can return: the buffer untouched, a well-formed address, and a
payload window that starts behind a header at least as long as the re-encoded address (+3 for SOCKS5) -/
theorem plainServerUnpack_ok {hdr3 : Bool} {b : Bytes} {q n : Nat} {u : Unpacked Addr}
    (h : plainServerUnpack hdr3 b q n = .ok u) :
    u.buf = b ∧ u.addr.wf ∧ u.addr ≠ .zero ∧ q + n ≤ b.length ∧
    ∃ hdr : Nat, u.payloadStart = (q + hdr : Nat) ∧ u.payloadLen + hdr = n ∧ 0 ≤ u.payloadLen ∧
      (if hdr3 then 3 else 0) + addrLen u.addr ≤ hdr := by
  unfold plainServerUnpack at h
  simp only [ite_err_eq_ok, ite_panic_eq_ok, Decidable.not_not] at h
  obtain ⟨h1, hs, h2, h⟩ := h
  simp only [sliceOk] at hs
  split at h
  · next a m hd =>
    simp only [Outcome.ok.injEq] at h
    subst h
    obtain ⟨hw, hl, hm, hz⟩ := decodeAddr_ok hd
    have hsl : (sub b q n).length = n := sub_length _ _ _ (by omega)
    cases hdr3
    · simp only [Bool.false_eq_true, if_false, hsl] at hm ⊢
      refine ⟨trivial, hw, hz, by omega, m, ?_, ?_, ?_, by omega⟩
      · simp only [noneSUPayloadStart]; omega
      · simp only [noneSUPayloadLen]; omega
      · simp only [noneSUPayloadLen]; omega
    · simp only [if_true, List.length_drop, hsl] at hm ⊢
      simp only [true_and, socks5SUTooSmall, decide_eq_true_eq] at h1
      refine ⟨trivial, hw, hz, by omega, m + 3, ?_, ?_, ?_, by omega⟩
      · simp only [socks5SUPayloadStart]; omega
      · simp only [socks5SUPayloadLen]; omega
      · simp only [socks5SUPayloadLen]; omega
  · cases h
  · cases h
  · cases h

theorem decodeAddr_safe (s : Bytes) : (decodeAddr s).safe := by
  unfold decodeAddr Outcome.safe
  repeat' split
  all_goals (try simp)
  all_goals (repeat' split)
  all_goals simp

theorem decodeAddrPort_safe (s : Bytes) : (decodeAddrPort s).safe := by
  unfold decodeAddrPort Outcome.safe
  repeat' split
  all_goals simp

theorem plainServerUnpack_safe (hdr3 : Bool) (b : Bytes) (q n : Nat) (h : q + n ≤ b.length) :
    (plainServerUnpack hdr3 b q n).safe := by
  unfold plainServerUnpack
  split
  · simp [Outcome.safe]
  · rw [if_neg (by simp only [Decidable.not_not, sliceOk]; omega)]
    simp only
    split
    · simp [Outcome.safe]
    · have hx := decodeAddr_safe (if hdr3 = true then List.drop 3 (sub b q n) else sub b q n)
      generalize decodeAddr _ = x at hx ⊢
      cases x <;> simp_all [Outcome.safe]

end SSV.Packet
