import SSV.Proofs.Packet
/- C05 helper lemmas: Shadowsocks-none / SOCKS5 / direct packers and unpackers. -/
namespace SSV.Packet
open SSV SSV.Gen.C05

/-- reading a window that starts at the spliced data and extends behind it -/
theorem sub_splice_ext (b : Bytes) (lo : Nat) (d : Bytes) (n : Nat) (h : lo + d.length + n ≤ b.length) :
    sub (splice b lo d) lo (d.length + n) = d ++ sub b (lo + d.length) n := by
  unfold sub splice
  have h1 : (b.take lo).length = lo := by simp; omega
  rw [List.append_assoc, List.drop_append, h1]
  simp [List.take_append, List.take_of_length_le]

theorem splice_drop_ge (b : Bytes) (lo : Nat) (d : Bytes) (off : Nat) (h : lo + d.length ≤ b.length)
    (hoff : lo + d.length ≤ off) : (splice b lo d).drop off = b.drop off := by
  obtain ⟨k, rfl⟩ : ∃ k, off = (lo + d.length) + k := ⟨off - (lo + d.length), by omega⟩
  rw [← List.drop_drop, splice_drop b lo d h, List.drop_drop]

def plainHead (hdr3 : Bool) (enc : Bytes) : Bytes := (if hdr3 then [0, 0, 0] else []) ++ enc

theorem plainHead_length (hdr3 : Bool) (enc : Bytes) :
    (plainHead hdr3 enc).length = (if hdr3 then 3 else 0) + enc.length := by
  cases hdr3 <;> simp [plainHead]; omega

/-- shape of a successful `plainClientPack` -/
theorem plainClientPack_ok {hdr3 : Bool} {limit : Int} {b : Bytes} {a : Addr} {ps pl : Nat} {r : Packed}
    (ha : a.wf) (h : plainClientPack hdr3 limit b a ps pl = .ok r) :
    (plainHead hdr3 (encodeAddr a)).length ≤ ps ∧ ps ≤ b.length ∧
    r.packetStart = (ps : Int) - (plainHead hdr3 (encodeAddr a)).length ∧
    r.packetLen = (pl : Int) + (plainHead hdr3 (encodeAddr a)).length ∧ r.packetLen ≤ limit ∧
    r.buf = splice b (ps - (plainHead hdr3 (encodeAddr a)).length) (plainHead hdr3 (encodeAddr a)) := by
  have hlen := encodeAddr_length a ha
  have hpl := plainHead_length hdr3 (encodeAddr a)
  unfold plainClientPack at h
  split at h
  · cases h
  · cases hdr3
    · simp only [Bool.false_eq_true, if_false, List.nil_append, noneCPacketStart, noneCPacketLen, noneCTooBig] at h
      split at h
      · cases h
      · next hs =>
        split at h
        · cases h
        · next ht =>
          simp only [Outcome.ok.injEq] at h
          subst h
          simp only [plainHead, Bool.false_eq_true, if_false, List.nil_append] at hpl ⊢
          simp only [Decidable.not_not, sliceOk] at hs
          simp only [decide_eq_true_eq] at ht
          refine ⟨by omega, by omega, by omega, by omega, by omega, ?_⟩
          congr 1
          omega
    · simp only [if_true, socks5CPacketStart, socks5CPacketLen, socks5CTooBig] at h
      split at h
      · cases h
      · next hs =>
        split at h
        · cases h
        · next ht =>
          simp only [Outcome.ok.injEq] at h
          subst h
          simp only [plainHead, if_true] at hpl ⊢
          simp only [Decidable.not_not, sliceOk, List.length_append, List.length_cons, List.length_nil] at hs
          simp only [decide_eq_true_eq] at ht
          simp only [List.length_append, List.length_cons, List.length_nil] at hpl ⊢
          refine ⟨by omega, by omega, by omega, by omega, by omega, ?_⟩
          congr 1
          omega


theorem wf_not_domTooLong {a : Addr} (ha : a.wf) : a.domTooLong = false := by
  cases a with
  | zero => rfl
  | ip ap => rfl
  | dom n p => simp [Addr.domTooLong]; exact ha.2.1

/-- the client packer neither panics nor lacks room when the front space holds the header -/
theorem plainClientPack_safe (hdr3 : Bool) (limit : Int) (b : Bytes) (a : Addr) (ps pl : Nat) (ha : a.wf)
    (h1 : (plainHead hdr3 (encodeAddr a)).length ≤ ps) (h2 : ps ≤ b.length) :
    (plainClientPack hdr3 limit b a ps pl).safe := by
  have hlen := encodeAddr_length a ha
  have hpl := plainHead_length hdr3 (encodeAddr a)
  unfold plainClientPack
  rw [wf_not_domTooLong ha]
  simp only [Bool.false_eq_true, if_false]
  cases hdr3
  · simp only [Bool.false_eq_true, if_false, List.nil_append, noneCPacketStart, noneCPacketLen, noneCTooBig] at hpl ⊢
    simp only [plainHead, Bool.false_eq_true, if_false, List.nil_append] at h1 hpl
    rw [if_neg (by simp only [Decidable.not_not, sliceOk]; omega)]
    split <;> simp [Outcome.safe]
  · simp only [if_true, socks5CPacketStart, socks5CPacketLen, socks5CTooBig] at hpl ⊢
    simp only [plainHead, if_true, List.length_append, List.length_cons, List.length_nil] at h1 hpl
    rw [if_neg (by simp only [Decidable.not_not, sliceOk, List.length_append, List.length_cons, List.length_nil]; omega)]
    split <;> simp [Outcome.safe]

/-- the refusal is exact: with enough front space the packer fails iff the packet would exceed the limit -/
theorem plainClientPack_tooBig_iff (hdr3 : Bool) (limit : Int) (b : Bytes) (a : Addr) (ps pl : Nat) (ha : a.wf)
    (h1 : (plainHead hdr3 (encodeAddr a)).length ≤ ps) (h2 : ps ≤ b.length) :
    plainClientPack hdr3 limit b a ps pl = .err .tooBig ↔ (pl : Int) + (plainHead hdr3 (encodeAddr a)).length > limit := by
  have hlen := encodeAddr_length a ha
  have hpl := plainHead_length hdr3 (encodeAddr a)
  unfold plainClientPack
  rw [wf_not_domTooLong ha]
  simp only [Bool.false_eq_true, if_false]
  cases hdr3
  · simp only [Bool.false_eq_true, if_false, List.nil_append, noneCPacketStart, noneCPacketLen, noneCTooBig] at hpl ⊢
    simp only [plainHead, Bool.false_eq_true, if_false, List.nil_append] at h1 hpl ⊢
    rw [if_neg (by simp only [Decidable.not_not, sliceOk]; omega)]
    split
    · next ht => simp only [decide_eq_true_eq] at ht; simp; omega
    · next ht => simp only [decide_eq_true_eq] at ht; simp; omega
  · simp only [if_true, socks5CPacketStart, socks5CPacketLen, socks5CTooBig] at hpl ⊢
    simp only [plainHead, if_true, List.length_append, List.length_cons, List.length_nil] at h1 hpl ⊢
    rw [if_neg (by simp only [Decidable.not_not, sliceOk, List.length_append, List.length_cons, List.length_nil]; omega)]
    split
    · next ht => simp only [decide_eq_true_eq] at ht; simp; omega
    · next ht => simp only [decide_eq_true_eq] at ht; simp; omega

/-- the server unpacker on any buffer whose packet window holds `header ++ payload` -/
theorem plainServerUnpack_head (hdr3 : Bool) (bb : Bytes) (q pl : Nat) (a : Addr) (ha : a.wf) (payload : Bytes)
    (hwin : sub bb q ((plainHead hdr3 (encodeAddr a)).length + pl) = plainHead hdr3 (encodeAddr a) ++ payload)
    (hlen : q + (plainHead hdr3 (encodeAddr a)).length + pl ≤ bb.length) :
    plainServerUnpack hdr3 bb q ((plainHead hdr3 (encodeAddr a)).length + pl)
      = .ok ⟨bb, a.norm, ((q + (plainHead hdr3 (encodeAddr a)).length : Nat) : Int), (pl : Int)⟩ := by
  have hal := encodeAddr_length a ha
  have hpl := plainHead_length hdr3 (encodeAddr a)
  unfold plainServerUnpack
  cases hdr3
  · simp only [plainHead, Bool.false_eq_true, if_false, List.nil_append, false_and] at hwin hlen hpl ⊢
    rw [if_neg (by simp only [Decidable.not_not, sliceOk]; omega)]
    simp only [hwin, decode_encodeAddr a payload ha, noneSUPayloadStart, noneSUPayloadLen]
    congr 2 <;> omega
  · simp only [plainHead, if_true, true_and, socks5SUTooSmall, List.length_append, List.length_cons, List.length_nil] at hwin hlen hpl ⊢
    rw [if_neg (by simp only [decide_eq_true_eq]; omega)]
    rw [if_neg (by simp only [Decidable.not_not, sliceOk]; omega)]
    simp only [hwin]
    have e3 : sub (([0, 0, 0] : Bytes) ++ encodeAddr a ++ payload) 2 1 = [0] := by
      simp [sub]
    rw [if_neg (by rw [e3]; simp)]
    have e4 : List.drop 3 (([0, 0, 0] : Bytes) ++ encodeAddr a ++ payload) = encodeAddr a ++ payload := by simp
    simp only [e4, decode_encodeAddr a payload ha, socks5SUPayloadStart, socks5SUPayloadLen]
    congr 2 <;> omega


/-- client → server round trip of Shadowsocks-none (`hdr3 = false`) and SOCKS5 (`hdr3 = true`) -/
theorem plain_roundtrip_up (hdr3 : Bool) (limit : Int) (b : Bytes) (a : Addr) (ps pl : Nat) (r : Packed)
    (ha : a.wf) (hpay : ps + pl ≤ b.length) (h : plainClientPack hdr3 limit b a ps pl = .ok r) :
    plainServerUnpack hdr3 r.buf r.packetStart.toNat r.packetLen.toNat = .ok ⟨r.buf, a.norm, ps, pl⟩ ∧
    sub r.buf ps pl = sub b ps pl := by
  obtain ⟨h1, h2, h3, h4, _, h6⟩ := plainClientPack_ok ha h
  have e1 : r.packetStart.toNat = ps - (plainHead hdr3 (encodeAddr a)).length := by omega
  have e2 : r.packetLen.toNat = (plainHead hdr3 (encodeAddr a)).length + pl := by omega
  have hin : ps - (plainHead hdr3 (encodeAddr a)).length + (plainHead hdr3 (encodeAddr a)).length = ps := by omega
  have hw := sub_splice_ext b (ps - (plainHead hdr3 (encodeAddr a)).length) (plainHead hdr3 (encodeAddr a)) pl (by omega)
  rw [hin] at hw
  have hL := splice_length b (ps - (plainHead hdr3 (encodeAddr a)).length) (plainHead hdr3 (encodeAddr a)) (by omega)
  rw [e1, e2, h6]
  constructor
  · have := plainServerUnpack_head hdr3 _ (ps - (plainHead hdr3 (encodeAddr a)).length) pl a ha (sub b ps pl) hw (by omega)
    rw [this, hin]
  · have := sub_splice_after b (ps - (plainHead hdr3 (encodeAddr a)).length) (plainHead hdr3 (encodeAddr a)) ps pl (by omega) (by omega)
    exact this

/-- frame of the client packer: bytes outside the packet are unchanged, the length is unchanged -/
theorem plainClientPack_frame (hdr3 : Bool) (limit : Int) (b : Bytes) (a : Addr) (ps pl : Nat) (r : Packed)
    (ha : a.wf) (hpay : ps + pl ≤ b.length) (h : plainClientPack hdr3 limit b a ps pl = .ok r) :
    r.buf.length = b.length ∧ r.buf.take r.packetStart.toNat = b.take r.packetStart.toNat ∧
    r.buf.drop (r.packetStart + r.packetLen).toNat = b.drop (r.packetStart + r.packetLen).toNat := by
  obtain ⟨h1, h2, h3, h4, _, h6⟩ := plainClientPack_ok ha h
  have e1 : r.packetStart.toNat = ps - (plainHead hdr3 (encodeAddr a)).length := by omega
  have e2 : (r.packetStart + r.packetLen).toNat = ps + pl := by omega
  rw [e1, e2, h6]
  refine ⟨splice_length _ _ _ (by omega), splice_take _ _ _ (by omega), splice_drop_ge _ _ _ _ (by omega) (by omega)⟩


/-! ### server → client -/

/-- shape of a successful `plainServerPack` -/
theorem plainServerPack_ok {hdr3 : Bool} {limit : Int} {b : Bytes} {a : AddrPort} {ps pl : Nat} {r : Packed}
    (ha : a.wf) (h : plainServerPack hdr3 b a ps pl limit = .ok r) :
    (plainHead hdr3 (encodeAddrPort a)).length ≤ ps ∧ ps ≤ b.length ∧
    r.packetStart = (ps : Int) - (plainHead hdr3 (encodeAddrPort a)).length ∧
    r.packetLen = (pl : Int) + (plainHead hdr3 (encodeAddrPort a)).length ∧ r.packetLen ≤ limit ∧
    r.buf = splice b (ps - (plainHead hdr3 (encodeAddrPort a)).length) (plainHead hdr3 (encodeAddrPort a)) := by
  have hlen := encodeAddrPort_length a ha
  have hpl := plainHead_length hdr3 (encodeAddrPort a)
  unfold plainServerPack at h
  cases hdr3
  · simp only [Bool.false_eq_true, if_false, List.nil_append, noneSPacketStart, noneSPacketLen, noneSTooBig] at h
    split at h
    · cases h
    · next hs =>
      split at h
      · cases h
      · next ht =>
        simp only [Outcome.ok.injEq] at h
        subst h
        simp only [plainHead, Bool.false_eq_true, if_false, List.nil_append] at hpl ⊢
        simp only [Decidable.not_not, sliceOk] at hs
        simp only [decide_eq_true_eq] at ht
        refine ⟨by omega, by omega, by omega, by omega, by omega, ?_⟩
        congr 1
        omega
  · simp only [if_true, socks5SPacketStart, socks5SPacketLen, socks5STooBig] at h
    split at h
    · cases h
    · next hs =>
      split at h
      · cases h
      · next ht =>
        simp only [Outcome.ok.injEq] at h
        subst h
        simp only [plainHead, if_true] at hpl ⊢
        simp only [Decidable.not_not, sliceOk, List.length_append, List.length_cons, List.length_nil] at hs
        simp only [decide_eq_true_eq] at ht
        simp only [List.length_append, List.length_cons, List.length_nil] at hpl ⊢
        refine ⟨by omega, by omega, by omega, by omega, by omega, ?_⟩
        congr 1
        omega

theorem plainServerPack_safe (hdr3 : Bool) (limit : Int) (b : Bytes) (a : AddrPort) (ps pl : Nat) (ha : a.wf)
    (h1 : (plainHead hdr3 (encodeAddrPort a)).length ≤ ps) (h2 : ps ≤ b.length) :
    (plainServerPack hdr3 b a ps pl limit).safe := by
  have hlen := encodeAddrPort_length a ha
  have hpl := plainHead_length hdr3 (encodeAddrPort a)
  unfold plainServerPack
  cases hdr3
  · simp only [Bool.false_eq_true, if_false, List.nil_append, noneSPacketStart, noneSPacketLen, noneSTooBig] at hpl ⊢
    simp only [plainHead, Bool.false_eq_true, if_false, List.nil_append] at h1 hpl
    rw [if_neg (by simp only [Decidable.not_not, sliceOk]; omega)]
    split <;> simp [Outcome.safe]
  · simp only [if_true, socks5SPacketStart, socks5SPacketLen, socks5STooBig] at hpl ⊢
    simp only [plainHead, if_true, List.length_append, List.length_cons, List.length_nil] at h1 hpl
    rw [if_neg (by simp only [Decidable.not_not, sliceOk, List.length_append, List.length_cons, List.length_nil]; omega)]
    split <;> simp [Outcome.safe]

theorem plainServerPack_tooBig_iff (hdr3 : Bool) (limit : Int) (b : Bytes) (a : AddrPort) (ps pl : Nat) (ha : a.wf)
    (h1 : (plainHead hdr3 (encodeAddrPort a)).length ≤ ps) (h2 : ps ≤ b.length) :
    plainServerPack hdr3 b a ps pl limit = .err .tooBig ↔ (pl : Int) + (plainHead hdr3 (encodeAddrPort a)).length > limit := by
  have hlen := encodeAddrPort_length a ha
  have hpl := plainHead_length hdr3 (encodeAddrPort a)
  unfold plainServerPack
  cases hdr3
  · simp only [Bool.false_eq_true, if_false, List.nil_append, noneSPacketStart, noneSPacketLen, noneSTooBig] at hpl ⊢
    simp only [plainHead, Bool.false_eq_true, if_false, List.nil_append] at h1 hpl ⊢
    rw [if_neg (by simp only [Decidable.not_not, sliceOk]; omega)]
    split
    · next ht => simp only [decide_eq_true_eq] at ht; simp; omega
    · next ht => simp only [decide_eq_true_eq] at ht; simp; omega
  · simp only [if_true, socks5SPacketStart, socks5SPacketLen, socks5STooBig] at hpl ⊢
    simp only [plainHead, if_true, List.length_append, List.length_cons, List.length_nil] at h1 hpl ⊢
    rw [if_neg (by simp only [Decidable.not_not, sliceOk, List.length_append, List.length_cons, List.length_nil]; omega)]
    split
    · next ht => simp only [decide_eq_true_eq] at ht; simp; omega
    · next ht => simp only [decide_eq_true_eq] at ht; simp; omega

theorem mappedEqual_self (a : AddrPort) : mappedEqual a a = true := by simp [mappedEqual]

/-- the client unpacker on any buffer whose packet window holds `header ++ payload` -/
theorem plainClientUnpack_head (hdr3 : Bool) (server from_ : AddrPort) (hfrom : mappedEqual from_ server = true)
    (bb : Bytes) (q pl : Nat) (a : AddrPort) (ha : a.wf) (payload : Bytes)
    (hwin : sub bb q ((plainHead hdr3 (encodeAddrPort a)).length + pl) = plainHead hdr3 (encodeAddrPort a) ++ payload)
    (hlen : q + (plainHead hdr3 (encodeAddrPort a)).length + pl ≤ bb.length) :
    plainClientUnpack hdr3 server from_ bb q ((plainHead hdr3 (encodeAddrPort a)).length + pl)
      = .ok ⟨bb, a.norm, ((q + (plainHead hdr3 (encodeAddrPort a)).length : Nat) : Int), (pl : Int)⟩ := by
  have hal := encodeAddrPort_length a ha
  have hpl := plainHead_length hdr3 (encodeAddrPort a)
  unfold plainClientUnpack
  rw [if_neg (by simp [hfrom])]
  cases hdr3
  · simp only [plainHead, Bool.false_eq_true, if_false, List.nil_append, false_and] at hwin hlen hpl ⊢
    rw [if_neg (by simp only [Decidable.not_not, sliceOk]; omega)]
    simp only [hwin, decode_encodeAddrPort a payload ha, noneCUPayloadStart, noneCUPayloadLen]
    congr 2 <;> omega
  · simp only [plainHead, if_true, true_and, socks5CUTooSmall, List.length_append, List.length_cons, List.length_nil] at hwin hlen hpl ⊢
    rw [if_neg (by simp only [decide_eq_true_eq]; omega)]
    rw [if_neg (by simp only [Decidable.not_not, sliceOk]; omega)]
    simp only [hwin]
    have e3 : sub (([0, 0, 0] : Bytes) ++ encodeAddrPort a ++ payload) 2 1 = [0] := by
      simp [sub]
    rw [if_neg (by rw [e3]; simp)]
    have e4 : List.drop 3 (([0, 0, 0] : Bytes) ++ encodeAddrPort a ++ payload) = encodeAddrPort a ++ payload := by simp
    simp only [e4, decode_encodeAddrPort a payload ha, socks5CUPayloadStart, socks5CUPayloadLen]
    congr 2 <;> omega

/-- server → client round trip of Shadowsocks-none and SOCKS5 -/
theorem plain_roundtrip_down (hdr3 : Bool) (limit : Int) (server from_ : AddrPort) (hfrom : mappedEqual from_ server = true)
    (b : Bytes) (a : AddrPort) (ps pl : Nat) (r : Packed)
    (ha : a.wf) (hpay : ps + pl ≤ b.length) (h : plainServerPack hdr3 b a ps pl limit = .ok r) :
    plainClientUnpack hdr3 server from_ r.buf r.packetStart.toNat r.packetLen.toNat = .ok ⟨r.buf, a.norm, ps, pl⟩ ∧
    sub r.buf ps pl = sub b ps pl := by
  obtain ⟨h1, h2, h3, h4, _, h6⟩ := plainServerPack_ok ha h
  have e1 : r.packetStart.toNat = ps - (plainHead hdr3 (encodeAddrPort a)).length := by omega
  have e2 : r.packetLen.toNat = (plainHead hdr3 (encodeAddrPort a)).length + pl := by omega
  have hin : ps - (plainHead hdr3 (encodeAddrPort a)).length + (plainHead hdr3 (encodeAddrPort a)).length = ps := by omega
  have hw := sub_splice_ext b (ps - (plainHead hdr3 (encodeAddrPort a)).length) (plainHead hdr3 (encodeAddrPort a)) pl (by omega)
  rw [hin] at hw
  have hL := splice_length b (ps - (plainHead hdr3 (encodeAddrPort a)).length) (plainHead hdr3 (encodeAddrPort a)) (by omega)
  rw [e1, e2, h6]
  constructor
  · have := plainClientUnpack_head hdr3 server from_ hfrom _ (ps - (plainHead hdr3 (encodeAddrPort a)).length) pl a ha (sub b ps pl) hw (by omega)
    rw [this, hin]
  · exact sub_splice_after b (ps - (plainHead hdr3 (encodeAddrPort a)).length) (plainHead hdr3 (encodeAddrPort a)) ps pl (by omega) (by omega)

theorem plainServerPack_frame (hdr3 : Bool) (limit : Int) (b : Bytes) (a : AddrPort) (ps pl : Nat) (r : Packed)
    (ha : a.wf) (hpay : ps + pl ≤ b.length) (h : plainServerPack hdr3 b a ps pl limit = .ok r) :
    r.buf.length = b.length ∧ r.buf.take r.packetStart.toNat = b.take r.packetStart.toNat ∧
    r.buf.drop (r.packetStart + r.packetLen).toNat = b.drop (r.packetStart + r.packetLen).toNat := by
  obtain ⟨h1, h2, h3, h4, _, h6⟩ := plainServerPack_ok ha h
  have e1 : r.packetStart.toNat = ps - (plainHead hdr3 (encodeAddrPort a)).length := by omega
  have e2 : (r.packetStart + r.packetLen).toNat = ps + pl := by omega
  rw [e1, e2, h6]
  refine ⟨splice_length _ _ _ (by omega), splice_take _ _ _ (by omega), splice_drop_ge _ _ _ _ (by omega) (by omega)⟩

end SSV.Packet
