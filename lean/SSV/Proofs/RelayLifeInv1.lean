import SSV.Model.RelayLife
/-
C12 helper lemmas, part 1: program-counter classes and the first invariant (mutex discipline, table/entry link,
channel closed exactly in the clean-up's critical section).  Proved by induction on `Reachable`: one lemma per event.
-/
namespace SSV.RelayLife

def IPc.inCrit : IPc → Bool
  | .cClose | .cDelete | .cUnlock => true
  | _ => false
/-- `delete(table, key)` has been executed -/
def IPc.deleted : IPc → Bool
  | .cUnlock | .cDrain | .done => true
  | _ => false
/-- `close(sendCh)` has been executed -/
def IPc.closed : IPc → Bool
  | .cDelete | .cUnlock | .cDrain | .done => true
  | _ => false
def RPc.holds : RPc → Bool
  | .hold _ | .unlock => true
  | _ => false
def SPc.holds : SPc → Bool
  | .iter | .pend _ | .unlock => true
  | _ => false

theorem IPc.closed_live_crit (p : IPc) : p.closed = true → p.deleted = false → p.inCrit = true := by
  cases p <;> simp [IPc.closed, IPc.deleted, IPc.inCrit]

structure Inv1 (s : State) : Prop where
  muR : s.mu = .recv ↔ s.rpc.holds = true
  muS : s.mu = .stop ↔ s.spc.holds = true
  muC : ∀ i, s.mu = .cleanup i ↔ (i < s.n ∧ (s.ent i).ipc.inCrit = true)
  noPanic : s.panic = false
  tab : ∀ c i, s.table c = some i → i < s.n ∧ (s.ent i).key = c
  inTab : ∀ i, i < s.n → (s.table (s.ent i).key = some i ↔ (s.ent i).ipc.deleted = false)
  closed : ∀ i, i < s.n → ((s.ent i).chClosed = true ↔ (s.ent i).ipc.closed = true)

theorem inv1_initial : Inv1 State.init := by
  constructor <;> simp [State.init, RPc.holds, SPc.holds]

set_option hygiene false in
macro "close_case1" : tactic => `(tactic| (
  first
  | (simp at h; done)
  | (injection h with h; subst h
     constructor <;> simp_all [State.setE, State.inTab, Entry.closeIf, Entry.closeSock] <;>
       grind [IPc.inCrit, IPc.deleted, IPc.closed, RPc.holds, SPc.holds, Entry.fresh, IPc.closed_live_crit])))

variable (cfg : Cfg)

theorem inv1_arrive  (s s' : State) (c : Nat) (hI : Inv1 s) (h : step cfg s (.arrive c) = some s') : Inv1 s' := by
  obtain ⟨a1,a2,a3,a4,a5,a6,a7⟩ := hI
  simp only [step] at h
  (repeat' split at h) <;> close_case1

theorem inv1_rLock  (s s' : State)  (hI : Inv1 s) (h : step cfg s (.rLock ) = some s') : Inv1 s' := by
  obtain ⟨a1,a2,a3,a4,a5,a6,a7⟩ := hI
  simp only [step] at h
  (repeat' split at h) <;> close_case1

theorem inv1_rProc  (s s' : State) (ok : Bool) (hI : Inv1 s) (h : step cfg s (.rProc ok) = some s') : Inv1 s' := by
  obtain ⟨a1,a2,a3,a4,a5,a6,a7⟩ := hI
  simp only [step] at h
  (repeat' split at h) <;> close_case1

theorem inv1_rMore  (s s' : State) (c : Nat) (hI : Inv1 s) (h : step cfg s (.rMore c) = some s') : Inv1 s' := by
  obtain ⟨a1,a2,a3,a4,a5,a6,a7⟩ := hI
  simp only [step] at h
  (repeat' split at h) <;> close_case1

theorem inv1_rUnlock  (s s' : State)  (hI : Inv1 s) (h : step cfg s (.rUnlock ) = some s') : Inv1 s' := by
  obtain ⟨a1,a2,a3,a4,a5,a6,a7⟩ := hI
  simp only [step] at h
  (repeat' split at h) <;> close_case1

theorem inv1_rExit  (s s' : State)  (hI : Inv1 s) (h : step cfg s (.rExit ) = some s') : Inv1 s' := by
  obtain ⟨a1,a2,a3,a4,a5,a6,a7⟩ := hI
  simp only [step] at h
  (repeat' split at h) <;> close_case1

theorem inv1_init  (s s' : State) (i : Nat) (ok : Bool) (hI : Inv1 s) (h : step cfg s (.init i ok) = some s') : Inv1 s' := by
  obtain ⟨a1,a2,a3,a4,a5,a6,a7⟩ := hI
  simp only [step] at h
  (repeat' split at h) <;> close_case1

theorem inv1_dTimeout  (s s' : State) (i : Nat) (hI : Inv1 s) (h : step cfg s (.dTimeout i) = some s') : Inv1 s' := by
  obtain ⟨a1,a2,a3,a4,a5,a6,a7⟩ := hI
  simp only [step] at h
  (repeat' split at h) <;> close_case1

theorem inv1_dPacket  (s s' : State) (i : Nat) (hI : Inv1 s) (h : step cfg s (.dPacket i) = some s') : Inv1 s' := by
  obtain ⟨a1,a2,a3,a4,a5,a6,a7⟩ := hI
  simp only [step] at h
  (repeat' split at h) <;> close_case1

theorem inv1_dSend  (s s' : State) (i : Nat) (hI : Inv1 s) (h : step cfg s (.dSend i) = some s') : Inv1 s' := by
  obtain ⟨a1,a2,a3,a4,a5,a6,a7⟩ := hI
  simp only [step] at h
  (repeat' split at h) <;> close_case1

theorem inv1_uFail  (s s' : State) (i : Nat) (hI : Inv1 s) (h : step cfg s (.uFail i) = some s') : Inv1 s' := by
  obtain ⟨a1,a2,a3,a4,a5,a6,a7⟩ := hI
  simp only [step] at h
  (repeat' split at h) <;> close_case1

theorem inv1_cleanup  (s s' : State) (i : Nat) (hI : Inv1 s) (h : step cfg s (.cleanup i) = some s') : Inv1 s' := by
  obtain ⟨a1,a2,a3,a4,a5,a6,a7⟩ := hI
  simp only [step] at h
  (repeat' split at h) <;> close_case1

theorem inv1_uRecv  (s s' : State) (i : Nat) (k : Nat) (hI : Inv1 s) (h : step cfg s (.uRecv i k) = some s') : Inv1 s' := by
  obtain ⟨a1,a2,a3,a4,a5,a6,a7⟩ := hI
  simp only [step] at h
  (repeat' split at h) <;> close_case1

theorem inv1_uStep  (s s' : State) (i : Nat) (hI : Inv1 s) (h : step cfg s (.uStep i) = some s') : Inv1 s' := by
  obtain ⟨a1,a2,a3,a4,a5,a6,a7⟩ := hI
  simp only [step] at h
  (repeat' split at h) <;> close_case1

theorem inv1_timer  (s s' : State) (i : Nat) (hI : Inv1 s) (h : step cfg s (.timer i) = some s') : Inv1 s' := by
  obtain ⟨a1,a2,a3,a4,a5,a6,a7⟩ := hI
  simp only [step] at h
  (repeat' split at h) <;> close_case1

theorem inv1_stopCall  (s s' : State)  (hI : Inv1 s) (h : step cfg s (.stopCall ) = some s') : Inv1 s' := by
  obtain ⟨a1,a2,a3,a4,a5,a6,a7⟩ := hI
  simp only [step] at h
  (repeat' split at h) <;> close_case1

theorem inv1_stop  (s s' : State)  (hI : Inv1 s) (h : step cfg s (.stop ) = some s') : Inv1 s' := by
  obtain ⟨a1,a2,a3,a4,a5,a6,a7⟩ := hI
  simp only [step] at h
  (repeat' split at h) <;> close_case1

theorem inv1_stopVisit  (s s' : State) (i : Nat) (hI : Inv1 s) (h : step cfg s (.stopVisit i) = some s') : Inv1 s' := by
  obtain ⟨a1,a2,a3,a4,a5,a6,a7⟩ := hI
  simp only [step] at h
  (repeat' split at h) <;> close_case1

theorem inv1_step (s s' : State) (e : Ev) (hI : Inv1 s) (h : step cfg s e = some s') : Inv1 s' := by
  cases e with
  | arrive c => exact inv1_arrive cfg s s' c hI h
  | rLock  => exact inv1_rLock cfg s s'  hI h
  | rProc ok => exact inv1_rProc cfg s s' ok hI h
  | rMore c => exact inv1_rMore cfg s s' c hI h
  | rUnlock  => exact inv1_rUnlock cfg s s'  hI h
  | rExit  => exact inv1_rExit cfg s s'  hI h
  | init i ok => exact inv1_init cfg s s' i ok hI h
  | dTimeout i => exact inv1_dTimeout cfg s s' i hI h
  | dPacket i => exact inv1_dPacket cfg s s' i hI h
  | dSend i => exact inv1_dSend cfg s s' i hI h
  | uFail i => exact inv1_uFail cfg s s' i hI h
  | cleanup i => exact inv1_cleanup cfg s s' i hI h
  | uRecv i k => exact inv1_uRecv cfg s s' i k hI h
  | uStep i => exact inv1_uStep cfg s s' i hI h
  | timer i => exact inv1_timer cfg s s' i hI h
  | stopCall  => exact inv1_stopCall cfg s s'  hI h
  | stop  => exact inv1_stop cfg s s'  hI h
  | stopVisit i => exact inv1_stopVisit cfg s s' i hI h

theorem inv1_reachable {s : State} (h : Reachable cfg s) : Inv1 s := by
  induction h with
  | init => exact inv1_initial
  | step e _ hs ih => exact inv1_step cfg _ _ e ih hs

end SSV.RelayLife
