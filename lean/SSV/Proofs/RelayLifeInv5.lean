import SSV.Proofs.RelayLifeInv4
/-
C12 helper lemmas, part 5: once the initialiser is past its SetReadDeadline the NAT socket has a read deadline for as long
as the downlink can be reading from it (if the source's initialiser arms it: `cfg.initArms`).  Eviction therefore
never depends on the uplink having sent anything.
-/
namespace SSV.RelayLife
variable (cfg : Cfg)

structure Inv5 (cfg : Cfg) (s : State) : Prop where
  d1 : cfg.initArms = true → ∀ i, i < s.n → 4 ≤ (s.ent i).ipc.idx → (s.ent i).ipc.idx ≤ 8 → (s.ent i).dl ≠ .unset

theorem inv5_initial : Inv5 cfg State.init := by
  constructor; simp [State.init]

theorem inv5_arrive (s s' : State) (c : Nat) (h4 : Inv4 cfg s) (hI : Inv5 cfg s) (h : step cfg s (.arrive c) = some s') : Inv5 cfg s' := by
  have s2 := h4.s2
  have u4 := h4.u4
  clear h4
  obtain ⟨d1⟩ := hI
  simp only [step] at h
  (repeat' split at h) <;> close_case4

theorem inv5_rLock (s s' : State)  (h4 : Inv4 cfg s) (hI : Inv5 cfg s) (h : step cfg s (.rLock ) = some s') : Inv5 cfg s' := by
  have s2 := h4.s2
  have u4 := h4.u4
  clear h4
  obtain ⟨d1⟩ := hI
  simp only [step] at h
  (repeat' split at h) <;> close_case4

set_option maxHeartbeats 1600000 in
theorem inv5_rProc (s s' : State) (ok : Bool) (h4 : Inv4 cfg s) (hI : Inv5 cfg s) (h : step cfg s (.rProc ok) = some s') : Inv5 cfg s' := by
  have s2 := h4.s2
  have u4 := h4.u4
  clear h4
  obtain ⟨d1⟩ := hI
  simp only [step] at h
  (repeat' split at h) <;> close_case4

theorem inv5_rMore (s s' : State) (c : Nat) (h4 : Inv4 cfg s) (hI : Inv5 cfg s) (h : step cfg s (.rMore c) = some s') : Inv5 cfg s' := by
  have s2 := h4.s2
  have u4 := h4.u4
  clear h4
  obtain ⟨d1⟩ := hI
  simp only [step] at h
  (repeat' split at h) <;> close_case4

theorem inv5_rUnlock (s s' : State)  (h4 : Inv4 cfg s) (hI : Inv5 cfg s) (h : step cfg s (.rUnlock ) = some s') : Inv5 cfg s' := by
  have s2 := h4.s2
  have u4 := h4.u4
  clear h4
  obtain ⟨d1⟩ := hI
  simp only [step] at h
  (repeat' split at h) <;> close_case4

theorem inv5_rExit (s s' : State)  (h4 : Inv4 cfg s) (hI : Inv5 cfg s) (h : step cfg s (.rExit ) = some s') : Inv5 cfg s' := by
  have s2 := h4.s2
  have u4 := h4.u4
  clear h4
  obtain ⟨d1⟩ := hI
  simp only [step] at h
  (repeat' split at h) <;> close_case4

set_option maxHeartbeats 1600000 in
theorem inv5_init (s s' : State) (i : Nat) (ok : Bool) (h4 : Inv4 cfg s) (hI : Inv5 cfg s) (h : step cfg s (.init i ok) = some s') : Inv5 cfg s' := by
  have s2 := h4.s2
  have u4 := h4.u4
  clear h4
  obtain ⟨d1⟩ := hI
  simp only [step] at h
  (repeat' split at h) <;> close_case4

theorem inv5_dTimeout (s s' : State) (i : Nat) (h4 : Inv4 cfg s) (hI : Inv5 cfg s) (h : step cfg s (.dTimeout i) = some s') : Inv5 cfg s' := by
  have s2 := h4.s2
  have u4 := h4.u4
  clear h4
  obtain ⟨d1⟩ := hI
  simp only [step] at h
  (repeat' split at h) <;> close_case4

theorem inv5_dPacket (s s' : State) (i : Nat) (h4 : Inv4 cfg s) (hI : Inv5 cfg s) (h : step cfg s (.dPacket i) = some s') : Inv5 cfg s' := by
  have s2 := h4.s2
  have u4 := h4.u4
  clear h4
  obtain ⟨d1⟩ := hI
  simp only [step] at h
  (repeat' split at h) <;> close_case4

theorem inv5_dSend (s s' : State) (i : Nat) (h4 : Inv4 cfg s) (hI : Inv5 cfg s) (h : step cfg s (.dSend i) = some s') : Inv5 cfg s' := by
  have s2 := h4.s2
  have u4 := h4.u4
  clear h4
  obtain ⟨d1⟩ := hI
  simp only [step] at h
  (repeat' split at h) <;> close_case4

set_option maxHeartbeats 1600000 in
theorem inv5_cleanup (s s' : State) (i : Nat) (h4 : Inv4 cfg s) (hI : Inv5 cfg s) (h : step cfg s (.cleanup i) = some s') : Inv5 cfg s' := by
  have s2 := h4.s2
  have u4 := h4.u4
  clear h4
  obtain ⟨d1⟩ := hI
  simp only [step] at h
  (repeat' split at h) <;> close_case4

theorem inv5_uRecv (s s' : State) (i : Nat) (k : Nat) (h4 : Inv4 cfg s) (hI : Inv5 cfg s) (h : step cfg s (.uRecv i k) = some s') : Inv5 cfg s' := by
  have s2 := h4.s2
  have u4 := h4.u4
  clear h4
  obtain ⟨d1⟩ := hI
  simp only [step] at h
  (repeat' split at h) <;> close_case4

set_option maxHeartbeats 1600000 in
theorem inv5_uStep (s s' : State) (i : Nat) (h4 : Inv4 cfg s) (hI : Inv5 cfg s) (h : step cfg s (.uStep i) = some s') : Inv5 cfg s' := by
  have s2 := h4.s2
  have u4 := h4.u4
  clear h4
  obtain ⟨d1⟩ := hI
  simp only [step] at h
  (repeat' split at h) <;> close_case4

theorem inv5_uFail (s s' : State) (i : Nat) (h4 : Inv4 cfg s) (hI : Inv5 cfg s) (h : step cfg s (.uFail i) = some s') : Inv5 cfg s' := by
  have s2 := h4.s2
  have u4 := h4.u4
  clear h4
  obtain ⟨d1⟩ := hI
  simp only [step] at h
  (repeat' split at h) <;> close_case4

theorem inv5_timer (s s' : State) (i : Nat) (h4 : Inv4 cfg s) (hI : Inv5 cfg s) (h : step cfg s (.timer i) = some s') : Inv5 cfg s' := by
  have s2 := h4.s2
  have u4 := h4.u4
  clear h4
  obtain ⟨d1⟩ := hI
  simp only [step] at h
  (repeat' split at h) <;> close_case4

theorem inv5_stopCall (s s' : State)  (h4 : Inv4 cfg s) (hI : Inv5 cfg s) (h : step cfg s (.stopCall ) = some s') : Inv5 cfg s' := by
  have s2 := h4.s2
  have u4 := h4.u4
  clear h4
  obtain ⟨d1⟩ := hI
  simp only [step] at h
  (repeat' split at h) <;> close_case4

set_option maxHeartbeats 1600000 in
theorem inv5_stop (s s' : State)  (h4 : Inv4 cfg s) (hI : Inv5 cfg s) (h : step cfg s (.stop ) = some s') : Inv5 cfg s' := by
  have s2 := h4.s2
  have u4 := h4.u4
  clear h4
  obtain ⟨d1⟩ := hI
  simp only [step] at h
  (repeat' split at h) <;> close_case4

set_option maxHeartbeats 1600000 in
theorem inv5_stopVisit (s s' : State) (i : Nat) (h4 : Inv4 cfg s) (hI : Inv5 cfg s) (h : step cfg s (.stopVisit i) = some s') : Inv5 cfg s' := by
  have s2 := h4.s2
  have u4 := h4.u4
  clear h4
  obtain ⟨d1⟩ := hI
  simp only [step] at h
  (repeat' split at h) <;> close_case4

theorem inv5_step (s s' : State) (e : Ev) (h4 : Inv4 cfg s) (hI : Inv5 cfg s) (h : step cfg s e = some s') : Inv5 cfg s' := by
  cases e with
  | arrive c => exact inv5_arrive cfg s s' c h4 hI h
  | rLock  => exact inv5_rLock cfg s s'  h4 hI h
  | rProc ok => exact inv5_rProc cfg s s' ok h4 hI h
  | rMore c => exact inv5_rMore cfg s s' c h4 hI h
  | rUnlock  => exact inv5_rUnlock cfg s s'  h4 hI h
  | rExit  => exact inv5_rExit cfg s s'  h4 hI h
  | init i ok => exact inv5_init cfg s s' i ok h4 hI h
  | dTimeout i => exact inv5_dTimeout cfg s s' i h4 hI h
  | dPacket i => exact inv5_dPacket cfg s s' i h4 hI h
  | dSend i => exact inv5_dSend cfg s s' i h4 hI h
  | cleanup i => exact inv5_cleanup cfg s s' i h4 hI h
  | uRecv i k => exact inv5_uRecv cfg s s' i k h4 hI h
  | uStep i => exact inv5_uStep cfg s s' i h4 hI h
  | uFail i => exact inv5_uFail cfg s s' i h4 hI h
  | timer i => exact inv5_timer cfg s s' i h4 hI h
  | stopCall  => exact inv5_stopCall cfg s s'  h4 hI h
  | stop  => exact inv5_stop cfg s s'  h4 hI h
  | stopVisit i => exact inv5_stopVisit cfg s s' i h4 hI h

end SSV.RelayLife
