import SSV.Proofs.PacketShapes
import SSV.Model.PacketRelay
/- C05 helper lemmas: the relay step (unpack, then re-pack in place) under the layout the services compute. -/
namespace SSV.Packet
open SSV SSV.Gen.C05

/-- front bytes a client packer of protocol `p` needs for address `a` without padding -/
def clientNeed : Proto → Addr → Int
  | .direct, _ => 0
  | .none, a => addrLen a
  | .socks5, a => 3 + addrLen a
  | .ss2022 k, a => 16 + 16 * k + 11 + addrLen a

/-- bytes a packer of protocol `p` needs behind the payload -/
def rearNeed : Proto → Int
  | .ss2022 _ => 16
  | _ => 0

def ServerU.ok : ServerU → Prop
  | .direct target => target.wf ∧ target ≠ .zero
  | .plain _ => True
  | .ss c _ _ _ _ _ _ => c.Laws

/-- what any server-side unpacker returns at offset `front` for a packet of `n` bytes -/
theorem serverU_shape (s : ServerU) (hs : s.ok) (b : Bytes) (front n : Nat) (u : Unpacked Addr) (hfit : front + n ≤ b.length)
    (h : s.run b front n = .ok u) :
    u.buf.length = b.length ∧ u.addr.wf ∧ u.addr ≠ .zero ∧
    ∃ hdr : Nat, u.payloadStart = (front + hdr : Nat) ∧ u.payloadLen + hdr + rearNeed s.proto = n ∧ 0 ≤ u.payloadLen ∧
      clientNeed s.proto u.addr ≤ hdr := by
  cases s with
  | direct target =>
    simp only [ServerU.run, directServerUnpack, Outcome.ok.injEq] at h
    subst h
    exact ⟨rfl, hs.1, hs.2, 0, by simp, by simp [ServerU.proto, rearNeed], by simp, by simp [ServerU.proto, clientNeed]⟩
  | plain hdr3 =>
    obtain ⟨h1, h2, h3, h4, hdr, h5, h6, h7, h8⟩ := plainServerUnpack_ok h
    refine ⟨by rw [h1], h2, h3, hdr, h5, ?_, h7, ?_⟩
    · cases hdr3 <;> simp only [ServerU.proto, rearNeed] <;> omega
    · cases hdr3 <;> simp only [ServerU.proto, clientNeed] <;> simp at h8 <;> omega
  | ss c block key k lookup users now =>
    obtain ⟨h1, h2, h3, h4, hdr, h5, h6, h7, h8⟩ := ssServerUnpack_ok hs h
    refine ⟨h1, h2, h3, hdr, h5, ?_, h7, ?_⟩
    · simp only [ServerU.proto, rearNeed]; omega
    · simp only [ServerU.proto, clientNeed]; omega

theorem serverU_safe (s : ServerU) (b : Bytes) (front n : Nat) (hfit : front + n ≤ b.length) : (s.run b front n).safe := by
  cases s with
  | direct target => simp [ServerU.run, directServerUnpack, Outcome.safe]
  | plain hdr3 => exact plainServerUnpack_safe hdr3 b front n hfit
  | ss c block key k lookup users now => exact ssServerUnpack_safe c block key k lookup users now b front n hfit

/-- any client packer is safe once the front space holds its unpadded header and the rear its tag -/
theorem clientP_safe (cp : ClientP) (b : Bytes) (a : Addr) (ps pl : Nat) (ha : a.wf) (hz : a ≠ .zero)
    (hfront : clientNeed cp.proto a ≤ ps) (hps : ps ≤ b.length) (hrear : (ps : Int) + pl + rearNeed cp.proto ≤ b.length) :
    (cp.run b a ps pl).safe := by
  cases cp with
  | direct mtu resolved =>
    simp only [ClientP.run, directClientPack]
    cases a with
    | zero => exact absurd rfl hz
    | ip ap => simp only; split <;> simp [Outcome.safe]
    | dom nm p => cases resolved <;> simp only <;> (try split) <;> simp [Outcome.safe]
  | plain hdr3 limit =>
    have hl := encodeAddr_length a ha
    have hp := plainHead_length hdr3 (encodeAddr a)
    apply plainClientPack_safe hdr3 limit b a ps pl ha _ hps
    cases hdr3 <;> simp only [ClientP.proto, clientNeed] at hfront <;> simp at hp <;> omega
  | ss c userBlock aeadKey eih mps pol rand ts sid pid =>
    apply ssClientPack_safe _ _ _ _ _ _ _ _ _ _ _ _ _ _ ha
    simp only [ClientP.proto, rearNeed] at hrear
    omega

/-- the arithmetic core of the front headroom: what the packer needs in front, minus the header the unpacker
strips, is covered by `UDPRelayHeadroom` of the two declared headrooms -/
theorem relay_front_core (s c : Proto) (a : Addr) (ha : a.wf) (hdr : Int) (hhdr : clientNeed s a ≤ hdr) (maxClient : Headroom)
    (hmax : (clientPackerHeadroom c).front ≤ maxClient.front) :
    clientNeed c a - hdr ≤ (relayHeadroom maxClient (serverUnpackerHeadroom s)).front := by
  obtain ⟨hal1, hal2⟩ := addrLen_bounds a ha
  cases s <;> cases c <;>
    simp only [clientNeed, relayHeadroom, relayHeadroomFront, serverUnpackerHeadroom, clientPackerHeadroom,
      noneClientHeadroomFront, socks5ClientHeadroomFront, ssClientHeadroomFront, IdentityHeaderLength] at * <;>
    omega

theorem relay_rear_core (s c : Proto) (maxClient : Headroom) (hmax : (clientPackerHeadroom c).rear ≤ maxClient.rear) :
    rearNeed c - rearNeed s ≤ (relayHeadroom maxClient (serverUnpackerHeadroom s)).rear := by
  cases s <;> cases c <;>
    simp only [rearNeed, relayHeadroom, relayHeadroomRear, serverUnpackerHeadroom, clientPackerHeadroom,
      noneClientHeadroomRear, socks5ClientHeadroomRear, ssClientHeadroomRear] at * <;>
    omega

/-- Uplink relay safety: for every server protocol × client protocol, every `maxClientPackerHeadroom` that
dominates the client's, every MTU, every packet of at most the receive size received at the offset
`ServerConfig.UDPRelay` computes in a buffer of the size it allocates: unpacking and re-packing in place
never index outside the buffer and never lack seal room. -/
theorem relay_up_safe (s : ServerU) (cp : ClientP) (hs : s.ok) (maxClient : Headroom) (mtu : Int) (b : Bytes) (n : Nat)
    (hmaxF : (clientPackerHeadroom cp.proto).front ≤ maxClient.front)
    (hmaxR : (clientPackerHeadroom cp.proto).rear ≤ maxClient.rear)
    (hb : (b.length : Int) = (uplinkLayout mtu maxClient s.proto).bufSize)
    (hn : (n : Int) ≤ (uplinkLayout mtu maxClient s.proto).recvSize) :
    (relayUplink s cp b (uplinkLayout mtu maxClient s.proto).front.toNat n).safe := by
  have hfront0 : 0 ≤ (relayHeadroom maxClient (serverUnpackerHeadroom s.proto)).front := by
    simp only [relayHeadroom, relayHeadroomFront]; omega
  have hrear0 : 0 ≤ (relayHeadroom maxClient (serverUnpackerHeadroom s.proto)).rear := by
    simp only [relayHeadroom, relayHeadroomRear]; omega
  simp only [uplinkLayout, uplinkBufSize] at hb hn ⊢
  generalize hF : (relayHeadroom maxClient (serverUnpackerHeadroom s.proto)).front = F at *
  generalize hR : (relayHeadroom maxClient (serverUnpackerHeadroom s.proto)).rear = R at *
  have hfit : F.toNat + n ≤ b.length := by omega
  unfold relayUplink
  have hsafe := serverU_safe s b F.toNat n hfit
  generalize hrun : s.run b F.toNat n = o at hsafe
  cases o with
  | err e => simp [Outcome.safe]
  | panic => simp [Outcome.safe] at hsafe
  | noRoom => simp [Outcome.safe] at hsafe
  | ok u =>
    simp only
    obtain ⟨hlen, hw, hz, hdr, hps, hpl, hpl0, hneed⟩ := serverU_shape s hs b F.toNat n u hfit hrun
    have hcoreF := relay_front_core s.proto cp.proto u.addr hw hdr hneed maxClient hmaxF
    have hcoreR := relay_rear_core s.proto cp.proto maxClient hmaxR
    rw [hF] at hcoreF
    rw [hR] at hcoreR
    have hr0 : 0 ≤ rearNeed s.proto := by cases s.proto <;> simp [rearNeed]
    have hr1 : 0 ≤ rearNeed cp.proto := by cases cp.proto <;> simp [rearNeed]
    apply clientP_safe cp u.buf u.addr _ _ hw hz
    · omega
    · omega
    · omega


/-- front bytes a server packer of protocol `p` needs for source address `a` without padding -/
def serverNeed : Proto → AddrPort → Int
  | .direct, _ => 0
  | .none, a => addrPortLen a
  | .socks5, a => 3 + addrPortLen a
  | .ss2022 _, a => 16 + 19 + addrPortLen a

def ClientU.ok : ClientU → Prop
  | .ss c _ _ _ _ => c.Laws
  | _ => True

/-- `tunnelUDPTargetOnly` requires an IP tunnel address (a domain makes `p.targetAddr.IPPort()` panic: finding F4,
decided under C06/C18); this is the precondition under which the direct server packer is modelled as safe -/
def ServerP.ok : ServerP → Prop
  | .direct target only => only = true → ∃ t, target = .ip t
  | _ => True

theorem clientU_shape (cu : ClientU) (hc : cu.ok) (src : AddrPort) (hsrc : src.wf) (b : Bytes) (front n : Nat)
    (u : Unpacked AddrPort) (h : cu.run src b front n = .ok u) :
    u.buf.length = b.length ∧ u.addr.wf ∧
    ∃ hdr : Nat, u.payloadStart = (front + hdr : Nat) ∧ u.payloadLen + hdr + rearNeed cu.proto = n ∧ 0 ≤ u.payloadLen ∧
      serverNeed cu.proto u.addr ≤ hdr := by
  cases cu with
  | direct =>
    simp only [ClientU.run, directClientUnpack, Outcome.ok.injEq] at h
    subst h
    exact ⟨rfl, hsrc, 0, by simp, by simp [ClientU.proto, rearNeed], by simp, by simp [ClientU.proto, serverNeed]⟩
  | plain hdr3 server =>
    obtain ⟨h1, h2, h4, hdr, h5, h6, h7, h8⟩ := plainClientUnpack_ok h
    refine ⟨by rw [h1], h2, hdr, h5, ?_, h7, ?_⟩
    · cases hdr3 <;> simp only [ClientU.proto, rearNeed] <;> omega
    · cases hdr3 <;> simp only [ClientU.proto, serverNeed] <;> simp at h8 <;> omega
  | ss c block key csid now =>
    obtain ⟨h1, h2, h4, hdr, h5, h6, h7, h8⟩ := ssClientUnpack_ok hc h
    refine ⟨h1, h2, hdr, h5, ?_, h7, ?_⟩
    · simp only [ClientU.proto, rearNeed]; omega
    · simp only [ClientU.proto, serverNeed]; omega

theorem clientU_safe (cu : ClientU) (src : AddrPort) (b : Bytes) (front n : Nat) (hfit : front + n ≤ b.length) :
    (cu.run src b front n).safe := by
  cases cu with
  | direct => simp [ClientU.run, directClientUnpack, Outcome.safe]
  | plain hdr3 server => exact plainClientUnpack_safe hdr3 server src b front n hfit
  | ss c block key csid now => exact ssClientUnpack_safe c block key csid now b front n hfit

theorem serverP_safe (sp : ServerP) (hsp : sp.ok) (b : Bytes) (a : AddrPort) (ps pl : Nat) (lim : Int) (ha : a.wf)
    (hfront : serverNeed sp.proto a ≤ ps) (hps : ps ≤ b.length) (hrear : (ps : Int) + pl + rearNeed sp.proto ≤ b.length) :
    (sp.run b a ps pl lim).safe := by
  cases sp with
  | direct target only =>
    simp only [ServerP.run, directServerPack]
    cases only
    · simp only [Bool.false_eq_true, if_false]; split <;> simp [Outcome.safe]
    · obtain ⟨t, rfl⟩ := hsp rfl
      simp only [if_true]
      split
      · simp [Outcome.safe]
      · split <;> simp [Outcome.safe]
  | plain hdr3 =>
    have hl := encodeAddrPort_length a ha
    have hp := plainHead_length hdr3 (encodeAddrPort a)
    apply plainServerPack_safe hdr3 lim b a ps pl ha _ hps
    cases hdr3 <;> simp only [ServerP.proto, serverNeed] at hfront <;> simp at hp <;> omega
  | ss c block key pol rand ts ssid spid csid =>
    apply ssServerPack_safe
    simp only [ServerP.proto, rearNeed] at hrear
    omega

theorem relay_front_core_down (sp cu : Proto) (a : AddrPort) (hdr : Int) (hhdr : serverNeed cu a ≤ hdr) :
    serverNeed sp a - hdr ≤ (relayHeadroom (serverPackerHeadroom sp) (clientUnpackerHeadroom cu)).front := by
  obtain ⟨hal1, hal2⟩ := addrPortLen_bounds a
  cases sp <;> cases cu <;>
    simp only [serverNeed, relayHeadroom, relayHeadroomFront, serverPackerHeadroom, clientUnpackerHeadroom,
      noneServerHeadroomFront, socks5ServerHeadroomFront, ssServerHeadroomFront] at * <;>
    omega

theorem relay_rear_core_down (sp cu : Proto) :
    rearNeed sp - rearNeed cu ≤ (relayHeadroom (serverPackerHeadroom sp) (clientUnpackerHeadroom cu)).rear := by
  cases sp <;> cases cu <;>
    simp only [rearNeed, relayHeadroom, relayHeadroomRear, serverPackerHeadroom, clientUnpackerHeadroom,
      noneServerHeadroomRear, socks5ServerHeadroomRear, ssServerHeadroomRear] <;>
    omega

/-- Downlink relay safety (both relay services): every client protocol × server protocol, every packet of at most
`natConnRecvBufSize` bytes received at `headroom.Front` of the buffer `relayNatConnToServerConn*` allocates. -/
theorem relay_down_safe (cu : ClientU) (sp : ServerP) (hc : cu.ok) (hsp : sp.ok) (session : Bool) (recvSize : Int)
    (src : AddrPort) (hsrc : src.wf) (b : Bytes) (n : Nat) (lim : Int)
    (hb : (b.length : Int) = (downlinkLayout session recvSize sp.proto cu.proto).bufSize)
    (hn : (n : Int) ≤ recvSize) :
    (relayDownlink cu sp src b (downlinkLayout session recvSize sp.proto cu.proto).front.toNat n lim).safe := by
  have hfront0 : 0 ≤ (relayHeadroom (serverPackerHeadroom sp.proto) (clientUnpackerHeadroom cu.proto)).front := by
    simp only [relayHeadroom, relayHeadroomFront]; omega
  have hrear0 : 0 ≤ (relayHeadroom (serverPackerHeadroom sp.proto) (clientUnpackerHeadroom cu.proto)).rear := by
    simp only [relayHeadroom, relayHeadroomRear]; omega
  have hbs : (b.length : Int) = (relayHeadroom (serverPackerHeadroom sp.proto) (clientUnpackerHeadroom cu.proto)).front + recvSize +
      (relayHeadroom (serverPackerHeadroom sp.proto) (clientUnpackerHeadroom cu.proto)).rear := by
    rw [hb]; simp only [downlinkLayout, downlinkBufSize_udp_session, downlinkBufSize_udp_nat]; cases session <;> simp
  simp only [downlinkLayout]
  generalize hF : (relayHeadroom (serverPackerHeadroom sp.proto) (clientUnpackerHeadroom cu.proto)).front = F at *
  generalize hR : (relayHeadroom (serverPackerHeadroom sp.proto) (clientUnpackerHeadroom cu.proto)).rear = R at *
  have hfit : F.toNat + n ≤ b.length := by omega
  unfold relayDownlink
  have hsafe := clientU_safe cu src b F.toNat n hfit
  generalize hrun : cu.run src b F.toNat n = o at hsafe
  cases o with
  | err e => simp [Outcome.safe]
  | panic => simp [Outcome.safe] at hsafe
  | noRoom => simp [Outcome.safe] at hsafe
  | ok u =>
    simp only
    obtain ⟨hlen, hw, hdr, hps, hpl, hpl0, hneed⟩ := clientU_shape cu hc src hsrc b F.toNat n u hrun
    have hcoreF := relay_front_core_down sp.proto cu.proto u.addr hdr hneed
    have hcoreR := relay_rear_core_down sp.proto cu.proto
    rw [hF] at hcoreF
    rw [hR] at hcoreR
    have hr0 : 0 ≤ rearNeed sp.proto := by cases sp.proto <;> simp [rearNeed]
    have hr1 : 0 ≤ rearNeed cu.proto := by cases cu.proto <;> simp [rearNeed]
    apply serverP_safe sp hsp u.buf u.addr _ _ lim hw
    · omega
    · omega
    · omega


end SSV.Packet
