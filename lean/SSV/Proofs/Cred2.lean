import SSV.Proofs.Cred
/-
C08 helper lemmas, part 2: each critical section of the regenerated programs keeps the invariant;
every atomic segment a thread can be about to run keeps it; hence every sequential call and every
action of a concurrent run keeps it.
-/
namespace SSV.Cred
open SSV.Gen.C08
variable (H : Key → Hash)

/-- the critical sections (the part of each regenerated program from its `lock` on) -/
def csAdd : List Step := addProg.drop 2
def csUpdate : List Step := updateProg.drop 1
def csDelete : List Step := deleteProg
def csLoad : List Step := loadProg

theorem cs_add (st : St) (r : Regs) (hi : Inv H st) : Inv H (runLocked H csAdd st r).1 := by
  have hp : csAdd = [.lock, .guardAbsent, .hashKey, .guardHashFree, .mkConfig, .guardConfigOk, .mkCred, .cacheSet, .lookupSet, .liveSet, .unlock, .enqueueSave, .ret] := rfl
  rw [hp]
  by_cases h1 : (find st.cache r.name).isSome = true
  · simp [runLocked, exec, touch, h1]; exact hi
  by_cases h2 : (find st.lookup (H r.key)).isSome = true
  · simp [runLocked, exec, touch, h1, h2]; exact hi
  simp [runLocked, exec, touch, h1, h2, hi.loaded, liveUpd]
  exact inv_add H hi r.name r.key (isSome_false h1) (isSome_false h2)

theorem cs_update (st : St) (r : Regs) (hi : Inv H st) : Inv H (runLocked H csUpdate st r).1 := by
  have hp : csUpdate = [.lock, .loadUc, .guardPresent, .guardKeyDiffers, .hashKey, .guardHashFree, .mkConfig, .guardConfigOk, .saveOldHash, .cacheUpdKey, .lookupDelOld, .lookupSet, .liveDelOldSet, .unlock, .enqueueSave, .ret] := rfl
  rw [hp]
  cases h0 : find st.cache r.name with
  | none => simp [runLocked, exec, touch, h0]; exact hi
  | some k0 =>
    by_cases h1 : k0 = r.key
    · simp [runLocked, exec, touch, h0, h1]; exact hi
    by_cases h2 : (find st.lookup (H r.key)).isSome = true
    · simp [runLocked, exec, touch, h0, h1, h2]; exact hi
    simp [runLocked, exec, touch, h0, h1, h2, liveUpd]
    exact inv_update H hi r.name r.key k0 h0 (isSome_false h2)

theorem cs_delete (st : St) (r : Regs) (hi : Inv H st) : Inv H (runLocked H csDelete st r).1 := by
  have hp : csDelete = [.lock, .loadUc, .guardPresent, .cacheDel, .lookupDelUc, .liveDelUc, .unlock, .enqueueSave, .ret] := rfl
  rw [hp]
  cases h0 : find st.cache r.name with
  | none => simp [runLocked, exec, touch, h0]; exact hi
  | some k0 =>
    simp [runLocked, exec, touch, h0, liveUpd]
    exact inv_delete H hi r.name k0 h0


theorem cs_load (st : St) (r : Regs) (hf : st.fault = false) :
    ((runLocked H csLoad st r).1 = st ∧ ((runLocked H csLoad st r).2.res = some .ok → st.loaded = true)) ∨
    Inv H (runLocked H csLoad st r).1 := by
  have hp : csLoad = [.lock, .readFile, .deferClose, .guardChangedLoaded, .decode, .guardDecodeOk, .buildMaps, .setCachedContent, .setLookup, .setCache, .liveReplaceTcpLocal, .liveReplaceUdpLocal, .unlock, .ret] := rfl
  rw [hp]
  by_cases hskip : st.loaded = true ∧ st.file = st.cachedContent
  · left
    simp [runLocked, exec, touch, hskip.1, hskip.2]
  cases hd : decodeDoc st.file with
  | none =>
    left
    simp [runLocked, exec, touch, hskip, hd]
  | some l =>
    cases hb : build H st.pskLen l with
    | none =>
      left
      simp [runLocked, exec, touch, hskip, hd, hb]
    | some pr =>
      obtain ⟨lk, c⟩ := pr
      right
      simp [runLocked, exec, touch, hskip, hd, hb]
      have hk := build_ok H st.pskLen l lk c hb (decodeDoc_nodup _ _ hd)
      exact inv_load H hf st.file lk c (build_nodup H _ _ _ _ hb) ⟨hk.1, hk.2.1⟩

theorem cs_load_inv (st : St) (r : Regs) (hi : Inv H st) : Inv H (runLocked H csLoad st r).1 := by
  rcases cs_load H st r hi.noFault with h | h
  · rw [h.1]; exact hi
  · exact h

/-! ### steps outside the lock -/

def neutral : Step → Bool
  | .guardName | .guardLen | .enqueueSave | .ret | .readFile | .deferClose => true
  | _ => false

def outSt : Out → St
  | .next st _ => st
  | .done _ st => st

theorem neutral_inv (s : Step) (hs : neutral s = true) (st : St) (r : Regs) (hi : Inv H st) :
    Inv H (outSt (exec H s st r)) := by
  cases s <;> simp [neutral] at hs
  · simp only [exec]; split <;> exact hi
  · simp only [exec]; split <;> exact hi
  · exact ⟨hi.loaded, hi.noFault, hi.nodup, hi.sound, hi.complete, hi.tcp_eq, hi.udp_eq⟩
  · exact hi
  · exact hi
  · exact hi

theorem seg_neutral (s : Step) (hs : neutral s = true) (rest : List Step) (st : St) (r : Regs) (res : Option Res) :
    (seg H st { prog := s :: rest, regs := r, res := res }).1 = outSt (exec H s st r) := by
  cases s <;> simp [neutral] at hs <;> simp only [seg] <;> cases exec H _ st r <;> rfl

/-! ### every segment boundary of the regenerated programs -/

def okHead (q : List Step) : Bool :=
  match q with
  | [] => true
  | s :: _ => neutral s || q == csAdd || q == csUpdate || q == csDelete || q == csLoad

theorem allCuts_ok : ∀ q ∈ allCuts, okHead q = true := by decide

theorem allCuts_closed : ∀ q ∈ allCuts, dropSeg q ∈ allCuts := by decide

theorem nil_mem_allCuts : [] ∈ allCuts := by decide

theorem progs_sub : ∀ p ∈ progs, p ∈ allCuts := by decide

/-- a segment of a thread that stands at a segment boundary of a regenerated program keeps the invariant -/
theorem seg_inv (t : Thread) (ht : t.prog ∈ allCuts) (st : St) (hi : Inv H st) : Inv H (seg H st t).1 := by
  obtain ⟨q, r, res⟩ := t
  have hk := allCuts_ok q ht
  cases q with
  | nil => exact hi
  | cons s rest =>
    simp only [okHead, Bool.or_eq_true, beq_iff_eq] at hk
    rcases hk with (((hk | hk) | hk) | hk) | hk
    · rw [seg_neutral H s hk]; exact neutral_inv H s hk st r hi
    · rw [hk]; exact cs_add H st r hi
    · rw [hk]; exact cs_update H st r hi
    · rw [hk]; exact cs_delete H st r hi
    · rw [hk]; exact cs_load_inv H st r hi

theorem runLocked_prog (p : List Step) (st : St) (r : Regs) :
    (runLocked H p st r).2.prog = afterUnlock p ∨ (runLocked H p st r).2.prog = [] := by
  induction p generalizing st r with
  | nil => right; rfl
  | cons s rest ih =>
    unfold runLocked
    cases exec H s st r with
    | done res st' => right; rfl
    | next st' r' =>
      by_cases hs : s = .unlock
      · left; simp [hs, afterUnlock]
      · simp only [hs, if_false, afterUnlock]
        exact ih st' r'

theorem seg_prog (t : Thread) (st : St) :
    (seg H st t).2.prog = dropSeg t.prog ∨ (seg H st t).2.prog = [] := by
  obtain ⟨q, r, res⟩ := t
  cases q with
  | nil => right; rfl
  | cons s rest =>
    by_cases hl : s = .lock
    · subst hl
      have := runLocked_prog H (.lock :: rest) st r
      simpa [seg, dropSeg, afterUnlock] using this
    · have hd : dropSeg (s :: rest) = rest := by cases s <;> first | rfl | exact absurd rfl hl
      have hsg : (seg H st { prog := s :: rest, regs := r, res := res }) =
          (match exec H s st r with
           | .done res' st' => (st', { prog := [], regs := r, res := some res' })
           | .next st' r' => (st', { prog := rest, regs := r', res := none })) := by
        cases s <;> first | rfl | exact absurd rfl hl
      rw [hsg, hd]
      cases exec H s st r with
      | done res' st' => right; rfl
      | next st' r' => left; rfl

theorem seg_mem (t : Thread) (ht : t.prog ∈ allCuts) (st : St) : (seg H st t).2.prog ∈ allCuts := by
  rcases seg_prog H t st with h | h
  · rw [h]; exact allCuts_closed _ ht
  · rw [h]; exact nil_mem_allCuts

/-! ### sequential calls -/

theorem runThread_inv (n : Nat) (st : St) (t : Thread) (ht : t.prog ∈ allCuts) (hi : Inv H st) :
    Inv H (runThread H n st t).1 := by
  induction n generalizing st t with
  | zero => exact hi
  | succ n ih =>
    unfold runThread
    cases hq : t.prog with
    | nil => simpa [hq] using hi
    | cons s rest =>
      simp only []
      exact ih _ _ (seg_mem H t ht st) (seg_inv H t ht st hi)

theorem thread_mem (op : Op) : op.thread.prog ∈ allCuts := by
  cases op <;> exact progs_sub _ (by simp [Op.thread, progs])

theorem call_inv (st : St) (op : Op) (hi : Inv H st) : Inv H (call H st op).1 := by
  unfold call
  exact runThread_inv H _ st _ (thread_mem op) hi

theorem dequeue_inv (st : St) (hi : Inv H st) : Inv H (dequeue st) := by
  unfold dequeue
  split
  · exact ⟨hi.loaded, hi.noFault, hi.nodup, hi.sound, hi.complete, hi.tcp_eq, hi.udp_eq⟩
  · exact hi

theorem save_inv (st : St) (hi : Inv H st) : Inv H (save st) := by
  unfold save
  split
  · exact ⟨hi.loaded, hi.noFault, hi.nodup, hi.sound, hi.complete, hi.tcp_eq, hi.udp_eq⟩
  · exact hi

theorem applyEv_inv (st : St) (e : Ev) (hi : Inv H st) : Inv H (applyEv H st e) := by
  cases e with
  | api op => exact call_inv H st op hi
  | edit d => exact ⟨hi.loaded, hi.noFault, hi.nodup, hi.sound, hi.complete, hi.tcp_eq, hi.udp_eq⟩
  | tick => exact save_inv H _ (dequeue_inv H st hi)

theorem runHist_inv (evs : List Ev) (st : St) (hi : Inv H st) : Inv H (runHist H st evs) := by
  induction evs generalizing st with
  | nil => exact hi
  | cons e evs ih => exact ih _ (applyEv_inv H st e hi)

/-! ### concurrent runs -/

structure SysInv (s : Sys) : Prop where
  inv : Inv H s.st
  cuts : ∀ t ∈ s.threads, t.prog ∈ allCuts

theorem act_inv (s : Sys) (a : Act) (hs : SysInv H s) : SysInv H (s.act H a) := by
  cases a with
  | thread i =>
    simp only [Sys.act]
    cases hti : s.threads[i]? with
    | none => simpa [hti] using hs
    | some t =>
      have hmem : t ∈ s.threads := List.mem_of_getElem? hti
      have htc := hs.cuts t hmem
      refine ⟨seg_inv H t htc s.st hs.inv, ?_⟩
      intro t' ht'
      rcases List.mem_or_eq_of_mem_set ht' with h | h
      · exact hs.cuts t' h
      · rw [h]; exact seg_mem H t htc s.st
  | dequeue => exact ⟨dequeue_inv H _ hs.inv, hs.cuts⟩
  | save => exact ⟨save_inv H _ hs.inv, hs.cuts⟩
  | edit d =>
    exact ⟨⟨hs.inv.loaded, hs.inv.noFault, hs.inv.nodup, hs.inv.sound, hs.inv.complete, hs.inv.tcp_eq, hs.inv.udp_eq⟩, hs.cuts⟩

theorem run_inv (as : List Act) (s : Sys) (hs : SysInv H s) : SysInv H (s.run H as) := by
  induction as generalizing s with
  | nil => exact hs
  | cons a as ih => exact ih _ (act_inv H s a hs)

theorem start_inv (st : St) (ops : List Op) (hi : Inv H st) : SysInv H (Sys.start st ops) := by
  refine ⟨hi, ?_⟩
  intro t ht
  simp only [Sys.start, List.mem_map] at ht
  obtain ⟨op, _, rfl⟩ := ht
  exact thread_mem op

end SSV.Cred
