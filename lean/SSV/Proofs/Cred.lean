import SSV.Model.Cred
/-
Helper lemmas for C08: association lists, the consistency invariant of the credential manager,
and its preservation by every atomic segment of the four regenerated step programs.
-/
namespace SSV.Cred
open SSV.Gen.C08

/-! ### association lists -/

section amap
variable {α β : Type} [DecidableEq α]

theorem find_erase (m : List (α × β)) (a x : α) :
    find (erase m a) x = if a = x then none else find m x := by
  induction m with
  | nil => simp [erase, find]
  | cons p m ih =>
    obtain ⟨a', b'⟩ := p
    by_cases h : a' = a
    · subst h
      simp only [erase, if_true, ih]
      by_cases hx : a' = x
      · simp [hx]
      · simp [find, hx]
    · simp only [erase, h, if_false, find]
      by_cases hx : a' = x
      · subst hx
        have : ¬ a = a' := fun e => h e.symm
        simp [this]
      · simp [hx, ih]

theorem find_insert (m : List (α × β)) (a : α) (b : β) (x : α) :
    find (insert m a b) x = if a = x then some b else find m x := by
  unfold insert
  by_cases h : a = x
  · simp [find, h]
  · simp [find, h, find_erase]

theorem find_nil (x : α) : find ([] : List (α × β)) x = none := rfl

end amap

/-! ### names of an association list -/

theorem find_some_mem {α β : Type} [DecidableEq α] (m : List (α × β)) (a : α) (b : β)
    (h : find m a = some b) : a ∈ m.map Prod.fst := by
  induction m with
  | nil => simp [find] at h
  | cons p m ih =>
    obtain ⟨a', b'⟩ := p
    by_cases e : a' = a
    · simp [e]
    · simp only [find, e, if_false] at h
      simp [ih h]

theorem names_erase {α β : Type} [DecidableEq α] (m : List (α × β)) (a x : α)
    (h : x ∈ (erase m a).map Prod.fst) : x ∈ m.map Prod.fst ∧ x ≠ a := by
  induction m with
  | nil => simp [erase] at h
  | cons p m ih =>
    obtain ⟨a', b'⟩ := p
    by_cases e : a' = a
    · simp only [erase, e, if_true] at h
      have := ih h
      simp [this.1, this.2]
    · simp only [erase, e, if_false, List.map_cons, List.mem_cons] at h
      rcases h with h | h
      · subst h; simp [e]
      · have := ih h
        simp [this.1, this.2]

theorem nodup_erase {α β : Type} [DecidableEq α] (m : List (α × β)) (a : α)
    (h : (m.map Prod.fst).Nodup) : ((erase m a).map Prod.fst).Nodup := by
  induction m with
  | nil => simp [erase]
  | cons p m ih =>
    obtain ⟨a', b'⟩ := p
    simp only [List.map_cons, List.nodup_cons] at h
    by_cases e : a' = a
    · simp only [erase, e, if_true]; exact ih h.2
    · simp only [erase, e, if_false, List.map_cons, List.nodup_cons]
      refine ⟨fun hm => h.1 (names_erase m a a' hm).1, ih h.2⟩

theorem nodup_insert {α β : Type} [DecidableEq α] (m : List (α × β)) (a : α) (b : β)
    (h : (m.map Prod.fst).Nodup) : ((insert m a b).map Prod.fst).Nodup := by
  simp only [insert, List.map_cons, List.nodup_cons]
  exact ⟨fun hm => (names_erase m a a hm).2 rfl, nodup_erase m a h⟩

theorem nodup_foldl_insert (l : List Entry) (acc : List Entry) (h : (acc.map Prod.fst).Nodup) :
    ((l.foldl (fun m p => insert m p.1 p.2) acc).map Prod.fst).Nodup := by
  induction l generalizing acc with
  | nil => simpa using h
  | cons p l ih => exact ih _ (nodup_insert acc p.1 p.2 h)

theorem decodeDoc_nodup (d : Doc) (l : List Entry) (h : decodeDoc d = some l) : (l.map Prod.fst).Nodup := by
  cases d with
  | empty => simp [decodeDoc] at h
  | garbage => simp [decodeDoc] at h
  | entries es =>
    simp only [decodeDoc, Option.some.injEq] at h
    subst h
    exact nodup_foldl_insert es [] (by simp)

/-! ### the invariant -/

/-- the three in-memory views agree: the lookup map is exactly the index of the cache by key hash, and
every live map equals the lookup map; the maps exist; no unsynchronised access / nil-map panic happened. -/
structure Inv (H : Key → Hash) (st : St) : Prop where
  loaded : st.loaded = true
  noFault : st.fault = false
  nodup : (st.cache.map Prod.fst).Nodup
  sound : ∀ h n k, find st.lookup h = some (n, k) → find st.cache n = some k ∧ H k = h
  complete : ∀ n k, find st.cache n = some k → find st.lookup (H k) = some (n, k)
  tcp_eq : ∀ m, st.tcp = some m → ∀ h, find m h = find st.lookup h
  udp_eq : ∀ m, st.udp = some m → ∀ h, find m h = find st.lookup h


variable (H : Key → Hash)

theorem map_some {α β : Type} {f : α → β} {o : Option α} {b : β} (h : o.map f = some b) :
    ∃ a, o = some a ∧ b = f a := by
  cases o with
  | none => simp at h
  | some a => exact ⟨a, rfl, by simpa using h.symm⟩

theorem isSome_false {α : Type} {o : Option α} (h : ¬ o.isSome = true) : o = none := by
  cases o <;> simp_all

/-! ### the four mutations keep the invariant -/

theorem inv_add {st : St} (hi : Inv H st) (n : Name) (k : Key)
    (h1 : find st.cache n = none) (h2 : find st.lookup (H k) = none) :
    Inv H { pskLen := st.pskLen, loaded := true, cache := insert st.cache n k,
            lookup := insert st.lookup (H k) (n, k),
            tcp := Option.map (fun m => insert m (H k) (n, k)) st.tcp,
            udp := Option.map (fun m => insert m (H k) (n, k)) st.udp, file := st.file,
            cachedContent := st.cachedContent, pending := st.pending, saverBusy := st.saverBusy, fault := st.fault } := by
  refine ⟨rfl, hi.noFault, nodup_insert _ _ _ hi.nodup, ?_, ?_, ?_, ?_⟩
  · intro h n' k' hf
    simp only [find_insert] at hf ⊢
    have := hi.sound
    grind
  · intro n' k' hf
    simp only [find_insert] at hf ⊢
    have := hi.complete
    grind
  · intro m hm h
    obtain ⟨m0, h0, rfl⟩ := map_some hm
    simp only [find_insert]
    rw [hi.tcp_eq m0 h0]
  · intro m hm h
    obtain ⟨m0, h0, rfl⟩ := map_some hm
    simp only [find_insert]
    rw [hi.udp_eq m0 h0]

theorem inv_update {st : St} (hi : Inv H st) (n : Name) (k k0 : Key)
    (h1 : find st.cache n = some k0) (h2 : find st.lookup (H k) = none) :
    Inv H { pskLen := st.pskLen, loaded := st.loaded, cache := insert st.cache n k,
            lookup := insert (erase st.lookup (H k0)) (H k) (n, k),
            tcp := Option.map (fun m => insert (erase m (H k0)) (H k) (n, k)) st.tcp,
            udp := Option.map (fun m => insert (erase m (H k0)) (H k) (n, k)) st.udp, file := st.file,
            cachedContent := st.cachedContent, pending := st.pending, saverBusy := st.saverBusy, fault := st.fault } := by
  refine ⟨hi.loaded, hi.noFault, nodup_insert _ _ _ hi.nodup, ?_, ?_, ?_, ?_⟩
  · intro h n' k' hf
    simp only [find_insert, find_erase] at hf ⊢
    have := hi.sound
    have := hi.complete
    grind
  · intro n' k' hf
    simp only [find_insert, find_erase] at hf ⊢
    have := hi.complete
    grind
  · intro m hm h
    obtain ⟨m0, h0, rfl⟩ := map_some hm
    simp only [find_insert, find_erase]
    rw [hi.tcp_eq m0 h0]
  · intro m hm h
    obtain ⟨m0, h0, rfl⟩ := map_some hm
    simp only [find_insert, find_erase]
    rw [hi.udp_eq m0 h0]

theorem inv_delete {st : St} (hi : Inv H st) (n : Name) (k0 : Key)
    (h1 : find st.cache n = some k0) :
    Inv H { pskLen := st.pskLen, loaded := st.loaded, cache := erase st.cache n,
            lookup := erase st.lookup (H k0),
            tcp := Option.map (fun m => erase m (H k0)) st.tcp,
            udp := Option.map (fun m => erase m (H k0)) st.udp, file := st.file,
            cachedContent := st.cachedContent, pending := st.pending, saverBusy := st.saverBusy, fault := st.fault } := by
  refine ⟨hi.loaded, hi.noFault, nodup_erase _ _ hi.nodup, ?_, ?_, ?_, ?_⟩
  · intro h n' k' hf
    simp only [find_erase] at hf ⊢
    have := hi.sound
    have := hi.complete
    grind
  · intro n' k' hf
    simp only [find_erase] at hf ⊢
    have := hi.complete
    grind
  · intro m hm h
    obtain ⟨m0, h0, rfl⟩ := map_some hm
    simp only [find_erase]
    rw [hi.tcp_eq m0 h0]
  · intro m hm h
    obtain ⟨m0, h0, rfl⟩ := map_some hm
    simp only [find_erase]
    rw [hi.udp_eq m0 h0]

/-! ### the validation loop of LoadFromFile -/

/-- the maps built by the validation loop index each other -/
theorem build_ok (p : Nat) (l : List Entry) (lk : ULM) (c : List Entry)
    (hb : build H p l = some (lk, c)) (hn : (l.map Prod.fst).Nodup) :
    (∀ h n k, find lk h = some (n, k) → find c n = some k ∧ H k = h) ∧
    (∀ n k, find c n = some k → find lk (H k) = some (n, k)) ∧
    (∀ n k, find c n = some k → n ∈ l.map Prod.fst) := by
  induction l generalizing lk c with
  | nil =>
    simp only [build, Option.some.injEq, Prod.mk.injEq] at hb
    obtain ⟨rfl, rfl⟩ := hb
    simp [find]
  | cons e rest ih =>
    obtain ⟨n0, k0⟩ := e
    simp only [List.map_cons, List.nodup_cons] at hn
    unfold build at hb
    cases hr : build H p rest with
    | none => simp [hr] at hb
    | some pr =>
      obtain ⟨lk0, c0⟩ := pr
      simp only [hr] at hb
      by_cases hlen : k0.len ≠ p
      · simp [hlen] at hb
      · by_cases hd : (find lk0 (H k0)).isSome = true
        · simp [hlen, hd] at hb
        · simp only [hlen, hd, if_false, Option.some.injEq, Prod.mk.injEq] at hb
          obtain ⟨rfl, rfl⟩ := hb
          obtain ⟨i1, i2, i3⟩ := ih lk0 c0 hr hn.2
          have hd' : find lk0 (H k0) = none := isSome_false hd
          have hfresh : find c0 n0 = none := by
            cases hq : find c0 n0 with
            | none => rfl
            | some k => exact absurd (i3 n0 k hq) hn.1
          refine ⟨?_, ?_, ?_⟩
          · intro h n k hf
            simp only [find_insert] at hf ⊢
            grind
          · intro n k hf
            simp only [find_insert] at hf ⊢
            grind
          · intro n k hf
            simp only [find_insert] at hf
            by_cases e : n0 = n
            · simp [e]
            · simp only [e, if_false] at hf
              simp [i3 n k hf]

theorem build_nodup (p : Nat) (l : List Entry) (lk : ULM) (c : List Entry)
    (hb : build H p l = some (lk, c)) : (c.map Prod.fst).Nodup := by
  induction l generalizing lk c with
  | nil =>
    simp only [build, Option.some.injEq, Prod.mk.injEq] at hb
    obtain ⟨_, rfl⟩ := hb
    simp
  | cons e rest ih =>
    obtain ⟨n0, k0⟩ := e
    unfold build at hb
    cases hr : build H p rest with
    | none => simp [hr] at hb
    | some pr =>
      obtain ⟨lk0, c0⟩ := pr
      simp only [hr] at hb
      by_cases hlen : k0.len ≠ p
      · simp [hlen] at hb
      · by_cases hd : (find lk0 (H k0)).isSome = true
        · simp [hlen, hd] at hb
        · simp only [hlen, hd, if_false, Option.some.injEq, Prod.mk.injEq] at hb
          obtain ⟨_, rfl⟩ := hb
          exact nodup_insert _ _ _ (ih lk0 c0 hr)

/-- the cache built by the validation loop is the decoded map -/
theorem build_cache (p : Nat) (l : List Entry) (lk : ULM) (c : List Entry)
    (hb : build H p l = some (lk, c)) : ∀ n, find c n = find l n := by
  induction l generalizing lk c with
  | nil =>
    simp only [build, Option.some.injEq, Prod.mk.injEq] at hb
    obtain ⟨_, rfl⟩ := hb
    intro n; rfl
  | cons e rest ih =>
    obtain ⟨n0, k0⟩ := e
    unfold build at hb
    cases hr : build H p rest with
    | none => simp [hr] at hb
    | some pr =>
      obtain ⟨lk0, c0⟩ := pr
      simp only [hr] at hb
      by_cases hlen : k0.len ≠ p
      · simp [hlen] at hb
      · by_cases hd : (find lk0 (H k0)).isSome = true
        · simp [hlen, hd] at hb
        · simp only [hlen, hd, if_false, Option.some.injEq, Prod.mk.injEq] at hb
          obtain ⟨_, rfl⟩ := hb
          intro n
          simp only [find_insert, find, ih lk0 c0 hr n]

theorem inv_load {st : St} (hf : st.fault = false) (d : Doc) (lk : ULM) (c : List Entry)
    (hnd : (c.map Prod.fst).Nodup)
    (hs : (∀ h n k, find lk h = some (n, k) → find c n = some k ∧ H k = h) ∧
          (∀ n k, find c n = some k → find lk (H k) = some (n, k))) :
    Inv H { pskLen := st.pskLen, loaded := true, cache := c, lookup := lk,
            tcp := Option.map (fun _ => lk) st.tcp, udp := Option.map (fun _ => lk) st.udp,
            file := st.file, cachedContent := d, pending := st.pending, saverBusy := st.saverBusy, fault := st.fault } := by
  refine ⟨rfl, hf, hnd, hs.1, hs.2, ?_, ?_⟩
  · intro m hm h
    obtain ⟨m0, _, rfl⟩ := map_some hm
    rfl
  · intro m hm h
    obtain ⟨m0, _, rfl⟩ := map_some hm
    rfl

end SSV.Cred
