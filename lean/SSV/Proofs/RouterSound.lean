import SSV.Proofs.RouterPorts
import SSV.Model.RouterSpec
/-
C09 helper lemmas: each section of `build` produces criteria whose `Meet` is the documented condition.
-/
namespace SSV.Router
open SSV.Router.Spec SSV.Gen

/-! ### algebra of results -/

def R.ofV : V → R
  | .t => .yes
  | .f => .no
  | .e x => .fail x

def R.inv (i : Bool) (r : R) : R := if i then r.invert else r

@[simp] theorem R.ofV_ofBool (b : Bool) : R.ofV (V.ofBool b) = R.ofBool b := by
  cases b <;> rfl

theorem R.inv_ofV (i : Bool) (v : V) : R.inv i (R.ofV v) = R.ofV (v.inv i) := by
  cases i <;> cases v <;> rfl

theorem R.ofV_and (v w : V) : R.ofV (v.and w) = (R.ofV v).andThen (R.ofV w) := by
  cases v <;> rfl

theorem R.ofV_or (v w : V) : R.ofV (v.or w) = (R.ofV v).orElse (R.ofV w) := by
  cases v <;> rfl

theorem meet_wrap (p : Params) (q : Req) (i : Bool) (c : Crit) : meet p q (wrap i c) = R.inv i (meet p q c) := by
  cases i <;> simp [wrap, R.inv, meet]

theorem meetAll_append (p : Params) (q : Req) (a b : List Crit) :
    meetAll p q (a ++ b) = (meetAll p q a).andThen (meetAll p q b) := by
  induction a with
  | nil => rfl
  | cons c cs ih =>
    simp only [List.cons_append, meetAll, ih]
    cases meet p q c <;> rfl

theorem meetAll_single (p : Params) (q : Req) (c : Crit) : meetAll p q [c] = meet p q c := by
  simp only [meetAll]; cases meet p q c <;> rfl

theorem meetAll_nil (p : Params) (q : Req) : meetAll p q [] = R.ofV .t := rfl

theorem V.or_f (v : V) : v.or .f = v := by cases v <;> rfl

theorem meetOr_map (p : Params) (q : Req) : ∀ (g : List Crit) (vs : List V),
    g.map (meet p q) = vs.map R.ofV → meetOr p q g = R.ofV (anyV vs) := by
  intro g
  induction g with
  | nil => intro vs h; cases vs with
    | nil => rfl
    | cons v vs => simp at h
  | cons c g ih =>
    intro vs h
    cases vs with
    | nil => simp at h
    | cons v vs =>
      simp only [List.map_cons, List.cons.injEq] at h
      simp only [meetOr, anyV, R.ofV_or, h.1, ih vs h.2]

/-- `CriterionGroupOR.AppendTo`: the OR of the kinds present; nothing present = no criterion -/
theorem meetAll_groupAppend (p : Params) (q : Req) (g : List Crit) (vs : List V)
    (h : g.map (meet p q) = vs.map R.ofV) : meetAll p q (groupAppend g) = R.ofV (orKinds vs) := by
  match g, vs, h with
  | [], [], _ => rfl
  | [], _ :: _, h => simp at h
  | _ :: _, [], h => simp at h
  | [c], [v], h =>
    simp only [List.map_cons, List.map_nil, List.cons.injEq, and_true] at h
    simp only [groupAppend, meetAll_single, h, orKinds, anyV, V.or_f]
  | [_], _ :: _ :: _, h => simp at h
  | _ :: _ :: _, [_], h => simp at h
  | c1 :: c2 :: g, v1 :: v2 :: vs, h =>
    simp only [groupAppend, meetAll_single, orKinds]
    simp only [meet]
    exact meetOr_map p q _ _ h

/-- `CriterionGroupOR.Criterion()` of a non-empty group -/
theorem meet_groupCriterion (p : Params) (q : Req) (g : List Crit) (vs : List V) (hne : vs ≠ [])
    (h : g.map (meet p q) = vs.map R.ofV) : meet p q (groupCriterion g) = R.ofV (orKinds vs) := by
  match g, vs, h with
  | [], [], _ => exact absurd rfl hne
  | [], _ :: _, h => simp at h
  | _ :: _, [], h => simp at h
  | [c], [v], h =>
    simp only [List.map_cons, List.map_nil, List.cons.injEq, and_true] at h
    simp only [groupCriterion, h, orKinds, anyV, V.or_f]
  | [_], _ :: _ :: _, h => simp at h
  | _ :: _ :: _, [_], h => simp at h
  | c1 :: c2 :: g, v1 :: v2 :: vs, h =>
    simp only [groupCriterion, orKinds]
    simp only [meet]
    exact meetOr_map p q _ _ h

/-! ### resolver iteration -/

theorem lookup_eq_find (p : Params) (d : String) : ∀ rs : List String,
    lookup p d rs =
      (match rs.find? (fun r => !isLookupFailure (p.resolve r d)) with
       | none => .error .noAvailableResolvers
       | some r =>
         match p.resolve r d with
         | .addr a => .ok a
         | .fail t => .error (.resolver t)
         | .errLookup => .error .noAvailableResolvers) := by
  intro rs
  induction rs with
  | nil => rfl
  | cons r rs ih =>
    simp only [lookup, List.find?_cons]
    cases h : p.resolve r d with
    | addr a => simp [h, isLookupFailure]
    | errLookup => simp [ih, isLookupFailure]
    | fail t => simp [h, isLookupFailure]

theorem lookup_spec (p : Params) (env : Env) (rc : RouteConfig) (d : String) (rs : List String)
    (h : resolversFor env rc = .ok rs) : lookup p d rs = resolveSpec p env rc d := by
  rw [lookup_eq_find]
  unfold resolversFor at h
  unfold resolveSpec
  by_cases e : rc.resolver = ""
  · simp only [e, if_true] at h ⊢
    cases h; rfl
  · simp only [e, if_false] at h ⊢
    split at h
    · cases h; rfl
    · cases h

end SSV.Router
